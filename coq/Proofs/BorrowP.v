(* C07 — lemmas about Models/Borrow.v: algebra of pathsOverlap *)
From Coq Require Import List Bool Arith ZArith Lia.
From FV Require Import Models.Borrow.
Import ListNotations.

Lemma seg_same_sym : forall a b, seg_same a b = seg_same b a.
Proof. destruct a, b; simpl; auto using Nat.eqb_sym. Qed.

Lemma pathsOverlap_sym : forall a b, pathsOverlap a b = pathsOverlap b a.
Proof.
  induction a as [|x a IH]; destruct b as [|y b]; simpl; auto.
  rewrite (orb_comm (is_index x)), (seg_same_sym x y), IH. reflexivity.
Qed.
