(* C20 — TrimSpace never removes anything at or before an ASCII non-blank byte, whatever follows it
   (used for inline comments with arbitrary content). *)
From Coq Require Import ZArith List Bool Lia.
From FV Require Import Models.Toml Proofs.TomlBasics.
Import ListNotations.
Open Scope Z_scope.

Fixpoint high_prefix (k : nat) (l : bytes) : Prop :=
  match k, l with
  | O, _ => True
  | S k', d :: r => 128 <= d /\ high_prefix k' r
  | S _, [] => False
  end.

Lemma sl_rev_high x r k : space_len_rev (x :: r) = S k -> high_prefix k r.
Proof.
  unfold space_len_rev, e280_space. destruct (ascii_space x).
  - intros H. inversion H. exact I.
  - destruct r as [|d [|e r'']];
    repeat match goal with |- context [if ?b then _ else _] => let E := fresh "E" in destruct b eqn:E end;
    intros H; inversion H; subst; cbn [high_prefix];
    repeat (rewrite ?andb_true_iff, ?orb_true_iff, ?Z.eqb_eq, ?Z.leb_le in * ); intuition lia.
Qed.

Lemma trim_rev_stop c rl : plain c -> forall rt skip, high_prefix skip (rt ++ c :: rl) ->
  exists rt', trim_with space_len_rev skip (rt ++ c :: rl) = rt' ++ c :: rl.
Proof.
  intros Hc. induction rt as [|x rt IH]; intros skip Hs.
  - cbn [app] in *. destruct skip as [|k].
    + exists []. cbn [trim_with app]. rewrite space_len_rev_ascii by (unfold plain in Hc; lia).
      rewrite (plain_not_space c Hc). reflexivity.
    + cbn [high_prefix] in Hs. unfold plain in Hc. lia.
  - cbn [app] in *. destruct skip as [|k].
    + cbn [trim_with]. destruct (space_len_rev (x :: rt ++ c :: rl)) as [|k] eqn:E.
      * exists (x :: rt). reflexivity.
      * apply IH. eapply sl_rev_high; eauto.
    + cbn [trim_with]. cbn [high_prefix] in Hs. apply IH. tauto.
Qed.

Lemma trim_right_tail (t l : bytes) c : plain c -> exists t', trim_right (l ++ c :: t) = l ++ c :: t'.
Proof.
  intros Hc. unfold trim_right. rewrite !frev_rev. rewrite rev_app_distr. cbn [rev]. rewrite <- app_assoc. cbn [app].
  destruct (trim_rev_stop c (rev l) Hc (rev t) 0%nat I) as [rt' E]. rewrite E.
  exists (rev rt'). rewrite rev_app_distr. cbn [rev]. rewrite rev_involutive. rewrite <- app_assoc. reflexivity.
Qed.
