(* C18 — the statements exported to Props/C18.v, assembled from Proofs/LayoutP.v; the regenerated primitive
   table gen/Gen_C18Prims.v is checked here. *)
From Coq Require Import ZArith List Bool Lia.
From FV Require Import Models.Layout Proofs.LayoutP gen.Gen_C18Prims.
Import ListNotations.
Open Scope Z_scope.

Lemma thm_align_pos : forall ps t, 1 <= ps -> wfz t -> 1 <= align_of ps t /\ 0 <= size_of ps t.
Proof. intros. split; [apply align_pos|apply size_nonneg]; assumption. Qed.

Lemma thm_size_multiple : forall ps t, is_pow2 ps -> wf t ->
  is_pow2 (align_of ps t) /\ (align_of ps t | size_of ps t).
Proof. intros. apply aligned_all; assumption. Qed.

Lemma thm_component_inside : forall ps t p o tp, 1 <= ps -> wfz t -> resolve ps t p = Some (o, tp) ->
  0 <= o /\ o + size_of ps tp <= size_of ps t.
Proof. intros ps t p o tp Hps Hw Hr. destruct (resolve_inside _ _ _ _ _ Hps Hw Hr) as [A [B _]]. split; assumption. Qed.

Lemma thm_components_disjoint : forall ps t p q o1 t1 o2 t2, 1 <= ps -> wfz t ->
  resolve ps t p = Some (o1, t1) -> resolve ps t q = Some (o2, t2) -> paths_separate p q = true ->
  o1 + size_of ps t1 <= o2 \/ o2 + size_of ps t2 <= o1.
Proof. intros. eapply paths_separate_disjoint; eauto. Qed.

Lemma thm_fields : forall ps fs i j oi ti oj tj, 1 <= ps -> wfz (TStruct fs) ->
  step_into ps (TStruct fs) (SField i) = Some (oi, ti) ->
  step_into ps (TStruct fs) (SField j) = Some (oj, tj) ->
  (0 <= oi /\ oi + size_of ps ti <= size_of ps (TStruct fs) /\ (align_of ps ti | oi)) /\
  (i <> j -> oi + size_of ps ti <= oj \/ oj + size_of ps tj <= oi) /\
  ((i < j)%nat -> oi + size_of ps ti <= oj).
Proof.
  intros ps fs i j oi ti oj tj Hps Hw Hi Hj.
  destruct (step_inside _ _ _ _ _ Hps Hw Hi) as [A [B _]].
  pose proof (wfz_fields_good ps fs Hps Hw) as Hg.
  destruct (struct_spec ps fs Hg) as [e [Hc _]].
  pose proof (map_sa_ok _ _ Hg) as Hok.
  simpl in Hi, Hj.
  destruct (nth_error fs i) as [f1|] eqn:Hf1; [|discriminate].
  destruct (nth_error (field_offsets ps fs) i) as [p1|] eqn:Ho1; [|discriminate].
  destruct (p1 <? 0); [discriminate|]. inversion Hi; subst.
  destruct (nth_error fs j) as [f2|] eqn:Hf2; [|discriminate].
  destruct (nth_error (field_offsets ps fs) j) as [p2|] eqn:Ho2; [|discriminate].
  destruct (p2 <? 0); [discriminate|]. inversion Hj; subst.
  pose proof (nth_error_map_sa ps _ _ _ Hf1) as M1. pose proof (nth_error_map_sa ps _ _ _ Hf2) as M2.
  destruct (chain_nth _ _ _ _ _ _ _ _ Hok Hc Ho1 M1) as [_ [_ C]].
  split; [repeat split; assumption|]. split.
  - intros Hne. destruct (Nat.lt_ge_cases i j) as [Hlt|Hge].
    + left. eapply (chain_lt _ _ _ _ i j); eauto.
    + right. eapply (chain_lt _ _ _ _ j i); eauto. lia.
  - intros Hlt. eapply (chain_lt _ _ _ _ i j); eauto.
Qed.

Lemma thm_elems : forall ps n e i j, 1 <= ps -> wfz (TArr n e) -> 0 <= i < n -> 0 <= j < n ->
  (0 <= elem_offset ps e i /\ elem_offset ps e i + size_of ps e <= size_of ps (TArr n e)) /\
  (i < j -> elem_offset ps e i + size_of ps e <= elem_offset ps e j).
Proof.
  intros ps n e i j Hps [Hn He] Hi Hj. pose proof (size_nonneg ps e Hps He).
  unfold elem_offset. rewrite size_of_arr by lia. repeat split; nia.
Qed.

Lemma thm_opt_flag : forall ps i, 1 <= ps -> wfz i ->
  size_of ps i <= opt_flag_offset ps i /\ opt_flag_offset ps i + 1 <= size_of ps (TOpt i).
Proof. exact opt_flag_inside. Qed.

Lemma thm_res_tag : forall ps a b, 1 <= ps -> wfz a -> wfz b ->
  Z.max (size_of ps a) (size_of ps b) <= res_tag_offset ps a b /\
  res_tag_offset ps a b + 1 <= size_of ps (TRes a b).
Proof. exact res_tag_inside. Qed.

Lemma thm_consumers_agree : forall ps a b i, 1 <= ps -> wfz a -> wfz b -> wfz i ->
  size_of ps (TRes a b) = align_to (res_tag_offset ps a b + 1) (Z.max (Z.max (align_of ps a) (align_of ps b)) 1) /\
  size_of ps (TOpt i) = align_to (opt_flag_offset ps i + 1) (Z.max (align_of ps i) 1).
Proof.
  intros ps a b i Hps Ha Hb Hi. split.
  - apply res_tag_is_union_size; assumption.
  - unfold opt_flag_offset. apply size_of_opt. apply size_nonneg; assumption.
Qed.

Lemma thm_components_aligned : forall ps t p o tp base, is_pow2 ps -> wf t ->
  resolve ps t p = Some (o, tp) -> (align_of ps t | base) -> (align_of ps tp | base + o).
Proof. intros ps t p. revert t. exact (resolve_aligned ps p). Qed.

Lemma thm_store_load : forall ps t base m p o tp bs,
  1 <= ps -> wfz t -> resolve ps t p = Some (o, tp) -> Z.of_nat (length bs) = size_of ps tp ->
  load_bytes (store_bytes m (base + o) bs) (base + o) (length bs) = bs /\
  (forall q o2 tq, resolve ps t q = Some (o2, tq) -> paths_separate p q = true ->
     load_bytes (store_bytes m (base + o) bs) (base + o2) (Z.to_nat (size_of ps tq)) =
     load_bytes m (base + o2) (Z.to_nat (size_of ps tq))) /\
  (forall x, x < base \/ base + size_of ps t <= x -> store_bytes m (base + o) bs x = m x).
Proof.
  intros ps t base m p o tp bs Hps Hw Hr Hlen. split; [apply load_store_same|]. split.
  - intros q o2 tq Hq Hsep.
    pose proof (paths_separate_disjoint _ _ _ _ _ _ _ _ Hps Hw Hr Hq Hsep) as Hd.
    destruct (resolve_inside _ _ _ _ _ Hps Hw Hq) as [_ [_ Hwq]].
    pose proof (size_nonneg ps tq Hps Hwq).
    apply load_store_disjoint. unfold disjoint in *. rewrite Z2Nat.id by lia. lia.
  - intros x Hx. destruct (resolve_inside _ _ _ _ _ Hps Hw Hr) as [A [B _]].
    apply store_outside. lia.
Qed.

Lemma thm_copy_all : forall ps t m dst src q o tq,
  1 <= ps -> wfz t ->
  dst + size_of ps t <= src \/ src + size_of ps t <= dst ->
  resolve ps t q = Some (o, tq) ->
  load_bytes (memcpy m dst src (Z.to_nat (size_of ps t))) (dst + o) (Z.to_nat (size_of ps tq)) =
  load_bytes m (src + o) (Z.to_nat (size_of ps tq)).
Proof.
  intros ps t m dst src q o tq Hps Hw Hd Hq.
  destruct (resolve_inside _ _ _ _ _ Hps Hw Hq) as [A [B Hwq]].
  pose proof (size_nonneg ps tq Hps Hwq). pose proof (size_nonneg ps t Hps Hw).
  apply memcpy_copies; try lia.
  unfold disjoint. rewrite Z2Nat.id by lia. exact Hd.
Qed.

(* the primitive sizes of the working tree (regenerated) satisfy the hypothesis `wf` of the alignment theorems *)
Lemma thm_prims_wf : Forall is_pow2 prim_sizes /\ Forall is_pow2 other_sizes /\ is_pow2 4 /\ is_pow2 8 /\
  Forall (fun s => 1 <= s <= 32) prim_sizes.
Proof.
  split; [apply forallb_pow2; vm_compute; reflexivity|].
  split; [apply forallb_pow2; vm_compute; reflexivity|].
  split; [exists 2; split; [lia|reflexivity]|].
  split; [exists 3; split; [lia|reflexivity]|].
  apply Forall_forall. intros s Hs.
  assert (forallb (fun s => (1 <=? s) && (s <=? 32)) prim_sizes = true) as Hb by (vm_compute; reflexivity).
  rewrite forallb_forall in Hb. specialize (Hb s Hs). apply andb_prop in Hb. destruct Hb as [H1 H2].
  apply Z.leb_le in H1. apply Z.leb_le in H2. lia.
Qed.

Lemma thm_wf_wfz : forall t, wf t -> wfz t.
Proof. exact wf_wfz. Qed.

(* ---- non-vacuity: the hint's width sequence i8, i64, i16 followed by an optional, nested and in an array ---- *)
Definition ex_inner : lty := TStruct [TPrim 1; TPrim 8; TPrim 2; TOpt (TPrim 8)].
Definition ex_outer : lty := TStruct [TPrim 1; TArr 3 ex_inner; TRes (TPrim 4) TPtr; TPrim 1].

Lemma thm_nonvacuous :
  wf ex_outer /\ wfz ex_outer /\
  size_of 8 ex_inner = 40 /\ size_of 4 ex_inner = 28 /\ size_of 8 ex_outer = 152 /\ size_of 4 ex_outer = 100 /\
  resolve 8 ex_outer [SField 1; SElem 2; SField 3; SOptFlag] = Some (120, flag_ty) /\
  resolve 8 ex_outer [SField 1; SElem 2; SField 3; SOptVal] = Some (112, TPrim 8) /\
  resolve 8 ex_outer [SField 2; SResTag] = Some (136, flag_ty) /\
  paths_separate [SField 1; SElem 2; SField 3; SOptFlag] [SField 1; SElem 2; SField 3; SOptVal] = true /\
  paths_separate [SField 1; SElem 2; SField 1] [SField 1; SElem 1; SField 3] = true /\
  paths_separate [SField 2; SResOk] [SField 2; SResErr] = false.
Proof.
  split.
  { simpl. repeat split; try lia; try (exists 0; split; [lia|reflexivity]); try (exists 1; split; [lia|reflexivity]);
      try (exists 2; split; [lia|reflexivity]); try (exists 3; split; [lia|reflexivity]). }
  split.
  { simpl. repeat split; lia. }
  repeat split; vm_compute; reflexivity.
Qed.
