(* C05 — soundness of acceptance: an accepted body ends every terminating run in `return <value>`. *)
From Coq Require Import List Bool Arith Lia.
From FV Require Import Models.Returns Models.ReturnsSpec Proofs.ReturnsDfs Proofs.ReturnsSpecP
                       Proofs.ReturnsBuildP Proofs.ReturnsBuildCases.
Import ListNotations.

Theorem graph_covers_all body : graph_covers_runs body.
Proof. intros o Hr Eo. subst o. apply graph_covers_falling_runs. exact Hr. Qed.

(* a run that ends in `return;` goes through a bare return statement, which the type checker counts *)
Lemma bare_return_counted :
  (forall s o, run_stmt s o -> o = OReturn false -> 0 < bare_stmt s) /\
  (forall b o, run_block b o -> o = OReturn false -> 0 < bare_block b) /\
  (forall i o, run_ifs i o -> o = OReturn false -> 0 < bare_ifs i) /\
  (forall a o, run_arms a o -> o = OReturn false -> 0 < bare_arms a) /\
  (forall (lt : bool) b o, run_loop lt b o -> o = OReturn false -> 0 < bare_block b).
Proof.
  apply run_mutind; intros; simpl in *; try discriminate; auto;
    try (match goal with H : OReturn _ = OReturn false |- _ => inversion H; subst; simpl; lia end);
    try (match goal with IH : ?o = OReturn false -> _, E : ?o = OReturn false |- _ => specialize (IH E); lia end).
Qed.

Theorem accepted_sound p body : accepted p body = true -> returns_value_always body.
Proof.
  intros A o Hr.
  assert (A' := A). unfold accepted in A'. rewrite !andb_true_iff in A'.
  destruct A' as [[[[[Ha Hm] Hu] Hi] Ho] Hb].
  unfold check_body in Ho, Hb. rewrite Ha in Ho, Hb. simpl in Ho, Hb.
  apply Nat.eqb_eq in Ho. apply Nat.eqb_eq in Hb.
  destruct o as [|[|]| |].
  - exfalso. exact (accepted_no_fall_given_cover body p (graph_covers_all body) A Hr).
  - reflexivity.
  - exfalso. assert (B := proj1 (proj2 bare_return_counted) _ _ Hr eq_refl). lia.
  - exfalso. assert (B := escaping_jump_diagnosed body _ Hr (or_introl eq_refl)). lia.
  - exfalso. assert (B := escaping_jump_diagnosed body _ Hr (or_intror eq_refl)). lia.
Qed.

Corollary accepted_no_fall p body : accepted p body = true -> ~ falls_off body.
Proof. intros A F. specialize (accepted_sound p body A _ F). discriminate. Qed.

(* the ported analysis never accepts what the (exact) specification decider rejects *)
Corollary accepted_spec_ok p body : accepted p body = true -> spec_ok body = true.
Proof. intros A. apply spec_ok_iff. exact (accepted_sound p body A). Qed.
