(* C09 (reference side): lifting local rewrite facts to whole programs.
   `rle r r'` ("r is r' unless r ran out of fuel") is the refinement order on results.  The interpreter is monotone in the
   meaning of calls (eval_mono / exec_mono), every single-hole expression and statement context preserves the order
   (eval_ctx / exec_ctx), and two programs that differ in the body of one function are related as soon as the two bodies
   are related under related meanings of calls (prog_refine).  Rewrites at several sites compose by transitivity. *)
From Coq Require Import String ZArith List Bool Lia.
From FV Require Import Core.Syntax Core.Sem Proofs.RewriteP.
Import ListNotations.

Definition rle {A} (r r' : res A) : Prop := r = Fuel \/ r = r'.

Lemma rle_refl {A} (r : res A) : rle r r.
Proof. right; reflexivity. Qed.

Lemma rle_trans {A} (a b c : res A) : rle a b -> rle b c -> rle a c.
Proof. intros [->| ->] H; [left; reflexivity|exact H]. Qed.

Lemma rle_antisym {A} (a b : res A) : rle a b -> rle b a -> a = b.
Proof. intros [->| ->] [->| H]; congruence. Qed.

Lemma rle_bind {A B} (r r' : res A) (k k' : A -> list line -> res B) :
  rle r r' -> (forall a out, rle (k a out) (k' a out)) -> rle (bind r k) (bind r' k').
Proof.
  intros [->| ->] Hk; [left; reflexivity|].
  destruct r' as [a out| | |]; cbn; [apply Hk|left; reflexivity|right; reflexivity|right; reflexivity].
Qed.

Definition cle (c c' : nat -> list value -> list line -> res (value * list value)) : Prop :=
  forall g vs out, rle (c g vs out) (c' g vs out).

Ltac mono_step IH :=
  first
  [ apply rle_refl
  | apply rle_bind; [ solve [ apply IH | assumption | auto ] | intros ]
  | match goal with
    | |- rle (match ?x with _ => _ end) (match ?x with _ => _ end) => destruct x
    | |- rle (if ?x then _ else _) (if ?x then _ else _) => destruct x
    end ].
Ltac mono IH := repeat (mono_step IH).

Section Mono.
Variable structs : structs_t.
Variables callf callf' : nat -> list value -> list line -> res (value * list value).
Hypothesis Hc : cle callf callf'.

Lemma eval_mono : forall e en out, rle (eval structs callf e en out) (eval structs callf' e en out).
Proof.
  fix IH 1. intros e en out.
  destruct e as [t0 z|b|s|x|o a b|o a|a t0|f es|sid es|a k|f args]; cbn.
  - apply rle_refl.
  - apply rle_refl.
  - apply rle_refl.
  - apply rle_refl.
  - destruct o; mono IH.
  - destruct o; mono IH.
  - mono IH.
  - generalize (@nil value) as acc. revert en out.
    induction es as [|e1 r IHr]; intros en out acc.
    + apply rle_bind; [apply Hc|intros; apply rle_refl].
    + apply rle_bind; [apply IH|intros; apply IHr].
  - generalize (@nil Z) as acc. revert en out.
    induction es as [|e1 r IHr]; intros en out acc.
    + apply rle_refl.
    + apply rle_bind; [apply IH|intros a0 out0; destruct (fst a0); try apply rle_refl; apply IHr].
  - mono IH.
  - generalize (@nil value) as acc. generalize args at 1 3 as args0. revert en out.
    induction args as [|[fl e1] r IHr]; intros en out args0 acc.
    + apply rle_bind; [apply Hc|intros; apply rle_refl].
    + apply rle_bind; [apply IH|intros; apply IHr].
Qed.

Lemma exec_mono : forall s k en out, rle (exec structs callf k s en out) (exec structs callf' k s en out).
Proof.
  induction s as [|a IHa b IHb|x t e|x e|x f e|c a IHa b IHb|c body IHb|x t lo hi incl step body IHb| | |oe|es|e|a IHa];
    intros k en out; cbn.
  - apply rle_refl.
  - apply rle_bind; [apply IHa|]. intros [en' fl] out'. destruct fl; try apply rle_refl. apply IHb.
  - mono eval_mono.
  - mono eval_mono.
  - mono eval_mono.
  - apply rle_bind; [apply eval_mono|]. intros rc out'.
    destruct (fst rc) as [| [|] | | |]; try apply rle_refl;
      (apply rle_bind; [solve [apply IHa | apply IHb]|intros; apply rle_refl]).
  - generalize k at 2 4 as n. intros n. revert en out.
    induction n as [|n IHn]; intros en out; [apply rle_refl|].
    apply rle_bind; [apply eval_mono|]. intros rc out'.
    destruct (fst rc) as [| [|] | | |]; try apply rle_refl.
    apply rle_bind; [apply IHb|]. intros r out''. destruct (snd r); try apply rle_refl; apply IHn.
  - apply rle_bind; [apply eval_mono|]. intros rlo o1.
    apply rle_bind; [apply eval_mono|]. intros rhi o2.
    apply rle_bind; [apply eval_mono|]. intros rst o3.
    destruct (fst rlo); try apply rle_refl. destruct (fst rhi); try apply rle_refl. destruct (fst rst); try apply rle_refl.
    generalize (snd rst) as en1. generalize v as i. generalize k at 2 4 as n. intros n. revert o3.
    induction n as [|n IHn]; intros o3 i en1; [apply rle_refl|].
    destruct (for_cond incl v1 i v0); [|apply rle_refl].
    apply rle_bind; [apply IHb|]. intros r out''. destruct (snd r); try apply rle_refl; apply IHn.
  - apply rle_refl.
  - apply rle_refl.
  - destruct oe; mono eval_mono.
  - generalize (@nil item) as acc. revert en out.
    induction es as [|e1 r IHr]; intros en out acc; [apply rle_refl|].
    apply rle_bind; [apply eval_mono|]. intros r1 o1. destruct (item_of (fst r1)); [apply IHr|apply rle_refl].
  - mono eval_mono.
  - apply rle_bind; [apply IHa|intros; apply rle_refl].
Qed.
End Mono.

(* ---------------------------------------------------------------- single-hole contexts *)
Inductive ectx :=
| CHole
| CBinL (o : binop) (C : ectx) (b : expr)
| CBinR (o : binop) (a : expr) (C : ectx)
| CUn (o : unop) (C : ectx)
| CCast (C : ectx) (t : ity)
| CCall (f : nat) (pre : list expr) (C : ectx) (post : list expr)
| CStruct (sid : nat) (pre : list expr) (C : ectx) (post : list expr)
| CField (C : ectx) (k : nat)
| CCallR (f : nat) (pre : list (bool * expr)) (C : ectx) (post : list (bool * expr)).   (* a by-value argument position *)

Fixpoint eplug (C : ectx) (e : expr) : expr :=
  match C with
  | CHole => e
  | CBinL o C b => EBin o (eplug C e) b
  | CBinR o a C => EBin o a (eplug C e)
  | CUn o C => EUn o (eplug C e)
  | CCast C t => ECast (eplug C e) t
  | CCall f pre C post => ECall f (pre ++ eplug C e :: post)
  | CStruct sid pre C post => EStructLit sid (pre ++ eplug C e :: post)
  | CField C k => EField (eplug C e) k
  | CCallR f pre C post => ECallR f (pre ++ (false, eplug C e) :: post)
  end.

Inductive sctx :=
| KHole                                             (* a statement position *)
| KLet (x : nat) (t : ty) | KAssign (x : nat) | KAssignField (x k : nat)      (* the expression of the statement *)
| KIfC (a b : stmt) | KWhileC (body : stmt)
| KForLo (x : nat) (t : ity) (hi : expr) (incl : bool) (step : expr) (body : stmt)
| KForHi (x : nat) (t : ity) (lo : expr) (incl : bool) (step : expr) (body : stmt)
| KForStep (x : nat) (t : ity) (lo hi : expr) (incl : bool) (body : stmt)
| KReturn | KPrint (pre post : list expr) | KExpr
| KSeqL (K : sctx) (b : stmt) | KSeqR (a : stmt) (K : sctx)
| KIfT (c : expr) (K : sctx) (b : stmt) | KIfE (c : expr) (a : stmt) (K : sctx)
| KWhileB (c : expr) (K : sctx)
| KForB (x : nat) (t : ity) (lo hi : expr) (incl : bool) (step : expr) (K : sctx)
| KBlock (K : sctx).

(* fill the hole: a statement hole takes s, an expression hole takes e *)
Fixpoint splug (K : sctx) (s : stmt) (e : expr) : stmt :=
  match K with
  | KHole => s
  | KLet x t => SLet x t e | KAssign x => SAssign x e | KAssignField x k => SAssignField x k e
  | KIfC a b => SIf e a b | KWhileC body => SWhile e body
  | KForLo x t hi incl step body => SFor x t e hi incl step body
  | KForHi x t lo incl step body => SFor x t lo e incl step body
  | KForStep x t lo hi incl body => SFor x t lo hi incl e body
  | KReturn => SReturn (Some e) | KPrint pre post => SPrint (pre ++ e :: post) | KExpr => SExpr e
  | KSeqL K b => SSeq (splug K s e) b | KSeqR a K => SSeq a (splug K s e)
  | KIfT c K b => SIf c (splug K s e) b | KIfE c a K => SIf c a (splug K s e)
  | KWhileB c K => SWhile c (splug K s e)
  | KForB x t lo hi incl step K => SFor x t lo hi incl step (splug K s e)
  | KBlock K => SBlock (splug K s e)
  end.

Lemma copy_out_hole pre e e' post : forall fin en,
  copy_out (pre ++ (false, e) :: post) fin en = copy_out (pre ++ (false, e') :: post) fin en.
Proof.
  induction pre as [|[fl a] pre IH]; intros fin en; cbn.
  - destruct fin; reflexivity.
  - destruct fl.
    + destruct a; destruct fin; try reflexivity. destruct (update x v en); [apply IH|reflexivity].
    + destruct fin; [reflexivity|apply IH].
Qed.

Section Ctx.
Variable structs : structs_t.
Variables callf callf' : nat -> list value -> list line -> res (value * list value).
Hypothesis Hc : cle callf callf'.


Lemma for_rel x t incl lo lo' hi hi' st st' body body' :
  (forall en out, rle (eval structs callf lo en out) (eval structs callf' lo' en out)) ->
  (forall en out, rle (eval structs callf hi en out) (eval structs callf' hi' en out)) ->
  (forall en out, rle (eval structs callf st en out) (eval structs callf' st' en out)) ->
  (forall k en out, rle (exec structs callf k body en out) (exec structs callf' k body' en out)) ->
  forall k en out, rle (exec structs callf k (SFor x t lo hi incl st body) en out)
                       (exec structs callf' k (SFor x t lo' hi' incl st' body') en out).
Proof.
  intros Hlo Hhi Hst Hb k en out. cbn.
  apply rle_bind; [apply Hlo|]. intros rlo o1.
  apply rle_bind; [apply Hhi|]. intros rhi o2.
  apply rle_bind; [apply Hst|]. intros rst o3.
  destruct (fst rlo); try apply rle_refl. destruct (fst rhi); try apply rle_refl. destruct (fst rst); try apply rle_refl.
  generalize (snd rst) as en1. generalize v as i. generalize k at 2 4 as n. intros n. revert o3.
  induction n as [|n IHn]; intros o3 i en1; [apply rle_refl|].
  destruct (for_cond incl v1 i v0); [|apply rle_refl].
  apply rle_bind; [apply Hb|]. intros r out''. destruct (snd r); try apply rle_refl; apply IHn.
Qed.

Section E.
Variables e e' : expr.
Hypothesis He : forall en out, rle (eval structs callf e en out) (eval structs callf' e' en out).

Lemma eval_ctx : forall C en out,
  rle (eval structs callf (eplug C e) en out) (eval structs callf' (eplug C e') en out).
Proof.
  induction C as [|o C IH b|o a C IH|o C IH|C IH t|f pre C IH post|sid pre C IH post|C IH k|f pre C IH post];
    intros en out; cbn [eplug].
  - apply He.
  - cbn. destruct o; mono IH; mono (eval_mono structs callf callf' Hc).
  - cbn. destruct o; mono (eval_mono structs callf callf' Hc); mono IH.
  - cbn. destruct o; mono IH.
  - cbn. mono IH.
  - cbn. generalize (@nil value) as acc. revert en out.
    induction pre as [|e1 r IHr]; intros en out acc; cbn [app].
    + apply rle_bind; [apply IH|]. intros r1 o1.
      generalize (fst r1 :: acc) as acc1. generalize (snd r1) as en1. revert o1.
      induction post as [|e2 r2 IHp]; intros o1 en1 acc1.
      * apply rle_bind; [apply Hc|intros; apply rle_refl].
      * apply rle_bind; [apply (eval_mono structs callf callf' Hc)|intros; apply IHp].
    + apply rle_bind; [apply (eval_mono structs callf callf' Hc)|intros; apply IHr].
  - cbn. generalize (@nil Z) as acc. revert en out.
    induction pre as [|e1 r IHr]; intros en out acc; cbn [app].
    + apply rle_bind; [apply IH|]. intros r1 o1. destruct (fst r1); try apply rle_refl.
      generalize (v :: acc) as acc1. generalize (snd r1) as en1. revert o1.
      induction post as [|e2 r2 IHp]; intros o1 en1 acc1.
      * apply rle_refl.
      * apply rle_bind; [apply (eval_mono structs callf callf' Hc)|].
        intros a0 out0; destruct (fst a0); try apply rle_refl; apply IHp.
    + apply rle_bind; [apply (eval_mono structs callf callf' Hc)|].
      intros a0 out0; destruct (fst a0); try apply rle_refl; apply IHr.
  - cbn. mono IH.
  - cbn.
    pose proof (copy_out_hole pre (eplug C e) (eplug C e') post) as Hco.
    revert Hco.
    generalize (pre ++ (false, eplug C e) :: post) at 1 2 as A.
    generalize (pre ++ (false, eplug C e') :: post) at 1 2 as A'.
    intros A' A Hco.
    generalize (@nil value) as acc. revert en out.
    induction pre as [|[fl e1] r IHr]; intros en out acc; cbn [app].
    + apply rle_bind; [apply IH|]. intros r1 o1.
      generalize (fst r1 :: acc) as acc1. generalize (snd r1) as en1. revert o1.
      induction post as [|[fl2 e2] r2 IHp]; intros o1 en1 acc1.
      * apply rle_bind; [apply Hc|]. intros a0 out0. rewrite Hco. apply rle_refl.
      * apply rle_bind; [apply (eval_mono structs callf callf' Hc)|intros; apply IHp].
    + apply rle_bind; [apply (eval_mono structs callf callf' Hc)|intros; apply IHr].
Qed.
End E.

Section S.
Variables s s' : stmt.
Variables e e' : expr.
Hypothesis Hs : forall k en out, rle (exec structs callf k s en out) (exec structs callf' k s' en out).
Hypothesis He : forall en out, rle (eval structs callf e en out) (eval structs callf' e' en out).

Lemma exec_ctx : forall K k en out,
  rle (exec structs callf k (splug K s e) en out) (exec structs callf' k (splug K s' e') en out).
Proof.
  pose proof (eval_mono structs callf callf' Hc) as Em.
  pose proof (exec_mono structs callf callf' Hc) as Sm.
  induction K as [|x t|x|x f|a b|body|x t hi incl step body|x t lo incl step body|x t lo hi incl body| |pre post|
                  |K IH b|a K IH|c K IH b|c a K IH|c K IH|x t lo hi incl step K IH|K IH];
    intros k en out; cbn [splug].
  - apply Hs.
  - cbn. mono He.
  - cbn. mono He.
  - cbn. mono He.
  - cbn. apply rle_bind; [apply He|]. intros rc out'.
    destruct (fst rc) as [| [|] | | |]; try apply rle_refl; (apply rle_bind; [apply Sm|intros; apply rle_refl]).
  - cbn. generalize k at 2 4 as n. intros n. revert en out.
    induction n as [|n IHn]; intros en out; [apply rle_refl|].
    apply rle_bind; [apply He|]. intros rc out'.
    destruct (fst rc) as [| [|] | | |]; try apply rle_refl.
    apply rle_bind; [apply Sm|]. intros r out''. destruct (snd r); try apply rle_refl; apply IHn.
  - apply for_rel; [apply He|apply Em|apply Em|apply Sm].
  - apply for_rel; [apply Em|apply He|apply Em|apply Sm].
  - apply for_rel; [apply Em|apply Em|apply He|apply Sm].
  - cbn. mono He.
  - cbn. generalize (@nil item) as acc. revert en out.
    induction pre as [|e1 r IHr]; intros en out acc; cbn [app].
    + apply rle_bind; [apply He|]. intros r1 o1. destruct (item_of (fst r1)); [|apply rle_refl].
      generalize (i :: acc) as acc1. generalize (snd r1) as en1. revert o1.
      induction post as [|e2 r2 IHp]; intros o1 en1 acc1; [apply rle_refl|].
      apply rle_bind; [apply Em|]. intros r2' o2. destruct (item_of (fst r2')); [apply IHp|apply rle_refl].
    + apply rle_bind; [apply Em|]. intros r1 o1. destruct (item_of (fst r1)); [apply IHr|apply rle_refl].
  - cbn. mono He.
  - cbn. apply rle_bind; [apply IH|]. intros [en' fl] out'. destruct fl; try apply rle_refl. apply Sm.
  - cbn. apply rle_bind; [apply Sm|]. intros [en' fl] out'. destruct fl; try apply rle_refl. apply IH.
  - cbn. apply rle_bind; [apply Em|]. intros rc out'.
    destruct (fst rc) as [| [|] | | |]; try apply rle_refl;
      (apply rle_bind; [solve [apply IH | apply Sm]|intros; apply rle_refl]).
  - cbn. apply rle_bind; [apply Em|]. intros rc out'.
    destruct (fst rc) as [| [|] | | |]; try apply rle_refl;
      (apply rle_bind; [solve [apply IH | apply Sm]|intros; apply rle_refl]).
  - cbn. generalize k at 2 4 as n. intros n. revert en out.
    induction n as [|n IHn]; intros en out; [apply rle_refl|].
    apply rle_bind; [apply Em|]. intros rc out'.
    destruct (fst rc) as [| [|] | | |]; try apply rle_refl.
    apply rle_bind; [apply IH|]. intros r out''. destruct (snd r); try apply rle_refl; apply IHn.
  - apply for_rel; [apply Em|apply Em|apply Em|apply IH].
  - cbn. apply rle_bind; [apply IH|intros; apply rle_refl].
Qed.
End S.
End Ctx.

Lemma ctx_refinement :
  forall structs callf callf', cle callf callf' ->
  forall s s' e e',
    (forall k en out, rle (exec structs callf k s en out) (exec structs callf' k s' en out)) ->
    (forall en out, rle (eval structs callf e en out) (eval structs callf' e' en out)) ->
    forall C K k en out,
      rle (exec structs callf k (splug K s (eplug C e)) en out) (exec structs callf' k (splug K s' (eplug C e')) en out).
Proof.
  intros structs callf callf' Hc s s' e e' Hs He C K k en out.
  apply exec_ctx; [assumption|assumption|]. intros en0 out0. apply eval_ctx; assumption.
Qed.

(* ---------------------------------------------------------------- whole programs *)
Fixpoint upd_body (p : prog) (f : nat) (b : stmt) : prog :=
  match p, f with
  | [], _ => []
  | fd :: r, O => {| fparams := fparams fd; fret := fret fd; fbody := b |} :: r
  | fd :: r, S f' => fd :: upd_body r f' b
  end.

Lemma upd_body_length p : forall f b, length (upd_body p f b) = length p.
Proof. induction p as [|fd r IH]; intros [|f] b; cbn; auto. Qed.

Lemma upd_body_other p : forall f b g, g <> f -> nth_error (upd_body p f b) g = nth_error p g.
Proof.
  induction p as [|fd r IH]; intros [|f] b [|g] H; cbn; auto; try congruence.
Qed.

Lemma upd_body_same p : forall f b fd, nth_error p f = Some fd ->
  nth_error (upd_body p f b) f = Some {| fparams := fparams fd; fret := fret fd; fbody := b |}.
Proof.
  induction p as [|fd0 r IH]; intros [|f] b fd H; cbn in *; try discriminate.
  - inversion H; reflexivity.
  - apply IH; assumption.
Qed.

Section Prog.
Variable structs : structs_t.

Lemma prog_refine p1 p2 f fd1 fd2 :
  (forall g, g <> f -> nth_error p1 g = nth_error p2 g) ->
  nth_error p1 f = Some fd1 -> nth_error p2 f = Some fd2 -> fparams fd1 = fparams fd2 ->
  (forall fuel, cle (call structs p1 fuel) (call structs p2 fuel) ->
     forall k en out, rle (exec structs (call structs p1 fuel) k (fbody fd1) en out)
                          (exec structs (call structs p2 fuel) k (fbody fd2) en out)) ->
  forall fuel, cle (call structs p1 fuel) (call structs p2 fuel).
Proof.
  intros Hother H1 H2 Hp Hbody. induction fuel as [|fuel IH]; intros g vs out; [left; reflexivity|].
  cbn [call]. destruct (Nat.eq_dec g f) as [->|Hne].
  - rewrite H1, H2, Hp. destruct (bind_params (fparams fd2) vs); [|apply rle_refl].
    apply rle_bind; [apply Hbody, IH|intros; apply rle_refl].
  - rewrite (Hother g Hne). destruct (nth_error p2 g); [|apply rle_refl].
    destruct (bind_params (fparams f0) vs); [|apply rle_refl].
    apply rle_bind; [apply exec_mono, IH|intros; apply rle_refl].
Qed.

Lemma run_refine p1 p2 fuel :
  length p1 = length p2 -> cle (call structs p1 fuel) (call structs p2 fuel) ->
  run structs p1 fuel = OutOfFuel \/ run structs p1 fuel = run structs p2 fuel.
Proof.
  intros Hl H. unfold run. rewrite Hl. destruct (H (length p2 - 1) [] []) as [->| ->]; [left|right]; reflexivity.
Qed.

(* one `if true { a } else { b }` anywhere in one function body, replaced by `{ a }`: the program's outcome is the same
   for every fuel (both directions of the refinement hold) *)
Theorem if_true_program p f fd K a b e :
  nth_error p f = Some fd ->
  forall fuel, run structs (upd_body p f (splug K (SIf (EBool true) a b) e)) fuel =
               run structs (upd_body p f (splug K (SBlock a) e)) fuel.
Proof.
  intros Hf fuel.
  set (p1 := upd_body p f (splug K (SIf (EBool true) a b) e)).
  set (p2 := upd_body p f (splug K (SBlock a) e)).
  assert (H12 : cle (call structs p1 fuel) (call structs p2 fuel)).
  { eapply prog_refine with (f := f).
    - intros g Hg. unfold p1, p2. rewrite !upd_body_other by assumption. reflexivity.
    - apply upd_body_same; eassumption.
    - apply upd_body_same; eassumption.
    - reflexivity.
    - cbn [fbody]. intros fu Hcle k en out. apply exec_ctx; [assumption| |intros; apply eval_mono; assumption].
      intros k0 en0 out0. rewrite if_true_else_irrelevant. apply exec_mono; assumption. }
  assert (H21 : cle (call structs p2 fuel) (call structs p1 fuel)).
  { eapply prog_refine with (f := f).
    - intros g Hg. unfold p1, p2. rewrite !upd_body_other by assumption. reflexivity.
    - apply upd_body_same; eassumption.
    - apply upd_body_same; eassumption.
    - reflexivity.
    - cbn [fbody]. intros fu Hcle k en out. apply exec_ctx; [assumption| |intros; apply eval_mono; assumption].
      intros k0 en0 out0. rewrite if_true_else_irrelevant. apply exec_mono; assumption. }
  assert (Hl : length p1 = length p2) by (unfold p1, p2; rewrite !upd_body_length; reflexivity).
  unfold run. rewrite Hl.
  rewrite (rle_antisym _ _ (H12 (length p2 - 1) [] []) (H21 (length p2 - 1) [] [])). reflexivity.
Qed.

(* one call `g()` of a function `fn g() -> t { return z; }` at any expression depth of any statement of one function body,
   replaced by the literal z: whenever the program with the call finishes within the fuel (normally, undefined, or stuck),
   the program with the literal has the same outcome with the same fuel *)
Theorem lit_call_program p f fd g t z K s C :
  nth_error p f = Some fd -> g <> f ->
  nth_error p g = Some {| fparams := []; fret := TInt t; fbody := SReturn (Some (ELit t z)) |} ->
  forall fuel, run structs (upd_body p f (splug K s (eplug C (ECall g [])))) fuel <> OutOfFuel ->
               run structs (upd_body p f (splug K s (eplug C (ELit t z)))) fuel =
               run structs (upd_body p f (splug K s (eplug C (ECall g [])))) fuel.
Proof.
  intros Hf Hgf Hg fuel Hrun.
  set (p1 := upd_body p f (splug K s (eplug C (ECall g [])))) in *.
  set (p2 := upd_body p f (splug K s (eplug C (ELit t z)))).
  assert (H12 : cle (call structs p1 fuel) (call structs p2 fuel)).
  { eapply prog_refine with (f := f).
    - intros g0 Hg0. unfold p1, p2. rewrite !upd_body_other by assumption. reflexivity.
    - apply upd_body_same; eassumption.
    - apply upd_body_same; eassumption.
    - reflexivity.
    - cbn [fbody]. intros fu Hcle k en out. apply exec_ctx; [assumption|intros; apply exec_mono; assumption|].
      intros en0 out0. apply eval_ctx; [assumption|]. intros en1 out1.
      destruct fu as [|fu]; [left; reflexivity|].
      right. transitivity (eval structs (call structs p1 (S fu)) (ELit t z) en1 out1); [|reflexivity].
      apply lit_call_local with (fin := []). apply const_fn_returns.
      unfold p1. rewrite upd_body_other by assumption. exact Hg. }
  destruct (run_refine p1 p2 fuel) as [H|H]; [|exact H12|contradiction|symmetry; exact H].
  unfold p1, p2. rewrite !upd_body_length. reflexivity.
Qed.
End Prog.

(* ---------------------------------------------------------------- fuel: the only fuel-dependent outcome is OutOfFuel *)
Section MonoK.
Variable structs : structs_t.
Variables callf callf' : nat -> list value -> list line -> res (value * list value).
Hypothesis Hc : cle callf callf'.

Lemma exec_mono_k : forall s k k' en out, k <= k' ->
  rle (exec structs callf k s en out) (exec structs callf' k' s en out).
Proof.
  pose proof (eval_mono structs callf callf' Hc) as Em.
  induction s as [|a IHa b IHb|x t e|x e|x f e|c a IHa b IHb|c body IHb|x t lo hi incl step body IHb| | |oe|es|e|a IHa];
    intros k k' en out Hk; cbn.
  - apply rle_refl.
  - apply rle_bind; [apply IHa; assumption|]. intros [en' fl] out'. destruct fl; try apply rle_refl. apply IHb; assumption.
  - mono Em.
  - mono Em.
  - mono Em.
  - apply rle_bind; [apply Em|]. intros rc out'.
    destruct (fst rc) as [| [|] | | |]; try apply rle_refl;
      (apply rle_bind; [solve [apply IHa; assumption | apply IHb; assumption]|intros; apply rle_refl]).
  - generalize Hk. generalize k at 1 3 as n0. generalize k' at 1 3 as n0'.
    intros n0' n0 Hn0. revert en out n0' Hn0.
    induction n0 as [|n IHn]; intros en out n0' Hn0; [left; reflexivity|].
    destruct n0' as [|n']; [inversion Hn0|]. apply le_S_n in Hn0.
    apply rle_bind; [apply Em|]. intros rc out'.
    destruct (fst rc) as [| [|] | | |]; try apply rle_refl.
    apply rle_bind; [apply IHb; assumption|]. intros r out''. destruct (snd r); try apply rle_refl; apply IHn; assumption.
  - apply rle_bind; [apply Em|]. intros rlo o1.
    apply rle_bind; [apply Em|]. intros rhi o2.
    apply rle_bind; [apply Em|]. intros rst o3.
    destruct (fst rlo); try apply rle_refl. destruct (fst rhi); try apply rle_refl. destruct (fst rst); try apply rle_refl.
    generalize (snd rst) as en1. generalize v as i.
    generalize Hk. generalize k at 1 3 as n0. generalize k' at 1 3 as n0'.
    intros n0' n0 Hn0. revert o3 n0' Hn0.
    induction n0 as [|n IHn]; intros o3 n0' Hn0 i en1; [left; reflexivity|].
    destruct n0' as [|n']; [inversion Hn0|]. apply le_S_n in Hn0.
    destruct (for_cond incl v1 i v0); [|apply rle_refl].
    apply rle_bind; [apply IHb; assumption|]. intros r out''. destruct (snd r); try apply rle_refl; apply IHn; assumption.
  - apply rle_refl.
  - apply rle_refl.
  - destruct oe; mono Em.
  - generalize (@nil item) as acc. revert en out.
    induction es as [|e1 r IHr]; intros en out acc; [apply rle_refl|].
    apply rle_bind; [apply Em|]. intros r1 o1. destruct (item_of (fst r1)); [apply IHr|apply rle_refl].
  - mono Em.
  - apply rle_bind; [apply IHa; assumption|intros; apply rle_refl].
Qed.
End MonoK.

Lemma call_mono_fuel structs p : forall fuel fuel', fuel <= fuel' -> cle (call structs p fuel) (call structs p fuel').
Proof.
  induction fuel as [|f IH]; intros fuel' H g vs out; [left; reflexivity|].
  destruct fuel' as [|f']; [inversion H|]. apply le_S_n in H.
  cbn [call]. destruct (nth_error p g); [|apply rle_refl].
  destruct (bind_params (fparams f0) vs); [|apply rle_refl].
  apply rle_bind; [apply exec_mono_k; [apply IH; assumption|assumption]|intros; apply rle_refl].
Qed.

(* more fuel never changes an outcome other than OutOfFuel *)
Theorem run_fuel_independent structs p fuel fuel' :
  fuel <= fuel' -> run structs p fuel <> OutOfFuel -> run structs p fuel' = run structs p fuel.
Proof.
  intros H Hr. unfold run in *.
  destruct (call_mono_fuel structs p fuel fuel' H (length p - 1) [] []) as [E|E].
  - rewrite E in Hr. contradiction.
  - rewrite E. reflexivity.
Qed.

Corollary run_finished_agree structs p f1 f2 :
  run structs p f1 <> OutOfFuel -> run structs p f2 <> OutOfFuel -> run structs p f1 = run structs p f2.
Proof.
  intros H1 H2. destruct (Nat.le_ge_cases f1 f2) as [H|H].
  - symmetry. apply run_fuel_independent; assumption.
  - apply run_fuel_independent; assumption.
Qed.

(* ---------------------------------------------------------------- contexts, with a larger loop bound on the right *)
Section CtxK.
Variable structs : structs_t.
Variables callf callf' : nat -> list value -> list line -> res (value * list value).
Hypothesis Hc : cle callf callf'.

Lemma for_rel_k x t incl lo lo' hi hi' st st' body body' :
  (forall en out, rle (eval structs callf lo en out) (eval structs callf' lo' en out)) ->
  (forall en out, rle (eval structs callf hi en out) (eval structs callf' hi' en out)) ->
  (forall en out, rle (eval structs callf st en out) (eval structs callf' st' en out)) ->
  (forall k k' en out, k <= k' -> rle (exec structs callf k body en out) (exec structs callf' k' body' en out)) ->
  forall k k' en out, k <= k' ->
    rle (exec structs callf k (SFor x t lo hi incl st body) en out)
        (exec structs callf' k' (SFor x t lo' hi' incl st' body') en out).
Proof.
  intros Hlo Hhi Hst Hb k k' en out Hk. cbn.
  apply rle_bind; [apply Hlo|]. intros rlo o1.
  apply rle_bind; [apply Hhi|]. intros rhi o2.
  apply rle_bind; [apply Hst|]. intros rst o3.
  destruct (fst rlo); try apply rle_refl. destruct (fst rhi); try apply rle_refl. destruct (fst rst); try apply rle_refl.
  generalize (snd rst) as en1. generalize v as i.
  generalize Hk. generalize k at 1 3 as n0. generalize k' at 1 3 as n0'.
  intros n0' n0 Hn0. revert o3 n0' Hn0.
  induction n0 as [|n IHn]; intros o3 n0' Hn0 i en1; [left; reflexivity|].
  destruct n0' as [|n']; [inversion Hn0|]. apply le_S_n in Hn0.
  destruct (for_cond incl v1 i v0); [|apply rle_refl].
  apply rle_bind; [apply Hb; assumption|]. intros r out''. destruct (snd r); try apply rle_refl; apply IHn; assumption.
Qed.

Section S.
Variables s s' : stmt.
Variables e e' : expr.
Hypothesis Hs : forall k k' en out, k <= k' -> rle (exec structs callf k s en out) (exec structs callf' k' s' en out).
Hypothesis He : forall en out, rle (eval structs callf e en out) (eval structs callf' e' en out).

Lemma exec_ctx_k : forall K k k' en out, k <= k' ->
  rle (exec structs callf k (splug K s e) en out) (exec structs callf' k' (splug K s' e') en out).
Proof.
  pose proof (eval_mono structs callf callf' Hc) as Em.
  pose proof (exec_mono_k structs callf callf' Hc) as Sm.
  induction K as [|x t|x|x f|a b|body|x t hi incl step body|x t lo incl step body|x t lo hi incl body| |pre post|
                  |K IH b|a K IH|c K IH b|c a K IH|c K IH|x t lo hi incl step K IH|K IH];
    intros k k' en out Hk; cbn [splug].
  - apply Hs; assumption.
  - cbn. mono He.
  - cbn. mono He.
  - cbn. mono He.
  - cbn. apply rle_bind; [apply He|]. intros rc out'.
    destruct (fst rc) as [| [|] | | |]; try apply rle_refl; (apply rle_bind; [apply Sm; assumption|intros; apply rle_refl]).
  - cbn. generalize Hk. generalize k at 1 3 as n0. generalize k' at 1 3 as n0'.
    intros n0' n0 Hn0. revert en out n0' Hn0.
    induction n0 as [|n IHn]; intros en out n0' Hn0; [left; reflexivity|].
    destruct n0' as [|n']; [inversion Hn0|]. apply le_S_n in Hn0.
    apply rle_bind; [apply He|]. intros rc out'.
    destruct (fst rc) as [| [|] | | |]; try apply rle_refl.
    apply rle_bind; [apply Sm; assumption|]. intros r out''. destruct (snd r); try apply rle_refl; apply IHn; assumption.
  - apply for_rel_k; [apply He|apply Em|apply Em|intros; apply Sm; assumption|assumption].
  - apply for_rel_k; [apply Em|apply He|apply Em|intros; apply Sm; assumption|assumption].
  - apply for_rel_k; [apply Em|apply Em|apply He|intros; apply Sm; assumption|assumption].
  - cbn. mono He.
  - cbn. generalize (@nil item) as acc. revert en out.
    induction pre as [|e1 r IHr]; intros en out acc; cbn [app].
    + apply rle_bind; [apply He|]. intros r1 o1. destruct (item_of (fst r1)); [|apply rle_refl].
      generalize (i :: acc) as acc1. generalize (snd r1) as en1. revert o1.
      induction post as [|e2 r2 IHp]; intros o1 en1 acc1; [apply rle_refl|].
      apply rle_bind; [apply Em|]. intros r2' o2. destruct (item_of (fst r2')); [apply IHp|apply rle_refl].
    + apply rle_bind; [apply Em|]. intros r1 o1. destruct (item_of (fst r1)); [apply IHr|apply rle_refl].
  - cbn. mono He.
  - cbn. apply rle_bind; [apply IH; assumption|]. intros [en' fl] out'. destruct fl; try apply rle_refl. apply Sm; assumption.
  - cbn. apply rle_bind; [apply Sm; assumption|]. intros [en' fl] out'. destruct fl; try apply rle_refl. apply IH; assumption.
  - cbn. apply rle_bind; [apply Em|]. intros rc out'.
    destruct (fst rc) as [| [|] | | |]; try apply rle_refl;
      (apply rle_bind; [solve [apply IH; assumption | apply Sm; assumption]|intros; apply rle_refl]).
  - cbn. apply rle_bind; [apply Em|]. intros rc out'.
    destruct (fst rc) as [| [|] | | |]; try apply rle_refl;
      (apply rle_bind; [solve [apply IH; assumption | apply Sm; assumption]|intros; apply rle_refl]).
  - cbn. generalize Hk. generalize k at 1 3 as n0. generalize k' at 1 3 as n0'.
    intros n0' n0 Hn0. revert en out n0' Hn0.
    induction n0 as [|n IHn]; intros en out n0' Hn0; [left; reflexivity|].
    destruct n0' as [|n']; [inversion Hn0|]. apply le_S_n in Hn0.
    apply rle_bind; [apply Em|]. intros rc out'.
    destruct (fst rc) as [| [|] | | |]; try apply rle_refl.
    apply rle_bind; [apply IH; assumption|]. intros r out''. destruct (snd r); try apply rle_refl; apply IHn; assumption.
  - apply for_rel_k; [apply Em|apply Em|apply Em|intros; apply IH; assumption|assumption].
  - cbn. apply rle_bind; [apply IH; assumption|intros; apply rle_refl].
Qed.
End S.
End CtxK.

Section ProgOff.
Variable structs : structs_t.

(* two programs differing in the body of f; the right one is given one more unit of fuel *)
Lemma prog_refine_off p1 p2 f fd1 fd2 :
  (forall g, g <> f -> nth_error p1 g = nth_error p2 g) ->
  nth_error p1 f = Some fd1 -> nth_error p2 f = Some fd2 -> fparams fd1 = fparams fd2 ->
  (forall fuel, cle (call structs p1 fuel) (call structs p2 (S fuel)) ->
     forall k k' en out, k <= k' -> rle (exec structs (call structs p1 fuel) k (fbody fd1) en out)
                                          (exec structs (call structs p2 (S fuel)) k' (fbody fd2) en out)) ->
  forall fuel, cle (call structs p1 fuel) (call structs p2 (S fuel)).
Proof.
  intros Hother H1 H2 Hp Hbody. induction fuel as [|fuel IH]; intros g vs out; [left; reflexivity|].
  cbn [call]. destruct (Nat.eq_dec g f) as [->|Hne].
  - rewrite H1, H2, Hp. destruct (bind_params (fparams fd2) vs); [|apply rle_refl].
    apply rle_bind; [apply Hbody; [apply IH|auto]|intros; apply rle_refl].
  - rewrite (Hother g Hne). destruct (nth_error p2 g); [|apply rle_refl].
    destruct (bind_params (fparams f0) vs); [|apply rle_refl].
    apply rle_bind; [apply exec_mono_k; [apply IH|auto]|intros; apply rle_refl].
Qed.

(* the converse of lit_call_program: whenever the program with the literal finishes with fuel n, the program with the
   call finishes with fuel n + 1 and the same outcome *)
Theorem lit_call_program_conv p f fd g t z K s C :
  nth_error p f = Some fd -> g <> f ->
  nth_error p g = Some {| fparams := []; fret := TInt t; fbody := SReturn (Some (ELit t z)) |} ->
  forall fuel, run structs (upd_body p f (splug K s (eplug C (ELit t z)))) fuel <> OutOfFuel ->
               run structs (upd_body p f (splug K s (eplug C (ECall g [])))) (S fuel) =
               run structs (upd_body p f (splug K s (eplug C (ELit t z)))) fuel.
Proof.
  intros Hf Hgf Hg fuel Hrun.
  set (p1 := upd_body p f (splug K s (eplug C (ECall g [])))).
  set (p2 := upd_body p f (splug K s (eplug C (ELit t z)))) in *.
  assert (H21 : cle (call structs p2 fuel) (call structs p1 (S fuel))).
  { eapply prog_refine_off with (f := f).
    - intros g0 Hg0. unfold p1, p2. rewrite !upd_body_other by assumption. reflexivity.
    - apply upd_body_same; eassumption.
    - apply upd_body_same; eassumption.
    - reflexivity.
    - cbn [fbody]. intros fu Hcle k k' en out Hk.
      apply exec_ctx_k; [assumption|intros; apply exec_mono_k; assumption| |assumption].
      intros en0 out0. apply eval_ctx; [assumption|]. intros en1 out1.
      right. symmetry. transitivity (eval structs (call structs p1 (S fu)) (ELit t z) en1 out1); [|reflexivity].
      apply lit_call_local with (fin := []). apply const_fn_returns.
      unfold p1. rewrite upd_body_other by assumption. exact Hg. }
  assert (Hl : length p2 = length p1) by (unfold p1, p2; rewrite !upd_body_length; reflexivity).
  unfold run in *. rewrite Hl in *.
  destruct (H21 (length p1 - 1) [] []) as [E|E].
  - rewrite E in Hrun. contradiction.
  - rewrite E. reflexivity.
Qed.

(* both directions together: the two programs have the same finished outcomes *)
Theorem lit_call_program_equiv p f fd g t z K s C :
  nth_error p f = Some fd -> g <> f ->
  nth_error p g = Some {| fparams := []; fret := TInt t; fbody := SReturn (Some (ELit t z)) |} ->
  forall r, r <> OutOfFuel ->
    ((exists fuel, run structs (upd_body p f (splug K s (eplug C (ECall g [])))) fuel = r) <->
     (exists fuel, run structs (upd_body p f (splug K s (eplug C (ELit t z)))) fuel = r)).
Proof.
  intros Hf Hgf Hg r Hr. split; intros [fuel E].
  - exists fuel. rewrite (lit_call_program structs p f fd g t z K s C Hf Hgf Hg fuel); [exact E|]. rewrite E. exact Hr.
  - exists (S fuel). rewrite (lit_call_program_conv p f fd g t z K s C Hf Hgf Hg fuel); [exact E|]. rewrite E. exact Hr.
Qed.
End ProgOff.
