(* C05 — the reachability search of AllPathsReturn is complete: if the graph has a path entry ->* exit through blocks
   whose Returns flag is clear, canReachExitWithoutReturn does not answer "false" (whatever the fuel). *)
From Coq Require Import List Bool Arith Lia.
From FV Require Import Models.Returns.
Import ListNotations.

Lemma mem_In x l : mem x l = true <-> In x l.
Proof.
  unfold mem. rewrite existsb_exists. split.
  - intros [y [Hy He]]. apply Nat.eqb_eq in He. subst. exact Hy.
  - intros H. exists x. split; [exact H | apply Nat.eqb_refl].
Qed.

Lemma succs_spec t x y : In y (succs t x) <-> In (x, y) (edges t).
Proof.
  unfold succs. rewrite in_map_iff. split.
  - intros [[a b] [Hs Hf]]. simpl in Hs. subst. apply filter_In in Hf. destruct Hf as [Hi He].
    simpl in He. apply Nat.eqb_eq in He. subst. exact Hi.
  - intros H. exists (x, y). split; [reflexivity|]. apply filter_In. split; [exact H|]. simpl. apply Nat.eqb_refl.
Qed.

(* a path to EXIT whose blocks are outside V and whose non-final blocks do not return *)
Inductive good (t : st) (V : list nat) : nat -> Prop :=
| good_exit : ~ In EXIT V -> good t V EXIT
| good_step x z : ~ In x V -> ~ In x (rets t) -> In (x, z) (edges t) -> good t V z -> good t V x.

Lemma good_notin t V s : good t V s -> ~ In s V.
Proof. destruct 1; assumption. Qed.

Lemma good_split t V s : good t V s -> forall x, x <> EXIT ->
  good t (x :: V) s \/ (~ In x (rets t) /\ exists z, In (x, z) (edges t) /\ good t (x :: V) z).
Proof.
  induction 1; intros y Hy.
  - left. apply good_exit. simpl. intros [E|E]; [congruence | tauto].
  - destruct (IHgood y Hy) as [G | R].
    + destruct (Nat.eq_dec x y) as [E|NE].
      * subst. right. split; [assumption|]. exists z. split; assumption.
      * left. apply good_step with z; try assumption. simpl. intros [E|E]; [congruence | tauto].
    + right. exact R.
Qed.

Lemma dfs_complete fuel t : forall stack V,
  (exists s, In s stack /\ good t V s) -> dfs fuel t stack V <> Some false.
Proof.
  induction fuel as [|f IH]; intros stack V [s [Hin G]]; simpl; [discriminate|].
  destruct stack as [|x rest]; [destruct Hin|].
  destruct (mem x V) eqn:EV.
  - apply IH. exists s. split; [|exact G]. destruct Hin as [E|Hin]; [|exact Hin].
    subst. apply mem_In in EV. exfalso. exact (good_notin _ _ _ G EV).
  - destruct (Nat.eqb x EXIT) eqn:EE; [discriminate|].
    apply Nat.eqb_neq in EE.
    destruct (good_split _ _ _ G x EE) as [G' | [NR [z [Hz Gz]]]].
    + assert (Hs : In s rest).
      { destruct Hin as [E|Hin]; [|exact Hin]. subst. exfalso. apply (good_notin _ _ _ G'). left. reflexivity. }
      destruct (mem x (rets t)); apply IH; exists s; (split; [|exact G']); [exact Hs | apply in_or_app; right; exact Hs].
    + destruct (mem x (rets t)) eqn:ER.
      * apply mem_In in ER. contradiction.
      * apply IH. exists z. split; [|exact Gz]. apply in_or_app. left. apply succs_spec. exact Hz.
Qed.

(* paths in the built graph: every block that is left does not return *)
Inductive path (t : st) : nat -> nat -> Prop :=
| path_refl x : path t x x
| path_step x z y : ~ In x (rets t) -> In (x, z) (edges t) -> path t z y -> path t x y.

Lemma path_good t x : path t x EXIT -> good t [] x.
Proof.
  intros P. remember EXIT as e. induction P.
  - subst. apply good_exit. intros [].
  - apply good_step with z; auto.
Qed.

Lemma all_paths_return_no_path t : all_paths_return t = true -> ~ path t ENTRY EXIT.
Proof.
  unfold all_paths_return, can_reach_exit_without_return. intros H P.
  assert (D := dfs_complete (length (edges t) + 2) t [ENTRY] []).
  destruct (dfs (length (edges t) + 2) t [ENTRY] []) as [[|]|]; try discriminate.
  apply D; [|reflexivity]. exists ENTRY. split; [left; reflexivity | apply path_good; exact P].
Qed.
