(* C15 — ComputeTopologicalOrder (Kahn's algorithm as written in context.go): loop invariant, fuel sufficiency,
   dependencies before importers, completeness on acyclic graphs. *)
From Coq Require Import List Arith Bool ZArith Lia Permutation.
Import ListNotations.
From FV Require Import Models.DepGraph Proofs.DepGraphP Proofs.DepGraphRun.

(* ------------------------------------------------------------------ small facts *)

Lemma mem_cons x a l : mem x (a :: l) = Nat.eqb x a || mem x l.
Proof. reflexivity. Qed.

Lemma mem_app x l1 l2 : mem x (l1 ++ l2) = mem x l1 || mem x l2.
Proof. unfold mem. apply existsb_app. Qed.

Lemma succs_cons a b g u : succs ((a, b) :: g) u = if Nat.eqb a u then b :: succs g u else succs g u.
Proof. reflexivity. Qed.

Lemma upd_same d k v : upd d k v k = v.
Proof. unfold upd. rewrite Nat.eqb_refl. reflexivity. Qed.

Lemma upd_other d k v x : x <> k -> upd d k v x = d x.
Proof. intros H. unfold upd. destruct (Nat.eqb_spec x k); [congruence | reflexivity]. Qed.

Lemma nodup_succs g m : NoDup g -> NoDup (succs g m).
Proof.
  induction g as [|[a b] g IH]; intros Hn; simpl; [constructor|].
  inversion Hn as [|? ? Hnot Hn']; subst.
  destruct (Nat.eqb_spec a m) as [->|Hne]; [|apply IH; exact Hn'].
  constructor; [|apply IH; exact Hn']. intros Hin. apply succs_In in Hin. contradiction.
Qed.

Lemma nodup_app {A} (a b : list A) :
  NoDup a -> NoDup b -> (forall x, In x a -> ~ In x b) -> NoDup (a ++ b).
Proof.
  induction 1 as [|x a Hx Ha IH]; intros Hb Hd; simpl; [exact Hb|].
  constructor.
  - intros Hin. apply in_app_or in Hin. destruct Hin as [Hin|Hin]; [contradiction|].
    apply (Hd x); [left; reflexivity | exact Hin].
  - apply IH; [exact Hb|]. intros y Hy. apply Hd. right. exact Hy.
Qed.

Lemma insert_perm x l : Permutation (insert x l) (x :: l).
Proof.
  induction l as [|y l IH]; simpl; [apply Permutation_refl|].
  destruct (Nat.leb x y); [apply Permutation_refl|].
  eapply Permutation_trans; [apply perm_skip; exact IH | apply perm_swap].
Qed.

Lemma sort_perm l : Permutation (sort l) l.
Proof.
  induction l as [|x l IH]; simpl; [constructor|].
  eapply Permutation_trans; [apply insert_perm | apply perm_skip; exact IH].
Qed.

Lemma sort_In x l : In x (sort l) <-> In x l.
Proof. split; apply Permutation_in; [apply sort_perm | apply Permutation_sym; apply sort_perm]. Qed.

Lemma sort_nodup l : NoDup l -> NoDup (sort l).
Proof. apply Permutation_NoDup. apply Permutation_sym. apply sort_perm. Qed.

(* index_of *)
Lemma index_lt_len x l : In x l -> index_of x l < length l.
Proof.
  induction l as [|y l IH]; simpl; [intros []|]. intros H.
  destruct (Nat.eqb_spec y x); [lia|]. destruct H as [H|H]; [congruence|]. specialize (IH H). lia.
Qed.

Lemma index_app_in x l l' : In x l -> index_of x (l ++ l') = index_of x l.
Proof.
  induction l as [|y l IH]; simpl; [intros []|]. intros H.
  destruct (Nat.eqb_spec y x); [reflexivity|]. destruct H as [H|H]; [congruence|]. rewrite IH; auto.
Qed.

Lemma index_snoc_notin x l : ~ In x l -> index_of x (l ++ [x]) = length l.
Proof.
  induction l as [|y l IH]; simpl; intros H.
  - rewrite Nat.eqb_refl. reflexivity.
  - destruct (Nat.eqb_spec y x) as [->|Hne]; [exfalso; apply H; left; reflexivity|].
    rewrite IH; [reflexivity|]. intros Hin. apply H. right. exact Hin.
Qed.

(* ------------------------------------------------------------------ pending dependencies *)

Definition pending (g : graph) (s : list node) (m : node) : nat :=
  length (filter (fun d => negb (mem d s)) (succs g m)).

Lemma pending_nil g m : pending g [] m = length (succs g m).
Proof.
  unfold pending. induction (succs g m) as [|a l IH]; [reflexivity|].
  change (S (length (filter (fun d => negb (mem d [])) l)) = S (length l)). f_equal. exact IH.
Qed.

Lemma pending_zero g s m : pending g s m = 0 -> forall d, In d (succs g m) -> In d s.
Proof.
  unfold pending. induction (succs g m) as [|a l IH]; simpl; intros H d Hd; [destruct Hd|].
  destruct (mem a s) eqn:E; simpl in H; [|discriminate].
  destruct Hd as [<-|Hd]; [apply mem_In; exact E | apply IH; assumption].
Qed.

Lemma pending_all_in g s m : (forall d, In d (succs g m) -> In d s) -> pending g s m = 0.
Proof.
  unfold pending. induction (succs g m) as [|a l IH]; simpl; intros H; [reflexivity|].
  replace (mem a s) with true by (symmetry; apply mem_In; apply H; left; reflexivity).
  simpl. apply IH. intros d Hd. apply H. right. exact Hd.
Qed.

Lemma filter_snoc_count (l s : list node) c :
  NoDup l -> ~ In c s ->
  length (filter (fun d => negb (mem d (s ++ [c]))) l) + (if mem c l then 1 else 0)
  = length (filter (fun d => negb (mem d s)) l).
Proof.
  intros Hn Hc. induction l as [|a l IH]; [reflexivity|].
  inversion Hn as [|? ? Ha Hn']; subst. specialize (IH Hn').
  simpl filter. rewrite mem_app, mem_cons. simpl (mem a []). rewrite orb_false_r.
  rewrite mem_cons.
  destruct (Nat.eqb_spec a c) as [->|Hne].
  - assert (Hs : mem c s = false) by (apply mem_false; exact Hc).
    assert (Hl : mem c l = false) by (apply mem_false; exact Ha).
    rewrite Hs, Hl in *. rewrite Nat.eqb_refl. simpl. lia.
  - destruct (Nat.eqb_spec c a) as [Heq|_]; [congruence|]. simpl orb.
    rewrite orb_false_r. destruct (mem a s); simpl; lia.
Qed.

Lemma pending_snoc g s c m :
  NoDup g -> ~ In c s ->
  pending g (s ++ [c]) m + (if mem c (succs g m) then 1 else 0) = pending g s m.
Proof. intros Hn Hc. unfold pending. apply filter_snoc_count; [apply nodup_succs; exact Hn | exact Hc]. Qed.

(* ------------------------------------------------------------------ relax: one pass over the stored edges *)

Lemma relax_spec : forall es cur deg deg' nx,
  NoDup es -> relax es cur deg = (deg', nx) ->
  (forall m, deg' m = if mem cur (succs es m) then (deg m - 1)%Z else deg m) /\
  (forall m, In m nx <-> (mem cur (succs es m) = true /\ deg m = 1%Z)) /\
  NoDup nx.
Proof.
  induction es as [|[imp dep] es IH]; intros cur deg deg' nx Hn H.
  - simpl in H. inversion H; subst. split; [reflexivity|]. split; [|constructor].
    intros m. simpl. split; [intros [] | intros [Hf _]; discriminate].
  - inversion Hn as [|? ? Hnot Hn']; subst. simpl in H.
    destruct (Nat.eqb_spec dep cur) as [->|Hne].
    + destruct (relax es cur (upd deg imp (deg imp - 1)%Z)) as [deg2 nx'] eqn:E.
      destruct (IH _ _ _ _ Hn' E) as (H1 & H2 & H3).
      assert (Himp : mem cur (succs es imp) = false).
      { apply mem_false. intros Hin. apply succs_In in Hin. contradiction. }
      rewrite upd_same in H.
      assert (Hdeg : forall m, deg2 m = if mem cur (succs ((imp, cur) :: es) m) then (deg m - 1)%Z else deg m).
      { intros m. rewrite succs_cons. rewrite H1. destruct (Nat.eqb_spec imp m) as [<-|Hm].
        - rewrite Himp, upd_same, mem_cons, Nat.eqb_refl. reflexivity.
        - rewrite upd_other by congruence. reflexivity. }
      assert (Hnx : forall m, m <> imp ->
                 (In m nx' <-> mem cur (succs ((imp, cur) :: es) m) = true /\ deg m = 1%Z)).
      { intros m Hm. rewrite H2, succs_cons. destruct (Nat.eqb_spec imp m); [congruence|].
        rewrite upd_other by exact Hm. reflexivity. }
      assert (Hnotin : ~ In imp nx').
      { intros Hin. apply (proj1 (H2 _)) in Hin. destruct Hin as [Hin _]. congruence. }
      assert (Hhd : mem cur (succs ((imp, cur) :: es) imp) = true).
      { rewrite succs_cons, Nat.eqb_refl, mem_cons, Nat.eqb_refl. reflexivity. }
      destruct (Z.eqb_spec (deg imp - 1) 0) as [Hz|Hz]; inversion H; subst; clear H.
      * split; [exact Hdeg|]. split; [|constructor; assumption].
        intros m. destruct (Nat.eq_dec m imp) as [->|Hm].
        -- split; [intros _; split; [exact Hhd | lia] | intros _; left; reflexivity].
        -- rewrite <- (Hnx m Hm). split; [intros [Heq|Hin]; [congruence | exact Hin] | intros Hin; right; exact Hin].
      * split; [exact Hdeg|]. split; [|exact H3].
        intros m. destruct (Nat.eq_dec m imp) as [->|Hm].
        -- split; [intros Hin; contradiction | intros [_ Hd]; lia].
        -- apply Hnx. exact Hm.
    + destruct (IH _ _ _ _ Hn' H) as (H1 & H2 & H3).
      assert (Hs : forall m, mem cur (succs ((imp, dep) :: es) m) = mem cur (succs es m)).
      { intros m. rewrite succs_cons. destruct (Nat.eqb imp m); [|reflexivity].
        rewrite mem_cons. destruct (Nat.eqb_spec cur dep); [congruence | reflexivity]. }
      split; [intros m; rewrite Hs; apply H1|]. split; [intros m; rewrite Hs; apply H2 | exact H3].
Qed.

(* ------------------------------------------------------------------ the loop invariant *)

Definition eligible (g : graph) (mods : list node) (m : node) : Prop := In m mods \/ succs g m <> [].

Record kinv (g : graph) (mods q s : list node) (deg : degmap) : Prop := {
  k_deg : forall m, deg m = Z.of_nat (pending g s m);
  k_zero : forall m, In m (s ++ q) -> deg m = 0%Z;
  k_nodup : NoDup (s ++ q);
  k_ord : forall m d, In m s -> In d (succs g m) -> In d s /\ index_of d s < index_of m s;
  k_sched : forall m, eligible g mods m -> deg m = 0%Z -> In m (s ++ q);
  k_elig : forall m, In m (s ++ q) -> eligible g mods m
}.

Lemma kinv_init g mods :
  NoDup mods ->
  kinv g mods (sort (filter (fun m => Z.eqb (deg0 g m) 0) mods)) [] (deg0 g).
Proof.
  intros Hn. constructor; simpl.
  - intros m. unfold deg0. rewrite pending_nil. reflexivity.
  - intros m Hm. apply (proj1 (sort_In _ _)) in Hm. apply (proj1 (filter_In _ _ _)) in Hm. destruct Hm as [_ Hz]. apply Z.eqb_eq. exact Hz.
  - apply sort_nodup. apply NoDup_filter. exact Hn.
  - intros m d [].
  - intros m He Hz. apply sort_In. apply filter_In. split; [|apply Z.eqb_eq; exact Hz].
    destruct He as [Hm|Hs]; [exact Hm|]. exfalso. apply Hs.
    unfold deg0 in Hz. destruct (succs g m); [reflexivity | simpl in Hz; lia].
  - intros m Hm. apply (proj1 (sort_In _ _)) in Hm. apply (proj1 (filter_In _ _ _)) in Hm. left. apply Hm.
Qed.

Lemma kinv_step g mods cur q s deg deg' nx :
  NoDup g -> kinv g mods (cur :: q) s deg -> relax g cur deg = (deg', nx) ->
  kinv g mods (q ++ sort nx) (s ++ [cur]) deg'.
Proof.
  intros Hg K Hr. destruct (relax_spec g cur deg deg' nx Hg Hr) as (R1 & R2 & R3).
  destruct K as [Kd Kz Kn Ko Ks Ke].
  assert (Hcs : ~ In cur s).
  { intros Hin. apply NoDup_remove_2 in Kn. apply Kn. apply in_or_app. left. exact Hin. }
  assert (Hpend : forall m, deg' m = Z.of_nat (pending g (s ++ [cur]) m)).
  { intros m. rewrite R1, Kd. pose proof (pending_snoc g s cur m Hg Hcs) as Hp.
    destruct (mem cur (succs g m)); lia. }
  assert (Hold : forall m, In m (s ++ cur :: q) -> deg' m = 0%Z).
  { intros m Hm. rewrite Hpend. pose proof (pending_snoc g s cur m Hg Hcs) as Hp.
    pose proof (Kz m Hm) as Hz. rewrite Kd in Hz. destruct (mem cur (succs g m)); lia. }
  assert (Hsplit : forall m, In m ((s ++ [cur]) ++ q ++ sort nx) <-> In m (s ++ cur :: q) \/ In m nx).
  { intros m. rewrite <- app_assoc. simpl. rewrite !in_app_iff. simpl. rewrite in_app_iff, sort_In. tauto. }
  constructor.
  - exact Hpend.
  - intros m Hm. apply (proj1 (Hsplit _)) in Hm. destruct Hm as [Hm|Hm]; [apply Hold; exact Hm|].
    apply (proj1 (R2 _)) in Hm. destruct Hm as [Hm Hd]. rewrite R1, Hm. lia.
  - rewrite app_assoc. apply nodup_app.
    + rewrite <- app_assoc. simpl. exact Kn.
    + apply sort_nodup. exact R3.
    + intros x Hx Hx'. apply (proj1 (sort_In _ _)) in Hx'. apply (proj1 (R2 _)) in Hx'. destruct Hx' as [_ Hd].
      rewrite <- app_assoc in Hx. simpl in Hx. apply Kz in Hx. lia.
  - intros m d Hm Hd. apply in_app_or in Hm. destruct Hm as [Hm | [<- | []]].
    + destruct (Ko m d Hm Hd) as [Hin Hlt]. split; [apply in_or_app; left; exact Hin|].
      rewrite !index_app_in by assumption. exact Hlt.
    + assert (Hz : deg cur = 0%Z) by (apply Kz; apply in_or_app; right; left; reflexivity).
      rewrite Kd in Hz. assert (Hds : In d s) by (apply (pending_zero g s cur); [lia | exact Hd]).
      split; [apply in_or_app; left; exact Hds|].
      rewrite index_app_in by exact Hds. rewrite index_snoc_notin by exact Hcs.
      apply index_lt_len. exact Hds.
  - intros m He Hz. apply Hsplit. rewrite R1 in Hz. destruct (mem cur (succs g m)) eqn:Em.
    + right. apply R2. split; [exact Em | lia].
    + left. apply Ks; assumption.
  - intros m Hm. apply (proj1 (Hsplit _)) in Hm. destruct Hm as [Hm|Hm]; [apply Ke; exact Hm|].
    apply (proj1 (R2 _)) in Hm. destruct Hm as [Hm _]. right. intros Hnil. rewrite Hnil in Hm. discriminate.
Qed.

Lemma elig_bound g mods l :
  NoDup l -> (forall m, In m l -> eligible g mods m) -> length l <= length mods + length g.
Proof.
  intros Hn He. rewrite <- (map_length fst g), <- app_length. apply NoDup_incl_length; [exact Hn|].
  intros m Hm. apply in_or_app. destruct (He m Hm) as [H|H]; [left; exact H|right].
  destruct (succs g m) as [|d l'] eqn:E; [congruence|].
  assert (Hin : In d (succs g m)) by (rewrite E; left; reflexivity).
  apply succs_In in Hin. apply (in_map fst) in Hin. exact Hin.
Qed.

Lemma kahn_inv g mods : NoDup g -> forall fuel q s deg,
  kinv g mods q s deg -> length s + fuel > length mods + length g ->
  exists deg', kinv g mods [] (kahn fuel g q s deg) deg'.
Proof.
  intros Hg. induction fuel as [|f IH]; intros q s deg K Hf.
  - exfalso. pose proof (elig_bound g mods (s ++ q) (k_nodup _ _ _ _ _ K) (k_elig _ _ _ _ _ K)) as Hb.
    rewrite app_length in Hb. lia.
  - simpl. destruct q as [|cur q]; [exists deg; exact K|].
    destruct (relax g cur deg) as [deg' nx] eqn:E.
    apply (IH _ _ deg'); [eapply kinv_step; eauto|]. rewrite app_length. simpl. lia.
Qed.

(* ------------------------------------------------------------------ what the order guarantees, for any graph *)

Theorem topo_sound g mods :
  NoDup g -> NoDup mods ->
  let order := topo g mods in
  NoDup order /\
  (forall m, In m order -> In m mods \/ exists d, edge g m d) /\
  (forall u v, In u order -> edge g u v -> In v order /\ index_of v order < index_of u order) /\
  (forall m, In m mods -> (forall d, edge g m d -> In d order) -> In m order).
Proof.
  intros Hg Hm. cbv zeta. unfold topo.
  destruct (kahn_inv g mods Hg (topo_fuel g mods) _ [] (deg0 g) (kinv_init g mods Hm)) as [deg' K].
  { unfold topo_fuel. simpl. lia. }
  set (order := kahn _ _ _ _ _) in *. destruct K as [Kd Kz Kn Ko Ks Ke].
  rewrite app_nil_r in *. split; [exact Kn|]. split; [|split].
  - intros m Hin. destruct (Ke m Hin) as [H|H]; [left; exact H|right].
    destruct (succs g m) as [|d l] eqn:E; [congruence|]. exists d. apply succs_In. rewrite E. left. reflexivity.
  - intros u v Hu He. apply Ko; [exact Hu | apply succs_In; exact He].
  - intros m Hmm Hall. apply Ks; [left; exact Hmm|].
    rewrite Kd, pending_all_in; [reflexivity|]. intros d Hd. apply Hall. apply succs_In. exact Hd.
Qed.

(* ------------------------------------------------------------------ finite acyclic graphs have no endless descent *)

Lemma is_walk_tail g x l : is_walk g (x :: l) -> is_walk g l.
Proof. destruct l as [|y l]; [trivial|]. intros [_ H]. exact H. Qed.

Lemma is_walk_app_r g l1 l2 : is_walk g (l1 ++ l2) -> is_walk g l2.
Proof. induction l1 as [|x l1 IH]; [trivial|]. intros H. apply IH. eapply is_walk_tail. exact H. Qed.

Lemma is_walk_app_l g : forall p l3, is_walk g (p ++ l3) -> is_walk g p.
Proof.
  induction p as [|u p IHp]; intros l3 H; [exact I|].
  destruct p as [|w p]; [exact I|]. simpl in H. destruct H as [H1 H2].
  split; [exact H1 | apply (IHp l3); exact H2].
Qed.

Lemma walk_reach g : forall l x y, is_walk g (x :: l ++ [y]) -> reach g x y.
Proof.
  induction l as [|z l IH]; intros x y H.
  - destruct H as [He _]. apply reach_edge. exact He.
  - destruct H as [He Hw]. eapply reach_step; [exact He | apply IH; exact Hw].
Qed.

Lemma walk_targets g : forall l x, is_walk g (x :: l) -> incl l (map snd g).
Proof.
  induction l as [|y l IH]; intros x H; [intros z []|].
  destruct H as [He Hw]. intros z [<-|Hz].
  - apply (in_map snd) in He. exact He.
  - eapply IH; eauto.
Qed.

Lemma dup_split (l : list node) :
  NoDup l \/ exists a l1 l2 l3, l = l1 ++ a :: l2 ++ a :: l3.
Proof.
  induction l as [|a l IH]; [left; constructor|].
  destruct (in_dec Nat.eq_dec a l) as [Hin|Hnin].
  - right. apply in_split in Hin. destruct Hin as (l2 & l3 & ->). exists a, [], l2, l3. reflexivity.
  - destruct IH as [Hn | (b & l1 & l2 & l3 & ->)].
    + left. constructor; assumption.
    + right. exists b, (a :: l1), l2, l3. reflexivity.
Qed.

Lemma long_walk_cyclic g x l : is_walk g (x :: l) -> length g < length l -> cyclic g.
Proof.
  intros Hw Hlen. destruct (dup_split l) as [Hn | (a & l1 & l2 & l3 & ->)].
  - exfalso. pose proof (NoDup_incl_length Hn (walk_targets g l x Hw)) as Hle.
    rewrite map_length in Hle. lia.
  - change (x :: l1 ++ a :: l2 ++ a :: l3) with ((x :: l1) ++ a :: l2 ++ a :: l3) in Hw.
    apply is_walk_app_r in Hw.
    destruct l2 as [|b l2].
    + simpl in Hw. destruct Hw as [He _]. exists a, a. split; [exact He | apply reach_refl].
    + simpl in Hw. destruct Hw as [He Hw]. exists a, b. split; [exact He|].
      apply (walk_reach g l2 b a).
      apply (is_walk_app_l g (b :: l2 ++ [a]) l3). simpl. rewrite <- app_assoc. exact Hw.
Qed.

Lemma descent_walk g (U : node -> Prop) :
  (forall m, U m -> exists d, edge g m d /\ U d) ->
  forall n m, U m -> exists p, is_walk g (m :: p) /\ length p = n.
Proof.
  intros Hd. induction n as [|n IH]; intros m Hm.
  - exists []. split; [exact I | reflexivity].
  - destruct (Hd m Hm) as (d & He & Hu). destruct (IH d Hu) as (p & Hw & Hl).
    exists (d :: p). split; [split; assumption | simpl; rewrite Hl; reflexivity].
Qed.

Lemma all_or_missing (l order : list node) :
  (forall d, In d l -> In d order) \/ exists d, In d l /\ ~ In d order.
Proof.
  induction l as [|a l IH]; [left; intros d []|].
  destruct (in_dec Nat.eq_dec a order) as [Ha|Ha].
  - destruct IH as [IH | (d & Hd & Hn)].
    + left. intros d [<-|Hd]; [exact Ha | apply IH; exact Hd].
    + right. exists d. split; [right; exact Hd | exact Hn].
  - right. exists a. split; [left; reflexivity | exact Ha].
Qed.

Theorem topo_valid_thm g mods :
  acyclic g -> NoDup g -> NoDup mods -> all_registered g mods = true ->
  topo_valid g mods (topo g mods).
Proof.
  intros Ha Hg Hm Hreg.
  destruct (topo_sound g mods Hg Hm) as (S1 & S2 & S3 & S4).
  assert (Hr : forall u v, edge g u v -> In u mods /\ In v mods).
  { intros u v He. unfold all_registered in Hreg. rewrite forallb_forall in Hreg.
    specialize (Hreg (u, v) He). simpl in Hreg. apply andb_true_iff in Hreg.
    destruct Hreg as [H1 H2]. split; apply mem_In; assumption. }
  assert (Hall : forall m, In m mods -> In m (topo g mods)).
  { intros m Hmm. destruct (in_dec Nat.eq_dec m (topo g mods)) as [Hin|Hnin]; [exact Hin|]. exfalso.
    set (U := fun x => In x mods /\ ~ In x (topo g mods)).
    assert (Hd : forall x, U x -> exists d, edge g x d /\ U d).
    { intros x [Hx Hnx]. destruct (all_or_missing (succs g x) (topo g mods)) as [Hall | (d & Hd & Hn)].
      - exfalso. apply Hnx. apply S4; [exact Hx|]. intros d Hd. apply Hall. apply succs_In. exact Hd.
      - apply succs_In in Hd. exists d. split; [exact Hd|]. split; [apply (Hr x d Hd) | exact Hn]. }
    destruct (descent_walk g U Hd (S (length g)) m (conj Hmm Hnin)) as (p & Hw & Hl).
    apply Ha. apply (long_walk_cyclic g m p Hw). lia. }
  split; [exact S1|]. split.
  - intros m. split; [|apply Hall]. intros Hin. destruct (S2 m Hin) as [H | [d Hd]]; [exact H | apply (Hr m d Hd)].
  - intros u v He. apply S3; [|exact He]. apply Hall. apply (Hr u v He).
Qed.

(* whatever the schedule, the order computed after parsing is valid for the stored graph *)
Theorem run_topo_valid calls mods :
  NoDup mods -> all_registered (fst (run [] calls)) mods = true ->
  topo_valid (fst (run [] calls)) mods (topo (fst (run [] calls)) mods).
Proof.
  intros Hm Hr. destruct (inv_acyclic calls) as [Ha Hn]. apply topo_valid_thm; assumption.
Qed.
