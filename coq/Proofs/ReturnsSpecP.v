(* C05 — the compositional decision procedure outs_* is exact for the path semantics run_*. *)
From Coq Require Import List Bool Arith Lia.
From FV Require Import Models.Returns Models.ReturnsSpec Proofs.ReturnsDfs.
Import ListNotations.

Scheme run_stmt_m := Minimality for run_stmt Sort Prop
  with run_block_m := Minimality for run_block Sort Prop
  with run_ifs_m := Minimality for run_ifs Sort Prop
  with run_arms_m := Minimality for run_arms Sort Prop
  with run_loop_m := Minimality for run_loop Sort Prop.
Combined Scheme run_mutind from run_stmt_m, run_block_m, run_ifs_m, run_arms_m, run_loop_m.

Scheme stmt_m := Induction for stmt Sort Prop
  with block_m := Induction for block Sort Prop
  with ifs_m := Induction for ifs Sort Prop
  with els_m := Induction for els Sort Prop
  with arms_m := Induction for arms Sort Prop.
Combined Scheme syntax_mutind from stmt_m, block_m, ifs_m, els_m, arms_m.

Lemma may_join o x y : may o (o_join x y) = may o x || may o y.
Proof. destruct o as [|[|]| |]; reflexivity. Qed.

Lemma may_normal o : may o o_normal = true <-> o = ONormal.
Proof. destruct o as [|[|]| |]; simpl; split; intros H; try reflexivity; try discriminate. Qed.

Lemma may_bot o : may o o_bot = false.
Proof. destruct o as [|[|]| |]; reflexivity. Qed.

Lemma may_seq o x y :
  may o (o_seq x y) = true <-> (o_n x = true /\ may o y = true) \/ (o <> ONormal /\ may o x = true).
Proof.
  unfold o_seq. destruct (o_n x) eqn:E.
  - destruct o as [|[|]| |]; simpl; rewrite ?orb_true_iff; split; intros H;
      repeat match goal with
             | H : _ \/ _ |- _ => destruct H
             | H : _ /\ _ |- _ => destruct H
             end; try congruence; try (left; split; [reflexivity | assumption]);
      try (right; split; [discriminate | assumption]); auto.
  - split; intros H.
    + right. split; [|exact H]. intros ->. simpl in H. congruence.
    + destruct H as [[H _] | [_ H]]; [discriminate | exact H].
Qed.

Lemma may_loop o lt x :
  may o (o_loop lt x) = true <->
  (o = ONormal /\ (lt = false \/ o_b x = true)) \/ (exists v, o = OReturn v /\ may (OReturn v) x = true).
Proof.
  destruct o as [|[|]| |]; simpl; rewrite ?orb_true_iff, ?negb_true_iff; split; intros H.
  - left. split; [reflexivity | exact H].
  - destruct H as [[_ H] | [v [E _]]]; [exact H | discriminate].
  - right. exists true. split; [reflexivity | exact H].
  - destruct H as [[E _] | [v [E H]]]; [discriminate|]. injection E as <-. exact H.
  - right. exists false. split; [reflexivity | exact H].
  - destruct H as [[E _] | [v [E H]]]; [discriminate|]. injection E as <-. exact H.
  - discriminate.
  - destruct H as [[E _] | [v [E _]]]; discriminate.
  - discriminate.
  - destruct H as [[E _] | [v [E _]]]; discriminate.
Qed.

(* soundness: every outcome of the semantics is predicted *)
Lemma outs_sound :
  (forall s o, run_stmt s o -> may o (outs_stmt s) = true) /\
  (forall b o, run_block b o -> may o (outs_block b) = true) /\
  (forall i o, run_ifs i o -> may o (outs_ifs i) = true) /\
  (forall a o, run_arms a o -> may o (outs_arms a) = true) /\
  (forall lt b o, run_loop lt b o -> may o (o_loop lt (outs_block b)) = true).
Proof.
  apply run_mutind; intros; simpl;
    try solve
      [ reflexivity | assumption | destruct v; reflexivity
      | match goal with H : has_default _ = false |- _ => rewrite H end; simpl; apply orb_true_r
      | destruct (has_default a); [assumption | rewrite may_join; match goal with H : may _ _ = true |- _ => rewrite H end; reflexivity]
      | rewrite ?may_join; repeat match goal with H : may _ _ = true |- _ => rewrite H end; rewrite ?orb_true_r; reflexivity
      | apply may_seq; left; split; assumption
      | apply may_seq; right; split; assumption
      | apply may_loop; left; split; [reflexivity | auto]
      | apply may_loop; right; eexists; split; [reflexivity | eassumption] ].
  simpl in H0. rewrite H0. apply orb_true_r.
Qed.

(* completeness: every predicted outcome is realised by some assignment of guard outcomes *)
Lemma outs_complete :
  (forall s o, may o (outs_stmt s) = true -> run_stmt s o) /\
  (forall b o, may o (outs_block b) = true -> run_block b o) /\
  (forall i o, may o (outs_ifs i) = true -> run_ifs i o) /\
  (forall e t o, may o (outs_els e) = true -> run_ifs (IfS t e) o) /\
  (forall a o, may o (outs_arms a) = true -> run_arms a o).
Proof.
  apply syntax_mutind; simpl; intros.
  - apply may_normal in H. subst. constructor.
  - destruct has_value, o as [|[|]| |]; simpl in H; try discriminate; constructor.
  - destruct o as [|[|]| |]; simpl in H; try discriminate; constructor.
  - destruct o as [|[|]| |]; simpl in H; try discriminate; constructor.
  - constructor. auto.
  - constructor. apply may_loop in H0. destruct H0 as [[-> [E | E]] | [v [-> E]]].
    + subst. constructor.
    + apply RLoopBreak. apply H. exact E.
    + apply RLoopReturn. apply H. exact E.
  - constructor. apply may_loop in H0. destruct H0 as [[-> [E | E]] | [v [-> E]]].
    + constructor.
    + apply RLoopBreak. apply H. exact E.
    + apply RLoopReturn. apply H. exact E.
  - destruct (has_default a) eqn:D.
    + apply RMatchArm. auto.
    + rewrite may_join in H0. apply orb_true_iff in H0. destruct H0 as [E | E].
      * apply RMatchArm. auto.
      * apply may_normal in E. subst. apply RMatchNone. exact D.
  - constructor. auto.
  - apply may_normal in H. subst. constructor.
  - apply may_seq in H1. destruct H1 as [[E1 E2] | [N E]].
    + apply RConsNext; [apply H; exact E1 | apply H0; exact E2].
    + apply RConsStop; [apply H; exact E | exact N].
  - rewrite may_join in H1. apply orb_true_iff in H1. destruct H1 as [E | E].
    + apply RThen. auto.
    + apply H0. exact E.
  - apply may_normal in H. subst. apply RNoElse.
  - apply RElse. auto.
  - apply RElseIf. auto.
  - rewrite may_bot in H. discriminate.
  - rewrite may_join in H1. apply orb_true_iff in H1. destruct H1 as [E | E].
    + apply RArmHere. auto.
    + apply RArmLater. auto.
Qed.

Lemma outs_exact b o : run_block b o <-> may o (outs_block b) = true.
Proof. split; [apply outs_sound | apply outs_complete]. Qed.

Lemma spec_ok_iff b : spec_ok b = true <-> returns_value_always b.
Proof.
  unfold spec_ok, returns_value_always. rewrite negb_true_iff, !orb_false_iff. split.
  - intros [[[Hn Hb] Hc] Hr] o R. apply outs_exact in R.
    destruct o as [|[|]| |]; simpl in R; congruence.
  - intros H. repeat split.
    + destruct (o_n (outs_block b)) eqn:E; [|reflexivity]. specialize (H ONormal). discriminate H. apply outs_exact. exact E.
    + destruct (o_b (outs_block b)) eqn:E; [|reflexivity]. specialize (H OBreak). discriminate H. apply outs_exact. exact E.
    + destruct (o_c (outs_block b)) eqn:E; [|reflexivity]. specialize (H OContinue). discriminate H. apply outs_exact. exact E.
    + destruct (o_rb (outs_block b)) eqn:E; [|reflexivity]. specialize (H (OReturn false)). discriminate H. apply outs_exact. exact E.
Qed.

Lemma falls_off_iff b : falls_off b <-> o_n (outs_block b) = true.
Proof. unfold falls_off. rewrite outs_exact. reflexivity. Qed.

(* ---- bounded agreement of the ported analysis with the specification ---- *)
Lemma small_agree_true : small_bodies_agree = true.
Proof. vm_compute. reflexivity. Qed.

Lemma small_bodies_sound b p : In_small b -> accepted p b = true -> returns_value_always b.
Proof.
  intros HI HA. apply spec_ok_iff.
  assert (G : agree_on b = true).
  { assert (S := small_agree_true). unfold small_bodies_agree in S. rewrite forallb_forall in S.
    destruct HI as [HI | [b0 [H0 HI]]].
    - specialize (S _ HI). apply andb_true_iff in S. tauto.
    - specialize (S _ H0). apply andb_true_iff in S. destruct S as [_ S]. rewrite forallb_forall in S. auto. }
  unfold agree_on in G. rewrite forallb_forall in G.
  assert (IP : In p [PFunc; PMethod; PFuncLit]) by (destruct p; simpl; auto).
  specialize (G _ IP). rewrite HA in G. exact G.
Qed.

(* ---- what the graph part has to provide (the remaining obligation of C05_full), and what follows from it ---- *)
Definition graph_covers_runs (body : block) : Prop :=
  forall o, run_block body o -> o = ONormal -> path (build_function body) ENTRY EXIT.

Lemma accepted_no_fall_given_cover body p :
  graph_covers_runs body -> accepted p body = true -> ~ falls_off body.
Proof.
  intros C A F. unfold accepted in A. rewrite !andb_true_iff in A.
  destruct A as [[[[[Ha Hm] _] _] _] _].
  unfold check_body in Hm. rewrite Ha in Hm. simpl in Hm.
  apply negb_true_iff in Hm. apply negb_false_iff in Hm.
  exact (all_paths_return_no_path _ Hm (C _ F eq_refl)).
Qed.

(* ---- non-vacuity / regression examples ---- *)
Definition ret1 : block := BCons (SReturn true) BNil.
Definition ex_body : block :=
  BCons (SIf (IfS ret1 ENone))
  (BCons (SWhile true (BCons (SIf (IfS (BCons SBreak BNil) ENone)) (BCons (SMatch (ACons false ret1 ANil)) BNil)))
  (BCons (SMatch (ACons false ret1 (ACons true ret1 ANil))) BNil)).
Definition ex_match_nodefault : block := BCons (SMatch (ACons false ret1 (ACons false ret1 ANil))) BNil.
Definition ex_bare : block := BCons (SIf (IfS (BCons (SReturn false) BNil) ENone)) ret1.
Definition ex_lit_missing : block := BCons (SIf (IfS ret1 ENone)) BNil.

Lemma nonvacuous_accept :
  accepted PFunc ex_body = true /\ accepted PMethod ex_body = true /\ accepted PFuncLit ex_body = true /\
  returns_value_always ex_body.
Proof. repeat split; try (vm_compute; reflexivity). apply spec_ok_iff. vm_compute. reflexivity. Qed.

Lemma repaired_defects_rejected :
  accepted PFunc ex_match_nodefault = false /\ falls_off ex_match_nodefault /\
  accepted PFuncLit ex_lit_missing = false /\ falls_off ex_lit_missing /\
  accepted PFunc ex_bare = false /\ run_block ex_bare (OReturn false).
Proof.
  repeat split; try (vm_compute; reflexivity); try (apply falls_off_iff; vm_compute; reflexivity).
  apply outs_exact. vm_compute. reflexivity.
Qed.
