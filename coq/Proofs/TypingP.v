(* C03 (reference side): the FerretCore checker visits every expression position, and at each position enforces
   the rule of the catalogue.  Together: an ill-typed node anywhere in a program makes check_prog fail. *)
From Coq Require Import ZArith List Bool.
From FV Require Import Core.Syntax Core.Typing.
Import ListNotations.

Inductive subexpr : expr -> expr -> Prop :=
| sub_refl e : subexpr e e
| sub_bin_l e o a b : subexpr e a -> subexpr e (EBin o a b)
| sub_bin_r e o a b : subexpr e b -> subexpr e (EBin o a b)
| sub_un e o a : subexpr e a -> subexpr e (EUn o a)
| sub_cast e a t : subexpr e a -> subexpr e (ECast a t)
| sub_call e f es a : In a es -> subexpr e a -> subexpr e (ECall f es)
| sub_slit e sid es a : In a es -> subexpr e a -> subexpr e (EStructLit sid es)
| sub_field e a k : subexpr e a -> subexpr e (EField a k)
| sub_callr e f args a : In a args -> subexpr e (snd a) -> subexpr e (ECallR f args).

(* e occurs (at any depth) in statement s *)
Inductive occurs : expr -> stmt -> Prop :=
| oc_seq_l e a b : occurs e a -> occurs e (SSeq a b)
| oc_seq_r e a b : occurs e b -> occurs e (SSeq a b)
| oc_let e x t e0 : subexpr e e0 -> occurs e (SLet x t e0)
| oc_assign e x e0 : subexpr e e0 -> occurs e (SAssign x e0)
| oc_assignf e x k e0 : subexpr e e0 -> occurs e (SAssignField x k e0)
| oc_if_c e c a b : subexpr e c -> occurs e (SIf c a b)
| oc_if_a e c a b : occurs e a -> occurs e (SIf c a b)
| oc_if_b e c a b : occurs e b -> occurs e (SIf c a b)
| oc_while_c e c a : subexpr e c -> occurs e (SWhile c a)
| oc_while_b e c a : occurs e a -> occurs e (SWhile c a)
| oc_for_lo e x t lo hi ic st a : subexpr e lo -> occurs e (SFor x t lo hi ic st a)
| oc_for_hi e x t lo hi ic st a : subexpr e hi -> occurs e (SFor x t lo hi ic st a)
| oc_for_st e x t lo hi ic st a : subexpr e st -> occurs e (SFor x t lo hi ic st a)
| oc_for_b e x t lo hi ic st a : occurs e a -> occurs e (SFor x t lo hi ic st a)
| oc_ret e e0 : subexpr e e0 -> occurs e (SReturn (Some e0))
| oc_print e es a : In a es -> subexpr e a -> occurs e (SPrint es)
| oc_expr e e0 : subexpr e e0 -> occurs e (SExpr e0)
| oc_block e a : occurs e a -> occurs e (SBlock a).

Lemma tbind_ok {A B} (r : tres A) (k : A -> tres B) b :
  tbind r k = TOk b -> exists a, r = TOk a /\ k a = TOk b.
Proof. destruct r as [a|err]; cbn; intros H; [exists a; auto|discriminate]. Qed.

Section S.
Variable structs : structs_t.
Variable sigs : list sig.

(* arguments of a well-typed call are well typed, pointwise against the signature *)
Lemma args_ok G rt : forall es pts,
  (fix args (es : list expr) (pts : list ty) {struct es} : tres ty :=
     match es, pts with
     | [], [] => TOk rt
     | e1 :: r, t1 :: pr =>
         tbind (check_expr structs sigs G e1) (fun te => if ty_eqb te t1 then args r pr else TErr EArgType)
     | _, _ => TErr EArity
     end) es pts = TOk rt ->
  Forall2 (fun e pt => exists te, check_expr structs sigs G e = TOk te /\ ty_eqb te pt = true) es pts.
Proof.
  induction es as [|e1 r IH]; intros [|t1 pr] H; try discriminate.
  - constructor.
  - apply tbind_ok in H as [te [H1 H2]]. destruct (ty_eqb te t1) eqn:E; [|discriminate].
    constructor; [exists te; auto|apply IH; exact H2].
Qed.

Lemma call_inv G f es t :
  check_expr structs sigs G (ECall f es) = TOk t ->
  exists pts, nth_error sigs f = Some (pts, t) /\
    Forall2 (fun e pt => exists te, check_expr structs sigs G e = TOk te /\ ty_eqb te pt = true) es pts.
Proof.
  cbn. destruct (nth_error sigs f) as [[pts rt]|]; [|discriminate]. intros H.
  assert (rt = t).
  { clear - H. revert pts H. induction es as [|e1 r IH]; intros [|t1 pr] H; try discriminate.
    - inversion H; reflexivity.
    - apply tbind_ok in H as [te [_ H2]]. destruct (ty_eqb te t1); [|discriminate]. eapply IH; eauto. }
  subst rt. exists pts. split; [reflexivity|]. apply (args_ok G t es pts H).
Qed.

Lemma slit_inv G sid es t :
  check_expr structs sigs G (EStructLit sid es) = TOk t ->
  exists fts, nth_error structs sid = Some fts /\ t = TStruct sid /\
    Forall2 (fun e ft => check_expr structs sigs G e = TOk (TInt ft)) es fts.
Proof.
  cbn. destruct (nth_error structs sid) as [fts|]; [|discriminate]. intros H. exists fts. split; [reflexivity|].
  revert fts H. induction es as [|e1 r IH]; intros [|t1 fr] H; try discriminate.
  - inversion H. split; [reflexivity|constructor].
  - apply tbind_ok in H as [te [H1 H2]]. destruct (ty_eqb te (TInt t1)) eqn:E; [|discriminate].
    destruct (IH fr H2) as [Ht HF]. split; [exact Ht|]. constructor; [|exact HF].
    destruct te as [x| | | | |]; cbn in E; try discriminate. destruct x, t1; cbn in E; try discriminate; exact H1.
Qed.

(* by-reference calls: the flags agree with the parameter kinds, a flagged argument is a variable, and every argument has the
   type the parameter has inside the callee (pty_in) *)
Definition argr_ok (G : tenv) (a : bool * expr) (pt : ty) : Prop :=
  fst a = is_ref pt /\ (fst a = true -> is_var (snd a) = true) /\
  exists te, check_expr structs sigs G (snd a) = TOk te /\ ty_eqb te (pty_in pt) = true.

Lemma argsr_ok G rt : forall args pts,
  (fix ca (args : list (bool * expr)) (pts : list ty) {struct args} : tres ty :=
     match args, pts with
     | [], [] => TOk rt
     | a1 :: r, t1 :: pr =>
         if negb (Bool.eqb (fst a1) (is_ref t1)) || (fst a1 && negb (is_var (snd a1))) then TErr EArgType else
         tbind (check_expr structs sigs G (snd a1)) (fun te => if ty_eqb te (pty_in t1) then ca r pr else TErr EArgType)
     | _, _ => TErr EArity
     end) args pts = TOk rt ->
  Forall2 (argr_ok G) args pts.
Proof.
  induction args as [|a1 r IH]; intros [|t1 pr] H; try discriminate.
  - constructor.
  - destruct (negb (Bool.eqb (fst a1) (is_ref t1)) || (fst a1 && negb (is_var (snd a1)))) eqn:Ef; [discriminate|].
    apply orb_false_elim in Ef as [Ef1 Ef2]. apply negb_false_iff in Ef1. apply eqb_prop in Ef1.
    apply tbind_ok in H as [te [H1 H2]]. destruct (ty_eqb te (pty_in t1)) eqn:E; [|discriminate].
    constructor; [|apply IH; exact H2]. split; [exact Ef1|]. split; [|exists te; auto].
    intros Ht. rewrite Ht in Ef2. cbn in Ef2. apply negb_false_iff in Ef2. exact Ef2.
Qed.

Lemma callr_inv G f args t :
  check_expr structs sigs G (ECallR f args) = TOk t ->
  exists pts, nth_error sigs f = Some (pts, t) /\ distinct_refs args = true /\ Forall2 (argr_ok G) args pts.
Proof.
  cbn. destruct (nth_error sigs f) as [[pts rt]|]; [|discriminate].
  destruct (distinct_refs args) eqn:Ed; cbn; [|discriminate]. intros H.
  assert (rt = t).
  { clear - H. revert pts H. induction args as [|a1 r IH]; intros [|t1 pr] H; try discriminate.
    - inversion H; reflexivity.
    - destruct (negb (Bool.eqb (fst a1) (is_ref t1)) || (fst a1 && negb (is_var (snd a1)))); [discriminate|].
      apply tbind_ok in H as [te [_ H2]]. destruct (ty_eqb te (pty_in t1)); [|discriminate]. eapply IH; eauto. }
  subst rt. exists pts. split; [reflexivity|]. split; [reflexivity|]. apply (argsr_ok G t args pts H).
Qed.

(* T1: every subexpression of a well-typed expression is well typed (same environment) *)
Theorem subexpr_typed G : forall e t, check_expr structs sigs G e = TOk t ->
  forall e', subexpr e' e -> exists t', check_expr structs sigs G e' = TOk t'.
Proof.
  intros e t H e' Hs. revert t H.
  induction Hs as [e|e o a b Hs IH|e o a b Hs IH|e o a Hs IH|e a t0 Hs IH|e f es a Hin Hs IH|e sid es a Hin Hs IH|e a k Hs IH
                  |e f args a Hin Hs IH]; intros t H.
  - eauto.
  - cbn in H. apply tbind_ok in H as [ta [Ha _]]. eapply IH; eauto.
  - cbn in H. apply tbind_ok in H as [ta [_ H]]. apply tbind_ok in H as [tb [Hb _]]. eapply IH; eauto.
  - destruct o; cbn in H; apply tbind_ok in H as [ta [Ha _]]; eapply IH; eauto.
  - cbn in H. apply tbind_ok in H as [ta [Ha _]]. eapply IH; eauto.
  - apply call_inv in H as [pts [_ HF]].
    assert (exists te, check_expr structs sigs G a = TOk te) as [te Hte].
    { clear - HF Hin. induction HF as [|x y l l' [te [H1 _]] _ IHF]; [destruct Hin|].
      destruct Hin as [->|Hin]; eauto. }
    eapply IH; eauto.
  - apply slit_inv in H as [fts [_ [_ HF]]].
    assert (exists te, check_expr structs sigs G a = TOk te) as [te Hte].
    { clear - HF Hin. induction HF as [|x y l l' H1 _ IHF]; [destruct Hin|].
      destruct Hin as [->|Hin]; eauto. }
    eapply IH; eauto.
  - cbn in H. apply tbind_ok in H as [ta [Ha _]]. eapply IH; eauto.
  - apply callr_inv in H as [pts [_ [_ HF]]].
    assert (exists te, check_expr structs sigs G (snd a) = TOk te) as [te Hte].
    { clear - HF Hin. induction HF as [|x y l l' [_ [_ [te [H1 _]]]] _ IHF]; [destruct Hin|].
      destruct Hin as [->|Hin]; eauto. }
    eapply IH; eauto.
Qed.

Lemma prints_ok G : forall es,
  (fix pr (es : list expr) {struct es} : tres tenv :=
     match es with
     | [] => TOk G
     | e1 :: r => tbind (check_expr structs sigs G e1) (fun te => if printable te then pr r else TErr EBadPrint)
     end) es = TOk G ->
  forall a, In a es -> exists te, check_expr structs sigs G a = TOk te /\ printable te = true.
Proof.
  induction es as [|e1 r IH]; intros H a Hin; [destruct Hin|].
  apply tbind_ok in H as [te [H1 H2]]. destruct (printable te) eqn:E; [|discriminate].
  destruct Hin as [->|Hin]; [exists te; auto|apply IH; auto].
Qed.

(* T2: every expression occurring anywhere in a well-typed statement is well typed in some environment *)
Theorem occurs_typed : forall s ret inl G G', check_stmt structs sigs ret inl G s = TOk G' ->
  forall e, occurs e s -> exists G1 t, check_expr structs sigs G1 e = TOk t.
Proof.
  intros s ret inl G G' H e Ho. revert ret inl G G' H.
  induction Ho as [e a b Ho IH|e a b Ho IH|e x t e0 Hs|e x e0 Hs|e x k e0 Hs|e c a b Hs|e c a b Ho IH|e c a b Ho IH
                  |e c a Hs|e c a Ho IH|e x t lo hi ic st a Hs|e x t lo hi ic st a Hs|e x t lo hi ic st a Hs|e x t lo hi ic st a Ho IH|e e0 Hs|e es a Hin Hs|e e0 Hs|e a Ho IH]; intros ret inl G G' H; cbn in H.
  - apply tbind_ok in H as [G1 [H1 H2]]. eapply IH; eauto.
  - apply tbind_ok in H as [G1 [H1 H2]]. eapply IH; eauto.
  - destruct (in_current x G); [discriminate|]. apply tbind_ok in H as [te [H1 _]].
    destruct (subexpr_typed G _ _ H1 _ Hs) as [t' Ht']. eauto.
  - destruct (tlookup x G); [|discriminate]. apply tbind_ok in H as [te [H1 _]].
    destruct (subexpr_typed G _ _ H1 _ Hs) as [t' Ht']. eauto.
  - destruct (tlookup x G) as [[| | | |sid|]|]; try discriminate.
    destruct (nth_error structs sid) as [fts|]; [|discriminate]. destruct (nth_error fts k); [|discriminate].
    apply tbind_ok in H as [te [H1 _]]. destruct (subexpr_typed G _ _ H1 _ Hs) as [t' Ht']. eauto.
  - apply tbind_ok in H as [tc [H1 _]]. destruct (subexpr_typed G _ _ H1 _ Hs) as [t' Ht']. eauto.
  - apply tbind_ok in H as [tc [_ H]]. destruct tc; try discriminate.
    apply tbind_ok in H as [Ga [Ha _]]. eapply IH; eauto.
  - apply tbind_ok in H as [tc [_ H]]. destruct tc; try discriminate.
    apply tbind_ok in H as [Ga [_ H]]. apply tbind_ok in H as [Gb [Hb _]]. eapply IH; eauto.
  - apply tbind_ok in H as [tc [H1 _]]. destruct (subexpr_typed G _ _ H1 _ Hs) as [t' Ht']. eauto.
  - apply tbind_ok in H as [tc [_ H]]. destruct tc; try discriminate.
    apply tbind_ok in H as [Ga [Ha _]]. eapply IH; eauto.
  - apply tbind_ok in H as [tl [H1 _]]. destruct (subexpr_typed G _ _ H1 _ Hs) as [t' Ht']. eauto.
  - apply tbind_ok in H as [tl [_ H]]. apply tbind_ok in H as [th [H2 _]].
    destruct (subexpr_typed G _ _ H2 _ Hs) as [t' Ht']. eauto.
  - apply tbind_ok in H as [tl [_ H]]. apply tbind_ok in H as [th [_ H]]. apply tbind_ok in H as [ts [H3 _]].
    destruct (subexpr_typed G _ _ H3 _ Hs) as [t' Ht']. eauto.
  - apply tbind_ok in H as [tl [_ H]]. apply tbind_ok in H as [th [_ H]]. apply tbind_ok in H as [ts [_ H]].
    destruct (ty_eqb tl (TInt t) && ty_eqb th (TInt t) && ty_eqb ts (TInt t)); [|discriminate].
    apply tbind_ok in H as [Ga [Ha _]]. eapply IH; eauto.
  - apply tbind_ok in H as [te [H1 _]]. destruct (subexpr_typed G _ _ H1 _ Hs) as [t' Ht']. eauto.
  - assert (G' = G) as ->.
    { clear - H. revert H. induction es as [|e1 r IHes]; intros H; [inversion H; reflexivity|].
      apply tbind_ok in H as [te [_ H]]. destruct (printable te); [auto|discriminate]. }
    destruct (prints_ok G es H a Hin) as [te [Hte _]].
    destruct (subexpr_typed G _ _ Hte _ Hs) as [t' Ht']. eauto.
  - destruct e0; try discriminate; apply tbind_ok in H as [te [H1 _]];
      destruct (subexpr_typed G _ _ H1 _ Hs) as [t' Ht']; eauto.
  - apply tbind_ok in H as [Ga [Ha _]]. eapply IH; eauto.
Qed.
End S.

(* T3: lifted to whole programs *)
Lemma check_fns_all structs sigs : forall fs, check_fns structs sigs fs = TOk tt -> forall f, In f fs -> check_fn structs sigs f = TOk tt.
Proof.
  induction fs as [|g r IH]; intros H f Hin; [destruct Hin|].
  cbn in H. apply tbind_ok in H as [u [H1 H2]]. destruct u.
  destruct Hin as [->|Hin]; auto.
Qed.

Theorem prog_every_expr_typed structs p :
  check_prog structs p = TOk tt ->
  forall f e, In f p -> occurs e (fbody f) -> exists G t, check_expr structs (map sig_of p) G e = TOk t.
Proof.
  unfold check_prog. destruct (rev p) as [|m r]; [discriminate|].
  destruct (fparams m); [|discriminate]. destruct (fret m); try discriminate.
  intros H f e Hin Ho. pose proof (check_fns_all _ _ _ H f Hin) as Hf.
  unfold check_fn in Hf. destruct (negb (distinct_params (fparams f))); [discriminate|].
  apply tbind_ok in Hf as [G' [Hs _]]. eapply occurs_typed; eauto.
Qed.

(* ---- the rules enforced at each node (inversion lemmas) ---- *)
Section Rules.
Variable structs : structs_t.
Variable sigs : list sig.

(* arithmetic: both operands have the same integer type, which is the result type; the only other well-typed use of an
   arithmetic operator is `+` on two strings (concatenation) *)
Lemma rule_arith_operands G o a b t :
  o = Add \/ o = Sub \/ o = Mul \/ o = Div \/ o = Mod ->
  check_expr structs sigs G (EBin o a b) = TOk t ->
  (exists x, check_expr structs sigs G a = TOk (TInt x) /\ check_expr structs sigs G b = TOk (TInt x) /\ t = TInt x) \/
  (o = Add /\ check_expr structs sigs G a = TOk TStr /\ check_expr structs sigs G b = TOk TStr /\ t = TStr).
Proof.
  intros Ho H. cbn in H. apply tbind_ok in H as [ta [Ha H]]. apply tbind_ok in H as [tb [Hb H]].
  destruct Ho as [-> | [-> | [-> | [-> | ->]]]]; destruct ta as [x| | | |sx|rx], tb as [y| | | |sy|ry]; try discriminate;
    try (inversion H; subst; right; auto; fail);
    destruct (ity_eqb x y) eqn:E; try discriminate; inversion H; subst;
    left; exists x; (assert (x = y) as <- by (destruct x, y; cbn in E; congruence)); auto.
Qed.

(* equality: both operands have the same integer type, or both are bool, or both are strings *)
Lemma rule_equality_operands G o a b t :
  o = Eq \/ o = Ne ->
  check_expr structs sigs G (EBin o a b) = TOk t ->
  t = TBool /\ exists ta, check_expr structs sigs G a = TOk ta /\ check_expr structs sigs G b = TOk ta /\
                          ((exists x, ta = TInt x) \/ ta = TBool \/ ta = TStr).
Proof.
  intros Ho H. cbn in H. apply tbind_ok in H as [ta [Ha H]]. apply tbind_ok in H as [tb [Hb H]].
  destruct Ho as [-> | ->]; destruct ta as [x| | | |sx|rx], tb as [y| | | |sy|ry]; try discriminate;
    try (inversion H; subst; split; [reflexivity|]; eexists; split; [eassumption|]; split; [eassumption|]; auto; fail);
    destruct (ity_eqb x y) eqn:E; try discriminate; inversion H; subst;
    (assert (x = y) as <- by (destruct x, y; cbn in E; congruence));
    (split; [reflexivity|]; exists (TInt x); split; [assumption|]; split; [assumption|]; left; eauto).
Qed.

Lemma rule_order_operands G o a b t :
  o = Lt \/ o = Le \/ o = Gt \/ o = Ge ->
  check_expr structs sigs G (EBin o a b) = TOk t ->
  exists x, check_expr structs sigs G a = TOk (TInt x) /\ check_expr structs sigs G b = TOk (TInt x) /\ t = TBool.
Proof.
  intros Ho H. cbn in H. apply tbind_ok in H as [ta [Ha H]]. apply tbind_ok in H as [tb [Hb H]].
  destruct Ho as [-> | [-> | [-> | ->]]]; destruct ta as [x| | | |sx|rx], tb as [y| | | |sy|ry]; try discriminate;
    destruct (ity_eqb x y) eqn:E; try discriminate; inversion H; subst;
    exists x; (assert (x = y) as <- by (destruct x, y; cbn in E; congruence)); auto.
Qed.

Lemma rule_logical_operands G o a b t :
  o = And \/ o = Or ->
  check_expr structs sigs G (EBin o a b) = TOk t ->
  check_expr structs sigs G a = TOk TBool /\ check_expr structs sigs G b = TOk TBool /\ t = TBool.
Proof.
  intros Ho H. cbn in H. apply tbind_ok in H as [ta [Ha H]]. apply tbind_ok in H as [tb [Hb H]].
  destruct Ho as [->| ->]; destruct ta, tb; try discriminate; inversion H; auto.
Qed.

Lemma rule_not_operand G a t :
  check_expr structs sigs G (EUn Not a) = TOk t -> check_expr structs sigs G a = TOk TBool /\ t = TBool.
Proof. cbn. intros H. apply tbind_ok in H as [ta [Ha H]]. destruct ta; try discriminate. inversion H; auto. Qed.

Lemma rule_var_defined G x t : check_expr structs sigs G (EVar x) = TOk t -> tlookup x G = Some t.
Proof. cbn. destruct (tlookup x G); intros H; inversion H; reflexivity. Qed.

Lemma rule_literal_range G t v t' : check_expr structs sigs G (ELit t v) = TOk t' -> in_range t v = true /\ t' = TInt t.
Proof. cbn. destruct (in_range t v); intros H; inversion H; auto. Qed.

Lemma ty_eqb_eq a b : ty_eqb a b = true -> a = b.
Proof.
  destruct a as [x| | | |m|m], b as [y| | | |n|n]; cbn; try discriminate; auto.
  - destruct x, y; cbn; congruence.
  - intros H. apply Nat.eqb_eq in H. congruence.
  - intros H. apply Nat.eqb_eq in H. congruence.
Qed.

Lemma rule_call G f es t :
  check_expr structs sigs G (ECall f es) = TOk t ->
  exists pts, nth_error sigs f = Some (pts, t) /\ length es = length pts /\
              Forall2 (fun e pt => check_expr structs sigs G e = TOk pt) es pts.
Proof.
  intros H. apply call_inv in H as [pts [Hn HF]]. exists pts. split; [exact Hn|]. split.
  - clear - HF. induction HF; cbn; congruence.
  - clear - HF. induction HF as [|e pt l l' [te [H1 H2]] _ IH]; constructor; auto.
    apply ty_eqb_eq in H2. subst. exact H1.
Qed.

(* by-reference calls: the callee is declared, the counts match, an argument is passed by reference exactly where the parameter
   is a mutable reference and is then a variable, every argument has the parameter's inner type, and no variable is passed by
   reference twice *)
Lemma rule_callr G f args t :
  check_expr structs sigs G (ECallR f args) = TOk t ->
  exists pts, nth_error sigs f = Some (pts, t) /\ length args = length pts /\ distinct_refs args = true /\
              Forall2 (fun a pt => fst a = is_ref pt /\ (fst a = true -> exists x, snd a = EVar x) /\
                                   check_expr structs sigs G (snd a) = TOk (pty_in pt)) args pts.
Proof.
  intros H. apply callr_inv in H as [pts [Hn [Hd HF]]]. exists pts. split; [exact Hn|]. split; [|split; [exact Hd|]].
  - clear - HF. induction HF; cbn; congruence.
  - clear - HF. induction HF as [|a pt l l' [Hf [Hv [te [H1 H2]]]] _ IH]; constructor; auto.
    split; [exact Hf|]. split.
    + intros Ht. specialize (Hv Ht). destruct (snd a); try discriminate. eauto.
    + apply ty_eqb_eq in H2. subst. exact H1.
Qed.

Lemma rule_condition_bool ret inl G c a b G' :
  check_stmt structs sigs ret inl G (SIf c a b) = TOk G' -> check_expr structs sigs G c = TOk TBool.
Proof. cbn. intros H. apply tbind_ok in H as [tc [Hc H]]. destruct tc; try discriminate. exact Hc. Qed.

Lemma rule_loop_condition_bool ret inl G c a G' :
  check_stmt structs sigs ret inl G (SWhile c a) = TOk G' -> check_expr structs sigs G c = TOk TBool.
Proof. cbn. intros H. apply tbind_ok in H as [tc [Hc H]]. destruct tc; try discriminate. exact Hc. Qed.

Lemma rule_let ret inl G x t e G' :
  check_stmt structs sigs ret inl G (SLet x t e) = TOk G' ->
  in_current x G = false /\ check_expr structs sigs G e = TOk t /\ t <> TVoid.
Proof.
  cbn. destruct (in_current x G); [discriminate|]. intros H. apply tbind_ok in H as [te [He H]].
  destruct t; try discriminate; destruct (ty_eqb te _) eqn:E; try discriminate;
    apply ty_eqb_eq in E; subst; repeat split; auto; discriminate.
Qed.

Lemma rule_assign ret inl G x e G' :
  check_stmt structs sigs ret inl G (SAssign x e) = TOk G' ->
  exists t, tlookup x G = Some t /\ check_expr structs sigs G e = TOk t.
Proof.
  cbn. destruct (tlookup x G) as [t|]; [|discriminate]. intros H. apply tbind_ok in H as [te [He H]].
  destruct (ty_eqb te t) eqn:E; [|discriminate]. apply ty_eqb_eq in E. subst. eauto.
Qed.

Lemma rule_return_value ret inl G e G' :
  check_stmt structs sigs ret inl G (SReturn (Some e)) = TOk G' -> ret <> TVoid /\ check_expr structs sigs G e = TOk ret.
Proof.
  cbn. intros H. apply tbind_ok in H as [te [He H]].
  destruct ret; try discriminate; destruct (ty_eqb te _) eqn:E; try discriminate;
    apply ty_eqb_eq in E; subst; split; auto; discriminate.
Qed.

Lemma rule_return_missing_value ret inl G G' :
  check_stmt structs sigs ret inl G (SReturn None) = TOk G' -> ret = TVoid.
Proof. cbn. destruct ret; intros H; try discriminate; reflexivity. Qed.
End Rules.
