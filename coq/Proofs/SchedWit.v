(* C14 — concrete witnesses (vm_compute) where the faithful model is schedule dependent. *)
From Coq Require Import List Arith Bool ZArith Permutation.
From FV Require Import Models.Sched.
Import ListNotations.

(* module ids: 0 = global, 1 = p/a, 2 = p/b, 3 = p/main, 4 = p/x ; file ranks: 0 = a.fer, 1 = b.fer, 2 = main.fer *)

(* --- literal names under process-global counters (the code before fix C14-literal-names-per-module) *)
Definition P_lits : project :=
  [(1, Present [ELit KFn]); (2, Present [ELit KFn]); (3, Present [ESpawn 1 (Some (2, 1)); ESpawn 2 (Some (2, 2))])].
Definition s_ab : list node := [3; 3; 1; 2].
Definition s_ba : list node := [3; 3; 2; 1].

Lemma prefix_global_names_refuted :
  exists P roots s1 s2, complete (run true P roots s1) = true /\ complete (run true P roots s2) = true /\
    exists m, names_of (run true P roots s1) m <> names_of (run true P roots s2) m.
Proof.
  exists P_lits, [3], s_ab, s_ba. split; [reflexivity|]. split; [reflexivity|].
  exists 1. vm_compute. discriminate.
Qed.

(* --- which module reports the circular import: main imports a and b, a imports b, b imports a *)
Definition P_cyc : project :=
  [(1, Present [EDep 2 (Some (0, 1)); ESpawn 2 (Some (0, 1))]);
   (2, Present [EDep 1 (Some (1, 1)); ESpawn 1 (Some (1, 1))]);
   (3, Present [EDep 1 (Some (2, 1)); EDep 2 (Some (2, 2)); ESpawn 1 (Some (2, 1)); ESpawn 2 (Some (2, 2))])].
Definition c_ab : list node := [3; 3; 3; 3; 1; 1; 2; 2].
Definition c_ba : list node := [3; 3; 3; 3; 2; 2; 1; 1].

Lemma cycle_site_refuted :
  exists P roots s1 s2, complete (run false P roots s1) = true /\ complete (run false P roots s2) = true /\
    sorted_diags (run false P roots s1) <> sorted_diags (run false P roots s2).
Proof.
  exists P_cyc, [3], c_ab, c_ba. split; [reflexivity|]. split; [reflexivity|]. vm_compute. discriminate.
Qed.

(* --- a missing module imported by two modules is reported at the import of whoever spawns it first *)
Definition P_miss : project :=
  [(1, Present [EDep 4 (Some (0, 1)); ESpawn 4 (Some (0, 1))]);
   (2, Present [EDep 4 (Some (1, 1)); ESpawn 4 (Some (1, 1))]);
   (3, Present [EDep 1 (Some (2, 1)); EDep 2 (Some (2, 2)); ESpawn 1 (Some (2, 1)); ESpawn 2 (Some (2, 2))]);
   (4, Missing 7)].
Definition m_ab : list node := [3; 3; 3; 3; 1; 1; 2; 2; 4].
Definition m_ba : list node := [3; 3; 3; 3; 2; 2; 1; 1; 4].

Lemma missing_site_refuted :
  exists P roots s1 s2, complete (run false P roots s1) = true /\ complete (run false P roots s2) = true /\
    sorted_diags (run false P roots s1) <> sorted_diags (run false P roots s2).
Proof.
  exists P_miss, [3], m_ab, m_ba. split; [reflexivity|]. split; [reflexivity|]. vm_compute. discriminate.
Qed.

(* --- two missing modules imported on the same line: equal sort keys, different goroutines *)
Definition P_line : project :=
  [(3, Present [EDep 4 (Some (2, 1)); EDep 5 (Some (2, 1)); ESpawn 4 (Some (2, 1)); ESpawn 5 (Some (2, 1))]);
   (4, Missing 4); (5, Missing 5)].
Definition l_ab : list node := [3; 3; 3; 3; 4; 5].
Definition l_ba : list node := [3; 3; 3; 3; 5; 4].

Lemma same_line_diag_refuted :
  exists P roots s1 s2, complete (run false P roots s1) = true /\ complete (run false P roots s2) = true /\
    sorted_diags (run false P roots s1) <> sorted_diags (run false P roots s2).
Proof.
  exists P_line, [3], l_ab, l_ba. split; [reflexivity|]. split; [reflexivity|]. vm_compute. discriminate.
Qed.

(* --- emitTypeIDs before the fix: the output is the iteration order *)
Lemma prefix_typeids_refuted :
  exists (m1 m2 : tidmap), Permutation m1 m2 /\ emit_typeids_prefix m1 <> emit_typeids_prefix m2.
Proof.
  exists [([1], [105]); ([2], [115])], [([2], [115]); ([1], [105])]. split.
  - apply perm_swap.
  - vm_compute. discriminate.
Qed.
