(* C14 — concrete witnesses (vm_compute) where the faithful model is schedule dependent. *)
From Coq Require Import List Arith Bool ZArith Permutation.
From FV Require Import Models.Sched.
Import ListNotations.

(* module ids: 0 = global, 1 = p/a, 2 = p/b, 3 = p/main, 4 = p/x ; file ranks: 0 = a.fer, 1 = b.fer, 2 = main.fer *)

(* --- literal names under process-global counters (the code before fix C14-literal-names-per-module) *)
Definition P_lits : project :=
  [(1, Present [ELit KFn]); (2, Present [ELit KFn]); (3, Present [ESpawn 1 (Some (2, 1)); ESpawn 2 (Some (2, 2))])].
Definition s_ab : list node := [3; 3; 1; 2].
Definition s_ba : list node := [3; 3; 2; 1].

Lemma prefix_global_names_refuted :
  exists P roots s1 s2, complete (run true P roots s1) = true /\ complete (run true P roots s2) = true /\
    exists m, names_of (run true P roots s1) m <> names_of (run true P roots s2) m.
Proof.
  exists P_lits, [3], s_ab, s_ba. split; [reflexivity|]. split; [reflexivity|].
  exists 1. vm_compute. discriminate.
Qed.

(* --- which module reports the circular import: main imports a and b, a imports b, b imports a *)
Definition P_cyc : project :=
  [(1, Present [EDep 2 (Some (0, 1)); ESpawn 2 (Some (0, 1))]);
   (2, Present [EDep 1 (Some (1, 1)); ESpawn 1 (Some (1, 1))]);
   (3, Present [EDep 1 (Some (2, 1)); EDep 2 (Some (2, 2)); ESpawn 1 (Some (2, 1)); ESpawn 2 (Some (2, 2))])].
Definition c_ab : list node := [3; 3; 3; 3; 1; 1; 2; 2].
Definition c_ba : list node := [3; 3; 3; 3; 2; 2; 1; 1].

Lemma cycle_site_refuted :
  exists P roots s1 s2, complete (run false P roots s1) = true /\ complete (run false P roots s2) = true /\
    sorted_diags (run false P roots s1) <> sorted_diags (run false P roots s2).
Proof.
  exists P_cyc, [3], c_ab, c_ba. split; [reflexivity|]. split; [reflexivity|]. vm_compute. discriminate.
Qed.

(* --- a missing module imported by two modules is reported at the import of whoever spawns it first *)
Definition P_miss : project :=
  [(1, Present [EDep 4 (Some (0, 1)); ESpawn 4 (Some (0, 1))]);
   (2, Present [EDep 4 (Some (1, 1)); ESpawn 4 (Some (1, 1))]);
   (3, Present [EDep 1 (Some (2, 1)); EDep 2 (Some (2, 2)); ESpawn 1 (Some (2, 1)); ESpawn 2 (Some (2, 2))]);
   (4, Missing 7)].
Definition m_ab : list node := [3; 3; 3; 3; 1; 1; 2; 2; 4].
Definition m_ba : list node := [3; 3; 3; 3; 2; 2; 1; 1; 4].

Lemma missing_site_refuted :
  exists P roots s1 s2, complete (run false P roots s1) = true /\ complete (run false P roots s2) = true /\
    sorted_diags (run false P roots s1) <> sorted_diags (run false P roots s2).
Proof.
  exists P_miss, [3], m_ab, m_ba. split; [reflexivity|]. split; [reflexivity|]. vm_compute. discriminate.
Qed.

(* --- two missing modules imported on the same line: equal sort keys, different goroutines *)
Definition P_line : project :=
  [(3, Present [EDep 4 (Some (2, 1)); EDep 5 (Some (2, 1)); ESpawn 4 (Some (2, 1)); ESpawn 5 (Some (2, 1))]);
   (4, Missing 4); (5, Missing 5)].
Definition l_ab : list node := [3; 3; 3; 3; 4; 5].
Definition l_ba : list node := [3; 3; 3; 3; 5; 4].

Lemma same_line_diag_refuted :
  exists P roots s1 s2, complete (run false P roots s1) = true /\ complete (run false P roots s2) = true /\
    sorted_diags (run false P roots s1) <> sorted_diags (run false P roots s2).
Proof.
  exists P_line, [3], l_ab, l_ba. split; [reflexivity|]. split; [reflexivity|]. vm_compute. discriminate.
Qed.

(* --- emitTypeIDs before the fix: the output is the iteration order *)
Lemma prefix_typeids_refuted :
  exists (m1 m2 : tidmap), Permutation m1 m2 /\ emit_typeids_prefix m1 <> emit_typeids_prefix m2.
Proof.
  exists [([1], [105]); ([2], [115])], [([2], [115]); ([1], [105])]. split.
  - apply perm_swap.
  - vm_compute. discriminate.
Qed.

(* ---------------------------------------------------------------- non-vacuity of the positive theorems *)
From FV Require Import Proofs.SchedSort Proofs.SchedNames Proofs.SchedTopo.

(* repaired numbering: both sibling modules finish under both interleavings and both get __func_lit__1 *)
Lemma names_nonvacuous :
  finished (run false P_lits [3] s_ab) 1 = true /\ finished (run false P_lits [3] s_ba) 1 = true /\
  names_of (run false P_lits [3] s_ab) 1 = [(KFn, 1)] /\ names_of (run false P_lits [3] s_ab) 2 = [(KFn, 1)] /\
  s_names (run false P_lits [3] s_ab) <> s_names (run false P_lits [3] s_ba).
Proof. repeat split; try reflexivity. vm_compute. discriminate. Qed.

(* two arrival orders of diagnostics of different files: the hypothesis of the sort theorem holds, the bags differ *)
Definition dA : diag := mkDiag (Some (0, 1)) (MText 1).
Definition dB : diag := mkDiag (Some (1, 1)) (MText 2).
Lemma diag_sort_nonvacuous :
  [dA; dB] <> [dB; dA] /\
  (forall k, filter (equiv diag_less k) [dA; dB] = filter (equiv diag_less k) [dB; dA]).
Proof.
  split; [discriminate|].
  intros [[[f l]|] mg]; unfold equiv, diag_less, dA, dB; cbn [d_loc filter]; [|reflexivity].
  destruct f as [|[|f]]; destruct l as [|[|l]]; reflexivity.
Qed.

(* a diamond 3 -> {1,2} -> 0 enumerated in two different map orders *)
Definition g_dia : graph := [(1, [0]); (2, [0]); (3, [1; 2])].
Lemma topo_nonvacuous :
  NoDup (map fst g_dia) /\ Permutation g_dia (rev g_dia) /\
  topo g_dia [0; 1; 2; 3] (fun _ => g_dia) = [0; 1; 2; 3] /\
  topo g_dia [3; 1; 0; 2] (fun k => if Nat.even k then rev g_dia else g_dia) = [0; 1; 2; 3].
Proof.
  split; [repeat constructor; cbn; intuition discriminate|].
  split; [apply Permutation_rev|]. split; reflexivity.
Qed.

Definition m_tid : tidmap := [([95; 50], [105]); ([95; 49; 48], [115]); ([95; 49], [98])].   (* _2, _10, _1 *)
Lemma typeids_nonvacuous :
  NoDup (map fst m_tid) /\ Permutation m_tid (rev m_tid) /\ m_tid <> rev m_tid /\
  map fst (emit_typeids m_tid) = [[95; 49]; [95; 49; 48]; [95; 50]].
Proof.
  split; [repeat constructor; cbn; intuition discriminate|].
  split; [apply Permutation_rev|]. split; [discriminate|reflexivity].
Qed.
