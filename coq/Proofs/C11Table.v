(* C11 — statements over the table regenerated from /repo on every run (gen/Gen_Compat.v). *)
From Coq Require Import ZArith List Bool.
From FV Require Import Models.Compat Proofs.CompatP gen.Gen_Compat.
Import ListNotations.

Lemma table_lossless : forall p s t, In (p, s, t) implicit_rows -> forall v, dom s v -> dom t v.
Proof. apply rows_contained. vm_compute. reflexivity. Qed.

Lemma table_positions_agree : forall p q s t, In (p, s, t) implicit_rows -> In (q, s, t) implicit_rows.
Proof. apply positions_agree. vm_compute. reflexivity. Qed.

Lemma table_cast_available : forall s t, s <> t -> ~ In (PLet, s, t) implicit_rows -> In (s, t) cast_rows.
Proof. apply cast_available. vm_compute. reflexivity. Qed.

(* non-vacuity: the table is not empty and contains a widening the language documents *)
Lemma table_nonvacuous : In (PLet, I8, I16) implicit_rows /\ In (PArg, U32, I64) implicit_rows /\ In (PRet, F32, F64) implicit_rows.
Proof. repeat split; apply row_in_In; vm_compute; reflexivity. Qed.

(* conversions into / out of / between user-declared named numeric types (`type N i8;`): accepted implicitly only if
   the underlying value sets are nested *)
Lemma table_named_lossless : forall s t, In (s, t) named_rows -> forall v, dom s v -> dom t v.
Proof. apply pairs_contained. vm_compute. reflexivity. Qed.

(* every other site at which a typed value meets an expected numeric type (compound assignment, operands of + and *,
   const, struct field initialiser / assignment, array literal / element, optional, method argument): accepted without a
   cast only if the value sets are nested *)
Lemma table_other_lossless : forall s t, In (s, t) other_rows -> forall v, dom s v -> dom t v.
Proof. apply pairs_contained. vm_compute. reflexivity. Qed.
