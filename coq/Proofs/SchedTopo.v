(* C14 — ComputeTopologicalOrder does not depend on Go's map iteration order. *)
From Coq Require Import List Arith Bool ZArith Lia Permutation.
From FV Require Import Models.Sched Proofs.SchedSort.
Import ListNotations.

Definition dext (d1 d2 : degmap) : Prop := forall x, d1 x = d2 x.

Lemma upd_ext : forall d1 d2 k v, dext d1 d2 -> dext (upd d1 k v) (upd d2 k v).
Proof. intros d1 d2 k v H x. unfold upd. destruct (x =? k); auto. Qed.

Lemma upd_swap : forall d a b va vb, a <> b -> dext (upd (upd d a va) b vb) (upd (upd d b vb) a va).
Proof.
  intros d a b va vb Hab x. unfold upd.
  destruct (Nat.eqb_spec x b), (Nat.eqb_spec x a); subst; try reflexivity. contradiction.
Qed.

Lemma upd_other : forall d a v b, a <> b -> upd d a v b = d b.
Proof. intros. unfold upd. destruct (Nat.eqb_spec b a); subst; [contradiction|reflexivity]. Qed.

(* relax on the same iteration order respects pointwise equality of the degree maps *)
Lemma relax_ext : forall gs cur d1 d2, dext d1 d2 ->
  dext (fst (relax gs cur d1)) (fst (relax gs cur d2)) /\ snd (relax gs cur d1) = snd (relax gs cur d2).
Proof.
  induction gs as [|[imp ds] gs IH]; intros cur d1 d2 H; cbn [relax].
  - split; [exact H|reflexivity].
  - rewrite (H imp). destruct (relax_deps imp ds cur (d2 imp)) as [d' nx].
    specialize (IH cur (upd d1 imp d') (upd d2 imp d') (upd_ext _ _ _ _ H)).
    destruct (relax gs cur (upd d1 imp d')) as [a1 n1], (relax gs cur (upd d2 imp d')) as [a2 n2].
    cbn [fst snd] in *. destruct IH as [IH1 IH2]. split; [exact IH1|congruence].
Qed.

(* ... and any two iteration orders of a map (distinct keys) give the same degrees and the same batch as a set *)
Lemma relax_perm : forall gs gs', Permutation gs gs' -> forall cur d1 d2,
  NoDup (map fst gs) -> dext d1 d2 ->
  dext (fst (relax gs cur d1)) (fst (relax gs' cur d2)) /\
  Permutation (snd (relax gs cur d1)) (snd (relax gs' cur d2)).
Proof.
  induction 1 as [|[imp ds] l l' HP IH|[b db] [a da] l|l l' l'' HP1 IH1 HP2 IH2]; intros cur d1 d2 Hnd H.
  - cbn [relax fst snd]. split; [exact H|constructor].
  - cbn [relax]. rewrite (H imp). destruct (relax_deps imp ds cur (d2 imp)) as [d' nx].
    cbn [map] in Hnd. inversion Hnd as [|? ? _ Hnd']; subst.
    specialize (IH cur (upd d1 imp d') (upd d2 imp d') Hnd' (upd_ext _ _ _ _ H)).
    destruct (relax l cur (upd d1 imp d')) as [a1 n1], (relax l' cur (upd d2 imp d')) as [a2 n2].
    cbn [fst snd] in *. destruct IH as [IH1 IH2]. split; [exact IH1|apply Permutation_app_head; exact IH2].
  - cbn [map fst] in Hnd. inversion Hnd as [|? ? Hn _]; subst.
    assert (Hab : a <> b) by (intros ->; apply Hn; left; reflexivity).
    cbn [relax].
    rewrite (H a).
    destruct (relax_deps a da cur (d2 a)) as [va na] eqn:Ea.
    rewrite (upd_other d1 a va b Hab). rewrite (H b).
    destruct (relax_deps b db cur (d2 b)) as [vb nb] eqn:Eb.
    rewrite (upd_other d2 b vb a) by congruence. rewrite Ea.
    assert (Hx : dext (upd (upd d1 a va) b vb) (upd (upd d2 b vb) a va)).
    { intros x. rewrite (upd_swap d1 a b va vb Hab x).
      apply (upd_ext _ _ a va (upd_ext _ _ b vb H) x). }
    destruct (relax_ext l cur _ _ Hx) as [E1 E2].
    destruct (relax l cur (upd (upd d1 a va) b vb)) as [a1 n1], (relax l cur (upd (upd d2 b vb) a va)) as [a2 n2].
    cbn [fst snd] in *. subst n2. split; [exact E1|].
    rewrite !app_assoc. apply Permutation_app_tail. apply Permutation_app_comm.
  - assert (Hnd' : NoDup (map fst l')) by (eapply Permutation_NoDup; [apply Permutation_map; exact HP1|exact Hnd]).
    destruct (IH1 cur d1 d2 Hnd H) as [A1 A2].
    destruct (IH2 cur d2 d2 Hnd' (fun x => eq_refl)) as [B1 B2].
    split.
    + intros x. rewrite A1. apply B1.
    + eapply Permutation_trans; eassumption.
Qed.

Lemma kahn_perm : forall fuel iter1 iter2 k q s d1 d2,
  (forall i, Permutation (iter1 i) (iter2 i)) -> (forall i, NoDup (map fst (iter1 i))) -> dext d1 d2 ->
  kahn fuel iter1 k q s d1 = kahn fuel iter2 k q s d2.
Proof.
  induction fuel as [|f IH]; intros iter1 iter2 k q s d1 d2 HP Hnd H; cbn [kahn]; [reflexivity|].
  destruct q as [|cur q]; [reflexivity|].
  destruct (relax_perm _ _ (HP k) cur d1 d2 (Hnd k) H) as [E1 E2].
  destruct (relax (iter1 k) cur d1) as [a1 n1], (relax (iter2 k) cur d2) as [a2 n2]. cbn [fst snd] in *.
  rewrite (sort_nat_perm _ _ E2). apply IH; assumption.
Qed.

Lemma perm_filter : forall (f : node -> bool) l l', Permutation l l' -> Permutation (filter f l) (filter f l').
Proof.
  induction 1; cbn [filter].
  - constructor.
  - destruct (f x); [constructor|]; assumption.
  - destruct (f x), (f y); try apply Permutation_refl. apply perm_swap.
  - eapply Permutation_trans; eassumption.
Qed.

(* the order in which Go enumerates ctx.Modules and (every time) ctx.DepGraph is irrelevant *)
Theorem topo_perm_indep : forall g mo1 mo2 iter1 iter2,
  NoDup (map fst g) -> Permutation mo1 mo2 ->
  (forall i, Permutation g (iter1 i)) -> (forall i, Permutation g (iter2 i)) ->
  topo g mo1 iter1 = topo g mo2 iter2.
Proof.
  intros g mo1 mo2 iter1 iter2 Hnd Hmo H1 H2. unfold topo, topo_fuel.
  rewrite (Permutation_length Hmo).
  rewrite (sort_nat_perm _ _ (perm_filter (fun m => (deg0 g m =? 0)%Z) _ _ Hmo)).
  apply kahn_perm.
  - intros i. eapply Permutation_trans; [apply Permutation_sym; apply H1|apply H2].
  - intros i. eapply Permutation_NoDup; [apply Permutation_map; apply H1|exact Hnd].
  - intros x. reflexivity.
Qed.
