(* C05 — the graph built by buildBlock/buildIf/buildMatch/buildWhile/buildFor covers every run of the body.
   Invariant (build_inv below), by induction over the builder: if building a statement (list) starting in block `c`
   of state t yields state t' and result r, then
     - only `c` and blocks created during the build get new out-edges / a Returns flag (frameN), so every earlier
       path stays a path (ext), blocks that are waiting (loop `after` blocks, merge blocks) stay untouched;
     - r = Some d (a fall-through block): d is c or new, has no out-edge yet and does not return;
       r = None: the statement has no normal completion;
     - for every run of the statement with outcome o:  o = normal   -> r = Some d and there is a return-free path c ->* d,
                                                       o = break    -> return-free path c ->* breakTarget of the loop stack top,
                                                       o = continue -> return-free path c ->* continueTarget (loop header),
       (outside any loop: the "outside loop" diagnostic counter grew). *)
From Coq Require Import List Bool Arith Lia.
From FV Require Import Models.Returns Proofs.ReturnsDfs.
Import ListNotations.

(* ------------------------------------------------------------------ projections of the primitive state updates *)
Definition nb (t : st) : st := snd (new_block t).
Lemma new_block_eq t : new_block t = (S (nblk t), nb t). Proof. reflexivity. Qed.

Lemma nblk_nb t : nblk (nb t) = S (nblk t). Proof. reflexivity. Qed.
Lemma edges_nb t : edges (nb t) = edges t. Proof. reflexivity. Qed.
Lemma rets_nb t : rets (nb t) = rets t. Proof. reflexivity. Qed.
Lemma nout_nb t : n_outside (nb t) = n_outside t. Proof. reflexivity. Qed.
Lemma nblk_ae a b t : nblk (add_edge a b t) = nblk t. Proof. reflexivity. Qed.
Lemma edges_ae a b t : edges (add_edge a b t) = edges t ++ [(a, b)]. Proof. reflexivity. Qed.
Lemma rets_ae a b t : rets (add_edge a b t) = rets t. Proof. reflexivity. Qed.
Lemma nout_ae a b t : n_outside (add_edge a b t) = n_outside t. Proof. reflexivity. Qed.
Lemma nblk_mr c t : nblk (mark_ret c t) = nblk t. Proof. reflexivity. Qed.
Lemma edges_mr c t : edges (mark_ret c t) = edges t. Proof. reflexivity. Qed.
Lemma rets_mr c t : rets (mark_ret c t) = c :: rets t. Proof. reflexivity. Qed.
Lemma nout_mr c t : n_outside (mark_ret c t) = n_outside t. Proof. reflexivity. Qed.
Lemma nblk_sf a b t : nblk (set_flags a b t) = nblk t. Proof. reflexivity. Qed.
Lemma edges_sf a b t : edges (set_flags a b t) = edges t. Proof. reflexivity. Qed.
Lemma rets_sf a b t : rets (set_flags a b t) = rets t. Proof. reflexivity. Qed.
Lemma nout_sf a b t : n_outside (set_flags a b t) = n_outside t. Proof. reflexivity. Qed.
Lemma nblk_du t : nblk (diag_unreach t) = nblk t. Proof. reflexivity. Qed.
Lemma edges_du t : edges (diag_unreach t) = edges t. Proof. reflexivity. Qed.
Lemma rets_du t : rets (diag_unreach t) = rets t. Proof. reflexivity. Qed.
Lemma nout_du t : n_outside (diag_unreach t) = n_outside t. Proof. reflexivity. Qed.
Lemma nblk_di t : nblk (diag_infloop t) = nblk t. Proof. reflexivity. Qed.
Lemma edges_di t : edges (diag_infloop t) = edges t. Proof. reflexivity. Qed.
Lemma rets_di t : rets (diag_infloop t) = rets t. Proof. reflexivity. Qed.
Lemma nout_di t : n_outside (diag_infloop t) = n_outside t. Proof. reflexivity. Qed.
Lemma nblk_do t : nblk (diag_outside t) = nblk t. Proof. reflexivity. Qed.
Lemma edges_do t : edges (diag_outside t) = edges t. Proof. reflexivity. Qed.
Lemma rets_do t : rets (diag_outside t) = rets t. Proof. reflexivity. Qed.
Lemma nout_do t : n_outside (diag_outside t) = S (n_outside t). Proof. reflexivity. Qed.

Global Hint Rewrite nblk_nb edges_nb rets_nb nout_nb nblk_ae edges_ae rets_ae nout_ae nblk_mr edges_mr rets_mr nout_mr
  nblk_sf edges_sf rets_sf nout_sf nblk_du edges_du rets_du nout_du nblk_di edges_di rets_di nout_di
  nblk_do edges_do rets_do nout_do : stp.

(* ------------------------------------------------------------------ unfolding equations of the builder (primitives kept folded) *)
Lemma build_return_eq v t c L :
  build_stmt (SReturn v) t c L =
  (add_edge c EXIT (mark_ret c (match L with Some _ => set_flags (lbrk t) true t | None => t end)), None).
Proof. reflexivity. Qed.

Lemma build_break_eq t c L :
  build_stmt SBreak t c L =
  match L with
  | None => (diag_outside t, Some c)
  | Some (brk, _) => (add_edge c brk (set_flags true (lret t) t), None)
  end.
Proof. destruct L as [[? ?]|]; reflexivity. Qed.

Lemma build_continue_eq t c L :
  build_stmt SContinue t c L =
  match L with
  | None => (diag_outside t, Some c)
  | Some (_, cont) => (add_edge c cont t, None)
  end.
Proof. destruct L as [[? ?]|]; reflexivity. Qed.

Lemma build_cons_eq s rest t c L :
  build_block (BCons s rest) t c L =
  let '(t1, c1) := build_stmt s t c L in
  match c1 with
  | Some d => build_block rest t1 d L
  | None => ((if block_nonempty rest then diag_unreach t1 else t1), None)
  end.
Proof. reflexivity. Qed.

Lemma build_ifs_eq thn e t c L :
  build_ifs (IfS thn e) t c L =
  let ifb := S (nblk t) in
  let '(t2, after_if) := build_block thn (add_edge c ifb (nb t)) ifb L in
  match e with
  | ENone => let merge := S (nblk t2) in (add_edge c merge (edge_from after_if merge (nb t2)), Some merge)
  | _ => let elseb := S (nblk t2) in
         let '(t4, after_else) := build_els e (add_edge c elseb (nb t2)) elseb L in
         let merge := S (nblk t4) in
         (edge_from after_else merge (edge_from after_if merge (nb t4)),
          if is_some after_if || is_some after_else then Some merge else None)
  end.
Proof. reflexivity. Qed.

Lemma build_arms_eq d body a t c L merge reach :
  build_arms (ACons d body a) t c L merge reach =
  let caseb := S (nblk t) in
  let '(t2, after_case) := build_block body (add_edge c caseb (nb t)) caseb L in
  build_arms a (edge_from after_case merge t2) c L merge (reach || is_some after_case).
Proof. reflexivity. Qed.

Lemma build_match_eq a t c L :
  build_stmt (SMatch a) t c L =
  let merge := S (nblk t) in
  let '(t1, reach) := build_arms a (nb t) c L merge false in
  let '(t2, reach2) := if has_default a then (t1, reach) else (add_edge c merge t1, true) in
  (t2, if reach2 then Some merge else None).
Proof. reflexivity. Qed.

Lemma build_while_eq lt body t c L :
  build_stmt (SWhile lt body) t c L =
  let header := S (nblk t) in
  let bodyb := S (S (nblk t)) in
  let after := S (S (S (nblk t))) in
  let t5 := nb (add_edge header bodyb (nb (add_edge c header (nb t)))) in
  let t6 := if lt then t5 else add_edge header after t5 in
  let '(t8, ab) := build_block body (set_flags false false t6) bodyb (Some (after, header)) in
  let t10 := set_flags (lbrk t6) (lret t6) (edge_from ab header t8) in
  ((if negb (lbrk t8) && negb (lret t8) && lt then diag_infloop t10 else t10), Some after).
Proof. reflexivity. Qed.

Lemma build_for_eq body t c L :
  build_stmt (SFor body) t c L =
  let header := S (nblk t) in
  let bodyb := S (S (nblk t)) in
  let after := S (S (S (nblk t))) in
  let t6 := add_edge header after (nb (add_edge header bodyb (nb (add_edge c header (nb t))))) in
  let '(t8, ab) := build_block body (set_flags false false t6) bodyb (Some (after, header)) in
  (set_flags (lbrk t6) (lret t6) (edge_from ab header t8), Some after).
Proof. reflexivity. Qed.

Global Opaque nb add_edge mark_ret set_flags diag_unreach diag_infloop diag_outside.

Ltac stp := autorewrite with stp in *.

(* ------------------------------------------------------------------ the relations of the invariant *)
Definition has_out (t : st) (x : nat) : Prop := exists y, In (x, y) (edges t).

(* every block with an out-edge or a Returns flag exists *)
Definition wf (t : st) : Prop :=
  (forall x y, In (x, y) (edges t) -> x <= nblk t) /\ (forall x, In x (rets t) -> x <= nblk t).

(* from t to t': only block c and blocks numbered above n got new out-edges / Returns flags *)
Definition frameN (n c : nat) (t t' : st) : Prop :=
  nblk t <= nblk t' /\ n_outside t <= n_outside t' /\ incl (edges t) (edges t') /\
  (forall x y, In (x, y) (edges t') -> In (x, y) (edges t) \/ x = c \/ n < x) /\
  (forall x, In x (rets t') -> In x (rets t) \/ x = c \/ n < x).

(* paths of t are paths of t' *)
Definition ext (t t' : st) : Prop :=
  incl (edges t) (edges t') /\ (forall x, has_out t x -> In x (rets t') -> In x (rets t)).

Lemma ext_refl t : ext t t.
Proof. split; [apply incl_refl | auto]. Qed.

Lemma ext_trans t1 t2 t3 : ext t1 t2 -> ext t2 t3 -> ext t1 t3.
Proof.
  intros [I1 R1] [I2 R2]. split; [eapply incl_tran; eauto|].
  intros x [y H] H3. apply R1; [exists y; exact H|]. apply R2; [exists y; apply I1; exact H | exact H3].
Qed.

Lemma path_ext t t' x y : ext t t' -> path t x y -> path t' x y.
Proof.
  intros [I R] P. induction P; [apply path_refl|].
  apply path_step with z; [| apply I; assumption | assumption].
  intros Hr. apply H. apply R; [exists z; assumption | assumption].
Qed.

Lemma path_trans t x y z : path t x y -> path t y z -> path t x z.
Proof. induction 1; intros; [assumption | eapply path_step; eauto]. Qed.

Lemma path_edge t x y : ~ In x (rets t) -> In (x, y) (edges t) -> path t x y.
Proof. intros. eapply path_step; eauto. apply path_refl. Qed.

(* primitive steps *)
Lemma ext_same t t' : edges t' = edges t -> rets t' = rets t -> ext t t'.
Proof. intros E R. split; [rewrite E; apply incl_refl | rewrite R; auto]. Qed.

Lemma ext_ae a b t : ext t (add_edge a b t).
Proof. split; stp; [apply incl_appl, incl_refl | auto]. Qed.

Lemma ext_ef x b t : ext t (edge_from x b t).
Proof. destruct x; simpl; [apply ext_ae | apply ext_refl]. Qed.

Lemma ext_mr c t : ~ has_out t c -> ext t (mark_ret c t).
Proof.
  intros H. split; stp; [apply incl_refl|]. intros x Hx [E | I]; [subst; contradiction | exact I].
Qed.

Lemma frameN_refl n c t : frameN n c t t.
Proof. repeat split; auto using incl_refl. Qed.

Lemma frameN_trans n c t1 t2 t3 : frameN n c t1 t2 -> frameN n c t2 t3 -> frameN n c t1 t3.
Proof.
  intros (A1 & B1 & C1 & D1 & E1) (A2 & B2 & C2 & D2 & E2). repeat split; try lia.
  - eapply incl_tran; eauto.
  - intros x y H. destruct (D2 _ _ H) as [H'|H']; [apply D1; exact H' | right; exact H'].
  - intros x H. destruct (E2 _ H) as [H'|H']; [apply E1; exact H' | right; exact H'].
Qed.

Lemma frameN_weaken n' c' n c t t' :
  frameN n' c' t t' -> (c' = c \/ n < c') -> n <= n' -> frameN n c t t'.
Proof.
  intros (A & B & C & D & E) Hc Hn. repeat split; auto.
  - intros x y H. destruct (D _ _ H) as [H'|[H'|H']]; [left; exact H' | right; subst; destruct Hc; [left; auto | right; lia] | right; right; lia].
  - intros x H. destruct (E _ H) as [H'|[H'|H']]; [left; exact H' | right; subst; destruct Hc; [left; auto | right; lia] | right; right; lia].
Qed.

Lemma frameN_same n c t t' :
  nblk t <= nblk t' -> n_outside t <= n_outside t' -> edges t' = edges t -> rets t' = rets t -> frameN n c t t'.
Proof. intros A B E R. repeat split; auto; rewrite ?E, ?R; auto using incl_refl. Qed.

Lemma frameN_nb n c t : frameN n c t (nb t).
Proof. apply frameN_same; stp; auto. Qed.
Lemma frameN_sf n c a b t : frameN n c t (set_flags a b t).
Proof. apply frameN_same; stp; auto. Qed.
Lemma frameN_du n c t : frameN n c t (diag_unreach t).
Proof. apply frameN_same; stp; auto. Qed.
Lemma frameN_di n c t : frameN n c t (diag_infloop t).
Proof. apply frameN_same; stp; auto. Qed.
Lemma frameN_do n c t : frameN n c t (diag_outside t).
Proof. apply frameN_same; stp; auto. Qed.

Lemma frameN_ae n c a b t : (a = c \/ n < a) -> frameN n c t (add_edge a b t).
Proof.
  intros H. repeat split; stp; auto.
  - apply incl_appl, incl_refl.
  - intros x y Hi. apply in_app_or in Hi. destruct Hi as [Hi | [Hi | []]]; [left; exact Hi|].
    inversion Hi; subst. right. exact H.
Qed.

Lemma frameN_ef n c x b t : (forall a, x = Some a -> a = c \/ n < a) -> frameN n c t (edge_from x b t).
Proof. destruct x; simpl; intros H; [apply frameN_ae; auto | apply frameN_refl]. Qed.

Lemma frameN_mr n c t : frameN n c t (mark_ret c t).
Proof.
  repeat split; stp; auto using incl_refl.
  intros x [E | I]; [right; left; auto | left; exact I].
Qed.

(* consequences of a frame *)
Lemma frameN_ext n c t t' :
  frameN n c t t' -> wf t -> nblk t <= n -> (~ has_out t c \/ ~ In c (rets t')) -> ext t t'.
Proof.
  intros (A & B & C & D & E) [W1 W2] Hn Hc. split; [exact C|].
  intros x [y Hx] Hr. destruct (E _ Hr) as [H | [H | H]]; [exact H | |].
  - subst. destruct Hc as [Hc | Hc]; [exfalso; apply Hc; exists y; exact Hx | contradiction].
  - apply W1 in Hx. lia.
Qed.

Lemma frameN_noout n c t t' x :
  frameN n c t t' -> x <= n -> x <> c -> ~ has_out t x -> ~ has_out t' x.
Proof.
  intros (A & B & C & D & E) Hx Hc Ho [y Hy]. destruct (D _ _ Hy) as [H | [H | H]];
    [apply Ho; exists y; exact H | congruence | lia].
Qed.

Lemma frameN_noret n c t t' x :
  frameN n c t t' -> x <= n -> x <> c -> ~ In x (rets t) -> ~ In x (rets t').
Proof.
  intros (A & B & C & D & E) Hx Hc Ho Hy. destruct (E _ Hy) as [H | [H | H]]; [contradiction | congruence | lia].
Qed.

Lemma frameN_nblk n c t t' : frameN n c t t' -> nblk t <= nblk t'.
Proof. intros H; apply H. Qed.
Lemma frameN_nout n c t t' : frameN n c t t' -> n_outside t <= n_outside t'.
Proof. intros H; apply H. Qed.
Lemma frameN_incl n c t t' : frameN n c t t' -> incl (edges t) (edges t').
Proof. intros H; apply H. Qed.

(* well-formedness *)
Lemma wf_same t t' : nblk t <= nblk t' -> edges t' = edges t -> rets t' = rets t -> wf t -> wf t'.
Proof.
  intros N E R [W1 W2]. split; rewrite ?E, ?R; intros.
  - specialize (W1 _ _ H). lia.
  - specialize (W2 _ H). lia.
Qed.
Lemma wf_nb t : wf t -> wf (nb t). Proof. apply wf_same; stp; auto. Qed.
Lemma wf_sf a b t : wf t -> wf (set_flags a b t). Proof. apply wf_same; stp; auto. Qed.
Lemma wf_du t : wf t -> wf (diag_unreach t). Proof. apply wf_same; stp; auto. Qed.
Lemma wf_di t : wf t -> wf (diag_infloop t). Proof. apply wf_same; stp; auto. Qed.
Lemma wf_do t : wf t -> wf (diag_outside t). Proof. apply wf_same; stp; auto. Qed.
Lemma wf_ae a b t : wf t -> a <= nblk t -> wf (add_edge a b t).
Proof.
  intros [W1 W2] H. split; stp; [|exact W2].
  intros x y Hi. apply in_app_or in Hi. destruct Hi as [Hi | [Hi | []]]; [eapply W1; eauto | inversion Hi; subst; exact H].
Qed.
Lemma wf_ef x b t : wf t -> (forall a, x = Some a -> a <= nblk t) -> wf (edge_from x b t).
Proof. destruct x; simpl; intros; [apply wf_ae; auto | auto]. Qed.
Lemma wf_mr c t : wf t -> c <= nblk t -> wf (mark_ret c t).
Proof. intros [W1 W2] H. split; stp; [exact W1|]. intros x [E | I]; [subst; exact H | auto]. Qed.

Lemma wf_fresh_noout t x : wf t -> nblk t < x -> ~ has_out t x.
Proof. intros [W1 _] H [y Hy]. apply W1 in Hy. lia. Qed.
Lemma wf_fresh_noret t x : wf t -> nblk t < x -> ~ In x (rets t).
Proof. intros [_ W2] H Hy. apply W2 in Hy. lia. Qed.

Lemma noout_same t t' x : edges t' = edges t -> ~ has_out t x -> ~ has_out t' x.
Proof. intros E H [y Hy]. rewrite E in Hy. apply H. exists y. exact Hy. Qed.

Lemma noout_ae a b t x : x <> a -> ~ has_out t x -> ~ has_out (add_edge a b t) x.
Proof.
  intros N H [y Hy]. stp. apply in_app_or in Hy. destruct Hy as [Hy | [Hy | []]]; [apply H; exists y; exact Hy|].
  inversion Hy; subst. congruence.
Qed.

Lemma noout_ef o b t x : (forall a, o = Some a -> x <> a) -> ~ has_out t x -> ~ has_out (edge_from o b t) x.
Proof. destruct o; simpl; intros; [apply noout_ae; auto | auto]. Qed.

(* ------------------------------------------------------------------ the invariant *)
(* a block that waits to become current later: exists, is not the current one, no out-edge, no Returns flag *)
Definition pending (t : st) (c x : nat) : Prop :=
  x <= nblk t /\ x <> c /\ ~ has_out t x /\ ~ In x (rets t).

Definition Lok (t : st) (c : nat) (L : loopctx) : Prop :=
  match L with None => True | Some (b, _) => pending t c b end.

Definition pre (t : st) (c : nat) (L : loopctx) : Prop :=
  wf t /\ c <= nblk t /\ ~ has_out t c /\ ~ In c (rets t) /\ Lok t c L.

Definition res_ok (t : st) (c : nat) (t' : st) (r : option nat) : Prop :=
  match r with
  | None => True
  | Some d => (d = c \/ nblk t < d) /\ d <= nblk t' /\ ~ has_out t' d /\ ~ In d (rets t')
  end.

Definition post (t : st) (c : nat) (t' : st) (r : option nat) : Prop :=
  frameN (nblk t) c t t' /\ wf t' /\ res_ok t c t' r.

(* what a run with outcome o needs from the graph *)
Definition jump (t : st) (c : nat) (L : loopctx) (t' : st) (o : outcome) : Prop :=
  match o with
  | OBreak => match L with Some (b, _) => path t' c b | None => n_outside t < n_outside t' end
  | OContinue => match L with Some (_, h) => path t' c h | None => n_outside t < n_outside t' end
  | _ => True
  end.

Definition claim (t : st) (c : nat) (L : loopctx) (t' : st) (r : option nat) (o : outcome) : Prop :=
  match o with
  | ONormal => exists d, r = Some d /\ path t' c d
  | _ => jump t c L t' o
  end.

Definition build_inv (t : st) (c : nat) (L : loopctx) (t' : st) (r : option nat) (R : outcome -> Prop) : Prop :=
  post t c t' r /\ forall o, R o -> claim t c L t' r o.

Lemma post_ext t c t' r : post t c t' r -> wf t -> ~ has_out t c -> ext t t'.
Proof. intros (F & _ & _) W H. eapply frameN_ext; eauto. Qed.

Lemma post_pending t c t' r x : post t c t' r -> pending t c x ->
  x <= nblk t' /\ ~ has_out t' x /\ ~ In x (rets t').
Proof.
  intros (F & _ & _) (A & B & C & D). repeat split.
  - apply frameN_nblk in F. lia.
  - eapply frameN_noout; eauto.
  - eapply frameN_noret; eauto.
Qed.

(* lifting a claim to a later state *)
Lemma jump_lift t c L t1 t2 o :
  jump t c L t1 o -> ext t1 t2 -> n_outside t1 <= n_outside t2 -> jump t c L t2 o.
Proof.
  intros J E N. destruct o; simpl in *; auto; destruct L as [[b h]|]; try lia; eapply path_ext; eauto.
Qed.
