(* C10 — lemmas about Models/Numeric.v *)
From Coq Require Import ZArith List Ascii Bool Lia.
From FV Require Import Models.Numeric.
Import ListNotations.
Open Scope Z_scope.

(* ------------------------------------------------------------------ characters *)
Lemma code_range c : 0 <= code c < 256.
Proof. unfold code. pose proof (N_ascii_bounded c) as H. lia. Qed.

Lemma code_inj a b : code a = code b -> a = b.
Proof.
  unfold code. intros H. apply N2Z.inj in H.
  rewrite <- (ascii_N_embedding a), <- (ascii_N_embedding b). now rewrite H.
Qed.

Lemma eqb_code a b : Ascii.eqb a b = (code a =? code b).
Proof.
  destruct (Ascii.eqb_spec a b) as [->|N].
  - symmetry. apply Z.eqb_refl.
  - symmetry. apply Z.eqb_neq. intros E. apply N. now apply code_inj.
Qed.

Lemma code_chr n : 0 <= n < 256 -> code (chr n) = n.
Proof. intros H. unfold code, chr. rewrite N_ascii_embedding; lia. Qed.

Ltac codes :=
  change (code c_us) with 95 in *; change (code c_minus) with 45 in *; change (code c_plus) with 43 in *;
  change (code c_zero) with 48 in *; change (code c_dot) with 46 in *;
  change (code "x") with 120 in *; change (code "X") with 88 in *; change (code "o") with 111 in *;
  change (code "O") with 79 in *; change (code "b") with 98 in *; change (code "B") with 66 in *.
Ltac charb := unfold is_digit, is_hex, is_dec, is_oct, is_bin, is_lower_af, is_upper_af, in_range in *.

Lemma is_digit_hex b c : is_digit b c = true -> is_hex c = true.
Proof. destruct b; charb; lia. Qed.

Lemma digit_val_range b c : is_digit b c = true -> 0 <= digit_val c < radix b.
Proof.
  intros H. unfold digit_val. pose proof (code_range c).
  destruct b; charb; cbn [radix];
    destruct ((48 <=? code c) && (code c <=? 57)) eqn:E1; destruct ((97 <=? code c) && (code c <=? 102)) eqn:E2; lia.
Qed.

Lemma hex_not_special c :
  is_hex c = true -> Ascii.eqb c c_us = false /\ Ascii.eqb c c_minus = false /\ Ascii.eqb c c_plus = false.
Proof. intros H. rewrite !eqb_code. codes. charb. lia. Qed.

Lemma digit_not_us b c : is_digit b c = true -> Ascii.eqb c c_us = false.
Proof. intros H. apply is_digit_hex in H. now apply hex_not_special in H. Qed.

Lemma dec_prefix_none c : is_dec c = true -> prefix_base c = None.
Proof.
  intros H. unfold prefix_base. rewrite !eqb_code. codes. charb.
  replace (code c =? 120) with false by lia. replace (code c =? 88) with false by lia.
  replace (code c =? 111) with false by lia. replace (code c =? 79) with false by lia.
  replace (code c =? 98) with false by lia. replace (code c =? 66) with false by lia. reflexivity.
Qed.

Lemma prefix_not_us q b : prefix_base q = Some b -> Ascii.eqb q c_us = false.
Proof.
  unfold prefix_base. rewrite !eqb_code. codes. intros H.
  destruct (code q =? 95) eqn:E; [|reflexivity]. apply Z.eqb_eq in E. rewrite E in H. discriminate.
Qed.

Lemma prefix_cases q b :
  prefix_base q = Some b ->
  match b with
  | Hex => (Ascii.eqb q "x" || Ascii.eqb q "X") = true
  | Oct => (Ascii.eqb q "x" || Ascii.eqb q "X") = false /\ (Ascii.eqb q "o" || Ascii.eqb q "O") = true
  | Bin => (Ascii.eqb q "x" || Ascii.eqb q "X") = false /\ (Ascii.eqb q "o" || Ascii.eqb q "O") = false /\
           (Ascii.eqb q "b" || Ascii.eqb q "B") = true
  | Dec => False
  end.
Proof.
  unfold prefix_base.
  destruct (Ascii.eqb q "x" || Ascii.eqb q "X"); [intros [= <-]; reflexivity|].
  destruct (Ascii.eqb q "o" || Ascii.eqb q "O"); [intros [= <-]; auto|].
  destruct (Ascii.eqb q "b" || Ascii.eqb q "B"); [intros [= <-]; auto|]. discriminate.
Qed.

Lemma zero_not_us : Ascii.eqb c_zero c_us = false.
Proof. reflexivity. Qed.

(* ------------------------------------------------------------------ clean / digit groups *)
Lemma clean_cons_keep c t : Ascii.eqb c c_us = false -> clean (c :: t) = c :: clean t.
Proof. intros H. unfold clean. cbn [filter]. now rewrite H. Qed.

Lemma clean_cons_drop t : clean (c_us :: t) = clean t.
Proof. reflexivity. Qed.

Lemma clean_id s : forallb (fun c => negb (Ascii.eqb c c_us)) s = true -> clean s = s.
Proof.
  induction s as [|c t IH]; [reflexivity|]. cbn [forallb]. intros H. apply andb_prop in H as [H1 H2].
  unfold clean. cbn [filter]. rewrite H1. f_equal. now apply IH.
Qed.

Lemma forallb_digit_no_us b s : forallb (is_digit b) s = true -> forallb (fun c => negb (Ascii.eqb c c_us)) s = true.
Proof.
  induction s as [|c t IH]; [reflexivity|]. cbn [forallb]. intros H. apply andb_prop in H as [H1 H2].
  rewrite (digit_not_us _ _ H1). cbn. now apply IH.
Qed.

Section Groups.
  Variable b : base.
  Let p := is_digit b.

  Lemma wf_tail_cons_digit c t : p c = true -> wf_tail p (c :: t) = wf_tail p t.
  Proof. intros H. cbn [wf_tail]. now rewrite H. Qed.

  Lemma wf_tail_us t : wf_tail p (c_us :: t) = match t with d :: t' => p d && wf_tail p t' | [] => false end.
  Proof.
    cbn [wf_tail]. replace (p c_us) with false by (subst p; destruct b; reflexivity). reflexivity.
  Qed.

  (* all characters of a digit-group string are digits once the separators are removed, and the port's digit loop
     computes the spec's value *)
  Lemma wf_tail_clean r t : forall acc,
    wf_tail p t = true ->
    forallb p (clean t) = true /\ parse_digits r p acc (clean t) = Some (digits_skip r acc t).
  Proof.
    induction t as [|c t IH]; intros acc H.
    - split; reflexivity.
    - destruct (p c) eqn:Pc.
      + rewrite wf_tail_cons_digit in H by assumption.
        pose proof (digit_not_us _ _ Pc) as Nus.
        rewrite clean_cons_keep by assumption. cbn [forallb parse_digits digits_skip]. rewrite Pc, Nus.
        destruct (IH (acc * r + digit_val c) H) as [A B]. split; [now rewrite A|exact B].
      + cbn [wf_tail] in H. rewrite Pc in H.
        destruct (Ascii.eqb_spec c c_us) as [->|N]; [|discriminate].
        rewrite clean_cons_drop. cbn [digits_skip]. change (Ascii.eqb c_us c_us) with true. cbn iota.
        destruct t as [|d t']; [discriminate|]. apply andb_prop in H as [Pd H].
        apply IH. now rewrite wf_tail_cons_digit.
  Qed.

  Lemma wf_groups_tail s : wf_groups p s = true -> wf_tail p s = true /\ exists c t, s = c :: t /\ p c = true.
  Proof.
    destruct s as [|c t]; [discriminate|]. cbn [wf_groups]. intros H. apply andb_prop in H as [Pc H].
    split; [now rewrite wf_tail_cons_digit|]. eauto.
  Qed.

  Lemma forallb_wf_tail s : forallb p s = true -> wf_tail p s = true.
  Proof.
    induction s as [|c t IH]; [reflexivity|]. cbn [forallb]. intros H. apply andb_prop in H as [Pc H].
    rewrite wf_tail_cons_digit by assumption. now apply IH.
  Qed.

  (* what the port needs to know about a well-formed digit-group string *)
  Lemma wf_groups_clean r s acc :
    wf_groups p s = true ->
    exists c t, clean s = c :: t /\ p c = true /\ forallb p t = true /\
                wf_groups p (clean s) = true /\
                parse_digits r p acc (clean s) = Some (digits_skip r acc s).
  Proof.
    intros H. destruct (wf_groups_tail _ H) as [T (c & t & -> & Pc)].
    destruct (wf_tail_clean r _ acc T) as [A B].
    rewrite clean_cons_keep in * by (eapply digit_not_us; eassumption).
    cbn [forallb] in A. rewrite Pc in A. cbn in A.
    exists c, (clean t). repeat split; auto.
    cbn [wf_groups]. rewrite Pc. cbn. now apply forallb_wf_tail.
  Qed.
End Groups.

(* ------------------------------------------------------------------ SetString on a pure digit string *)
Lemma set_string_digits b c t :
  is_digit b c = true ->
  set_string b (c :: t) = parse_digits (radix b) (is_digit b) 0 (c :: t).
Proof.
  intros Pc. unfold set_string.
  destruct (hex_not_special _ (is_digit_hex _ _ Pc)) as (_ & M & P). rewrite M, P.
  destruct (parse_digits (radix b) (is_digit b) 0 (c :: t)) as [v|]; [|reflexivity].
  f_equal. lia.
Qed.

(* a string of decimal digits is not a prefixed literal *)
Lemma dec_not_prefixed p x X c t :
  is_dec c = true -> forallb is_dec t = true ->
  prefix_base x <> None -> prefix_base X <> None ->
  is_prefixed p x X (c :: t) = false.
Proof.
  intros Pc Pt Hx HX. unfold is_prefixed. destruct t as [|q t]; [reflexivity|].
  cbn [forallb] in Pt. apply andb_prop in Pt as [Pq _].
  assert (Ascii.eqb q x = false) as ->.
  { destruct (Ascii.eqb_spec q x) as [->|]; [|reflexivity]. now rewrite dec_prefix_none in Hx. }
  assert (Ascii.eqb q X = false) as ->.
  { destruct (Ascii.eqb_spec q X) as [->|]; [|reflexivity]. now rewrite dec_prefix_none in HX. }
  now rewrite andb_false_r.
Qed.

Lemma dec_not_any_prefixed c t :
  is_dec c = true -> forallb is_dec t = true ->
  is_hexadecimal (c :: t) = false /\ is_octal (c :: t) = false /\ is_binary (c :: t) = false.
Proof.
  intros Pc Pt. repeat split; apply dec_not_prefixed; auto; discriminate.
Qed.

(* ------------------------------------------------------------------ StringToBigInt on a well-formed magnitude *)
Lemma clean_idem s : clean (clean s) = clean s.
Proof.
  induction s as [|c t IH]; [reflexivity|].
  destruct (Ascii.eqb c c_us) eqn:E.
  - unfold clean at 2 3. cbn [filter]. rewrite E. cbn [negb]. exact IH.
  - rewrite (clean_cons_keep _ _ E). rewrite (clean_cons_keep _ _ E). now rewrite IH.
Qed.

Lemma stb_clean s : string_to_bigint (clean s) = string_to_bigint s.
Proof. unfold string_to_bigint. now rewrite clean_idem. Qed.

Lemma wf_body_nonnil r : wf_body r = true -> exists c t, r = c :: t /\ is_hex c = true.
Proof.
  unfold wf_body, split_base. destruct r as [|z [|q t]]; cbn [wf_groups]; try discriminate.
  - intros H. apply andb_prop in H as [H _]. exists z, []. split; auto. now apply (is_digit_hex Dec).
  - intros H. exists z, (q :: t). split; auto.
    destruct (Ascii.eqb_spec z c_zero) as [->|]; [reflexivity|].
    cbn [wf_groups] in H. apply andb_prop in H as [H _]. now apply (is_digit_hex Dec).
Qed.

Lemma stb_prefixed b z q t :
  Ascii.eqb z c_zero = true -> prefix_base q = Some b -> wf_groups (is_digit b) t = true ->
  string_to_bigint (z :: q :: t) = Some (digits_skip (radix b) 0 t).
Proof.
  intros Hz Hq W. unfold string_to_bigint.
  assert (Ascii.eqb z c_us = false) as Zus.
  { apply Ascii.eqb_eq in Hz. subst z. reflexivity. }
  rewrite (clean_cons_keep _ _ Zus), (clean_cons_keep _ _ (prefix_not_us _ _ Hq)).
  destruct (wf_groups_clean b (radix b) t 0 W) as (c & t' & E & Pc & Pt & W' & PD).
  pose proof (prefix_cases _ _ Hq) as PC.
  unfold is_hexadecimal, is_octal, is_binary, is_prefixed. rewrite Hz. cbn [andb skipn].
  destruct b; cbn [is_digit] in *.
  - destruct PC.
  - rewrite PC, W'. cbn [andb]. rewrite E in *. rewrite (set_string_digits Hex) by exact Pc. exact PD.
  - destruct PC as [P1 P2]. rewrite P1, P2, W'. cbn [andb]. rewrite E in *.
    rewrite (set_string_digits Oct) by exact Pc. exact PD.
  - destruct PC as (P1 & P2 & P3). rewrite P1, P2, P3, W'. cbn [andb]. rewrite E in *.
    rewrite (set_string_digits Bin) by exact Pc. exact PD.
Qed.

Lemma stb_decimal r :
  wf_groups is_dec r = true -> string_to_bigint r = Some (digits_skip 10 0 r).
Proof.
  intros W. unfold string_to_bigint.
  destruct (wf_groups_clean Dec 10 r 0 W) as (c & t' & E & Pc & Pt & W' & PD).
  cbn [is_digit] in *. rewrite E in *.
  destruct (dec_not_any_prefixed c t' Pc Pt) as (H1 & H2 & H3). rewrite H1, H2, H3.
  rewrite (set_string_digits Dec) by exact Pc. exact PD.
Qed.

Lemma stb_wf r : wf_body r = true -> string_to_bigint r = Some (lit_mag r).
Proof.
  unfold wf_body, lit_mag, split_base.
  destruct r as [|z [|q t]].
  - discriminate.
  - apply stb_decimal.
  - destruct (Ascii.eqb z c_zero) eqn:Hz; [|apply stb_decimal].
    destruct (prefix_base q) as [b|] eqn:Hq; [|apply stb_decimal].
    intros W. now apply stb_prefixed.
Qed.
