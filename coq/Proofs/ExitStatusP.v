(* C13 — exit-status glue: exit = 0 <-> no error text printed, for every return site satisfying site_ok. *)
From Coq Require Import ZArith List Bool Lia.
From FV Require Import Models.ExitStatus.
Import ListNotations.
Open Scope Z_scope.

Lemma printed_add : forall b s,
  printed_errors (bag_add b s) = printed_errors b + (if is_error s then 1 else 0).
Proof.
  intros b s. unfold printed_errors.
  destruct s; cbn [bag_add diags is_error]; rewrite filter_app, app_length; cbn [filter is_error List.length]; lia.
Qed.

Lemma count_add : forall b s,
  errorCount (bag_add b s) = errorCount b + (if is_error s then 1 else 0).
Proof. intros b s. destruct s; cbn; lia. Qed.

Lemma fold_inv : forall l b, errorCount b = printed_errors b ->
  errorCount (fold_left bag_add l b) = printed_errors (fold_left bag_add l b).
Proof.
  induction l as [|s l IH]; intros b H; cbn [fold_left]; [exact H|].
  apply IH. rewrite count_add, printed_add. lia.
Qed.

(* the counter and the list never diverge *)
Lemma bag_count_exact : forall l, errorCount (bag_of l) = printed_errors (bag_of l).
Proof. intro l. apply fold_inv. reflexivity. Qed.

Lemma printed_nonneg : forall b, 0 <= printed_errors b.
Proof. intro b. unfold printed_errors. lia. Qed.

Lemma has_errors_iff : forall l, has_errors (bag_of l) = true <-> exists s, In s l /\ is_error s = true.
Proof.
  intro l. unfold has_errors. rewrite bag_count_exact. unfold printed_errors, bag_of.
  assert (D : forall l b, diags (fold_left bag_add l b) = diags b ++ l).
  { clear. induction l as [|s l IH]; intro b; cbn [fold_left]; [now rewrite app_nil_r|].
    rewrite IH. destruct s; cbn [bag_add diags]; now rewrite <- app_assoc. }
  rewrite D. cbn [bag_empty diags app]. split.
  - intro H. apply Z.ltb_lt in H. destruct (filter is_error l) as [|s t] eqn:E; [cbn in H; lia|].
    exists s. apply filter_In. rewrite E. now left.
  - intros [s [Hi He]]. apply Z.ltb_lt.
    assert (In s (filter is_error l)) by (apply filter_In; auto).
    destruct (filter is_error l); [contradiction|cbn [List.length]; lia].
Qed.

Definition good_bag (b : bag) : Prop := errorCount b = printed_errors b.

Lemma good_add : forall b s, good_bag b -> good_bag (bag_add b s).
Proof. unfold good_bag. intros. rewrite count_add, printed_add. lia. Qed.

Lemma good_of : forall l, good_bag (bag_of l).
Proof. exact bag_count_exact. Qed.

Lemma site_status : forall rc fe s b re, fe <> 0 -> site_ok rc s = true -> good_bag b ->
  let r := run_site rc fe s b re in
  (fst r = 0 <-> snd r = 0) /\ (fst r <> 0 -> 1 <= snd r).
Proof.
  intros rc fe s b re Hfe Hok Hb.
  unfold run_site.
  set (b1 := if s_reports s then bag_add b SevError else b).
  assert (G1 : good_bag b1) by (unfold b1; destruct (s_reports s); auto using good_add).
  set (b2 := if s_pipeline s && rc && re && negb (has_errors b1) then bag_add b1 SevError else b1).
  assert (G2 : good_bag b2) by (unfold b2; destruct (_ && _ && _ && _); auto using good_add).
  pose proof (printed_nonneg b2) as N2.
  unfold site_ok in Hok.
  destruct (s_expr s) eqn:E; cbn [fst snd negb].
  - (* SFalse *)
    assert (P : 1 <= (if s_emits s then printed_errors b2 else 0) + (if s_output s then 1 else 0)).
    { apply orb_true_iff in Hok. destruct Hok as [H|H].
      - apply andb_true_iff in H. destruct H as [Hr He]. rewrite He.
        assert (1 <= printed_errors b2).
        { unfold b2. assert (1 <= printed_errors b1).
          { unfold b1. rewrite Hr. rewrite printed_add. cbn [is_error]. pose proof (printed_nonneg b). lia. }
            destruct (_ && _ && _ && _); [rewrite printed_add; cbn [is_error]; lia|lia]. }
        destruct (s_output s); lia.
      - rewrite H. destruct (s_emits s); lia. }
    cbn [andb]. split; [split; intro; [contradiction|lia]|intro; lia].
  - (* SNotHasErrors *)
    apply andb_true_iff in Hok. destruct Hok as [Hok _].
    apply andb_true_iff in Hok. destruct Hok as [He Ho]. rewrite He.
    apply negb_true_iff in Ho. rewrite Ho.
    unfold has_errors. unfold good_bag in G2. rewrite G2.
    destruct (0 <? printed_errors b2) eqn:L; cbn [negb andb].
    + apply Z.ltb_lt in L. split; [split; intro; [contradiction|lia]|intro; lia].
    + apply Z.ltb_ge in L. split; [split; intro; lia|intro H; now elim H].
  - discriminate.
Qed.

(* an unreported pipeline error can never end in exit status 0 once Compile checks p.Run() *)
Lemma site_run_error : forall fe s b, fe <> 0 -> site_ok true s = true -> s_pipeline s = true -> good_bag b ->
  fst (run_site true fe s b true) <> 0.
Proof.
  intros fe s b Hfe Hok Hp Hb. unfold run_site. rewrite Hp. cbn [andb].
  set (b1 := if s_reports s then bag_add b SevError else b).
  unfold site_ok in Hok. destruct (s_expr s) eqn:E; cbn [fst]; try assumption; try discriminate.
  destruct (has_errors b1) eqn:H1; cbn [negb].
  - rewrite H1. cbn. assumption.
  - assert (H2 : has_errors (bag_add b1 SevError) = true).
    { unfold has_errors in *. rewrite count_add. cbn [is_error]. apply Z.ltb_ge in H1. apply Z.ltb_lt.
      assert (good_bag b1) by (unfold b1; destruct (s_reports s); auto using good_add).
      unfold good_bag in H. pose proof (printed_nonneg b1). lia. }
    rewrite H2. cbn. assumption.
Qed.

(* and without that check the site list admits exit 0 after a failed run: the pre-patch behaviour *)
Lemma unchecked_run_error_exit0 :
  fst (run_site false 1 (mkSite SNotHasErrors false true false true) bag_empty true) = 0.
Proof. reflexivity. Qed.
