(* C16 — assembly: the operation-level statements in the `operands` form used by Props/C16.v, and the full
   statement of the property. *)
From Coq Require Import ZArith List Bool Lia.
From FV Require Import Models.Bigint Proofs.BigintP Proofs.BigintMulP Proofs.BigintDecP Proofs.BigintPowP
  Proofs.BigintTextP Proofs.BigintBitsP Proofs.BigintDivP Proofs.BigintShiftP.
Import ListNotations.
Open Scope Z_scope.

Definition operands (n : nat) (a b : list Z) : Prop :=
  n <> O /\ length a = n /\ length b = n /\ limbs_ok a /\ limbs_ok b.

Lemma operands_facts n a b : operands n a b ->
  length a = length b /\ a <> [] /\ limbs_ok a /\ limbs_ok b /\ length a = n.
Proof.
  intros (Hn & La & Lb & Ha & Hb). repeat split; auto; try congruence.
  intros E. subst a. apply Hn. symmetry. exact La.
Qed.

Lemma all_divmod_u n a b : operands n a b -> value b <> 0 ->
  value (u_div a b) = value a / value b /\ value (u_mod a b) = value a mod value b.
Proof.
  intros H NZ. destruct (operands_facts n a b H) as (L & Hne & Ha & Hb & _).
  destruct (u_divmod_correct a b L Ha Hb NZ) as (V1 & V2 & _). auto.
Qed.

Lemma all_div_s n a b : operands n a b -> svalue b <> 0 ->
  svalue (s_div a b) = wrapS (modulus n) (Z.quot (svalue a) (svalue b)).
Proof.
  intros H NZ. destruct (operands_facts n a b H) as (L & Hne & Ha & Hb & Ln). rewrite <- Ln.
  apply s_div_correct; auto.
Qed.

Lemma all_mod_s n a b : operands n a b -> svalue b <> 0 ->
  svalue (s_mod a b) = wrapS (modulus n) (Z.rem (svalue a) (svalue b)).
Proof.
  intros H NZ. destruct (operands_facts n a b H) as (L & Hne & Ha & Hb & Ln). rewrite <- Ln.
  apply s_mod_correct; auto.
Qed.

(* MIN / -1 and MIN rem -1: the quotient 2^(N-1) is not representable and wraps to MIN, the remainder is 0 *)
Lemma min_div_m1 n a b : operands n a b -> svalue a = - (modulus n / 2) -> svalue b = -1 ->
  svalue (s_div a b) = - (modulus n / 2) /\ svalue (s_mod a b) = 0.
Proof.
  intros H Ea Eb. destruct (operands_facts n a b H) as (L & Hne & Ha & Hb & Ln).
  pose proof H as (Hn & _).
  pose proof (modulus_even n Hn) as EV. pose proof (modulus_pos n) as MP.
  rewrite (all_div_s n a b) by (auto; lia). rewrite (all_mod_s n a b) by (auto; lia).
  rewrite Ea, Eb. change (-1) with (- (1)). rewrite Z.quot_opp_r, Z.rem_opp_r, Z.quot_1_r, Z.rem_1_r by lia.
  rewrite Z.opp_involutive. unfold wrapS. split.
  - replace (modulus n / 2 + modulus n / 2) with (0 + 1 * modulus n) by lia.
    rewrite Z.mod_add, Z.mod_0_l by lia. lia.
  - rewrite Z.mod_small by lia. lia.
Qed.

Lemma all_shl a k : limbs_ok a ->
  value (shift_left_limbs a k) = if k <=? 0 then value a else (value a * 2 ^ k) mod modulus (length a).
Proof. intros Ha. apply shift_left_correct, Ha. Qed.

Lemma all_shr a k : limbs_ok a ->
  value (shift_right_limbs a k) = if k <=? 0 then value a else value a / 2 ^ k.
Proof. intros Ha. apply shift_right_correct, Ha. Qed.

Lemma all_sar a k : limbs_ok a -> a <> [] ->
  svalue (shift_right_signed_limbs a k) = if k <=? 0 then svalue a else svalue a / 2 ^ k.
Proof. intros Ha Hne. apply shift_right_signed_correct; auto. Qed.

Lemma all_bitwise n a b : operands n a b ->
  value (and_limbs a b) = Z.land (value a) (value b) /\
  value (or_limbs a b) = Z.lor (value a) (value b) /\
  value (xor_limbs a b) = Z.lxor (value a) (value b).
Proof.
  intros H. destruct (operands_facts n a b H) as (L & Hne & Ha & Hb & _).
  destruct (and_limbs_correct a b L Ha Hb) as (V1 & _). destruct (or_limbs_correct a b L Ha Hb) as (V2 & _).
  destruct (xor_limbs_correct a b L Ha Hb) as (V3 & _). auto.
Qed.

Lemma shifts_nonpos a k : k <= 0 ->
  shift_left_limbs a k = a /\ shift_right_limbs a k = a /\ shift_right_signed_limbs a k = a.
Proof.
  intros H. unfold shift_right_signed_limbs, shift_left_limbs, shift_right_limbs. cbv zeta.
  replace (k <=? 0) with true by (symmetry; apply Z.leb_le; lia). cbn [orb]. auto.
Qed.

Definition full_statement : Prop :=
  forall n a b, operands n a b ->
  let m := modulus n in
  (* + - * *)
     value (add_limbs a b) = (value a + value b) mod m
  /\ svalue (add_limbs a b) = wrapS m (svalue a + svalue b)
  /\ value (sub_limbs a b) = (value a - value b) mod m
  /\ svalue (sub_limbs a b) = wrapS m (svalue a - svalue b)
  /\ value (u_mul a b) = (value a * value b) mod m
  /\ svalue (s_mul a b) = wrapS m (svalue a * svalue b)
  (* truncating division and remainder (MIN / -1 wraps to MIN) *)
  /\ (value b <> 0 -> value (u_div a b) = value a / value b /\ value (u_mod a b) = value a mod value b)
  /\ (svalue b <> 0 -> svalue (s_div a b) = wrapS m (Z.quot (svalue a) (svalue b))
                      /\ svalue (s_mod a b) = wrapS m (Z.rem (svalue a) (svalue b)))
  (* comparisons *)
  /\ limbs_eqb a b = (value a =? value b) /\ limbs_eqb a b = (svalue a =? svalue b)
  /\ u_lt a b = (value a <? value b) /\ u_gt a b = (value a >? value b)
  /\ s_lt a b = (svalue a <? svalue b) /\ s_gt a b = (svalue a >? svalue b)
  (* bitwise *)
  /\ value (and_limbs a b) = Z.land (value a) (value b)
  /\ value (or_limbs a b) = Z.lor (value a) (value b)
  /\ value (xor_limbs a b) = Z.lxor (value a) (value b)
  /\ value (not_limbs a) = m - 1 - value a
  (* shifts: every count k >= 0, also k >= N; counts <= 0 leave the operand unchanged *)
  /\ (forall k, 0 <= k -> value (shift_left_limbs a k) = (value a * 2 ^ k) mod m
                        /\ value (shift_right_limbs a k) = value a / 2 ^ k
                        /\ svalue (shift_right_signed_limbs a k) = svalue a / 2 ^ k)
  /\ (forall k, k <= 0 -> shift_left_limbs a k = a /\ shift_right_limbs a k = a /\ shift_right_signed_limbs a k = a)
  (* exponentiation, exponent >= 0 *)
  /\ (exists r, u_pow a b = Some r /\ value r = (value a ^ value b) mod m)
  /\ (0 <= svalue b -> exists r, s_pow a b = Some r /\ svalue r = wrapS m (svalue a ^ svalue b))
  (* 64-bit conversions *)
  /\ (forall x, limb_ok x -> value (from_u64 n x) = x
                          /\ value (from_i64 n x) = (if x >=? 2 ^ 63 then x - B else x) mod m)
  /\ to_u64 a = value a mod B
  (* decimal text.  number -> text (the types that exist have at most four limbs): never overruns the 80 byte
     buffer, digits only, denotes the number; text -> number for digit strings, with and without '-' *)
  /\ ((n <= 4)%nat -> exists s, u_to_string a = Some s /\ all_digits 10 s /\ num 10 s 0 = value a)
  /\ (forall s, all_digits 10 s -> has_digit s ->
        value (u_from_string n s) = (num 10 s 0) mod m
     /\ svalue (s_from_string n (45 :: s)) = wrapS m (- num 10 s 0)).

Lemma full_holds : full_statement.
Proof.
  intros n a b H. cbv zeta.
  destruct (operands_facts n a b H) as (L & Hne & Ha & Hb & Ln).
  pose proof H as (Hn & _).
  pose proof (value_bound a Ha) as VB. rewrite Ln in VB.
  split; [rewrite <- Ln; apply add_limbs_correct; exact L|].
  split; [rewrite <- Ln; apply s_add_correct; auto|].
  split; [rewrite <- Ln; apply sub_limbs_correct; auto|].
  split; [rewrite <- Ln; apply s_sub_correct; auto|].
  split; [rewrite <- Ln; apply mul_limbs_correct; exact L|].
  split; [rewrite <- Ln; apply s_mul_correct; auto|].
  split; [intros NZ; apply (all_divmod_u n a b H NZ)|].
  split; [intros NZ; split; [apply all_div_s | apply all_mod_s]; auto|].
  split; [apply limbs_eqb_correct; auto|].
  split; [rewrite limbs_eqb_correct by auto; apply value_inj_s; auto|].
  split; [apply u_lt_correct; auto|].
  split; [apply u_gt_correct; auto|].
  split; [apply s_lt_correct; auto|].
  split; [apply s_gt_correct; auto|].
  destruct (all_bitwise n a b H) as (B1 & B2 & B3).
  split; [exact B1|]. split; [exact B2|]. split; [exact B3|].
  split; [rewrite <- Ln; apply not_limbs_value|].
  split.
  { intros k Hk. rewrite (all_shl a k Ha), (all_shr a k Ha), (all_sar a k Ha Hne), Ln.
    destruct (Z.leb_spec k 0) as [Le|Gt]; [| auto].
    assert (k = 0) by lia. subst k. rewrite Z.pow_0_r, Z.mul_1_r, !Z.div_1_r.
    rewrite Z.mod_small by lia. auto. }
  split; [intros k Hk; apply shifts_nonpos; exact Hk|].
  split.
  { destruct (u_pow_correct a b L Ha Hb Hne) as (r & E & V & _). exists r. rewrite <- Ln. auto. }
  split.
  { intros Hp. rewrite <- Ln. apply s_pow_correct; auto. }
  split.
  { intros x Hx. split; [apply from_u64_correct, Hn | apply from_i64_correct; auto]. }
  split; [apply to_u64_correct; auto|].
  split.
  { intros N4. apply to_decimal_correct; [exact Ha | rewrite Ln; exact N4]. }
  intros s As Ds. split.
  - apply u_from_string_correct; auto.
  - apply s_from_string_minus_correct; auto.
Qed.
