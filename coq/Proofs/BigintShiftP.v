(* C16 — ferret_shift_left_limbs, ferret_shift_right_limbs, ferret_shift_right_signed_limbs, all shift counts. *)
From Coq Require Import ZArith List Bool Lia.
From FV Require Import Models.Bigint Proofs.BigintP Proofs.BigintMulP Proofs.BigintDecP Proofs.BigintPowP Proofs.BigintBitsP.
Import ListNotations.
Open Scope Z_scope.

Lemma testbit_shl_limb x s j : 0 <= s -> 0 <= j < 64 -> Z.testbit ((x * 2 ^ s) mod B) j = Z.testbit x (j - s).
Proof.
  intros Hs Hj. rewrite B_pow, Z.testbit_mod_pow2 by lia.
  replace (j <? 64) with true by (symmetry; apply Z.ltb_lt; lia). cbn [andb].
  apply Z.mul_pow2_bits. lia.
Qed.

Lemma testbit_value_at a s t : limbs_ok a -> 0 <= t < 64 ->
  Z.testbit (value a) (64 * s + t) = if s <? 0 then false else Z.testbit (nthZ a s) t.
Proof.
  intros H Ht. destruct (Z.ltb_spec s 0).
  - apply Z.testbit_neg_r. lia.
  - apply testbit_value_limb; auto.
Qed.

Lemma div_pow2_limb_ok y t : limb_ok y -> 0 <= t -> limb_ok (y / 2 ^ t).
Proof.
  unfold limb_ok. intros Hy Ht. assert (0 < 2 ^ t) by (apply Z.pow_pos_nonneg; lia).
  split; [apply Z.div_pos; lia|].
  apply Z.le_lt_trans with y; [| lia]. apply Z.div_le_upper_bound; nia.
Qed.

Lemma lor_limb_ok x y : limb_ok x -> limb_ok y -> limb_ok (Z.lor x y).
Proof. apply (f_limb_ok Z.lor orb); [intros; apply Z.lor_spec | reflexivity]. Qed.

Lemma zero_limb_ok : limb_ok 0.
Proof. unfold limb_ok. pose proof B_pos. lia. Qed.

(* decomposition of a positive in-range count *)
Lemma count_split k : 0 < k -> 0 <= k / 64 /\ 0 <= k mod 64 < 64 /\ k = 64 * (k / 64) + k mod 64.
Proof. intros H. Z.div_mod_to_equations. lia. Qed.

(* ------------------------------------------------------------------ left shift *)
Section Shl.
  Variable a : list Z.
  Hypothesis Ha : limbs_ok a.
  Variable k : Z.
  Hypothesis Hk : 0 < k.
  Let n := length a.
  Let ws := k / 64.
  Let bs := k mod 64.

  Definition shl_f (i : Z) : Z :=
    let src := i - ws in
    if src <? 0 then 0
    else
      let val := (nthZ a src * 2 ^ bs) mod B in
      if negb (bs =? 0) && (src >? 0) then Z.lor val (nthZ a (src - 1) / 2 ^ (64 - bs)) else val.

  Lemma shl_f_ok i : limb_ok (shl_f i).
  Proof.
    destruct (count_split k Hk) as (W & Bs & _). fold ws bs in W, Bs.
    unfold shl_f. cbv zeta. destruct (i - ws <? 0); [apply zero_limb_ok|].
    destruct (negb (bs =? 0) && (i - ws >? 0)); [| apply mod_limb_ok].
    apply lor_limb_ok; [apply mod_limb_ok|]. apply div_pow2_limb_ok; [apply nthZ_ok, Ha | lia].
  Qed.

  Lemma shl_f_bit i j : 0 <= i -> 0 <= j < 64 ->
    Z.testbit (shl_f i) j = Z.testbit (value a) (64 * i + j - k).
  Proof.
    intros Hi Hj. destruct (count_split k Hk) as (W & Bs & Ek). fold ws bs in W, Bs, Ek.
    unfold shl_f. cbv zeta.
    destruct (Z.ltb_spec (i - ws) 0) as [Neg|Pos].
    - rewrite Z.bits_0. symmetry. apply Z.testbit_neg_r. lia.
    - set (src := i - ws) in *.
      destruct (Z.eqb_spec bs 0) as [B0|B1]; cbn [negb andb].
      + rewrite B0, Z.pow_0_r, Z.mul_1_r.
        rewrite (Z.mod_small _ B) by (apply nthZ_ok, Ha).
        replace (64 * i + j - k) with (64 * src + j) by (subst src; lia).
        symmetry. apply testbit_value_limb; auto.
      + destruct (Z.gtb_spec src 0) as [S1|S0].
        * rewrite Z.lor_spec, testbit_shl_limb, Z.div_pow2_bits by lia.
          destruct (Z.le_gt_cases bs j) as [Hi'|Lo].
          -- replace (64 * i + j - k) with (64 * src + (j - bs)) by (subst src; lia).
             rewrite testbit_value_limb by (auto; lia).
             rewrite (limb_high_false (nthZ a (src - 1)) (j + (64 - bs))) by (try apply nthZ_ok; auto; lia).
             apply orb_false_r.
          -- replace (64 * i + j - k) with (64 * (src - 1) + (j + (64 - bs))) by (subst src; lia).
             rewrite testbit_value_limb by (auto; lia).
             rewrite (Z.testbit_neg_r _ (j - bs)) by lia. reflexivity.
        * assert (src = 0) by lia.
          rewrite testbit_shl_limb by lia.
          destruct (Z.le_gt_cases bs j) as [Hi'|Lo].
          -- replace (64 * i + j - k) with (64 * src + (j - bs)) by (subst src; lia).
             rewrite testbit_value_limb by (auto; lia). reflexivity.
          -- rewrite !Z.testbit_neg_r by lia. reflexivity.
  Qed.

  Lemma shl_map_value : k < 64 * Z.of_nat n ->
    value (map shl_f (idxs n)) = (value a * 2 ^ k) mod modulus n /\ limbs_ok (map shl_f (idxs n)).
  Proof.
    intros Hlt.
    assert (OK : limbs_ok (map shl_f (idxs n))) by (apply limbs_ok_map_idxs; intros; apply shl_f_ok).
    split; [| exact OK].
    apply Z.bits_inj'. intros p Hp.
    rewrite modulus_pow2, Z.testbit_mod_pow2, Z.mul_pow2_bits by lia.
    rewrite (testbit_value _ p OK Hp).
    assert (PM : 0 <= p mod 64 < 64) by (apply Z.mod_pos_bound; lia).
    assert (PD : 0 <= p / 64) by (apply Z.div_pos; lia).
    assert (PE : p = 64 * (p / 64) + p mod 64) by (Z.div_mod_to_equations; lia).
    destruct (Z.ltb_spec p (64 * Z.of_nat n)) as [In|Out]; cbn [andb].
    - rewrite nthZ_map_idxs by lia. rewrite shl_f_bit by lia. f_equal. lia.
    - rewrite nthZ_out by (rewrite length_map_idxs; lia). apply Z.bits_0.
  Qed.
End Shl.

Lemma shift_left_unfold a k : 0 < k -> k < 64 * Z.of_nat (length a) ->
  shift_left_limbs a k = map (shl_f a k) (idxs (length a)).
Proof.
  intros H1 H2. unfold shift_left_limbs. cbv zeta.
  replace (k <=? 0) with false by (symmetry; apply Z.leb_gt; lia).
  replace (k >=? Z.of_nat (length a) * 64) with false by (symmetry; rewrite Z.geb_leb; apply Z.leb_gt; lia).
  reflexivity.
Qed.

(* ferret_shift_left_limbs: identity for counts <= 0, otherwise multiplication by 2^k modulo 2^N (0 for k >= N) *)
Lemma shift_left_correct a k : limbs_ok a ->
  value (shift_left_limbs a k) = (if k <=? 0 then value a else (value a * 2 ^ k) mod modulus (length a)) /\
  limbs_ok (shift_left_limbs a k) /\ length (shift_left_limbs a k) = length a.
Proof.
  intros Ha. destruct (Z.leb_spec k 0) as [Le|Gt].
  - unfold shift_left_limbs. cbv zeta. replace (k <=? 0) with true by (symmetry; apply Z.leb_le; lia). auto.
  - destruct (Z.lt_ge_cases k (64 * Z.of_nat (length a))) as [In|Big].
    + rewrite (shift_left_unfold a k Gt In).
      destruct (shl_map_value a Ha k Gt In) as [V O]. split; [exact V|]. split; [exact O | apply length_map_idxs].
    + unfold shift_left_limbs. cbv zeta.
      replace (k <=? 0) with false by (symmetry; apply Z.leb_gt; lia).
      replace (k >=? Z.of_nat (length a) * 64) with true by (symmetry; rewrite Z.geb_leb; apply Z.leb_le; lia).
      rewrite value_zeros, zeros_length. split; [| split; [apply zeros_ok | reflexivity]].
      rewrite modulus_pow2.
      replace k with ((k - 64 * Z.of_nat (length a)) + 64 * Z.of_nat (length a)) at 1 by lia.
      rewrite Z.pow_add_r, Z.mul_assoc by lia. symmetry. apply Z.mod_mul.
      apply Z.pow_nonzero; lia.
Qed.

(* ------------------------------------------------------------------ logical right shift *)
Section Shr.
  Variable a : list Z.
  Hypothesis Ha : limbs_ok a.
  Variable k : Z.
  Hypothesis Hk : 0 < k.
  Let n := length a.
  Let ws := k / 64.
  Let bs := k mod 64.

  Definition shr_f (i : Z) : Z :=
    let src := i + ws in
    if src >=? Z.of_nat n then 0
    else
      let val := nthZ a src / 2 ^ bs in
      if negb (bs =? 0) && (src + 1 <? Z.of_nat n) then Z.lor val ((nthZ a (src + 1) * 2 ^ (64 - bs)) mod B) else val.

  Lemma shr_f_ok i : limb_ok (shr_f i).
  Proof.
    destruct (count_split k Hk) as (W & Bs & _). fold ws bs in W, Bs.
    unfold shr_f. cbv zeta. destruct (i + ws >=? Z.of_nat n); [apply zero_limb_ok|].
    assert (V : limb_ok (nthZ a (i + ws) / 2 ^ bs)) by (apply div_pow2_limb_ok; [apply nthZ_ok, Ha | lia]).
    destruct (negb (bs =? 0) && (i + ws + 1 <? Z.of_nat n)); [| exact V].
    apply lor_limb_ok; [exact V | apply mod_limb_ok].
  Qed.

  Lemma shr_f_bit i j : 0 <= i -> 0 <= j < 64 ->
    Z.testbit (shr_f i) j = Z.testbit (value a) (64 * i + j + k).
  Proof.
    intros Hi Hj. destruct (count_split k Hk) as (W & Bs & Ek). fold ws bs in W, Bs, Ek.
    unfold shr_f. cbv zeta. set (src := i + ws) in *.
    rewrite Z.geb_leb.
    destruct (Z.leb_spec (Z.of_nat n) src) as [Out|In].
    - rewrite Z.bits_0. symmetry. apply testbit_value_high; auto. fold n. subst src. lia.
    - destruct (Z.eqb_spec bs 0) as [B0|B1]; cbn [negb andb].
      + rewrite B0, Z.pow_0_r, Z.div_1_r.
        replace (64 * i + j + k) with (64 * src + j) by (subst src; lia).
        symmetry. apply testbit_value_limb; auto. subst src; lia.
      + assert (S0 : 0 <= src) by (subst src; lia).
        assert (HB : Z.testbit (nthZ a src / 2 ^ bs) j = Z.testbit (nthZ a src) (j + bs)) by (apply Z.div_pow2_bits; lia).
        destruct (Z.lt_ge_cases (j + bs) 64) as [Lo|Hi'].
        * (* the bit comes from limb src *)
          replace (64 * i + j + k) with (64 * src + (j + bs)) by (subst src; lia).
          rewrite testbit_value_limb by (auto; lia).
          destruct (Z.ltb_spec (src + 1) (Z.of_nat n)).
          -- rewrite Z.lor_spec, HB, testbit_shl_limb by lia.
             rewrite (Z.testbit_neg_r _ (j - (64 - bs))) by lia. apply orb_false_r.
          -- exact HB.
        * (* the bit comes from limb src + 1 *)
          replace (64 * i + j + k) with (64 * (src + 1) + (j + bs - 64)) by (subst src; lia).
          rewrite testbit_value_limb by (auto; lia).
          assert (F : Z.testbit (nthZ a src) (j + bs) = false) by (apply limb_high_false; [apply nthZ_ok, Ha | lia]).
          destruct (Z.ltb_spec (src + 1) (Z.of_nat n)).
          -- rewrite Z.lor_spec, HB, F, testbit_shl_limb by lia. cbn [orb]. f_equal. lia.
          -- rewrite HB, F. rewrite nthZ_out by (fold n; lia). symmetry. apply Z.bits_0.
  Qed.

  Lemma shr_map_value : k < 64 * Z.of_nat n ->
    value (map shr_f (idxs n)) = value a / 2 ^ k /\ limbs_ok (map shr_f (idxs n)).
  Proof.
    intros Hlt.
    assert (OK : limbs_ok (map shr_f (idxs n))) by (apply limbs_ok_map_idxs; intros; apply shr_f_ok).
    split; [| exact OK].
    apply Z.bits_inj'. intros p Hp.
    rewrite Z.div_pow2_bits by lia.
    rewrite (testbit_value _ p OK Hp).
    assert (PM : 0 <= p mod 64 < 64) by (apply Z.mod_pos_bound; lia).
    assert (PD : 0 <= p / 64) by (apply Z.div_pos; lia).
    assert (PE : p = 64 * (p / 64) + p mod 64) by (Z.div_mod_to_equations; lia).
    destruct (Z.lt_ge_cases p (64 * Z.of_nat n)) as [In|Out].
    - rewrite nthZ_map_idxs by lia. rewrite shr_f_bit by lia. f_equal. lia.
    - rewrite nthZ_out by (rewrite length_map_idxs; lia). rewrite Z.bits_0.
      symmetry. apply testbit_value_high; auto. fold n. lia.
  Qed.
End Shr.

Lemma shift_right_unfold a k : 0 < k -> k < 64 * Z.of_nat (length a) ->
  shift_right_limbs a k = map (shr_f a k) (idxs (length a)).
Proof.
  intros H1 H2. unfold shift_right_limbs. cbv zeta.
  replace (k <=? 0) with false by (symmetry; apply Z.leb_gt; lia).
  replace (k >=? Z.of_nat (length a) * 64) with false by (symmetry; rewrite Z.geb_leb; apply Z.leb_gt; lia).
  reflexivity.
Qed.

(* ferret_shift_right_limbs: identity for counts <= 0, otherwise floor division by 2^k (0 for k >= N) *)
Lemma shift_right_correct a k : limbs_ok a ->
  value (shift_right_limbs a k) = (if k <=? 0 then value a else value a / 2 ^ k) /\
  limbs_ok (shift_right_limbs a k) /\ length (shift_right_limbs a k) = length a.
Proof.
  intros Ha. destruct (Z.leb_spec k 0) as [Le|Gt].
  - unfold shift_right_limbs. cbv zeta. replace (k <=? 0) with true by (symmetry; apply Z.leb_le; lia). auto.
  - destruct (Z.lt_ge_cases k (64 * Z.of_nat (length a))) as [In|Big].
    + rewrite (shift_right_unfold a k Gt In).
      destruct (shr_map_value a Ha k Gt In) as [V O]. split; [exact V|]. split; [exact O | apply length_map_idxs].
    + unfold shift_right_limbs. cbv zeta.
      replace (k <=? 0) with false by (symmetry; apply Z.leb_gt; lia).
      replace (k >=? Z.of_nat (length a) * 64) with true by (symmetry; rewrite Z.geb_leb; apply Z.leb_le; lia).
      rewrite value_zeros, zeros_length. split; [| split; [apply zeros_ok | reflexivity]].
      pose proof (value_bound a Ha) as VB. rewrite modulus_pow2 in VB.
      symmetry. apply Z.div_small. split; [lia|].
      apply Z.lt_le_trans with (2 ^ (64 * Z.of_nat (length a))); [lia|]. apply Z.pow_le_mono_r; lia.
Qed.

(* ------------------------------------------------------------------ arithmetic right shift *)
Lemma wrapS_small m x : m = 2 * (m / 2) -> - (m / 2) <= x < m / 2 -> wrapS m x = x.
Proof. intros E H. unfold wrapS. rewrite Z.mod_small by lia. lia. Qed.

(* bits of a negative two's complement value: the unsigned pattern below N, ones from N upwards *)
Lemma neg_bits v N q : 0 <= N -> 0 <= v < 2 ^ N -> 0 <= q ->
  Z.testbit (v - 2 ^ N) q = if q <? N then Z.testbit v q else true.
Proof.
  intros HN Hv Hq. replace (v - 2 ^ N) with (v + (-1) * 2 ^ N) by ring.
  rewrite <- (lor_add v (-1) N) by lia. rewrite Z.lor_spec, Z.mul_pow2_bits by lia.
  destruct (Z.ltb_spec q N).
  - rewrite (Z.testbit_neg_r (-1) (q - N)) by lia. apply orb_false_r.
  - rewrite Z.bits_m1 by lia. apply orb_true_r.
Qed.

Lemma LMAX_ones : LMAX = Z.ones 64. Proof. reflexivity. Qed.
Lemma LMAX_bit j : 0 <= j < 64 -> Z.testbit LMAX j = true.
Proof. intros H. rewrite LMAX_ones. apply Z.ones_spec_low. lia. Qed.
Lemma LMAX_ok : limb_ok LMAX.
Proof. unfold limb_ok, LMAX. pose proof B_pos. lia. Qed.

Section Sar.
  Variable a : list Z.
  Hypothesis Ha : limbs_ok a.
  Variable k : Z.
  Hypothesis Hk : 0 < k.
  Let n := length a.
  Let nz := Z.of_nat n.
  Let ws := k / 64.
  Let bs := k mod 64.
  Hypothesis Hlt : k < 64 * nz.

  Let out := shift_right_limbs a k.

  Definition sar_g (i : Z) : Z :=
    let o := nthZ out i in
    let o1 := if i >=? nz - ws then LMAX else o in
    if negb (bs =? 0) && (i =? nz - 1 - ws) then Z.lor o1 ((LMAX * 2 ^ (64 - bs)) mod B) else o1.

  Lemma out_facts : value out = value a / 2 ^ k /\ limbs_ok out /\ length out = n.
  Proof.
    destruct (shift_right_correct a k Ha) as (V & O & L). fold out in V, O, L.
    replace (k <=? 0) with false in V by (symmetry; apply Z.leb_gt; lia). auto.
  Qed.

  Lemma out_bit i j : 0 <= i -> 0 <= j < 64 -> Z.testbit (nthZ out i) j = Z.testbit (value a) (64 * i + j + k).
  Proof.
    intros Hi Hj. destruct out_facts as (V & O & L).
    rewrite <- (testbit_value_limb out i j O Hi Hj), V, Z.div_pow2_bits by lia. reflexivity.
  Qed.

  Lemma sar_g_ok i : limb_ok (sar_g i).
  Proof.
    destruct out_facts as (V & O & L).
    unfold sar_g. cbv zeta.
    assert (O1 : limb_ok (if i >=? nz - ws then LMAX else nthZ out i)) by (destruct (i >=? nz - ws); [apply LMAX_ok | apply nthZ_ok, O]).
    destruct (negb (bs =? 0) && (i =? nz - 1 - ws)); [| exact O1].
    apply lor_limb_ok; [exact O1 | apply mod_limb_ok].
  Qed.

  Lemma sar_g_bit i j : 0 <= i < nz -> 0 <= j < 64 ->
    Z.testbit (sar_g i) j = if 64 * i + j + k <? 64 * nz then Z.testbit (value a) (64 * i + j + k) else true.
  Proof.
    intros Hi Hj. destruct (count_split k Hk) as (W & Bs & Ek). fold ws bs in W, Bs, Ek.
    unfold sar_g. cbv zeta. rewrite Z.geb_leb.
    destruct (Z.leb_spec (nz - ws) i) as [Fill|Keep].
    - (* whole limb filled with ones *)
      replace (i =? nz - 1 - ws) with false by (symmetry; apply Z.eqb_neq; lia). rewrite andb_false_r.
      rewrite LMAX_bit by lia.
      replace (64 * i + j + k <? 64 * nz) with false by (symmetry; apply Z.ltb_ge; lia). reflexivity.
    - destruct (Z.eqb_spec bs 0) as [B0|B1]; cbn [negb andb].
      + rewrite out_bit by lia.
        replace (64 * i + j + k <? 64 * nz) with true by (symmetry; apply Z.ltb_lt; lia). reflexivity.
      + destruct (Z.eqb_spec i (nz - 1 - ws)) as [Top|Below].
        * rewrite Z.lor_spec, out_bit, testbit_shl_limb by lia.
          destruct (Z.ltb_spec (64 * i + j + k) (64 * nz)) as [In|Over].
          -- rewrite (Z.testbit_neg_r LMAX (j - (64 - bs))) by lia. apply orb_false_r.
          -- rewrite LMAX_bit by lia. apply orb_true_r.
        * rewrite out_bit by lia.
          replace (64 * i + j + k <? 64 * nz) with true by (symmetry; apply Z.ltb_lt; lia). reflexivity.
  Qed.

  (* for a negative operand the result is congruent to the floor quotient of the signed value *)
  Lemma sar_map_value : modulus n / 2 <= value a ->
    value (map sar_g (idxs n)) = ((value a - modulus n) / 2 ^ k) mod modulus n /\ limbs_ok (map sar_g (idxs n)).
  Proof.
    intros Neg.
    assert (OK : limbs_ok (map sar_g (idxs n))) by (apply limbs_ok_map_idxs; intros; apply sar_g_ok).
    split; [| exact OK].
    pose proof (value_bound a Ha) as VB. fold n in VB. rewrite modulus_pow2 in VB, Neg |- *. fold nz in VB, Neg |- *.
    apply Z.bits_inj'. intros p Hp.
    rewrite Z.testbit_mod_pow2, Z.div_pow2_bits by lia.
    rewrite (neg_bits (value a) (64 * nz) (p + k)) by lia.
    rewrite (testbit_value _ p OK Hp).
    assert (PM : 0 <= p mod 64 < 64) by (apply Z.mod_pos_bound; lia).
    assert (PD : 0 <= p / 64) by (apply Z.div_pos; lia).
    assert (PE : p = 64 * (p / 64) + p mod 64) by (Z.div_mod_to_equations; lia).
    destruct (Z.ltb_spec p (64 * nz)) as [In|Out]; cbn [andb].
    - rewrite nthZ_map_idxs by (fold nz; lia). rewrite sar_g_bit by lia.
      replace (64 * (p / 64) + p mod 64 + k) with (p + k) by lia. reflexivity.
    - rewrite nthZ_out by (rewrite length_map_idxs; fold nz; lia). apply Z.bits_0.
  Qed.
End Sar.

Lemma shift_right_signed_unfold a k : 0 < k -> k < 64 * Z.of_nat (length a) -> is_negative a = true ->
  shift_right_signed_limbs a k = map (sar_g a k) (idxs (length a)).
Proof.
  intros H1 H2 Neg. unfold shift_right_signed_limbs. cbv zeta. rewrite Neg.
  replace (k <=? 0) with false by (symmetry; apply Z.leb_gt; lia). cbn [negb orb].
  replace (k >=? Z.of_nat (length a) * 64) with false by (symmetry; rewrite Z.geb_leb; apply Z.leb_gt; lia).
  reflexivity.
Qed.

(* ferret_shift_right_signed_limbs: identity for counts <= 0, otherwise floor division of the signed value by 2^k
   (0 or -1 for k >= N) *)
Lemma shift_right_signed_correct a k : limbs_ok a -> a <> [] ->
  svalue (shift_right_signed_limbs a k) = (if k <=? 0 then svalue a else svalue a / 2 ^ k) /\
  limbs_ok (shift_right_signed_limbs a k) /\ length (shift_right_signed_limbs a k) = length a.
Proof.
  intros Ha Hne.
  assert (N0 : length a <> O) by (destruct a; cbn; congruence).
  pose proof (modulus_even (length a) N0) as EV. pose proof (modulus_pos (length a)) as MP.
  pose proof (value_bound a Ha) as VB.
  destruct (shift_right_correct a k Ha) as (SV & SO & SL).
  destruct (Z.leb_spec k 0) as [Le|Gt].
  - unfold shift_right_signed_limbs. cbv zeta.
    replace (k <=? 0) with true by (symmetry; apply Z.leb_le; lia). cbn [orb].
    unfold shift_right_limbs. cbv zeta. replace (k <=? 0) with true by (symmetry; apply Z.leb_le; lia). auto.
  - assert (P2 : 0 < 2 ^ k) by (apply Z.pow_pos_nonneg; lia).
    pose proof (is_negative_spec a Ha Hne) as NS.
    destruct (Z.leb_spec (modulus (length a) / 2) (value a)) as [Neg|Pos].
    + (* negative operand *)
      assert (SA : svalue a = value a - modulus (length a)).
      { unfold svalue. destruct (Z.ltb_spec (value a) (modulus (length a) / 2)); lia. }
      destruct (Z.lt_ge_cases k (64 * Z.of_nat (length a))) as [In|Big].
      * rewrite (shift_right_signed_unfold a k Gt In NS).
        destruct (sar_map_value a Ha k Gt In Neg) as [V O].
        split; [| split; [exact O | apply length_map_idxs]].
        rewrite SA.
        set (x := (value a - modulus (length a)) / 2 ^ k) in *.
        assert (XR : - (modulus (length a) / 2) <= x < modulus (length a) / 2).
        { subst x. split.
          - apply Z.div_le_lower_bound; [lia|]. nia.
          - apply Z.lt_le_trans with 0; [| lia]. apply Z.div_lt_upper_bound; lia. }
        rewrite <- (wrapS_small (modulus (length a)) x EV XR).
        rewrite <- (length_map_idxs (sar_g a k) (length a)) at 2.
        apply svalue_wrap with (q := - (x / modulus (length a))).
        -- exact O.
        -- intros X. pose proof (length_map_idxs (sar_g a k) (length a)) as LL. rewrite X in LL. cbn in LL. congruence.
        -- rewrite length_map_idxs, V.
           pose proof (Z.div_mod x (modulus (length a)) ltac:(lia)). lia.
      * unfold shift_right_signed_limbs. cbv zeta. rewrite NS.
        replace (k <=? 0) with false by (symmetry; apply Z.leb_gt; lia). cbn [negb orb].
        replace (k >=? Z.of_nat (length a) * 64) with true by (symmetry; rewrite Z.geb_leb; apply Z.leb_le; lia).
        split; [| split; [| apply repeat_length]].
        -- rewrite SA. unfold svalue. rewrite value_repeat_max, repeat_length.
           destruct (Z.ltb_spec (modulus (length a) - 1) (modulus (length a) / 2)); [lia|].
           assert (PB : modulus (length a) <= 2 ^ k).
           { rewrite modulus_pow2. apply Z.pow_le_mono_r; lia. }
           replace (modulus (length a) - 1 - modulus (length a)) with (-1) by lia.
           apply (Z.div_unique_pos _ (2 ^ k) (-1) (value a - modulus (length a) + 2 ^ k)); lia.
        -- clear. induction (length a) as [|m IH]; cbn [repeat]; [apply limbs_ok_nil|].
           apply limbs_ok_cons. split; [apply LMAX_ok | exact IH].
    + (* non-negative operand: the logical shift *)
      assert (SA : svalue a = value a).
      { unfold svalue. destruct (Z.ltb_spec (value a) (modulus (length a) / 2)); lia. }
      assert (E : shift_right_signed_limbs a k = shift_right_limbs a k).
      { unfold shift_right_signed_limbs. cbv zeta. rewrite NS.
        replace (modulus (length a) / 2 <=? value a) with false by (symmetry; apply Z.leb_gt; lia).
        cbn [negb]. rewrite orb_true_r. reflexivity. }
      rewrite E. split; [| auto].
      replace (k <=? 0) with false in SV by (symmetry; apply Z.leb_gt; lia).
      rewrite SA. unfold svalue. rewrite SL, SV.
      assert (value a / 2 ^ k <= value a) by (apply Z.div_le_upper_bound; nia).
      destruct (Z.ltb_spec (value a / 2 ^ k) (modulus (length a) / 2)); lia.
Qed.
