(* C16 — exponentiation by squaring (ferret_*_pow): ferret_shr1_limbs, parity, the loop invariant, fuel. *)
From Coq Require Import ZArith List Bool Lia Zpow_facts.
From FV Require Import Models.Bigint Proofs.BigintP Proofs.BigintMulP Proofs.BigintDecP.
Import ListNotations.
Open Scope Z_scope.

(* OR of bit-disjoint numbers is their sum *)
Lemma lor_add a b k : 0 <= k -> 0 <= a < 2 ^ k -> Z.lor a (b * 2 ^ k) = a + b * 2 ^ k.
Proof.
  intros Hk Ha.
  assert (L : Z.land a (b * 2 ^ k) = 0).
  { apply Z.bits_inj'. intros i Hi. rewrite Z.land_spec, Z.bits_0.
    destruct (Z.lt_ge_cases i k).
    - rewrite Z.mul_pow2_bits_low by lia. apply andb_false_r.
    - rewrite <- (Z.mod_small a (2 ^ k)) by lia. rewrite Z.mod_pow2_bits_high by lia. reflexivity. }
  rewrite <- Z.lxor_lor by exact L. symmetry. apply Z.add_nocarry_lxor, L.
Qed.

Lemma shr1_head x y : limb_ok x -> limb_ok y ->
  Z.lor (x / 2) ((y * 2 ^ 63) mod B) = x / 2 + (y mod 2) * 2 ^ 63.
Proof.
  unfold limb_ok. rewrite B_eq. intros Hx Hy.
  assert (E : (y * 2 ^ 63) mod 18446744073709551616 = (y mod 2) * 2 ^ 63).
  { change (2 ^ 63) with 9223372036854775808. Z.div_mod_to_equations. lia. }
  rewrite E. apply lor_add; [lia|].
  change (2 ^ 63) with 9223372036854775808. Z.div_mod_to_equations. lia.
Qed.

Lemma shr1_spec : forall v, limbs_ok v -> value (shr1_limbs v) = value v / 2 /\ limbs_ok (shr1_limbs v).
Proof.
  induction v as [|x t IH]; intros H.
  - split; [reflexivity | apply limbs_ok_nil].
  - apply limbs_ok_cons in H. destruct H as [Hx Ht]. destruct (IH Ht) as [IV IO]. clear IH.
    destruct t as [|y t'].
    + cbn [shr1_limbs value]. rewrite !Z.mul_0_r, !Z.add_0_r. split; [reflexivity|].
      apply limbs_ok_cons. split; [| apply limbs_ok_nil].
      unfold limb_ok in *. rewrite B_eq in *. Z.div_mod_to_equations. lia.
    + assert (Hy : limb_ok y) by (apply limbs_ok_cons in Ht; tauto).
      change (shr1_limbs (x :: y :: t')) with (Z.lor (x / 2) ((y * 2 ^ 63) mod B) :: shr1_limbs (y :: t')).
      rewrite (shr1_head x y Hx Hy). split.
      * cbn [value] in *. rewrite IV. unfold limb_ok in *. rewrite B_eq in *.
        change (2 ^ 63) with 9223372036854775808.
        set (w := value t') in *. clearbody w. clear IV IO Ht. Z.div_mod_to_equations. lia.
      * apply limbs_ok_cons. split; [| exact IO].
        unfold limb_ok in *. rewrite B_eq in *. change (2 ^ 63) with 9223372036854775808.
        Z.div_mod_to_equations. lia.
Qed.

Lemma is_odd_spec v : is_odd v = Z.odd (value v).
Proof.
  destruct v as [|x t]; [reflexivity|]. unfold is_odd. cbn [hd value]. rewrite B_eq.
  replace (18446744073709551616 * value t) with (2 * (9223372036854775808 * value t)) by ring.
  symmetry. apply Z.odd_add_mul_2.
Qed.

(* one iteration of square-and-multiply, as arithmetic modulo m *)
Lemma pow_step m r b e : 0 < m -> 0 < e ->
  ((if Z.odd e then (r * b) mod m else r) * ((b * b) mod m) ^ (e / 2)) mod m = (r * b ^ e) mod m.
Proof.
  intros Hm He.
  assert (H2 : 0 <= e / 2) by (apply Z.div_pos; lia).
  rewrite Z.mul_mod by lia. rewrite <- (Zpower_mod (b * b) (e / 2) m) by lia.
  replace ((b * b) ^ (e / 2)) with (b ^ (2 * (e / 2))) by (rewrite Z.pow_mul_r by lia; f_equal; ring).
  pose proof (Zmod_odd e) as O. pose proof (Z.div_mod e 2 ltac:(lia)) as DM.
  destruct (Z.odd e).
  - rewrite Z.mod_mod by lia. rewrite <- Z.mul_mod by lia. f_equal.
    replace e with (2 * (e / 2) + 1) at 2 by lia. rewrite Z.pow_add_r by lia. ring.
  - rewrite <- Z.mul_mod by lia. f_equal. replace e with (2 * (e / 2)) at 2 by lia. reflexivity.
Qed.

Section Pow.
  Variable n : nat.
  Variable mul : list Z -> list Z -> list Z.
  Hypothesis mul_spec : forall x y, length x = n -> length y = n -> limbs_ok x -> limbs_ok y ->
    value (mul x y) = (value x * value y) mod modulus n /\ length (mul x y) = n /\ limbs_ok (mul x y).

  Lemma pow_go_spec : forall fuel base exp result r,
    length base = n -> length result = n -> limbs_ok base -> limbs_ok result -> limbs_ok exp ->
    pow_go fuel mul base exp result = Some r ->
    value r mod modulus n = (value result * value base ^ value exp) mod modulus n /\ length r = n /\ limbs_ok r.
  Proof.
    induction fuel as [|f IH]; intros base exp result r Lb Lr Hb Hr He E; cbn [pow_go] in E;
      rewrite (is_zero_spec exp He) in E; destruct (Z.eqb_spec (value exp) 0) as [Z0|NZ]; try discriminate.
    - injection E as <-. rewrite Z0, Z.pow_0_r, Z.mul_1_r. auto.
    - injection E as <-. rewrite Z0, Z.pow_0_r, Z.mul_1_r. auto.
    - pose proof (value_bound exp He) as EB. pose proof (modulus_pos n) as MP.
      destruct (shr1_spec exp He) as [SV SO].
      destruct (mul_spec base base Lb Lb Hb Hb) as (BV & BL & BO).
      rewrite is_odd_spec in E.
      assert (R' : exists res', (if Z.odd (value exp) then mul result base else result) = res' /\
                  length res' = n /\ limbs_ok res' /\
                  value res' mod modulus n = (if Z.odd (value exp) then (value result * value base) mod modulus n else value result) mod modulus n).
      { destruct (Z.odd (value exp)).
        - destruct (mul_spec result base Lr Lb Hr Hb) as (V & L & O). eexists. split; [reflexivity|]. rewrite V. auto.
        - eexists. split; [reflexivity|]. auto. }
      destruct R' as (res' & ER & RL & RO & RV). rewrite ER in E.
      destruct (IH _ _ _ _ BL RL BO RO SO E) as (V & L & O). split; [| auto].
      rewrite V, SV, BV.
      rewrite Z.mul_mod by lia. rewrite RV. rewrite <- Z.mul_mod by lia.
      apply pow_step; lia.
  Qed.

  Lemma pow_go_total : forall fuel base exp result,
    length base = n -> length result = n -> limbs_ok base -> limbs_ok result -> limbs_ok exp ->
    value exp < 2 ^ Z.of_nat fuel -> exists r, pow_go fuel mul base exp result = Some r.
  Proof.
    induction fuel as [|f IH]; intros base exp result Lb Lr Hb Hr He Hf; cbn [pow_go];
      rewrite (is_zero_spec exp He); destruct (Z.eqb_spec (value exp) 0) as [Z0|NZ]; try (eexists; reflexivity).
    - exfalso. pose proof (value_bound exp He). change (2 ^ Z.of_nat 0) with 1 in Hf. lia.
    - destruct (shr1_spec exp He) as [SV SO].
      destruct (mul_spec base base Lb Lb Hb Hb) as (BV & BL & BO).
      assert (R' : length (if is_odd exp then mul result base else result) = n /\
                   limbs_ok (if is_odd exp then mul result base else result)).
      { destruct (is_odd exp); [destruct (mul_spec result base Lr Lb Hr Hb) as (V & L & O)|]; auto. }
      destruct R' as [RL RO].
      apply IH; auto.
      rewrite SV. rewrite Nat2Z.inj_succ, Z.pow_succ_r in Hf by lia.
      apply Z.div_lt_upper_bound; lia.
  Qed.
End Pow.

Lemma modulus_pow2 k : modulus k = 2 ^ (64 * Z.of_nat k).
Proof.
  induction k as [|k IH]; [reflexivity|].
  rewrite modulus_S, IH, B_eq, Nat2Z.inj_succ.
  replace (64 * Z.succ (Z.of_nat k)) with (64 + 64 * Z.of_nat k) by lia.
  rewrite Z.pow_add_r by lia. reflexivity.
Qed.

Lemma fuel_enough k e : e < modulus k -> e < 2 ^ Z.of_nat (pow_fuel k).
Proof.
  intros H. unfold pow_fuel. rewrite Nat2Z.inj_succ, Z.pow_succ_r by lia.
  rewrite modulus_pow2 in H. replace (Z.of_nat (k * 64)) with (64 * Z.of_nat k) by lia.
  pose proof (Z.pow_pos_nonneg 2 (64 * Z.of_nat k) ltac:(lia) ltac:(lia)). lia.
Qed.

Lemma from_u64_ok k x : limb_ok x -> limbs_ok (from_u64 k x).
Proof. destruct k; cbn [from_u64]; [intros; apply limbs_ok_nil|]. intros H. apply limbs_ok_cons. split; [exact H | apply zeros_ok]. Qed.
Lemma from_u64_length k x : length (from_u64 k x) = k.
Proof. destruct k; cbn [from_u64 length]; [reflexivity|]. rewrite zeros_length. reflexivity. Qed.
Lemma limb_ok_1 : limb_ok 1. Proof. unfold limb_ok. rewrite B_eq. lia. Qed.

Lemma u_pow_correct a b : length a = length b -> limbs_ok a -> limbs_ok b -> a <> [] ->
  exists r, u_pow a b = Some r /\ value r = (value a ^ value b) mod modulus (length a) /\ length r = length a.
Proof.
  intros L Ha Hb Hne. unfold u_pow.
  assert (MS : forall x y, length x = length a -> length y = length a -> limbs_ok x -> limbs_ok y ->
    value (u_mul x y) = (value x * value y) mod modulus (length a) /\ length (u_mul x y) = length a /\ limbs_ok (u_mul x y)).
  { intros x y Lx Ly Hx Hy. unfold u_mul. split; [rewrite <- Lx; apply mul_limbs_correct; congruence|].
    split; [rewrite mul_limbs_length; exact Lx | apply mul_limbs_ok]. }
  assert (N0 : length a <> O) by (destruct a; cbn; congruence).
  pose proof (value_bound b Hb) as BB. rewrite <- L in BB.
  destruct (pow_go_total (length a) u_mul MS (pow_fuel (length a)) a b (from_u64 (length a) 1)
              eq_refl (from_u64_length _ _) Ha (from_u64_ok _ _ limb_ok_1) Hb (fuel_enough _ _ (proj2 BB))) as [r E].
  exists r. split; [exact E|].
  destruct (pow_go_spec (length a) u_mul MS _ _ _ _ r eq_refl (from_u64_length _ _) Ha (from_u64_ok _ _ limb_ok_1) Hb E)
    as (V & Lr & Or).
  split; [| exact Lr].
  rewrite (from_u64_correct (length a) 1 N0), Z.mul_1_l in V. rewrite <- V.
  symmetry. apply Z.mod_small. rewrite <- Lr. apply value_bound, Or.
Qed.

Lemma from_i64_1 k : from_i64 k 1 = from_u64 k 1.
Proof. destruct k; reflexivity. Qed.

(* signed: exponent >= 0 in the two's complement reading, i.e. its unsigned value is below 2^(N-1) *)
Lemma s_pow_correct a b : length a = length b -> limbs_ok a -> limbs_ok b -> a <> [] -> 0 <= svalue b ->
  exists r, s_pow a b = Some r /\ svalue r = wrapS (modulus (length a)) (svalue a ^ svalue b).
Proof.
  intros L Ha Hb Hne Hpos. unfold s_pow.
  assert (Hnb : b <> []) by (destruct b; destruct a; cbn in L; congruence).
  assert (N0 : length a <> O) by (destruct a; cbn; congruence).
  (* the sign test *)
  assert (Z0 : svalue (zeros (length a)) = 0).
  { unfold svalue. rewrite value_zeros, zeros_length. pose proof (modulus_even (length a) N0). pose proof (modulus_pos (length a)).
    destruct (Z.ltb_spec 0 (modulus (length a) / 2)); lia. }
  assert (C : cmp_s b (zeros (length a)) <? 0 = false).
  { destruct (cmp_s_spec b (zeros (length a)) ltac:(rewrite zeros_length; congruence) Hb (zeros_ok _) Hnb) as [[E O]|[[E O]|[E O]]];
      rewrite E; try reflexivity. rewrite Z0 in O. lia. }
  rewrite C.
  assert (MS : forall x y, length x = length a -> length y = length a -> limbs_ok x -> limbs_ok y ->
    value (s_mul x y) = (value x * value y) mod modulus (length a) /\ length (s_mul x y) = length a /\ limbs_ok (s_mul x y)).
  { intros x y Lx Ly Hx Hy. split; [rewrite <- Lx; apply s_mul_value; congruence|].
    split; [rewrite s_mul_length; exact Lx | apply s_mul_ok]. }
  pose proof (value_bound b Hb) as BB. rewrite <- L in BB.
  rewrite from_i64_1.
  destruct (pow_go_total (length a) s_mul MS (pow_fuel (length a)) a b (from_u64 (length a) 1)
              eq_refl (from_u64_length _ _) Ha (from_u64_ok _ _ limb_ok_1) Hb (fuel_enough _ _ (proj2 BB))) as [r E].
  exists r. split; [exact E|].
  destruct (pow_go_spec (length a) s_mul MS _ _ _ _ r eq_refl (from_u64_length _ _) Ha (from_u64_ok _ _ limb_ok_1) Hb E)
    as (V & Lr & Or).
  rewrite (from_u64_correct (length a) 1 N0), Z.mul_1_l in V.
  (* svalue b = value b because it is non-negative; svalue a is congruent to value a *)
  assert (EB : svalue b = value b).
  { unfold svalue in *. rewrite <- L in *. destruct (Z.ltb_spec (value b) (modulus (length a) / 2)); [reflexivity | lia]. }
  rewrite EB. destruct (svalue_cong a) as [qa Ea].
  assert (P : (svalue a ^ value b) mod modulus (length a) = (value a ^ value b) mod modulus (length a)).
  { pose proof (modulus_pos (length a)).
    rewrite (Zpower_mod (svalue a)), (Zpower_mod (value a)) by lia. f_equal. f_equal.
    rewrite Ea. rewrite Z.mul_comm. apply Z.mod_add. lia. }
  assert (Rne : r <> []) by (intros ->; cbn in Lr; congruence).
  rewrite <- Lr.
  pose proof (value_bound r Or) as RB. rewrite Lr in RB.
  pose proof (Z.div_mod (svalue a ^ value b) (modulus (length a)) ltac:(pose proof (modulus_pos (length a)); lia)) as DM.
  apply svalue_wrap with (q := - ((svalue a ^ value b) / modulus (length a))); auto.
  rewrite Lr. rewrite <- (Z.mod_small (value r) (modulus (length a))) by lia. rewrite V, <- P. lia.
Qed.
