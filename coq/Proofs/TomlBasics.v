(* C20 — basic lemmas about the helpers of Models/Toml.v: byte-string equality, prefix/suffix, Atoi/Itoa,
   TrimSpace identities. *)
From Coq Require Import ZArith List Bool Lia.
From FV Require Import Models.Toml.
Import ListNotations.
Open Scope Z_scope.

Arguments space_len : simpl never.
Arguments space_len_rev : simpl never.
Arguments seq_len : simpl never.

Lemma frev_rev (l : bytes) : frev l = rev l.
Proof. unfold frev. symmetry. apply rev_alt. Qed.

Lemma beq_refl x : beq x x = true.
Proof. induction x; simpl; auto. rewrite Z.eqb_refl. auto. Qed.

Lemma beq_eq x y : beq x y = true <-> x = y.
Proof.
  split; [| intros ->; apply beq_refl].
  revert y; induction x as [|c x IH]; destruct y as [|d y]; simpl; try discriminate; auto.
  rewrite andb_true_iff, Z.eqb_eq. intros [-> H]. f_equal. auto.
Qed.

Lemma beq_neq x y : x <> y -> beq x y = false.
Proof. intros H. destruct (beq x y) eqn:E; auto. apply beq_eq in E. contradiction. Qed.

Lemma beq_sym x y : beq x y = beq y x.
Proof.
  destruct (beq x y) eqn:E.
  - apply beq_eq in E. subst. symmetry. apply beq_refl.
  - destruct (beq y x) eqn:E2; auto. apply beq_eq in E2. subst. rewrite beq_refl in E. discriminate.
Qed.

(* ---- mem *)
Lemma mem_In c l : mem c l = true <-> In c l.
Proof.
  induction l as [|d l IH]; simpl; [split; [discriminate | tauto]|].
  rewrite orb_true_iff, Z.eqb_eq, IH. split; intros [H|H]; auto.
Qed.

(* ---- last byte *)
Lemma has_suffix1 c l x : has_suffix [c] (l ++ [x]) = (c =? x).
Proof.
  unfold has_suffix. rewrite !frev_rev, rev_app_distr. simpl. rewrite andb_true_r. reflexivity.
Qed.

(* ---- digits / Atoi / Itoa *)
Lemma digits_val_app l1 l2 a :
  digits_val (l1 ++ l2) a = match digits_val l1 a with Some a' => digits_val l2 a' | None => None end.
Proof.
  revert a; induction l1 as [|c l1 IH]; intros a; simpl; auto.
  destruct (is_digit c); auto.
Qed.

Lemma utoa_acc fuel : forall n acc, utoa fuel n acc = utoa fuel n [] ++ acc.
Proof.
  induction fuel as [|f IH]; intros n acc; cbn [utoa]; auto.
  destruct (n <? 10); [reflexivity|].
  rewrite IH. rewrite (IH (n / 10) [48 + n mod 10]). rewrite <- app_assoc. reflexivity.
Qed.

Lemma is_digit_mod n : is_digit (48 + n mod 10) = true.
Proof.
  unfold is_digit. pose proof (Z.mod_pos_bound n 10 ltac:(lia)).
  apply andb_true_iff. split; apply Z.leb_le; lia.
Qed.

Lemma utoa_digits fuel : forall n, Forall (fun c => is_digit c = true) (utoa fuel n []).
Proof.
  induction fuel as [|f IH]; intros n; cbn [utoa]; [constructor|].
  destruct (n <? 10).
  - constructor; [apply is_digit_mod | constructor].
  - rewrite utoa_acc. apply Forall_app. split; [apply IH|]. constructor; [apply is_digit_mod | constructor].
Qed.

Lemma utoa_nonempty fuel n : utoa (S fuel) n [] <> [].
Proof.
  cbn [utoa]. destruct (n <? 10); [discriminate|]. rewrite utoa_acc. destruct (utoa fuel (n / 10) []); discriminate.
Qed.

Lemma utoa_val fuel : forall n a, 0 <= n < 10 ^ Z.of_nat fuel ->
  exists k, digits_val (utoa fuel n []) a = Some (a * 10 ^ k + n) /\ 0 <= k.
Proof.
  induction fuel as [|f IH]; intros n a Hn.
  - simpl in Hn. assert (n = 0) by lia. subst. exists 0. cbn [utoa digits_val]. change (10 ^ 0) with 1. split; [f_equal; lia | lia].
  - rewrite Nat2Z.inj_succ, Z.pow_succ_r in Hn by lia.
    cbn [utoa]. destruct (n <? 10) eqn:E.
    + apply Z.ltb_lt in E. exists 1. cbn [digits_val]. rewrite is_digit_mod. rewrite Z.mod_small by lia.
      change (10 ^ 1) with 10. split; [f_equal; lia | lia].
    + apply Z.ltb_ge in E. rewrite utoa_acc, digits_val_app.
      destruct (IH (n / 10) a) as [k [Hk Hk0]].
      { split; [apply Z.div_pos; lia | apply Z.div_lt_upper_bound; lia]. }
      rewrite Hk. exists (k + 1). cbn [digits_val]. rewrite is_digit_mod.
      split; [| lia]. f_equal. rewrite Z.pow_add_r by lia.
      pose proof (Z.div_mod n 10 ltac:(lia)). lia.
Qed.

Lemma utoa_head_digit fuel n : exists c r, utoa (S fuel) n [] = c :: r /\ is_digit c = true.
Proof.
  pose proof (utoa_digits (S fuel) n) as H. pose proof (utoa_nonempty fuel n) as Hne.
  destruct (utoa (S fuel) n []) as [|c r]; [contradiction|].
  exists c, r. split; auto. inversion H; auto.
Qed.

Lemma pow10_20 : 10 ^ Z.of_nat 20 = 100000000000000000000.
Proof. reflexivity. Qed.

Lemma atoi_itoa i : int_min <= i <= int_max -> atoi (itoa i) = Some i.
Proof.
  unfold int_min, int_max. intros Hi. unfold itoa. destruct (i <? 0) eqn:E.
  - apply Z.ltb_lt in E. unfold atoi. simpl (45 =? 45). cbv iota beta. simpl (true || _).
    cbv iota. destruct (utoa_head_digit 19 (- i)) as [c [r [Hr Hd]]].
    destruct (utoa_val 20 (- i) 0) as [k [Hk _]]. { rewrite pow10_20. lia. }
    rewrite Hr in *. rewrite Hk. simpl (0 * _ + _). replace (- - i) with i by lia.
    unfold int_min, int_max.
    replace ((-9223372036854775808 <=? i) && (i <=? 9223372036854775807)) with true; auto.
    symmetry. apply andb_true_iff. split; apply Z.leb_le; lia.
  - apply Z.ltb_ge in E. destruct (utoa_head_digit 19 i) as [c [r [Hr Hd]]].
    destruct (utoa_val 20 i 0) as [k [Hk _]]. { rewrite pow10_20. lia. }
    rewrite Hr in *. unfold atoi.
    assert (Hc : 48 <= c <= 57). { unfold is_digit in Hd. apply andb_true_iff in Hd. destruct Hd as [A B]. apply Z.leb_le in A, B. lia. }
    replace (c =? 45) with false by (symmetry; apply Z.eqb_neq; lia).
    replace (c =? 43) with false by (symmetry; apply Z.eqb_neq; lia).
    simpl (false || false). cbv iota. rewrite Hk. simpl (0 * _ + _).
    unfold int_min, int_max.
    replace ((-9223372036854775808 <=? i) && (i <=? 9223372036854775807)) with true; auto.
    symmetry. apply andb_true_iff. split; apply Z.leb_le; lia.
Qed.

(* every byte of Itoa's output is a digit or '-' and it is not empty *)
Definition num_byte (c : Z) : Prop := 48 <= c <= 57 \/ c = 45 \/ c = 46.

Lemma is_digit_num c : is_digit c = true -> num_byte c.
Proof. unfold is_digit, num_byte. rewrite andb_true_iff, !Z.leb_le. lia. Qed.

Lemma itoa_num i : Forall num_byte (itoa i) /\ itoa i <> [].
Proof.
  unfold itoa. destruct (i <? 0).
  - split; [| discriminate]. constructor; [unfold num_byte; lia|].
    eapply Forall_impl; [| apply utoa_digits]. apply is_digit_num.
  - split; [| apply utoa_nonempty]. eapply Forall_impl; [| apply utoa_digits]. apply is_digit_num.
Qed.

(* ---- TrimSpace leaves a string alone when it starts and ends with an ASCII non-blank byte *)
Definition plain (c : Z) : Prop := 33 <= c <= 126.

Lemma plain_not_space c : plain c -> ascii_space c = false.
Proof.
  unfold plain, ascii_space. intros H.
  repeat (apply orb_false_iff; split); apply Z.eqb_neq; lia.
Qed.

Lemma space_len_plain c r : plain c -> space_len (c :: r) = 0%nat.
Proof.
  intros H. unfold space_len. rewrite (plain_not_space c H). unfold plain in H.
  replace (c =? 194) with false by (symmetry; apply Z.eqb_neq; lia).
  replace (c =? 225) with false by (symmetry; apply Z.eqb_neq; lia).
  replace (c =? 226) with false by (symmetry; apply Z.eqb_neq; lia).
  replace (c =? 227) with false by (symmetry; apply Z.eqb_neq; lia).
  reflexivity.
Qed.

Lemma space_len_rev_ascii c r : 0 <= c < 128 -> space_len_rev (c :: r) = if ascii_space c then 1%nat else 0%nat.
Proof.
  intros H. unfold space_len_rev, e280_space. destruct (ascii_space c); auto.
  destruct r as [|d [|e r'']]; auto;
  repeat match goal with |- context [if ?b then _ else _] => let E := fresh "E" in destruct b eqn:E end; auto; exfalso;
  repeat (rewrite ?andb_true_iff, ?orb_true_iff, ?Z.eqb_eq, ?Z.leb_le in * ); intuition lia.
Qed.

Lemma trim_left_plain c r : plain c -> trim_left (c :: r) = c :: r.
Proof. intros H. unfold trim_left. cbn [trim_with]. rewrite (space_len_plain c r H). reflexivity. Qed.

Lemma trim_right_snoc_ascii l x : 0 <= x < 128 ->
  trim_right (l ++ [x]) = if ascii_space x then trim_right l else l ++ [x].
Proof.
  intros H. unfold trim_right. rewrite !frev_rev, rev_app_distr. simpl rev. simpl app.
  cbn [trim_with]. rewrite space_len_rev_ascii by auto.
  destruct (ascii_space x).
  - reflexivity.
  - simpl rev. rewrite rev_involutive. reflexivity.
Qed.

Lemma trim_right_plain l c : plain c -> trim_right (l ++ [c]) = l ++ [c].
Proof.
  intros H. rewrite trim_right_snoc_ascii by (unfold plain in H; lia).
  rewrite (plain_not_space c H). reflexivity.
Qed.

(* a string that starts and ends with plain bytes *)
Definition tight (l : bytes) : Prop := exists c m d, (l = c :: m ++ [d] \/ (l = [c] /\ c = d)) /\ plain c /\ plain d.

Lemma trim_space_tight l : tight l -> trim_space l = l.
Proof.
  intros (c & m & d & [E | [E E2]] & Hc & Hd); subst; unfold trim_space.
  - rewrite trim_left_plain by auto. rewrite app_comm_cons. apply trim_right_plain. auto.
  - rewrite trim_left_plain by assumption. apply (trim_right_plain [] _). assumption.
Qed.

Lemma tight_intro c m d : plain c -> plain d -> tight (c :: m ++ [d]).
Proof. intros. exists c, m, d. auto. Qed.

(* ASCII blanks after a plain byte are trimmed; used for the tail of inline comments *)
Lemma trim_right_ascii_tail : forall (t : bytes) (l : bytes) c, plain c -> Forall (fun x => 0 <= x < 128) t ->
  exists t', trim_right (l ++ c :: t) = l ++ c :: t' /\ Forall (fun x => 0 <= x < 128) t'.
Proof.
  intros t. induction t as [|x t IH] using rev_ind; intros l c Hc Ht.
  - exists []. split; [apply trim_right_plain; auto | constructor].
  - apply Forall_app in Ht. destruct Ht as [Ht Hx]. inversion Hx; subst.
    replace (l ++ c :: t ++ [x]) with ((l ++ c :: t) ++ [x]) by (rewrite <- app_assoc; reflexivity).
    rewrite trim_right_snoc_ascii by auto.
    destruct (ascii_space x).
    + apply IH; auto.
    + exists (t ++ [x]). split; [rewrite <- app_assoc; reflexivity | apply Forall_app; auto].
Qed.

Lemma trim_left_space c r : ascii_space c = true -> trim_left (c :: r) = trim_left r.
Proof. intros H. unfold trim_left. cbn [trim_with]. unfold space_len. rewrite H. reflexivity. Qed.

(* l ++ " " is trimmed back to l when l starts and ends with plain bytes *)
Lemma trim_space_pad l : tight l -> trim_space (l ++ [32]) = l.
Proof.
  intros T. pose proof (trim_space_tight l T) as E.
  destruct T as (c & m & d & [E1 | [E1 E2]] & Hc & Hd); subst; unfold trim_space in *.
  - simpl app. rewrite trim_left_plain in * by auto. rewrite app_comm_cons.
    rewrite trim_right_snoc_ascii by lia. simpl (ascii_space 32). exact E.
  - simpl app. rewrite trim_left_plain in * by assumption.
    match goal with |- context [trim_right [?x; 32]] => change [x; 32] with ([x] ++ [32]) end.
    rewrite trim_right_snoc_ascii by lia. simpl (ascii_space 32). exact E.
Qed.

Lemma drop_cr_keep l c : c <> 13 -> drop_cr (l ++ [c]) = l ++ [c].
Proof.
  intros H. unfold drop_cr. rewrite frev_rev, rev_app_distr. simpl.
  replace (c =? 13) with false by (symmetry; apply Z.eqb_neq; auto). reflexivity.
Qed.

Lemma drop_cr_snoc l y : drop_cr (l ++ [y]) = if y =? 13 then l else l ++ [y].
Proof.
  unfold drop_cr. rewrite frev_rev, rev_app_distr. simpl. destruct (y =? 13); auto.
  rewrite frev_rev, rev_involutive. reflexivity.
Qed.

Lemma drop_cr_tail (P : Z -> Prop) l c t : c <> 13 -> Forall P t ->
  exists t', drop_cr (l ++ c :: t) = l ++ c :: t' /\ Forall P t'.
Proof.
  intros Hc Ht. destruct t as [|y t0 _] using rev_ind.
  - exists []. split; [apply drop_cr_keep; auto | constructor].
  - apply Forall_app in Ht. destruct Ht as [Ht Hy].
    replace (l ++ c :: t0 ++ [y]) with ((l ++ c :: t0) ++ [y]) by (rewrite <- app_assoc; reflexivity).
    rewrite drop_cr_snoc. destruct (y =? 13).
    + exists t0. split; [reflexivity | assumption].
    + exists (t0 ++ [y]). split; [rewrite <- app_assoc; reflexivity | apply Forall_app; auto].
Qed.

Lemma split_eq_app p r : Forall (fun c => c <> 61) p -> split_eq (p ++ 61 :: r) = Some (p, r).
Proof.
  induction 1 as [|c p Hc Hp IH]; simpl.
  - reflexivity.
  - replace (c =? 61) with false by (symmetry; apply Z.eqb_neq; auto). rewrite IH. reflexivity.
Qed.

Lemma split_lines_app l r : ~ In 10 l -> split_lines (l ++ 10 :: r) = l :: split_lines r.
Proof.
  induction l as [|c l IH]; intros H; simpl.
  - reflexivity.
  - replace (c =? 10) with false by (symmetry; apply Z.eqb_neq; intros ->; apply H; left; auto).
    rewrite IH by (intros X; apply H; right; auto). reflexivity.
Qed.
