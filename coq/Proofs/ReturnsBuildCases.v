(* C05 — build_inv for every statement form (see Proofs/ReturnsBuildP.v for the invariant). *)
From Coq Require Import List Bool Arith Lia.
From FV Require Import Models.Returns Proofs.ReturnsDfs Proofs.ReturnsBuildP.
Import ListNotations.

Definition run_els (e : els) (o : outcome) : Prop :=
  match e with ENone => o = ONormal | EBlock b => run_block b o | EIf i => run_ifs i o end.

Definition P_stmt (s : stmt) : Prop := forall t c L t' r,
  build_stmt s t c L = (t', r) -> pre t c L -> build_inv t c L t' r (run_stmt s).
Definition P_block (b : block) : Prop := forall t c L t' r,
  build_block b t c L = (t', r) -> pre t c L -> build_inv t c L t' r (run_block b).
Definition P_ifs (i : ifs) : Prop := forall t c L t' r,
  build_ifs i t c L = (t', r) -> pre t c L -> build_inv t c L t' r (run_ifs i).
Definition P_els (e : els) : Prop := forall t c L t' r,
  build_els e t c L = (t', r) -> pre t c L -> build_inv t c L t' r (run_els e).

Lemma in_last {A} (x : A) l : In x (l ++ [x]).
Proof. apply in_or_app. right. left. reflexivity. Qed.


(* ---- inversion of the run relation ---- *)
Lemma run_cons_inv s b o : run_block (BCons s b) o ->
  (run_stmt s ONormal /\ run_block b o) \/ (run_stmt s o /\ o <> ONormal).
Proof. intros H. inversion H; subst; auto. Qed.
Lemma run_ifs_inv t e o : run_ifs (IfS t e) o -> run_block t o \/ run_els e o.
Proof. intros H. inversion H; subst; simpl; auto. Qed.
Lemma run_arms_inv d b a o : run_arms (ACons d b a) o -> run_block b o \/ run_arms a o.
Proof. intros H. inversion H; subst; auto. Qed.
Lemma run_match_inv a o : run_stmt (SMatch a) o -> run_arms a o \/ (has_default a = false /\ o = ONormal).
Proof. intros H. inversion H; subst; auto. Qed.
Lemma run_while_inv lt b o : run_stmt (SWhile lt b) o -> run_loop lt b o.
Proof. intros H. inversion H; subst; auto. Qed.
Lemma run_for_inv b o : run_stmt (SFor b) o -> run_loop false b o.
Proof. intros H. inversion H; subst; auto. Qed.
Lemma run_sif_inv i o : run_stmt (SIf i) o -> run_ifs i o.
Proof. intros H. inversion H; subst; auto. Qed.

(* a claim about an abrupt outcome, moved to a later state *)
Lemma claim_lift t c L t1 r1 t2 r2 o :
  claim t c L t1 r1 o -> o <> ONormal -> ext t1 t2 -> n_outside t1 <= n_outside t2 -> claim t c L t2 r2 o.
Proof.
  intros C N E M. assert (J : jump t c L t2 o).
  { apply (jump_lift t c L t1 t2); auto. destruct o; [congruence | exact C | exact C | exact C]. }
  destruct o; [congruence | exact J | exact J | exact J].
Qed.

(* ---- leaves ---- *)
Lemma case_simple : P_stmt SSimple.
Proof.
  intros t c L t' r H (W & C & O & R & Lk). simpl in H. inversion H; subst. split.
  - split; [apply frameN_refl | split; [exact W|]]. simpl. auto.
  - intros o Ho. inversion Ho; subst. simpl. exists c. split; [reflexivity | apply path_refl].
Qed.

Lemma case_return v : P_stmt (SReturn v).
Proof.
  intros t c L t' r H (W & C & O & R & Lk). rewrite build_return_eq in H. inversion H; subst. split.
  - split; [|split; [|exact I]].
    + eapply frameN_trans; [|apply frameN_ae; left; reflexivity].
      eapply frameN_trans; [|apply frameN_mr].
      destruct L; [apply frameN_sf | apply frameN_refl].
    + apply wf_ae; [apply wf_mr|]; destruct L; stp; auto using wf_sf.
  - intros o Ho. inversion Ho; subst. exact I.
Qed.

Lemma case_break : P_stmt SBreak.
Proof.
  intros t c L t' r H (W & C & O & R & Lk). rewrite build_break_eq in H.
  destruct L as [[b h]|]; inversion H; subst; split.
  - split; [|split; [|exact I]].
    + eapply frameN_trans; [apply frameN_sf | apply frameN_ae; left; reflexivity].
    + apply wf_ae; [apply wf_sf; exact W | stp; exact C].
  - intros o Ho. inversion Ho; subst. simpl. apply path_edge; stp; [exact R | apply in_last].
  - split; [apply frameN_do | split; [apply wf_do; exact W|]]. simpl. stp.
    repeat split; auto; try (eapply noout_same; [|exact O]; stp; reflexivity).
  - intros o Ho. inversion Ho; subst. simpl. stp. lia.
Qed.

Lemma case_continue : P_stmt SContinue.
Proof.
  intros t c L t' r H (W & C & O & R & Lk). rewrite build_continue_eq in H.
  destruct L as [[b h]|]; inversion H; subst; split.
  - split; [|split; [|exact I]].
    + apply frameN_ae; left; reflexivity.
    + apply wf_ae; [exact W | exact C].
  - intros o Ho. inversion Ho; subst. simpl. apply path_edge; stp; [exact R | apply in_last].
  - split; [apply frameN_do | split; [apply wf_do; exact W|]]. simpl. stp.
    repeat split; auto; try (eapply noout_same; [|exact O]; stp; reflexivity).
  - intros o Ho. inversion Ho; subst. simpl. stp. lia.
Qed.

(* ---- sequencing ---- *)
Lemma pre_next t c L t1 d : pre t c L -> post t c t1 (Some d) -> pre t1 d L.
Proof.
  intros (W & C & O & R & Lk) P. assert (P' := P). destruct P as (F & W1 & (Hd & Hd1 & Hd2 & Hd3)).
  split; [exact W1|]. split; [exact Hd1|]. split; [exact Hd2|]. split; [exact Hd3|].
  destruct L as [[b h]|]; simpl in *; [|exact I].
  destruct (post_pending _ _ _ _ _ P' Lk) as (A1 & A2 & A3). destruct Lk as (B1 & B2 & _).
  split; [exact A1|]. split; [|split; assumption]. destruct Hd; [congruence | lia].
Qed.

Lemma post_seq t c t1 d t2 r : post t c t1 (Some d) -> post t1 d t2 r -> post t c t2 r.
Proof.
  intros (F1 & W1 & (Hd & Hd1 & Hd2 & Hd3)) (F2 & W2 & R2).
  assert (N := frameN_nblk _ _ _ _ F1).
  split; [|split; [exact W2|]].
  - eapply frameN_trans; [exact F1|]. eapply frameN_weaken; [exact F2 | | exact N]. destruct Hd; [left; auto | right; lia].
  - destruct r as [e|]; [|exact I]. destruct R2 as (He & He1 & He2 & He3). repeat split; auto.
    destruct He as [He | He]; [subst; exact Hd | right; lia].
Qed.

Lemma case_nil : P_block BNil.
Proof.
  intros t c L t' r H (W & C & O & R & Lk). simpl in H. inversion H; subst. split.
  - split; [apply frameN_refl | split; [exact W|]]. simpl. auto.
  - intros o Ho. inversion Ho; subst. simpl. exists c. split; [reflexivity | apply path_refl].
Qed.

Lemma case_cons s rest : P_stmt s -> P_block rest -> P_block (BCons s rest).
Proof.
  intros IHs IHr t c L t' r H Pre. rewrite build_cons_eq in H.
  destruct (build_stmt s t c L) as [t1 c1] eqn:Hs.
  destruct (IHs _ _ _ _ _ Hs Pre) as [Ps Cs].
  assert (Pre' := Pre). destruct Pre' as (W & C & O & R & Lk).
  destruct c1 as [d|].
  - assert (Pre1 := pre_next _ _ _ _ _ Pre Ps).
    destruct (IHr _ _ _ _ _ H Pre1) as [Pr Cr].
    assert (E : ext t1 t').
    { destruct Pre1 as (W1 & _ & O1 & _). eapply post_ext; eauto. }
    assert (N1 : n_outside t1 <= n_outside t') by (destruct Pr as (F & _); apply (frameN_nout _ _ _ _ F)).
    assert (N0 : n_outside t <= n_outside t1) by (destruct Ps as (F & _); apply (frameN_nout _ _ _ _ F)).
    split; [eapply post_seq; eauto|].
    intros o Ho. destruct (run_cons_inv _ _ _ Ho) as [[Hs1 Hb1] | [Hs1 Hn1]].
    + destruct (Cs _ Hs1) as (d' & Ed & Pd). inversion Ed; subst d'.
      assert (Pd' := path_ext _ _ _ _ E Pd).
      specialize (Cr _ Hb1). destruct o; simpl in *.
      * destruct Cr as (e & Er & Pe). exists e. split; [exact Er | eapply path_trans; eauto].
      * exact I.
      * destruct L as [[b h]|]; [eapply path_trans; eauto | lia].
      * destruct L as [[b h]|]; [eapply path_trans; eauto | lia].
    + eapply claim_lift; eauto.
  - inversion H; subst. clear H.
    assert (E : ext t1 (if block_nonempty rest then diag_unreach t1 else t1)).
    { destruct (block_nonempty rest); [apply ext_same; stp; reflexivity | apply ext_refl]. }
    split.
    + destruct Ps as (F & W1 & _). split; [|split; [|exact I]].
      * eapply frameN_trans; [exact F|]. destruct (block_nonempty rest); [apply frameN_du | apply frameN_refl].
      * destruct (block_nonempty rest); [apply wf_du|]; exact W1.
    + intros o Ho. destruct (run_cons_inv _ _ _ Ho) as [[Hs1 Hb1] | [Hs1 Hn1]].
      * destruct (Cs _ Hs1) as (d' & Ed & _). discriminate.
      * eapply claim_lift; eauto. destruct (block_nonempty rest); stp; lia.
Qed.

Lemma case_sblock b : P_block b -> P_stmt (SBlock b).
Proof.
  intros IH t c L t' r H Pre. simpl in H. destruct (IH _ _ _ _ _ H Pre) as [P C]. split; [exact P|].
  intros o Ho. inversion Ho; subst. auto.
Qed.

(* ---- one branch: a new block x hanging off block c (c may already have out-edges), then a sub-build from x ---- *)
Definition bclaim (t : st) (c : nat) (L : loopctx) (t2 : st) (ax : option nat) (o : outcome) : Prop :=
  match o with
  | ONormal => exists a, ax = Some a /\ path t2 c a
  | _ => jump t c L t2 o
  end.

Definition branch_ok (R : outcome -> Prop) (t : st) (c : nat) (L : loopctx) (t2 : st) (ax : option nat) : Prop :=
  frameN (nblk t) c t t2 /\ wf t2 /\ ~ In c (rets t2) /\ nblk t < nblk t2 /\ ext t t2 /\
  (forall z, pending t c z -> pending t2 c z /\ (forall a, ax = Some a -> z <> a)) /\
  (forall a, ax = Some a -> nblk t < a /\ a <= nblk t2 /\ ~ has_out t2 a /\ ~ In a (rets t2)) /\
  (forall o, R o -> bclaim t c L t2 ax o).

Lemma pending_branch_start t c z :
  pending t c z -> pending (add_edge c (S (nblk t)) (nb t)) (S (nblk t)) z.
Proof.
  intros (A & B & C & D). repeat split; stp; try lia; auto.
  apply noout_ae; [exact B|]. eapply noout_same; [|exact C]. stp. reflexivity.
Qed.

Lemma branch_inv (R : outcome -> Prop) t c L t2 ax :
  wf t -> c <= nblk t -> ~ In c (rets t) -> Lok t c L ->
  (pre (add_edge c (S (nblk t)) (nb t)) (S (nblk t)) L ->
   build_inv (add_edge c (S (nblk t)) (nb t)) (S (nblk t)) L t2 ax R) ->
  branch_ok R t c L t2 ax.
Proof.
  intros W C R0 Lk IH. unfold branch_ok.
  set (x := S (nblk t)) in *. set (t1 := add_edge c x (nb t)) in *.
  assert (W1 : wf t1) by (apply wf_ae; [apply wf_nb; exact W | stp; lia]).
  assert (X1 : ~ has_out t1 x).
  { apply noout_ae; [unfold x; lia|]. eapply noout_same; [|apply (wf_fresh_noout t x W); unfold x; lia]. stp. reflexivity. }
  assert (X2 : ~ In x (rets t1)) by (unfold t1; stp; apply wf_fresh_noret; [exact W | unfold x; lia]).
  assert (Pre1 : pre t1 x L).
  { split; [exact W1|]. split; [unfold t1, x; stp; lia|]. split; [exact X1|]. split; [exact X2|].
    destruct L as [[b h]|]; simpl in *; [|exact I]. apply pending_branch_start. exact Lk. }
  destruct (IH Pre1) as [P Cl]. assert (P' := P). destruct P as (F & W2 & Res).
  assert (N1 : nblk t1 = S (nblk t)) by (unfold t1; stp; reflexivity).
  assert (F01 : frameN (nblk t) c t t1).
  { eapply frameN_trans; [apply frameN_nb | apply frameN_ae; left; reflexivity]. }
  assert (F02 : frameN (nblk t) c t t2).
  { eapply frameN_trans; [exact F01|]. eapply frameN_weaken; [exact F | right; unfold x; lia | lia]. }
  assert (N2 : nblk t1 <= nblk t2) by (apply (frameN_nblk _ _ _ _ F)).
  assert (C1 : ~ In c (rets t1)) by (unfold t1; stp; exact R0).
  assert (C2 : ~ In c (rets t2)).
  { eapply frameN_noret; [exact F | lia | unfold x; lia | exact C1]. }
  assert (E02 : ext t t2) by (eapply frameN_ext; eauto).
  assert (E12 : ext t1 t2) by (eapply post_ext; eauto).
  assert (Ecx : In (c, x) (edges t2)).
  { apply (frameN_incl _ _ _ _ F). unfold t1. stp. apply in_last. }
  split; [exact F02|]. split; [exact W2|]. split; [exact C2|]. split; [lia|]. split; [exact E02|].
  split; [|split].
  - intros z Pz. assert (Pz1 := pending_branch_start _ _ _ Pz). fold x in Pz1. fold t1 in Pz1.
    destruct (post_pending _ _ _ _ _ P' Pz1) as (A1 & A2 & A3). destruct Pz as (B1 & B2 & _).
    split; [repeat split; auto|].
    intros a Ea. subst ax. simpl in Res. destruct Res as (Ha & _). destruct Ha; [unfold x in *; lia | lia].
  - intros a Ea. subst ax. simpl in Res. destruct Res as (Ha & Hb & Hc & Hd).
    repeat split; auto. destruct Ha; [unfold x in *; lia | lia].
  - intros o Ho. specialize (Cl _ Ho).
    assert (Pcx : path t2 c x) by (apply path_edge; assumption).
    destruct o; simpl in *.
    + destruct Cl as (d & Ed & Pd). exists d. split; [exact Ed | eapply path_trans; eauto].
    + exact I.
    + destruct L as [[b h]|]; [eapply path_trans; eauto | unfold t1 in Cl; stp; exact Cl].
    + destruct L as [[b h]|]; [eapply path_trans; eauto | unfold t1 in Cl; stp; exact Cl].
Qed.

Lemma bclaim_lift t c L t2 ax t3 r o :
  bclaim t c L t2 ax o -> o <> ONormal -> ext t2 t3 -> n_outside t2 <= n_outside t3 -> claim t c L t3 r o.
Proof.
  intros C N E M. assert (J : jump t c L t3 o).
  { apply (jump_lift t c L t2 t3); auto. destruct o; [congruence | exact C | exact C | exact C]. }
  destruct o; [congruence | exact J | exact J | exact J].
Qed.

Lemma nblk_ef x b t : nblk (edge_from x b t) = nblk t. Proof. destruct x; reflexivity. Qed.
Lemma rets_ef x b t : rets (edge_from x b t) = rets t. Proof. destruct x; reflexivity. Qed.
Lemma nout_ef x b t : n_outside (edge_from x b t) = n_outside t. Proof. destruct x; reflexivity. Qed.
Lemma edges_ef_some a b t : edges (edge_from (Some a) b t) = edges t ++ [(a, b)]. Proof. reflexivity. Qed.
Global Hint Rewrite nblk_ef rets_ef nout_ef edges_ef_some : stp.

(* ---- if without else ---- *)
Lemma join1 (R1 : outcome -> Prop) t c L t2 ai :
  pre t c L -> branch_ok R1 t c L t2 ai ->
  build_inv t c L (add_edge c (S (nblk t2)) (edge_from ai (S (nblk t2)) (nb t2))) (Some (S (nblk t2)))
            (fun o => R1 o \/ o = ONormal).
Proof.
  intros (W & C & O & R & Lk) (F2 & W2 & C2 & N2 & E2 & Pend2 & Res2 & Cl2).
  set (m := S (nblk t2)) in *. set (t' := add_edge c m (edge_from ai m (nb t2))).
  assert (E2' : ext t2 t').
  { eapply ext_trans; [apply (ext_same t2 (nb t2)); stp; reflexivity|].
    eapply ext_trans; [apply ext_ef | apply ext_ae]. }
  assert (Nt : nblk t' = S (nblk t2)) by (unfold t'; stp; reflexivity).
  assert (Rt : rets t' = rets t2) by (unfold t'; stp; reflexivity).
  assert (Ot : n_outside t' = n_outside t2) by (unfold t'; stp; reflexivity).
  split.
  - split; [|split].
    + eapply frameN_trans; [exact F2|]. eapply frameN_trans; [apply frameN_nb|].
      eapply frameN_trans; [apply frameN_ef | apply frameN_ae; left; reflexivity].
      intros a Ea. right. apply (Res2 _ Ea).
    + apply wf_ae; [apply wf_ef; [apply wf_nb; exact W2|] | stp; lia].
      intros a Ea. stp. destruct (Res2 _ Ea) as (_ & Hb & _). lia.
    + simpl. split; [right; unfold m; lia|]. split; [lia|]. split.
      * apply noout_ae; [unfold m; lia|]. apply noout_ef.
        { intros a Ea. destruct (Res2 _ Ea) as (_ & Hb & _). unfold m. lia. }
        eapply noout_same; [|apply (wf_fresh_noout t2 m W2); unfold m; lia]. stp. reflexivity.
      * rewrite Rt. apply wf_fresh_noret; [exact W2 | unfold m; lia].
  - intros o [Ho | Ho].
    + specialize (Cl2 _ Ho). destruct o; try (eapply bclaim_lift; eauto; [discriminate | lia]).
      simpl in *. destruct Cl2 as (a & Ea & Pa). exists m. split; [reflexivity|].
      eapply path_trans; [eapply path_ext; eauto|]. subst ai.
      destruct (Res2 _ eq_refl) as (_ & _ & _ & Hd).
      apply path_edge; [rewrite Rt; exact Hd|]. unfold t'. stp. apply in_or_app. left. apply in_last.
    + subst o. simpl. exists m. split; [reflexivity|].
      apply path_edge; [rewrite Rt; exact C2 | unfold t'; stp; apply in_last].
Qed.

Lemma jump_base t t2 c L t' o : jump t2 c L t' o -> n_outside t <= n_outside t2 -> jump t c L t' o.
Proof. intros J N. destruct o; simpl in *; auto; destruct L as [[b h]|]; auto; lia. Qed.

Lemma bclaim_lift2 t t2 c L t4 ax t' r o :
  bclaim t2 c L t4 ax o -> o <> ONormal -> n_outside t <= n_outside t2 -> ext t4 t' -> n_outside t4 <= n_outside t' ->
  claim t c L t' r o.
Proof.
  intros C N M E M'. assert (J : jump t c L t' o).
  { apply (jump_base t t2); [|exact M]. apply (jump_lift t2 c L t4 t'); auto.
    destruct o; [congruence | exact C | exact C | exact C]. }
  destruct o; [congruence | exact J | exact J | exact J].
Qed.

(* ---- if / else ---- *)
Lemma join2 (R1 R2 : outcome -> Prop) t c L t2 ai t4 ae :
  pre t c L -> branch_ok R1 t c L t2 ai -> branch_ok R2 t2 c L t4 ae ->
  build_inv t c L (edge_from ae (S (nblk t4)) (edge_from ai (S (nblk t4)) (nb t4)))
            (if is_some ai || is_some ae then Some (S (nblk t4)) else None)
            (fun o => R1 o \/ R2 o).
Proof.
  intros (W & C & O & R & Lk) (F2 & W2 & C2 & N2 & E2 & Pend2 & Res2 & Cl2)
         (F4 & W4 & C4 & N4 & E4 & Pend4 & Res4 & Cl4).
  set (m := S (nblk t4)) in *. set (X := edge_from ai m (nb t4)). set (t' := edge_from ae m X).
  assert (Et : ext t4 t').
  { eapply ext_trans; [apply (ext_same t4 (nb t4)); stp; reflexivity|].
    eapply ext_trans; apply ext_ef. }
  assert (Nt : nblk t' = S (nblk t4)) by (unfold t', X; stp; reflexivity).
  assert (Rt : rets t' = rets t4) by (unfold t', X; stp; reflexivity).
  assert (Ot : n_outside t' = n_outside t4) by (unfold t', X; stp; reflexivity).
  assert (O02 : n_outside t <= n_outside t2) by (apply (frameN_nout _ _ _ _ F2)).
  assert (O24 : n_outside t2 <= n_outside t4) by (apply (frameN_nout _ _ _ _ F4)).
  (* the fall-through block of the then-branch is still untouched after the else-branch *)
  assert (A4 : forall a, ai = Some a -> nblk t < a /\ a <= nblk t2 /\ ~ has_out t4 a /\ ~ In a (rets t4) /\
                                       (forall a', ae = Some a' -> a <> a')).
  { intros a Ea. destruct (Res2 _ Ea) as (H1 & H2 & H3 & H4).
    assert (Pa : pending t2 c a) by (repeat split; auto; lia).
    destruct (Pend4 _ Pa) as ((_ & _ & H5 & H6) & H7). repeat split; auto. }
  assert (Xo : forall z, z <= nblk t4 \/ z = m -> (forall a, ai = Some a -> z <> a) -> ~ has_out t4 z -> ~ has_out X z).
  { intros z Hz Hn Ho. unfold X. apply noout_ef; [exact Hn|]. eapply noout_same; [|exact Ho]. stp. reflexivity. }
  split.
  - split; [|split].
    + eapply frameN_trans; [exact F2|].
      eapply frameN_trans; [eapply frameN_weaken; [exact F4 | left; reflexivity | lia]|].
      eapply frameN_trans; [apply frameN_nb|].
      eapply frameN_trans; apply frameN_ef.
      * intros a Ea. right. apply (A4 _ Ea).
      * intros a Ea. right. destruct (Res4 _ Ea) as (Ha & _). lia.
    + apply wf_ef; [apply wf_ef; [apply wf_nb; exact W4|]|].
      * intros a Ea. stp. destruct (A4 _ Ea) as (_ & Hb & _). lia.
      * intros a Ea. unfold X. stp. destruct (Res4 _ Ea) as (_ & Hb & _). lia.
    + destruct (is_some ai || is_some ae); [|exact I]. simpl.
      split; [right; unfold m; lia|]. split; [lia|]. split.
      * apply noout_ef. { intros a Ea. destruct (Res4 _ Ea) as (_ & Hb & _). unfold m. lia. }
        apply Xo; [right; reflexivity | | apply (wf_fresh_noout t4 m W4); unfold m; lia].
        intros a Ea. destruct (A4 _ Ea) as (_ & Hb & _). unfold m. lia.
      * rewrite Rt. apply wf_fresh_noret; [exact W4 | unfold m; lia].
  - intros o [Ho | Ho].
    + specialize (Cl2 _ Ho).
      destruct o; try (eapply bclaim_lift; eauto; [discriminate | eapply ext_trans; eauto | lia]).
      simpl in *. destruct Cl2 as (a & Ea & Pa). subst ai. simpl. exists m. split; [reflexivity|].
      eapply path_trans; [eapply path_ext; [exact Et | eapply path_ext; [exact E4 | exact Pa]]|].
      destruct (A4 _ eq_refl) as (_ & _ & _ & Hd & _).
      apply path_edge; [rewrite Rt; exact Hd|].
      apply (proj1 (ext_ef ae m X)). unfold X. stp. apply in_last.
    + specialize (Cl4 _ Ho).
      destruct o; try (eapply bclaim_lift2; eauto; [discriminate | lia]).
      simpl in *. destruct Cl4 as (a & Ea & Pa). subst ae. rewrite orb_true_r. exists m. split; [reflexivity|].
      eapply path_trans; [eapply path_ext; [exact Et | exact Pa]|].
      destruct (Res4 _ eq_refl) as (_ & _ & _ & Hd).
      apply path_edge; [rewrite Rt; exact Hd|]. unfold t'. stp. apply in_last.
Qed.

Lemma branch_ok_Lok R t c L t2 ax : branch_ok R t c L t2 ax -> Lok t c L -> Lok t2 c L.
Proof.
  intros (_ & _ & _ & _ & _ & Pend & _) Lk. destruct L as [[b h]|]; simpl in *; [|exact I].
  apply (Pend _ Lk).
Qed.

Lemma case_ifs_else thn e t c L t2 ai t4 ae :
  P_els e -> pre t c L -> branch_ok (run_block thn) t c L t2 ai ->
  build_els e (add_edge c (S (nblk t2)) (nb t2)) (S (nblk t2)) L = (t4, ae) ->
  build_inv t c L (edge_from ae (S (nblk t4)) (edge_from ai (S (nblk t4)) (nb t4)))
            (if is_some ai || is_some ae then Some (S (nblk t4)) else None)
            (fun o => run_block thn o \/ run_els e o).
Proof.
  intros IHe Pre B1 He. apply (join2 _ _ t c L t2 ai t4 ae Pre B1).
  assert (Lk2 := branch_ok_Lok _ _ _ _ _ _ B1 (proj2 (proj2 (proj2 (proj2 Pre))))).
  destruct Pre as (W & C & O & R & Lk). destruct B1 as (F2 & W2 & C2 & N2 & _).
  apply branch_inv; [exact W2 | lia | exact C2 | exact Lk2 |]. intros P1. exact (IHe _ _ _ _ _ He P1).
Qed.

Lemma case_ifs thn e : P_block thn -> P_els e -> P_ifs (IfS thn e).
Proof.
  intros IHt IHe t c L t' r H Pre. rewrite build_ifs_eq in H. cbv zeta in H.
  destruct (build_block thn (add_edge c (S (nblk t)) (nb t)) (S (nblk t)) L) as [t2 ai] eqn:Ht.
  assert (B1 : branch_ok (run_block thn) t c L t2 ai).
  { destruct Pre as (W & C & O & R & Lk). apply branch_inv; [exact W | exact C | exact R | exact Lk |].
    intros P1. exact (IHt _ _ _ _ _ Ht P1). }
  destruct e as [|b|i].
  - inversion H; subst. destruct (join1 _ _ _ _ _ _ Pre B1) as [P Cl]. split; [exact P|].
    intros o Ho. apply Cl. destruct (run_ifs_inv _ _ _ Ho) as [H1 | H1]; [left; exact H1 | right; exact H1].
  - cbv iota in H.
    destruct (build_els (EBlock b) (add_edge c (S (nblk t2)) (nb t2)) (S (nblk t2)) L) as [t4 ae] eqn:He.
    inversion H; subst.
    destruct (case_ifs_else thn (EBlock b) _ _ _ _ _ _ _ IHe Pre B1 He) as [P Cl]. split; [exact P|].
    intros o Ho. apply Cl. apply run_ifs_inv. exact Ho.
  - cbv iota in H.
    destruct (build_els (EIf i) (add_edge c (S (nblk t2)) (nb t2)) (S (nblk t2)) L) as [t4 ae] eqn:He.
    inversion H; subst.
    destruct (case_ifs_else thn (EIf i) _ _ _ _ _ _ _ IHe Pre B1 He) as [P Cl]. split; [exact P|].
    intros o Ho. apply Cl. apply run_ifs_inv. exact Ho.
Qed.

Lemma case_sif i : P_ifs i -> P_stmt (SIf i).
Proof.
  intros IH t c L t' r H Pre. simpl in H. destruct (IH _ _ _ _ _ H Pre) as [P C]. split; [exact P|].
  intros o Ho. apply C. apply run_sif_inv. exact Ho.
Qed.

Lemma case_enone : P_els ENone.
Proof.
  intros t c L t' r H (W & C & O & R & Lk). simpl in H. inversion H; subst. split.
  - split; [apply frameN_refl | split; [exact W|]]. simpl. auto.
  - intros o Ho. simpl in Ho. subst. simpl. exists c. split; [reflexivity | apply path_refl].
Qed.
Lemma case_eblock b : P_block b -> P_els (EBlock b).
Proof. intros IH t c L t' r H Pre. simpl in H. exact (IH _ _ _ _ _ H Pre). Qed.
Lemma case_eif i : P_ifs i -> P_els (EIf i).
Proof. intros IH t c L t' r H Pre. simpl in H. exact (IH _ _ _ _ _ H Pre). Qed.

(* ---- match ---- *)
Definition aclaim (t : st) (c : nat) (L : loopctx) (t' : st) (merge : nat) (reach' : bool) (o : outcome) : Prop :=
  match o with
  | ONormal => reach' = true /\ path t' c merge
  | _ => jump t c L t' o
  end.

Definition P_arms (a : arms) : Prop := forall t c L merge reach t' reach',
  build_arms a t c L merge reach = (t', reach') ->
  wf t -> c <= nblk t -> ~ In c (rets t) -> Lok t c L -> pending t c merge ->
  frameN (nblk t) c t t' /\ wf t' /\ ~ In c (rets t') /\ ext t t' /\
  ~ has_out t' merge /\ ~ In merge (rets t') /\ (reach = true -> reach' = true) /\
  (forall o, run_arms a o -> aclaim t c L t' merge reach' o).

Lemma pending_ef t c z ax m :
  pending t c z -> (forall a, ax = Some a -> z <> a) -> pending (edge_from ax m t) c z.
Proof.
  intros (A & B & C & D) H. repeat split; stp; auto. apply noout_ef; auto.
Qed.

Lemma case_anil : P_arms ANil.
Proof.
  intros t c L merge reach t' reach' H W C R Lk (A & B & Cm & D). simpl in H. inversion H; subst.
  split; [apply frameN_refl|]. split; [exact W|]. split; [exact R|]. split; [apply ext_refl|].
  split; [exact Cm|]. split; [exact D|]. split; [auto|].
  intros o Ho. inversion Ho.
Qed.

Lemma case_acons d body a : P_block body -> P_arms a -> P_arms (ACons d body a).
Proof.
  intros IHb IHa t c L merge reach t' reach' H W C R Lk Pm. rewrite build_arms_eq in H. cbv zeta in H.
  destruct (build_block body (add_edge c (S (nblk t)) (nb t)) (S (nblk t)) L) as [t2 ax] eqn:Hb.
  assert (B : branch_ok (run_block body) t c L t2 ax).
  { apply branch_inv; [exact W | exact C | exact R | exact Lk |]. intros P1. exact (IHb _ _ _ _ _ Hb P1). }
  assert (Lk2 := branch_ok_Lok _ _ _ _ _ _ B Lk).
  destruct B as (F2 & W2 & C2 & N2 & E2 & Pend2 & Res2 & Cl2).
  set (t3 := edge_from ax merge t2) in *.
  assert (W3 : wf t3).
  { apply wf_ef; [exact W2|]. intros x Ex. apply (Res2 _ Ex). }
  assert (C3 : ~ In c (rets t3)) by (unfold t3; stp; exact C2).
  assert (Lk3 : Lok t3 c L).
  { destruct L as [[b h]|]; simpl in *; [|exact I]. apply pending_ef; [exact Lk2 | apply (Pend2 _ Lk)]. }
  assert (Pm3 : pending t3 c merge) by (apply pending_ef; apply (Pend2 _ Pm)).
  assert (Cle : c <= nblk t3) by (unfold t3; stp; lia).
  destruct (IHa _ _ _ _ _ _ _ H W3 Cle C3 Lk3 Pm3) as (F4 & W4 & C4 & E4 & Mo & Mr & Mono & Cl4).
  assert (N3 : nblk t3 = nblk t2) by (unfold t3; stp; reflexivity).
  assert (E23 : ext t2 t3) by apply ext_ef.
  assert (O02 : n_outside t <= n_outside t2) by (apply (frameN_nout _ _ _ _ F2)).
  assert (O3 : n_outside t3 = n_outside t2) by (unfold t3; stp; reflexivity).
  assert (O34 : n_outside t3 <= n_outside t') by (apply (frameN_nout _ _ _ _ F4)).
  split; [|split; [exact W4 | split; [exact C4 | split; [|split; [exact Mo | split; [exact Mr | split]]]]]].
  - eapply frameN_trans; [exact F2|]. eapply frameN_trans.
    + apply frameN_ef. intros x Ex. right. apply (Res2 _ Ex).
    + eapply frameN_weaken; [exact F4 | left; reflexivity | lia].
  - eapply ext_trans; [exact E2|]. eapply ext_trans; [exact E23 | exact E4].
  - intros Hr. apply Mono. rewrite Hr. reflexivity.
  - intros o Ho. destruct (run_arms_inv _ _ _ _ Ho) as [H1 | H1].
    + specialize (Cl2 _ H1). destruct o.
      * simpl in *. destruct Cl2 as (x & Ex & Px). subst ax. split; [apply Mono; apply orb_true_r|].
        eapply path_ext; [exact E4|]. eapply path_trans; [eapply path_ext; [exact E23 | exact Px]|].
        destruct (Res2 _ eq_refl) as (_ & _ & _ & Hd).
        apply path_edge; [unfold t3; stp; exact Hd | unfold t3; stp; apply in_last].
      * exact I.
      * apply (jump_lift t c L t2 t'); [exact Cl2 | eapply ext_trans; eauto | lia].
      * apply (jump_lift t c L t2 t'); [exact Cl2 | eapply ext_trans; eauto | lia].
    + specialize (Cl4 _ H1). destruct o; [exact Cl4 | exact I | |];
        apply (jump_base t t3); try lia; exact Cl4.
Qed.

Lemma case_match a : P_arms a -> P_stmt (SMatch a).
Proof.
  intros IHa t c L t' r H (W & C & O & R & Lk). rewrite build_match_eq in H. cbv zeta in H.
  destruct (build_arms a (nb t) c L (S (nblk t)) false) as [t1 reach] eqn:Ha.
  set (m := S (nblk t)) in *.
  assert (Pm : pending (nb t) c m).
  { repeat split; stp; try (unfold m; lia).
    - eapply noout_same; [|apply (wf_fresh_noout t m W); unfold m; lia]. stp. reflexivity.
    - apply wf_fresh_noret; [exact W | unfold m; lia]. }
  assert (Lk1 : Lok (nb t) c L).
  { destruct L as [[b h]|]; simpl in *; [|exact I]. destruct Lk as (A & B & Cc & D).
    repeat split; stp; auto; try (eapply noout_same; [|exact Cc]; stp; reflexivity). }
  assert (C1 : c <= nblk (nb t)) by (stp; lia).
  assert (R1 : ~ In c (rets (nb t))) by (stp; exact R).
  destruct (IHa _ _ _ _ _ _ _ Ha (wf_nb _ W) C1 R1 Lk1 Pm) as (F & W1 & Cr & E & Mo & Mr & _ & Cl).
  assert (F01 : frameN (nblk t) c t t1).
  { eapply frameN_trans; [apply frameN_nb|]. eapply frameN_weaken; [exact F | left; reflexivity | stp; lia]. }
  assert (N1 : S (nblk t) <= nblk t1) by (apply frameN_nblk in F; stp; exact F).
  destruct (has_default a) eqn:D; inversion H; subst; clear H.
  - split.
    + split; [exact F01 | split; [exact W1|]]. destruct reach; [|exact I]. simpl.
      split; [right; unfold m; lia|]. split; [exact N1|]. split; assumption.
    + intros o Ho. destruct (run_match_inv _ _ Ho) as [H1 | [H1 _]]; [|congruence].
      specialize (Cl _ H1). destruct o.
      * simpl in *. destruct Cl as (Er & P). subst reach. exists m. split; [reflexivity | exact P].
      * exact I.
      * apply (jump_base t (nb t)); [exact Cl | stp; lia].
      * apply (jump_base t (nb t)); [exact Cl | stp; lia].
  - assert (Ea : ext t1 (add_edge c m t1)) by apply ext_ae.
    split.
    + split; [|split].
      * eapply frameN_trans; [exact F01 | apply frameN_ae; left; reflexivity].
      * apply wf_ae; [exact W1 | lia].
      * simpl. split; [right; unfold m; lia|]. split; [stp; exact N1|]. split.
        { apply noout_ae; [unfold m; lia | exact Mo]. }
        { stp. exact Mr. }
    + intros o Ho. destruct (run_match_inv _ _ Ho) as [H1 | [_ H1]].
      * specialize (Cl _ H1). destruct o.
        { simpl in *. destruct Cl as (_ & P). exists m. split; [reflexivity | eapply path_ext; eauto]. }
        { exact I. }
        { apply (jump_base t (nb t)); [|stp; lia]. apply (jump_lift _ _ _ t1); [exact Cl | exact Ea | stp; lia]. }
        { apply (jump_base t (nb t)); [|stp; lia]. apply (jump_lift _ _ _ t1); [exact Cl | exact Ea | stp; lia]. }
      * subst o. simpl. exists m. split; [reflexivity|].
        apply path_edge; [stp; exact Cr | stp; apply in_last].
Qed.

(* ---- loops ---- *)
Lemma loop_claims lt body (Pc : outcome -> Prop) :
  (lt = false -> Pc ONormal) -> (run_block body OBreak -> Pc ONormal) -> (forall v, Pc (OReturn v)) ->
  forall o, run_loop lt body o -> Pc o.
Proof. intros A B C o H. induction H; auto. Qed.

Definition same (t2 t' : st) : Prop :=
  nblk t' = nblk t2 /\ n_outside t' = n_outside t2 /\ edges t' = edges t2 /\ rets t' = rets t2.

(* t7: the state after header/body/after blocks and their edges have been created; tf: the final state *)
Lemma loop_core lt body t c L t7 t8 ab tf :
  P_block body -> pre t c L ->
  nblk t7 = S (S (S (nblk t))) -> rets t7 = rets t -> n_outside t7 = n_outside t -> wf t7 ->
  frameN (nblk t) c t t7 ->
  (forall x y, In (x, y) (edges t7) -> x <= S (nblk t)) ->
  In (c, S (nblk t)) (edges t7) -> In (S (nblk t), S (S (nblk t))) (edges t7) ->
  (lt = false -> In (S (nblk t), S (S (S (nblk t)))) (edges t7)) ->
  build_block body t7 (S (S (nblk t))) (Some (S (S (S (nblk t))), S (nblk t))) = (t8, ab) ->
  same (edge_from ab (S (nblk t)) t8) tf ->
  build_inv t c L tf (Some (S (S (S (nblk t))))) (run_loop lt body).
Proof.
  intros IH (W & C & O & R & Lk) N7 R7 O7 W7 F07 Src Ech Ehb Eha Hb (Sn & So & Se & Sr).
  set (n := nblk t) in *. set (header := S n) in *. set (bodyb := S (S n)) in *. set (after := S (S (S n))) in *.
  assert (NoB : ~ has_out t7 bodyb) by (intros [y Hy]; apply Src in Hy; unfold bodyb, header in *; lia).
  assert (NoA : ~ has_out t7 after) by (intros [y Hy]; apply Src in Hy; unfold after, header in *; lia).
  assert (NrB : ~ In bodyb (rets t7)) by (rewrite R7; apply wf_fresh_noret; [exact W | unfold bodyb, n; lia]).
  assert (NrA : ~ In after (rets t7)) by (rewrite R7; apply wf_fresh_noret; [exact W | unfold after, n; lia]).
  assert (NrH : ~ In header (rets t7)) by (rewrite R7; apply wf_fresh_noret; [exact W | unfold header, n; lia]).
  assert (NrC : ~ In c (rets t7)) by (rewrite R7; exact R).
  assert (PA : pending t7 bodyb after) by (repeat split; auto; unfold after, bodyb in *; lia).
  assert (Pre7 : pre t7 bodyb (Some (after, header))).
  { split; [exact W7|]. split; [unfold bodyb in *; lia|]. split; [exact NoB|]. split; [exact NrB|]. exact PA. }
  destruct (IH _ _ _ _ _ Hb Pre7) as [P8 Cl8]. assert (P8' := P8). destruct P8 as (F8 & W8 & Res8).
  destruct (post_pending _ _ _ _ _ P8' PA) as (A1 & A2 & A3).
  assert (N78 : nblk t7 <= nblk t8) by (apply (frameN_nblk _ _ _ _ F8)).
  assert (Hab : forall a, ab = Some a -> (a = bodyb \/ nblk t7 < a) /\ a <= nblk t8).
  { intros a Ea. subst ab. simpl in Res8. split; apply Res8. }
  set (t9 := edge_from ab header t8) in *.
  assert (E89 : ext t8 t9) by apply ext_ef.
  assert (E9f : ext t9 tf) by (apply ext_same; assumption).
  assert (E8f : ext t8 tf) by (eapply ext_trans; eauto).
  assert (E78 : ext t7 t8) by (eapply post_ext; eauto).
  assert (Rf : rets tf = rets t8) by (rewrite Sr; unfold t9; stp; reflexivity).
  assert (Inc : incl (edges t7) (edges tf)).
  { eapply incl_tran; [apply (proj1 E78) | apply (proj1 E8f)]. }
  assert (NfC : ~ In c (rets tf)).
  { rewrite Rf. eapply frameN_noret; [exact F8 | lia | unfold bodyb; lia | exact NrC]. }
  assert (NfH : ~ In header (rets tf)).
  { rewrite Rf. eapply frameN_noret; [exact F8 | unfold header in *; lia | unfold bodyb, header; lia | exact NrH]. }
  split.
  - split; [|split].
    + eapply frameN_trans; [exact F07|].
      eapply frameN_trans; [eapply frameN_weaken; [exact F8 | right; unfold bodyb, n; lia | lia]|].
      apply (frameN_trans _ _ _ t9); [apply frameN_ef | apply frameN_same; try lia; assumption].
      intros a Ea. right. destruct (Hab _ Ea) as [[H1 | H1] _]; [subst; unfold bodyb, n; lia | lia].
    + eapply wf_same; [| exact Se | exact Sr |]; [lia|]. apply wf_ef; [exact W8|].
      intros a Ea. apply (Hab _ Ea).
    + simpl. split; [right; unfold after, n; lia|]. split; [rewrite Sn; unfold t9; stp; unfold after in *; lia|]. split.
      * eapply noout_same; [exact Se|]. apply noout_ef; [|exact A2].
        intros a Ea. destruct (Hab _ Ea) as [[H1 | H1] _]; [subst; unfold after, bodyb; lia | unfold after in *; lia].
      * rewrite Rf. exact A3.
  - intros o Ho. revert o Ho. apply loop_claims.
    + intros El. simpl. exists after. split; [reflexivity|].
      eapply path_step; [exact NfC | apply Inc; exact Ech |].
      apply path_edge; [exact NfH | apply Inc; apply Eha; exact El].
    + intros Hbk. specialize (Cl8 _ Hbk). simpl in Cl8. simpl. exists after. split; [reflexivity|].
      eapply path_step; [exact NfC | apply Inc; exact Ech |].
      eapply path_step; [exact NfH | apply Inc; exact Ehb |].
      eapply path_ext; [exact E8f | exact Cl8].
    + intros v. exact I.
Qed.

Ltac in_edges H :=
  repeat (apply in_app_or in H; destruct H as [H | H]);
  try (destruct H as [H | H]; [inversion H; subst; clear H | destruct H]).

Ltac in_solve := repeat (first [apply in_last | apply in_or_app; left]).

Lemma loop_prefix (lt : bool) t c :
  wf t -> c <= nblk t ->
  let header := S (nblk t) in let bodyb := S (S (nblk t)) in let after := S (S (S (nblk t))) in
  let t5 := nb (add_edge header bodyb (nb (add_edge c header (nb t)))) in
  let t7 := set_flags false false (if lt then t5 else add_edge header after t5) in
  nblk t7 = S (S (S (nblk t))) /\ rets t7 = rets t /\ n_outside t7 = n_outside t /\ wf t7 /\
  frameN (nblk t) c t t7 /\
  (forall x y, In (x, y) (edges t7) -> x <= S (nblk t)) /\
  In (c, header) (edges t7) /\ In (header, bodyb) (edges t7) /\
  (lt = false -> In (header, after) (edges t7)).
Proof.
  intros W C header bodyb after t5 t7.
  assert (W5 : wf t5).
  { unfold t5. apply wf_nb. apply wf_ae; [|stp; unfold header; lia]. apply wf_nb.
    apply wf_ae; [|stp; lia]. apply wf_nb. exact W. }
  assert (F5 : frameN (nblk t) c t t5).
  { unfold t5. apply (frameN_trans _ _ _ (nb t)); [apply frameN_nb|].
    apply (frameN_trans _ _ _ (add_edge c header (nb t))); [apply frameN_ae; left; reflexivity|].
    apply (frameN_trans _ _ _ (nb (add_edge c header (nb t)))); [apply frameN_nb|].
    apply (frameN_trans _ _ _ (add_edge header bodyb (nb (add_edge c header (nb t)))));
      [apply frameN_ae; right; unfold header; lia | apply frameN_nb]. }
  assert (N5 : nblk t5 = S (S (S (nblk t)))) by (unfold t5; stp; reflexivity).
  destruct W as [W1 W2].
  unfold t7. destruct lt.
  - split; [stp; exact N5|]. split; [unfold t5; stp; reflexivity|]. split; [unfold t5; stp; reflexivity|].
    split; [apply wf_sf; exact W5|]. split; [eapply frameN_trans; [exact F5 | apply frameN_sf]|].
    split; [|split; [|split]].
    + intros x y H. unfold t5 in H. stp. in_edges H; try (unfold header; lia). apply W1 in H. lia.
    + unfold t5. stp. in_solve.
    + unfold t5. stp. in_solve.
    + discriminate.
  - split; [stp; exact N5|]. split; [unfold t5; stp; reflexivity|]. split; [unfold t5; stp; reflexivity|].
    split; [apply wf_sf; apply wf_ae; [exact W5 | rewrite N5; unfold header; lia]|].
    split; [eapply frameN_trans; [exact F5|]; apply (frameN_trans _ _ _ (add_edge header after t5)); [apply frameN_ae; right; unfold header; lia | apply frameN_sf]|].
    split; [|split; [|split]].
    + intros x y H. unfold t5 in H. stp. in_edges H; try (unfold header; lia). apply W1 in H. lia.
    + unfold t5. stp. in_solve.
    + unfold t5. stp. in_solve.
    + intros _. unfold t5. stp. in_solve.
Qed.

Lemma case_while lt body : P_block body -> P_stmt (SWhile lt body).
Proof.
  intros IH t c L t' r H Pre. rewrite build_while_eq in H. cbv zeta in H.
  destruct Pre as (W & C & Pre3). 
  destruct (loop_prefix lt t c W C) as (N7 & R7 & O7 & W7 & F07 & Src & Ech & Ehb & Eha).
  cbv zeta in *.
  set (t6 := if lt then _ else _) in *.
  destruct (build_block body (set_flags false false t6) (S (S (nblk t))) (Some (S (S (S (nblk t))), S (nblk t))))
    as [t8 ab] eqn:Hb.
  inversion H; subst t' r; clear H.
  assert (Inv : build_inv t c L
     (if negb (lbrk t8) && negb (lret t8) && lt
      then diag_infloop (set_flags (lbrk t6) (lret t6) (edge_from ab (S (nblk t)) t8))
      else set_flags (lbrk t6) (lret t6) (edge_from ab (S (nblk t)) t8))
     (Some (S (S (S (nblk t))))) (run_loop lt body)).
  { apply (loop_core lt body t c L (set_flags false false t6) t8 ab); auto.
    - split; [exact W | split; [exact C | exact Pre3]].
    - destruct (negb (lbrk t8) && negb (lret t8) && lt); unfold same; stp; auto. }
  destruct Inv as [P Cl]. split; [exact P|]. intros o Ho. apply Cl. apply run_while_inv. exact Ho.
Qed.

Lemma case_for body : P_block body -> P_stmt (SFor body).
Proof.
  intros IH t c L t' r H Pre. rewrite build_for_eq in H. cbv zeta in H.
  destruct Pre as (W & C & Pre3).
  destruct (loop_prefix false t c W C) as (N7 & R7 & O7 & W7 & F07 & Src & Ech & Ehb & Eha).
  cbv zeta in *. cbv iota in *.
  set (t6 := add_edge _ _ _) in *.
  destruct (build_block body (set_flags false false t6) (S (S (nblk t))) (Some (S (S (S (nblk t))), S (nblk t))))
    as [t8 ab] eqn:Hb.
  inversion H; subst t' r; clear H.
  assert (Inv : build_inv t c L (set_flags (lbrk t6) (lret t6) (edge_from ab (S (nblk t)) t8))
     (Some (S (S (S (nblk t))))) (run_loop false body)).
  { apply (loop_core false body t c L (set_flags false false t6) t8 ab); auto.
    - split; [exact W | split; [exact C | exact Pre3]].
    - unfold same; stp; auto. }
  destruct Inv as [P Cl]. split; [exact P|]. intros o Ho. apply Cl. apply run_for_inv. exact Ho.
Qed.

(* ------------------------------------------------------------------ the induction over the builder *)
Scheme stmt_bi := Induction for stmt Sort Prop
  with block_bi := Induction for block Sort Prop
  with ifs_bi := Induction for ifs Sort Prop
  with els_bi := Induction for els Sort Prop
  with arms_bi := Induction for arms Sort Prop.
Combined Scheme build_mutind from stmt_bi, block_bi, ifs_bi, els_bi, arms_bi.

Theorem build_invariant :
  (forall s, P_stmt s) /\ (forall b, P_block b) /\ (forall i, P_ifs i) /\ (forall e, P_els e) /\ (forall a, P_arms a).
Proof.
  apply build_mutind.
  - exact case_simple.
  - exact case_return.
  - exact case_break.
  - exact case_continue.
  - exact case_sif.
  - exact case_while.
  - exact case_for.
  - exact case_match.
  - exact case_sblock.
  - exact case_nil.
  - intros s Hs b Hb. exact (case_cons s b Hs Hb).
  - intros t Ht e He. exact (case_ifs t e Ht He).
  - exact case_enone.
  - exact case_eblock.
  - exact case_eif.
  - exact case_anil.
  - intros d b Hb a Ha. exact (case_acons d b a Hb Ha).
Qed.

Lemma pre_st0 : pre st0 ENTRY None.
Proof.
  split; [split; simpl; intros; contradiction|]. split; [simpl; unfold ENTRY; lia|].
  split; [intros [y []]|]. split; [intros []|exact I].
Qed.

Lemma function_inv body :
  let '(t, cur) := build_block body st0 ENTRY None in build_inv st0 ENTRY None t cur (run_block body).
Proof.
  destruct (build_block body st0 ENTRY None) as [t cur] eqn:H.
  exact (proj1 (proj2 build_invariant) body _ _ _ _ _ H pre_st0).
Qed.

(* every run that falls off the end of the body is a return-free path entry ->* exit of the built graph *)
Theorem graph_covers_falling_runs body :
  run_block body ONormal -> path (build_function body) ENTRY EXIT.
Proof.
  intros Hr. unfold build_function. assert (Inv := function_inv body).
  destruct (build_block body st0 ENTRY None) as [t cur]. destruct Inv as [(F & W & Res) Cl].
  destruct (Cl _ Hr) as (d & Ed & Pd). subst cur. simpl in *.
  destruct Res as (_ & _ & _ & Hd).
  eapply path_trans; [eapply path_ext; [apply ext_ae | exact Pd]|].
  apply path_edge; [stp; exact Hd | stp; apply in_last].
Qed.

(* a break / continue that escapes the body was diagnosed *)
Theorem escaping_jump_diagnosed body o :
  run_block body o -> o = OBreak \/ o = OContinue -> 0 < n_outside (build_function body).
Proof.
  intros Hr Ho. unfold build_function. assert (Inv := function_inv body).
  destruct (build_block body st0 ENTRY None) as [t cur]. destruct Inv as [_ Cl].
  specialize (Cl _ Hr). destruct Ho; subst o; simpl in Cl; stp; lia.
Qed.
