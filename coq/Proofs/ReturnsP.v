(* C05 — lemmas about Models/Returns.v *)
From Coq Require Import List Bool Arith Lia.
From FV Require Import Models.Returns.
Import ListNotations.

Definition ex_body : block :=
  BCons (SIf (IfS (BCons (SReturn true) BNil) ENone))
  (BCons (SMatch (ACons false (BCons (SReturn true) BNil) (ACons true (BCons (SReturn true) BNil) ANil))) BNil).

Lemma nonvacuous_accept : accepted PFunc ex_body = true /\ accepted PFuncLit ex_body = true.
Proof. vm_compute. auto. Qed.
