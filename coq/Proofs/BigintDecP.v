(* C16 — number -> decimal text: ferret_div_small_limbs and the digit loop of ferret_limbs_to_decimal. *)
From Coq Require Import ZArith List Bool Lia.
From FV Require Import Models.Bigint Proofs.BigintP Proofs.BigintMulP.
Import ListNotations.
Open Scope Z_scope.

Lemma is_zero_spec v : limbs_ok v -> is_zero v = (value v =? 0).
Proof.
  induction v as [|x v IH]; intros H; cbn [is_zero value]; [reflexivity|].
  apply limbs_ok_cons in H. destruct H as [Hx Hv]. unfold limb_ok in Hx.
  pose proof (value_bound v Hv). pose proof B_pos.
  destruct (Z.eqb_spec x 0).
  - rewrite (IH Hv). subst x. destruct (Z.eqb_spec (value v) 0); destruct (Z.eqb_spec (0 + B * value v) 0); auto; nia.
  - destruct (Z.eqb_spec (x + B * value v) 0); auto. nia.
Qed.

Lemma div_small_spec : forall v d, 0 < d <= B -> limbs_ok v ->
  value (fst (div_small v d)) * d + snd (div_small v d) = value v /\
  0 <= snd (div_small v d) < d /\ limbs_ok (fst (div_small v d)) /\ length (fst (div_small v d)) = length v.
Proof.
  induction v as [|x v IH]; intros d Hd H.
  - cbn [div_small fst snd value length]. repeat split; try lia. apply limbs_ok_nil.
  - apply limbs_ok_cons in H. destruct H as [Hx Hv]. unfold limb_ok in Hx.
    destruct (IH d Hd Hv) as (E & R & O & L).
    cbn [div_small]. destruct (div_small v d) as [qt rem]. cbn [fst snd] in *.
    pose proof B_pos as BP. set (acc := rem * B + x).
    assert (A0 : 0 <= acc) by (subst acc; nia).
    assert (A1 : acc < d * B) by (subst acc; nia).
    pose proof (Z.div_mod acc d ltac:(lia)) as DM.
    pose proof (Z.mod_pos_bound acc d ltac:(lia)) as MB.
    assert (Q0 : 0 <= acc / d < B).
    { split; [apply Z.div_pos; lia | apply Z.div_lt_upper_bound; lia]. }
    rewrite (Z.mod_small (acc / d) B Q0).
    cbn [value length]. repeat split; try lia.
    apply limbs_ok_cons. split; [exact Q0 | exact O].
Qed.

Lemma digit_value_dec r : 0 <= r < 10 -> digit_value (48 + r) = r /\ (48 + r =? 95) = false.
Proof.
  intros H. unfold digit_value.
  replace ((48 <=? 48 + r) && (48 + r <=? 57)) with true
    by (symmetry; apply andb_true_iff; split; apply Z.leb_le; lia).
  split; [lia | apply Z.eqb_neq; lia].
Qed.

(* the finished string is the digits of `work` followed by the digits already in `acc` *)
Lemma to_decimal_go_spec : forall fuel work acc s, limbs_ok work -> all_digits 10 acc ->
  to_decimal_go fuel work acc = Some s -> num 10 s 0 = num 10 acc (value work) /\ all_digits 10 s.
Proof.
  induction fuel as [|f IH]; intros work acc s Hw Ha E; cbn [to_decimal_go] in E;
    rewrite (is_zero_spec work Hw) in E; destruct (Z.eqb_spec (value work) 0) as [Z0|NZ].
  - injection E as <-. rewrite Z0. auto.
  - discriminate.
  - injection E as <-. rewrite Z0. auto.
  - destruct (div_small_spec work 10 ltac:(rewrite B_eq; lia) Hw) as (D & R & O & L).
    destruct (div_small work 10) as [q r]. cbn [fst snd] in *.
    destruct (digit_value_dec r R) as [DV NE].
    assert (Ha' : all_digits 10 ((48 + r) :: acc)).
    { constructor; [right; rewrite DV; exact R | exact Ha]. }
    destruct (IH q ((48 + r) :: acc) s O Ha' E) as [N A]. split; [| exact A].
    rewrite N. cbn [num]. rewrite NE, DV, D. reflexivity.
Qed.

Lemma to_decimal_go_total : forall fuel work acc, limbs_ok work -> value work < 10 ^ Z.of_nat fuel ->
  exists s, to_decimal_go fuel work acc = Some s.
Proof.
  induction fuel as [|f IH]; intros work acc Hw Hb; cbn [to_decimal_go];
    rewrite (is_zero_spec work Hw); destruct (Z.eqb_spec (value work) 0) as [Z0|NZ]; try (eexists; reflexivity).
  - exfalso. pose proof (value_bound work Hw). change (10 ^ Z.of_nat 0) with 1 in Hb. lia.
  - destruct (div_small_spec work 10 ltac:(rewrite B_eq; lia) Hw) as (D & R & O & L).
    destruct (div_small work 10) as [q r]. cbn [fst snd] in *.
    apply IH; [exact O|].
    rewrite Nat2Z.inj_succ, Z.pow_succ_r in Hb by lia. lia.
Qed.

Lemma modulus_le_4 n : (n <= 4)%nat -> modulus n <= 10 ^ 80.
Proof.
  intros H.
  assert (M : forall k, modulus k = 18446744073709551616 ^ Z.of_nat k).
  { induction k as [|k IHk]; [reflexivity|]. rewrite modulus_S, IHk, B_eq, Nat2Z.inj_succ, Z.pow_succ_r by lia. reflexivity. }
  rewrite M.
  destruct n as [|[|[|[|[|n]]]]]; try lia; vm_compute; discriminate.
Qed.

(* ferret_limbs_to_decimal for at most four limbs: stays inside digits[80] and denotes the number *)
Lemma to_decimal_correct v : limbs_ok v -> (length v <= 4)%nat ->
  exists s, to_decimal v = Some s /\ all_digits 10 s /\ num 10 s 0 = value v.
Proof.
  intros Hv L. unfold to_decimal. rewrite (is_zero_spec v Hv).
  destruct (Z.eqb_spec (value v) 0) as [Z0|NZ].
  - exists [48]. split; [reflexivity|]. split.
    + constructor; [right; vm_compute; split; [discriminate | reflexivity] | constructor].
    + rewrite Z0. reflexivity.
  - pose proof (value_bound v Hv). pose proof (modulus_le_4 (length v) L).
    destruct (to_decimal_go_total 80 v [] Hv ltac:(change (Z.of_nat 80) with 80; lia)) as [s E].
    exists s. split; [exact E|].
    destruct (to_decimal_go_spec 80 v [] s Hv ltac:(constructor) E) as [N A].
    split; [exact A | exact N].
Qed.
