(* C15 — lemmas about the port Models/DepGraph.v: DFS correctness (hasCyclePath with visited set, fuel),
   acyclicity invariant of AddDependency, rejection of every cyclic call sequence, acceptance of every DAG. *)
From Coq Require Import List Arith Bool ZArith Lia Permutation.
Import ListNotations.
From FV Require Import Models.DepGraph.

(* ------------------------------------------------------------------ basics *)

Lemma mem_In x l : mem x l = true <-> In x l.
Proof.
  unfold mem. rewrite existsb_exists. split.
  - intros [y [Hy He]]. apply Nat.eqb_eq in He. subst. exact Hy.
  - intros H. exists x. split; [exact H | apply Nat.eqb_refl].
Qed.

Lemma mem_false x l : mem x l = false <-> ~ In x l.
Proof.
  rewrite <- mem_In. destruct (mem x l); split; intro H; congruence.
Qed.

Lemma succs_In g u y : In y (succs g u) <-> In (u, y) g.
Proof.
  induction g as [|[a b] g IH]; simpl; [tauto|].
  destruct (Nat.eqb_spec a u) as [->|Hn]; simpl; rewrite IH; split.
  - intros [->|H]; [left; reflexivity | right; exact H].
  - intros [H|H]; [inversion H; left; reflexivity | right; exact H].
  - intros H; right; exact H.
  - intros [H|H]; [inversion H; congruence | exact H].
Qed.

Lemma succs_app g h u : succs (g ++ h) u = succs g u ++ succs h u.
Proof.
  induction g as [|[a b] g IH]; simpl; [reflexivity|].
  destruct (Nat.eqb a u); simpl; rewrite IH; reflexivity.
Qed.

Lemma reach_trans g x y z : reach g x y -> reach g y z -> reach g x z.
Proof.
  induction 1; intros; [assumption|]. eapply reach_step; eauto.
Qed.

Lemma reach_edge g x y : edge g x y -> reach g x y.
Proof. intros. eapply reach_step; [eassumption | apply reach_refl]. Qed.

Lemma reach_incl g h x y : incl g h -> reach g x y -> reach h x y.
Proof.
  intros Hi. induction 1; [apply reach_refl|].
  eapply reach_step; [apply Hi; eassumption | assumption].
Qed.

Lemma cyclic_incl g h : incl g h -> cyclic g -> cyclic h.
Proof.
  intros Hi (x & y & He & Hr). exists x, y. split; [apply Hi; exact He | eapply reach_incl; eauto].
Qed.

(* ------------------------------------------------------------------ the measure: unvisited nodes of N *)

Definition unv (N vis : list node) : nat := length (filter (fun x => negb (mem x vis)) N).

Lemma filter_len_le {A} (f : A -> bool) l : length (filter f l) <= length l.
Proof. induction l as [|a l IH]; simpl; [lia|]. destruct (f a); simpl; lia. Qed.

Lemma unv_le N v v' : (forall x, In x v -> In x v') -> unv N v' <= unv N v.
Proof.
  intros Hs. unfold unv. induction N as [|a N IH]; simpl; [lia|].
  destruct (mem a v) eqn:Ev; destruct (mem a v') eqn:Ev'; simpl; try lia.
  apply mem_In in Ev. apply Hs in Ev. apply mem_In in Ev. congruence.
Qed.

Lemma mem_cons_ne a s v : a <> s -> mem a (s :: v) = mem a v.
Proof. intros H. unfold mem. simpl. destruct (Nat.eqb_spec a s); [congruence | reflexivity]. Qed.

Lemma mem_cons_eq s v : mem s (s :: v) = true.
Proof. apply mem_In. left. reflexivity. Qed.

Lemma unv_cons a N v : unv (a :: N) v = (if mem a v then 0 else 1) + unv N v.
Proof. unfold unv. simpl. destruct (mem a v); reflexivity. Qed.

Lemma unv_lt N v s : In s N -> mem s v = false -> unv N (s :: v) < unv N v.
Proof.
  intros Hin Hm. induction N as [|a N IH]; [destruct Hin|].
  assert (Hle : unv N (s :: v) <= unv N v) by (apply unv_le; intros; right; assumption).
  rewrite !unv_cons.
  destruct (Nat.eq_dec a s) as [->|Hne].
  - rewrite Hm, mem_cons_eq. lia.
  - destruct Hin as [->|Hin]; [congruence|]. specialize (IH Hin).
    rewrite (mem_cons_ne a s v Hne). destruct (mem a v); lia.
Qed.

(* ------------------------------------------------------------------ dfs_loop *)

Lemma dfs_loop_some rec deps vis p v' :
  dfs_loop rec deps vis = (Some p, v') ->
  exists d v0, In d deps /\ rec d v0 = (Some p, v').
Proof.
  revert vis. induction deps as [|d ds IH]; simpl; intros vis H; [discriminate|].
  destruct (rec d vis) as [[q|] v1] eqn:E.
  - inversion H; subst. exists d, vis. split; [left; reflexivity | exact E].
  - destruct (IH _ H) as (d' & v0 & Hin & Hr). exists d', v0. split; [right; exact Hin | exact Hr].
Qed.

(* ------------------------------------------------------------------ soundness: Some -> reachable *)

Lemma hcp_sound g t : forall fuel s vis path p v',
  has_cycle_path fuel g t s vis path = (Some p, v') -> reach g s t.
Proof.
  induction fuel as [|f IH]; simpl; intros s vis path p v' H; [discriminate|].
  destruct (Nat.eqb_spec s t) as [->|Hne]; [apply reach_refl|].
  destruct (mem s vis); [discriminate|].
  apply dfs_loop_some in H. destruct H as (d & v0 & Hin & Hr).
  apply IH in Hr. apply succs_In in Hin. eapply reach_step; eauto.
Qed.

(* ------------------------------------------------------------------ completeness: None -> not reachable *)

(* what a failed exploration guarantees about the visited set *)
Definition post (g : graph) (t : node) (vis vis' : list node) : Prop :=
  incl vis vis' /\
  forall x, In x vis' -> ~ In x vis -> x <> t /\ forall y, In y (succs g x) -> In y vis'.

Lemma post_refl g t v : post g t v v.
Proof. split; [apply incl_refl | intros x H1 H2; contradiction]. Qed.

Lemma post_trans g t a b c : post g t a b -> post g t b c -> post g t a c.
Proof.
  intros [I1 P1] [I2 P2]. split; [eapply incl_tran; eauto|].
  intros x Hc Ha. destruct (in_dec Nat.eq_dec x b) as [Hb|Hb].
  - destruct (P1 x Hb Ha) as [Hn Hs]. split; [exact Hn | intros y Hy; apply I2; apply Hs; exact Hy].
  - apply P2; assumption.
Qed.

Lemma hcp_none g t N :
  (forall x y, In y (succs g x) -> In y N) ->
  forall fuel s vis path v',
    unv N vis < fuel -> In s N ->
    has_cycle_path fuel g t s vis path = (None, v') ->
    s <> t /\ In s v' /\ post g t vis v'.
Proof.
  intros HN. induction fuel as [|f IH]; intros s vis path v' Hf Hs H; [lia|].
  simpl in H.
  destruct (Nat.eqb_spec s t) as [->|Hne]; [discriminate|].
  destruct (mem s vis) eqn:Em.
  - inversion H; subst. split; [exact Hne|]. split; [apply mem_In; exact Em | apply post_refl].
  - assert (Hlt : unv N (s :: vis) < f) by (pose proof (unv_lt N vis s Hs Em); lia).
    (* the loop over the successors *)
    assert (Hloop : forall deps vc,
               (forall d, In d deps -> In d N) -> unv N vc < f ->
               dfs_loop (fun d v => has_cycle_path f g t d v (path ++ [s])) deps vc = (None, v') ->
               post g t vc v' /\ forall d, In d deps -> In d v').
    { clear H Hlt. induction deps as [|d ds IHd]; intros vc Hd Hu Hl.
      - simpl in Hl. inversion Hl; subst. split; [apply post_refl | intros d []].
      - simpl in Hl.
        destruct (has_cycle_path f g t d vc (path ++ [s])) as [[q|] v1] eqn:E; [discriminate|].
        destruct (IH d vc (path ++ [s]) v1 Hu (Hd d (or_introl eq_refl)) E) as (Hdt & Hdin & Hp1).
        assert (Hu1 : unv N v1 < f).
        { pose proof (unv_le N vc v1 (proj1 Hp1)). lia. }
        destruct (IHd v1 (fun d' H' => Hd d' (or_intror H')) Hu1 Hl) as [Hp2 Hall].
        split; [eapply post_trans; eauto|].
        intros d' [<-|Hin]; [apply (proj1 Hp2); exact Hdin | apply Hall; exact Hin]. }
    destruct (Hloop (succs g s) (s :: vis) (fun d Hd => HN s d Hd) Hlt H) as [[Hi Hp] Hall].
    split; [exact Hne|]. split; [apply Hi; left; reflexivity|].
    split; [intros x Hx; apply Hi; right; exact Hx|].
    intros x Hx Hnv. destruct (Nat.eq_dec x s) as [->|Hxs].
    + split; [exact Hne | exact Hall].
    + apply Hp; [exact Hx|]. intros [Heq|Hin]; [congruence | contradiction].
Qed.

Lemma closed_reach g (S : list node) x y :
  (forall a, In a S -> forall b, In b (succs g a) -> In b S) ->
  reach g x y -> In x S -> In y S.
Proof.
  intros Hc. induction 1; intros Hx; [exact Hx|].
  apply IHreach. eapply Hc; [exact Hx | apply succs_In; exact H].
Qed.

Lemma hcp_complete g t s path v' :
  has_cycle_path (dfs_fuel g) g t s [] path = (None, v') -> ~ reach g s t.
Proof.
  intros H Hr.
  assert (HN : forall x y, In y (succs g x) -> In y (s :: map snd g)).
  { intros x y Hy. right. apply succs_In in Hy. apply (in_map snd) in Hy. exact Hy. }
  assert (Hf : unv (s :: map snd g) [] < dfs_fuel g).
  { unfold unv, dfs_fuel.
    eapply Nat.le_lt_trans; [apply filter_len_le|]. simpl. rewrite map_length. lia. }
  destruct (hcp_none g t _ HN _ s [] path v' Hf (or_introl eq_refl) H) as (Hne & Hin & _ & Hp).
  assert (Ht : In t v').
  { eapply closed_reach; [| exact Hr | exact Hin].
    intros a Ha b Hb. exact (proj2 (Hp a Ha (fun F => F)) b Hb). }
  exact (proj1 (Hp t Ht (fun F => F)) eq_refl).
Qed.
