(* Word-level arithmetic facts behind instruction selection: congruences, the representation invariant,
   the normalising sequences, division and comparison on canonical registers. All parametric in the operand values. *)
From Coq Require Import ZArith List Bool Lia Znumtheory.
From FV Require Import Core.Syntax Core.Sem Proofs.CoreArith Models.Qbe Models.WasmSem Models.ISel.
Import ListNotations.
Local Open Scope Z_scope.

Definition eqm (m x y : Z) : Prop := x mod m = y mod m.

Lemma eqm_refl m x : eqm m x x. Proof. reflexivity. Qed.
Lemma eqm_sym m x y : eqm m x y -> eqm m y x. Proof. unfold eqm; congruence. Qed.
Lemma eqm_trans m x y z : eqm m x y -> eqm m y z -> eqm m x z. Proof. unfold eqm; congruence. Qed.
Lemma eqm_add m x x' y y' : eqm m x x' -> eqm m y y' -> eqm m (x + y) (x' + y').
Proof. unfold eqm. intros H1 H2. rewrite (Zplus_mod x y), (Zplus_mod x' y'), H1, H2. reflexivity. Qed.
Lemma eqm_sub m x x' y y' : eqm m x x' -> eqm m y y' -> eqm m (x - y) (x' - y').
Proof. unfold eqm. intros H1 H2. rewrite (Zminus_mod x y), (Zminus_mod x' y'), H1, H2. reflexivity. Qed.
Lemma eqm_mul m x x' y y' : eqm m x x' -> eqm m y y' -> eqm m (x * y) (x' * y').
Proof. unfold eqm. intros H1 H2. rewrite (Zmult_mod x y), (Zmult_mod x' y'), H1, H2. reflexivity. Qed.
Lemma eqm_mod m M x : 0 < m -> 0 < M -> (m | M) -> eqm m (x mod M) x.
Proof. intros Hm HM Hd. unfold eqm. symmetry. apply Zmod_div_mod; assumption. Qed.
Lemma eqm_weaken m M x y : 0 < m -> 0 < M -> (m | M) -> eqm M x y -> eqm m x y.
Proof.
  intros Hm HM Hd H. unfold eqm in *. rewrite (Zmod_div_mod m M x), (Zmod_div_mod m M y) by assumption.
  rewrite H. reflexivity.
Qed.

Lemma wrap_eqm t x y : eqm (2 ^ bits t) x y -> wrap t x = wrap t y.
Proof.
  intros H. apply wrap_unique; [apply wrap_in_range|].
  pose proof (wrap_congruent t y) as Hc. unfold eqm in H.
  rewrite Zminus_mod, H, <- Zminus_mod. exact Hc.
Qed.

(* ------------------------------------------------------------------ numeric facts about the eight types *)

Lemma cmod_pos c : 0 < cmod c.
Proof. destruct c; reflexivity. Qed.
Lemma tmod_pos t : 0 < 2 ^ bits t.
Proof. destruct t; reflexivity. Qed.
Lemma tmod_divides t : (2 ^ bits t | cmod (tcls t)).
Proof. destruct t; cbn; [exists (2^24)|exists (2^16)|exists 1|exists 1|exists (2^24)|exists (2^16)|exists 1|exists 1]; reflexivity. Qed.
Lemma tmod_divides_W t : (2 ^ bits t | cmod W) \/ tcls t = L.
Proof. destruct t; cbn; [left; exists (2^24)|left; exists (2^16)|left; exists 1|right; reflexivity
                        |left; exists (2^24)|left; exists (2^16)|left; exists 1|right; reflexivity]; reflexivity. Qed.

Lemma range_signed t : signed t = true -> - (cmod (tcls t) / 2) <= tmin t /\ tmax t < cmod (tcls t) / 2.
Proof. destruct t; cbn; intros H; try discriminate; split; vm_compute; congruence. Qed.
Lemma range_unsigned t : signed t = false -> tmin t = 0 /\ tmax t < cmod (tcls t).
Proof. destruct t; cbn; intros H; try discriminate; split; vm_compute; congruence. Qed.
Lemma range_full_signed t : signed t = true -> subword t = false -> tmin t = - (cmod (tcls t) / 2).
Proof. destruct t; cbn; intros H1 H2; try discriminate; reflexivity. Qed.
Lemma range_sub_signed t : subword t = true -> - (cmod (tcls t) / 2) < tmin t /\ tcls t = W.
Proof. destruct t; cbn; intros H; try discriminate; split; reflexivity. Qed.
Lemma full_bits t : subword t = false -> 2 ^ bits t = cmod (tcls t).
Proof. destruct t; cbn; intros H; try discriminate; reflexivity. Qed.
Lemma tmin_le_tmax t : tmin t <= 0 <= tmax t.
Proof. destruct t; vm_compute; split; congruence. Qed.

Lemma sgn_mod c a : - (cmod c / 2) <= a < cmod c / 2 -> sgn c (a mod cmod c) = a.
Proof.
  unfold sgn. destruct c; unfold cmod, cbits.
  - change (2 ^ 32) with 4294967296. change (4294967296 / 2) with 2147483648. intros H.
    destruct (Z.ltb_spec (a mod 4294967296) 2147483648); Z.div_mod_to_equations; lia.
  - change (2 ^ 64) with 18446744073709551616. change (18446744073709551616 / 2) with 9223372036854775808. intros H.
    destruct (Z.ltb_spec (a mod 18446744073709551616) 9223372036854775808); Z.div_mod_to_equations; lia.
Qed.

(* ------------------------------------------------------------------ the representation invariant *)

Lemma canon_range t r : canon t r -> 0 <= r < cmod (tcls t).
Proof. intros [H _]. exact H. Qed.
Lemma canon_enc t r : canon t r -> r = denote t r mod cmod (tcls t).
Proof. intros [_ H]. symmetry. exact H. Qed.
Lemma canon_in_range t r : tmin t <= denote t r <= tmax t.
Proof. apply wrap_in_range. Qed.
Lemma canon_eqm t r : canon t r -> eqm (2 ^ bits t) r (denote t r).
Proof. intros H. unfold denote. apply eqm_sym. unfold eqm. pose proof (wrap_congruent t r) as Hc.
  pose proof (tmod_pos t). apply Z.mod_divide in Hc; [|lia]. destruct Hc as [k Hk].
  replace (wrap t r) with (r + k * 2 ^ bits t) by lia. apply Z_mod_plus_full. Qed.
Lemma canon_eqmM t r : canon t r -> eqm (cmod (tcls t)) r (denote t r).
Proof. intros H. unfold eqm. rewrite (canon_enc t r H) at 1. apply Z.mod_mod. pose proof (cmod_pos (tcls t)). lia. Qed.

Lemma canon_signed t r : signed t = true -> canon t r -> sgn (tcls t) r = denote t r.
Proof.
  intros Hs H. rewrite (canon_enc t r H) at 1. apply sgn_mod.
  pose proof (range_signed t Hs). pose proof (canon_in_range t r). lia.
Qed.
Lemma canon_unsigned t r : signed t = false -> canon t r -> r = denote t r.
Proof.
  intros Hs H. rewrite (canon_enc t r H) at 1. apply Z.mod_small.
  pose proof (range_unsigned t Hs). pose proof (canon_in_range t r). lia.
Qed.

Lemma canon_encode t v : tmin t <= v <= tmax t -> canon t (encode t v) /\ denote t (encode t v) = v.
Proof.
  intros Hv. unfold encode, denote.
  assert (Hw : wrap t (v mod cmod (tcls t)) = v).
  { rewrite <- (wrap_id t v Hv) at 2. apply wrap_eqm. apply eqm_mod; [apply tmod_pos|apply cmod_pos|apply tmod_divides]. }
  split; [|exact Hw]. split; [apply Z.mod_pos_bound, cmod_pos|]. rewrite Hw. reflexivity.
Qed.

Lemma canon_full t x : subword t = false -> 0 <= x < cmod (tcls t) -> canon t x.
Proof.
  intros Hf Hx. split; [exact Hx|].
  pose proof (wrap_congruent t x) as Hc. rewrite (full_bits t Hf) in Hc.
  pose proof (cmod_pos (tcls t)) as HM.
  apply Z.mod_divide in Hc; [|lia]. destruct Hc as [k Hk].
  replace (wrap t x) with (x + k * cmod (tcls t)) by lia. rewrite Z_mod_plus_full. apply Z.mod_small. exact Hx.
Qed.

Lemma canon_inj t r1 r2 : canon t r1 -> canon t r2 -> denote t r1 = denote t r2 -> r1 = r2.
Proof. intros H1 H2 E. rewrite (canon_enc t r1 H1), (canon_enc t r2 H2), E. reflexivity. Qed.

(* a result congruent to the mathematical value modulo the type's width denotes its wrap *)
Lemma finish_wrap t x y : eqm (2 ^ bits t) x y -> wrap t x = wrap t y.
Proof. apply wrap_eqm. Qed.

(* ring operations: the machine result is congruent to the operation on the denoted values *)
Lemma ring_sound t (f : Z -> Z -> Z) ra rb :
  (forall m x x' y y', eqm m x x' -> eqm m y y' -> eqm m (f x y) (f x' y')) ->
  canon t ra -> canon t rb ->
  let x := f ra rb mod cmod (tcls t) in
  0 <= x < cmod (tcls t) /\ wrap t x = wrap t (f (denote t ra) (denote t rb)) /\ (subword t = false -> canon t x).
Proof.
  intros Hf Ha Hb x. assert (Hx : 0 <= x < cmod (tcls t)) by (apply Z.mod_pos_bound, cmod_pos).
  split; [exact Hx|]. split.
  - apply wrap_eqm. eapply eqm_trans.
    + apply eqm_mod; [apply tmod_pos|apply cmod_pos|apply tmod_divides].
    + apply Hf; apply canon_eqm; assumption.
  - intros Hs. apply canon_full; assumption.
Qed.

(* ------------------------------------------------------------------ normalising sequences (w class) *)

Ltac consts :=
  unfold sem_bop, sem_uop, sgn, sx; cbv [encode wrap tcls bits signed Z.eqb Pos.eqb cmod cbits];
  change (2 ^ 32) with 4294967296 in *; change (2 ^ 8) with 256 in *; change (2 ^ 16) with 65536 in *;
  change (2 ^ (8 - 1)) with 128 in *; change (2 ^ (16 - 1)) with 32768 in *;
  change (256 / 2) with 128 in *; change (65536 / 2) with 32768 in *;
  change (4294967296 / 2) with 2147483648 in *.

Lemma norm_shl_sar_8 x : 0 <= x < cmod W ->
  exists y, sem_bop W Oshl x (24 mod cmod W) = Some y /\ sem_bop W Oshrs y (24 mod cmod W) = Some (encode I8 (wrap I8 x)).
Proof.
  intros H. eexists. split; [reflexivity|]. revert H. consts.
  change (24 mod 4294967296) with 24. change (24 mod 32) with 24. change (2 ^ 24) with 16777216. intros H.
  f_equal. destruct (Z.ltb_spec ((x * 16777216) mod 4294967296) 2147483648); Z.div_mod_to_equations; lia.
Qed.
Lemma norm_shl_sar_16 x : 0 <= x < cmod W ->
  exists y, sem_bop W Oshl x (16 mod cmod W) = Some y /\ sem_bop W Oshrs y (16 mod cmod W) = Some (encode I16 (wrap I16 x)).
Proof.
  intros H. eexists. split; [reflexivity|]. revert H. consts.
  change (16 mod 4294967296) with 16. change (16 mod 32) with 16. change (2 ^ 16) with 65536. intros H.
  f_equal. destruct (Z.ltb_spec ((x * 65536) mod 4294967296) 2147483648); Z.div_mod_to_equations; lia.
Qed.
Lemma norm_ext8s x : 0 <= x < cmod W -> sem_uop Uext8s x = encode I8 (wrap I8 x).
Proof. consts. intros H. destruct (Z.ltb_spec (x mod 256) 128); Z.div_mod_to_equations; lia. Qed.
Lemma norm_ext16s x : 0 <= x < cmod W -> sem_uop Uext16s x = encode I16 (wrap I16 x).
Proof. consts. intros H. destruct (Z.ltb_spec (x mod 65536) 32768); Z.div_mod_to_equations; lia. Qed.
Lemma norm_and_8 x : 0 <= x < cmod W -> Z.land x (255 mod cmod W) = encode U8 (wrap U8 x).
Proof.
  intros H. change (255 mod cmod W) with (Z.ones 8). rewrite Z.land_ones by lia. revert H. consts. intros H.
  Z.div_mod_to_equations; lia.
Qed.
Lemma norm_and_16 x : 0 <= x < cmod W -> Z.land x (65535 mod cmod W) = encode U16 (wrap U16 x).
Proof.
  intros H. change (65535 mod cmod W) with (Z.ones 16). rewrite Z.land_ones by lia. revert H. consts. intros H.
  Z.div_mod_to_equations; lia.
Qed.
Lemma norm_ext8u x : 0 <= x < cmod W -> sem_uop Uext8u x = encode U8 (wrap U8 x).
Proof. consts. intros H. Z.div_mod_to_equations; lia. Qed.
Lemma norm_ext16u x : 0 <= x < cmod W -> sem_uop Uext16u x = encode U16 (wrap U16 x).
Proof. consts. intros H. Z.div_mod_to_equations; lia. Qed.

(* ------------------------------------------------------------------ division and remainder *)

(* arith Div / Mod is defined iff the divisor is non-zero and the machine division does not fault
   (div_traps: MIN / -1 at the 32- and 64-bit signed types); the result is the wrapped truncating quotient / remainder *)
Lemma arith_div_inv t a b v : arith Div t a b = Some v ->
  b <> 0 /\ div_traps t a b = false /\ v = wrap t (Z.quot a b).
Proof.
  cbn [arith]. destruct ((b =? 0) || div_traps t a b) eqn:E; [discriminate|]. intros H. inversion H.
  apply orb_false_iff in E as [E1 E2]. apply Z.eqb_neq in E1. auto.
Qed.
Lemma arith_mod_inv t a b v : arith Mod t a b = Some v ->
  b <> 0 /\ div_traps t a b = false /\ v = wrap t (Z.rem a b).
Proof.
  cbn [arith]. destruct ((b =? 0) || div_traps t a b) eqn:E; [discriminate|]. intros H. inversion H.
  apply orb_false_iff in E as [E1 E2]. apply Z.eqb_neq in E1. auto.
Qed.

Lemma full_bits32 t : subword t = false -> (32 <=? bits t) = true.
Proof. destruct t; cbn; congruence. Qed.
Lemma signed_sym t : signed t = true -> tmax t = - tmin t - 1.
Proof. destruct t; cbn; intros H; try discriminate; reflexivity. Qed.

(* the truncating remainder of two values of t is a value of t (also for MIN rem -1 = 0) *)
Lemma rem_range t a b : tmin t <= a <= tmax t -> tmin t <= b <= tmax t -> b <> 0 ->
  tmin t <= Z.rem a b <= tmax t.
Proof.
  intros Ha Hb Hz. pose proof (Z.rem_bound_abs a b Hz) as Hab.
  destruct (signed t) eqn:Hs.
  - pose proof (signed_sym t Hs) as Hsym.
    destruct (Z.le_ge_cases 0 a) as [Hp|Hn].
    + pose proof (Z.rem_nonneg a b Hz Hp). lia.
    + pose proof (Z.rem_nonpos a b Hz Hn). lia.
  - assert (H0 : tmin t = 0) by (unfold tmin; rewrite Hs; reflexivity).
    assert (0 <= a) by lia. pose proof (Z.rem_nonneg a b Hz H). lia.
Qed.

(* unsigned quotient stays in range *)
Lemma quot_range_u t a b : signed t = false -> tmin t <= a <= tmax t -> tmin t <= b <= tmax t -> b <> 0 ->
  tmin t <= Z.quot a b <= tmax t.
Proof.
  intros Hs Ha Hb Hz. assert (H0 : tmin t = 0) by (unfold tmin; rewrite Hs; reflexivity).
  rewrite Z.quot_div_nonneg by lia.
  assert (0 <= a / b) by (apply Z.div_pos; lia).
  assert (a / b <= a) by (apply Z.div_le_upper_bound; nia). lia.
Qed.
