(* C16 — text -> number for plain decimal digit strings (ferret_parse_uint and the *_from_string wrappers),
   and signed number -> text. *)
From Coq Require Import ZArith List Bool Lia.
From FV Require Import Models.Bigint Proofs.BigintP Proofs.BigintMulP Proofs.BigintDecP.
Import ListNotations.
Open Scope Z_scope.

(* a character accepted by all_digits 10 is '_' or '0'..'9' *)
Lemma dec_char c : c = 95 \/ 0 <= digit_value c < 10 -> c = 95 \/ 48 <= c <= 57.
Proof.
  intros [H|H]; [left; exact H|]. right. unfold digit_value in H.
  destruct (Z.leb_spec 48 c); destruct (Z.leb_spec c 57); cbn [andb] in H; [lia| | |];
    destruct (Z.leb_spec 97 c); destruct (Z.leb_spec c 102); cbn [andb] in H; try lia;
    destruct (Z.leb_spec 65 c); destruct (Z.leb_spec c 70); cbn [andb] in H; lia.
Qed.

Lemma dec_char_plain c : c = 95 \/ 48 <= c <= 57 ->
  is_space c = false /\ (c =? 43) = false /\ (c =? 45) = false /\
  (c =? 120) = false /\ (c =? 88) = false /\ (c =? 111) = false /\ (c =? 79) = false /\
  (c =? 98) = false /\ (c =? 66) = false.
Proof.
  intros H. unfold is_space.
  repeat split; try (apply Z.eqb_neq; lia).
  apply orb_false_iff. split; [apply Z.eqb_neq; lia|].
  apply andb_false_iff. destruct H as [->|H]; [right; reflexivity|]. right. apply Z.leb_gt. lia.
Qed.

Lemma parse_digits_any : forall s base out any, all_digits base s ->
  snd (parse_digits s base out any) = any || existsb (fun c => negb (c =? 95)) s.
Proof.
  induction s as [|c s IH]; intros base out any H; cbn [parse_digits existsb snd].
  - rewrite orb_false_r. reflexivity.
  - inversion H as [|c' s' Hc Hs]; subst. destruct (Z.eqb_spec c 95).
    + rewrite (IH _ _ _ Hs). reflexivity.
    + destruct Hc as [Hc|Hc]; [contradiction|].
      assert (Hd : (digit_value c <? 0) || (digit_value c >=? base) = false).
      { apply orb_false_iff. split; [apply Z.ltb_ge; lia | rewrite Z.geb_leb; apply Z.leb_gt; lia]. }
      rewrite Hd, (IH _ _ _ Hs). cbn [negb orb]. rewrite orb_true_r. reflexivity.
Qed.

Lemma parse_uint_plain s allow n : all_digits 10 s ->
  parse_uint s allow n = (snd (parse_digits s 10 (zeros n) false), fst (parse_digits s 10 (zeros n) false), false).
Proof.
  intros H. unfold parse_uint.
  destruct s as [|c s].
  - reflexivity.
  - inversion H as [|c' s' Hc Hs]; subst. apply dec_char in Hc.
    destruct (dec_char_plain c Hc) as (S1 & S2 & S3 & _).
    cbn [skip_space]. rewrite S1, S2, S3. cbn [orb andb].
    assert (PB : parse_base (c :: s) = (10, c :: s)).
    { unfold parse_base. destruct (Z.eq_dec c 48) as [->|NE].
      - destruct s as [|d s]; [reflexivity|].
        inversion Hs as [|d' s'' Hd Hs']; subst. apply dec_char in Hd.
        destruct (dec_char_plain d Hd) as (_ & _ & _ & X1 & X2 & X3 & X4 & X5 & X6).
        rewrite X1, X2, X3, X4, X5, X6. reflexivity.
      - destruct c as [|p|p]; try reflexivity.
        do 6 (destruct p as [p|p|]; try reflexivity). exfalso. apply NE. reflexivity. }
    rewrite PB. destruct (parse_digits (c :: s) 10 (zeros n) false) as [o a]. reflexivity.
Qed.

Definition has_digit (s : list Z) : Prop := existsb (fun c => negb (c =? 95)) s = true.

Lemma u_from_string_correct n s : all_digits 10 s -> has_digit s ->
  value (u_from_string n s) = (num 10 s 0) mod modulus n /\ length (u_from_string n s) = n.
Proof.
  intros H D. unfold u_from_string. rewrite (parse_uint_plain s false n H).
  rewrite (parse_digits_any s 10 (zeros n) false H). unfold has_digit in D. rewrite D. cbn [orb negb].
  destruct (parse_digits_cong s 10 (zeros n) false H) as (q & E & L).
  rewrite value_zeros, zeros_length in *. split; [| exact L].
  assert (OK : limbs_ok (fst (parse_digits s 10 (zeros n) false))).
  { (* limbs of the result are in range: every step is mul_add_small *)
    clear E L D. generalize (zeros_ok n). generalize (zeros n). generalize false.
    induction s as [|c s IH]; intros any out Ho; cbn [parse_digits fst]; [exact Ho|].
    inversion H as [|c' s' Hc Hs]; subst.
    destruct (c =? 95); [apply IH; auto|].
    destruct ((digit_value c <? 0) || (digit_value c >=? 10)); [exact Ho|].
    apply IH; auto. apply mul_add_small_ok. }
  apply cong_mod with (q := q); [| exact E].
  pose proof (value_bound _ OK) as VB. rewrite L in VB. exact VB.
Qed.

Lemma parse_base_plain s : all_digits 10 s -> parse_base s = (10, s).
Proof.
  intros H. destruct s as [|c s]; [reflexivity|].
  inversion H as [|c' s' Hc Hs]; subst. apply dec_char in Hc.
  unfold parse_base. destruct (Z.eq_dec c 48) as [->|NE].
  - destruct s as [|d s]; [reflexivity|].
    inversion Hs as [|d' s'' Hd Hs']; subst. apply dec_char in Hd.
    destruct (dec_char_plain d Hd) as (_ & _ & _ & X1 & X2 & X3 & X4 & X5 & X6).
    rewrite X1, X2, X3, X4, X5, X6. reflexivity.
  - destruct c as [|p|p]; try reflexivity.
    do 6 (destruct p as [p|p|]; try reflexivity). exfalso. apply NE. reflexivity.
Qed.

Lemma parse_uint_minus s n : all_digits 10 s ->
  parse_uint (45 :: s) true n = (snd (parse_digits s 10 (zeros n) false), fst (parse_digits s 10 (zeros n) false), true).
Proof.
  intros H. unfold parse_uint. cbn [skip_space]. change (is_space 45) with false. cbv iota.
  change ((45 =? 43) || (45 =? 45)) with true. cbv iota. change (45 =? 45) with true. cbn [andb negb].
  rewrite (parse_base_plain s H). destruct (parse_digits s 10 (zeros n) false) as [o a]. reflexivity.
Qed.

Lemma parse_digits_ok : forall s base out any, limbs_ok out -> limbs_ok (fst (parse_digits s base out any)).
Proof.
  induction s as [|c s IH]; intros base out any Ho; cbn [parse_digits fst]; [exact Ho|].
  destruct (c =? 95); [apply IH; auto|].
  destruct ((digit_value c <? 0) || (digit_value c >=? base)); [exact Ho|].
  apply IH. apply mul_add_small_ok.
Qed.

(* "-digits" read into a signed type: minus the denoted number, wrapped *)
Lemma s_from_string_minus_correct n s : n <> O -> all_digits 10 s -> has_digit s ->
  svalue (s_from_string n (45 :: s)) = wrapS (modulus n) (- num 10 s 0).
Proof.
  intros Hn H D. unfold s_from_string. rewrite (parse_uint_minus s n H).
  rewrite (parse_digits_any s 10 (zeros n) false H). unfold has_digit in D. rewrite D. cbn [orb negb].
  destruct (parse_digits_cong s 10 (zeros n) false H) as (q & E & L).
  rewrite value_zeros, zeros_length in *.
  pose proof (parse_digits_ok s 10 (zeros n) false (zeros_ok n)) as OK.
  set (out := fst (parse_digits s 10 (zeros n) false)) in *.
  destruct (negate_cong out OK) as [q1 E1].
  assert (LN : length (negate_limbs out) = n) by (rewrite negate_length; exact L).
  rewrite <- LN. apply svalue_wrap with (q := q1 - q).
  - apply negate_ok.
  - intros X. rewrite X in LN. cbn in LN. congruence.
  - rewrite LN. rewrite E1, E, L. ring.
Qed.

(* plain digits read into a signed type *)
Lemma s_from_string_plain_correct n s : n <> O -> all_digits 10 s -> has_digit s ->
  svalue (s_from_string n s) = wrapS (modulus n) (num 10 s 0).
Proof.
  intros Hn H D. unfold s_from_string. rewrite (parse_uint_plain s true n H).
  rewrite (parse_digits_any s 10 (zeros n) false H). unfold has_digit in D. rewrite D. cbn [orb negb].
  destruct (parse_digits_cong s 10 (zeros n) false H) as (q & E & L).
  rewrite value_zeros, zeros_length in *.
  pose proof (parse_digits_ok s 10 (zeros n) false (zeros_ok n)) as OK.
  set (out := fst (parse_digits s 10 (zeros n) false)) in *.
  rewrite <- L. apply svalue_wrap with (q := q); auto.
  - intros X. rewrite X in L. cbn in L. congruence.
  - rewrite L. rewrite E. ring.
Qed.

(* signed number -> text: digits of the value, or '-' followed by the digits of its magnitude *)
Lemma s_to_string_correct v : limbs_ok v -> v <> [] -> (length v <= 4)%nat ->
  exists s, s_to_string v = Some s /\
    (0 <= svalue v -> all_digits 10 s /\ num 10 s 0 = svalue v) /\
    (svalue v < 0 -> exists d, s = 45 :: d /\ all_digits 10 d /\ num 10 d 0 = - svalue v).
Proof.
  intros Hv Hne L. unfold s_to_string. rewrite (is_negative_spec v Hv Hne).
  pose proof (value_bound v Hv) as VB.
  assert (N0 : length v <> O) by (destruct v; cbn; congruence).
  pose proof (modulus_even (length v) N0) as EV.
  unfold svalue.
  destruct (Z.leb_spec (modulus (length v) / 2) (value v)); destruct (Z.ltb_spec (value v) (modulus (length v) / 2)); try lia; cbn [negb].
  - unfold abs_limbs. rewrite (is_negative_spec v Hv Hne).
    destruct (Z.leb_spec (modulus (length v) / 2) (value v)); [|lia]. cbn [fst].
    destruct (to_decimal_correct (negate_limbs v) (negate_ok v) ltac:(rewrite negate_length; exact L)) as (d & E & A & N).
    rewrite E. exists (45 :: d). split; [reflexivity|]. split; [lia|]. intros _. exists d. split; [reflexivity|]. split; [exact A|].
    rewrite N, (negate_limbs_correct v Hv).
    symmetry. apply cong_mod with (q := 1); lia.
  - destruct (to_decimal_correct v Hv L) as (s & E & A & N). exists s. split; [exact E|]. split; [auto | lia].
Qed.

(* printing an unsigned value and reading the text back *)
Lemma decimal_roundtrip : forall a, limbs_ok a -> a <> [] -> (length a <= 4)%nat ->
  exists s, u_to_string a = Some s /\ value (u_from_string (length a) s) = value a.
Proof.
  intros a Ha Hne L. destruct (to_decimal_correct a Ha L) as (s & E & A & N).
  exists s. split; [exact E|].
  assert (N0 : length a <> O) by (destruct a; cbn; congruence).
  assert (D : has_digit s).
  { unfold u_to_string, to_decimal in E.
    (* every character produced by the digit loop is 48 + r, never '_' : use the value-free characterisation *)
    assert (G : forall fuel work acc s, to_decimal_go fuel work acc = Some s ->
                (acc = [] -> is_zero work = false) -> (acc <> [] -> has_digit acc) -> has_digit s).
    { induction fuel as [|f IH]; intros work acc s0 E0 H1 H2; cbn [to_decimal_go] in E0.
      - destruct (is_zero work) eqn:Z; [injection E0 as <-; destruct acc; [specialize (H1 eq_refl); congruence | apply H2; discriminate] | discriminate].
      - destruct (is_zero work) eqn:Z; [injection E0 as <-; destruct acc; [specialize (H1 eq_refl); congruence | apply H2; discriminate]|].
        destruct (div_small work 10) as [q r] eqn:DS.
        apply (IH q ((48 + r) :: acc) s0 E0); [discriminate|]. intros _.
        unfold has_digit. cbn [existsb].
        assert (R : 0 <= r < 10).
        { pose proof (Z.mod_pos_bound) as MB. clear -DS. destruct work as [|x t]; cbn [div_small] in DS.
          - injection DS as <- <-. lia.
          - destruct (div_small t 10) as [qt rem]. injection DS as <- <-. apply Z.mod_pos_bound. lia. }
        replace (48 + r =? 95) with false by (symmetry; apply Z.eqb_neq; lia). reflexivity. }
    destruct (is_zero a) eqn:Z.
    - injection E as <-. reflexivity.
    - apply (G 80%nat a [] s E); [intros _; exact Z | congruence]. }
  destruct (u_from_string_correct (length a) s A D) as [V _]. rewrite V, N.
  apply Z.mod_small. apply value_bound, Ha.
Qed.
