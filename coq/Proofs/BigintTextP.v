(* C16 — text -> number for plain decimal digit strings (ferret_parse_uint and the *_from_string wrappers),
   and signed number -> text. *)
From Coq Require Import ZArith List Bool Lia.
From FV Require Import Models.Bigint Proofs.BigintP Proofs.BigintMulP Proofs.BigintDecP.
Import ListNotations.
Open Scope Z_scope.

(* a character accepted by all_digits 10 is '_' or '0'..'9' *)
Lemma dec_char c : c = 95 \/ 0 <= digit_value c < 10 -> c = 95 \/ 48 <= c <= 57.
Proof.
  intros [H|H]; [left; exact H|]. right. unfold digit_value in H.
  destruct (Z.leb_spec 48 c); destruct (Z.leb_spec c 57); cbn [andb] in H; [lia| | |];
    destruct (Z.leb_spec 97 c); destruct (Z.leb_spec c 102); cbn [andb] in H; try lia;
    destruct (Z.leb_spec 65 c); destruct (Z.leb_spec c 70); cbn [andb] in H; lia.
Qed.

Lemma dec_char_plain c : c = 95 \/ 48 <= c <= 57 ->
  is_space c = false /\ (c =? 43) = false /\ (c =? 45) = false /\
  (c =? 120) = false /\ (c =? 88) = false /\ (c =? 111) = false /\ (c =? 79) = false /\
  (c =? 98) = false /\ (c =? 66) = false.
Proof.
  intros H. unfold is_space.
  repeat split; try (apply Z.eqb_neq; lia).
  apply orb_false_iff. split; [apply Z.eqb_neq; lia|].
  apply andb_false_iff. destruct H as [->|H]; [right; reflexivity|]. right. apply Z.leb_gt. lia.
Qed.

Lemma parse_digits_any : forall s base out any, all_digits base s ->
  snd (parse_digits s base out any) = any || existsb (fun c => negb (c =? 95)) s.
Proof.
  induction s as [|c s IH]; intros base out any H; cbn [parse_digits existsb snd].
  - rewrite orb_false_r. reflexivity.
  - inversion H as [|c' s' Hc Hs]; subst. destruct (Z.eqb_spec c 95).
    + rewrite (IH _ _ _ Hs). reflexivity.
    + destruct Hc as [Hc|Hc]; [contradiction|].
      assert (Hd : (digit_value c <? 0) || (digit_value c >=? base) = false).
      { apply orb_false_iff. split; [apply Z.ltb_ge; lia | rewrite Z.geb_leb; apply Z.leb_gt; lia]. }
      rewrite Hd, (IH _ _ _ Hs). cbn [negb orb]. rewrite orb_true_r. reflexivity.
Qed.

Lemma parse_uint_plain s allow n : all_digits 10 s ->
  parse_uint s allow n = (snd (parse_digits s 10 (zeros n) false), fst (parse_digits s 10 (zeros n) false), false).
Proof.
  intros H. unfold parse_uint.
  destruct s as [|c s].
  - reflexivity.
  - inversion H as [|c' s' Hc Hs]; subst. apply dec_char in Hc.
    destruct (dec_char_plain c Hc) as (S1 & S2 & S3 & _).
    cbn [skip_space]. rewrite S1, S2, S3. cbn [orb andb].
    assert (PB : parse_base (c :: s) = (10, c :: s)).
    { unfold parse_base. destruct (Z.eq_dec c 48) as [->|NE].
      - destruct s as [|d s]; [reflexivity|].
        inversion Hs as [|d' s'' Hd Hs']; subst. apply dec_char in Hd.
        destruct (dec_char_plain d Hd) as (_ & _ & _ & X1 & X2 & X3 & X4 & X5 & X6).
        rewrite X1, X2, X3, X4, X5, X6. reflexivity.
      - destruct c as [|p|p]; try reflexivity.
        do 6 (destruct p as [p|p|]; try reflexivity). exfalso. apply NE. reflexivity. }
    rewrite PB. destruct (parse_digits (c :: s) 10 (zeros n) false) as [o a]. reflexivity.
Qed.

Definition has_digit (s : list Z) : Prop := existsb (fun c => negb (c =? 95)) s = true.

Lemma u_from_string_correct n s : all_digits 10 s -> has_digit s ->
  value (u_from_string n s) = (num 10 s 0) mod modulus n /\ length (u_from_string n s) = n.
Proof.
  intros H D. unfold u_from_string. rewrite (parse_uint_plain s false n H).
  rewrite (parse_digits_any s 10 (zeros n) false H). unfold has_digit in D. rewrite D. cbn [orb negb].
  destruct (parse_digits_cong s 10 (zeros n) false H) as (q & E & L).
  rewrite value_zeros, zeros_length in *. split; [| exact L].
  apply cong_mod with (q := q); [| exact E].
  rewrite <- L. apply value_bound.
  (* limbs of the result are in range: every step is mul_add_small *)
  clear E L D. generalize (zeros_ok n). generalize (zeros n). generalize false.
  induction s as [|c s IH]; intros any out Ho; cbn [parse_digits fst]; [exact Ho|].
  inversion H as [|c' s' Hc Hs]; subst.
  destruct (c =? 95); [apply IH; auto|].
  destruct ((digit_value c <? 0) || (digit_value c >=? 10)); [exact Ho|].
  apply IH; auto. apply mul_add_small_ok.
Qed.
