(* C20 — value level and line level: what the writer prints for one key/value pair is read back as that pair. *)
From Coq Require Import ZArith List Bool Lia.
From FV Require Import Models.Toml Proofs.TomlBasics Proofs.TomlTrimG.
Import ListNotations.
Open Scope Z_scope.

(* well-formed UTF-8 (Unicode table 3-7), stated with the same byte tests the decoder of Models/Toml.v uses *)
Inductive utf8 : bytes -> Prop :=
| u_nil : utf8 []
| u_1 c l : 0 <= c < 128 -> utf8 l -> utf8 (c :: l)
| u_2 b0 b1 l : (194 <=? b0) && (b0 <=? 223) = true -> cont b1 = true -> utf8 l -> utf8 (b0 :: b1 :: l)
| u_3 b0 b1 b2 l : (224 <=? b0) && (b0 <=? 239) = true -> second3 b0 b1 = true -> cont b2 = true ->
    utf8 l -> utf8 (b0 :: b1 :: b2 :: l)
| u_4 b0 b1 b2 b3 l : (240 <=? b0) && (b0 <=? 244) = true -> second4 b0 b1 = true -> cont b2 = true ->
    cont b3 = true -> utf8 l -> utf8 (b0 :: b1 :: b2 :: b3 :: l).

Lemma range_true a b0 c : (a <=? b0) && (b0 <=? c) = true -> a <= b0 <= c.
Proof. rewrite andb_true_iff, !Z.leb_le. lia. Qed.

Lemma range_false a b0 c : b0 < a \/ c < b0 -> (a <=? b0) && (b0 <=? c) = false.
Proof. intros H. apply andb_false_iff. rewrite !Z.leb_gt. lia. Qed.

Lemma seq_len_2 b0 b1 t : (194 <=? b0) && (b0 <=? 223) = true -> cont b1 = true -> seq_len (b0 :: b1 :: t) = 2%nat.
Proof. intros H1 H2. unfold seq_len. rewrite H1, H2. reflexivity. Qed.

Lemma seq_len_3 b0 b1 b2 t : (224 <=? b0) && (b0 <=? 239) = true -> second3 b0 b1 = true -> cont b2 = true ->
  seq_len (b0 :: b1 :: b2 :: t) = 3%nat.
Proof.
  intros H1 H2 H3. unfold seq_len. pose proof (range_true _ _ _ H1).
  rewrite (range_false 194 b0 223) by lia. rewrite H1, H2, H3. reflexivity.
Qed.

Lemma seq_len_4 b0 b1 b2 b3 t : (240 <=? b0) && (b0 <=? 244) = true -> second4 b0 b1 = true -> cont b2 = true ->
  cont b3 = true -> seq_len (b0 :: b1 :: b2 :: b3 :: t) = 4%nat.
Proof.
  intros H1 H2 H3 H4. unfold seq_len. pose proof (range_true _ _ _ H1).
  rewrite (range_false 194 b0 223) by lia. rewrite (range_false 224 b0 239) by lia.
  rewrite H1, H2, H3, H4. reflexivity.
Qed.

Lemma ltb128_false b0 a c : (a <=? b0) && (b0 <=? c) = true -> 128 <= a -> (b0 <? 128) = false.
Proof. intros H Ha. apply range_true in H. apply Z.ltb_ge. lia. Qed.

(* inside quotes the rune loop of stripInlineComment copies a well-formed string without quote / backslash *)
Lemma strip_copy s : utf8 s -> ~ In 34 s -> ~ In 92 s ->
  forall tail, strip_go (s ++ tail) true false 0 = s ++ strip_go tail true false 0.
Proof.
  induction 1 as [| c l Hc _ IH | b0 b1 l H0 H1 _ IH | b0 b1 b2 l H0 H1 H2 _ IH | b0 b1 b2 b3 l H0 H1 H2 H3 _ IH];
    intros N34 N92 tail.
  - reflexivity.
  - cbn [app strip_go].
    replace (c <? 128) with true by (symmetry; apply Z.ltb_lt; lia).
    replace (c =? 92) with false by (symmetry; apply Z.eqb_neq; intros ->; apply N92; left; auto).
    replace (c =? 34) with false by (symmetry; apply Z.eqb_neq; intros ->; apply N34; left; auto).
    cbn [negb]. rewrite andb_false_r. rewrite IH; auto; intros X; [apply N34 | apply N92]; right; auto.
  - cbn [app strip_go]. rewrite (ltb128_false _ _ _ H0) by lia. rewrite seq_len_2 by auto.
    cbn [strip_go]. rewrite IH; auto; intros X; [apply N34 | apply N92]; right; right; auto.
  - cbn [app strip_go]. rewrite (ltb128_false _ _ _ H0) by lia. rewrite seq_len_3 by auto.
    cbn [strip_go]. rewrite IH; auto; intros X; [apply N34 | apply N92]; right; right; right; auto.
  - cbn [app strip_go]. rewrite (ltb128_false _ _ _ H0) by lia. rewrite seq_len_4 by auto.
    cbn [strip_go]. rewrite IH; auto; intros X; [apply N34 | apply N92]; right; right; right; right; auto.
Qed.

(* outside quotes: bytes that are plain and none of quote, hash, backslash are copied *)
Definition safe (c : Z) : Prop := plain c /\ c <> 34 /\ c <> 35 /\ c <> 92.

Lemma strip_safe t : Forall safe t -> forall tail, strip_go (t ++ tail) false false 0 = t ++ strip_go tail false false 0.
Proof.
  induction 1 as [|c t [Hp [H34 [H35 H92]]] _ IH]; intros tail; [reflexivity|].
  cbn [app strip_go]. unfold plain in Hp.
  replace (c <? 128) with true by (symmetry; apply Z.ltb_lt; lia).
  replace (c =? 92) with false by (symmetry; apply Z.eqb_neq; auto).
  replace (c =? 34) with false by (symmetry; apply Z.eqb_neq; auto).
  replace (c =? 35) with false by (symmetry; apply Z.eqb_neq; auto).
  cbn [andb]. rewrite IH. reflexivity.
Qed.

Lemma num_safe c : num_byte c -> safe c.
Proof. unfold num_byte, safe, plain. lia. Qed.

Lemma digits_val_None c l : In c l -> is_digit c = false -> forall a, digits_val l a = None.
Proof.
  induction l as [|d l IH]; intros Hin Hd a; [destruct Hin|].
  cbn [digits_val]. destruct (is_digit d) eqn:E; auto.
  destruct Hin as [->|Hin]; [congruence | auto].
Qed.

Lemma atoi_dot s : In 46 s -> atoi s = None.
Proof.
  intros H. destruct s as [|c r]; [destruct H|].
  unfold atoi. destruct ((c =? 45) || (c =? 43)) eqn:E.
  - assert (Hr : In 46 r).
    { destruct H as [->|H]; auto. simpl in E. discriminate. }
    destruct r as [|x r']; [destruct Hr|]. rewrite (digits_val_None 46 (x :: r') Hr); auto.
  - rewrite (digits_val_None 46 (c :: r) H); auto.
Qed.

Lemma drop_quotes_id l : hd 0 l <> 34 -> drop_quotes l = l.
Proof.
  destruct l as [|c r]; simpl; auto. intros H.
  replace (c =? 34) with false by (symmetry; apply Z.eqb_neq; auto). reflexivity.
Qed.

Lemma trim_quotes_quoted s : ~ In 34 s -> trim_quotes (34 :: s ++ [34]) = s.
Proof.
  intros N. unfold trim_quotes. destruct s as [|c s']; [reflexivity|].
  change (drop_quotes (34 :: (c :: s') ++ [34])) with (drop_quotes ((c :: s') ++ [34])).
  rewrite (drop_quotes_id ((c :: s') ++ [34])) by (simpl; intros ->; apply N; left; auto).
  rewrite !frev_rev. rewrite rev_app_distr.
  change (rev [34] ++ rev (c :: s')) with (34 :: rev (c :: s')).
  change (drop_quotes (34 :: rev (c :: s'))) with (drop_quotes (rev (c :: s'))).
  rewrite drop_quotes_id.
  - apply rev_involutive.
  - intros E. apply N. apply in_rev. destruct (rev (c :: s')) as [|y r] eqn:R.
    + apply (f_equal (@length Z)) in R. rewrite rev_length in R. discriminate.
    + simpl in E. subst. left. reflexivity.
Qed.

Lemma has_suffix1' c y l x : has_suffix [c] (y :: l ++ [x]) = (c =? x).
Proof. apply (has_suffix1 c (y :: l) x). Qed.

Lemma trim_left_head k X c m : k = c :: m -> plain c -> trim_left (k ++ X) = k ++ X.
Proof. intros -> H. cbn [app]. apply trim_left_plain. auto. Qed.

Lemma skip_line_head k X c m : k = c :: m -> c <> 35 -> skip_line (k ++ X) = false.
Proof. intros -> H. cbn [app skip_line]. apply Z.eqb_neq. auto. Qed.

Lemma is_header_head k X c m : k = c :: m -> c <> 91 -> is_header (k ++ X) = false.
Proof.
  intros -> H. unfold is_header. cbn [app has_prefix].
  replace (91 =? c) with false by (symmetry; apply Z.eqb_neq; auto). reflexivity.
Qed.

Section Line.
Variable F : Type.
Variable fmt_f : F -> bytes.
Variable parse_f : bytes -> option F.
Variable fin : F -> Prop.

(* H2 *) Hypothesis Hnum : forall x, fin x -> Forall num_byte (fmt_f x) /\ fmt_f x <> [].
(* H1 *) Hypothesis Hrt : forall x, fin x -> parse_f (fmt_f x) = Some x.
(* H1' *) Hypothesis Hrt0 : forall x, fin x -> ~ In 46 (fmt_f x) -> parse_f (fmt_f x ++ s_dot0) = Some x.

Notation value := (value F).
Notation parse_value := (parse_value F parse_f).
Notation fmt_value := (fmt_value F fmt_f).

Definition str_ok (s : bytes) : Prop :=
  utf8 s /\ ~ In 34 s /\ ~ In 92 s /\ ~ In 10 s /\ s <> s_true /\ s <> s_false.

Definition value_ok (v : value) : Prop :=
  match v with
  | VStr s => str_ok s
  | VBool _ => True
  | VInt i => int_min <= i <= int_max
  | VFloat x => fin x
  end.

(* what is needed from the text of a value *)
Record vtext_ok (v : value) (t : bytes) : Prop := {
  vt_tight : tight t;
  vt_strip : forall tail, strip_go (t ++ tail) false false 0 = t ++ strip_go tail false false 0;
  vt_parse : parse_value t = v;
  vt_nolf : ~ In 10 t }.

Lemma tight_num t : Forall num_byte t -> t <> [] -> tight t.
Proof.
  intros H Hne. destruct t as [|c r]; [contradiction|].
  assert (Hp : forall x, num_byte x -> plain x) by (unfold num_byte, plain; lia).
  destruct r as [|y r' _] using rev_ind.
  - exists c, [], c. inversion H; subst. auto.
  - exists c, r', y. inversion H as [|? ? Hc Hr]; subst. apply Forall_app in Hr. destruct Hr as [_ Hy].
    inversion Hy; subst. auto.
Qed.

Lemma num_nolf t : Forall num_byte t -> ~ In 10 t.
Proof. intros H X. rewrite Forall_forall in H. specialize (H 10 X). unfold num_byte in H. lia. Qed.

Lemma num_not_quoted t : Forall num_byte t -> has_prefix [34] t = false.
Proof.
  destruct t as [|c r]; auto. intros H. inversion H; subst. cbn [has_prefix].
  replace (34 =? c) with false by (symmetry; apply Z.eqb_neq; unfold num_byte in *; lia). reflexivity.
Qed.

Lemma num_not_bool t : Forall num_byte t -> beq t s_true = false /\ beq t s_false = false.
Proof.
  destruct t as [|c r]; auto. intros H. inversion H; subst. unfold s_true, s_false. cbn [beq].
  replace (c =? 116) with false by (symmetry; apply Z.eqb_neq; unfold num_byte in *; lia).
  replace (c =? 102) with false by (symmetry; apply Z.eqb_neq; unfold num_byte in *; lia). auto.
Qed.

Lemma vtext_num v t : Forall num_byte t -> t <> [] ->
  (match atoi t with Some i => VInt i | None => match parse_f t with Some f => VFloat f | None => VStr t end end) = v ->
  vtext_ok v t.
Proof.
  intros H Hne Hp. constructor.
  - apply tight_num; auto.
  - apply strip_safe. eapply Forall_impl; [| exact H]. apply num_safe.
  - unfold Toml.parse_value. rewrite (num_not_quoted t H). cbn [andb].
    destruct (num_not_bool t H) as [-> ->]. exact Hp.
  - apply num_nolf; auto.
Qed.

Lemma fmt_float_ok x : fin x -> vtext_ok (VFloat x) (fmt_float F fmt_f x).
Proof.
  intros Hx. destruct (Hnum x Hx) as [Hn Hne]. unfold fmt_float.
  destruct (mem 46 (fmt_f x)) eqn:E.
  - apply mem_In in E. apply vtext_num; auto. rewrite (atoi_dot _ E), (Hrt x Hx). reflexivity.
  - assert (N : ~ In 46 (fmt_f x)) by (intros X; apply mem_In in X; congruence).
    apply vtext_num.
    + apply Forall_app. split; auto. unfold s_dot0. repeat constructor; unfold num_byte; lia.
    + destruct (fmt_f x); discriminate.
    + rewrite atoi_dot by (apply in_or_app; right; unfold s_dot0; simpl; auto).
      rewrite (Hrt0 x Hx N). reflexivity.
Qed.

Lemma fmt_value_ok v : value_ok v -> vtext_ok v (fmt_value v).
Proof.
  destruct v as [s | x | i | x]; cbn [value_ok Toml.fmt_value].
  - intros (U & N34 & N92 & N10 & Nt & Nf).
    unfold needs_quoting. rewrite (beq_neq _ _ Nt), (beq_neq _ _ Nf). cbn [orb negb].
    constructor.
    + change (34 :: s ++ [34]) with (34 :: s ++ [34]). apply tight_intro; unfold plain; lia.
    + intros tail. cbn [app strip_go]. simpl (34 <? 128). simpl (34 =? 92). simpl (34 =? 34). cbv iota. cbn [negb].
      rewrite <- app_assoc. rewrite strip_copy by auto.
      cbn [app strip_go]. simpl (34 <? 128). simpl (34 =? 92). simpl (34 =? 34). cbv iota. cbn [negb].
      rewrite <- app_assoc. reflexivity.
    + unfold Toml.parse_value. cbn [has_prefix]. simpl (34 =? 34). cbn [andb].
      rewrite has_suffix1'. simpl (34 =? 34). cbv iota.
      rewrite trim_quotes_quoted by auto. reflexivity.
    + intros X. destruct X as [X|X]; [discriminate|]. apply in_app_or in X. destruct X as [X|[X|[]]]; [auto | discriminate].
  - intros _. destruct x.
    + constructor; [exists 116, [114; 117], 101; unfold plain, s_true; repeat split; auto; lia
                   | intros tail; reflexivity | reflexivity | unfold s_true; simpl; intuition discriminate].
    + constructor; [exists 102, [97; 108; 115], 101; unfold plain, s_false; repeat split; auto; lia
                   | intros tail; reflexivity | reflexivity | unfold s_false; simpl; intuition discriminate].
  - intros Hi. destruct (itoa_num i) as [Hn Hne]. apply vtext_num; auto.
    rewrite atoi_itoa by auto. reflexivity.
  - apply fmt_float_ok.
Qed.

(* ------------------------------------------------------------------ one key = value line *)

Definition key_byte (c : Z) : Prop := 33 <= c <= 126 /\ c <> 61.
Definition key_ok (k : bytes) : Prop := k <> [] /\ Forall key_byte k /\ hd 0 k <> 35 /\ hd 0 k <> 91.
(* inline comments: any bytes except line feed *)
Definition cmt_ok (c : bytes) : Prop := ~ In 10 c.

Definition kv_line (k : bytes) (v : value) (c : option bytes) : bytes :=
  k ++ s_sep ++ fmt_value v ++ match c with Some c => s_cmt ++ c | None => [] end.

Lemma key_shape k : key_ok k -> exists c m, k = c :: m /\ plain c /\ c <> 35 /\ c <> 91 /\ tight k /\ Forall (fun x => x <> 61) k.
Proof.
  intros (Hne & Hk & H35 & H91). destruct k as [|c m]; [contradiction|].
  exists c, m. simpl in H35, H91.
  assert (Hp : forall x, key_byte x -> plain x) by (unfold key_byte, plain; lia).
  inversion Hk as [|? ? Hc Hm]; subst.
  split; [reflexivity|]. split; [apply Hp; exact Hc|]. split; [exact H35|]. split; [exact H91|]. split.
  - destruct m as [|y m' _] using rev_ind.
    + exists c, [], c. auto.
    + apply Forall_app in Hm. destruct Hm as [_ Hy]. inversion Hy; subst. exists c, m', y. auto.
  - eapply Forall_impl; [| exact Hk]. unfold key_byte. intros; lia.
Qed.

Lemma strip_hash t : strip_go (32 :: 35 :: t) false false 0 = [32].
Proof. reflexivity. Qed.

Lemma parse_kv_line d cur k v c : key_ok k -> value_ok v -> match c with Some c => cmt_ok c | None => True end ->
  parse_line F parse_f (d, cur) (kv_line k v c)
  = Some (dset F (effective cur) k v (ensure F (effective cur) d), cur).
Proof.
  intros Hk Hv Hc.
  destruct (key_shape k Hk) as (c0 & m0 & Ek & Hp0 & N35 & N91 & Tk & N61).
  destruct (fmt_value_ok v Hv) as [Tt St Pt Lt].
  set (t := fmt_value v) in *.
  (* the trimmed line *)
  assert (Hline : exists tail, trim_space (drop_cr (kv_line k v c)) = k ++ s_sep ++ t ++ tail /\
            (tail = [] \/ exists t3, tail = 32 :: 35 :: t3)).
  { unfold kv_line. fold t. destruct c as [c|].
    - replace (k ++ s_sep ++ t ++ s_cmt ++ c) with ((k ++ s_sep ++ t ++ [32]) ++ 35 :: 32 :: c)
        by (unfold s_cmt; rewrite <- !app_assoc; reflexivity).
      destruct (drop_cr_tail (fun _ => True) (k ++ s_sep ++ t ++ [32]) 35 (32 :: c) ltac:(lia)
                  ltac:(apply Forall_forall; auto)) as (t1 & E1 & _).
      rewrite E1. unfold trim_space.
      rewrite (trim_left_head (k ++ s_sep ++ t ++ [32]) _ c0 (m0 ++ s_sep ++ t ++ [32]));
        [| rewrite Ek; reflexivity | exact Hp0].
      destruct (trim_right_tail t1 (k ++ s_sep ++ t ++ [32]) 35 ltac:(unfold plain; lia)) as (t2 & E2).
      rewrite E2. exists (32 :: 35 :: t2). split; [rewrite <- !app_assoc; reflexivity|].
      right. exists t2. auto.
    - exists []. split; [| auto]. rewrite app_nil_r.
      destruct Tt as (a & mm & z & Et & Ha & Hz).
      assert (Hlast : exists body, k ++ s_sep ++ t = c0 :: body ++ [z]).
      { destruct Et as [Et | [Et Eaz]]; rewrite Et, Ek.
        - exists (m0 ++ s_sep ++ a :: mm). cbn [app]. rewrite <- !app_assoc. reflexivity.
        - subst z. exists (m0 ++ s_sep). cbn [app]. rewrite <- !app_assoc. reflexivity. }
      destruct Hlast as [body Eb]. rewrite Eb.
      rewrite app_comm_cons. rewrite drop_cr_keep by (unfold plain in Hz; lia).
      rewrite <- app_comm_cons. apply trim_space_tight. apply tight_intro; auto. }
  destruct Hline as (tail & Eline & Htail).
  unfold parse_line. rewrite Eline.
  (* not skipped, not a header *)
  rewrite (skip_line_head k _ c0 m0 Ek N35). rewrite (is_header_head k _ c0 m0 Ek N91).
  (* split at the first '=' *)
  replace (k ++ s_sep ++ t ++ tail) with ((k ++ [32]) ++ 61 :: 32 :: t ++ tail)
    by (unfold s_sep; rewrite <- !app_assoc; reflexivity).
  rewrite split_eq_app by (apply Forall_app; split; auto; constructor; [lia | constructor]).
  rewrite (trim_space_pad k Tk).
  (* the value text *)
  assert (Hval : strip_inline_comment (trim_space (32 :: t ++ tail)) = t).
  { destruct Tt as (a & mm & z & Et & Ha & Hz).
    assert (Ea : exists rest, t = a :: rest) by (destruct Et as [Et | [Et _]]; rewrite Et; eauto).
    destruct Ea as [rest Ea].
    assert (Tt : tight t) by (exists a, mm, z; auto).
    unfold trim_space. rewrite trim_left_space by reflexivity.
    destruct Htail as [-> | (t3 & ->)].
    - rewrite app_nil_r. fold (trim_space t). rewrite (trim_space_tight t Tt).
      unfold strip_inline_comment. rewrite <- (app_nil_r t) at 1. rewrite St. cbn [strip_go]. rewrite app_nil_r.
      apply trim_space_tight; auto.
    - rewrite (trim_left_head t _ a rest Ea Ha).
      replace (t ++ 32 :: 35 :: t3) with ((t ++ [32]) ++ 35 :: t3) by (rewrite <- app_assoc; reflexivity).
      destruct (trim_right_tail t3 (t ++ [32]) 35 ltac:(unfold plain; lia)) as (t4 & E4).
      rewrite E4. unfold strip_inline_comment. rewrite <- app_assoc. rewrite St. cbn [app]. rewrite strip_hash.
      apply trim_space_pad; auto. }
  rewrite Hval, Pt. reflexivity.
Qed.

Lemma kv_line_nolf k v c : key_ok k -> value_ok v -> match c with Some c => cmt_ok c | None => True end ->
  ~ In 10 (kv_line k v c).
Proof.
  intros (_ & Hk & _) Hv Hc X. unfold kv_line in X.
  destruct (fmt_value_ok v Hv) as [_ _ _ Lt].
  apply in_app_or in X. destruct X as [X|X].
  - rewrite Forall_forall in Hk. specialize (Hk 10 X). unfold key_byte in Hk. lia.
  - apply in_app_or in X. destruct X as [X|X]; [unfold s_sep in X; simpl in X; intuition discriminate|].
    apply in_app_or in X. destruct X as [X|X]; [auto|].
    destruct c as [c|]; [| destruct X].
    apply in_app_or in X. destruct X as [X|X]; [unfold s_cmt in X; simpl in X; intuition discriminate|].
    exact (Hc X).
Qed.

End Line.
