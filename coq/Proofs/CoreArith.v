From Coq Require Import ZArith List Bool Lia.
From FV Require Import Core.Syntax Core.Sem.
Local Open Scope Z_scope.

Lemma bits_pos t : 8 <= bits t <= 64.
Proof. destruct t; cbn; lia. Qed.

Lemma pow_bits_split t : 2 ^ bits t = 2 * 2 ^ (bits t - 1).
Proof.
  pose proof (bits_pos t). replace (bits t) with (1 + (bits t - 1)) at 1 by lia.
  rewrite Z.pow_add_r by lia. reflexivity.
Qed.

Lemma half_pow t : 2 ^ bits t / 2 = 2 ^ (bits t - 1).
Proof. rewrite pow_bits_split. rewrite Z.mul_comm, Z.div_mul by lia. reflexivity. Qed.

Lemma pow_half_pos t : 0 < 2 ^ (bits t - 1).
Proof. pose proof (bits_pos t). apply Z.pow_pos_nonneg; lia. Qed.

(* the result of every arithmetic operation is a value of its type *)
Lemma wrap_in_range t x : tmin t <= wrap t x <= tmax t.
Proof.
  unfold wrap, tmin, tmax. cbv zeta. rewrite half_pow. pose proof (pow_half_pos t) as Hp.
  pose proof (pow_bits_split t) as Hs.
  destruct (signed t).
  - pose proof (Z.mod_pos_bound (x + 2 ^ (bits t - 1)) (2 ^ bits t)). lia.
  - pose proof (Z.mod_pos_bound x (2 ^ bits t)). lia.
Qed.

(* ... congruent to the mathematical result modulo 2^N ... *)
Lemma wrap_congruent t x : (wrap t x - x) mod 2 ^ bits t = 0.
Proof.
  unfold wrap. cbv zeta. rewrite half_pow. pose proof (pow_half_pos t) as Hp. pose proof (pow_bits_split t) as Hs.
  set (m := 2 ^ bits t) in *. assert (Hm : 0 < m) by lia.
  destruct (signed t).
  - rewrite (Z.mod_eq (x + 2 ^ (bits t - 1)) m) by lia.
    replace (x + 2 ^ (bits t - 1) - m * ((x + 2 ^ (bits t - 1)) / m) - 2 ^ (bits t - 1) - x)
      with ((- ((x + 2 ^ (bits t - 1)) / m)) * m) by ring.
    apply Z.mod_mul. lia.
  - rewrite (Z.mod_eq x m) by lia.
    replace (x - m * (x / m) - x) with ((- (x / m)) * m) by ring. apply Z.mod_mul. lia.
Qed.

(* ... and values already in range are unchanged: wrap is exactly two's complement reduction *)
Lemma wrap_id t x : tmin t <= x <= tmax t -> wrap t x = x.
Proof.
  unfold wrap, tmin, tmax. cbv zeta. rewrite half_pow. pose proof (pow_half_pos t) as Hp. pose proof (pow_bits_split t) as Hs.
  destruct (signed t); intros H.
  - rewrite Z.mod_small by lia. lia.
  - rewrite Z.mod_small by lia. lia.
Qed.

Lemma wrap_unique t x y : tmin t <= y <= tmax t -> (y - x) mod 2 ^ bits t = 0 -> wrap t x = y.
Proof.
  intros Hy Hc. pose proof (wrap_in_range t x) as Hr. pose proof (wrap_congruent t x) as Hw.
  pose proof (pow_half_pos t) as Hp. pose proof (pow_bits_split t) as Hs.
  set (m := 2 ^ bits t) in *. assert (Hm : 0 < m) by lia.
  apply Z.mod_divide in Hc; [|lia]. apply Z.mod_divide in Hw; [|lia].
  destruct Hc as [a Ha], Hw as [b Hb].
  assert (Hk : wrap t x - y = (b - a) * m) by lia.
  assert (Hd : - m < wrap t x - y < m) by (unfold tmin, tmax in *; destruct (signed t); lia).
  assert (b - a = 0) by nia. lia.
Qed.

(* truncating division and remainder *)
Lemma div_mod_spec t a b q r :
  tmin t <= a <= tmax t -> tmin t <= b <= tmax t ->
  ~ (signed t = true /\ a = tmin t /\ b = -1) ->
  arith Div t a b = Some q -> arith Mod t a b = Some r ->
  a = q * b + r /\ Z.abs r < Z.abs b /\ (r = 0 \/ Z.sgn r = Z.sgn a) /\ q = Z.quot a b /\ r = Z.rem a b.
Proof.
  intros Ha Hb Hno. unfold arith.
  destruct ((b =? 0) || div_traps t a b) eqn:E; [discriminate|].
  apply orb_false_iff in E as [E1 _]. apply Z.eqb_neq in E1.
  assert (E2 : signed t && (a =? tmin t) && (b =? -1) = false).
  { destruct (signed t) eqn:Sg; [|reflexivity]. cbn [andb].
    destruct (a =? tmin t) eqn:Ea; [|reflexivity]. destruct (b =? -1) eqn:Eb; [|reflexivity].
    exfalso. apply Hno. apply Z.eqb_eq in Ea, Eb. auto. }
  intros Hq Hr. inversion Hq; inversion Hr; subst; clear Hq Hr.
  assert (Hqr : tmin t <= Z.quot a b <= tmax t).
  { pose proof (Z.quot_abs a b E1) as Habs.
    rewrite Z.quot_div_nonneg in Habs by lia.
    unfold tmin, tmax in *. pose proof (pow_half_pos t) as Hp. pose proof (pow_bits_split t) as Hs.
    pose proof (bits_pos t) as Hb8.
    assert (H128 : 128 <= 2 ^ (bits t - 1)).
    { change 128 with (2 ^ 7). apply Z.pow_le_mono_r; lia. }
    set (h := 2 ^ (bits t - 1)) in *.
    destruct (signed t) eqn:Sg; cbn [andb] in E2.
    - assert (Hex : ~ (a = - h /\ b = -1)).
      { intros [-> ->]. rewrite Z.eqb_refl in E2. cbn in E2. discriminate. }
      destruct (Z.eq_dec b 1) as [->|Hb1]; [rewrite Z.quot_1_r; lia|].
      destruct (Z.eq_dec b (-1)) as [->|Hbm1].
      { change (-1) with (- (1)). rewrite Z.quot_opp_r by lia. rewrite Z.quot_1_r. lia. }
      assert (2 <= Z.abs b) by lia.
      assert (Z.abs a / Z.abs b <= Z.abs a / 2).
      { apply Z.div_le_compat_l; lia. }
      assert (Z.abs a / 2 <= h / 2) by (apply Z.div_le_mono; lia).
      assert (h / 2 <= h - 1) by (apply Z.div_le_upper_bound; lia).
      lia.
    - rewrite Z.quot_div_nonneg by lia. 
      assert (0 <= a / b) by (apply Z.div_pos; lia).
      assert (a / b <= a) by (apply Z.div_le_upper_bound; nia).
      lia. }
  assert (Hrr : tmin t <= Z.rem a b <= tmax t).
  { pose proof (Z.rem_bound_abs a b E1). pose proof (Z.rem_sign_mul a b E1) as Hs2.
    unfold tmin, tmax in *. pose proof (pow_half_pos t) as Hp. pose proof (pow_bits_split t) as Hs.
    destruct (signed t); [lia|]. pose proof (Z.rem_nonneg a b). lia. }
  rewrite (wrap_id t _ Hqr), (wrap_id t _ Hrr).
  pose proof (Z.quot_rem' a b). pose proof (Z.rem_bound_abs a b E1).
  repeat split; try lia.
  destruct (Z.eq_dec (Z.rem a b) 0); [left; assumption|right].
  apply Z.rem_sign_nz; assumption.
Qed.

(* the one overflowing quotient: for the 8- and 16-bit signed types MIN / -1 wraps to MIN and MIN % -1 is 0 *)
Lemma div_overflow_wraps t :
  signed t = true -> bits t < 32 ->
  arith Div t (tmin t) (-1) = Some (tmin t) /\ arith Mod t (tmin t) (-1) = Some 0.
Proof. destruct t; cbn; intros; try discriminate; try lia; split; reflexivity. Qed.
