(* C09 (reference side): meaning-preserving rewrites preserve the reference behaviour — local equalities that hold
   for every environment, output prefix, loop bound and meaning of calls. *)
From Coq Require Import String ZArith List Bool.
From FV Require Import Core.Syntax Core.Sem.
Import ListNotations.

Section R.
Variable structs : structs_t.
Variable callf : nat -> list value -> list line -> res (value * list value).

(* wrapping statements in `if true { }` is the same as wrapping them in a block *)
Lemma if_true_is_block k s en out :
  exec structs callf k (SIf (EBool true) s SSkip) en out = exec structs callf k (SBlock s) en out.
Proof. reflexivity. Qed.

(* ... also when the `if true` has an arbitrary else branch *)
Lemma if_true_else_irrelevant k s s' en out :
  exec structs callf k (SIf (EBool true) s s') en out = exec structs callf k (SBlock s) en out.
Proof. reflexivity. Qed.

(* call-free expressions *)
Fixpoint callfree (e : expr) : bool :=
  match e with
  | ELit _ _ | EBool _ | EStr _ | EVar _ => true
  | EBin _ a b => callfree a && callfree b
  | EUn _ a => callfree a
  | ECast a _ => callfree a
  | ECall _ _ => false
  | ECallR _ _ => false
  | EStructLit _ _ => false
  | EField a _ => callfree a
  end.

(* a call-free expression prints nothing and leaves the environment unchanged: binding it to a local earlier or later cannot
   reorder output, nor can it change what later expressions see *)
Lemma callfree_no_output : forall e en out r out',
  callfree e = true -> eval structs callf e en out = Ok r out' -> out' = out /\ snd r = en.
Proof.
  induction e as [t z|b|s|x|o a IHa b IHb|o a IHa|a IHa t|f es|sid es|a IHa k|f args]; intros en out r out' Hc H; cbn in *.
  - inversion H; auto.
  - inversion H; auto.
  - inversion H; auto.
  - destruct (lookup x en); inversion H; auto.
  - apply andb_prop in Hc as [Ha Hb].
    destruct o;
    (destruct (eval structs callf a en out) as [[va ena] o1| | |] eqn:Ea; cbn in H; try discriminate;
     destruct (IHa _ _ _ _ Ha Ea) as [-> Hena]; cbn in Hena; subst ena);
    try (destruct (eval structs callf b en out) as [[vb enb] o2| | |] eqn:Eb; cbn in H; try discriminate;
         destruct (IHb _ _ _ _ Hb Eb) as [-> Henb]; cbn in Henb; subst enb;
         destruct va, vb; try discriminate;
         repeat match type of H with
                | context [if ?c then _ else _] => destruct c
                | context [match ?c with _ => _ end] => destruct c
                end; try discriminate; inversion H; auto).
    + destruct va as [| [|] | | |]; try discriminate; [|inversion H; auto].
      destruct (eval structs callf b en out) as [[vb enb] o2| | |] eqn:Eb; cbn in H; try discriminate.
      destruct (IHb _ _ _ _ Hb Eb) as [-> Henb]. cbn in Henb. subst enb. destruct vb; try discriminate; inversion H; auto.
    + destruct va as [| [|] | | |]; try discriminate; [inversion H; auto|].
      destruct (eval structs callf b en out) as [[vb enb] o2| | |] eqn:Eb; cbn in H; try discriminate.
      destruct (IHb _ _ _ _ Hb Eb) as [-> Henb]. cbn in Henb. subst enb. destruct vb; try discriminate; inversion H; auto.
  - destruct o; destruct (eval structs callf a en out) as [[va ena] o1| | |] eqn:Ea; cbn in H; try discriminate;
      destruct (IHa _ _ _ _ Hc Ea) as [-> Hena]; cbn in Hena; subst ena; destruct va; try discriminate; inversion H; auto.
  - destruct (eval structs callf a en out) as [[va ena] o1| | |] eqn:Ea; cbn in H; try discriminate.
    destruct (IHa _ _ _ _ Hc Ea) as [-> Hena]. cbn in Hena. subst ena. destruct va; try discriminate; inversion H; auto.
  - discriminate.
  - discriminate.
  - destruct (eval structs callf a en out) as [[va ena] o1| | |] eqn:Ea; cbn in H; try discriminate.
    destruct (IHa _ _ _ _ Hc Ea) as [-> Hena]. cbn in Hena. subst ena. destruct va; try discriminate.
    destruct (nth_error structs sid); try discriminate.
    destruct (nth_error l k), (nth_error fs k); try discriminate. inversion H; auto.
  - discriminate.
Qed.

(* replacing a literal by a call to a function that returns this literal (whatever final parameter values it reports:
   a plain call does not read them) *)
Lemma lit_call_local g t z en out fin :
  callf g [] out = Ok (VInt t z, fin) out ->
  eval structs callf (ECall g []) en out = eval structs callf (ELit t z) en out.
Proof. intros H. cbn. rewrite H. reflexivity. Qed.
End R.

(* the function `fn g() -> t { return z; }` does return z, for every positive fuel and every output prefix *)
Lemma const_fn_returns structs p g t z fuel out :
  nth_error p g = Some {| fparams := []; fret := TInt t; fbody := SReturn (Some (ELit t z)) |} ->
  call structs p (S fuel) g [] out = Ok (VInt t z, []) out.
Proof. intros H. cbn. rewrite H. cbn. reflexivity. Qed.
