(* Soundness of the table checkers entry_ok_q / entry_ok_w (Models/ISel.v) for the operator rows: an accepted QBE or
   wasm code sequence, run on ANY canonical registers for which the reference is defined, does not trap and returns a
   canonical register denoting the reference result. (Load/store round-trip rows: Proofs/ISelRt.v.) *)
From Coq Require Import ZArith List Bool Lia.
From FV Require Import Core.Syntax Core.Sem Proofs.CoreArith Models.Qbe Models.WasmSem Models.ISel
     Proofs.ISelSym Proofs.ISelArith Proofs.ISelShape.
Import ListNotations.
Local Open Scope Z_scope.

Definition sound_q (k : key) (f : qfun) : Prop :=
  forall rs, Forall2 canonV (argtys k) rs ->
  forall v, ref k (denotes (argtys k) rs) = Some v ->
  forall m sp, exists r, qexec f rs m sp = Some r /\ canonV (resty k) r /\ denoteV (resty k) r = v.

Definition sound_w (k : key) (f : wfun) : Prop :=
  forall rs, Forall2 canonV (argtys k) rs ->
  forall v, ref k (denotes (argtys k) rs) = Some v ->
  forall m brk, exists r, wexec f rs m brk = Some r /\ canonV (resty k) r /\ denoteV (resty k) r = v.

Definition is_rt (k : key) : bool := match k with KRt _ => true | _ => false end.

Lemma cls_list_eqb_eq : forall a b, cls_list_eqb a b = true -> a = b.
Proof.
  unfold cls_list_eqb. induction a as [|x a IH]; destruct b as [|y b]; cbn; intros H; try discriminate; [reflexivity|].
  apply andb_prop in H as [H1 H2]. apply andb_prop in H2 as [H2 H3]. apply cls_eqb_eq in H2. subst y.
  f_equal. apply IH. rewrite H1, H3. reflexivity.
Qed.

Lemma sig_ok_eq k ps r : sig_ok k ps r = true -> ps = map vcls (argtys k) /\ r = vcls (resty k).
Proof.
  unfold sig_ok. intros H. apply andb_prop in H as [H1 H2]. split; [apply cls_list_eqb_eq; exact H1|apply cls_eqb_eq; exact H2].
Qed.

Lemma qinit_rel : forall ps rs pre n, length pre = n -> length ps = length rs ->
  exists env, qinit n ps rs = Some env /\ env_rel (pre ++ combine ps rs) env (sinit n ps).
Proof.
  induction ps as [|c ps IH]; destruct rs as [|z rs]; cbn [qinit sinit combine length]; intros pre n Hn Hl; try discriminate.
  - exists []. split; [reflexivity|constructor].
  - destruct (IH rs (pre ++ [(c, z)]) (S n)) as (env & He & Hr).
    + rewrite app_length. cbn. lia.
    + lia.
    + rewrite He. eexists. split; [reflexivity|]. constructor.
      * unfold bind_rel. cbn. repeat split. rewrite nth_error_app2 by lia. replace (n - length pre)%nat with 0%nat by lia. reflexivity.
      * rewrite <- app_assoc in Hr. exact Hr.
Qed.

Lemma winit_rel : forall ps rs pre n, length pre = n -> length ps = length rs ->
  Forall2 (val_rel (pre ++ combine ps rs)) (combine ps rs) (winit n ps).
Proof.
  induction ps as [|c ps IH]; destruct rs as [|z rs]; cbn [winit combine length]; intros pre n Hn Hl; try discriminate.
  - constructor.
  - constructor.
    + split; [reflexivity|]. cbn. rewrite nth_error_app2 by lia. replace (n - length pre)%nat with 0%nat by lia. reflexivity.
    + specialize (IH rs (pre ++ [(c, z)]) (S n)). rewrite <- app_assoc in IH. apply IH; [rewrite app_length; cbn; lia|lia].
Qed.

Lemma zeros_rel args ls : Forall2 (val_rel args) (map (fun c => (c, 0)) ls) (map (fun c => (c, MConst c 0)) ls).
Proof.
  induction ls as [|c ls IH]; cbn; constructor; [|exact IH].
  split; [reflexivity|]. cbn [meval snd]. rewrite Z.mod_0_l; [reflexivity|]. pose proof (cmod_pos c). lia.
Qed.

Lemma Forall2_len {A B} (R : A -> B -> Prop) l1 l2 : Forall2 R l1 l2 -> length l1 = length l2.
Proof. induction 1; cbn; congruence. Qed.

Theorem entry_ok_q_sound k f : is_rt k = false -> entry_ok_q k f = true -> sound_q k f.
Proof.
  intros Hk H. unfold entry_ok_q in H. apply andb_prop in H as [Hsig H].
  destruct (sig_ok_eq _ _ _ Hsig) as [Hps Hret].
  assert (H' : match qsym f with
               | Some (e, effs) => shape_ok k e && forallb (fun x => subterm_b x e) effs
               | None => false end = true) by (destruct k; try exact H; discriminate).
  clear H. destruct (qsym f) as [[e effs]|] eqn:Es; [|discriminate].
  apply andb_prop in H' as [Hshape Hsub].
  intros rs HF v Hv m sp.
  destruct (shape_sound k e Hshape rs HF v Hv) as (r & Hm & Hc & Hd).
  exists r. split; [|split; assumption].
  assert (Hlen : length (qparams f) = length rs).
  { rewrite Hps, map_length. apply (Forall2_len _ _ _ HF). }
  destruct (qinit_rel (qparams f) rs [] 0 eq_refl Hlen) as (env & He & Hr). cbn [app] in Hr.
  unfold qexec. rewrite He. unfold qsym in Es.
  assert (Hargs : combine (qparams f) rs = cargs k rs) by (unfold cargs; rewrite Hps; reflexivity).
  rewrite Hargs in Hr.
  destruct (qsym_run_sound (cargs k rs) (qret f) (qbody f) {| q_env := env; q_mem := m; q_sp := sp |} _ _ _ _ Es Hr)
    as (r' & Hrun & Hm').
  - intros x Hx. rewrite forallb_forall in Hsub. apply (subterm_defined _ x e (Hsub x Hx)). rewrite Hm. discriminate.
  - rewrite Hrun. rewrite Hm in Hm'. inversion Hm'. reflexivity.
Qed.

Theorem entry_ok_w_sound k f : is_rt k = false -> entry_ok_w k f = true -> sound_w k f.
Proof.
  intros Hk H. unfold entry_ok_w in H. apply andb_prop in H as [Hsig H].
  destruct (sig_ok_eq _ _ _ Hsig) as [Hps Hret].
  assert (H' : match wsym f with
               | Some (e, effs) => shape_ok k e && forallb (fun x => subterm_b x e) effs
               | None => false end = true) by (destruct k; try exact H; discriminate).
  clear H. destruct (wsym f) as [[e effs]|] eqn:Es; [|discriminate].
  apply andb_prop in H' as [Hshape Hsub].
  intros rs HF v Hv m brk.
  destruct (shape_sound k e Hshape rs HF v Hv) as (r & Hm & Hc & Hd).
  exists r. split; [|split; assumption].
  assert (Hlen : length (wparams f) = length rs).
  { rewrite Hps, map_length. apply (Forall2_len _ _ _ HF). }
  unfold wexec. rewrite <- Hlen, Nat.eqb_refl. unfold wsym in Es.
  assert (Hargs : combine (wparams f) rs = cargs k rs) by (unfold cargs; rewrite Hps; reflexivity).
  pose proof (winit_rel (wparams f) rs [] 0 eq_refl Hlen) as Hr. cbn [app] in Hr. rewrite Hargs in Hr.
  destruct (wsym_run_sound (cargs k rs) (wret f) (wbody f)
              {| w_stack := []; w_locals := cargs k rs ++ map (fun c => (c, 0)) (wlocals f); w_mem := m; w_brk := brk |}
              _ _ _ _ _ Es) as (r' & Hrun & Hm').
  - constructor.
  - cbn [w_locals]. apply Forall2_app; [exact Hr|apply zeros_rel].
  - intros x Hx. rewrite forallb_forall in Hsub. apply (subterm_defined _ x e (Hsub x Hx)). rewrite Hm. discriminate.
  - rewrite Hargs. rewrite Hm in Hm'. assert (r' = r) by congruence. subst r'. exact Hrun.
Qed.

(* canonical registers with the same denotation are the same word (w <-> i32, l <-> i64) *)
Lemma canonV_inj v r1 r2 : canonV v r1 -> canonV v r2 -> denoteV v r1 = denoteV v r2 -> r1 = r2.
Proof. destruct v; cbn; [apply canon_inj|auto]. Qed.
