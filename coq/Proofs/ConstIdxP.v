(* C04 — lemmas about Models/ConstIdx.v *)
From Coq Require Import ZArith List Bool Lia.
From FV Require Import Models.ConstIdx.
Import ListNotations.
Open Scope Z_scope.

(* ================================================================ i32 arithmetic *)
Lemma wrap32_range : forall x, in_i32 (wrap32 x).
Proof.
  intros x. unfold in_i32, wrap32.
  pose proof (Z.mod_pos_bound (x + 2147483648) 4294967296 ltac:(lia)). lia.
Qed.

Lemma wrap32_id : forall x, in_i32 x -> wrap32 x = x.
Proof.
  intros x H. unfold in_i32 in H. unfold wrap32.
  rewrite Z.mod_small by lia. lia.
Qed.

Lemma wrap32_mod : forall x, (wrap32 x) mod 4294967296 = x mod 4294967296.
Proof.
  intros x. unfold wrap32.
  replace ((x + 2147483648) mod 4294967296 - 2147483648)
    with ((x + 2147483648) mod 4294967296 + 2147483648 + (-1) * 4294967296) by lia.
  rewrite Z.mod_add by lia.
  rewrite Zplus_mod_idemp_l.
  replace (x + 2147483648 + 2147483648) with (x + 1 * 4294967296) by lia.
  apply Z.mod_add. lia.
Qed.

Lemma wrap32_congr : forall x y, x mod 4294967296 = y mod 4294967296 -> wrap32 x = wrap32 y.
Proof.
  intros x y H. unfold wrap32.
  rewrite <- (Zplus_mod_idemp_l x), <- (Zplus_mod_idemp_l y), H. reflexivity.
Qed.

Lemma wrap32_idem : forall x, wrap32 (wrap32 x) = wrap32 x.
Proof. intros x. apply wrap32_id, wrap32_range. Qed.

Lemma wrap32_neg : forall a, wrap32 (- wrap32 a) = wrap32 (- a).
Proof.
  intros a. apply wrap32_congr.
  replace (- wrap32 a) with (0 - wrap32 a) by lia. replace (- a) with (0 - a) by lia.
  rewrite Zminus_mod, wrap32_mod, <- Zminus_mod. reflexivity.
Qed.

Lemma wrap32_bin : forall o a b, wrap32 (bin o (wrap32 a) (wrap32 b)) = wrap32 (bin o a b).
Proof.
  intros o a b. apply wrap32_congr. destruct o; cbn [bin].
  - rewrite Zplus_mod, !wrap32_mod, <- Zplus_mod. reflexivity.
  - rewrite Zminus_mod, !wrap32_mod, <- Zminus_mod. reflexivity.
  - rewrite Zmult_mod, !wrap32_mod, <- Zmult_mod. reflexivity.
Qed.

(* ================================================================ the two run-time checks agree *)
Lemma checked_spec : forall n v k, checked n v = Some k <-> (- n <= v < n /\ k = norm n v).
Proof.
  intros n v k. unfold checked.
  destruct (- n <=? v) eqn:E1; destruct (v <? n) eqn:E2; cbn [andb]; split; intros H;
    try discriminate; try (injection H as <-; split; [lia | reflexivity]);
    try (destruct H as [H1 H2]; subst; try reflexivity; lia).
Qed.

Lemma checked_none : forall n v, checked n v = None <-> ~ (- n <= v < n).
Proof.
  intros n v. unfold checked.
  destruct (- n <=? v) eqn:E1; destruct (v <? n) eqn:E2; cbn [andb]; split; intros H;
    try discriminate; try lia; try reflexivity; exfalso; apply H; lia.
Qed.

Lemma checked_in_range : forall n v k, checked n v = Some k -> 0 <= k < n.
Proof.
  intros n v k H. apply checked_spec in H. destruct H as [H ->]. unfold norm.
  destruct (v <? 0) eqn:E; lia.
Qed.

(* emitBoundsCheckedIndex computes exactly the source-semantics check on i32 values *)
Lemma bci_checked : forall n v, 0 <= n < 2147483648 -> in_i32 v -> bci n v = checked n v.
Proof.
  intros n v Hn Hv. unfold in_i32 in Hv. unfold bci, checked, norm.
  destruct (v <? 0) eqn:E.
  - rewrite wrap32_id by (unfold in_i32; lia).
    destruct (n + v <? 0) eqn:E1; destruct (n <=? n + v) eqn:E2;
      destruct (- n <=? v) eqn:E3; destruct (v <? n) eqn:E4; cbn [orb andb]; try reflexivity; lia.
  - destruct (v <? 0) eqn:E1; destruct (n <=? v) eqn:E2;
      destruct (- n <=? v) eqn:E3; destruct (v <? n) eqn:E4; cbn [orb andb]; try reflexivity; lia.
Qed.

(* ================================================================ literal-only index expressions *)
Lemma is_lit_ceval : forall e c, is_lit e = true -> ceval c e = ceval cempty e.
Proof.
  induction e; intros c H; cbn [is_lit] in H; cbn [ceval]; try discriminate; try reflexivity.
  - rewrite (IHe c H). reflexivity.
  - apply andb_true_iff in H. destruct H as [H1 H2].
    rewrite (IHe1 c H1), (IHe2 c H2). reflexivity.
Qed.

Lemma eval_lit : forall e, is_lit e = true ->
  exists c, ceval cempty e = Some c /\ forall R vs arrs, eval R vs arrs e = ([], Some (wrap32 c)).
Proof.
  induction e; intros H; cbn [is_lit] in H; try discriminate.
  - exists z. split; [reflexivity | intros; reflexivity].
  - destruct (IHe H) as [c [Hc He]]. exists (- c). split.
    + cbn [ceval]. rewrite Hc. reflexivity.
    + intros. cbn [eval]. rewrite He. rewrite wrap32_neg. reflexivity.
  - apply andb_true_iff in H. destruct H as [H1 H2].
    destruct (IHe1 H1) as [c1 [Hc1 He1]]. destruct (IHe2 H2) as [c2 [Hc2 He2]].
    exists (bin o c1 c2). split.
    + cbn [ceval]. rewrite Hc1, Hc2. reflexivity.
    + intros. cbn [eval]. rewrite He1, He2. cbn [app]. rewrite wrap32_bin. reflexivity.
Qed.

(* every value an expression produces is an i32 *)
Lemma eval_i32 : forall R vs arrs e t v, eval R vs arrs e = (t, Some v) -> in_i32 v.
Proof.
  intros R vs arrs e t v H. destruct e; cbn [eval] in H.
  - injection H as _ <-. apply wrap32_range.
  - injection H as _ <-. apply wrap32_range.
  - destruct (eval R vs arrs e) as [t0 [v0|]]; [|discriminate]. injection H as _ <-. apply wrap32_range.
  - destruct (eval R vs arrs e1) as [t1 [v1|]]; [|discriminate].
    destruct (eval R vs arrs e2) as [t2 [v2|]]; [|discriminate]. injection H as _ <-. apply wrap32_range.
  - destruct (eval R vs arrs e) as [t0 [v0|]]; [|discriminate].
    destruct (R (alen arrs a) e v0); [|discriminate]. injection H as _ <-. apply wrap32_range.
Qed.

(* ================================================================ sites and the acceptance check *)
(* a site (array length n, index expression i) is fine when a literal-only index is in range at compile time *)
Definition site_ok (n : Z) (i : expr) : bool :=
  if is_lit i then match const_index cempty n i with Some _ => true | None => false end else true.

Fixpoint good_e (lens : list Z) (e : expr) : bool :=
  match e with
  | ELit _ | EVar _ => true
  | ENeg e => good_e lens e
  | EBin _ e1 e2 => good_e lens e1 && good_e lens e2
  | ERead a i => good_e lens i && site_ok (nth a lens 0) i
  end.

Fixpoint good_s (lens : list Z) (s : stmt) : bool :=
  match s with
  | SSkip | SIncr _ | SDecr _ => true
  | SSeq s1 s2 => good_s lens s1 && good_s lens s2
  | SLet _ e | SConst _ e | SAssign _ e | SOpAssign _ _ e | SPrint e => good_e lens e
  | SWrite a i e | SOpWrite a i _ e => good_e lens i && site_ok (nth a lens 0) i && good_e lens e
  | SIf _ e1 e2 t f => good_e lens e1 && good_e lens e2 && good_s lens t && good_s lens f
  | SWhile _ e1 e2 b => good_e lens e1 && good_e lens e2 && good_s lens b
  end.

Lemma check_bounds_site : forall c n i, check_bounds c n i = [] -> site_ok n i = true.
Proof.
  intros c n i H. unfold site_ok. destruct (is_lit i) eqn:L; [|reflexivity].
  unfold check_bounds in H. unfold const_index. rewrite (is_lit_ceval i c L) in H.
  destruct (as_int64 (ceval cempty i)) as [v|]; [|discriminate].
  destruct (((if v <? 0 then n + v else v) <? 0) || (n <=? (if v <? 0 then n + v else v))); [discriminate | reflexivity].
Qed.

Lemma walk_e_good : forall arrs c e, walk_e arrs c e = [] -> good_e (lens_of arrs) e = true.
Proof.
  induction e; intros H; cbn [walk_e] in H; cbn [good_e]; try reflexivity.
  - auto.
  - apply app_eq_nil in H. destruct H as [H1 H2]. rewrite IHe1, IHe2 by assumption. reflexivity.
  - apply app_eq_nil in H. destruct H as [H1 H2]. rewrite IHe by assumption.
    unfold alen in H2. rewrite (check_bounds_site _ _ _ H2). reflexivity.
Qed.

Lemma walk_s_good : forall arrs s cv, snd (walk_s arrs cv s) = [] -> good_s (lens_of arrs) s = true.
Proof.
  induction s; intros cv H; cbn [walk_s] in H; cbn [good_s]; try reflexivity;
    try (cbn [snd] in H; apply walk_e_good with (c := cv); assumption).
  - destruct (walk_s arrs cv s1) as [c1 d1] eqn:E1. destruct (walk_s arrs c1 s2) as [c2 d2] eqn:E2.
    cbn [snd] in H. apply app_eq_nil in H. destruct H as [H1 H2].
    rewrite (IHs1 cv), (IHs2 c1); [reflexivity | rewrite E2; assumption | rewrite E1; assumption].
  - cbn [snd] in H. apply app_eq_nil in H. destruct H as [H1 H3]. apply app_eq_nil in H1. destruct H1 as [H1 H2].
    rewrite (walk_e_good _ _ _ H1), (walk_e_good _ _ _ H3). unfold alen in H2.
    rewrite (check_bounds_site _ _ _ H2). reflexivity.
  - cbn [snd] in H. apply app_eq_nil in H. destruct H as [H1 H3]. apply app_eq_nil in H1. destruct H1 as [H1 H2].
    rewrite (walk_e_good _ _ _ H1), (walk_e_good _ _ _ H3). unfold alen in H2.
    rewrite (check_bounds_site _ _ _ H2). reflexivity.
  - destruct (walk_s arrs cv s1) as [c1 d1] eqn:E1. destruct (walk_s arrs c1 s2) as [c2 d2] eqn:E2.
    cbn [snd] in H. apply app_eq_nil in H. destruct H as [H0 H]. apply app_eq_nil in H. destruct H as [H1 H2].
    apply app_eq_nil in H0. destruct H0 as [Ha Hb].
    rewrite (walk_e_good _ _ _ Ha), (walk_e_good _ _ _ Hb).
    rewrite (IHs1 cv), (IHs2 c1); [reflexivity | rewrite E2; assumption | rewrite E1; assumption].
  - destruct (walk_s arrs cv s) as [c1 d1] eqn:E1.
    cbn [snd] in H. apply app_eq_nil in H. destruct H as [H0 H1].
    apply app_eq_nil in H0. destruct H0 as [Ha Hb].
    rewrite (walk_e_good _ _ _ Ha), (walk_e_good _ _ _ Hb).
    rewrite (IHs cv); [reflexivity | rewrite E1; assumption].
Qed.

(* ================================================================ the compiled resolvers agree with the source semantics *)
Definition small_lens (lens : list Z) : Prop := Forall (fun n => 0 <= n < 2147483648) lens.

Lemma small_nth : forall lens a, small_lens lens -> 0 <= nth a lens 0 < 2147483648.
Proof.
  intros lens a H. destruct (Nat.lt_ge_cases a (length lens)) as [L|L].
  - unfold small_lens in H. rewrite Forall_forall in H. apply H. apply nth_In. assumption.
  - rewrite nth_overflow by assumption. lia.
Qed.

Lemma small_arrs_lens : forall arrs, small_arrs arrs -> small_lens (lens_of arrs).
Proof.
  intros arrs H. unfold small_arrs in H. unfold small_lens, lens_of.
  induction H; cbn [map]; constructor; [lia | assumption].
Qed.

Lemma cres_write_sres : forall n i v, 0 <= n < 2147483648 -> in_i32 v -> cres_write n i v = sres n i v.
Proof. intros. unfold cres_write, sres. apply bci_checked; assumption. Qed.

Lemma cres_read_sres : forall n i v,
  0 <= n < 2147483648 -> in_i32 v -> site_ok n i = true ->
  (forall c, is_lit i = true -> ceval cempty i = Some c -> v = wrap32 c) ->
  cres_read n i v = sres n i v.
Proof.
  intros n i v Hn Hv Hs Hl. unfold cres_read, sres, static_index. unfold site_ok in Hs.
  destruct (is_lit i) eqn:L; [| apply bci_checked; assumption].
  unfold const_index in *.
  destruct (ceval cempty i) as [c|] eqn:Ec; cbn [as_int64] in *; [|discriminate].
  specialize (Hl c eq_refl eq_refl).
  destruct ((-9223372036854775808 <=? c) && (c <? 9223372036854775808)) eqn:E64; [|discriminate].
  destruct ((if c <? 0 then n + c else c) <? 0) eqn:E1; cbn [orb] in *; [discriminate|].
  destruct (n <=? (if c <? 0 then n + c else c)) eqn:E2; [discriminate|].
  assert (Hc : - n <= c < n) by (destruct (c <? 0) eqn:E0; lia).
  rewrite wrap32_id in Hl by (unfold in_i32; lia). subst v.
  unfold checked, norm.
  destruct (- n <=? c) eqn:E3; destruct (c <? n) eqn:E4; cbn [andb]; try lia. reflexivity.
Qed.

Lemma eval_agree : forall lens vs arrs e,
  small_lens lens -> lens_of arrs = lens -> good_e lens e = true ->
  eval cres_read vs arrs e = eval sres vs arrs e.
Proof.
  intros lens vs arrs e Hsm Hl. induction e; intros G; cbn [good_e] in G; cbn [eval]; try reflexivity.
  - rewrite IHe by assumption. reflexivity.
  - apply andb_true_iff in G. destruct G as [G1 G2]. rewrite IHe1, IHe2 by assumption. reflexivity.
  - apply andb_true_iff in G. destruct G as [G1 G2]. rewrite IHe by assumption.
    destruct (eval sres vs arrs e) as [t [v|]] eqn:E; [|reflexivity].
    assert (Hv : in_i32 v) by (eapply eval_i32; eassumption).
    unfold alen. rewrite Hl.
    rewrite cres_read_sres; try assumption; [reflexivity | apply small_nth; assumption |].
    intros c L Hc. destruct (eval_lit e L) as [c' [Hc' He]].
    rewrite He in E. rewrite Hc in Hc'. injection Hc' as <-. injection E as _ <-. reflexivity.
Qed.

(* ================================================================ array lengths never change *)
Lemma list_set_length : forall l k v, length (list_set l k v) = length l.
Proof. induction l; intros k v; destruct k; cbn [list_set length]; try reflexivity. rewrite IHl. reflexivity. Qed.

Lemma arrs_set_lens : forall arrs a k v, lens_of (arrs_set arrs a k v) = lens_of arrs.
Proof.
  unfold lens_of. induction arrs; intros a0 k v; destruct a0; cbn [arrs_set map]; try reflexivity.
  - rewrite list_set_length. reflexivity.
  - rewrite IHarrs. reflexivity.
Qed.

Ltac brk H :=
  repeat (unfold bind2 in H;
          match type of H with
          | context [match ?x with _ => _ end] => destruct x eqn:?
          end).

Ltac inj_all :=
  repeat match goal with
         | H : (_, _) = (_, _) |- _ => injection H; clear H; intros; subst
         end.

Lemma sem_lens : forall Rr Rw fuel s st t r st',
  sem Rr Rw fuel s st = (t, r, st') -> lens_of (st_arrs st') = lens_of (st_arrs st).
Proof.
  induction fuel; intros s st t r st' H.
  - cbn [sem] in H. inj_all. reflexivity.
  - destruct s; cbn [sem] in H.
    + inj_all. reflexivity.
    + destruct (sem Rr Rw fuel s1 st) as [[t1 r1] st1] eqn:E1.
      destruct r1.
      * destruct (sem Rr Rw fuel s2 st1) as [[t2 r2] st2] eqn:E2. inj_all.
        rewrite (IHfuel _ _ _ _ _ E2). apply (IHfuel _ _ _ _ _ E1).
      * inj_all. apply (IHfuel _ _ _ _ _ E1).
      * inj_all. apply (IHfuel _ _ _ _ _ E1).
    + brk H; inj_all; reflexivity.
    + brk H; inj_all; reflexivity.
    + brk H; inj_all; reflexivity.
    + brk H; inj_all; reflexivity.
    + inj_all. reflexivity.
    + inj_all. reflexivity.
    + brk H; inj_all; reflexivity.
    + brk H; inj_all; cbn [st_arrs]; try reflexivity; apply arrs_set_lens.
    + brk H; inj_all; cbn [st_arrs]; try reflexivity; apply arrs_set_lens.
    + unfold bind2 in H.
      destruct (eval Rr (st_vars st) (st_arrs st) e1) as [t1 [v1|]]; [|inj_all; reflexivity].
      destruct (eval Rr (st_vars st) (st_arrs st) e2) as [t2 [v2|]]; [|inj_all; reflexivity].
      destruct (sem Rr Rw fuel (if cmpb c v1 v2 then s1 else s2) st) as [[t3 r3] st3] eqn:E3.
      inj_all. apply (IHfuel _ _ _ _ _ E3).
    + unfold bind2 in H.
      destruct (eval Rr (st_vars st) (st_arrs st) e1) as [t1 [v1|]]; [|inj_all; reflexivity].
      destruct (eval Rr (st_vars st) (st_arrs st) e2) as [t2 [v2|]]; [|inj_all; reflexivity].
      destruct (cmpb c v1 v2); [|inj_all; reflexivity].
      destruct (sem Rr Rw fuel s st) as [[t3 r3] st3] eqn:E3.
      destruct r3.
      * destruct (sem Rr Rw fuel (SWhile c e1 e2 s) st3) as [[t4 r4] st4] eqn:E4. inj_all.
        rewrite (IHfuel _ _ _ _ _ E4). apply (IHfuel _ _ _ _ _ E3).
      * inj_all. apply (IHfuel _ _ _ _ _ E3).
      * inj_all. apply (IHfuel _ _ _ _ _ E3).
Qed.

(* ================================================================ compiled semantics = source semantics *)
Ltac split_good G :=
  repeat match type of G with
         | _ && _ = true => let G1 := fresh "G" in apply andb_true_iff in G; destruct G as [G1 G]
         end.

Lemma sem_agree : forall lens fuel s st,
  small_lens lens -> lens_of (st_arrs st) = lens -> good_s lens s = true ->
  sem cres_read cres_write fuel s st = sem sres sres fuel s st.
Proof.
  intros lens. induction fuel; intros s st Hsm Hl G; [reflexivity|].
  destruct s; cbn [good_s] in G; cbn [sem]; try reflexivity.
  - (* seq *)
    apply andb_true_iff in G. destruct G as [G1 G2].
    rewrite (IHfuel s1 st Hsm Hl G1).
    destruct (sem sres sres fuel s1 st) as [[t1 r1] st1] eqn:E1.
    destruct r1; try reflexivity.
    rewrite (IHfuel s2 st1 Hsm); [reflexivity | | assumption].
    rewrite (sem_lens _ _ _ _ _ _ _ _ E1). assumption.
  - rewrite (eval_agree lens) by assumption. reflexivity.
  - rewrite (eval_agree lens) by assumption. reflexivity.
  - rewrite (eval_agree lens) by assumption. reflexivity.
  - rewrite (eval_agree lens) by assumption. reflexivity.
  - rewrite (eval_agree lens) by assumption. reflexivity.
  - (* write *)
    apply andb_true_iff in G. destruct G as [G Ge]. apply andb_true_iff in G. destruct G as [Gi Gs].
    rewrite (eval_agree lens _ _ i) by assumption. rewrite (eval_agree lens _ _ e) by assumption.
    unfold bind2. destruct (eval sres (st_vars st) (st_arrs st) i) as [t [iv|]] eqn:E; [|reflexivity].
    rewrite cres_write_sres; [reflexivity | | eapply eval_i32; eassumption].
    unfold alen. rewrite Hl. apply small_nth. assumption.
  - (* compound write *)
    apply andb_true_iff in G. destruct G as [G Ge]. apply andb_true_iff in G. destruct G as [Gi Gs].
    rewrite (eval_agree lens _ _ i) by assumption. rewrite (eval_agree lens _ _ e) by assumption.
    unfold bind2. destruct (eval sres (st_vars st) (st_arrs st) i) as [t [iv|]] eqn:E; [|reflexivity].
    rewrite cres_write_sres; [reflexivity | | eapply eval_i32; eassumption].
    unfold alen. rewrite Hl. apply small_nth. assumption.
  - (* if *)
    apply andb_true_iff in G. destruct G as [G Gf]. apply andb_true_iff in G. destruct G as [G Gt].
    apply andb_true_iff in G. destruct G as [G1 G2].
    rewrite (eval_agree lens _ _ e1) by assumption. rewrite (eval_agree lens _ _ e2) by assumption.
    unfold bind2. destruct (eval sres (st_vars st) (st_arrs st) e1) as [t1 [v1|]]; [|reflexivity].
    destruct (eval sres (st_vars st) (st_arrs st) e2) as [t2 [v2|]]; [|reflexivity].
    rewrite IHfuel; [reflexivity | assumption | assumption |].
    destruct (cmpb c v1 v2); assumption.
  - (* while *)
    assert (G' := G).
    apply andb_true_iff in G. destruct G as [G Gb]. apply andb_true_iff in G. destruct G as [G1 G2].
    rewrite (eval_agree lens _ _ e1) by assumption. rewrite (eval_agree lens _ _ e2) by assumption.
    unfold bind2. destruct (eval sres (st_vars st) (st_arrs st) e1) as [t1 [v1|]]; [|reflexivity].
    destruct (eval sres (st_vars st) (st_arrs st) e2) as [t2 [v2|]]; [|reflexivity].
    destruct (cmpb c v1 v2); [|reflexivity].
    rewrite (IHfuel s st Hsm Hl Gb).
    destruct (sem sres sres fuel s st) as [[t3 r3] st3] eqn:E3.
    destruct r3; try reflexivity.
    rewrite (IHfuel (SWhile c e1 e2 s) st3 Hsm); [reflexivity | | exact G'].
    rewrite (sem_lens _ _ _ _ _ _ _ _ E3). assumption.
Qed.

Theorem csem_eq_ssem : forall p, small_arrs (p_arrs p) -> accepted p -> forall fuel, csem fuel p = ssem fuel p.
Proof.
  intros p Hs Ha fuel. unfold csem, ssem, run.
  rewrite (sem_agree (lens_of (p_arrs p))); [reflexivity | apply small_arrs_lens; assumption | reflexivity |].
  apply walk_s_good with (cv := cempty). exact Ha.
Qed.

(* ================================================================ every access of the source semantics is in bounds *)
Definition ev_ok (lens : list Z) (ev : event) : Prop :=
  match ev with
  | EvOut _ => True
  | EvRd a k => 0 <= k < nth a lens 0
  | EvWr a k _ => 0 <= k < nth a lens 0
  end.

Lemma eval_bounds : forall vs arrs e t r, eval sres vs arrs e = (t, r) -> Forall (ev_ok (lens_of arrs)) t.
Proof.
  intros vs arrs. induction e; intros t r H; cbn [eval] in H.
  - inj_all. constructor.
  - inj_all. constructor.
  - destruct (eval sres vs arrs e) as [t0 r0]. inj_all. eapply IHe. reflexivity.
  - destruct (eval sres vs arrs e1) as [t1 [v1|]].
    + destruct (eval sres vs arrs e2) as [t2 r2]. inj_all. apply Forall_app. split.
      * eapply IHe1. reflexivity.
      * eapply IHe2. reflexivity.
    + inj_all. eapply IHe1. reflexivity.
  - destruct (eval sres vs arrs e) as [t0 [v0|]].
    + destruct (sres (alen arrs a) e v0) as [k|] eqn:Ek.
      * inj_all. apply Forall_app. split; [eapply IHe; reflexivity|].
        constructor; [|constructor]. cbn [ev_ok]. unfold sres in Ek.
        apply checked_in_range in Ek. exact Ek.
      * inj_all. eapply IHe. reflexivity.
    + inj_all. eapply IHe. reflexivity.
Qed.

Lemma Forall_app3 : forall (P : event -> Prop) a b c, Forall P a -> Forall P b -> Forall P c -> Forall P (a ++ b ++ c).
Proof. intros. apply Forall_app; split; [assumption | apply Forall_app; split; assumption]. Qed.

Lemma sem_bounds : forall fuel s st t r st',
  sem sres sres fuel s st = (t, r, st') -> Forall (ev_ok (lens_of (st_arrs st))) t.
Proof.
  induction fuel; intros s st t r st' H.
  - cbn [sem] in H. inj_all. constructor.
  - destruct s; cbn [sem] in H.
    + inj_all. constructor.
    + destruct (sem sres sres fuel s1 st) as [[t1 r1] st1] eqn:E1.
      assert (B1 := IHfuel _ _ _ _ _ E1). assert (L1 := sem_lens _ _ _ _ _ _ _ _ E1).
      destruct r1; try (inj_all; assumption).
      destruct (sem sres sres fuel s2 st1) as [[t2 r2] st2] eqn:E2.
      assert (B2 := IHfuel _ _ _ _ _ E2). rewrite L1 in B2. inj_all.
      apply Forall_app. split; assumption.
    + unfold bind2 in H. destruct (eval sres (st_vars st) (st_arrs st) e) as [t0 [v0|]] eqn:E;
        apply eval_bounds in E; inj_all; assumption.
    + unfold bind2 in H. destruct (eval sres (st_vars st) (st_arrs st) e) as [t0 [v0|]] eqn:E;
        apply eval_bounds in E; inj_all; assumption.
    + unfold bind2 in H. destruct (eval sres (st_vars st) (st_arrs st) e) as [t0 [v0|]] eqn:E;
        apply eval_bounds in E; inj_all; assumption.
    + unfold bind2 in H. destruct (eval sres (st_vars st) (st_arrs st) e) as [t0 [v0|]] eqn:E;
        apply eval_bounds in E; inj_all; assumption.
    + inj_all. constructor.
    + inj_all. constructor.
    + unfold bind2 in H. destruct (eval sres (st_vars st) (st_arrs st) e) as [t0 [v0|]] eqn:E;
        apply eval_bounds in E; inj_all; try assumption.
      apply Forall_app. split; [assumption | repeat constructor].
    + unfold bind2 in H.
      destruct (eval sres (st_vars st) (st_arrs st) i) as [t0 [iv|]] eqn:E; apply eval_bounds in E;
        [|inj_all; assumption].
      destruct (sres (alen (st_arrs st) a) i iv) as [k|] eqn:Ek; [|inj_all; assumption].
      unfold sres in Ek. apply checked_in_range in Ek.
      destruct (eval sres (st_vars st) (st_arrs st) e) as [t2 [v2|]] eqn:E2; apply eval_bounds in E2;
        inj_all; [|apply Forall_app; split; assumption].
      apply Forall_app3; try assumption. constructor; [exact Ek | constructor].
    + unfold bind2 in H.
      destruct (eval sres (st_vars st) (st_arrs st) i) as [t0 [iv|]] eqn:E; apply eval_bounds in E;
        [|inj_all; assumption].
      destruct (sres (alen (st_arrs st) a) i iv) as [k|] eqn:Ek; [|inj_all; assumption].
      unfold sres in Ek. apply checked_in_range in Ek.
      destruct (eval sres (st_vars st) (st_arrs st) e) as [t2 [v2|]] eqn:E2; apply eval_bounds in E2;
        inj_all; [|apply Forall_app; split; assumption].
      apply Forall_app3; try assumption. constructor; [exact Ek | constructor; [exact Ek | constructor]].
    + unfold bind2 in H.
      destruct (eval sres (st_vars st) (st_arrs st) e1) as [t1 [v1|]] eqn:E1; apply eval_bounds in E1;
        [|inj_all; assumption].
      destruct (eval sres (st_vars st) (st_arrs st) e2) as [t2 [v2|]] eqn:E2; apply eval_bounds in E2;
        [|inj_all; apply Forall_app; split; assumption].
      destruct (sem sres sres fuel (if cmpb c v1 v2 then s1 else s2) st) as [[t3 r3] st3] eqn:E3.
      apply IHfuel in E3. inj_all. apply Forall_app3; assumption.
    + unfold bind2 in H.
      destruct (eval sres (st_vars st) (st_arrs st) e1) as [t1 [v1|]] eqn:E1; apply eval_bounds in E1;
        [|inj_all; assumption].
      destruct (eval sres (st_vars st) (st_arrs st) e2) as [t2 [v2|]] eqn:E2; apply eval_bounds in E2;
        [|inj_all; apply Forall_app; split; assumption].
      destruct (cmpb c v1 v2); [|inj_all; apply Forall_app; split; assumption].
      destruct (sem sres sres fuel s st) as [[t3 r3] st3] eqn:E3.
      assert (B3 := IHfuel _ _ _ _ _ E3). assert (L3 := sem_lens _ _ _ _ _ _ _ _ E3).
      destruct r3; try (inj_all; apply Forall_app3; assumption).
      destruct (sem sres sres fuel (SWhile c e1 e2 s) st3) as [[t4 r4] st4] eqn:E4.
      assert (B4 := IHfuel _ _ _ _ _ E4). rewrite L3 in B4. inj_all.
      apply Forall_app3; try assumption. apply Forall_app. split; assumption.
Qed.

Theorem ssem_in_bounds : forall p fuel t r, ssem fuel p = (t, r) -> Forall (ev_ok (lens_of (p_arrs p))) t.
Proof.
  intros p fuel t r H. unfold ssem, run in H.
  destruct (sem sres sres fuel (p_body p) (init p)) as [[t0 r0] st0] eqn:E. cbn [fst] in H. inj_all.
  apply sem_bounds in E. exact E.
Qed.

Theorem csem_in_bounds : forall p, small_arrs (p_arrs p) -> accepted p ->
  forall fuel t r, csem fuel p = (t, r) -> Forall (ev_ok (lens_of (p_arrs p))) t.
Proof.
  intros p Hs Ha fuel t r H. rewrite (csem_eq_ssem p Hs Ha) in H. eapply ssem_in_bounds. eassumption.
Qed.

(* ================================================================ compile-time rejection of literal indices out of range *)
Lemma literal_oob_rejected : forall c n i v,
  is_lit i = true -> ceval cempty i = Some v -> - 9223372036854775808 <= v < 9223372036854775808 ->
  0 <= n -> ~ (- n <= v < n) -> check_bounds c n i = [DOutOfBounds].
Proof.
  intros c n i v L Hc H64 Hn Ho. unfold check_bounds. rewrite (is_lit_ceval i c L), Hc. cbn [as_int64].
  destruct (-9223372036854775808 <=? v) eqn:E1; destruct (v <? 9223372036854775808) eqn:E2; cbn [andb]; try lia.
  destruct (v <? 0) eqn:E0.
  - destruct (n + v <? 0) eqn:E3; cbn [orb]; [reflexivity|]. destruct (n <=? n + v) eqn:E4; [reflexivity | lia].
  - destruct (v <? 0) eqn:E3; cbn [orb]; [lia|]. destruct (n <=? v) eqn:E4; [reflexivity | lia].
Qed.

(* ================================================================ witnesses *)
(* let v0 := 0; Println(a0[v0]); v0 = 2; Println(a0[v0]);   with a0 = [10, 20, 30] *)
Definition w_stale : prog :=
  {| p_arrs := [[10; 20; 30]];
     p_body := SSeq (SLet 0 (ELit 0)) (SSeq (SPrint (ERead 0 (EVar 0)))
              (SSeq (SAssign 0 (ELit 2)) (SPrint (ERead 0 (EVar 0))))) |}.

(* let v0 := 0; while v0 < 5 { Println(a0[v0]); v0 = v0 + 1; }   with a0 = [10, 20, 30] *)
Definition w_loop : prog :=
  {| p_arrs := [[10; 20; 30]];
     p_body := SSeq (SLet 0 (ELit 0))
              (SWhile Lt (EVar 0) (ELit 5)
                 (SSeq (SPrint (ERead 0 (EVar 0))) (SAssign 0 (EBin Add (EVar 0) (ELit 1))))) |}.

(* a0[-1] = 7; let v0 := -3; a0[v0] += 1;  with a0 = [10, 20, 30] *)
Definition w_neg : prog :=
  {| p_arrs := [[10; 20; 30]];
     p_body := SSeq (SWrite 0 (ENeg (ELit 1)) (ELit 7))
              (SSeq (SLet 0 (ENeg (ELit 3))) (SOpWrite 0 (EVar 0) Add (ELit 1))) |}.

Lemma small_w : small_arrs [[10; 20; 30]].
Proof. repeat constructor. Qed.

Lemma stale_refuted :
  exists p, small_arrs (p_arrs p) /\ accepted p /\ exists fuel, csem_stale fuel p <> ssem fuel p.
Proof.
  exists w_stale. split; [exact small_w|]. split; [vm_compute; reflexivity|].
  exists 20%nat. intro H. vm_compute in H. discriminate H.
Qed.

Lemma nonvacuous :
  accepted w_loop /\ small_arrs (p_arrs w_loop) /\
  csem 50 w_loop = ([EvRd 0 0; EvOut 10; EvRd 0 1; EvOut 20; EvRd 0 2; EvOut 30], Panicked) /\
  accepted w_neg /\
  csem 50 w_neg = ([EvWr 0 2 7; EvRd 0 0; EvWr 0 0 11], Done).
Proof.
  split; [vm_compute; reflexivity|]. split; [exact small_w|].
  split; [vm_compute; reflexivity|]. split; vm_compute; reflexivity.
Qed.
