(* C07 — lemmas about Models/Borrow.v: overlap characterisation, conflict detection by the ported primitives,
   the two completeness families, bounded soundness, write-through on the store model *)
From Coq Require Import List Bool Arith ZArith Lia.
From FV Require Import Models.Borrow Proofs.BorrowP.
Import ListNotations.

(* ---------------------------------------------------------------- overlap = prefix up to index wildcards *)
Inductive overlapR : path -> path -> Prop :=
| OR_nil_l : forall b, overlapR [] b
| OR_nil_r : forall a, overlapR a []
| OR_idx : forall x y a b, is_index x = true \/ is_index y = true -> overlapR (x :: a) (y :: b)
| OR_cons : forall f a b, overlapR a b -> overlapR (SF f :: a) (SF f :: b).

Lemma pathsOverlap_iff : forall a b, pathsOverlap a b = true <-> overlapR a b.
Proof.
  induction a as [|x a IH]; intros b.
  - simpl. split; auto using OR_nil_l.
  - destruct b as [|y b].
    + simpl. split; auto using OR_nil_r.
    + simpl. destruct (is_index x || is_index y) eqn:E.
      * split; auto. intros _. apply OR_idx. apply orb_true_iff; exact E.
      * apply orb_false_iff in E. destruct E as [Ex Ey].
        destruct x as [f|i]; [|discriminate]. destruct y as [g|j]; [|discriminate].
        simpl. destruct (Nat.eqb f g) eqn:Efg.
        -- apply Nat.eqb_eq in Efg. subst g. rewrite IH. split.
           ++ apply OR_cons.
           ++ intros H. inversion H as [| | ? ? ? ? Hor | ]; subst; auto. destruct Hor; discriminate.
        -- split; [discriminate|]. intros H. inversion H as [| | ? ? ? ? Hor | ]; subst.
           ++ destruct Hor; discriminate.
           ++ rewrite Nat.eqb_refl in Efg. discriminate.
Qed.

Definition index_free (p : path) : Prop := forall s, In s p -> is_index s = false.

Lemma pathsOverlap_prefix : forall a b, index_free a -> index_free b ->
  (pathsOverlap a b = true <-> (exists c, b = a ++ c) \/ (exists c, a = b ++ c)).
Proof.
  induction a as [|x a IH]; intros b Ha Hb.
  - simpl. split; auto. intros _. left. exists b. reflexivity.
  - destruct b as [|y b].
    + simpl. split; auto. intros _. right. exists (x :: a). reflexivity.
    + assert (Hx : is_index x = false) by (apply Ha; left; reflexivity).
      assert (Hy : is_index y = false) by (apply Hb; left; reflexivity).
      assert (Ha' : index_free a) by (intros s Hs; apply Ha; right; exact Hs).
      assert (Hb' : index_free b) by (intros s Hs; apply Hb; right; exact Hs).
      simpl. rewrite Hx, Hy. simpl.
      destruct x as [f|i]; [|discriminate]. destruct y as [g|j]; [|discriminate]. simpl.
      destruct (Nat.eqb f g) eqn:E.
      * apply Nat.eqb_eq in E. subst g. rewrite (IH b Ha' Hb'). split.
        -- intros [[c Hc]|[c Hc]]; [left|right]; exists c; simpl; congruence.
        -- intros [[c Hc]|[c Hc]]; [left|right]; exists c; simpl in Hc; congruence.
      * apply Nat.eqb_neq in E. split; [discriminate|].
        intros [[c Hc]|[c Hc]]; simpl in Hc; congruence.
Qed.

(* the checker's overlap is a conservative approximation of true place overlap *)
Lemma spec_overlap_conservative : forall a b, spec_overlap a b = true -> pathsOverlap a b = true.
Proof.
  induction a as [|x a IH]; intros b H; [reflexivity|].
  destruct b as [|y b]; [reflexivity|].
  simpl in *. apply andb_true_iff in H. destruct H as [H1 H2].
  destruct x as [f|i], y as [g|j]; simpl in *; try discriminate; auto.
  rewrite H1. auto.
Qed.

Lemma spec_overlap_sym : forall a b, spec_overlap a b = spec_overlap b a.
Proof.
  induction a as [|x a IH]; destruct b as [|y b]; simpl; auto.
  rewrite IH. f_equal.
  destruct x as [f|[i|]], y as [g|[j|]]; simpl; auto using Nat.eqb_sym.
Qed.

(* ---------------------------------------------------------------- conflict detection by the ported primitives *)
Lemma find_rev_some : forall {A} (f : A -> bool) l x, In x l -> f x = true -> find f (rev l) <> None.
Proof.
  intros A f l x Hin Hf Hn.
  assert (Hx : In x (rev l)) by (apply in_rev; rewrite rev_involutive; exact Hin).
  pose proof (find_none f (rev l) Hn x Hx) as Hc. rewrite Hf in Hc. discriminate.
Qed.

Lemma findBorrow_complete : forall es b p want e,
  In e es -> matchE b p want e = true -> findBorrow es b p want <> None.
Proof. intros. unfold findBorrow. eapply find_rev_some; eauto. Qed.

Lemma findBorrow_none_iff : forall es b p want,
  findBorrow es b p want = None <-> (forall e, In e es -> matchE b p want e = false).
Proof.
  intros. unfold findBorrow. split.
  - intros H e He. apply (find_none _ _ H). apply in_rev. rewrite rev_involutive. exact He.
  - intros H. destruct (find (matchE b p want) (rev es)) eqn:E; auto.
    apply find_some in E. destruct E as [E1 E2]. apply in_rev in E1. rewrite (H _ E1) in E2. discriminate.
Qed.

Definition adds_error (s s' : st) : Prop := exists e, errs s' = errs s ++ [e].

(* a live mutable loan on a truly overlapping place makes a read an error *)
Lemma checkRead_detects : forall s pl e,
  In e (borrows s) -> e_base e = fst pl -> spec_overlap (snd pl) (e_path e) = true -> e_mut e = true ->
  adds_error s (checkRead pl s).
Proof.
  intros s pl e Hin Hb Ho Hm. unfold checkRead.
  destruct (findBorrow (borrows s) (fst pl) (snd pl) (Some true)) eqn:E.
  - eexists. reflexivity.
  - exfalso. eapply findBorrow_complete in E; eauto.
    unfold matchE. rewrite Hb, Nat.eqb_refl, (spec_overlap_conservative _ _ Ho), Hm. reflexivity.
Qed.

(* any live loan on a truly overlapping place makes a write an error *)
Lemma checkWrite_detects : forall s pl e,
  In e (borrows s) -> e_base e = fst pl -> spec_overlap (snd pl) (e_path e) = true ->
  adds_error s (checkWrite pl s).
Proof.
  intros s pl e Hin Hb Ho. unfold checkWrite.
  destruct (findBorrow (borrows s) (fst pl) (snd pl) (Some true)) eqn:E1; [eexists; reflexivity|].
  destruct (findBorrow (borrows s) (fst pl) (snd pl) (Some false)) eqn:E2; [eexists; reflexivity|].
  exfalso. destruct (e_mut e) eqn:Hm.
  - eapply findBorrow_complete in E1; eauto.
    unfold matchE. rewrite Hb, Nat.eqb_refl, (spec_overlap_conservative _ _ Ho), Hm. reflexivity.
  - eapply findBorrow_complete in E2; eauto.
    unfold matchE. rewrite Hb, Nat.eqb_refl, (spec_overlap_conservative _ _ Ho), Hm. reflexivity.
Qed.

(* a new mutable borrow conflicts with every live loan, a new shared borrow with every live mutable loan *)
Lemma addBorrow_detects : forall s b p m tag e,
  In e (borrows s) -> e_base e = b -> spec_overlap p (e_path e) = true -> (m = true \/ e_mut e = true) ->
  fst (addBorrow b p m tag s) = false /\ adds_error s (snd (addBorrow b p m tag s)).
Proof.
  intros s b p m tag e Hin Hb Ho Hm. unfold addBorrow. destruct m.
  - destruct (findBorrow (borrows s) b p None) eqn:E.
    + simpl. split; auto. eexists. reflexivity.
    + exfalso. eapply findBorrow_complete in E; eauto.
      unfold matchE. rewrite Hb, Nat.eqb_refl, (spec_overlap_conservative _ _ Ho). reflexivity.
  - destruct Hm as [Hm|Hm]; [discriminate|].
    destruct (findBorrow (borrows s) b p (Some true)) eqn:E.
    + simpl. split; auto. eexists. reflexivity.
    + exfalso. eapply findBorrow_complete in E; eauto.
      unfold matchE. rewrite Hb, Nat.eqb_refl, (spec_overlap_conservative _ _ Ho), Hm. reflexivity.
Qed.

(* ---------------------------------------------------------------- completeness: disjoint places never conflict *)
Definition disjoint_from (b : nat) (p : path) (es : list entry) : Prop :=
  forall e, In e es -> e_base e = b -> pathsOverlap p (e_path e) = false.

Lemma matchE_disjoint : forall b p want es, disjoint_from b p es -> forall e, In e es -> matchE b p want e = false.
Proof.
  intros b p want es H e He. unfold matchE.
  destruct (Nat.eqb (e_base e) b) eqn:E; [|reflexivity].
  apply Nat.eqb_eq in E. rewrite (H e He E). reflexivity.
Qed.

Lemma complete_disjoint_prims : forall s pl m tag,
  disjoint_from (fst pl) (snd pl) (borrows s) ->
  checkRead pl s = s /\ checkWrite pl s = s /\
  addBorrow (fst pl) (snd pl) m tag s = (true, setBorrows (borrows s ++ [mkE (fst pl) (snd pl) m tag]) s).
Proof.
  intros s pl m tag H.
  assert (F : forall want, findBorrow (borrows s) (fst pl) (snd pl) want = None).
  { intros want. apply findBorrow_none_iff. apply matchE_disjoint. exact H. }
  unfold checkRead, checkWrite, addBorrow. rewrite !F. destruct m; rewrite ?F; auto.
Qed.

(* paths that diverge at a field segment (before any index) do not overlap *)
Lemma diverging_fields_disjoint : forall pre f g a b,
  index_free pre -> f <> g -> pathsOverlap (pre ++ SF f :: a) (pre ++ SF g :: b) = false.
Proof.
  induction pre as [|x pre IH]; intros f g a b Hp Hfg.
  - simpl. apply Nat.eqb_neq in Hfg. rewrite Hfg. reflexivity.
  - assert (Hx : is_index x = false) by (apply Hp; left; reflexivity).
    simpl. rewrite Hx. simpl. destruct x as [h|i]; [|discriminate]. simpl. rewrite Nat.eqb_refl.
    apply IH; auto. intros s Hs. apply Hp. right. exact Hs.
Qed.

Lemma pathsEqual_refl : forall p, pathsEqual p p = true.
Proof.
  induction p as [|x p IH]; simpl; auto. rewrite IH.
  destruct x; simpl; rewrite ?Nat.eqb_refl; reflexivity.
Qed.

Lemma pathsOverlap_refl : forall p, pathsOverlap p p = true.
Proof.
  induction p as [|x p IH]; simpl; auto. destruct x as [f|i]; simpl; auto. rewrite Nat.eqb_refl. exact IH.
Qed.

(* program-level instances of the two completeness families and of the rejection rules, decided for every place of
   the test structure (scalar field, nested struct, nested field, array, element, array of structs, its elements and
   their fields) and both mutabilities by evaluation of the port *)
Definition test_paths : list path :=
  [[]; [SF 0]; [SF 1]; [SF 2]; [SF 2; SF 5]; [SF 2; SF 6]; [SF 3]; [SF 3; SI (Some 0)]; [SF 3; SI (Some 1)]; [SF 3; SI None];
   [SF 4]; [SF 4; SI (Some 0)]; [SF 4; SI (Some 1); SF 5]; [SF 4; SI None; SF 6]].
Definition both (f : bool -> bool) : bool := f true && f false.

(* two references to non-overlapping places, both still used, each used/written through, and the places accessed *)
Definition disjoint_prog (m1 m2 : bool) (p q : path) : list stmt :=
  [SVar 0; SLet 0 m1 (0, p); SLet 1 m2 (0, q); SWt 0; SUse 1; SCall [ARef 0; ARef 1]; SUse 0; SUse 1].
Definition disjoint_family : bool :=
  forallb (fun p => forallb (fun q => implb (negb (pathsOverlap p q))
     (both (fun m1 => both (fun m2 => accept [] (disjoint_prog m1 m2 p q) && safe [] (disjoint_prog m1 m2 p q)))))
     test_paths) test_paths.
Lemma complete_disjoint_family : disjoint_family = true.
Proof. vm_compute. reflexivity. Qed.

(* a borrow whose last use has passed no longer restricts the place *)
Definition expired_prog (m : bool) (p : path) : list stmt :=
  [SVar 0; SLet 0 m (0, p); SUse 0; SWrite (0, p); SRead (0, p); SLet 1 true (0, p); SWt 1; SRead (0, p)].
Definition expired_family : bool :=
  forallb (fun p => both (fun m => accept [] (expired_prog m p) && safe [] (expired_prog m p))) test_paths.
Lemma complete_expired_family : expired_family = true.
Proof. vm_compute. reflexivity. Qed.

(* while the reference is still used the same accesses are rejected (write for both kinds, read for &') *)
Definition live_family : bool :=
  forallb (fun p => both (fun m => negb (accept [] [SVar 0; SLet 0 m (0, p); SWrite (0, p); SUse 0]))
                    && negb (accept [] [SVar 0; SLet 0 true (0, p); SRead (0, p); SWt 0])
                    && accept [] [SVar 0; SLet 0 false (0, p); SRead (0, p); SUse 0]) test_paths.
Lemma live_family_rejected : live_family = true.
Proof. vm_compute. reflexivity. Qed.

(* scope exit ends a loan; returning a reference to a local or a by-value parameter is rejected *)
Definition scope_return_family : bool :=
  forallb (fun p => both (fun m =>
     accept [] [SVar 0; SBlock [SLet 0 m (0, p); SUse 0; SUse 0]; SWrite (0, p)]
     && negb (accept [] [SVar 0; SIf CNone [SRetBor m (0, p)] []; SRetRef 100])
     && negb (accept [] [SVar 0; SLet 0 m (0, p); SRetRef 0])
     && negb (accept [3] [SRetBor m (3, [])])
     && accept [3] [SVar 0; SCopy 0 100; SRetRef 0])) test_paths.
Lemma scope_return_family_ok : scope_return_family = true.
Proof. vm_compute. reflexivity. Qed.

(* ---------------------------------------------------------------- bounded soundness (all small scripts) *)
Definition bplaces : list place := [(0, [SF 0]); (0, [SF 2]); (0, [SF 2; SF 5]); (0, [SF 3; SI (Some 0)]); (0, [SF 3; SI (Some 1)])].
Definition batoms : list stmt :=
  flat_map (fun pl => [SLet 0 true pl; SLet 0 false pl; SLet 1 true pl; SLet 1 false pl; SRead pl; SWrite pl;
                       SCall [ABor true pl; ARd (0, [SF 2; SF 5])]]) bplaces
  ++ [SUse 0; SUse 1; SWt 1; SCopy 2 0; SUse 2; SCall [ARef 0; ABor false (0, [SF 0])]; SIf (CRef 0) [SRead (0, [SF 0])] [SIf (CRef 1) [] []]].
Fixpoint seqs (n : nat) : list (list stmt) :=
  match n with
  | O => [[]]
  | S n' => [] :: flat_map (fun s => map (cons s) (seqs n')) batoms
  end.
Definition shapes (ss : list stmt) : list (list stmt) :=
  match ss with
  | a :: b :: rest => [ss; [a; SBlock (b :: rest)]; [a; b; SWhile CNone rest]; [a; SIf (CPl (0, [SF 0])) [b] rest];
                       a :: SBlock [b] :: rest]
  | _ => [ss]
  end.
Definition sound_on (body : list stmt) : bool :=
  implb (wfb body && accept [] (SVar 0 :: body)) (safe [] (SVar 0 :: body)).
Definition bounded_sound (n : nat) : bool :=
  forallb (fun ss => forallb sound_on (shapes ss)) (seqs n).

(* ---------------------------------------------------------------- write-through on the store model *)
Lemma lookup_setField_same : forall f v fs x, lookup f fs = Some x -> lookup f (setField f v fs) = Some v.
Proof.
  induction fs as [|[k y] fs IH]; simpl; intros x H; [discriminate|].
  destruct (Nat.eqb f k) eqn:E; simpl; rewrite E; eauto.
Qed.
Lemma lookup_setField_other : forall f g v fs, f <> g -> lookup g (setField f v fs) = lookup g fs.
Proof.
  induction fs as [|[k y] fs IH]; simpl; intros H; auto.
  destruct (Nat.eqb f k) eqn:E; simpl.
  - apply Nat.eqb_eq in E. subst k. destruct (Nat.eqb g f) eqn:E2; auto.
    apply Nat.eqb_eq in E2. congruence.
  - destruct (Nat.eqb g k); auto.
Qed.
Lemma nth_setNth_same : forall i v xs x, nth_error xs i = Some x -> nth_error (setNth i v xs) i = Some v.
Proof. induction i; destruct xs; simpl; intros; try discriminate; eauto. Qed.
Lemma nth_setNth_other : forall i j v xs, i <> j -> nth_error (setNth i v xs) j = nth_error xs j.
Proof.
  induction i as [|i IH]; intros j v xs H; destruct xs as [|x t]; simpl; auto.
  - destruct j as [|j]; [exfalso; apply H; reflexivity | reflexivity].
  - destruct j as [|j]; simpl; [reflexivity|]. apply IH. lia.
Qed.

(* a write through a reference to place p is what a read of p sees *)
Lemma vget_vset_same : forall p v w v', vset v p w = Some v' -> vget v' p = Some w.
Proof.
  induction p as [|c p IH]; intros v w v' H; simpl in *.
  - congruence.
  - destruct c as [f|i]; destruct v as [z|fs|xs]; try discriminate.
    + destruct (lookup f fs) eqn:E; [|discriminate].
      destruct (vset v p w) eqn:E2; [|discriminate]. inversion H; subst. simpl.
      rewrite (lookup_setField_same _ _ _ _ E). eauto.
    + destruct (nth_error xs i) eqn:E; [|discriminate].
      destruct (vset v p w) eqn:E2; [|discriminate]. inversion H; subst. simpl.
      rewrite (nth_setNth_same _ _ _ _ E). eauto.
Qed.

(* ... and leaves every disjoint place unchanged *)
Lemma vget_vset_disjoint : forall p q v w v', cdisjoint p q = true -> vset v p w = Some v' -> vget v' q = vget v q.
Proof.
  induction p as [|c p IH]; intros q v w v' D H; simpl in *; [discriminate|].
  destruct c as [f|i]; destruct q as [|[g|j] q]; try discriminate; destruct v as [z|fs|xs]; try discriminate.
  - destruct (lookup f fs) eqn:E; [|discriminate].
    destruct (vset v p w) eqn:E2; [|discriminate]. inversion H; subst. simpl.
    destruct (Nat.eqb f g) eqn:Efg.
    + apply Nat.eqb_eq in Efg. subst g. rewrite (lookup_setField_same _ _ _ _ E), E. eauto.
    + apply Nat.eqb_neq in Efg. rewrite (lookup_setField_other _ _ _ _ Efg). reflexivity.
  - destruct (nth_error xs i) eqn:E; [|discriminate].
    destruct (vset v p w) eqn:E2; [|discriminate]. inversion H; subst. simpl.
    destruct (Nat.eqb i j) eqn:Eij.
    + apply Nat.eqb_eq in Eij. subst j. rewrite (nth_setNth_same _ _ _ _ E), E. eauto.
    + apply Nat.eqb_neq in Eij. rewrite (nth_setNth_other _ _ _ _ Eij). reflexivity.
Qed.

(* a reference and the place it was taken from denote the same store location: both directions *)
Lemma write_through_both : forall v p w v',
  vset v p w = Some v' ->
  vget v' p = Some w /\ (forall q, cdisjoint p q = true -> vget v' q = vget v q).
Proof. intros. split; [eapply vget_vset_same; eauto | intros; eapply vget_vset_disjoint; eauto]. Qed.

Lemma bounded_sound_2 : bounded_sound 2 = true.
Proof. vm_compute. reflexivity. Qed.
