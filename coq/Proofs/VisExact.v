(* C12 — exactness: check_project reports an error iff some reachable position holds an offending access *)
From Coq Require Import List String Ascii Bool ZArith Arith Lia.
From FV Require Import Models.Vis Proofs.VisP.
Import ListNotations.
Open Scope string_scope.

Section Exact.
  Variable P : project.
  Variable imps : list (string * string).

  (* the diagnostics raised AT a position (not below it) *)
  Definition leaf_err (y : site) (z : verr) : Prop :=
    match snd y with
    | NE (EQual m n) => In z (static_access P imps m n)
    | NT (TQual m n) => In z (static_access P imps m n)
    | NE (ESel b f) => In z (field_rule (fst y) b f)
    | _ => False
    end.

  Lemma leaf_err_in y z : leaf_err y z -> In z (chk_node P imps y).
  Proof.
    destruct y as [r [e|s|t]]; unfold leaf_err, chk_node; simpl.
    - destruct e; try contradiction; simpl; intros H; [exact H | apply in_app_iff; right; exact H].
    - contradiction.
    - destruct t; try contradiction. simpl. intros H; exact H.
  Qed.

  Ltac wit :=
    match goal with
    | Hr : reach _ ?y, Hl : leaf_err ?y ?z |- exists y', reach _ y' /\ leaf_err y' ?z =>
        exists y; split; [eapply reach_step; [|exact Hr]; econstructor; solve [eassumption] | exact Hl]
    end.

  Lemma ty_complete t : forall r z, In z (chk_ty P imps t) -> exists y, reach (r, NT t) y /\ leaf_err y z.
  Proof.
    induction t; intros r z H; simpl in H; try contradiction;
      repeat rewrite in_app_iff in H;
      try (destruct H as [H|H]);
      try (match goal with
           | IH : forall r z, In z (chk_ty P imps ?a) -> _, H : In _ (chk_ty P imps ?a) |- _ =>
               apply (IH r) in H; destruct H as (y & Hr & Hl); wit
           end).
    exists (r, NT (TQual m n)). split; [apply reach_refl | exact H].
  Qed.

  Ltac cases H := repeat match type of H with _ \/ _ => destruct H as [H|H] end.

  Ltac solve_one r H :=
    first
      [ contradiction
      | match type of H with
        | In _ (chk_e P imps ?r' ?a) =>
            match goal with
            | IH : forall r z, In z (chk_e P imps r a) -> _ |- _ =>
                apply IH in H; destruct H as (y & Hr & Hl); wit
            end
        | In _ (chk_s P imps ?r' ?a) =>
            match goal with
            | IH : forall r z, In z (chk_s P imps r a) -> _ |- _ =>
                apply IH in H; destruct H as (y & Hr & Hl); wit
            end
        | In _ (chk_ty P imps ?t) =>
            apply (ty_complete t r) in H; destruct H as (y & Hr & Hl); wit
        | In _ (chk_params P imps ?ps) =>
            apply in_flat_map in H; destruct H as ([px pt] & Hin & H); simpl in H;
            apply (ty_complete pt r) in H; destruct H as (y & Hr & Hl); wit
        end ].

  Lemma complete :
    (forall e r z, In z (chk_e P imps r e) -> exists y, reach (r, NE e) y /\ leaf_err y z) /\
    (forall s r z, In z (chk_s P imps r s) -> exists y, reach (r, NS s) y /\ leaf_err y z).
  Proof.
    apply expr_stmt_ind; intros;
      match goal with Hin : In _ _ |- _ => simpl in Hin; rename Hin into HIN end.
    all: try contradiction.
    all: try (match goal with
              | HIN : In ?z (chk_oty P imps ?t ++ _) |- _ => destruct t; simpl in HIN
              end).
    all: match goal with
         | HIN : In _ _ |- exists y, reach (?r, _) y /\ _ =>
             repeat rewrite in_app_iff in HIN; cases HIN; try solve [solve_one r HIN]
         end.
    (* the leaves *)
    - exists (r, NE (EQual m n)). split; [apply reach_refl | exact HIN].
    - exists (r, NE (ESel e f)). split; [apply reach_refl | exact HIN].
  Qed.

  Lemma decl_complete d z :
    In z (chk_decl P imps d) -> exists x, root d x /\ In z (chk_node P imps x).
  Proof.
    destruct d; simpl; intros H;
      try (match goal with H : In ?z (chk_oty P imps ?t ++ _) |- _ => destruct t; simpl in H end);
      repeat rewrite in_app_iff in H; cases H;
      try contradiction;
      try (match type of H with
           | In _ (chk_params P imps ?ps) =>
               apply in_flat_map in H; destruct H as ([px pt] & Hin & H); simpl in H;
               exists (None, NT pt); split; [econstructor; eassumption | exact H]
           end);
      try (eexists; split; [econstructor | exact H]; fail).
  Qed.
End Exact.

(* a position of project P where the check raises diagnostic z *)
Definition offending (P : project) (z : verr) : Prop :=
  exists M y, access_site P M y /\ leaf_err P M.(m_imports) y z.

Lemma check_project_exact P z : In z (check_project P) <-> offending P z.
Proof.
  split.
  - unfold check_project, chk_module. intros H.
    apply in_flat_map in H. destruct H as (M & HM & H).
    apply in_flat_map in H. destruct H as (d & Hd & H).
    apply decl_complete in H. destruct H as (x & Hroot & H).
    assert (exists y, reach x y /\ leaf_err P M.(m_imports) y z) as (y & Hr & Hl).
    { destruct x as [r [e|s|t]]; unfold chk_node in H; simpl in H.
      - apply (proj1 (complete P M.(m_imports))) in H. exact H.
      - apply (proj2 (complete P M.(m_imports))) in H. exact H.
      - apply (ty_complete P M.(m_imports) t r) in H. exact H. }
    exists M, y. split; [|exact Hl]. exists d, x. auto.
  - intros (M & y & (d & x & HM & Hd & Hroot & Hr) & Hl).
    eapply in_check_project; try eassumption.
    eapply root_incl; [eassumption|]. eapply reach_incl; [eassumption|].
    apply leaf_err_in. exact Hl.
Qed.

Lemma project_ok_exact P : project_ok P = true <-> (forall z, ~ offending P z).
Proof.
  unfold project_ok. split.
  - intros H z Ho. apply check_project_exact in Ho. destruct (check_project P); [destruct Ho | discriminate].
  - intros H. destruct (check_project P) as [|z l] eqn:E; [reflexivity|].
    exfalso. apply (H z). apply check_project_exact. rewrite E. left. reflexivity.
Qed.

(* what can be raised at a position: spelled out *)
Lemma leaf_err_cases P imps y z :
  leaf_err P imps y z ->
  (exists m n, (snd y = NE (EQual m n) \/ snd y = NT (TQual m n)) /\ In z (static_access P imps m n)) \/
  (exists b f, snd y = NE (ESel b f) /\ z = VPrivateField f /\ exported f = false /\ is_recv (fst y) b = false).
Proof.
  destruct y as [r [e|s|t]]; unfold leaf_err; simpl; try contradiction.
  - destruct e; try contradiction.
    + intros H. left. exists m, n. split; [left; reflexivity | exact H].
    + unfold field_rule. destruct (exported f) eqn:E; [contradiction|].
      destruct (is_recv r e) eqn:R; [contradiction|].
      intros [H|[]]. right. exists e, f. repeat split; auto.
  - destruct t; try contradiction. intros H. left. exists m, n. split; [right; reflexivity | exact H].
Qed.

(* ---------------------------------------------------------------- methods: the rule implemented by the compiler does not
   cover them (open finding F-C12-PRIVATE-METHOD) *)
Definition ex_lib_m : module :=
  {| m_path := "proj/lib"; m_imports := [];
     m_decls := [ DType "Point" [("X", TName "i32")];
                  DFn "Mk" [] (TName "Point") (SReturn (ECast (EStruct (EInit "X" (ELit 1) ENil)) (TName "Point")));
                  DMethod "p" (TName "Point") "gety" [] (TName "i32") (SReturn (ELit 1)) ] |}.
Definition ex_main_m : module :=
  {| m_path := "proj/main"; m_imports := [("lib", "proj/lib")];
     m_decls := [ DFn "main" [] TVoid (SExpr (EMeth (ECall (EQual "lib" "Mk") ENil) "gety" ENil)) ] |}.

Lemma private_method_refuted :
  exists P M L r b m args,
    In L P /\ L <> M /\
    access_site P M (r, NE (EMeth b m args)) /\
    exported m = false /\
    (exists rv rty ps rt body, In (DMethod rv rty m ps rt body) L.(m_decls)) /\
    project_ok P = true.
Proof.
  exists [ex_lib_m; ex_main_m], ex_main_m, ex_lib_m, None, (ECall (EQual "lib" "Mk") ENil), "gety", ENil.
  split; [left; reflexivity|]. split; [discriminate|]. split.
  - exists (DFn "main" [] TVoid (SExpr (EMeth (ECall (EQual "lib" "Mk") ENil) "gety" ENil))).
    eexists. split; [simpl; auto|]. split; [simpl; auto|]. split; [apply R_fn_b|].
    eapply reach_step; [apply S_expr|]. apply reach_refl.
  - split; [reflexivity|]. split.
    + exists "p", (TName "Point"), [], (TName "i32"), (SReturn (ELit 1)). simpl. auto.
    + vm_compute. reflexivity.
Qed.
