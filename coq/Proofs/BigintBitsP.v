(* C16 — bit-level reading of limb vectors (Z.testbit of `value`), vectors built by `map f (idxs n)`,
   and the limb-wise and / or / xor. *)
From Coq Require Import ZArith List Bool Lia.
From FV Require Import Models.Bigint Proofs.BigintP Proofs.BigintMulP Proofs.BigintDecP Proofs.BigintPowP.
Import ListNotations.
Open Scope Z_scope.

Lemma B_pow : B = 2 ^ 64. Proof. reflexivity. Qed.

Lemma high_bits_false x k i : 0 <= x < 2 ^ k -> k <= i -> Z.testbit x i = false.
Proof.
  intros Hx Hi. destruct (Z.lt_ge_cases k 0) as [Hk|Hk].
  - rewrite Z.pow_neg_r in Hx by lia. lia.
  - rewrite <- (Z.mod_small x (2 ^ k)) by lia. apply Z.mod_pow2_bits_high. lia.
Qed.

(* a number all of whose bits from k upwards are clear lies in [0, 2^k) *)
Lemma bits_range r k : 0 <= k -> (forall i, k <= i -> Z.testbit r i = false) -> 0 <= r < 2 ^ k.
Proof.
  intros Hk H.
  assert (E : r = r mod 2 ^ k).
  { apply Z.bits_inj'. intros i Hi. rewrite Z.testbit_mod_pow2 by lia.
    destruct (Z.ltb_spec i k); cbn [andb]; [reflexivity | apply H; lia]. }
  rewrite E. apply Z.mod_pos_bound. apply Z.pow_pos_nonneg; lia.
Qed.

Lemma limb_ok_pow x : limb_ok x <-> 0 <= x < 2 ^ 64.
Proof. unfold limb_ok. rewrite B_pow. reflexivity. Qed.

Lemma limb_high_false x i : limb_ok x -> 64 <= i -> Z.testbit x i = false.
Proof. intros H Hi. apply (proj1 (limb_ok_pow x)) in H. apply (high_bits_false x 64 i); auto. Qed.

Lemma limb_ok_bits x : (forall i, 64 <= i -> Z.testbit x i = false) -> limb_ok x.
Proof. intros H. apply limb_ok_pow. apply bits_range; [lia | exact H]. Qed.

Lemma testbit_cons x r i : limb_ok x -> 0 <= i ->
  Z.testbit (x + B * r) i = if i <? 64 then Z.testbit x i else Z.testbit r (i - 64).
Proof.
  intros Hx Hi. apply (proj1 (limb_ok_pow x)) in Hx. rewrite B_pow.
  rewrite (Z.mul_comm (2 ^ 64) r), <- (lor_add x r 64) by lia.
  rewrite Z.lor_spec, Z.mul_pow2_bits by lia.
  destruct (Z.ltb_spec i 64).
  - rewrite (Z.testbit_neg_r r (i - 64)) by lia. apply orb_false_r.
  - rewrite (high_bits_false x 64 i) by lia. reflexivity.
Qed.

(* ---- nthZ *)
Lemma nthZ_nil i : nthZ [] i = 0.
Proof. unfold nthZ. destruct (Z.to_nat i); reflexivity. Qed.
Lemma nthZ_cons_0 x t : nthZ (x :: t) 0 = x.
Proof. reflexivity. Qed.
Lemma nthZ_cons_S x t j : 1 <= j -> nthZ (x :: t) j = nthZ t (j - 1).
Proof. intros H. unfold nthZ. replace (Z.to_nat j) with (S (Z.to_nat (j - 1))) by lia. reflexivity. Qed.
Lemma nthZ_out v i : Z.of_nat (length v) <= i -> nthZ v i = 0.
Proof. intros H. unfold nthZ. apply nth_overflow. lia. Qed.
Lemma nthZ_ok v i : limbs_ok v -> limb_ok (nthZ v i).
Proof.
  intros H. unfold nthZ. destruct (Nat.lt_ge_cases (Z.to_nat i) (length v)) as [L|L].
  - unfold limbs_ok in H. rewrite Forall_forall in H. apply H. apply nth_In. exact L.
  - rewrite nth_overflow by lia. unfold limb_ok. pose proof B_pos. lia.
Qed.

Lemma length_map_idxs (f : Z -> Z) n : length (map f (idxs n)) = n.
Proof. unfold idxs. rewrite !map_length, seq_length. reflexivity. Qed.

Lemma nthZ_map_idxs (f : Z -> Z) n i : 0 <= i < Z.of_nat n -> nthZ (map f (idxs n)) i = f i.
Proof.
  intros H. unfold nthZ, idxs. rewrite map_map.
  rewrite (nth_indep _ 0 (f (Z.of_nat 0))) by (rewrite map_length, seq_length; lia).
  rewrite (map_nth (fun k => f (Z.of_nat k))). rewrite seq_nth by lia.
  f_equal. lia.
Qed.

Lemma limbs_ok_map_idxs (f : Z -> Z) n : (forall i, 0 <= i < Z.of_nat n -> limb_ok (f i)) -> limbs_ok (map f (idxs n)).
Proof.
  intros H. unfold limbs_ok. apply Forall_forall. intros x Hin.
  apply in_map_iff in Hin. destruct Hin as [i [<- Hi]]. unfold idxs in Hi.
  apply in_map_iff in Hi. destruct Hi as [k [<- Hk]]. apply in_seq in Hk. apply H. lia.
Qed.

(* ---- bit p of a limb vector is bit (p mod 64) of limb (p / 64) *)
Lemma testbit_value : forall v p, limbs_ok v -> 0 <= p ->
  Z.testbit (value v) p = Z.testbit (nthZ v (p / 64)) (p mod 64).
Proof.
  induction v as [|x t IH]; intros p H Hp.
  - rewrite nthZ_nil. cbn [value]. rewrite !Z.bits_0. reflexivity.
  - apply limbs_ok_cons in H. destruct H as [Hx Ht]. cbn [value].
    rewrite (testbit_cons x (value t) p Hx Hp).
    destruct (Z.ltb_spec p 64).
    + rewrite Z.div_small, Z.mod_small by lia. rewrite nthZ_cons_0. reflexivity.
    + rewrite (IH (p - 64) Ht) by lia.
      assert (E1 : (p - 64) / 64 = p / 64 - 1) by (Z.div_mod_to_equations; lia).
      assert (E2 : (p - 64) mod 64 = p mod 64) by (Z.div_mod_to_equations; lia).
      assert (E3 : 1 <= p / 64) by (Z.div_mod_to_equations; lia).
      rewrite E1, E2, (nthZ_cons_S x t (p / 64) E3). reflexivity.
Qed.

Lemma testbit_value_high v p : limbs_ok v -> 64 * Z.of_nat (length v) <= p -> Z.testbit (value v) p = false.
Proof.
  intros H Hp. pose proof (value_bound v H) as VB. rewrite modulus_pow2 in VB.
  apply (high_bits_false (value v) (64 * Z.of_nat (length v)) p); auto.
Qed.

(* bit i*64+j of a vector *)
Lemma testbit_value_limb v i j : limbs_ok v -> 0 <= i -> 0 <= j < 64 ->
  Z.testbit (value v) (64 * i + j) = Z.testbit (nthZ v i) j.
Proof.
  intros H Hi Hj. rewrite testbit_value by (auto; lia).
  replace ((64 * i + j) / 64) with i by (Z.div_mod_to_equations; lia).
  replace ((64 * i + j) mod 64) with j by (Z.div_mod_to_equations; lia). reflexivity.
Qed.

(* ---- limb-wise boolean operations *)
Section Map2.
  Variable f : Z -> Z -> Z.
  Variable fb : bool -> bool -> bool.
  Hypothesis f_spec : forall x y i, Z.testbit (f x y) i = fb (Z.testbit x i) (Z.testbit y i).
  Hypothesis fb_ff : fb false false = false.

  Lemma f_limb_ok x y : limb_ok x -> limb_ok y -> limb_ok (f x y).
  Proof.
    intros Hx Hy. apply limb_ok_bits. intros i Hi.
    rewrite f_spec, (limb_high_false x i Hx Hi), (limb_high_false y i Hy Hi). exact fb_ff.
  Qed.

  Lemma map2_value : forall a b, length a = length b -> limbs_ok a -> limbs_ok b ->
    value (map2 f a b) = f (value a) (value b) /\ limbs_ok (map2 f a b) /\ length (map2 f a b) = length a.
  Proof.
    induction a as [|x a IH]; intros [|y b] L Ha Hb; cbn [length] in L; try discriminate.
    - cbn [map2 value length]. split; [| split; [apply limbs_ok_nil | reflexivity]].
      apply Z.bits_inj'. intros i Hi. rewrite f_spec, !Z.bits_0. symmetry. exact fb_ff.
    - injection L as L. apply limbs_ok_cons in Ha. apply limbs_ok_cons in Hb.
      destruct Ha as [Hx Ha]. destruct Hb as [Hy Hb].
      destruct (IH b L Ha Hb) as (V & O & LL).
      cbn [map2 value length]. split; [| split; [apply limbs_ok_cons; split; [apply f_limb_ok; auto | exact O] | rewrite LL; reflexivity]].
      rewrite V. apply Z.bits_inj'. intros i Hi.
      rewrite f_spec, !testbit_cons by (auto; apply f_limb_ok; auto).
      destruct (Z.ltb_spec i 64); rewrite f_spec; reflexivity.
  Qed.
End Map2.

Lemma and_limbs_correct a b : length a = length b -> limbs_ok a -> limbs_ok b ->
  value (and_limbs a b) = Z.land (value a) (value b) /\ limbs_ok (and_limbs a b) /\ length (and_limbs a b) = length a.
Proof. apply (map2_value Z.land andb); [intros; apply Z.land_spec | reflexivity]. Qed.
Lemma or_limbs_correct a b : length a = length b -> limbs_ok a -> limbs_ok b ->
  value (or_limbs a b) = Z.lor (value a) (value b) /\ limbs_ok (or_limbs a b) /\ length (or_limbs a b) = length a.
Proof. apply (map2_value Z.lor orb); [intros; apply Z.lor_spec | reflexivity]. Qed.
Lemma xor_limbs_correct a b : length a = length b -> limbs_ok a -> limbs_ok b ->
  value (xor_limbs a b) = Z.lxor (value a) (value b) /\ limbs_ok (xor_limbs a b) /\ length (xor_limbs a b) = length a.
Proof. apply (map2_value Z.lxor xorb); [intros; apply Z.lxor_spec | reflexivity]. Qed.
