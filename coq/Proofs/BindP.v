(* C09 (reference side): binding a side-effect-free subexpression to a fresh immutable local just before its use.
   `peval` is the value of a call-free expression as a function of the environment alone; `eval_callfree` shows that the
   interpreter computes exactly that (no output, environment returned unchanged).  On `peval` the rewrite is a substitution
   lemma: if e has the value v, then C[x] in the environment extended by x := v has the value C[e] has in the original one,
   for every call-free context C in which x does not occur. *)
From Coq Require Import String ZArith List Bool.
From FV Require Import Core.Syntax Core.Sem Proofs.RewriteP Proofs.CongrP.
Import ListNotations.

Inductive pres := PV (v : value) | PUndef | PWrong.

Section P.
Variable structs : structs_t.
Variable callf : nat -> list value -> list line -> res (value * list value).

Definition binval (o : binop) (va vb : value) : pres :=
  match va, vb with
  | VInt t x, VInt t' y =>
      if ity_eqb t t' then
        if is_arith o then
          match arith o t x y with Some z => PV (VInt t z) | None => PUndef end
        else match compare o x y with Some c => PV (VBool c) | None => PWrong end
      else PWrong
  | VBool x, VBool y =>
      match o with
      | Eq => PV (VBool (Bool.eqb x y))
      | Ne => PV (VBool (negb (Bool.eqb x y)))
      | _ => PWrong
      end
  | VStr x, VStr y =>
      match o with
      | Add => PV (VStr (String.append x y))
      | Eq => PV (VBool (String.eqb x y))
      | Ne => PV (VBool (negb (String.eqb x y)))
      | _ => PWrong
      end
  | _, _ => PWrong
  end.

Fixpoint peval (e : expr) (en : env) : pres :=
  match e with
  | ELit t v => PV (VInt t v)
  | EBool b => PV (VBool b)
  | EStr s => PV (VStr s)
  | EVar x => match lookup x en with Some v => PV v | None => PWrong end
  | EBin o a b =>
      match o with
      | And => match peval a en with
               | PV (VBool false) => PV (VBool false)
               | PV (VBool true) => match peval b en with PV (VBool c) => PV (VBool c) | PV _ => PWrong | r => r end
               | PV _ => PWrong
               | r => r
               end
      | Or => match peval a en with
              | PV (VBool true) => PV (VBool true)
              | PV (VBool false) => match peval b en with PV (VBool c) => PV (VBool c) | PV _ => PWrong | r => r end
              | PV _ => PWrong
              | r => r
              end
      | _ => match peval a en with
             | PV va => match peval b en with PV vb => binval o va vb | r => r end
             | r => r
             end
      end
  | EUn Neg a => match peval a en with PV (VInt t x) => PV (VInt t (wrap t (- x))) | PV _ => PWrong | r => r end
  | EUn Not a => match peval a en with PV (VBool b) => PV (VBool (negb b)) | PV _ => PWrong | r => r end
  | ECast a t => match peval a en with PV (VInt _ x) => PV (VInt t (wrap t x)) | PV _ => PWrong | r => r end
  | EField a k =>
      match peval a en with
      | PV (VStruct sid fs) =>
          match nth_error structs sid with
          | Some fts => match nth_error fts k, nth_error fs k with
                        | Some t, Some z => PV (VInt t z)
                        | _, _ => PWrong
                        end
          | None => PWrong
          end
      | PV _ => PWrong
      | r => r
      end
  | ECall _ _ | ECallR _ _ | EStructLit _ _ => PWrong
  end.

Definition lift (p : pres) (en : env) (out : list line) : res (value * env) :=
  match p with PV v => Ok (v, en) out | PUndef => Undef out | PWrong => Wrong end.

Lemma eval_callfree : forall e en out, callfree e = true -> eval structs callf e en out = lift (peval e en) en out.
Proof.
  induction e as [t z|b|s|x|o a IHa b IHb|o a IHa|a IHa t|f es|sid es|a IHa k|f args]; intros en out Hc; cbn in Hc; try discriminate.
  - reflexivity.
  - reflexivity.
  - reflexivity.
  - cbn. destruct (lookup x en); reflexivity.
  - apply andb_prop in Hc as [Ha Hb].
    destruct o.
    1-11: (cbn; rewrite (IHa _ _ Ha); destruct (peval a en) as [va| |]; cbn; try reflexivity;
           rewrite (IHb _ _ Hb); destruct (peval b en) as [vb| |]; cbn; try reflexivity;
           destruct va as [ta xa|ba| |sa fa|sa]; destruct vb as [tb xb|bb| |sb fb|sb]; cbn; try reflexivity;
           destruct (ity_eqb ta tb); cbn; try reflexivity;
           repeat match goal with |- context [if ?c then _ else _] => destruct c end; reflexivity).
    + cbn. rewrite (IHa _ _ Ha). destruct (peval a en) as [va| |]; cbn; try reflexivity.
      destruct va as [ta xa|[|]| |sa fa|sa]; cbn; try reflexivity.
      rewrite (IHb _ _ Hb). destruct (peval b en) as [vb| |]; cbn; try reflexivity. destruct vb; reflexivity.
    + cbn. rewrite (IHa _ _ Ha). destruct (peval a en) as [va| |]; cbn; try reflexivity.
      destruct va as [ta xa|[|]| |sa fa|sa]; cbn; try reflexivity.
      rewrite (IHb _ _ Hb). destruct (peval b en) as [vb| |]; cbn; try reflexivity. destruct vb; reflexivity.
  - destruct o; cbn; rewrite (IHa _ _ Hc); destruct (peval a en) as [va| |]; cbn; try reflexivity; destruct va; reflexivity.
  - cbn. rewrite (IHa _ _ Hc). destruct (peval a en) as [va| |]; cbn; try reflexivity. destruct va; reflexivity.
  - cbn. rewrite (IHa _ _ Hc). destruct (peval a en) as [va| |]; cbn; try reflexivity. destruct va; try reflexivity.
    destruct (nth_error structs sid); try reflexivity. destruct (nth_error l k), (nth_error fs k); reflexivity.
Qed.

(* x does not occur in a call-free expression *)
Fixpoint nomention (x : nat) (e : expr) : bool :=
  match e with
  | ELit _ _ | EBool _ | EStr _ => true
  | EVar y => negb (Nat.eqb y x)
  | EBin _ a b => nomention x a && nomention x b
  | EUn _ a | ECast a _ | EField a _ => nomention x a
  | ECall _ _ | ECallR _ _ | EStructLit _ _ => false
  end.

Lemma lookup_declare_other x v y en : Nat.eqb y x = false -> lookup y (declare x v en) = lookup y en.
Proof.
  intros H. destruct en as [|s r]; cbn; rewrite H; reflexivity.
Qed.

Lemma lookup_declare_same x v en : lookup x (declare x v en) = Some v.
Proof. destruct en as [|s r]; cbn; rewrite Nat.eqb_refl; reflexivity. Qed.

Lemma peval_declare_fresh x v : forall e en, nomention x e = true -> peval e (declare x v en) = peval e en.
Proof.
  induction e as [t z|b|s|y|o a IHa b IHb|o a IHa|a IHa t|f es|sid es|a IHa k|f args]; intros en H; cbn in H; try discriminate;
    try reflexivity.
  - cbn. rewrite lookup_declare_other; [reflexivity|]. destruct (Nat.eqb y x); [discriminate|reflexivity].
  - apply andb_prop in H as [Ha Hb]. cbn. rewrite (IHa _ Ha), (IHb _ Hb). reflexivity.
  - cbn. rewrite (IHa _ H). reflexivity.
  - cbn. rewrite (IHa _ H). reflexivity.
  - cbn. rewrite (IHa _ H). reflexivity.
Qed.

Lemma peval_push_scope : forall e en, peval e ([] :: en) = peval e en.
Proof.
  induction e as [t z|b|s|y|o a IHa b IHb|o a IHa|a IHa t|f es|sid es|a IHa k|f args]; intros en; cbn; try reflexivity.
  - rewrite IHa, IHb. reflexivity.
  - rewrite IHa. reflexivity.
  - rewrite IHa. reflexivity.
  - rewrite IHa. reflexivity.
Qed.

(* call-free contexts in which x does not occur *)
Fixpoint cfctx (x : nat) (C : ectx) : bool :=
  match C with
  | CHole => true
  | CBinL _ C b => cfctx x C && callfree b && nomention x b
  | CBinR _ a C => callfree a && nomention x a && cfctx x C
  | CUn _ C | CCast C _ | CField C _ => cfctx x C
  | CCall _ _ _ _ | CStruct _ _ _ _ | CCallR _ _ _ _ => false
  end.

Lemma cfctx_callfree x : forall C e, cfctx x C = true -> callfree e = true -> callfree (eplug C e) = true.
Proof.
  induction C as [|o C IH b|o a C IH|o C IH|C IH t|f pre C IH post|sid pre C IH post|C IH k|f pre C IH post]; intros e H He;
    cbn in *; try discriminate; auto.
  - apply andb_prop in H as [H Hn]. apply andb_prop in H as [H Hb]. rewrite (IH _ H He), Hb. reflexivity.
  - apply andb_prop in H as [H Hc]. apply andb_prop in H as [Ha Hn]. rewrite Ha, (IH _ Hc He). reflexivity.
Qed.

(* the substitution lemma *)
Lemma peval_bind x v : forall C e en, cfctx x C = true -> peval e en = PV v ->
  peval (eplug C (EVar x)) (declare x v en) = peval (eplug C e) en.
Proof.
  induction C as [|o C IH b|o a C IH|o C IH|C IH t|f pre C IH post|sid pre C IH post|C IH k|f pre C IH post]; intros e en H He;
    cbn [cfctx] in H; try discriminate; cbn [eplug].
  - cbn. rewrite lookup_declare_same, He. reflexivity.
  - apply andb_prop in H as [H Hn]. apply andb_prop in H as [H Hb].
    cbn [peval]. rewrite (IH _ _ H He), (peval_declare_fresh x v b en Hn). reflexivity.
  - apply andb_prop in H as [H Hc]. apply andb_prop in H as [Ha Hn].
    cbn [peval]. rewrite (IH _ _ Hc He), (peval_declare_fresh x v a en Hn). reflexivity.
  - cbn [peval]. rewrite (IH _ _ H He). reflexivity.
  - cbn [peval]. rewrite (IH _ _ H He). reflexivity.
  - cbn [peval]. rewrite (IH _ _ H He). reflexivity.
Qed.

(* the rewrite on the interpreter: `let x = e;` (e call-free with a value) followed by a use of C[x] evaluates to what C[e]
   evaluated to before, prints nothing more, and leaves every other variable as it was *)
Lemma bind_subexpr_eval x v C e en out :
  cfctx x C = true -> callfree e = true -> peval e en = PV v ->
  eval structs callf e en out = Ok (v, en) out /\
  eval structs callf (eplug C (EVar x)) (declare x v en) out =
    lift (peval (eplug C e) en) (declare x v en) out /\
  eval structs callf (eplug C e) en out = lift (peval (eplug C e) en) en out.
Proof.
  intros HC He Hv. split; [|split].
  - rewrite (eval_callfree e en out He), Hv. reflexivity.
  - rewrite eval_callfree by (apply (cfctx_callfree x); [assumption|reflexivity]).
    rewrite (peval_bind x v C e en HC Hv). reflexivity.
  - apply eval_callfree. apply (cfctx_callfree x); assumption.
Qed.

(* statement form: printing C[e] equals the block { let x = e; print C[x]; } exactly (output, flow, environment) *)
Lemma bind_subexpr_print k x t v C e en out :
  cfctx x C = true -> callfree e = true -> peval e en = PV v ->
  exec structs callf k (SBlock (SSeq (SLet x t e) (SPrint [eplug C (EVar x)]))) en out =
  exec structs callf k (SPrint [eplug C e]) en out.
Proof.
  intros HC He Hv.
  assert (Hv' : peval e ([] :: en) = PV v) by (rewrite peval_push_scope; exact Hv).
  destruct (bind_subexpr_eval x v C e ([] :: en) out HC He Hv') as (E1 & E2 & _).
  destruct (bind_subexpr_eval x v C e en out HC He Hv) as (_ & _ & E3).
  cbn [exec]. rewrite E1. cbn [bind fst snd]. rewrite E2, E3. rewrite peval_push_scope.
  destruct (peval (eplug C e) en) as [w| |]; cbn; try reflexivity.
  destruct (item_of w); reflexivity.
Qed.

(* the same for `return C[e];`, the expression statement `C[e];` and the assignment `y = C[e];` (y <> x) *)
Lemma bind_subexpr_return k x t v C e en out :
  cfctx x C = true -> callfree e = true -> peval e en = PV v ->
  exec structs callf k (SBlock (SSeq (SLet x t e) (SReturn (Some (eplug C (EVar x)))))) en out =
  exec structs callf k (SReturn (Some (eplug C e))) en out.
Proof.
  intros HC He Hv.
  assert (Hv' : peval e ([] :: en) = PV v) by (rewrite peval_push_scope; exact Hv).
  destruct (bind_subexpr_eval x v C e ([] :: en) out HC He Hv') as (E1 & E2 & _).
  destruct (bind_subexpr_eval x v C e en out HC He Hv) as (_ & _ & E3).
  cbn [exec]. rewrite E1. cbn [bind fst snd]. rewrite E2, E3. rewrite peval_push_scope.
  destruct (peval (eplug C e) en) as [w| |]; cbn; reflexivity.
Qed.

Lemma bind_subexpr_exprstmt k x t v C e en out :
  cfctx x C = true -> callfree e = true -> peval e en = PV v ->
  exec structs callf k (SBlock (SSeq (SLet x t e) (SExpr (eplug C (EVar x))))) en out =
  exec structs callf k (SExpr (eplug C e)) en out.
Proof.
  intros HC He Hv.
  assert (Hv' : peval e ([] :: en) = PV v) by (rewrite peval_push_scope; exact Hv).
  destruct (bind_subexpr_eval x v C e ([] :: en) out HC He Hv') as (E1 & E2 & _).
  destruct (bind_subexpr_eval x v C e en out HC He Hv) as (_ & _ & E3).
  cbn [exec]. rewrite E1. cbn [bind fst snd]. rewrite E2, E3. rewrite peval_push_scope.
  destruct (peval (eplug C e) en) as [w| |]; cbn; reflexivity.
Qed.

Lemma bind_subexpr_assign k x t v y C e en out :
  Nat.eqb y x = false -> cfctx x C = true -> callfree e = true -> peval e en = PV v ->
  exec structs callf k (SBlock (SSeq (SLet x t e) (SAssign y (eplug C (EVar x))))) en out =
  exec structs callf k (SAssign y (eplug C e)) en out.
Proof.
  intros Hy HC He Hv.
  assert (Hv' : peval e ([] :: en) = PV v) by (rewrite peval_push_scope; exact Hv).
  destruct (bind_subexpr_eval x v C e ([] :: en) out HC He Hv') as (E1 & E2 & _).
  destruct (bind_subexpr_eval x v C e en out HC He Hv) as (_ & _ & E3).
  cbn [exec]. rewrite E1. cbn [bind fst snd]. rewrite E2, E3. rewrite peval_push_scope.
  destruct (peval (eplug C e) en) as [w| |]; cbn [lift bind fst snd]; try reflexivity.
  cbn [declare update update_scope]. rewrite Hy. cbn [update_scope].
  destruct (update y w en) as [en'|]; cbn; reflexivity.
Qed.
End P.
