(* C06 — lemmas about Models/Mut.v: every mutation form is rejected on a frozen target, mutable places stay accepted,
   the property-text corollaries, and the refutation of the pre-fix code. *)
From Coq Require Import List Bool Arith ZArith.
From FV Require Import Models.Mut.
Import ListNotations.

(* ---- chain walks vs. the relational specification ---------------------------------------------------------- *)

Lemma is_imm_true r : is_imm r = true <-> r = RImm.
Proof. destruct r; simpl; split; congruence. Qed.

Lemma is_ref_false r : is_ref r = false <-> r = RNone.
Proof. destruct r; simpl; split; congruence. Qed.

Lemma through_find E p : ThroughImm E p -> find_imm_ref E p = true.
Proof.
  induction 1; simpl.
  - rewrite H. simpl. apply orb_true_r.
  - rewrite H. simpl. apply orb_true_r.
  - rewrite IHThroughImm. reflexivity.
  - rewrite IHThroughImm. reflexivity.
  - assumption.
Qed.

Lemma find_referent E p : find_imm_ref E p = true -> ReferentFrozen E p.
Proof.
  unfold ReferentFrozen. induction p; simpl; intro H.
  - left. destruct (E x) as [s|]; [apply is_imm_true; assumption | discriminate].
  - right. apply orb_true_iff in H. destruct H as [H|H].
    + destruct (IHp H) as [T|T]; [apply ti_here_f | apply ti_deep_f]; assumption.
    + apply ti_here_f. apply is_imm_true. assumption.
  - right. apply orb_true_iff in H. destruct H as [H|H].
    + destruct (IHp H) as [T|T]; [apply ti_here_i | apply ti_deep_i]; assumption.
    + apply ti_here_i. apply is_imm_true. assumption.
  - destruct (IHp H) as [T|T]; [left; assumption | right; apply ti_paren; assumption].
Qed.

Lemma sym_ro_spec s : sym_ro s = true <-> (s_kind s = SConstant \/ s_readonly s = true).
Proof.
  unfold sym_ro, is_const. destruct (s_kind s), (s_readonly s); simpl; split; intro H;
    try reflexivity; try discriminate; try (right; reflexivity); try (left; reflexivity);
    destruct H; congruence.
Qed.

Lemma binding_find E p : InReadonlyBinding E p -> exists s, find_readonly_root E p = Some s /\ sym_ro s = true.
Proof.
  induction 1; simpl.
  - rewrite H. assert (R : sym_ro s = true) by (apply sym_ro_spec; assumption).
    rewrite R. exists s. split; [reflexivity | assumption].
  - rewrite H. simpl. assumption.
  - rewrite H. simpl. assumption.
  - assumption.
Qed.

Lemma find_binding E p s : find_readonly_root E p = Some s -> InReadonlyBinding E p /\ sym_ro s = true.
Proof.
  revert s. induction p; simpl; intros s H.
  - destruct (E x) as [s0|] eqn:Ex; [|discriminate].
    destruct (sym_ro s0) eqn:R; [|discriminate]. inversion H; subst.
    split; [|assumption]. eapply rb_ident; [eassumption | apply sym_ro_spec; assumption].
  - destruct (is_ref (ty_ref E p)) eqn:R; [discriminate|].
    destruct (IHp _ H) as [B S]. split; [|assumption].
    apply rb_field; [apply is_ref_false; assumption | assumption].
  - destruct (is_ref (ty_ref E p)) eqn:R; [discriminate|].
    destruct (IHp _ H) as [B S]. split; [|assumption].
    apply rb_index; [apply is_ref_false; assumption | assumption].
  - destruct (IHp _ H) as [B S]. split; [apply rb_paren|]; assumption.
Qed.

Lemma not_binding_none E p : ~ InReadonlyBinding E p -> find_readonly_root E p = None.
Proof.
  intro N. destruct (find_readonly_root E p) as [s|] eqn:F; [|reflexivity].
  exfalso. apply N. eapply find_binding. eassumption.
Qed.

Lemma root_walk_exact E p : InReadonlyBinding E p <-> exists s, find_readonly_root E p = Some s.
Proof.
  split.
  - intro B. destruct (binding_find E p B) as [s [F _]]. exists s. exact F.
  - intros [s F]. exact (proj1 (find_binding E p s F)).
Qed.

(* ---- checkMutability blocks every frozen slot -------------------------------------------------------------- *)

Lemma binding_blocks E p : InReadonlyBinding E p -> report_blocks (check_mutability E p) = true.
Proof.
  intro B. destruct (binding_find _ _ B) as [s [F _]].
  unfold check_mutability. rewrite F. destruct (is_const s); reflexivity.
Qed.

Lemma through_blocks E p : ThroughImm E p -> report_blocks (check_mutability E p) = true.
Proof.
  intro T. unfold check_mutability.
  destruct (find_readonly_root E p) as [s|]; [destruct (is_const s); reflexivity|].
  rewrite (through_find _ _ T). reflexivity.
Qed.

Lemma slot_blocks E p : SlotFrozen E p -> report_blocks (check_mutability E p) = true.
Proof. intros [B|T]; [apply binding_blocks | apply through_blocks]; assumption. Qed.

Lemma blocks_rejects r : report_blocks r = true -> accepted (diag_of_mres r) = false.
Proof. destruct r; simpl; congruence. Qed.

(* ---- the main theorem -------------------------------------------------------------------------------------- *)

Lemma guarded_form_rejects E p (imm_guard : bool) :
  report_blocks (check_mutability E p) = true ->
  accepted (let r := check_mutability E p in
            if report_blocks r then diag_of_mres r else if imm_guard then DImmRef else diag_of_mres r) = false.
Proof. intro B. cbv zeta. rewrite B. apply blocks_rejects. assumption. Qed.

Lemma borrow_rejects_slot E p : SlotFrozen E p -> accepted (diag_borrow_mut E p) = false.
Proof.
  intro S. unfold diag_borrow_mut.
  destruct (is_ref (ty_ref E p)); [reflexivity|].
  destruct (find_readonly_root E p) eqn:F; [reflexivity|].
  cbv zeta. rewrite (slot_blocks _ _ S). apply blocks_rejects. apply slot_blocks. assumption.
Qed.

Lemma full E f p : TargetFrozen E f p -> allowed E f p = false.
Proof.
  unfold TargetFrozen, allowed. intro T.
  destruct (ty_ref E p) eqn:Ty.
  - (* the target is not a reference: its own slot is frozen *)
    pose proof (slot_blocks _ _ T) as B.
    destruct f; simpl; unfold diag_assign, diag_incdec, diag_call_mut, diag_pass_ref;
      try (apply guarded_form_rejects; assumption);
      try (apply borrow_rejects_slot; assumption).
    rewrite Ty. reflexivity.
  - (* the target is an immutable reference *)
    destruct f; simpl in T; simpl; unfold diag_assign, diag_incdec, diag_call_mut, diag_pass_ref, diag_borrow_mut;
      cbv zeta; rewrite ?Ty; simpl; try reflexivity;
      destruct (report_blocks (check_mutability E p)) eqn:B;
      try (apply blocks_rejects; assumption); try reflexivity.
    + (* = on a map slot holding &T: the slot itself is frozen *)
      destruct (is_map_index p) eqn:M; simpl in *; [|reflexivity].
      rewrite (slot_blocks _ _ T) in B. discriminate.
    + destruct (is_map_index p) eqn:M; simpl in *; [|reflexivity].
      rewrite (slot_blocks _ _ T) in B. discriminate.
  - (* the target is a mutable reference reached through an immutable one *)
    assert (TH : stores_slot f p = true /\ SlotFrozen E p \/ ThroughImm E p).
    { destruct (stores_slot f p); [left; split; [reflexivity | assumption]|].
      destruct T as [T|T]; [congruence | right; assumption]. }
    assert (B : report_blocks (check_mutability E p) = true).
    { destruct TH as [[_ S]|Th]; [apply slot_blocks | apply through_blocks]; assumption. }
    destruct f; simpl; unfold diag_assign, diag_incdec, diag_call_mut, diag_pass_ref, diag_borrow_mut;
      cbv zeta; rewrite ?Ty; simpl; try reflexivity;
      try (rewrite B; apply blocks_rejects; assumption).
    (* f(p): no assignment form, so the referent is frozen through an immutable reference *)
    destruct TH as [[S _]|Th]; [simpl in S; discriminate|].
    rewrite (through_find _ _ Th). reflexivity.
Qed.

(* ---- no over-rejection: mutable places stay accepted ------------------------------------------------------- *)

Definition form_applicable (E : env) (f : form) (p : place) : bool :=
  match f with
  | FBorrowMut | FPassBorrow => negb (is_ref (ty_ref E p)) && borrowable E p
  | FPassRef => is_mut (ty_ref E p)
  | _ => true
  end.

Lemma not_frozen_allowed_mres E p :
  ~ SlotFrozen E p -> ~ ReferentFrozen E p ->
  find_readonly_root E p = None /\ find_imm_ref E p = false /\ is_imm (ty_ref E p) = false /\
  report_blocks (check_mutability E p) = false /\ accepted (diag_of_mres (check_mutability E p)) = true.
Proof.
  intros NS NR.
  assert (F : find_readonly_root E p = None) by (apply not_binding_none; intro B; apply NS; left; assumption).
  assert (I : find_imm_ref E p = false).
  { destruct (find_imm_ref E p) eqn:I; [|reflexivity]. exfalso. apply NR. apply find_referent. assumption. }
  assert (Ty : is_imm (ty_ref E p) = false).
  { destruct (is_imm (ty_ref E p)) eqn:Ty; [|reflexivity]. exfalso. apply NR. left. apply is_imm_true. assumption. }
  repeat split; try assumption; unfold check_mutability; rewrite F, I;
    destruct (find_value_receiver E p); reflexivity.
Qed.

Lemma mutable_accepted E f p :
  ~ SlotFrozen E p -> ~ ReferentFrozen E p -> form_applicable E f p = true -> allowed E f p = true.
Proof.
  intros NS NR A. destruct (not_frozen_allowed_mres _ _ NS NR) as [F [I [Ty [B Acc]]]].
  unfold allowed.
  destruct f; simpl in *; unfold diag_assign, diag_incdec, diag_call_mut, diag_pass_ref, diag_borrow_mut;
    cbv zeta; rewrite ?B, ?Ty, ?F; simpl; try assumption.
  - apply andb_true_iff in A. destruct A as [A1 A2]. apply negb_true_iff in A1. rewrite A1, A2. simpl. assumption.
  - apply andb_true_iff in A. destruct A as [A1 A2]. apply negb_true_iff in A1. rewrite A1, A2. simpl. assumption.
  - destruct (ty_ref E p); simpl in A; try discriminate. rewrite I. reflexivity.
Qed.

(* ---- the shape the property text lists: immutable root, any path, every form ------------------------------- *)

(* a const / for index / catch variable holding a value, or an immutable reference (parameter, receiver, local) *)
Definition imm_root_sym (s : sym) : Prop :=
  ((s_kind s = SConstant \/ s_readonly s = true) /\ s_ref s = RNone) \/ s_ref s = RImm.

Lemma plain_frozen E p s :
  E (root_of p) = Some s -> plain_path p = true ->
  (((s_kind s = SConstant \/ s_readonly s = true) /\ s_ref s = RNone) ->
     InReadonlyBinding E p /\ ty_ref E p = RNone) /\
  (s_ref s = RImm -> (ty_ref E p = RImm /\ is_map_index p = false) \/ (ThroughImm E p /\ ty_ref E p = RNone)).
Proof.
  induction p; simpl; intros R P.
  - split.
    + intros [K N]. split; [eapply rb_ident; eassumption | rewrite R; assumption].
    + intro I. left. rewrite R. split; [assumption | reflexivity].
  - apply andb_true_iff in P. destruct P as [P1 P2]. apply negb_true_iff, is_ref_false in P2. subst t.
    destruct (IHp R P1) as [H1 H2]. split.
    + intro K. destruct (H1 K) as [B T]. split; [apply rb_field; assumption | reflexivity].
    + intro I. right. split; [|reflexivity].
      destruct (H2 I) as [[T _]|[T _]]; [apply ti_here_f | apply ti_deep_f]; assumption.
  - apply andb_true_iff in P. destruct P as [P1 P2]. apply negb_true_iff, is_ref_false in P2. subst t.
    destruct (IHp R P1) as [H1 H2]. split.
    + intro K. destruct (H1 K) as [B T]. split; [apply rb_index; assumption | reflexivity].
    + intro I. right. split; [|reflexivity].
      destruct (H2 I) as [[T _]|[T _]]; [apply ti_here_i | apply ti_deep_i]; assumption.
  - destruct (IHp R P) as [H1 H2]. split.
    + intro K. destruct (H1 K) as [B T]. split; [apply rb_paren; assumption | assumption].
    + intro I. destruct (H2 I) as [[T M]|[T N]].
      * left. split; [assumption | reflexivity].
      * right. split; [apply ti_paren; assumption | assumption].
Qed.

Lemma paths E p s :
  E (root_of p) = Some s -> imm_root_sym s -> plain_path p = true -> forall f, allowed E f p = false.
Proof.
  intros R I P f. apply full. unfold TargetFrozen.
  destruct (plain_frozen E p s R P) as [H1 H2].
  destruct I as [K|I].
  - destruct (H1 K) as [B T]. rewrite T. left. assumption.
  - destruct (H2 I) as [[T M]|[T N]].
    + rewrite T. assert (S : stores_slot f p = false) by (destruct f; simpl; try reflexivity; assumption).
      rewrite S. left. assumption.
    + rewrite N. right. assumption.
Qed.

Lemma root_forms E x s :
  E x = Some s -> imm_root_sym s ->
  forall f, allowed E f (PIdent x) = false /\ allowed E f (PParen (PIdent x)) = false.
Proof.
  intros R I f. split; eapply paths; try eassumption; reflexivity.
Qed.

(* the index variable of a two-variable for loop: the first of at least two iterator variables, whatever the
   others are (a name or the placeholder `_`) *)
Lemma for_index_lookup x second rest :
  env_of (for_syms (Some x :: second :: rest)) x = Some (mkSym SVariable true RNone).
Proof.
  unfold for_syms, env_of. simpl. rewrite Nat.eqb_refl. simpl. unfold for_sym. rewrite Nat.eqb_refl. reflexivity.
Qed.

Lemma for_index_forms x second rest f :
  allowed (env_of (for_syms (Some x :: second :: rest))) f (PIdent x) = false /\
  allowed (env_of (for_syms (Some x :: second :: rest))) f (PParen (PIdent x)) = false.
Proof.
  eapply root_forms; [apply for_index_lookup|].
  left. split; [right; reflexivity | reflexivity].
Qed.

(* controls: a single iterator variable, and the value variable after a placeholder, stay mutable *)
Lemma for_controls x y :
  env_of (for_syms [Some x]) x = Some (mkSym SVariable false RNone) /\
  env_of (for_syms [None; Some x]) x = Some (mkSym SVariable false RNone) /\
  (x <> y -> env_of (for_syms [Some y; Some x]) x = Some (mkSym SVariable false RNone)).
Proof.
  unfold for_syms, env_of. simpl. rewrite !Nat.eqb_refl. simpl. unfold for_sym.
  repeat split. intro N.
  destruct (Nat.eqb y x) eqn:Q; [apply Nat.eqb_eq in Q; congruence|].
  simpl. rewrite Nat.eqb_sym, Q. reflexivity.
Qed.

(* the value receiver is a copy: mutation is accepted with a warning only (not an immutable binding) *)
Lemma value_receiver_warns E x t :
  E x = Some (mkSym SReceiver false RNone) ->
  diagnose E FAssign (PField (PIdent x) t) = (if is_imm t then DImmRef else DWarn).
Proof.
  intro R. simpl. unfold diag_assign, check_mutability. simpl. rewrite R. simpl.
  destruct t; reflexivity.
Qed.

(* ---- the chain rule ------------------------------------------------------------------------------------------ *)

Lemma ty_wrap E p k : ty_ref E (wrap p k) = link_ref k.
Proof. destruct k; reflexivity. Qed.

Lemma find_imm_wrap E p k : find_imm_ref E (wrap p k) = find_imm_ref E p || is_imm (ty_ref E p).
Proof. destruct k; reflexivity. Qed.

Lemma find_ro_wrap E p k :
  find_readonly_root E (wrap p k) = if is_ref (ty_ref E p) then None else find_readonly_root E p.
Proof. destruct k; reflexivity. Qed.

Lemma map_index_wrap p k : is_map_index (wrap p k) = false.
Proof. destruct k; reflexivity. Qed.

Lemma map_index_from l p : is_map_index p = false -> is_map_index (place_from p l) = false.
Proof.
  revert p. induction l as [|k r IH]; simpl; intros p H; [assumption|].
  apply IH. apply map_index_wrap.
Qed.

Lemma imm_gen E l : forall p,
  find_imm_ref E (place_from p l) || is_imm (ty_ref E (place_from p l)) =
  find_imm_ref E p || imm_from (ty_ref E p) l.
Proof.
  induction l as [|k r IH]; simpl; intro p; [reflexivity|].
  rewrite IH, find_imm_wrap, ty_wrap. rewrite orb_assoc. reflexivity.
Qed.

Lemma ro_gen E l : forall p,
  find_readonly_root E (place_from p l) =
  if own_from (ty_ref E p) l then find_readonly_root E p else None.
Proof.
  induction l as [|k r IH]; simpl; intro p; [reflexivity|].
  rewrite IH, find_ro_wrap, ty_wrap.
  destruct (is_ref (ty_ref E p)); simpl; [destruct (own_from (link_ref k) r); reflexivity | reflexivity].
Qed.

Lemma imm_from_head c l : is_imm c || imm_from c l = imm_from c l.
Proof. destruct l; simpl; [apply orb_diag | rewrite orb_assoc, orb_diag; reflexivity]. Qed.

(* for the three write forms the verdict of the port is exactly the rule *)
Lemma write_diag_rejected E p (guard_map : bool) :
  accepted (if report_blocks (check_mutability E p) then diag_of_mres (check_mutability E p)
            else if is_imm (ty_ref E p) && guard_map then DImmRef else diag_of_mres (check_mutability E p)) =
  negb (match find_readonly_root E p with Some _ => true | None => false end
        || find_imm_ref E p || (is_imm (ty_ref E p) && guard_map)).
Proof.
  unfold check_mutability.
  destruct (find_readonly_root E p) as [s|]; [destruct (is_const s); reflexivity|].
  destruct (find_imm_ref E p); [reflexivity|].
  destruct (find_value_receiver E p); simpl; destruct (is_imm (ty_ref E p) && guard_map); reflexivity.
Qed.

Lemma chain_exact E x s l f :
  E x = Some s -> write_form f = true ->
  allowed E f (place_from (PIdent x) l) = negb (chain_error s l).
Proof.
  intros Ex W. unfold allowed, chain_error.
  set (p := place_from (PIdent x) l).
  assert (M : is_map_index p = false) by (apply map_index_from; reflexivity).
  assert (TY : ty_ref E (PIdent x) = s_ref s) by (simpl; rewrite Ex; reflexivity).
  assert (FI : find_imm_ref E (PIdent x) = is_imm (s_ref s)) by (simpl; rewrite Ex; reflexivity).
  assert (FR : find_readonly_root E (PIdent x) = if sym_ro s then Some s else None) by (simpl; rewrite Ex; reflexivity).
  assert (I : find_imm_ref E p || is_imm (ty_ref E p) = imm_from (s_ref s) l).
  { unfold p. rewrite imm_gen, TY, FI. apply imm_from_head. }
  assert (R : match find_readonly_root E p with Some _ => true | None => false end = sym_ro s && own_from (s_ref s) l).
  { unfold p. rewrite ro_gen, TY, FR. destruct (own_from (s_ref s) l), (sym_ro s); reflexivity. }
  assert (G : forall g, g = true ->
     negb (match find_readonly_root E p with Some _ => true | None => false end
           || find_imm_ref E p || (is_imm (ty_ref E p) && g)) =
     negb (imm_from (s_ref s) l || sym_ro s && own_from (s_ref s) l)).
  { intros g Hg. subst g. rewrite andb_true_r, R, <- I.
    destruct (sym_ro s && own_from (s_ref s) l), (find_imm_ref E p), (is_imm (ty_ref E p)); reflexivity. }
  destruct f; simpl in W; try discriminate.
  - change (diagnose E FAssign p) with (diag_assign E p). unfold diag_assign.
    rewrite (write_diag_rejected E p (negb (is_map_index p))). apply G. rewrite M. reflexivity.
  - change (diagnose E FCompound p) with (diag_assign E p). unfold diag_assign.
    rewrite (write_diag_rejected E p (negb (is_map_index p))). apply G. rewrite M. reflexivity.
  - change (diagnose E FIncDec p) with (diag_incdec E p).
    assert (Q : diag_incdec E p = (if report_blocks (check_mutability E p) then diag_of_mres (check_mutability E p)
              else if is_imm (ty_ref E p) && true then DImmRef else diag_of_mres (check_mutability E p))).
    { unfold diag_incdec. rewrite andb_true_r. reflexivity. }
    rewrite Q, (write_diag_rejected E p true). apply G. reflexivity.
Qed.

(* why a write form is rejected, in terms of the reference judgement *)
Lemma rejected_reason E f p :
  write_form f = true -> is_map_index p = false -> allowed E f p = false ->
  TargetFrozen E f p \/ InReadonlyBinding E p.
Proof.
  intros W M A.
  assert (S : stores_slot f p = false) by (destruct f; simpl; try reflexivity; assumption).
  assert (D : (exists s, find_readonly_root E p = Some s) \/ find_imm_ref E p = true \/ is_imm (ty_ref E p) = true).
  { unfold allowed in A.
    assert (Q : accepted (if report_blocks (check_mutability E p) then diag_of_mres (check_mutability E p)
              else if is_imm (ty_ref E p) && true then DImmRef else diag_of_mres (check_mutability E p)) = false).
    { destruct f; simpl in W; try discriminate; simpl in A; unfold diag_assign, diag_incdec in A;
        rewrite ?M in A; simpl in A; rewrite ?andb_true_r in *; exact A. }
    rewrite write_diag_rejected in Q. apply negb_false_iff in Q. rewrite andb_true_r in Q.
    destruct (find_readonly_root E p) as [s0|]; [left; exists s0; reflexivity|].
    right. simpl in Q. apply orb_true_iff in Q. exact Q. }
  destruct D as [[s0 F]|[F|F]].
  - right. exact (proj1 (find_binding E p s0 F)).
  - left. pose proof (find_referent E p F) as RF. unfold TargetFrozen. rewrite S.
    destruct (ty_ref E p) eqn:Ty; try exact RF.
    destruct RF as [RF|RF]; [congruence | right; exact RF].
  - left. apply is_imm_true in F. unfold TargetFrozen. rewrite F, S. left. exact F.
Qed.

(* the rule agrees with the reference judgement *)
Lemma chain_rule_agrees E x s l f :
  E x = Some s -> write_form f = true ->
  (chain_error s l = true <->
   TargetFrozen E f (place_from (PIdent x) l) \/ InReadonlyBinding E (place_from (PIdent x) l)).
Proof.
  intros Ex W. pose proof (chain_exact E x s l f Ex W) as X. split.
  - intro C. rewrite C in X. simpl in X.
    apply rejected_reason; [assumption | apply map_index_from; reflexivity | assumption].
  - intros [T|B].
    + rewrite (full E f _ T) in X. destruct (chain_error s l); [reflexivity | discriminate].
    + assert (A : allowed E f (place_from (PIdent x) l) = false).
      { pose proof (binding_blocks E _ B) as BB. unfold allowed.
        destruct f; simpl in W; try discriminate; simpl; unfold diag_assign, diag_incdec;
          apply guarded_form_rejects; assumption. }
      rewrite A in X. destruct (chain_error s l); [reflexivity | discriminate].
Qed.

(* the seeded shape: a value receiver (or by-value parameter) whose field is an immutable reference *)
Lemma value_root_imm_field_rejected E x k l f :
  E x = Some (mkSym k false RNone) -> write_form f = true ->
  allowed E f (place_from (PIdent x) (LImm :: l)) = false.
Proof.
  intros Ex W. rewrite (chain_exact E x _ (LImm :: l) f Ex W). unfold chain_error. simpl.
  destruct l; reflexivity.
Qed.

(* ---- concrete scope used for non-vacuity and for the refutation of the pre-fix code ------------------------ *)

(* 0: const c: S    1: r: &S (parameter)    2: let v: S    3: for index i    4: catch e    5: m: &'S    6: const k := &'v *)
Definition E0 : env := env_of
  [ (0, mkSym SConstant false RNone); (1, mkSym SParameter false RImm); (2, mkSym SVariable false RNone);
    (3, mkSym SVariable true RNone); (4, mkSym SVariable true RNone); (5, mkSym SParameter false RMut);
    (6, mkSym SConstant false RMut) ]%nat.

Definition all_forms : list form := [FAssign; FCompound; FIncDec; FBorrowMut; FPassBorrow; FPassRef; FCallMut].

(* c.I.W[1]  /  r.A[1].V  /  v.I.W[1] *)
Definition deep (x : nat) : place := PIndex (PField (PField (PIdent x) RNone) RNone) IFixed RNone.

Lemma nonvacuous :
  TargetFrozen E0 FAssign (deep 0) /\ TargetFrozen E0 FCallMut (deep 1) /\
  TargetFrozen E0 FIncDec (PParen (PIdent 3)) /\ TargetFrozen E0 FBorrowMut (PField (PIdent 4) RNone) /\
  forallb (fun f => negb (allowed E0 f (deep 0)) && negb (allowed E0 f (deep 1))) all_forms = true /\
  forallb (fun f => allowed E0 f (deep 2) || match f with FPassRef => true | _ => false end) all_forms = true /\
  allowed E0 FPassRef (PIdent 5) = true /\ allowed E0 FAssign (PField (PIdent 5) RNone) = true /\
  allowed E0 FAssign (PField (PIdent 6) RNone) = true /\ allowed E0 FAssign (PIdent 6) = false.
Proof.
  repeat split; try (vm_compute; reflexivity).
  - unfold TargetFrozen. simpl. left. unfold deep.
    apply rb_index; [reflexivity|]. apply rb_field; [reflexivity|]. apply rb_field; [reflexivity|].
    eapply rb_ident; [reflexivity | left; reflexivity].
  - unfold TargetFrozen. simpl. right. unfold deep.
    apply ti_deep_i. apply ti_deep_f. apply ti_here_f. reflexivity.
  - unfold TargetFrozen. simpl. left. apply rb_paren. eapply rb_ident; [reflexivity | right; reflexivity].
  - unfold TargetFrozen. simpl. left. apply rb_field; [reflexivity|].
    eapply rb_ident; [reflexivity | right; reflexivity].
Qed.

(* the original code (constant / read-only test on bare identifiers only, no guard on method calls, no
   immutable-reference test for &') accepts mutations of frozen targets *)
Lemma unpatched_refuted :
  (TargetFrozen E0 FAssign (PField (PIdent 0) RNone) /\ old_allowed E0 FAssign (PField (PIdent 0) RNone) = true) /\
  (TargetFrozen E0 FIncDec (PIndex (PIdent 0) IFixed RNone) /\ old_allowed E0 FIncDec (PIndex (PIdent 0) IFixed RNone) = true) /\
  (TargetFrozen E0 FCallMut (PIdent 0) /\ old_allowed E0 FCallMut (PIdent 0) = true) /\
  (TargetFrozen E0 FCallMut (PIdent 1) /\ old_allowed E0 FCallMut (PIdent 1) = true) /\
  (TargetFrozen E0 FPassBorrow (PField (PIdent 1) RNone) /\ old_allowed E0 FPassBorrow (PField (PIdent 1) RNone) = true) /\
  (TargetFrozen E0 FAssign (PField (PIdent 4) RNone) /\ old_allowed E0 FAssign (PField (PIdent 4) RNone) = true).
Proof.
  repeat split; try (vm_compute; reflexivity); unfold TargetFrozen; simpl.
  - left. apply rb_field; [reflexivity|]. eapply rb_ident; [reflexivity | left; reflexivity].
  - left. apply rb_index; [reflexivity|]. eapply rb_ident; [reflexivity | left; reflexivity].
  - left. eapply rb_ident; [reflexivity | left; reflexivity].
  - left. reflexivity.
  - right. apply ti_here_f. reflexivity.
  - left. apply rb_field; [reflexivity|]. eapply rb_ident; [reflexivity | right; reflexivity].
Qed.
