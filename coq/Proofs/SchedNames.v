(* C14 — with one LitCounters per Parser (glob = false) the literal names of a module are a function of the
   module's own events, in every reachable state of every schedule. *)
From Coq Require Import List Arith Bool Lia.
From FV Require Import Models.Sched.
Import ListNotations.

Definition names_in (nm : list (node * lkind * nat)) (m : node) : list (lkind * nat) :=
  map (fun x => (snd (fst x), snd x)) (filter (fun x => fst (fst x) =? m) nm).

Lemma names_of_in : forall st m, names_of st m = names_in (s_names st) m.
Proof. reflexivity. Qed.

Lemma names_in_snoc : forall nm m m' k n,
  names_in (nm ++ [(m', k, n)]) m = names_in nm m ++ (if m' =? m then [(k, n)] else []).
Proof.
  intros. unfold names_in. rewrite filter_app, map_app. cbn [filter fst snd].
  destruct (m' =? m); reflexivity.
Qed.

Definition gor_ok (P : project) (nm : list (node * lkind * nat)) (g : gor) : Prop :=
  exists l, names_in nm (g_mod g) ++ local_names (g_ctr g) (g_evs g) = local_names ctr0 (events_of P (g_mod g) l).

Definition Inv (P : project) (gs : list gor) (seen : list node) (nm : list (node * lkind * nat)) : Prop :=
  NoDup (map g_mod gs) /\
  (forall g, In g gs -> gor_ok P nm g) /\
  (forall g, In g gs -> In (g_mod g) seen) /\
  (forall m, ~ In m (map g_mod gs) -> names_in nm m = []).

Definition Inv_st (P : project) (st : state) : Prop := Inv P (s_gor st) (s_seen st) (s_names st).

Lemma take_ev_some : forall m gs e ln gs', take_ev m gs = (Some (e, ln), gs') ->
  exists g1 g g2 es c', gs = g1 ++ g :: g2 /\ gs' = g1 ++ mkGor m c' es :: g2 /\ g_mod g = m /\
    g_evs g = e :: es /\
    match e with ELit k => bump k (g_ctr g) = (c', ln) | _ => c' = g_ctr g end.
Proof.
  intros m. induction gs as [|g gs IH]; intros e ln gs' H; cbn [take_ev] in H; [discriminate|].
  destruct (g_mod g =? m) eqn:Hm.
  - apply Nat.eqb_eq in Hm. destruct (g_evs g) as [|e0 es] eqn:Hev; [discriminate|].
    destruct e0 as [k|d|v l|v l].
    + destruct (bump k (g_ctr g)) as [c' n] eqn:Hb. injection H as <- <- <-.
      exists [], g, gs, es, c'. repeat split; assumption.
    + injection H as <- <- <-. exists [], g, gs, es, (g_ctr g). repeat split; assumption.
    + injection H as <- <- <-. exists [], g, gs, es, (g_ctr g). repeat split; assumption.
    + injection H as <- <- <-. exists [], g, gs, es, (g_ctr g). repeat split; assumption.
  - destruct (take_ev m gs) as [r gs''] eqn:Ht. injection H as -> <-.
    destruct (IH _ _ _ eq_refl) as (g1 & g0 & g2 & es & c' & -> & -> & Hg & Hev & Hc).
    exists (g :: g1), g0, g2, es, c'. repeat split; assumption.
Qed.

(* replacing m's goroutine by its successor, with the name log extended consistently *)
Lemma inv_replace : forall P g1 g g2 seen nm g' nm',
  Inv P (g1 ++ g :: g2) seen nm -> g_mod g' = g_mod g ->
  (forall m', m' <> g_mod g -> names_in nm' m' = names_in nm m') ->
  names_in nm' (g_mod g) ++ local_names (g_ctr g') (g_evs g') =
    names_in nm (g_mod g) ++ local_names (g_ctr g) (g_evs g) ->
  Inv P (g1 ++ g' :: g2) seen nm'.
Proof.
  intros P g1 g g2 seen nm g' nm' (Hnd & Hok & Hseen & Hno) Hm Hoth Hown.
  assert (Hmods : map g_mod (g1 ++ g' :: g2) = map g_mod (g1 ++ g :: g2)).
  { rewrite !map_app. cbn [map]. rewrite Hm. reflexivity. }
  split; [rewrite Hmods; exact Hnd|]. split; [|split].
  - intros x Hx. apply in_app_or in Hx. destruct Hx as [Hx|[<-|Hx]].
    + assert (Hne : g_mod x <> g_mod g).
      { intros E. rewrite map_app in Hnd. cbn [map] in Hnd. apply NoDup_remove_2 in Hnd.
        apply Hnd. apply in_or_app. left. rewrite <- E. apply in_map. exact Hx. }
      destruct (Hok x) as [l Hl]; [apply in_or_app; left; exact Hx|].
      exists l. rewrite (Hoth _ Hne). exact Hl.
    + destruct (Hok g) as [l Hl]; [apply in_or_app; right; left; reflexivity|].
      exists l. rewrite Hm, Hown. exact Hl.
    + assert (Hne : g_mod x <> g_mod g).
      { intros E. rewrite map_app in Hnd. cbn [map] in Hnd. apply NoDup_remove_2 in Hnd.
        apply Hnd. apply in_or_app. right. rewrite <- E. apply in_map. exact Hx. }
      destruct (Hok x) as [l Hl]; [apply in_or_app; right; right; exact Hx|].
      exists l. rewrite (Hoth _ Hne). exact Hl.
  - intros x Hx. apply in_app_or in Hx. destruct Hx as [Hx|[<-|Hx]].
    + apply Hseen. apply in_or_app. left. exact Hx.
    + rewrite Hm. apply Hseen. apply in_or_app. right. left. reflexivity.
    + apply Hseen. apply in_or_app. right. right. exact Hx.
  - intros m' Hm'. rewrite Hmods in Hm'.
    assert (Hne : m' <> g_mod g).
    { intros ->. apply Hm'. rewrite map_app. apply in_or_app. right. left. reflexivity. }
    rewrite (Hoth _ Hne). apply Hno. exact Hm'.
Qed.

Lemma mem_In : forall x l, mem x l = true <-> In x l.
Proof.
  intros x l. unfold mem. rewrite existsb_exists. split.
  - intros (y & Hy & E). apply Nat.eqb_eq in E. subst. exact Hy.
  - intros H. exists x. split; [exact H|apply Nat.eqb_refl].
Qed.

Lemma NoDup_app_snoc : forall (l : list node) v, NoDup l -> ~ In v l -> NoDup (l ++ [v]).
Proof.
  induction l as [|a l IH]; intros v Hnd Hv; cbn [app].
  - constructor; [intros []|constructor].
  - inversion Hnd as [|? ? Ha Hl]; subst. constructor.
    + intros H. apply in_app_or in H. destruct H as [H|[H|[]]]; [apply Ha, H|].
      apply Hv. left. symmetry. exact H.
    + apply IH; [exact Hl|]. intros H. apply Hv. right. exact H.
Qed.

Lemma inv_spawn : forall P st v l gs,
  Inv P gs (s_seen st) (s_names st) -> Inv_st P (spawn P st v l gs).
Proof.
  intros P st v l gs (Hnd & Hok & Hseen & Hno). unfold spawn, Inv_st.
  destruct (mem v (s_seen st)) eqn:Hv; cbn [s_gor s_seen s_names].
  - repeat split; assumption.
  - assert (Hnv : ~ In v (s_seen st)) by (rewrite <- mem_In, Hv; discriminate).
    assert (Hnm : ~ In v (map g_mod gs)).
    { intros H. apply in_map_iff in H. destruct H as (g & <- & Hg). apply Hnv, Hseen, Hg. }
    split; [|split; [|split]].
    + rewrite map_app. cbn [map g_mod]. apply NoDup_app_snoc; assumption.
    + intros g Hg. apply in_app_or in Hg. destruct Hg as [Hg|[<-|[]]].
      * apply Hok, Hg.
      * exists l. cbn [g_mod g_ctr g_evs]. rewrite (Hno _ Hnm). reflexivity.
    + intros g Hg. apply in_or_app. apply in_app_or in Hg. destruct Hg as [Hg|[<-|[]]].
      * left. apply Hseen, Hg.
      * right. left. reflexivity.
    + intros m Hm. apply Hno. intros H. apply Hm. rewrite map_app. apply in_or_app. left. exact H.
Qed.

Lemma inv_step : forall P st m, Inv_st P st -> Inv_st P (step false P st m).
Proof.
  intros P st m HI. unfold step.
  destruct (take_ev m (s_gor st)) as [[[e ln]|] gs] eqn:Ht; [|exact HI].
  destruct (take_ev_some _ _ _ _ _ Ht) as (g1 & g & g2 & es & c' & Hgs & -> & Hg & Hev & Hc).
  unfold Inv_st in HI. rewrite Hgs in HI.
  destruct e as [k|d|v l|v l].
  - destruct (bump k (s_ctr st)) as [gc gn]. unfold Inv_st. cbn [s_gor s_seen s_names].
    eapply inv_replace; [exact HI|cbn [g_mod]; symmetry; exact Hg| |].
    + intros m' Hne. rewrite names_in_snoc. rewrite Hg in Hne.
      destruct (Nat.eqb_spec m m'); [subst; contradiction|]. apply app_nil_r.
    + rewrite names_in_snoc, Hg, Nat.eqb_refl, Hev. cbn [g_ctr g_evs local_names]. rewrite Hc.
      rewrite <- app_assoc. reflexivity.
  - subst c'. unfold Inv_st. cbn [s_gor s_seen s_names].
    eapply inv_replace; [exact HI|cbn [g_mod]; symmetry; exact Hg|reflexivity|].
    rewrite Hev. reflexivity.
  - subst c'. assert (HI' : Inv P (g1 ++ mkGor m (g_ctr g) es :: g2) (s_seen st) (s_names st)).
    { eapply inv_replace; [exact HI|cbn [g_mod]; symmetry; exact Hg|reflexivity|]. rewrite Hev. reflexivity. }
    destruct (add_dependency (s_graph st) m v) as [g' [cyc|]]; exact HI'.
  - subst c'. apply inv_spawn.
    eapply inv_replace; [exact HI|cbn [g_mod]; symmetry; exact Hg|reflexivity|]. rewrite Hev. reflexivity.
Qed.

Lemma inv_init : forall P roots, Inv_st P (init P roots).
Proof.
  intros P roots. unfold init.
  assert (H0 : Inv_st P st0).
  { repeat split; cbn; try constructor; intros; try contradiction; reflexivity. }
  revert H0. generalize st0. induction roots as [|r roots IH]; intros st H; cbn [fold_left]; [exact H|].
  apply IH. apply inv_spawn. exact H.
Qed.

Lemma inv_run : forall P roots sched, Inv_st P (run false P roots sched).
Proof.
  intros P roots sched. unfold run. generalize (inv_init P roots). generalize (init P roots).
  induction sched as [|m sched IH]; intros st H; cbn [fold_left]; [exact H|].
  apply IH. apply inv_step. exact H.
Qed.

Lemma local_names_req : forall P m l c, local_names c (events_of P m l) = local_names c (events_of P m None).
Proof.
  intros. unfold events_of. destruct (lookup P m) as [[evs|id]|]; reflexivity.
Qed.

(* under every schedule, a module that has finished parsing has exactly the names its own text determines *)
Theorem lit_names_local : forall P roots sched m,
  finished (run false P roots sched) m = true ->
  names_of (run false P roots sched) m = local_names ctr0 (events_of P m None).
Proof.
  intros P roots sched m Hf. destruct (inv_run P roots sched) as (_ & Hok & _ & _).
  unfold finished in Hf. apply existsb_exists in Hf. destruct Hf as (g & Hg & Hc).
  apply andb_true_iff in Hc. destruct Hc as [Hm He]. apply Nat.eqb_eq in Hm.
  destruct (Hok g Hg) as [l Hl]. destruct (g_evs g); [|discriminate].
  cbn [local_names] in Hl. rewrite app_nil_r in Hl. rewrite Hm in Hl.
  rewrite names_of_in, Hl. apply local_names_req.
Qed.

Corollary lit_names_sched_indep : forall P roots s1 s2 m,
  finished (run false P roots s1) m = true -> finished (run false P roots s2) m = true ->
  names_of (run false P roots s1) m = names_of (run false P roots s2) m.
Proof. intros. rewrite !lit_names_local by assumption. reflexivity. Qed.
