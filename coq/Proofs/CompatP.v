From Coq Require Import ZArith List Bool Lia.
From FV Require Import Models.Compat.
Import ListNotations.
Open Scope Z_scope.

Definition kind_wf (k : kind) : Prop :=
  match k with
  | KInt _ w => 1 <= w
  | KFloat p emax => 1 <= p /\ fmin p emax <= -1 /\ 0 <= fmax p emax
  end.

Lemma kind_of_wf t : kind_wf (kind_of t).
Proof. destruct t; cbn; unfold fmin, fmax; lia. Qed.

Lemma pow_le a b : 0 <= a <= b -> 2 ^ a <= 2 ^ b.
Proof. intros; apply Z.pow_le_mono_r; lia. Qed.
Lemma pow_lt a b : 0 <= a < b -> 2 ^ a < 2 ^ b.
Proof. intros; apply Z.pow_lt_mono_r; lia. Qed.
Lemma pow_pos a : 0 <= a -> 0 < 2 ^ a.
Proof. intros; apply Z.pow_pos_nonneg; lia. Qed.

Lemma deq_refl v : deq v v.
Proof. destruct v; cbn; reflexivity. Qed.

Lemma deq_int a b : deq (a, 0) (b, 0) <-> a = b.
Proof. cbn. rewrite !Z.mul_1_r. tauto. Qed.

Theorem contained_sound s t : contained_b s t = true -> forall v, dom s v -> dom t v.
Proof.
  unfold contained_b, dom. pose proof (kind_of_wf s) as Ws. pose proof (kind_of_wf t) as Wt.
  destruct (kind_of s) as [ss ws|p1 e1], (kind_of t) as [st wt|p2 e2]; cbn in Ws, Wt; intros H v.
  - intros [n [Hd Hr]]. exists n; split; [exact Hd|]. unfold lo, hi in *.
    destruct ss, st; try discriminate.
    + apply Z.leb_le in H. pose proof (pow_le (ws-1) (wt-1)). lia.
    + apply Z.ltb_lt in H. pose proof (pow_le ws (wt-1)). pose proof (pow_pos (wt-1)). lia.
    + apply Z.leb_le in H. pose proof (pow_le ws wt). lia.
  - intros [n [Hd Hr]]. exists n, 0. split; [exact Hd|]. split; [|lia]. unfold lo, hi in *.
    destruct ss; cbv iota in *.
    + apply Z.ltb_lt in H. pose proof (pow_lt (ws-1) p2). pose proof (pow_pos (ws - 1)). lia.
    + apply Z.leb_le in H. pose proof (pow_le ws p2). lia.
  - discriminate.
  - intros [m [e [Hd [Hm He]]]]. exists m, e. split; [exact Hd|].
    apply andb_prop in H as [H H3]. apply andb_prop in H as [H1 H2].
    apply Z.leb_le in H1, H2, H3. pose proof (pow_le p1 p2). lia.
Qed.

(* 2^p + 1 needs p+1 significant bits *)
Lemma not_rep p m e : 1 <= p -> deq (2 ^ p + 1, 0) (m, e) -> Z.abs m < 2 ^ p -> False.
Proof.
  intros Hp Hd Hm. cbn in Hd. pose proof (pow_pos p).
  destruct (Z.min_spec 0 e) as [[Hlt Hmin]|[Hle Hmin]]; rewrite Hmin in Hd.
  - (* 0 < e : m * 2^e is even, 2^p+1 is odd *)
    rewrite Z.sub_0_r in Hd. rewrite Z.pow_0_r, Z.mul_1_r in Hd.
    replace e with (1 + (e - 1)) in Hd by lia. rewrite Z.pow_add_r in Hd by lia.
    replace p with (1 + (p - 1)) in Hd at 1 by lia. rewrite Z.pow_add_r in Hd by lia.
    change (2 ^ 1) with 2 in Hd. lia.
  - (* e <= 0 : m = (2^p+1) * 2^(-e) is too large *)
    replace (e - e) with 0 in Hd by lia. rewrite Z.pow_0_r, Z.mul_1_r in Hd.
    pose proof (pow_pos (0 - e)). nia.
Qed.

Lemma not_half n : deq (1, -1) (n, 0) -> False.
Proof. cbn. change (2 ^ 1) with 2. lia. Qed.

Lemma no_boundary s t :
  match kind_of s, kind_of t with
  | KInt true ws, KFloat p _ => ws - 1 <> p
  | KFloat p1 e1, KFloat p2 e2 => p1 <= p2 -> fmin p2 e2 <= fmin p1 e1 /\ fmax p1 e1 <= fmax p2 e2
  | _, _ => True end.
Proof. destruct s, t; cbn; try exact I; unfold fmin, fmax; lia. Qed.

Theorem contained_complete s t :
  contained_b s t = false -> dom s (witness s t) /\ ~ dom t (witness s t).
Proof.
  unfold contained_b, dom, witness. pose proof (kind_of_wf s) as Ws. pose proof (kind_of_wf t) as Wt.
  pose proof (no_boundary s t) as NB.
  destruct (kind_of s) as [ss ws|p1 e1], (kind_of t) as [st wt|p2 e2]; cbn in Ws, Wt; intros H.
  - unfold lo, hi. destruct ss, st; cbn [andb negb].
    + apply Z.leb_gt in H. split.
      * exists (2 ^ (ws - 1) - 1). split; [apply deq_refl|]. pose proof (pow_pos (ws-1)). lia.
      * intros [n [Hd Hr]]. apply (proj1 (deq_int _ _)) in Hd. pose proof (pow_lt (wt-1) (ws-1)). lia.
    + split.
      * exists (-1). split; [apply deq_refl|]. pose proof (pow_pos (ws-1)). lia.
      * intros [n [Hd Hr]]. apply (proj1 (deq_int _ _)) in Hd. lia.
    + apply Z.ltb_ge in H. split.
      * exists (2 ^ ws - 1). split; [apply deq_refl|]. pose proof (pow_pos ws). lia.
      * intros [n [Hd Hr]]. apply (proj1 (deq_int _ _)) in Hd. pose proof (pow_lt (wt-1) ws). lia.
    + apply Z.leb_gt in H. split.
      * exists (2 ^ ws - 1). split; [apply deq_refl|]. pose proof (pow_pos ws). lia.
      * intros [n [Hd Hr]]. apply (proj1 (deq_int _ _)) in Hd. pose proof (pow_lt wt ws). lia.
  - destruct Wt as [Hp2 _]. split.
    + exists (2 ^ p2 + 1). split; [apply deq_refl|]. unfold lo, hi. pose proof (pow_pos p2). destruct ss.
      * apply Z.ltb_ge in H. pose proof (pow_le (p2 + 1) (ws - 1)). rewrite Z.pow_add_r in * by lia. change (2^1) with 2 in *.
        pose proof (pow_le 1 p2). change (2^1) with 2 in *. lia.
      * apply Z.leb_gt in H. pose proof (pow_le (p2 + 1) ws). rewrite Z.pow_add_r in * by lia. change (2^1) with 2 in *.
        pose proof (pow_le 1 p2). change (2^1) with 2 in *. lia.
    + intros [m [e [Hd [Hm He]]]]. eapply not_rep; eauto.
  - split.
    + destruct Ws as [Hp1 He1]. exists 1, (-1). split; [apply deq_refl|]. split.
      * pose proof (pow_lt 0 p1). change (2^0) with 1 in *. cbn. lia.
      * lia.
    + intros [n [Hd Hr]]. eapply not_half; eauto.
  - destruct Ws as [Hp1 He1], Wt as [Hp2 He2].
    assert (Hlt : p2 < p1).
    { destruct (Z_lt_dec p2 p1) as [|Hge]; [assumption|exfalso].
      destruct NB as [N1 N2]; [lia|].
      apply Bool.not_true_iff_false in H. apply H.
      apply andb_true_intro; split; [apply andb_true_intro; split|]; apply Z.leb_le; lia. }
    split.
    + exists (2 ^ p2 + 1), 0. split; [apply deq_refl|]. split; [|lia].
      pose proof (pow_pos p2). pose proof (pow_le (p2 + 1) p1). rewrite Z.pow_add_r in * by lia.
      change (2^1) with 2 in *. pose proof (pow_le 1 p2). change (2^1) with 2 in *. lia.
    + intros [m [e [Hd [Hm He]]]]. eapply not_rep; eauto.
Qed.

Theorem contained_iff s t : contained_b s t = true <-> (forall v, dom s v -> dom t v).
Proof.
  split; [apply contained_sound|].
  intros H. destruct (contained_b s t) eqn:E; [reflexivity|].
  destruct (contained_complete s t E) as [H1 H2]. exfalso. apply H2, H, H1.
Qed.

(* table-level statements *)
Lemma rows_contained rows :
  bad_rows rows = [] -> forall p s t, In (p, s, t) rows -> forall v, dom s v -> dom t v.
Proof.
  unfold bad_rows. intros Hb p s t Hin.
  assert (Hc : row_contained (p, s, t) = true).
  { destruct (row_contained (p, s, t)) eqn:E; [reflexivity|].
    assert (In (p, s, t) (filter (fun r => negb (row_contained r)) rows)) as Hf
      by (apply filter_In; split; [assumption|rewrite E; reflexivity]).
    rewrite Hb in Hf. destruct Hf. }
  apply contained_sound. exact Hc.
Qed.

Lemma nty_eqb_eq a b : nty_eqb a b = true <-> a = b.
Proof. destruct a, b; cbn; split; intros; try reflexivity; try discriminate. Qed.
Lemma pos_eqb_eq a b : pos_eqb a b = true <-> a = b.
Proof. destruct a, b; cbn; split; intros; try reflexivity; try discriminate. Qed.

Lemma row_in_In rows p s t : row_in rows p s t = true <-> In (p, s, t) rows.
Proof.
  unfold row_in. rewrite existsb_exists. split.
  - intros [[[q a] b] [Hin H]]. apply andb_prop in H as [H H3]. apply andb_prop in H as [H1 H2].
    apply pos_eqb_eq in H1. apply nty_eqb_eq in H2, H3. subst. exact Hin.
  - intros Hin. exists (p, s, t). split; [exact Hin|].
    rewrite (proj2 (pos_eqb_eq p p) eq_refl), !(proj2 (nty_eqb_eq _ _) eq_refl). reflexivity.
Qed.

Lemma pair_in_In l s t : pair_in l s t = true <-> In (s, t) l.
Proof.
  unfold pair_in. rewrite existsb_exists. split.
  - intros [[a b] [Hin H]]. apply andb_prop in H as [H1 H2]. apply nty_eqb_eq in H1, H2. subst. exact Hin.
  - intros Hin. exists (s, t). split; [exact Hin|]. rewrite !(proj2 (nty_eqb_eq _ _) eq_refl). reflexivity.
Qed.

Lemma all_nty_complete t : In t all_nty.
Proof. destruct t; cbn; tauto. Qed.
Lemma all_pos_complete p : In p all_pos.
Proof. destruct p; cbn; tauto. Qed.

Lemma positions_agree rows :
  positions_agree_b rows = true -> forall p q s t, In (p, s, t) rows -> In (q, s, t) rows.
Proof.
  unfold positions_agree_b. intros H p q s t Hin.
  rewrite forallb_forall in H. specialize (H s (all_nty_complete s)).
  rewrite forallb_forall in H. specialize (H t (all_nty_complete t)). cbv zeta in H.
  rewrite forallb_forall in H.
  pose proof (H p (all_pos_complete p)) as Hp. pose proof (H q (all_pos_complete q)) as Hq.
  apply Bool.eqb_prop in Hp, Hq. apply row_in_In. rewrite Hq, <- Hp. apply row_in_In. exact Hin.
Qed.

Lemma cast_available rows casts :
  cast_available_b rows casts = true ->
  forall s t, s <> t -> ~ In (PLet, s, t) rows -> In (s, t) casts.
Proof.
  unfold cast_available_b. intros H s t Hne Hni.
  rewrite forallb_forall in H. specialize (H s (all_nty_complete s)).
  rewrite forallb_forall in H. specialize (H t (all_nty_complete t)).
  apply orb_prop in H as [H|H]; [apply orb_prop in H as [H|H]|].
  - apply nty_eqb_eq in H. contradiction.
  - apply row_in_In in H. contradiction.
  - apply pair_in_In. exact H.
Qed.

(* pairs of underlying types (conversions that involve user-declared named numeric types) *)
Lemma pairs_contained (l : list (nty * nty)) :
  forallb (fun st => contained_b (fst st) (snd st)) l = true ->
  forall s t, In (s, t) l -> forall v, dom s v -> dom t v.
Proof.
  intros H s t Hin. rewrite forallb_forall in H. specialize (H (s, t) Hin). cbn in H.
  apply contained_sound. exact H.
Qed.
