(* C13 — totality of the lexer port: matcher bounds, exact index advance, progress, termination, single EOF. *)
From Coq Require Import ZArith List Bool Lia String.
From FV Require Import Models.LexerTot.
Import ListNotations.
Open Scope Z_scope.

Local Notation len := List.length.
Local Opaque skipn firstn.
Ltac inv H := first [discriminate H | (injection H; clear H; intros; subst)].

(* ------------------------------------------------------------------------------------------------ basics *)
Lemma span_le : forall f s, (span f s <= len s)%nat.
Proof. induction s as [|b t IH]; cbn; [lia|]. destruct (f b); cbn; lia. Qed.

Lemma starts_len : forall lit s, starts lit s = true -> (len lit <= len s)%nat.
Proof.
  induction lit as [|x l IH]; intros s H; cbn; [lia|].
  destruct s as [|y s']; cbn in H; [discriminate|].
  apply andb_true_iff in H. destruct H as [_ H]. apply IH in H. cbn. lia.
Qed.

Lemma beqb_len : forall a b, beqb a b = true -> len a = len b.
Proof.
  induction a as [|x a IH]; destruct b as [|y b]; cbn; intro H; try discriminate; [reflexivity|].
  apply andb_true_iff in H. destruct H as [_ H]. f_equal. auto.
Qed.

Lemma skipn_cons_lt : forall (A : Type) n (l : list A) x r, skipn n l = x :: r -> (n < len l)%nat.
Proof.
  intros A n l x r H. destruct (Nat.lt_ge_cases n (len l)) as [L|L]; [exact L|].
  rewrite skipn_all2 in H by exact L. discriminate.
Qed.

Lemma rune_size_bounds : forall s, s <> [] -> (1 <= rune_size s <= len s)%nat.
Proof.
  intros s H. destruct s as [|b0 [|b1 [|b2 [|b3 t]]]]; [congruence|..]; unfold rune_size;
    repeat match goal with |- context[if ?c then _ else _] => destruct c end; cbn [List.length]; lia.
Qed.

Local Opaque rune_size.
(* ------------------------------------------------------------------------------------------------ Advance *)
Lemma adv_idx : forall s skip pt p, (skip <= len s)%nat ->
  pidx (adv s skip pt p) = (pidx p + len s - skip)%nat.
Proof.
  induction s as [|b t IH]; intros skip pt p H; cbn [adv List.length] in *.
  - lia.
  - destruct skip as [|k].
    + destruct (b =? 10); [rewrite IH by lia; cbn [pidx]; lia|].
      destruct (b =? 9); [rewrite IH by lia; cbn [pidx]; lia|].
      pose proof (rune_size_bounds (b :: t)) as R. cbn [List.length] in R.
      assert (b :: t <> []) as NE by discriminate. specialize (R NE).
      rewrite IH by lia. cbn [pidx]. lia.
    + rewrite IH by lia. lia.
Qed.

Lemma advance_idx : forall s p, pidx (advance s p) = (pidx p + len s)%nat.
Proof. intros. unfold advance. rewrite adv_idx by lia. lia. Qed.

(* ------------------------------------------------------------------------------------------------ matcher bounds *)
Definition mbound (m : matcher) : Prop := forall s n, m s = Some n -> (1 <= n <= len s)%nat.

Lemma mb_ws : mbound m_ws.
Proof.
  intros s n H. unfold m_ws in H. pose proof (span_le is_ws s).
  destruct (span is_ws s) eqn:E; [discriminate|]. inv H. lia.
Qed.

Lemma mb_line : forall s n, m_line_comment s = Some n -> (2 <= n <= len s)%nat.
Proof.
  intros s n H. unfold m_line_comment in H. destruct (starts [47; 47] s) eqn:E; [|discriminate].
  apply starts_len in E. cbn [List.length] in E. inv H.
  pose proof (span_le not_eol (skipn 2 s)) as SP. rewrite skipn_length in SP. lia.
Qed.

Lemma find_close_bound : forall s n, find_close s = Some n -> (2 <= n <= len s)%nat.
Proof.
  induction s as [|a t IH]; intros n H; cbn [find_close] in H; [discriminate|].
  destruct t as [|b t']; [discriminate|].
  destruct ((a =? 42) && (b =? 47)).
  - inv H. cbn [List.length]. lia.
  - destruct (find_close (b :: t')) eqn:E; [|discriminate]. inv H.
    specialize (IH _ eq_refl). cbn [List.length] in *. lia.
Qed.

Lemma mb_block : forall s n, m_block_comment s = Some n -> (4 <= n <= len s)%nat.
Proof.
  intros s n H. unfold m_block_comment in H. destruct (starts [47; 42] s) eqn:E; [|discriminate].
  apply starts_len in E. cbn [List.length] in E.
  destruct (find_close (skipn 2 s)) eqn:F; [|discriminate]. inv H.
  apply find_close_bound in F. rewrite skipn_length in F. lia.
Qed.

Lemma mb_string : forall s n, m_string s = Some n -> (2 <= n <= len s)%nat.
Proof.
  intros s n H. unfold m_string in H. destruct s as [|q t]; [discriminate|].
  destruct (q =? 34); [|discriminate].
  destruct (skipn (span not_quote t) t) eqn:E; [discriminate|]. inv H.
  apply skipn_cons_lt in E. cbn [List.length]. lia.
Qed.

Lemma mb_byte : forall s n, m_byte s = Some n -> (3 <= n <= len s)%nat.
Proof.
  intros s n H. unfold m_byte in H. destruct s as [|q t]; [discriminate|].
  destruct (q =? 39); [|discriminate]. cbn [List.length].
  unfold orelse in H.
  destruct (byte_alt1 t) eqn:A1.
  { inv H. unfold byte_alt1 in A1.
    destruct t as [|b1 [|b2 [|h1 [|h2 [|q2 r]]]]]; try discriminate.
    destruct (_ && _ && _ && _ && _); inv A1. cbn [List.length]. lia. }
  destruct (byte_alt2 t) eqn:A2.
  { inv H. unfold byte_alt2 in A2.
    destruct t as [|b1 r]; [discriminate|]. destruct (b1 =? 92); [|discriminate].
    destruct r as [|c0 r']; [discriminate|]. destruct (c0 =? 10); [discriminate|].
    destruct (skipn (rune_size (c0 :: r')) (c0 :: r')) eqn:E; [discriminate|].
    destruct (z =? 39); inv A2.
    apply skipn_cons_lt in E. cbn [List.length] in *. lia. }
  unfold byte_alt3 in H. destruct t as [|c [|q2 r]]; try discriminate.
  destruct (_ && _); inv H. cbn [List.length]. lia.
Qed.

Lemma groups_le_n : forall d k s, (len s <= k)%nat -> (groups d s <= len s)%nat.
Proof.
  induction k as [|k IH]; intros s H.
  - destruct s; cbn in *; lia.
  - destruct s as [|a t]; cbn [groups List.length] in *; [lia|].
    destruct (d a).
    + specialize (IH t). lia.
    + destruct (a =? 95); [|lia]. destruct t as [|b t']; [lia|].
      destruct (d b); [|lia]. cbn [List.length] in *. specialize (IH t'). lia.
Qed.
Lemma groups_le : forall d s, (groups d s <= len s)%nat.
Proof. intros. apply (groups_le_n d (len s)). lia. Qed.

Lemma mb_prefixed : forall x X d, mbound (m_prefixed x X d).
Proof.
  intros x X d s n H. unfold m_prefixed in H. destruct s as [|z [|p [|d0 t]]]; try discriminate.
  destruct (_ && _ && _); inv H. pose proof (groups_le d t). cbn [List.length]. lia.
Qed.

Lemma mb_decnum : mbound m_decnum.
Proof.
  intros s n H. unfold m_decnum in H. destruct s as [|d0 t]; [discriminate|].
  destruct (is_dec d0); inv H. pose proof (groups_le is_dec t). cbn [List.length]. lia.
Qed.

Lemma optlen_le : forall (m : matcher) s, mbound m -> (optlen (m s) <= len s)%nat.
Proof. intros m s B. unfold optlen. destruct (m s) eqn:E; [apply B in E|]; lia. Qed.

Lemma mb_frac : mbound m_frac.
Proof.
  intros s n H. unfold m_frac in H. destruct s as [|dot t]; [discriminate|]. destruct (dot =? 46); [|discriminate].
  destruct (m_decnum t) eqn:E; inv H. apply mb_decnum in E. cbn [List.length]. lia.
Qed.

Lemma mb_exp : mbound m_exp.
Proof.
  intros s n H. unfold m_exp in H. destruct s as [|e t]; [discriminate|]. destruct (_ || _); [|discriminate].
  destruct t as [|sg t']; [discriminate|]. destruct (_ || _).
  - destruct (m_decnum t') eqn:E; inv H. apply mb_decnum in E. cbn [List.length]. lia.
  - destruct (m_decnum (sg :: t')) eqn:E; inv H. apply mb_decnum in E. cbn [List.length] in *. lia.
Qed.

Lemma mb_float : mbound m_float.
Proof.
  intros s n H. unfold m_float in H. destruct (m_decnum s) eqn:E; [|discriminate]. inv H.
  apply mb_decnum in E.
  pose proof (optlen_le m_frac (skipn n0 s) mb_frac) as F.
  pose proof (optlen_le m_exp (skipn (optlen (m_frac (skipn n0 s))) (skipn n0 s)) mb_exp) as X.
  rewrite !skipn_length in *. lia.
Qed.

Lemma mb_unsigned : mbound m_unsigned.
Proof.
  intros s n H. unfold m_unsigned, orelse in H.
  destruct (m_prefixed 120 88 is_hex s) eqn:E1; [inv H; eapply mb_prefixed; eauto|].
  destruct (m_prefixed 111 79 is_oct s) eqn:E2; [inv H; eapply mb_prefixed; eauto|].
  destruct (m_prefixed 98 66 is_bin s) eqn:E3; [inv H; eapply mb_prefixed; eauto|].
  now apply mb_float.
Qed.

Lemma mb_number : mbound m_number.
Proof.
  intros s n H. unfold m_number in H. destruct s as [|c t]; [discriminate|].
  destruct (c =? 45).
  - destruct (m_unsigned t) eqn:E; inv H. apply mb_unsigned in E. cbn [List.length]. lia.
  - now apply mb_unsigned.
Qed.

Lemma mb_ident : mbound m_ident.
Proof.
  intros s n H. unfold m_ident in H. destruct s as [|a t]; [discriminate|].
  destruct (is_id_start a); inv H. pose proof (span_le is_id_cont t). cbn [List.length]. lia.
Qed.

(* ------------------------------------------------------------------------------------------------ the table *)
Definition op_ok (lt : bytes * bytes) : bool :=
  beqb (fst lt) (snd lt) && (1 <=? len (fst lt))%nat && negb (beqb (snd lt) k_eof).
Definition ops_ok (ops : list (bytes * bytes)) : bool := forallb op_ok ops.

Definition needs2 (h : handler) : Prop := h = HString \/ h = HByte \/ h = HComment.

Definition fm_spec (rem : bytes) (n : nat) (h : handler) : Prop :=
  (1 <= n <= len rem)%nat /\ (needs2 h -> (2 <= n)%nat) /\
  (forall tok, h = HDefault tok -> len tok = n /\ tok <> k_eof).

Lemma k_eof_self : beqb k_eof k_eof = true.
Proof. reflexivity. Qed.

Lemma first_match_ops : forall ops rem n h, ops_ok ops = true ->
  first_match (op_patterns ops) rem = Some (n, h) -> fm_spec rem n h.
Proof.
  induction ops as [|[lit tok] ops IH]; intros rem n h Hok H; cbn in H; [discriminate|].
  cbn [ops_ok forallb] in Hok. apply andb_true_iff in Hok. destruct Hok as [H1 Hok].
  unfold m_lit in H. destruct (starts lit rem) eqn:S.
  - inv H. unfold op_ok in H1. cbn [fst snd] in H1.
    apply andb_true_iff in H1. destruct H1 as [H1 H3]. apply andb_true_iff in H1. destruct H1 as [H1 H2].
    apply Nat.leb_le in H2. apply starts_len in S. apply beqb_len in H1.
    split; [lia|]. split.
    + intros [C|[C|C]]; discriminate.
    + intros tok' E. inv E. split; [lia|]. intro C. subst. rewrite k_eof_self in H3. discriminate.
  - apply IH; assumption.
Qed.

Lemma needs2_not_default : forall tok, ~ needs2 (HDefault tok).
Proof. intros tok [C|[C|C]]; discriminate. Qed.

Lemma first_match_spec : forall ops rem n h, ops_ok ops = true ->
  first_match (patterns ops) rem = Some (n, h) -> fm_spec rem n h.
Proof.
  intros ops rem n h Hok H. unfold patterns, fixed_patterns in H. cbn [app first_match] in H.
  destruct (m_ws rem) eqn:E1.
  { inv H. apply mb_ws in E1. split; [lia|]. split; [intros [C|[C|C]]; discriminate|discriminate]. }
  destruct (m_line_comment rem) eqn:E2.
  { inv H. apply mb_line in E2. split; [lia|]. split; [lia|discriminate]. }
  destruct (m_block_comment rem) eqn:E3.
  { inv H. apply mb_block in E3. split; [lia|]. split; [lia|discriminate]. }
  destruct (m_string rem) eqn:E4.
  { inv H. apply mb_string in E4. split; [lia|]. split; [lia|discriminate]. }
  destruct (m_byte rem) eqn:E5.
  { inv H. apply mb_byte in E5. split; [lia|]. split; [lia|discriminate]. }
  destruct (m_number rem) eqn:E6.
  { inv H. apply mb_number in E6. split; [lia|]. split; [intros [C|[C|C]]; discriminate|discriminate]. }
  destruct (m_ident rem) eqn:E7.
  { inv H. apply mb_ident in E7. split; [lia|]. split; [intros [C|[C|C]]; discriminate|discriminate]. }
  eapply first_match_ops; eauto.
Qed.

(* ------------------------------------------------------------------------------------------------ one step *)
Definition no_eof (st : state) : Prop := Forall (fun t => tkind t <> k_eof) (stoks st).

Lemma kinds_ne :
  k_comment <> k_eof /\ k_string <> k_eof /\ k_number <> k_eof /\ k_byte <> k_eof /\ k_ident <> k_eof.
Proof. repeat split; intro H; vm_compute in H; discriminate. Qed.

Lemma run_handler_spec : forall kws h m st,
  is_keyword kws k_eof = false ->
  (forall tok, h = HDefault tok -> len tok = len m /\ tok <> k_eof) ->
  no_eof st ->
  pidx (spos (run_handler kws h m st)) = (pidx (spos st) + len m)%nat /\ no_eof (run_handler kws h m st).
Proof.
  intros kws h m st Hkw Hd Hn. destruct kinds_ne as [K1 [K2 [K3 [K4 K5]]]].
  unfold no_eof in *.
  destruct h; cbn [run_handler].
  - cbn [spos stoks]. rewrite advance_idx. auto.
  - cbn [spos stoks]. rewrite advance_idx. split; [reflexivity|]. constructor; [exact K1|exact Hn].
  - cbn [spos stoks]. rewrite advance_idx. split; [reflexivity|]. constructor; [exact K2|exact Hn].
  - destruct (parse_byte_escape _); cbn [spos stoks]; rewrite advance_idx; (split; [reflexivity|]);
      (constructor; [exact K4|exact Hn]).
  - cbn [spos stoks]. rewrite advance_idx. split; [reflexivity|]. constructor; [exact K3|exact Hn].
  - cbn [spos stoks]. rewrite advance_idx. split; [reflexivity|]. constructor; [|exact Hn].
    cbn [tkind]. destruct (is_keyword kws m) eqn:E; [|exact K5].
    intro C. subst. rewrite Hkw in E. discriminate.
  - destruct (Hd tok eq_refl) as [L N]. cbn [spos stoks]. rewrite advance_idx. split; [lia|].
    constructor; [exact N|exact Hn].
Qed.

Lemma step_spec : forall ops kws src st,
  ops_ok ops = true -> is_keyword kws k_eof = false -> no_eof st ->
  (pidx (spos st) < len src)%nat ->
  (pidx (spos st) < pidx (spos (step ops kws src st)) <= len src)%nat /\ no_eof (step ops kws src st).
Proof.
  intros ops kws src st Hok Hkw Hn Hlt. unfold step.
  set (rem := skipn (pidx (spos st)) src).
  assert (L : len rem = (len src - pidx (spos st))%nat) by (unfold rem; apply skipn_length).
  destruct (first_match (patterns ops) rem) as [[n h]|] eqn:F.
  - pose proof (first_match_spec _ _ _ _ Hok F) as [B [_ D]].
    assert (Lm : len (firstn n rem) = n) by (rewrite firstn_length; lia).
    destruct (run_handler_spec kws h (firstn n rem) st Hkw) as [I N]; [|exact Hn|].
    + intros tok E. rewrite Lm. auto.
    + rewrite I, Lm. split; [lia|exact N].
  - destruct rem as [|b r] eqn:R; [cbn [List.length] in L; lia|].
    cbn [spos stoks]. rewrite advance_idx. cbn [List.length] in *. split; [lia|exact Hn].
Qed.

(* ------------------------------------------------------------------------------------------------ the loop *)
Definition ends_with_single_eof (src : bytes) (toks : list token) : Prop :=
  exists body p, toks = body ++ [mkTok k_eof eof_text p p] /\
                 Forall (fun t => tkind t <> k_eof) body /\ pidx p = len src.

Lemma loop_total : forall ops kws src, ops_ok ops = true -> is_keyword kws k_eof = false ->
  forall fuel st, no_eof st -> (pidx (spos st) <= len src)%nat -> (len src - pidx (spos st) <= fuel)%nat ->
  exists toks errs, loop fuel ops kws src st = Some (toks, errs) /\ ends_with_single_eof src toks.
Proof.
  intros ops kws src Hok Hkw. induction fuel as [|f IH]; intros st Hn Hle Hf.
  - cbn [loop]. unfold at_eof. destruct (Nat.leb_spec (len src) (pidx (spos st))); [|lia].
    unfold finish. eexists. eexists. split; [reflexivity|].
    exists (rev (stoks st)), (spos st). cbn [rev]. split; [reflexivity|]. split; [|lia].
    apply Forall_rev. exact Hn.
  - cbn [loop]. unfold at_eof. destruct (Nat.leb_spec (len src) (pidx (spos st))).
    + unfold finish. eexists. eexists. split; [reflexivity|].
      exists (rev (stoks st)), (spos st). cbn [rev]. split; [reflexivity|]. split; [|lia].
      apply Forall_rev. exact Hn.
    + destruct (step_spec ops kws src st Hok Hkw Hn H) as [P N].
      apply IH; [exact N|lia|lia].
Qed.

(* for every byte string: the lexer terminates within |src| iterations (no fuel exhaustion), and its token list is a
   body without EOF tokens followed by exactly one EOF token placed at index |src| *)
Theorem tokenize_total : forall ops kws src, ops_ok ops = true -> is_keyword kws k_eof = false ->
  exists toks errs, tokenize ops kws src = Some (toks, errs) /\ ends_with_single_eof src toks.
Proof.
  intros ops kws src Hok Hkw. unfold tokenize. apply loop_total; auto.
  - unfold no_eof. cbn. constructor.
  - cbn. lia.
  - cbn. lia.
Qed.

(* every iteration advances the index by at least one byte and never beyond the end of the input *)
Theorem step_progress : forall ops kws src st, ops_ok ops = true -> is_keyword kws k_eof = false -> no_eof st ->
  (pidx (spos st) < len src)%nat ->
  (pidx (spos st) + 1 <= pidx (spos (step ops kws src st)) <= len src)%nat.
Proof. intros. destruct (step_spec ops kws src st) as [P _]; auto. lia. Qed.

(* no slice is taken beyond |src|: in every iteration the remainder is non-empty, the chosen match lies inside it,
   and the handlers that strip two delimiters (match[1:len-1], raw[2:len-2] is guarded by len >= 4) get >= 2 bytes *)
Theorem no_oob_slice : forall ops src idx n h, ops_ok ops = true -> (idx < len src)%nat ->
  let rem := skipn idx src in
  rem <> [] /\
  (first_match (patterns ops) rem = Some (n, h) ->
     (idx + n <= len src)%nat /\ (1 <= n)%nat /\ (needs2 h -> (2 <= n)%nat)).
Proof.
  intros ops src idx n h Hok Hlt rem.
  assert (L : len rem = (len src - idx)%nat) by (unfold rem; apply skipn_length).
  split; [intro C; rewrite C in L; cbn in L; lia|].
  intro F. destruct (first_match_spec _ _ _ _ Hok F) as [B [T _]]. split; [lia|]. split; [lia|exact T].
Qed.

(* Position.Advance adds exactly the number of bytes it was given — for EVERY byte string (invalid UTF-8 included) *)
Theorem advance_exact : forall s p, pidx (advance s p) = (pidx p + len s)%nat.
Proof. exact advance_idx. Qed.
