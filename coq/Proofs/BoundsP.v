(* C08 — proofs about Models/Bounds.v *)
From Coq Require Import ZArith List Bool Lia.
From FV Require Import Models.Bounds.
Import ListNotations.
Open Scope Z_scope.

(* ---------------------------------------------------------------- index algebra *)

Lemma wrapS32_id x : -2147483648 <= x < 2147483648 -> wrapS32 x = x.
Proof. unfold wrapS32. intros. rewrite Z.mod_small; lia. Qed.

Ltac zb :=
  repeat match goal with
  | |- context[?a <? ?b] => destruct (Z.ltb_spec a b)
  | |- context[?a >? ?b] => rewrite (Z.gtb_ltb a b)
  | |- context[?a >=? ?b] => rewrite (Z.geb_leb a b)
  | |- context[?a <=? ?b] => destruct (Z.leb_spec a b)
  | |- context[?a =? ?b] => destruct (Z.eqb_spec a b)
  end.

Lemma bounds_check_exact idx len :
  -2147483648 <= idx < 2147483648 -> 0 <= len < 2147483648 ->
  bounds_check idx len = if valid_index idx len then Some (norm_index idx len) else None.
Proof.
  intros Hi Hl. unfold bounds_check, valid_index, norm_index.
  destruct (Z.ltb_spec idx 0).
  - rewrite wrapS32_id by lia. zb; cbn; try reflexivity; try lia. f_equal; lia.
  - zb; cbn; try reflexivity; lia.
Qed.

Lemma in_ty_range t v : in_ty t v ->
  if ity_signed t then - 2 ^ (ity_bits t - 1) <= v < 2 ^ (ity_bits t - 1) else 0 <= v < 2 ^ ity_bits t.
Proof.
  unfold in_ty, in_tyb. destruct (ity_signed t); rewrite andb_true_iff, Z.leb_le, Z.ltb_lt; tauto.
Qed.

Ltac evalpow H :=
  repeat match type of H with
  | context[2 ^ ?e] => let x := eval vm_compute in (2 ^ e) in change (2 ^ e) with x in H
  end.

(* (a) the check emitted for an index of ANY integer type: exact for all values and lengths *)
Theorem index_i32_exact t v len :
  in_ty t v -> 0 <= len < 2147483648 ->
  index_i32 t v len = if valid_index v len then Some (norm_index v len) else None.
Proof.
  intros Hin Hl. apply in_ty_range in Hin. unfold index_i32, index_wide, cast_i32.
  destruct t; cbn [ity_signed ity_bits narrow_ty Z.ltb Z.eqb Z.compare Pos.compare Pos.compare_cont orb andb] in *;
    evalpow Hin;
    try (rewrite wrapS32_id by lia; apply bounds_check_exact; lia);
    (destruct (Z.ltb_spec 2147483647 v) as [Hw | Hw]; rewrite Z.gtb_ltb;
     [ destruct (Z.ltb_spec 2147483647 v); [| lia]; cbn [orb];
       unfold valid_index; zb; cbn; try reflexivity; lia
     | destruct (Z.ltb_spec 2147483647 v); [lia |]; cbn [orb] ]);
    try (rewrite wrapS32_id by lia; apply bounds_check_exact; lia);
    (destruct (Z.ltb_spec v (-2147483648)); cbn [orb andb];
     [ unfold valid_index; zb; cbn; try reflexivity; lia
     | rewrite wrapS32_id by lia; apply bounds_check_exact; lia ]).
Qed.

Corollary index_i32_some t v len k :
  in_ty t v -> 0 <= len < 2147483648 -> index_i32 t v len = Some k ->
  0 <= k < len /\ -len <= v < len /\ k = (if v <? 0 then v + len else v).
Proof.
  intros Hin Hl E. rewrite index_i32_exact in E by assumption.
  unfold valid_index, norm_index in E. revert E. zb; cbn; intros E; inversion E; subst; lia.
Qed.

Corollary index_i32_none t v len :
  in_ty t v -> 0 <= len < 2147483648 -> (index_i32 t v len = None <-> ~ (-len <= v < len)).
Proof.
  intros Hin Hl. rewrite index_i32_exact by assumption. unfold valid_index.
  zb; cbn; split; intros; try discriminate; try lia; reflexivity.
Qed.

(* without the guard the 32-bit cast aliases far-away values to in-range elements *)
Lemma trunc_wide_index_wrong :
  in_ty I64 4294967296 /\ index_i32_trunc I64 4294967296 3 = Some 0 /\
  in_ty U32 4294967295 /\ index_i32_trunc U32 4294967295 3 = Some 2 /\
  in_ty U64 18446744073709551615 /\ index_i32_trunc U64 18446744073709551615 3 = Some 2.
Proof. vm_compute. repeat split; reflexivity. Qed.

(* ---------------------------------------------------------------- array runtime refines lists *)

Definition inv (a : rarr) (l : list Z) : Prop := a_data a = l /\ a_len a = Z.of_nat (length l).

Lemma rt_new_inv c : inv (rt_new c) [].
Proof. split; reflexivity. Qed.

Lemma rt_append_inv a l v : inv a l -> inv (rt_append a v) (l ++ [v]).
Proof.
  intros [Hd Hl]. split; cbn.
  - now rewrite Hd.
  - rewrite app_length, Nat2Z.inj_add, Hl. reflexivity.
Qed.

Lemma fold_append_inv xs : forall a l, inv a l -> inv (fold_left rt_append xs a) (l ++ xs).
Proof.
  induction xs as [| x xs IH]; intros a l H; cbn.
  - now rewrite app_nil_r.
  - replace (l ++ x :: xs) with ((l ++ [x]) ++ xs) by (now rewrite <- app_assoc).
    apply IH, rt_append_inv, H.
Qed.

Lemma rt_of_list_inv xs : inv (rt_of_list xs) xs.
Proof. unfold rt_of_list. apply (fold_append_inv xs _ []), rt_new_inv. Qed.

Lemma rt_get_ok a l k : inv a l -> 0 <= k < Z.of_nat (length l) ->
  rt_get a k = Some (nth (Z.to_nat k) l 0).
Proof.
  intros [Hd Hl] Hk. unfold rt_get. rewrite Hl, Hd.
  destruct (Z.ltb_spec k 0); [lia |]. rewrite Z.geb_leb. destruct (Z.leb_spec (Z.of_nat (length l)) k); [lia |].
  cbn. apply nth_error_nth'. lia.
Qed.

Lemma upd_length l : forall k v, length (upd l k v) = length l.
Proof. induction l; intros [|k] v; cbn; auto. Qed.

Lemma rt_set_ok a l k v : inv a l -> 0 <= k < Z.of_nat (length l) ->
  exists a', rt_set a k v = Some a' /\ inv a' (upd l (Z.to_nat k) v).
Proof.
  intros [Hd Hl] Hk. unfold rt_set. rewrite Hl.
  destruct (Z.ltb_spec k 0); [lia |]. rewrite Z.geb_leb. destruct (Z.leb_spec (Z.of_nat (length l)) k); [lia |].
  cbn. eexists; split; [reflexivity |]. split; cbn.
  - now rewrite Hd.
  - now rewrite upd_length.
Qed.

(* element assignment touches exactly one position *)
Lemma upd_nth_same l : forall k v, (k < length l)%nat -> nth k (upd l k v) 0 = v.
Proof. induction l; intros [|k] v H; cbn in *; try lia; auto. apply IHl. lia. Qed.

Lemma upd_nth_other l : forall k j v, j <> k -> nth j (upd l k v) 0 = nth j l 0.
Proof. induction l; intros [|k] [|j] v H; cbn; auto; try congruence. Qed.

Definition nonzero (s : list Z) : Prop := forallb (fun b => negb (b =? 0)) s = true.

Lemma strlen_ok s : nonzero s -> rt_strlen (s ++ [0]) = Z.of_nat (length s).
Proof.
  unfold nonzero. induction s as [| b s IH]; cbn [forallb app rt_strlen length]; intros H.
  - reflexivity.
  - apply andb_true_iff in H as [Hb Hs]. destruct (Z.eqb_spec b 0); [discriminate |].
    rewrite IH by assumption. lia.
Qed.

(* ---------------------------------------------------------------- generated code refines the reference *)

Lemma ops_size_nonneg ops : 0 <= ops_size ops.
Proof. induction ops as [| o r IH]; [cbn; lia |]. destruct o; cbn [ops_size]; lia. Qed.

Lemma println_all c x :
  delivered (ch_println c x) ++ buffered (ch_println c x) = (delivered c ++ buffered c) ++ [x].
Proof. cbn. now rewrite app_assoc. Qed.

Lemma exec_refines str : nonzero str -> Z.of_nat (length str) < 2147483648 ->
  forall ops a l c, forallb op_wf ops = true -> inv a l ->
  Z.of_nat (length l) + ops_size ops < 2147483648 ->
  forall c' s, exec (str ++ [0]) ops a c = (c', s) ->
  spec str ops l (delivered c ++ buffered c) = (delivered c', s) /\ buffered c' = [].
Proof.
  intros Hnz Hsl. induction ops as [| o r IH]; intros a l c Hwf Hinv Hsz c' s E.
  - cbn in E. inversion E; subst. cbn. auto.
  - cbn [forallb] in Hwf. apply andb_true_iff in Hwf as [Ho Hr].
    pose proof (ops_size_nonneg r) as Hnn.
    destruct o as [xs | v | i v | i | | i | v | vs | ]; cbn [exec spec ops_size op_wf] in *.
    + apply (IH _ xs _ Hr (rt_of_list_inv xs)) in E; [exact E | lia].
    + apply (IH _ (l ++ [v]) _ Hr (rt_append_inv _ _ v Hinv)) in E; [exact E |].
      rewrite app_length, Nat2Z.inj_add. cbn. lia.
    + (* set *)
      unfold rt_len in E. destruct Hinv as [Hd Hl]. rewrite Hl in E.
      rewrite index_i32_exact in E by (try exact Ho; lia).
      destruct (valid_index (ix_val i) (Z.of_nat (length l))) eqn:V.
      * assert (Hk : 0 <= norm_index (ix_val i) (Z.of_nat (length l)) < Z.of_nat (length l)).
        { unfold valid_index in V. apply andb_true_iff in V as [V1 V2]. apply Z.leb_le in V1. apply Z.ltb_lt in V2.
          unfold norm_index. destruct (Z.ltb_spec (ix_val i) 0); lia. }
        destruct (rt_set_ok a l _ v (conj Hd Hl) Hk) as [a' [Es Hinv']]. rewrite Es in E.
        apply (IH _ _ _ Hr Hinv') in E; [exact E |]. rewrite upd_length. lia.
      * inversion E; subst. cbn. auto.
    + (* get *)
      unfold rt_len in E. destruct Hinv as [Hd Hl]. rewrite Hl in E.
      rewrite index_i32_exact in E by (try exact Ho; lia).
      destruct (valid_index (ix_val i) (Z.of_nat (length l))) eqn:V.
      * assert (Hk : 0 <= norm_index (ix_val i) (Z.of_nat (length l)) < Z.of_nat (length l)).
        { unfold valid_index in V. apply andb_true_iff in V as [V1 V2]. apply Z.leb_le in V1. apply Z.ltb_lt in V2.
          unfold norm_index. destruct (Z.ltb_spec (ix_val i) 0); lia. }
        rewrite (rt_get_ok a l _ (conj Hd Hl) Hk) in E.
        apply (IH _ _ _ Hr (conj Hd Hl)) in E; [| lia]. rewrite println_all in E. exact E.
      * inversion E; subst. cbn. auto.
    + (* len *)
      apply (IH _ _ _ Hr Hinv) in E; [| lia]. rewrite println_all in E.
      unfold rt_len in E. destruct Hinv as [_ Hl]. rewrite Hl in E. exact E.
    + (* string get *)
      rewrite (strlen_ok _ Hnz) in E.
      rewrite index_i32_exact in E by (try exact Ho; lia).
      destruct (valid_index (ix_val i) (Z.of_nat (length str))) eqn:V.
      * assert (Hk : 0 <= norm_index (ix_val i) (Z.of_nat (length str)) < Z.of_nat (length str)).
        { unfold valid_index in V. apply andb_true_iff in V as [V1 V2]. apply Z.leb_le in V1. apply Z.ltb_lt in V2.
          unfold norm_index. destruct (Z.ltb_spec (ix_val i) 0); lia. }
        apply (IH _ _ _ Hr Hinv) in E; [| lia]. rewrite println_all in E.
        rewrite app_nth1 in E by lia. exact E.
      * inversion E; subst. cbn. auto.
    + apply (IH _ _ _ Hr Hinv) in E; [| lia]. rewrite println_all in E. exact E.
    + (* call: grow *)
      apply (IH _ (l ++ vs) _ Hr (fold_append_inv vs _ _ Hinv)) in E; [exact E |].
      rewrite app_length, Nat2Z.inj_add. lia.
    + (* call: read-only len *)
      apply (IH _ _ _ Hr Hinv) in E; [| lia]. rewrite println_all in E.
      unfold rt_len in E. destruct Hinv as [_ Hl]. rewrite Hl in E. exact E.
Qed.

(* ---------------------------------------------------------------- the static tracker never mis-rejects *)

Definition tracked_ok (tr : option Z) (l : list Z) : Prop :=
  match tr with Some n => n = Z.of_nat (length l) | None => True end.

Lemma static_index_ok_valid tr l i :
  tracked_ok tr l -> valid_index (ix_val i) (Z.of_nat (length l)) = true -> static_index_ok tr i = true.
Proof.
  intros Ht V. unfold static_index_ok. destruct tr as [n |]; [| reflexivity]. cbn in Ht. subst n.
  destruct (ix_kind i); [| reflexivity]. destruct (fits_i64 (ix_val i)); [| reflexivity].
  unfold valid_index in V. apply andb_true_iff in V as [V1 V2]. apply Z.leb_le in V1. apply Z.ltb_lt in V2.
  destruct (Z.ltb_spec (ix_val i) 0).
  - destruct (Z.ltb_spec (Z.of_nat (length l) + ix_val i) 0); [lia |]. rewrite Z.geb_leb.
    destruct (Z.leb_spec (Z.of_nat (length l)) (Z.of_nat (length l) + ix_val i)); [lia | reflexivity].
  - destruct (Z.ltb_spec (ix_val i) 0); [lia |]. rewrite Z.geb_leb.
    destruct (Z.leb_spec (Z.of_nat (length l)) (ix_val i)); [lia | reflexivity].
Qed.

Lemma static_sound str : forall ops l out tr,
  tracked_ok tr l -> snd (spec str ops l out) = Exited -> static_ops tr ops = true.
Proof.
  induction ops as [| o r IH]; intros l out tr Ht E; [reflexivity |].
  destruct o as [xs | v | i v | i | | i | v | vs | ]; cbn [spec static_ops] in *.
  - eapply IH; [| exact E]. reflexivity.
  - eapply IH; [| exact E]. exact I.
  - destruct (valid_index (ix_val i) (Z.of_nat (length l))) eqn:V; [| discriminate].
    destruct (is_direct i); [| eapply IH; [| exact E]; exact I].
    rewrite (static_index_ok_valid tr l i Ht V). cbn. eapply IH; [| exact E].
    destruct tr; cbn in *; [rewrite upd_length; exact Ht | exact I].
  - destruct (valid_index (ix_val i) (Z.of_nat (length l))) eqn:V; [| discriminate].
    destruct (is_direct i); [| eapply IH; [| exact E]; exact I].
    rewrite (static_index_ok_valid tr l i Ht V). cbn. eapply IH; [exact Ht | exact E].
  - eapply IH; [exact Ht | exact E].
  - destruct (valid_index (ix_val i) (Z.of_nat (length str))) eqn:V; [| discriminate].
    eapply IH; [exact Ht | exact E].
  - eapply IH; [exact Ht | exact E].
  - eapply IH; [| exact E]. exact I.
  - eapply IH; [| exact E]. exact I.
Qed.

(* ---------------------------------------------------------------- whole programs *)

Theorem run_refines_spec p : prog_wf p ->
  (run p = (true, fst (spec_run p), snd (spec_run p))) \/
  (run p = (false, [], Exited) /\ snd (spec_run p) = Panicked).
Proof.
  intros (Hwf & Hsz & Hsl & Hnz). unfold run.
  destruct (static_accepts p) eqn:S.
  - left. destruct (exec (p_str p ++ [0]) (p_ops p) (rt_of_list (p_init p)) ch_empty) as [c s] eqn:E.
    apply (exec_refines _ Hnz Hsl _ _ (p_init p) _ Hwf (rt_of_list_inv _) Hsz) in E. cbn in E.
    destruct E as [E _]. unfold spec_run. rewrite E. reflexivity.
  - right. split; [reflexivity |].
    destruct (snd (spec_run p)) eqn:St; [| reflexivity].
    unfold spec_run in St. apply (static_sound _ _ _ _ (Some (Z.of_nat (length (p_init p))))) in St; [| reflexivity].
    unfold static_accepts in S. congruence.
Qed.

Corollary not_mis_rejected p : snd (spec_run p) = Exited -> static_accepts p = true.
Proof. intros H. eapply static_sound; [| exact H]. reflexivity. Qed.

(* the tracker before the repair rejects a valid history: let a := [1,2,3]; append(&'a, 4); a[3] *)
Definition append_witness : prog :=
  {| p_str := []; p_init := [1; 2; 3];
     p_ops := [OAppend 4; OGet {| ix_kind := KConst; ix_ty := I32; ix_val := 3; ix_path := PDirect |}] |}.

Lemma stale_tracker_misrejects :
  static_ops_stale (Some 3) (p_ops append_witness) = false /\ spec_run append_witness = ([4], Exited) /\
  static_accepts append_witness = true.
Proof. vm_compute. repeat split; reflexivity. Qed.

(* a tracker that keeps the length across `grow(a, ..)` rejects a valid history:
   let a := [1,2,3]; grow_2(a, 40, 50); a[3]; a[-5]; a[4] = 51; a[4] *)
Definition grow_witness : prog :=
  {| p_str := []; p_init := [1; 2; 3];
     p_ops := [OCallGrow [40; 50];
               OGet {| ix_kind := KConst; ix_ty := I32; ix_val := 3; ix_path := PDirect |};
               OGet {| ix_kind := KConst; ix_ty := I32; ix_val := -5; ix_path := PDirect |};
               OSet {| ix_kind := KConst; ix_ty := I32; ix_val := 4; ix_path := PDirect |} 51;
               OGet {| ix_kind := KConst; ix_ty := I32; ix_val := 4; ix_path := PDirect |}] |}.

Lemma byvalue_tracker_misrejects :
  static_ops_byvalue (Some 3) (p_ops grow_witness) = false /\ spec_run grow_witness = ([40; 1; 51], Exited) /\
  run grow_witness = (true, [40; 1; 51], Exited).
Proof. vm_compute. repeat split; reflexivity. Qed.

(* the panic path: with the flush every printed line is delivered, without it the buffer is lost *)
Lemma panic_flush_delivers c : delivered (ch_panic c) = delivered c ++ buffered c.
Proof. reflexivity. Qed.

Lemma panic_noflush_loses :
  delivered (ch_panic_noflush (ch_println ch_empty 7)) = [] /\ delivered (ch_panic (ch_println ch_empty 7)) = [7].
Proof. split; reflexivity. Qed.

(* non-vacuity: a well-formed history that appends past the literal, reads the new positions with constant,
   negative and wide opaque indices, overwrites one element and finally goes out of range *)
Definition demo : prog :=
  {| p_str := [72; 101; 121]; p_init := [10; 20; 30];
     p_ops := [OAppend 40; OAppend 50;
               OGet {| ix_kind := KConst; ix_ty := I32; ix_val := 4; ix_path := PDirect |};
               OGet {| ix_kind := KOpaque; ix_ty := I64; ix_val := -5; ix_path := PDirect |};
               OSet {| ix_kind := KOpaque; ix_ty := U64; ix_val := 3; ix_path := PDirect |} 99;
               OGet {| ix_kind := KConst; ix_ty := I8; ix_val := -2; ix_path := PDirect |};
               OSGet {| ix_kind := KOpaque; ix_ty := I16; ix_val := -1; ix_path := PRef |};
               OLen;
               OCallGrow [60; 70];
               OCallGrow [];
               OGet {| ix_kind := KConst; ix_ty := I32; ix_val := 6; ix_path := PDirect |};
               OSet {| ix_kind := KOpaque; ix_ty := I64; ix_val := -7; ix_path := PMut |} 11;
               OGet {| ix_kind := KOpaque; ix_ty := U8; ix_val := 0; ix_path := PFRef |};
               OCallLen;
               OGet {| ix_kind := KOpaque; ix_ty := I64; ix_val := 4294967296; ix_path := PDirect |};
               OPrint 1] |}.

Lemma demo_wf : prog_wf demo.
Proof. unfold prog_wf. vm_compute. repeat split; reflexivity. Qed.

Lemma demo_runs : run demo = (true, [50; 10; 99; 121; 5; 70; 11; 7], Panicked) /\ spec_run demo = ([50; 10; 99; 121; 5; 70; 11; 7], Panicked).
Proof. vm_compute. split; reflexivity. Qed.

(* ---------------------------------------------------------------- the access path is irrelevant at run time *)

Lemma exec_path_irrelevant mem : forall ops a c, exec mem (map direct_op ops) a c = exec mem ops a c.
Proof.
  induction ops as [| o r IH]; intros a c; [reflexivity |].
  destruct o; cbn [map direct_op exec direct_idx ix_ty ix_val]; rewrite ?IH; try reflexivity.
  - destruct (index_i32 (ix_ty i) (ix_val i) (rt_len a)); [| reflexivity].
    destruct (rt_set a z v); [apply IH | reflexivity].
  - destruct (index_i32 (ix_ty i) (ix_val i) (rt_len a)); [| reflexivity].
    destruct (rt_get a z); [apply IH | reflexivity].
  - destruct (index_i32 (ix_ty i) (ix_val i) (rt_strlen mem)); [apply IH | reflexivity].
Qed.

Lemma spec_path_irrelevant str : forall ops l out, spec str (map direct_op ops) l out = spec str ops l out.
Proof.
  induction ops as [| o r IH]; intros l out; [reflexivity |].
  destruct o; cbn [map direct_op spec direct_idx ix_val]; rewrite ?IH; reflexivity.
Qed.

(* a non-direct path is never rejected at compile time and forgets the remembered length *)
Lemma static_nondirect_get tr i r : is_direct i = false -> static_ops tr (OGet i :: r) = static_ops None r.
Proof. intros H. cbn. now rewrite H. Qed.
