(* C16 — ferret_div_mod_u_limbs (N-step shift-subtract) and the signed wrappers ferret_i*_div / ferret_i*_mod. *)
From Coq Require Import ZArith List Bool Lia.
From FV Require Import Models.Bigint Proofs.BigintP Proofs.BigintMulP Proofs.BigintDecP Proofs.BigintPowP Proofs.BigintBitsP.
Import ListNotations.
Open Scope Z_scope.

(* ------------------------------------------------------------------ rem <<= 1 with an incoming bit *)
Lemma lor_even_bit x c : 0 <= c <= 1 -> Z.lor ((x * 2) mod B) c = (x * 2) mod B + c.
Proof.
  intros Hc. assert (C : c = 0 \/ c = 1) by lia. destruct C as [-> | ->].
  - rewrite Z.lor_0_r. lia.
  - set (m := (x * 2) mod B).
    assert (E : m = m / 2 * 2 ^ 1).
    { subst m. rewrite B_eq. change (2 ^ 1) with 2. Z.div_mod_to_equations. lia. }
    replace (Z.lor m 1) with (Z.lor 1 (m / 2 * 2 ^ 1)) by (rewrite <- E; apply Z.lor_comm).
    rewrite (lor_add 1 (m / 2) 1) by lia. lia.
Qed.

Lemma shl1_limb r : limb_ok r -> (r * 2) mod B + B * (r / 2 ^ 63) = 2 * r /\ 0 <= r / 2 ^ 63 <= 1.
Proof.
  unfold limb_ok. rewrite B_eq. change (2 ^ 63) with 9223372036854775808. intros H.
  split; Z.div_mod_to_equations; lia.
Qed.

Lemma shl1_c_cong : forall rem c, limbs_ok rem -> 0 <= c <= 1 ->
  exists q, value (shl1_c rem c) = 2 * value rem + c + modulus (length rem) * q.
Proof.
  induction rem as [|r t IH]; intros c H Hc.
  - exists (- c). cbn [shl1_c value length]. rewrite modulus_0. lia.
  - apply limbs_ok_cons in H. destruct H as [Hr Ht].
    destruct (shl1_limb r Hr) as [E Hc'].
    destruct (IH (r / 2 ^ 63) Ht Hc') as [q Eq]. exists q.
    cbn [shl1_c value length]. rewrite Eq, modulus_S, (lor_even_bit r c Hc). nia.
Qed.

Lemma shl1_c_ok : forall rem c, limbs_ok rem -> 0 <= c <= 1 -> limbs_ok (shl1_c rem c).
Proof.
  induction rem as [|r t IH]; intros c H Hc; cbn [shl1_c]; [apply limbs_ok_nil|].
  apply limbs_ok_cons in H. destruct H as [Hr Ht]. destruct (shl1_limb r Hr) as [E Hc'].
  apply limbs_ok_cons. split; [| apply IH; auto].
  rewrite (lor_even_bit r c Hc). unfold limb_ok. rewrite B_eq. Z.div_mod_to_equations. lia.
Qed.

Lemma shl1_c_length : forall rem c, length (shl1_c rem c) = length rem.
Proof. induction rem as [|r t IH]; intros c; cbn [shl1_c length]; auto. Qed.

Lemma shl1_c_value rem c : limbs_ok rem -> 0 <= c <= 1 -> 2 * value rem + c < modulus (length rem) ->
  value (shl1_c rem c) = 2 * value rem + c.
Proof.
  intros H Hc Hb. destruct (shl1_c_cong rem c H Hc) as [q E].
  pose proof (value_bound _ (shl1_c_ok rem c H Hc)) as VB. rewrite shl1_c_length in VB.
  pose proof (value_bound rem H) as RB.
  rewrite (cong_mod _ _ _ q VB E). apply Z.mod_small. lia.
Qed.

Lemma or_low1_shl1 rem : rem <> [] -> or_low1 (shl1_c rem 0) = shl1_c rem 1.
Proof. destruct rem as [|r t]; [congruence|]. intros _. cbn [shl1_c or_low1]. rewrite Z.lor_0_r. reflexivity. Qed.

(* ------------------------------------------------------------------ bit access *)
Lemma get_bit_spec v k : limbs_ok v -> 0 <= k -> get_bit v k = Z.testbit (value v) k.
Proof.
  intros H Hk. unfold get_bit. rewrite (testbit_value v k H Hk).
  rewrite Z.testbit_odd, Z.shiftr_div_pow2; [reflexivity|]. apply Z.mod_pos_bound. lia.
Qed.

Lemma set_bit_value v k : limbs_ok v -> 0 <= k < 64 * Z.of_nat (length v) ->
  value (set_bit v k) = Z.lor (value v) (2 ^ k) /\ limbs_ok (set_bit v k) /\ length (set_bit v k) = length v.
Proof.
  intros H Hk. unfold set_bit.
  set (f := fun i => if i =? k / 64 then Z.lor (nthZ v i) (2 ^ (k mod 64)) else nthZ v i).
  assert (KM : 0 <= k mod 64 < 64) by (apply Z.mod_pos_bound; lia).
  assert (OK : limbs_ok (map f (idxs (length v)))).
  { apply limbs_ok_map_idxs. intros i Hi. subst f. cbv beta.
    destruct (i =? k / 64); [| apply nthZ_ok, H].
    apply limb_ok_bits. intros j Hj. rewrite Z.lor_spec, Z.pow2_bits_eqb by lia.
    rewrite (limb_high_false _ j (nthZ_ok v i H) Hj).
    destruct (Z.eqb_spec (k mod 64) j); [lia | reflexivity]. }
  split; [| split; [exact OK | apply length_map_idxs]].
  apply Z.bits_inj'. intros p Hp.
  rewrite (testbit_value _ p OK Hp), Z.lor_spec, Z.pow2_bits_eqb by lia.
  assert (PM : 0 <= p mod 64 < 64) by (apply Z.mod_pos_bound; lia).
  assert (PD : 0 <= p / 64) by (apply Z.div_pos; lia).
  destruct (Z.lt_ge_cases (p / 64) (Z.of_nat (length v))) as [In|Out].
  - rewrite nthZ_map_idxs by lia. subst f. cbv beta.
    rewrite (testbit_value v p H Hp).
    destruct (Z.eqb_spec (p / 64) (k / 64)) as [Eq|Ne].
    + rewrite Z.lor_spec, Z.pow2_bits_eqb by lia. f_equal.
      destruct (Z.eqb_spec (k mod 64) (p mod 64)); destruct (Z.eqb_spec k p); try reflexivity;
        exfalso; Z.div_mod_to_equations; lia.
    + destruct (Z.eqb_spec k p); [subst; congruence|]. rewrite orb_false_r. reflexivity.
  - rewrite nthZ_out by (rewrite length_map_idxs; lia). rewrite Z.bits_0.
    rewrite (testbit_value_high v p H) by (Z.div_mod_to_equations; lia).
    destruct (Z.eqb_spec k p); [exfalso; subst; Z.div_mod_to_equations; lia | reflexivity].
Qed.

Lemma lor_pow2_add Q k : 0 <= k -> Z.lor (Q * 2 ^ (k + 1)) (2 ^ k) = Q * 2 ^ (k + 1) + 2 ^ k.
Proof.
  intros Hk. rewrite Z.lor_comm. rewrite (lor_add (2 ^ k) Q (k + 1)); [lia | lia |].
  split; [apply Z.pow_nonneg; lia | apply Z.pow_lt_mono_r; lia].
Qed.

Lemma cmp_u_geb a b : length a = length b -> limbs_ok a -> limbs_ok b ->
  (cmp_u a b >=? 0) = (value b <=? value a).
Proof.
  intros L Ha Hb. destruct (cmp_u_spec a b L Ha Hb) as [[E O]|[[E O]|[E O]]]; rewrite E;
    destruct (Z.leb_spec (value b) (value a)); try reflexivity; lia.
Qed.

(* ------------------------------------------------------------------ the loop invariant *)
Section Div.
  Variables numer denom : list Z.
  Hypothesis Hn : limbs_ok numer.
  Hypothesis Hd : limbs_ok denom.
  Hypothesis Ld : length denom = length numer.
  Hypothesis Dpos : 0 < value denom.

  Let n := length numer.
  Let N := value numer.
  Let D := value denom.

  Lemma n_nonzero : n <> O.
  Proof.
    subst n. rewrite <- Ld. destruct denom; [cbn in Dpos; lia | cbn; congruence].
  Qed.

  (* after the top bits down to k are processed: quot = Q * 2^k, N / 2^k = Q * D + rem, rem < D *)
  Lemma divmod_go_spec : forall k quot rem Q,
    Z.of_nat k <= 64 * Z.of_nat n ->
    limbs_ok quot -> limbs_ok rem -> length quot = n -> length rem = n ->
    value quot = Q * 2 ^ Z.of_nat k -> N / 2 ^ Z.of_nat k = Q * D + value rem -> 0 <= value rem < D ->
    value (fst (divmod_go k numer denom quot rem)) * D + value (snd (divmod_go k numer denom quot rem)) = N /\
    0 <= value (snd (divmod_go k numer denom quot rem)) < D /\
    limbs_ok (fst (divmod_go k numer denom quot rem)) /\ limbs_ok (snd (divmod_go k numer denom quot rem)) /\
    length (fst (divmod_go k numer denom quot rem)) = n /\ length (snd (divmod_go k numer denom quot rem)) = n.
  Proof.
    induction k as [|k' IH]; intros quot rem Q Hk Hq Hr Lq Lr Eq En Rb.
    - cbn [divmod_go fst snd]. change (Z.of_nat 0) with 0 in *.
      rewrite Z.pow_0_r, Z.div_1_r in En. rewrite Z.pow_0_r, Z.mul_1_r in Eq.
      split; [rewrite Eq; lia|]. split; [exact Rb|]. auto.
    - pose proof n_nonzero as N0.
      pose proof (value_bound numer Hn) as NB. fold N in NB. fold n in NB.
      pose proof (modulus_even n N0) as ME. pose proof (modulus_pos n) as MP.
      set (K := Z.of_nat k') in *.
      assert (HK : 0 <= K) by (subst K; lia).
      assert (P2 : 2 ^ Z.of_nat (S k') = 2 * 2 ^ K) by (rewrite Nat2Z.inj_succ, Z.pow_succ_r by lia; reflexivity).
      rewrite P2 in *.
      assert (PK : 0 < 2 ^ K) by (apply Z.pow_pos_nonneg; lia).
      pose proof (value_bound quot Hq) as QB.
      assert (Q0 : 0 <= Q) by nia.
      set (b := Z.testbit N K).
      (* the next numerator prefix *)
      assert (F2 : N / 2 ^ K = 2 * (N / (2 * 2 ^ K)) + Z.b2z b).
      { subst b. rewrite Z.testbit_spec' by lia.
        rewrite (Z.mul_comm 2 (2 ^ K)), <- Z.div_div by lia.
        pose proof (Z.div_mod (N / 2 ^ K) 2 ltac:(lia)). lia. }
      assert (B01 : 0 <= Z.b2z b <= 1) by (destruct b; cbn; lia).
      (* no overflow of the shifted remainder *)
      assert (F3 : 2 * value rem + Z.b2z b < modulus (length rem)).
      { rewrite Lr.
        assert (R1 : value rem <= N / (2 * 2 ^ K)) by nia.
        assert (R2 : N / (2 * 2 ^ K) <= N / 2) by (apply Z.div_le_compat_l; lia).
        pose proof (Z.div_mod N 2 ltac:(lia)). pose proof (Z.mod_pos_bound N 2 ltac:(lia)). lia. }
      assert (Rne : rem <> []) by (intros ->; cbn in Lr; congruence).
      cbn [divmod_go]. cbv zeta. fold K.
      rewrite (get_bit_spec numer K Hn HK). fold N. fold b.
      replace (if b then or_low1 (shl1_c rem 0) else shl1_c rem 0) with (shl1_c rem (Z.b2z b))
        by (destruct b; [symmetry; apply or_low1_shl1; exact Rne | reflexivity]).
      set (rem2 := shl1_c rem (Z.b2z b)).
      assert (V2 : value rem2 = 2 * value rem + Z.b2z b) by (apply shl1_c_value; auto).
      assert (O2 : limbs_ok rem2) by (apply shl1_c_ok; auto).
      assert (L2 : length rem2 = n) by (subst rem2; rewrite shl1_c_length; exact Lr).
      rewrite (cmp_u_geb rem2 denom ltac:(rewrite L2, Ld; reflexivity) O2 Hd). fold D.
      destruct (Z.leb_spec D (value rem2)) as [Ge|Lt].
      + (* subtract, set the quotient bit *)
        destruct (set_bit_value quot K Hq ltac:(rewrite Lq; lia)) as (SV & SO & SL).
        assert (VS : value (sub_limbs rem2 denom) = value rem2 - D).
        { rewrite sub_limbs_correct by (auto; rewrite L2, Ld; reflexivity).
          rewrite L2. apply Z.mod_small. rewrite Lr in F3. fold D. lia. }
        apply (IH (set_bit quot K) (sub_limbs rem2 denom) (2 * Q + 1)); auto.
        * lia.
        * apply sub_c_ok.
        * rewrite SL. exact Lq.
        * unfold sub_limbs. rewrite sub_c_length by (rewrite L2, Ld; reflexivity). exact L2.
        * rewrite SV, Eq. replace (Q * (2 * 2 ^ K)) with (Q * 2 ^ (K + 1)) by (rewrite Z.pow_add_r by lia; ring).
          rewrite lor_pow2_add by lia. rewrite Z.pow_add_r by lia. ring.
        * rewrite VS, V2, F2, En. ring.
        * rewrite VS, V2. lia.
      + (* keep *)
        apply (IH quot rem2 (2 * Q)); auto.
        * lia.
        * rewrite Eq. ring.
        * rewrite V2, F2, En. ring.
        * rewrite V2. lia.
  Qed.

  Lemma div_mod_u_correct :
    exists q r, div_mod_u numer denom = (true, q, r) /\
      value q = N / D /\ value r = N mod D /\ limbs_ok q /\ limbs_ok r /\ length q = n /\ length r = n.
  Proof.
    unfold div_mod_u. rewrite (is_zero_spec denom Hd). fold D.
    destruct (Z.eqb_spec D 0) as [Z0|NZ]; [subst D; lia|]. fold n.
    pose proof (value_bound numer Hn) as NB. fold N in NB. fold n in NB. rewrite modulus_pow2 in NB.
    destruct (divmod_go_spec (n * 64) (zeros n) (zeros n) 0) as (E & Rb & Oq & Or & Lq & Lr).
    - lia.
    - apply zeros_ok.
    - apply zeros_ok.
    - apply zeros_length.
    - apply zeros_length.
    - rewrite value_zeros. lia.
    - rewrite value_zeros. replace (Z.of_nat (n * 64)) with (64 * Z.of_nat n) by lia.
      rewrite Z.div_small by lia. lia.
    - rewrite value_zeros. fold D in Dpos. lia.
    - destruct (divmod_go (n * 64) numer denom (zeros n) (zeros n)) as [q r]. cbn [fst snd] in *.
      exists q, r. split; [reflexivity|].
      split; [apply (Z.div_unique_pos N D (value q) (value r)); lia|].
      split; [apply (Z.mod_unique_pos N D (value q) (value r)); lia|]. auto.
  Qed.
End Div.

(* ------------------------------------------------------------------ unsigned entry points *)
Lemma u_divmod_correct a b : length a = length b -> limbs_ok a -> limbs_ok b -> value b <> 0 ->
  value (u_div a b) = value a / value b /\ value (u_mod a b) = value a mod value b /\
  limbs_ok (u_div a b) /\ limbs_ok (u_mod a b) /\ length (u_div a b) = length a /\ length (u_mod a b) = length a.
Proof.
  intros L Ha Hb NZ. pose proof (value_bound b Hb) as BB.
  destruct (div_mod_u_correct a b Ha Hb (eq_sym L) ltac:(lia)) as (q & r & E & Vq & Vr & Oq & Or & Lq & Lr).
  unfold u_div, u_mod. rewrite E. auto 10.
Qed.

(* ------------------------------------------------------------------ magnitudes *)
Lemma abs_value v : limbs_ok v -> v <> [] ->
  value (fst (abs_limbs v)) = Z.abs (svalue v) /\ snd (abs_limbs v) = (svalue v <? 0).
Proof.
  intros Hv Hne. unfold abs_limbs. cbn [fst snd]. rewrite (is_negative_spec v Hv Hne).
  pose proof (value_bound v Hv) as VB.
  assert (N0 : length v <> O) by (destruct v; cbn; congruence).
  pose proof (modulus_even (length v) N0) as EV. pose proof (modulus_pos (length v)) as MP.
  unfold svalue. set (m := modulus (length v)) in *. set (h := m / 2) in *.
  destruct (Z.leb_spec h (value v)); destruct (Z.ltb_spec (value v) h); try lia.
  - rewrite (negate_limbs_correct v Hv). fold m.
    rewrite Z.abs_neq by lia. split; [| symmetry; apply Z.ltb_lt; lia].
    symmetry. apply cong_mod with (q := 1); lia.
Qed.

Lemma s_div_unfold a b :
  s_div a b =
  let r := div_mod_u (fst (abs_limbs a)) (fst (abs_limbs b)) in
  let q := if fst (fst r) then snd (fst r) else zeros (length a) in
  if negb (Bool.eqb (snd (abs_limbs a)) (snd (abs_limbs b))) then negate_limbs q else q.
Proof.
  unfold s_div. destruct (abs_limbs a), (abs_limbs b). cbn [fst snd].
  destruct (div_mod_u l l0) as [[ok q] r]. reflexivity.
Qed.

Lemma s_mod_unfold a b :
  s_mod a b =
  let r := div_mod_u (fst (abs_limbs a)) (fst (abs_limbs b)) in
  let m := if fst (fst r) then snd r else zeros (length a) in
  if snd (abs_limbs a) then negate_limbs m else m.
Proof.
  unfold s_mod. destruct (abs_limbs a), (abs_limbs b). cbn [fst snd].
  destruct (div_mod_u l l0) as [[ok q] r]. reflexivity.
Qed.

Section Signed.
  Variables a b : list Z.
  Hypothesis L : length a = length b.
  Hypothesis Ha : limbs_ok a.
  Hypothesis Hb : limbs_ok b.
  Hypothesis Hne : a <> [].
  Hypothesis NZ : svalue b <> 0.

  Let m := modulus (length a).

  Lemma b_nonempty : b <> [].
  Proof. destruct b; destruct a; cbn in L; congruence. Qed.

  Lemma magnitudes :
    exists q r, div_mod_u (fst (abs_limbs a)) (fst (abs_limbs b)) = (true, q, r) /\
      value q = Z.abs (svalue a) / Z.abs (svalue b) /\ value r = Z.abs (svalue a) mod Z.abs (svalue b) /\
      limbs_ok q /\ limbs_ok r /\ length q = length a /\ length r = length a.
  Proof.
    destruct (abs_value a Ha Hne) as [Va _]. destruct (abs_value b Hb b_nonempty) as [Vb _].
    destruct (div_mod_u_correct (fst (abs_limbs a)) (fst (abs_limbs b)) (abs_ok a Ha) (abs_ok b Hb)
               ltac:(rewrite !abs_length; congruence) ltac:(rewrite Vb; lia))
      as (q & r & E & Vq & Vr & Oq & Or & Lq & Lr).
    exists q, r. rewrite Va, Vb in *. rewrite abs_length in *. auto 10.
  Qed.

  Lemma s_div_correct : svalue (s_div a b) = wrapS m (Z.quot (svalue a) (svalue b)).
  Proof.
    destruct magnitudes as (q & r & E & Vq & Vr & Oq & Or & Lq & Lr).
    destruct (abs_value a Ha Hne) as [_ Sa]. destruct (abs_value b Hb b_nonempty) as [_ Sb].
    rewrite s_div_unfold. cbv zeta. rewrite E. cbn [fst snd]. rewrite Sa, Sb.
    rewrite (Z.quot_div _ _ NZ).
    assert (Qne : q <> []) by (intros ->; cbn in Lq; destruct a; cbn in Lq; congruence).
    subst m. rewrite <- Lq.
    destruct (Z.ltb_spec (svalue a) 0) as [An|Ap]; destruct (Z.ltb_spec (svalue b) 0) as [Bn|Bp]; cbn [Bool.eqb negb].
    - rewrite (Z.sgn_neg _ An), (Z.sgn_neg _ Bn). apply svalue_wrap with (q := 0); auto. rewrite Vq. ring.
    - destruct (negate_cong q Oq) as [q1 E1]. rewrite <- (negate_length q).
      apply svalue_wrap with (q := q1); [apply negate_ok | intros X; pose proof (negate_length q) as NL; rewrite X in NL; destruct q; cbn in NL; congruence |].
      rewrite negate_length, E1, Vq, (Z.sgn_neg _ An), (Z.sgn_pos (svalue b)) by lia. ring.
    - destruct (negate_cong q Oq) as [q1 E1]. rewrite <- (negate_length q).
      apply svalue_wrap with (q := q1); [apply negate_ok | intros X; pose proof (negate_length q) as NL; rewrite X in NL; destruct q; cbn in NL; congruence |].
      rewrite negate_length, E1, Vq, (Z.sgn_neg _ Bn).
      destruct (Z.eq_dec (svalue a) 0) as [Z0|NZa].
      + rewrite Z0. cbn. ring.
      + rewrite (Z.sgn_pos (svalue a)) by lia. ring.
    - apply svalue_wrap with (q := 0); auto. rewrite Vq, (Z.sgn_pos (svalue b)) by lia.
      destruct (Z.eq_dec (svalue a) 0) as [Z0|NZa].
      + rewrite Z0. cbn. ring.
      + rewrite (Z.sgn_pos (svalue a)) by lia. ring.
  Qed.

  Lemma s_mod_correct : svalue (s_mod a b) = wrapS m (Z.rem (svalue a) (svalue b)).
  Proof.
    destruct magnitudes as (q & r & E & Vq & Vr & Oq & Or & Lq & Lr).
    destruct (abs_value a Ha Hne) as [_ Sa].
    rewrite s_mod_unfold. cbv zeta. rewrite E. cbn [fst snd]. rewrite Sa.
    rewrite (Z.rem_mod _ _ NZ).
    assert (Rne : r <> []) by (intros ->; cbn in Lr; destruct a; cbn in Lr; congruence).
    subst m. rewrite <- Lr.
    destruct (Z.ltb_spec (svalue a) 0) as [An|Ap].
    - destruct (negate_cong r Or) as [q1 E1]. rewrite <- (negate_length r).
      apply svalue_wrap with (q := q1); [apply negate_ok | intros X; pose proof (negate_length r) as NL; rewrite X in NL; destruct r; cbn in NL; congruence |].
      rewrite negate_length, E1, Vr, (Z.sgn_neg _ An). ring.
    - apply svalue_wrap with (q := 0); auto. rewrite Vr.
      destruct (Z.eq_dec (svalue a) 0) as [Z0|NZa].
      + rewrite Z0. change (Z.abs 0) with 0. change (Z.sgn 0) with 0. rewrite Zmod_0_l. ring.
      + rewrite (Z.sgn_pos (svalue a)) by lia. ring.
  Qed.
End Signed.
