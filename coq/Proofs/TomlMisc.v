(* C20 — totality of the reader, inert lines, the open finding, and a concrete instance of the hypotheses. *)
From Coq Require Import ZArith List Bool Lia String.
From FV Require Import Models.Toml Proofs.TomlBasics Proofs.TomlLine Proofs.TomlFile.
Import ListNotations.
Open Scope Z_scope.

(* line[1:len(line)-1] is only taken on lines of at least two bytes *)
Lemma header_slice_in_range l : is_header l = true -> (2 <= List.length l)%nat.
Proof.
  destruct l as [|a [|c r]]; [discriminate | | simpl; lia].
  unfold is_header, has_suffix, frev. cbn [has_prefix rev_append]. intros H.
  apply andb_true_iff in H. destruct H as [H1 H2]. apply andb_true_iff in H1, H2.
  destruct H1 as [H1 _], H2 as [H2 _]. apply Z.eqb_eq in H1, H2. lia.
Qed.

Section Misc.
Variable F : Type.
Variable parse_f : bytes -> option F.

Lemma parse_line_error st raw : parse_line F parse_f st raw = None -> split_eq (trim_space (drop_cr raw)) = None.
Proof.
  unfold parse_line. destruct st as [d cur].
  destruct (skip_line _); [discriminate|]. destruct (is_header _); [discriminate|].
  destruct (split_eq _) as [[k v]|]; [discriminate | reflexivity].
Qed.

Lemma parse_lines_error ls : forall st, parse_lines F parse_f ls st = None ->
  exists raw, In raw ls /\ split_eq (trim_space (drop_cr raw)) = None.
Proof.
  induction ls as [|l ls IH]; intros st H; [discriminate|]. cbn [parse_lines] in H.
  destruct (parse_line F parse_f st l) as [st'|] eqn:E.
  - destruct (IH st' H) as [raw [Hin Hr]]. exists raw. split; [right|]; auto.
  - exists l. split; [left; auto|]. eapply parse_line_error; eauto.
Qed.

(* the reader is a total function of the file content; its only failure is a line that is neither blank, comment,
   header nor contains '=' *)
Lemma parse_total content :
  (exists d, parse_file F parse_f content = Some d) \/
  (parse_file F parse_f content = None /\
   exists raw, In raw (split_lines content) /\ split_eq (trim_space (drop_cr raw)) = None).
Proof.
  unfold parse_file. destruct (parse_lines F parse_f (split_lines content) ([], [])) as [[d cur]|] eqn:E.
  - left. eauto.
  - right. split; auto. eapply parse_lines_error; eauto.
Qed.

(* blank lines and full-line comments never change the result, wherever they stand *)
Lemma skip_lines_inert l1 c l2 st : skip_line (trim_space (drop_cr c)) = true ->
  parse_lines F parse_f (l1 ++ c :: l2) st = parse_lines F parse_f (l1 ++ l2) st.
Proof.
  intros H. rewrite !(parse_lines_app F parse_f). destruct (parse_lines F parse_f l1 st) as [[d cur]|]; auto.
  cbn [parse_lines]. unfold parse_line at 1. rewrite H. reflexivity.
Qed.
End Misc.

(* ASCII blanks around a line are invisible to the reader *)
Lemma trim_left_blanks ws l : Forall (fun c => ascii_space c = true) ws -> trim_left (ws ++ l) = trim_left l.
Proof. induction 1; cbn [app]; auto. rewrite trim_left_space; auto. Qed.

Lemma trim_right_blanks ws l : Forall (fun c => ascii_space c = true /\ 0 <= c < 128) ws -> trim_right (l ++ ws) = trim_right l.
Proof.
  induction ws as [|x ws IH] using rev_ind; intros H; [rewrite app_nil_r; auto|].
  apply Forall_app in H. destruct H as [Hws Hx]. inversion Hx as [|? ? [Hs Hr]]; subst.
  rewrite app_assoc. rewrite trim_right_snoc_ascii by auto. rewrite Hs. auto.
Qed.

(* open finding: an empty default table is lost *)
Lemma empty_default_lost :
  exists d : data unit,
    assoc s_default d = Some [] /\
    parse_file unit (fun _ => None) (write unit (fun _ => []) no_comments d) = Some [].
Proof. exists [(s_default, [])]. split; reflexivity. Qed.

(* ---- a concrete instance: two floats, 1.5 and 2.0 *)
Definition fmt2 (x : bool) : bytes := if x then b "1.5"%string else b "2"%string.
Definition parse2 (t : bytes) : option bool :=
  if beq t (b "1.5"%string) then Some true else if beq t (b "2"%string) || beq t (b "2.0"%string) then Some false else None.

Lemma inst_ok :
  (forall x : bool, True -> Forall num_byte (fmt2 x) /\ fmt2 x <> []) /\
  (forall x : bool, True -> parse2 (fmt2 x) = Some x) /\
  (forall x : bool, True -> ~ In 46 (fmt2 x) -> parse2 (fmt2 x ++ s_dot0) = Some x).
Proof.
  split; [| split].
  - intros [] _; split; try discriminate; repeat constructor; unfold num_byte; cbn; lia.
  - intros [] _; reflexivity.
  - intros [] _ H; [exfalso; apply H; cbn; auto | reflexivity].
Qed.

Definition d_ex : data bool :=
  [ (s_default, [ (b "name"%string, VStr ([97; 35; 98; 32; 195; 169] : bytes)); (b "n"%string, VInt (-42)); (b "x"%string, VFloat false);
                  (b "y"%string, VFloat true); (b "ok"%string, VBool true) ]);
    (b "build"%string, [ (b "k"%string, VStr []) ]) ].
Definition cm_ex : comments :=
  fun s k => if beq s s_default && beq k (b "n"%string) then Some (b "note ] # x"%string) else None.

Lemma ex_roundtrip : parse_file bool parse2 (write bool fmt2 cm_ex d_ex) = Some d_ex /\ canon bool d_ex = d_ex.
Proof. split; vm_compute; reflexivity. Qed.

Lemma ex_cm_ok : cm_ok cm_ex.
Proof.
  intros s k c. unfold cm_ex. destruct (beq s s_default && beq k (b "n"%string)); [| discriminate].
  intros E. inversion E. unfold cmt_ok. cbn. intuition discriminate.
Qed.

Lemma ex_writable : writable bool (fun _ => True) d_ex.
Proof.
  intros s t. unfold d_ex. cbn [assoc].
  assert (K : forall k, In k [b "name"%string; b "n"%string; b "x"%string; b "y"%string; b "ok"%string; b "k"%string] -> key_ok k).
  { intros k Hk. cbn in Hk.
    repeat (destruct Hk as [<-|Hk]; [unfold key_ok; split; [discriminate|]; split;
      [repeat constructor; unfold key_byte; lia | cbn; split; lia] |]). destruct Hk. }
  destruct (beq s s_default).
  - intros E. inversion E. split.
    + cbn. repeat (apply NoDup_cons; [cbn; intuition discriminate|]). apply NoDup_nil.
    + repeat (apply Forall_cons; [split; [apply K; cbn; tauto|] |]); try apply Forall_nil; cbn; auto.
      * unfold str_ok. split; [| cbn; repeat split; try discriminate; intuition discriminate].
        apply u_1; [lia|]. apply u_1; [lia|]. apply u_1; [lia|]. apply u_1; [lia|].
        apply u_2; [reflexivity | reflexivity | apply u_nil].
      * unfold int_min, int_max. lia.
  - destruct (beq s (b "build"%string)); [| discriminate].
    intros E. inversion E. split.
    + cbn. repeat (apply NoDup_cons; [cbn; intuition discriminate|]). apply NoDup_nil.
    + repeat (apply Forall_cons; [split; [apply K; cbn; tauto|] |]); try apply Forall_nil; cbn.
      unfold str_ok. split; [apply u_nil | cbn; repeat split; try discriminate; intuition discriminate].
Qed.

Lemma comments_inert :
  forall (F : Type) (fmt_f : F -> bytes) (parse_f : bytes -> option F) (fin : F -> Prop),
    (forall x, fin x -> Forall num_byte (fmt_f x) /\ fmt_f x <> []) ->
    (forall x, fin x -> parse_f (fmt_f x) = Some x) ->
    (forall x, fin x -> ~ In 46 (fmt_f x) -> parse_f (fmt_f x ++ s_dot0) = Some x) ->
    forall cm : comments, cm_ok cm -> forall d : data F, writable F fin d ->
    parse_file F parse_f (write F fmt_f cm d) = parse_file F parse_f (write F fmt_f no_comments d).
Proof.
  intros F fmt_f parse_f fin H2 H1 H1' cm Hcm d Hw.
  rewrite (roundtrip F fmt_f parse_f fin H2 H1 H1' cm Hcm d Hw).
  symmetry. apply (roundtrip F fmt_f parse_f fin H2 H1 H1'); auto. intros s k c E. discriminate.
Qed.
