(* C07 — program-level soundness of the ported borrow checker (Models/Borrow.v):
     wf body -> vscoped params body -> accept params body = true -> safe params body = true
   for BorLang bodies of any length and nesting.  Invariant: every loan the specification considers live at a
   program point is present in the checker state (entry in `borrows`, binding in `bindings`). *)
From Coq Require Import List Bool Arith ZArith Lia.
From FV Require Import Models.Borrow Proofs.BorrowP Proofs.BorrowP2.
Import ListNotations.

(* ------------------------------------------------------------------------------------------------ basics *)
Lemma mem_In : forall k l, mem k l = true <-> In k l.
Proof.
  intros k l. unfold mem. rewrite existsb_exists. split.
  - intros [x [H1 H2]]. apply Nat.eqb_eq in H2. subst. exact H1.
  - intros H. exists k. split; auto. apply Nat.eqb_refl.
Qed.
Lemma mem_false : forall k l, mem k l = false <-> ~ In k l.
Proof.
  intros k l. split.
  - intros H Hin. apply mem_In in Hin. congruence.
  - intros H. destruct (mem k l) eqn:E; auto. apply mem_In in E. contradiction.
Qed.
Lemma mem_app : forall k a b, mem k (a ++ b) = mem k a || mem k b.
Proof. intros. unfold mem. apply existsb_app. Qed.
Lemma mem_removeAll : forall k D K, mem k (removeAll D K) = mem k K && negb (mem k D).
Proof.
  intros k D K. unfold removeAll. induction K as [|a K IH]; simpl; auto.
  destruct (mem a D) eqn:E; simpl.
  - rewrite IH. destruct (Nat.eqb k a) eqn:E2; simpl; auto.
    apply Nat.eqb_eq in E2. subst. rewrite E. simpl. rewrite andb_false_r. reflexivity.
  - rewrite IH. destruct (Nat.eqb k a) eqn:E2; simpl; auto.
    apply Nat.eqb_eq in E2. subst. rewrite E. reflexivity.
Qed.

Lemma lookup_delete_ne : forall {A} k k' (l : list (nat * A)), k <> k' -> lookup k (delete k' l) = lookup k l.
Proof.
  intros A k k' l H. induction l as [|[a v] l IH]; simpl; auto.
  destruct (Nat.eqb k' a) eqn:E.
  - apply Nat.eqb_eq in E. subst a. rewrite IH.
    destruct (Nat.eqb k k') eqn:E2; auto. apply Nat.eqb_eq in E2. contradiction.
  - simpl. rewrite IH. reflexivity.
Qed.
Lemma lookup_delete_eq : forall {A} k (l : list (nat * A)), lookup k (delete k l) = None.
Proof.
  intros A k l. induction l as [|[a v] l IH]; simpl; auto.
  destruct (Nat.eqb k a) eqn:E; auto. simpl. rewrite E. exact IH.
Qed.
Lemma lookup_delete_in : forall {A} k k' (l : list (nat * A)) v, lookup k (delete k' l) = Some v -> lookup k l = Some v.
Proof.
  intros A k k' l v H. destruct (Nat.eq_dec k k') as [E|E].
  - subst. rewrite lookup_delete_eq in H. discriminate.
  - rewrite lookup_delete_ne in H; auto.
Qed.
Lemma lookup_upd_eq : forall {A} k (v : A) l, lookup k (upd k v l) = Some v.
Proof. intros. unfold upd. simpl. rewrite Nat.eqb_refl. reflexivity. Qed.
Lemma lookup_upd_ne : forall {A} k k' (v : A) l, k <> k' -> lookup k (upd k' v l) = lookup k l.
Proof.
  intros. unfold upd. simpl. destruct (Nat.eqb k k') eqn:E.
  - apply Nat.eqb_eq in E. contradiction.
  - apply lookup_delete_ne. exact H.
Qed.

Lemma In_remove_first : forall {A} (f : A -> bool) l x, In x l -> f x = false -> In x (remove_first f l).
Proof.
  intros A f l x. induction l as [|a l IH]; simpl; auto.
  intros [H|H] Hf.
  - subst. rewrite Hf. left. reflexivity.
  - destruct (f a); auto. right. auto.
Qed.
Lemma In_removeBorrowEntry : forall es t e, In e es -> e_tag e <> e_tag t -> In e (removeBorrowEntry es t).
Proof.
  intros es t e Hin Ht. unfold removeBorrowEntry. apply -> in_rev. apply In_remove_first.
  - apply in_rev in Hin. exact Hin.
  - unfold sameE. destruct (Nat.eqb (e_tag e) (e_tag t)) eqn:E.
    + apply Nat.eqb_eq in E. contradiction.
    + rewrite andb_false_r. reflexivity.
Qed.

(* ------------------------------------------------------------------------------------------------ equations *)
Lemma go_eq : forall ss idx x,
  (fix go (idx : nat) (ss : list stmt) (x : st) {struct ss} : st :=
     match ss with
     | [] => x
     | s' :: rest => go (S idx) rest (releaseExpiredRefs idx (checkNode s' x))
     end) idx ss x = checkNodes idx ss x.
Proof. induction ss as [|s ss IH]; intros; simpl; [reflexivity | rewrite IH; reflexivity]. Qed.

Lemma checkNode_block : forall b x, checkNode (SBlock b) x = checkBlock b x.
Proof. intros. unfold checkBlock. simpl. rewrite go_eq. reflexivity. Qed.
Lemma checkNode_if : forall c b1 b2 x, checkNode (SIf c b1 b2) x = checkBlock b2 (checkBlock b1 (checkCond c x)).
Proof. intros. unfold checkBlock. simpl. rewrite !go_eq. reflexivity. Qed.
Lemma checkNode_while : forall c b x, checkNode (SWhile c b) x = checkBlock b (checkCond c x).
Proof. intros. unfold checkBlock. simpl. rewrite go_eq. reflexivity. Qed.

Lemma sgo_eq : forall L K ss G,
  (fix go (ss : list stmt) (G : list loan) {struct ss} : bool :=
     match ss with
     | [] => true
     | s' :: rest => let '(ok, G') := safeS L (flat_map mentions rest ++ K) G s' in ok && go rest G'
     end) ss G = safeL L K ss G.
Proof.
  induction ss as [|s ss IH]; intros; simpl; [reflexivity|].
  unfold mentionsL. destruct (safeS L (flat_map mentions ss ++ K) G s) as [ok G']. rewrite IH. reflexivity.
Qed.
Lemma safeS_block : forall L K G b, safeS L K G (SBlock b) = (safeL L (removeAll (declsDeep b) K) b G, G).
Proof. intros. simpl. rewrite sgo_eq. reflexivity. Qed.
Lemma safeS_if : forall L K G c b1 b2, safeS L K G (SIf c b1 b2) =
  (safeCond (cond_mentions c ++ mentionsL b1 ++ mentionsL b2 ++ K) G c && safeL L (removeAll (declsDeep b1) K) b1 G
   && safeL L (removeAll (declsDeep b2) K) b2 G, G).
Proof. intros. simpl. rewrite !sgo_eq. reflexivity. Qed.
Lemma safeS_while : forall L K G c b, safeS L K G (SWhile c b) =
  (safeCond (cond_mentions c ++ mentionsL b ++ K) G c && safeL L (removeAll (declsDeep b) (cond_mentions c ++ mentionsL b ++ K)) b G, G).
Proof. intros. simpl. rewrite sgo_eq. reflexivity. Qed.

(* induction principle for the nested statement type *)
Section stmt_ind2.
  Variable P : stmt -> Prop.
  Hypothesis HVar : forall v, P (SVar v).
  Hypothesis HLet : forall r m pl, P (SLet r m pl).
  Hypothesis HCopy : forall r2 r, P (SCopy r2 r).
  Hypothesis HUse : forall r, P (SUse r).
  Hypothesis HWt : forall r, P (SWt r).
  Hypothesis HRead : forall pl, P (SRead pl).
  Hypothesis HWrite : forall pl, P (SWrite pl).
  Hypothesis HCall : forall args, P (SCall args).
  Hypothesis HBlock : forall b, Forall P b -> P (SBlock b).
  Hypothesis HIf : forall c b1 b2, Forall P b1 -> Forall P b2 -> P (SIf c b1 b2).
  Hypothesis HWhile : forall c b, Forall P b -> P (SWhile c b).
  Hypothesis HRetBor : forall m pl, P (SRetBor m pl).
  Hypothesis HRetRef : forall r, P (SRetRef r).
  Fixpoint stmt_ind2 (s : stmt) : P s :=
    let all := fix all (l : list stmt) : Forall P l :=
      match l with [] => Forall_nil P | s' :: t => Forall_cons s' (stmt_ind2 s') (all t) end in
    match s with
    | SVar v => HVar v | SLet r m pl => HLet r m pl | SCopy r2 r => HCopy r2 r | SUse r => HUse r | SWt r => HWt r
    | SRead pl => HRead pl | SWrite pl => HWrite pl | SCall args => HCall args
    | SBlock b => HBlock b (all b)
    | SIf c b1 b2 => HIf c b1 b2 (all b1) (all b2)
    | SWhile c b => HWhile c b (all b)
    | SRetBor m pl => HRetBor m pl | SRetRef r => HRetRef r
    end.
End stmt_ind2.

(* ------------------------------------------------------------------------------------------------ frames *)
Definition ext (x y : st) : Prop := exists l, errs y = errs x ++ l.
Lemma ext_refl : forall x, ext x x.
Proof. intros. exists []. rewrite app_nil_r. reflexivity. Qed.
Lemma ext_trans : forall x y z, ext x y -> ext y z -> ext x z.
Proof. intros x y z [l1 H1] [l2 H2]. exists (l1 ++ l2). rewrite H2, H1, app_assoc. reflexivity. Qed.
Lemma ext_same : forall x y, errs y = errs x -> ext x y.
Proof. intros x y H. exists []. rewrite app_nil_r. exact H. Qed.
Lemma ext_addErr : forall e x, ext x (addErr e x).
Proof. intros. exists [e]. reflexivity. Qed.
Lemma ext_noerr : forall x y, ext x y -> errs y = [] -> errs x = [].
Proof. intros x y [l H] E. rewrite H in E. apply app_eq_nil in E. tauto. Qed.
Global Opaque ext.
Lemma adds_error_not_nil : forall x y, adds_error x y -> errs y <> [].
Proof. intros x y [e H] E. rewrite H in E. apply app_eq_nil in E. destruct E. discriminate. Qed.

(* feq: everything but borrows / bindings is unchanged *)
Definition feq (x y : st) : Prop :=
  scopes y = scopes x /\ temp y = temp x /\ locals y = locals x /\ errs y = errs x.
Lemma feq_refl : forall x, feq x x.
Proof. intros. repeat split. Qed.
Lemma feq_trans : forall x y z, feq x y -> feq y z -> feq x z.
Proof. intros x y z (A1&A2&A3&A4) (B1&B2&B3&B4). repeat split; congruence. Qed.

Lemma releaseBinding_feq : forall r x, feq x (releaseBinding r x).
Proof. intros. unfold releaseBinding. destruct (lookup r (bindings x)); repeat split. Qed.
Lemma fold_releaseBinding_feq : forall rs x, feq x (fold_left (fun s r => releaseBinding r s) rs x).
Proof.
  induction rs as [|r rs IH]; intros; simpl; [apply feq_refl|].
  eapply feq_trans; [apply releaseBinding_feq | apply IH].
Qed.

Lemma addBorrow_cases : forall b p m tag x,
  (exists e, addBorrow b p m tag x = (false, addErr e x)) \/
  addBorrow b p m tag x = (true, setBorrows (borrows x ++ [mkE b p m tag]) x).
Proof.
  intros. unfold addBorrow. destruct m.
  - destruct (findBorrow (borrows x) b p None); eauto.
  - destruct (findBorrow (borrows x) b p (Some true)); eauto.
Qed.

Lemma addScopeRef_proj : forall r y,
  borrows (addScopeRef r y) = borrows y /\ bindings (addScopeRef r y) = bindings y /\
  temp (addScopeRef r y) = temp y /\ locals (addScopeRef r y) = locals y /\ errs (addScopeRef r y) = errs y.
Proof. intros. unfold addScopeRef. destruct (scopes y); simpl; repeat split. Qed.

Lemma addScopeRef_scopes : forall r y sc tl, scopes y = sc :: tl ->
  scopes (addScopeRef r y) = mkSc (sc_refs sc ++ [r]) (sc_last sc) :: tl.
Proof. intros. unfold addScopeRef. rewrite H. reflexivity. Qed.

Lemma checkRead_cases : forall pl x, (exists e, checkRead pl x = addErr e x) \/ checkRead pl x = x.
Proof. intros. unfold checkRead. destruct (findBorrow _ _ _ _); eauto. Qed.
Lemma checkWrite_cases : forall pl x, (exists e, checkWrite pl x = addErr e x) \/ checkWrite pl x = x.
Proof.
  intros. unfold checkWrite. destruct (findBorrow _ _ _ (Some true)); eauto.
  destruct (findBorrow _ _ _ (Some false)); eauto.
Qed.
Lemma checkReturnBase_cases : forall b x, (exists e, checkReturnBase b x = addErr e x) \/ checkReturnBase b x = x.
Proof. intros. unfold checkReturnBase. destruct (mem b (locals x)); eauto. Qed.
Lemma checkCond_cases : forall c x, (exists e, checkCond c x = addErr e x) \/ checkCond c x = x.
Proof. intros. destruct c as [|pl|r]; simpl; auto. apply checkRead_cases. Qed.

Lemma addErr_noerr : forall e x, errs (addErr e x) <> [].
Proof. intros e x H. simpl in H. apply app_eq_nil in H. destruct H. discriminate. Qed.

(* shape of a state after checkBorrowExpr *)
Lemma checkBorrowExpr_cases : forall m pl x,
  (exists e, checkBorrowExpr m pl x = addErr e x) \/
  checkBorrowExpr m pl x =
    setTemp (temp x ++ [mkE (fst pl) (snd pl) m 0]) (setBorrows (borrows x ++ [mkE (fst pl) (snd pl) m 0]) x).
Proof.
  intros. unfold checkBorrowExpr.
  destruct (addBorrow_cases (fst pl) (snd pl) m 0 x) as [[e H]|H]; rewrite H; eauto.
Qed.

Definition temps0 (x : st) : Prop := forall e, In e (temp x) -> e_tag e = 0.

Lemma checkArg_frame : forall a x,
  let y := checkArg x a in
  ext x y /\ locals y = locals x /\ scopes y = scopes x /\ bindings y = bindings x /\
  (forall e, In e (borrows x) -> In e (borrows y)) /\ (temps0 x -> temps0 y).
Proof.
  intros a x. destruct a as [m pl|pl|r]; simpl.
  - destruct (checkBorrowExpr_cases m pl x) as [[e H]|H]; rewrite H.
    + repeat split; auto using ext_addErr.
    + repeat split; simpl; auto using ext_refl, ext_same.
      * intros. apply in_or_app. auto.
      * intros H0 e He. apply in_app_or in He. destruct He as [He|[He|[]]]; auto. subst. reflexivity.
  - destruct (checkRead_cases pl x) as [[e H]|H]; rewrite H; repeat split; auto using ext_refl, ext_same, ext_addErr.
  - repeat split; auto using ext_refl, ext_same.
Qed.

Lemma fold_args_frame : forall args x,
  let y := fold_left checkArg args x in
  ext x y /\ locals y = locals x /\ scopes y = scopes x /\ bindings y = bindings x /\
  (forall e, In e (borrows x) -> In e (borrows y)) /\ (temps0 x -> temps0 y).
Proof.
  induction args as [|a args IH]; intros x; simpl.
  - repeat split; auto using ext_refl, ext_same.
  - destruct (checkArg_frame a x) as (A1&A2&A3&A4&A5&A6).
    destruct (IH (checkArg x a)) as (B1&B2&B3&B4&B5&B6).
    repeat split; try congruence; eauto using ext_trans.
Qed.

Lemma fold_releaseBorrow_proj : forall ts y,
  let z := fold_left (fun s e => releaseBorrow e s) ts y in
  bindings z = bindings y /\ scopes z = scopes y /\ temp z = temp y /\ locals z = locals y /\ errs z = errs y /\
  (forall e, In e (borrows y) -> (forall t, In t ts -> e_tag e <> e_tag t) -> In e (borrows z)).
Proof.
  induction ts as [|t ts IH]; intros y; simpl.
  - repeat split; auto.
  - destruct (IH (releaseBorrow t y)) as (B1&B2&B3&B4&B5&B6).
    repeat split; auto.
    intros e He Ht. apply B6.
    + simpl. apply In_removeBorrowEntry; auto.
    + intros t' Ht'. apply Ht. right. exact Ht'.
Qed.

Lemma releaseTemps_proj : forall start y,
  let z := releaseTemps start y in
  bindings z = bindings y /\ scopes z = scopes y /\ temp z = firstn start (temp y) /\ locals z = locals y /\
  errs z = errs y /\
  (temps0 y -> forall e, In e (borrows y) -> e_tag e <> 0 -> In e (borrows z)).
Proof.
  intros start y. unfold releaseTemps.
  destruct (fold_releaseBorrow_proj (rev (skipn start (temp y))) y) as (B1&B2&B3&B4&B5&B6).
  simpl. repeat split; auto.
  intros T e He Hne. apply B6; auto.
  intros t Ht. apply in_rev in Ht. try rewrite rev_involutive in Ht.
  assert (In t (temp y)).
  { rewrite <- (firstn_skipn start (temp y)). apply in_or_app. right. exact Ht. }
  rewrite (T t H). exact Hne.
Qed.

Lemma releaseBinding_scopes : forall r x, scopes (releaseBinding r x) = scopes x.
Proof. intros. apply (releaseBinding_feq r x). Qed.

Definition scope_ext (D : list nat) (x y : st) : Prop :=
  forall sc tl, scopes x = sc :: tl ->
    exists refs', scopes y = mkSc refs' (sc_last sc) :: tl /\ forall r, In r refs' -> In r (sc_refs sc) \/ In r D.

Lemma scope_ext_same : forall D x y, scopes y = scopes x -> scope_ext D x y.
Proof.
  intros D x y H sc tl Hs. exists (sc_refs sc). rewrite H, Hs. destruct sc; simpl. split; auto.
Qed.
Lemma scope_ext_trans : forall D1 D2 D x y z, scope_ext D1 x y -> scope_ext D2 y z ->
  (forall r, In r D1 -> In r D) -> (forall r, In r D2 -> In r D) -> scope_ext D x z.
Proof.
  intros D1 D2 D x y z H1 H2 I1 I2 sc tl Hs.
  destruct (H1 sc tl Hs) as (r1 & S1 & R1). destruct (H2 _ _ S1) as (r2 & S2 & R2). simpl in *.
  exists r2. split; auto. intros r Hr. destruct (R2 r Hr) as [A|A]; auto. destruct (R1 r A); auto.
Qed.

Lemma releaseExpiredRefs_frame : forall idx x,
  let y := releaseExpiredRefs idx x in
  temp y = temp x /\ locals y = locals x /\ errs y = errs x /\ scope_ext [] x y.
Proof.
  intros idx x. unfold releaseExpiredRefs. destruct (scopes x) as [|sc tl] eqn:E.
  - repeat split; auto. intros sc tl H. rewrite E in H. discriminate.
  - match goal with |- context [fold_left ?f ?l ?s] => destruct (fold_releaseBinding_feq l s) as (A1&A2&A3&A4) end.
    simpl in *. repeat split; auto.
    intros sc' tl' H. try rewrite E in H. inversion H; subst. eexists. split; [exact A1|].
    intros r Hr. apply filter_In in Hr. tauto.
Qed.

Definition FS (s : stmt) : Prop := forall x,
  let y := checkNode s x in
  ext x y /\ locals y = rev (varsDeepS s) ++ locals x /\ (temp x = [] -> temp y = []) /\ scope_ext (declTop s) x y.

Definition FBlock (b : list stmt) : Prop := forall x,
  let y := checkBlock b x in
  ext x y /\ locals y = rev (varsDeep b) ++ locals x /\ (temp x = [] -> temp y = []) /\ scopes y = scopes x.

Lemma frame_nodes : forall ss, Forall FS ss -> forall idx x,
  let y := checkNodes idx ss x in
  ext x y /\ locals y = rev (varsDeep ss) ++ locals x /\ (temp x = [] -> temp y = []) /\
  scope_ext (collectRefDecls ss) x y.
Proof.
  induction 1 as [|s ss Hs Hss IH]; intros idx x; simpl.
  - repeat split; auto using ext_refl, ext_same. apply scope_ext_same. reflexivity.
  - destruct (Hs x) as (A1&A2&A3&A4).
    destruct (releaseExpiredRefs_frame idx (checkNode s x)) as (R1&R2&R3&R4).
    destruct (IH (S idx) (releaseExpiredRefs idx (checkNode s x))) as (B1&B2&B3&B4).
    repeat split.
    + eapply ext_trans; [exact A1|]. eapply ext_trans; [apply ext_same; exact R3|exact B1].
    + rewrite B2, R2, A2. unfold varsDeep. simpl. rewrite rev_app_distr, app_assoc. reflexivity.
    + intros T. apply B3. rewrite R1. auto.
    + unfold collectRefDecls. simpl.
      eapply scope_ext_trans; [| exact B4 | |].
      * eapply scope_ext_trans; [exact A4 | exact R4 | |]; intros r Hr; [exact Hr | destruct Hr].
      * intros r Hr. apply in_or_app. left. exact Hr.
      * intros r Hr. apply in_or_app. right. exact Hr.
Qed.

Lemma frame_block_of : forall b, Forall FS b -> FBlock b.
Proof.
  intros b Hb x. unfold checkBlock.
  destruct (frame_nodes b Hb 0 (pushScope (computeLastUse b) x)) as (A1&A2&A3&A4).
  destruct (A4 (mkSc [] (computeLastUse b)) (scopes x) eq_refl) as (refs' & S1 & _).
  unfold popScope. rewrite S1.
  match goal with |- context [fold_left ?f ?l ?s] => destruct (fold_releaseBinding_feq l s) as (F1&F2&F3&F4) end.
  simpl in *. repeat split.
  - eapply ext_trans; [exact A1|]. apply ext_same. exact F4.
  - rewrite F3. exact A2.
  - intros T. rewrite F2. auto.
  - exact F1.
Qed.

Lemma FBlock_scope_ext : forall D b x, FBlock b -> scope_ext D x (checkBlock b x).
Proof. intros D b x H. apply scope_ext_same. apply (H x). Qed.

Lemma checkBorrowInit_like_frame : forall r b p m x,
  let y := (let '(ok, s1) := addBorrow b p m (S r) x in
            if ok then addScopeRef r (setBindings (upd r (mkE b p m (S r)) (bindings s1)) s1) else s1) in
  ext x y /\ locals y = locals x /\ temp y = temp x /\ scope_ext [r] x y.
Proof.
  intros r b p m x. destruct (addBorrow_cases b p m (S r) x) as [[e H]|H]; rewrite H; simpl.
  - repeat split; auto using ext_addErr. apply scope_ext_same. reflexivity.
  - match goal with |- context [addScopeRef r ?s] => destruct (addScopeRef_proj r s) as (P1&P2&P3&P4&P5) end.
    simpl in *. repeat split; auto.
    + apply ext_same. exact P5.
    + intros sc tl Hs. eexists. split.
      * apply addScopeRef_scopes. simpl. exact Hs.
      * simpl. intros r' Hr. apply in_app_or in Hr. destruct Hr as [Hr|[Hr|[]]]; [auto | subst; right; left; reflexivity].
Qed.

Lemma frame_stmt : forall s, FS s.
Proof.
  induction s using stmt_ind2; intros x.
  - simpl. repeat split; auto using ext_refl, ext_same. apply scope_ext_same. reflexivity.
  - simpl. unfold checkBorrowInit.
    destruct (checkBorrowInit_like_frame r (fst pl) (snd pl) m x) as (A1&A2&A3&A4).
    repeat split; auto. intros T. rewrite A3. exact T.
  - simpl. unfold bindRefFromIdent. destruct (lookup r (bindings x)) as [e|].
    + destruct (checkBorrowInit_like_frame r2 (e_base e) (e_path e) (e_mut e) x) as (A1&A2&A3&A4).
      repeat split; auto. intros T. rewrite A3. exact T.
    + repeat split; auto using ext_refl, ext_same. apply scope_ext_same. reflexivity.
  - simpl. repeat split; auto using ext_refl, ext_same. apply scope_ext_same. reflexivity.
  - simpl. repeat split; auto using ext_refl, ext_same. apply scope_ext_same. reflexivity.
  - simpl. destruct (checkRead_cases pl x) as [[e H]|H]; rewrite H;
      repeat split; auto using ext_refl, ext_same, ext_addErr; apply scope_ext_same; reflexivity.
  - simpl. destruct (checkWrite_cases pl x) as [[e H]|H]; rewrite H;
      repeat split; auto using ext_refl, ext_same, ext_addErr; apply scope_ext_same; reflexivity.
  - cbv zeta. change (checkNode (SCall args) x) with (releaseTemps (length (temp x)) (fold_left checkArg args x)).
    change (varsDeepS (SCall args)) with (@nil nat). change (declTop (SCall args)) with (@nil nat).
    destruct (fold_args_frame args x) as (A1&A2&A3&A4&A5&A6).
    destruct (releaseTemps_proj (length (temp x)) (fold_left checkArg args x)) as (B1&B2&B3&B4&B5&B6).
    repeat split.
    + eapply ext_trans; [exact A1|]. apply ext_same. exact B5.
    + rewrite B4. exact A2.
    + intros T. rewrite B3, T. reflexivity.
    + apply scope_ext_same. rewrite B2. exact A3.
  - rewrite checkNode_block. destruct (frame_block_of b H x) as (A1&A2&A3&A4).
    repeat split; auto. apply scope_ext_same. exact A4.
  - rewrite checkNode_if.
    destruct (checkCond_cases c x) as [[e Hc]|Hc]; rewrite Hc.
    + destruct (frame_block_of b1 H (addErr e x)) as (A1&A2&A3&A4).
      destruct (frame_block_of b2 H0 (checkBlock b1 (addErr e x))) as (B1&B2&B3&B4).
      repeat split.
      * eapply ext_trans; [apply ext_addErr|]. eapply ext_trans; eauto.
      * rewrite B2, A2. simpl. rewrite rev_app_distr, app_assoc. reflexivity.
      * intros T. apply B3. apply A3. exact T.
      * apply scope_ext_same. rewrite B4, A4. reflexivity.
    + destruct (frame_block_of b1 H x) as (A1&A2&A3&A4).
      destruct (frame_block_of b2 H0 (checkBlock b1 x)) as (B1&B2&B3&B4).
      repeat split.
      * eapply ext_trans; eauto.
      * rewrite B2, A2. simpl. rewrite rev_app_distr, app_assoc. reflexivity.
      * intros T. apply B3. apply A3. exact T.
      * apply scope_ext_same. rewrite B4, A4. reflexivity.
  - rewrite checkNode_while.
    destruct (checkCond_cases c x) as [[e Hc]|Hc]; rewrite Hc.
    + destruct (frame_block_of b H (addErr e x)) as (A1&A2&A3&A4).
      repeat split; auto.
      * eapply ext_trans; [apply ext_addErr|exact A1].
      * apply scope_ext_same. exact A4.
    + destruct (frame_block_of b H x) as (A1&A2&A3&A4).
      repeat split; auto. apply scope_ext_same. exact A4.
  - cbv zeta.
    change (checkNode (SRetBor m pl) x) with
      (checkReturnBase (fst pl) (releaseTemps (length (temp x)) (checkBorrowExpr m pl x))).
    change (varsDeepS (SRetBor m pl)) with (@nil nat). change (declTop (SRetBor m pl)) with (@nil nat).
    destruct (checkArg_frame (ABor m pl) x) as (A1&A2&A3&A4&A5&A6).
    change (checkArg x (ABor m pl)) with (checkBorrowExpr m pl x) in *.
    destruct (releaseTemps_proj (length (temp x)) (checkBorrowExpr m pl x)) as (B1&B2&B3&B4&B5&B6).
    assert (E : ext x (checkReturnBase (fst pl) (releaseTemps (length (temp x)) (checkBorrowExpr m pl x)))).
    { eapply ext_trans; [exact A1|]. eapply ext_trans; [apply ext_same; exact B5|].
      destruct (checkReturnBase_cases (fst pl) (releaseTemps (length (temp x)) (checkBorrowExpr m pl x))) as [[e' Hr]|Hr];
        rewrite Hr; [apply ext_addErr | apply ext_same; reflexivity]. }
    split; [exact E|].
    destruct (checkReturnBase_cases (fst pl) (releaseTemps (length (temp x)) (checkBorrowExpr m pl x))) as [[e' Hr]|Hr];
      rewrite Hr; unfold addErr; cbn [locals temp scopes].
    + split; [rewrite B4; exact A2|]. split; [intros T; rewrite B3, T; reflexivity|].
      apply scope_ext_same. cbn [scopes]. rewrite B2. exact A3.
    + split; [rewrite B4; exact A2|]. split; [intros T; rewrite B3, T; reflexivity|].
      apply scope_ext_same. rewrite B2. exact A3.
  - simpl. destruct (lookup r (bindings x)) as [e|].
    + destruct (checkReturnBase_cases (e_base e) x) as [[e' Hr]|Hr]; rewrite Hr;
        repeat split; auto using ext_refl, ext_same, ext_addErr; apply scope_ext_same; reflexivity.
    + repeat split; auto using ext_refl, ext_same. apply scope_ext_same. reflexivity.
Qed.

Lemma frame_block : forall b, FBlock b.
Proof. intros. apply frame_block_of. apply Forall_forall. intros. apply frame_stmt. Qed.
Lemma frame_nodes' : forall ss idx x,
  let y := checkNodes idx ss x in
  ext x y /\ locals y = rev (varsDeep ss) ++ locals x /\ (temp x = [] -> temp y = []) /\
  scope_ext (collectRefDecls ss) x y.
Proof. intros. apply frame_nodes. apply Forall_forall. intros. apply frame_stmt. Qed.

(* ------------------------------------------------------------------------------------------------ computeLastUse *)
Lemma lookup_fold_markUse : forall refs idx r ms l, mem r refs = true ->
  lookup r (fold_left (markUse refs idx) ms l) = if mem r ms then Some idx else lookup r l.
Proof.
  intros refs idx r ms. induction ms as [|a ms IH]; intros l Hr; simpl; auto.
  rewrite IH; auto. unfold markUse.
  destruct (Nat.eqb r a) eqn:E; simpl.
  - apply Nat.eqb_eq in E. subst a. rewrite Hr. rewrite lookup_upd_eq. destruct (mem r ms); reflexivity.
  - apply Nat.eqb_neq in E. destruct (mem a refs); auto. rewrite lookup_upd_ne; auto.
Qed.

Lemma lookup_fold_markDecl : forall refs idx r ds l, mem r refs = true ->
  lookup r (fold_left (markDecl refs idx) ds l) =
  if mem r ds then match lookup r l with Some v => Some v | None => Some idx end else lookup r l.
Proof.
  intros refs idx r ds. induction ds as [|a ds IH]; intros l Hr; simpl; auto.
  rewrite IH; auto. unfold markDecl.
  destruct (Nat.eqb r a) eqn:E; simpl.
  - apply Nat.eqb_eq in E. subst a. rewrite Hr.
    destruct (lookup r l) eqn:El.
    + rewrite El. destruct (mem r ds); reflexivity.
    + rewrite lookup_upd_eq. destruct (mem r ds); reflexivity.
  - apply Nat.eqb_neq in E. destruct (mem a refs); auto.
    destruct (lookup a l); auto. rewrite lookup_upd_ne; auto.
Qed.

Lemma lastUse_from : forall r refs, mem r refs = true -> forall b idx last,
  (forall v, lookup r last = Some v -> v <= idx) ->
  (forall v, lookup r last = Some v -> exists v', lookup r (computeLastUseFrom idx b refs last) = Some v' /\ v <= v') /\
  (forall pre s post, b = pre ++ s :: post -> In r (mentions s) ->
     exists i, lookup r (computeLastUseFrom idx b refs last) = Some i /\ idx + length pre <= i).
Proof.
  intros r refs Hr. induction b as [|s0 b IH]; intros idx last Hb.
  - split.
    + intros v Hv. exists v. simpl. auto.
    + intros pre s post H. destruct pre; discriminate.
  - simpl.
    set (l1 := fold_left (markDecl refs idx) (declTop s0) last).
    set (l2 := fold_left (markUse refs idx) (mentions s0) l1).
    assert (E1 : lookup r l1 = if mem r (declTop s0) then match lookup r last with Some v => Some v | None => Some idx end else lookup r last)
      by (apply lookup_fold_markDecl; exact Hr).
    assert (E2 : lookup r l2 = if mem r (mentions s0) then Some idx else lookup r l1)
      by (apply lookup_fold_markUse; exact Hr).
    assert (Hb2 : forall v, lookup r l2 = Some v -> v <= S idx).
    { intros v Hv. rewrite E2 in Hv. destruct (mem r (mentions s0)).
      - inversion Hv. lia.
      - rewrite E1 in Hv. destruct (mem r (declTop s0)).
        + destruct (lookup r last) eqn:El.
          * inversion Hv; subst. specialize (Hb _ eq_refl). lia.
          * inversion Hv. lia.
        + specialize (Hb _ Hv). lia. }
    destruct (IH (S idx) l2 Hb2) as [M A].
    split.
    + intros v Hv.
      assert (exists v2, lookup r l2 = Some v2 /\ v <= v2).
      { rewrite E2. destruct (mem r (mentions s0)).
        - exists idx. split; auto.
        - rewrite E1. rewrite Hv. destruct (mem r (declTop s0)); exists v; auto. }
      destruct H as (v2 & H2 & Hle). destruct (M v2 H2) as (v' & Hv' & Hle'). exists v'. split; auto. lia.
    + intros pre s post Hsplit Hin. destruct pre as [|p0 pre].
      * simpl in Hsplit. inversion Hsplit; subst s0 post.
        assert (H2 : lookup r l2 = Some idx).
        { rewrite E2. apply mem_In in Hin. rewrite Hin. reflexivity. }
        destruct (M idx H2) as (v' & Hv' & Hle'). exists v'. split; auto. simpl. lia.
      * simpl in Hsplit. inversion Hsplit; subst p0 b.
        destruct (A pre s post eq_refl Hin) as (i & Hi & Hle). exists i. split; auto. simpl. lia.
Qed.

Lemma lastUse_sound : forall b r pre s post i,
  In r (collectRefDecls b) -> lookup r (computeLastUse b) = Some i ->
  b = pre ++ s :: post -> In r (mentions s) -> length pre <= i.
Proof.
  intros b r pre s post i Hr Hl Hs Hin. unfold computeLastUse in Hl.
  apply mem_In in Hr.
  destruct (lastUse_from r (collectRefDecls b) Hr b 0 []) as [_ A].
  - simpl. discriminate.
  - destruct (A pre s post Hs Hin) as (i' & Hi' & Hle). rewrite Hl in Hi'. inversion Hi'; subst. simpl in Hle. exact Hle.
Qed.

(* ------------------------------------------------------------------------------------------------ invariant *)
Definition tagOf (l : loan) : nat := match l_ref l with Some r => S r | None => 0 end.
Definition entryOf (l : loan) : entry := mkE (l_base l) (l_path l) (l_mut l) (tagOf l).
Definition Disj (G : list loan) (Dd : list nat) : Prop := forall l r, In l G -> l_ref l = Some r -> ~ In r Dd.
Definition subK (Ks K : list nat) : Prop := forall r, mem r Ks = true -> mem r K = true.

Record StInv (L D K : list nat) (G : list loan) (x : st) : Prop := mkInv {
  iB : forall l, In l G -> liveb K l = true -> In (entryOf l) (borrows x);
  iBd : forall r l, lookupLoan r G = Some l -> mem r K = true -> lookup r (bindings x) = Some (entryOf l);
  iLs : forall l, In l G -> mem (l_base l) L = true -> mem (l_base l) (locals x) = true;
  iGs : forall l, In l G -> l_ref l <> None;
  iDl : forall v, mem v D = true -> mem v (locals x) = true;
  iBT : forall r e, lookup r (bindings x) = Some e -> e_tag e = S r;
  iT : temp x = [] }.

Lemma NoDup_app_disj : forall {A} (a b : list A) x, NoDup (a ++ b) -> In x a -> ~ In x b.
Proof.
  intros A a b x. induction a as [|y a IH]; simpl; intros H Hin; [contradiction|].
  inversion H; subst. destruct Hin as [E|Hin].
  - subst. intros Hb. apply H2. apply in_or_app. right. exact Hb.
  - apply IH; auto.
Qed.

Lemma lookupLoan_some : forall r G l, lookupLoan r G = Some l -> In l G /\ l_ref l = Some r.
Proof.
  intros r G l H. unfold lookupLoan in H. apply find_some in H. destruct H as [H1 H2]. split; auto.
  destruct (l_ref l) as [r'|]; [|discriminate]. apply Nat.eqb_eq in H2. subst. reflexivity.
Qed.
Lemma lookupLoan_app_skip : forall r Gn G, (forall l, In l Gn -> l_ref l <> Some r) ->
  lookupLoan r (Gn ++ G) = lookupLoan r G.
Proof.
  intros r Gn G. induction Gn as [|l0 Gn IH]; intros H; simpl; auto.
  assert (H0 := H l0 (or_introl eq_refl)).
  unfold lookupLoan in *. simpl. destruct (l_ref l0) as [r'|] eqn:E.
  - destruct (Nat.eqb r r') eqn:E2.
    + apply Nat.eqb_eq in E2. subst. congruence.
    + apply IH. intros l Hl. apply H. right. exact Hl.
  - apply IH. intros l Hl. apply H. right. exact Hl.
Qed.

Lemma liveb_sub : forall Ks K l, subK Ks K -> liveb Ks l = true -> liveb K l = true.
Proof. intros Ks K l H. unfold liveb. destruct (l_ref l); auto. Qed.

Lemma StInv_anti : forall L D D2 K1 K2 G x,
  StInv L D K1 G x -> subK K2 K1 -> (forall v, mem v D2 = true -> mem v D = true) -> StInv L D2 K2 G x.
Proof.
  intros L D D2 K1 K2 G x [B Bd Ls Gs Dl BT T] HK HD. constructor; auto.
  - intros l Hl Hv. apply B; auto. eapply liveb_sub; eauto.
Qed.

Lemma StInv_lift : forall L D K Dd G x, StInv L D (removeAll Dd K) G x -> Disj G Dd -> StInv L D K G x.
Proof.
  intros L D K Dd G x [B Bd Ls Gs Dl BT T] HD. constructor; auto.
  - intros l Hl Hv. apply B; auto. unfold liveb in *. destruct (l_ref l) as [r|] eqn:E; auto.
    rewrite mem_removeAll, Hv. simpl. apply negb_true_iff. apply mem_false. eapply HD; eauto.
  - intros r l Hl Hv. apply Bd; auto. destruct (lookupLoan_some _ _ _ Hl) as [H1 H2].
    rewrite mem_removeAll, Hv. simpl. apply negb_true_iff. apply mem_false. eapply HD; eauto.
Qed.

Lemma tagOf_pos : forall G l, (forall l, In l G -> l_ref l <> None) -> In l G -> e_tag (entryOf l) <> 0.
Proof. intros G l H Hl. simpl. unfold tagOf. specialize (H l Hl). destruct (l_ref l); congruence. Qed.

Lemma StInv_transfer : forall L D K G x y,
  StInv L D K G x ->
  (forall e, In e (borrows x) -> e_tag e <> 0 -> In e (borrows y)) ->
  bindings y = bindings x -> locals y = locals x -> temp y = [] -> StInv L D K G y.
Proof.
  intros L D K G x y [B Bd Ls Gs Dl BT T] Hb Hbd Hl Ht. constructor; auto.
  - intros l Hl' Hv. apply Hb; auto. eapply tagOf_pos; eauto.
  - intros. rewrite Hbd. auto.
  - intros. rewrite Hl. auto.
  - intros. rewrite Hl. auto.
  - intros r e. rewrite Hbd. auto.
Qed.

Lemma StInv_setScopes : forall L D K G x sc, StInv L D K G x -> StInv L D K G (setScopes sc x).
Proof. intros. eapply StInv_transfer; eauto. apply (iT _ _ _ _ _ H). Qed.

Lemma StInv_release1 : forall L D K G x r',
  StInv L D K G x -> (forall l r, In l G -> l_ref l = Some r -> mem r K = true -> r <> r') ->
  StInv L D K G (releaseBinding r' x).
Proof.
  intros L D K G x r' I H. destruct I as [B Bd Ls Gs Dl BT T].
  unfold releaseBinding. destruct (lookup r' (bindings x)) as [e|] eqn:E; [|constructor; auto].
  assert (Et := BT _ _ E).
  constructor; simpl; auto.
  - intros l Hl Hv. apply In_removeBorrowEntry; auto.
    simpl. rewrite Et. unfold tagOf. unfold liveb in Hv. destruct (l_ref l) as [r|] eqn:El.
    + intros Hc. inversion Hc. subst. eapply H; eauto.
    + exfalso. eapply Gs; eauto.
  - intros r l Hl Hv. destruct (lookupLoan_some _ _ _ Hl) as [H1 H2].
    rewrite lookup_delete_ne; auto. eapply H; eauto.
  - intros r e' He. apply lookup_delete_in in He. auto.
Qed.

Lemma StInv_release : forall rs L D K G x,
  StInv L D K G x -> (forall l r, In l G -> l_ref l = Some r -> mem r K = true -> ~ In r rs) ->
  StInv L D K G (fold_left (fun s r => releaseBinding r s) rs x).
Proof.
  induction rs as [|r' rs IH]; intros L D K G x I H; simpl; auto.
  apply IH.
  - apply StInv_release1; auto. intros l r Hl Hr Hv Hc. subst. eapply H; eauto. left. reflexivity.
  - intros l r Hl Hr Hv Hc. eapply H; eauto. right. exact Hc.
Qed.

Lemma StInv_drop : forall L D K Ge G x Dd,
  StInv L D K (Ge ++ G) x -> (forall l, In l Ge -> exists r, l_ref l = Some r /\ In r Dd) -> Disj G Dd ->
  StInv L D K G x.
Proof.
  intros L D K Ge G x Dd [B Bd Ls Gs Dl BT T] HGe HD. constructor; auto.
  - intros. apply B; auto. apply in_or_app. auto.
  - intros r l Hl Hv. apply Bd; auto. rewrite lookupLoan_app_skip; auto.
    intros l' Hl' Hc. destruct (HGe l' Hl') as (r' & E & Hin). rewrite E in Hc. inversion Hc; subst.
    destruct (lookupLoan_some _ _ _ Hl) as [H1 H2]. eapply HD; eauto.
  - intros. apply Ls; auto. apply in_or_app. auto.
  - intros. apply Gs. apply in_or_app. auto.
Qed.

(* spec conflicts are detected by the checker *)
Lemma hits_entry : forall b p l, hits b p l = true -> e_base (entryOf l) = b /\ spec_overlap p (e_path (entryOf l)) = true.
Proof. intros b p l H. unfold hits in H. apply andb_true_iff in H. destruct H as [H1 H2]. apply Nat.eqb_eq in H1. auto. Qed.

Lemma conflict_read_detect : forall L D K Ks G x pl,
  StInv L D K G x -> subK Ks K -> conflict_read Ks G pl = true -> errs (checkRead pl x) <> [].
Proof.
  intros L D K Ks G x pl I HK H. unfold conflict_read in H. apply existsb_exists in H.
  destruct H as (l & Hl & H). apply andb_true_iff in H. destruct H as [H Hm].
  apply andb_true_iff in H. destruct H as [Hv Hh]. destruct (hits_entry _ _ _ Hh) as [E1 E2].
  eapply adds_error_not_nil. eapply checkRead_detects; eauto.
  eapply (iB _ _ _ _ _ I); eauto. eapply liveb_sub; eauto.
Qed.
Lemma conflict_write_detect : forall L D K Ks G x pl,
  StInv L D K G x -> subK Ks K -> conflict_write Ks G pl = true -> errs (checkWrite pl x) <> [].
Proof.
  intros L D K Ks G x pl I HK H. unfold conflict_write in H. apply existsb_exists in H.
  destruct H as (l & Hl & H). apply andb_true_iff in H. destruct H as [Hv Hh].
  destruct (hits_entry _ _ _ Hh) as [E1 E2].
  eapply adds_error_not_nil. eapply checkWrite_detects; eauto.
  eapply (iB _ _ _ _ _ I); eauto. eapply liveb_sub; eauto.
Qed.
(* version on the borrows list only (used for call arguments, where G also holds temporaries) *)
Definition BInv (K : list nat) (G : list loan) (x : st) : Prop :=
  forall l, In l G -> liveb K l = true -> In (entryOf l) (borrows x).
Lemma conflict_borrow_detect : forall K Ks G x b p m tag,
  BInv K G x -> subK Ks K -> conflict_borrow Ks G b p m = true ->
  fst (addBorrow b p m tag x) = false /\ errs (snd (addBorrow b p m tag x)) <> [].
Proof.
  intros K Ks G x b p m tag I HK H. unfold conflict_borrow in H. apply existsb_exists in H.
  destruct H as (l & Hl & H). apply andb_true_iff in H. destruct H as [H Hm].
  apply andb_true_iff in H. destruct H as [Hv Hh]. destruct (hits_entry _ _ _ Hh) as [E1 E2].
  destruct (addBorrow_detects x b p m tag (entryOf l)) as [A1 A2]; auto.
  - apply I; auto. eapply liveb_sub; eauto.
  - apply orb_true_iff in Hm. destruct Hm; auto.
  - split; auto. eapply adds_error_not_nil; eauto.
Qed.
Lemma conflict_read_detectB : forall K Ks G x pl,
  BInv K G x -> subK Ks K -> conflict_read Ks G pl = true -> errs (checkRead pl x) <> [].
Proof.
  intros K Ks G x pl I HK H. unfold conflict_read in H. apply existsb_exists in H.
  destruct H as (l & Hl & H). apply andb_true_iff in H. destruct H as [H Hm].
  apply andb_true_iff in H. destruct H as [Hv Hh]. destruct (hits_entry _ _ _ Hh) as [E1 E2].
  eapply adds_error_not_nil. eapply checkRead_detects; eauto.
  apply I; auto. eapply liveb_sub; eauto.
Qed.

(* ------------------------------------------------------------------------------------------------ variables are declared before use *)
(* The front end rejects a variable that is used before its `let`; the checker's `locals` is filled in traversal
   order, so a reference to a variable is only recognised as local after the `let`.  vsS L D s: every base of a borrow
   that belongs to L (by-value parameters + all `let` variables of the body) is already in D. *)
Fixpoint vsS (L D : list nat) (s : stmt) {struct s} : bool :=
  let vsL := fix go (D : list nat) (ss : list stmt) {struct ss} : bool :=
    match ss with [] => true | s' :: rest => vsS L D s' && go (varsDeepS s' ++ D) rest end in
  match s with
  | SLet _ _ pl => implb (mem (fst pl) L) (mem (fst pl) D)
  | SRetBor _ pl => implb (mem (fst pl) L) (mem (fst pl) D)
  | SBlock b => vsL D b
  | SIf _ b1 b2 => vsL D b1 && vsL (varsDeep b1 ++ D) b2
  | SWhile _ b => vsL D b
  | _ => true
  end.
Fixpoint vsL (L D : list nat) (ss : list stmt) : bool :=
  match ss with [] => true | s :: rest => vsS L D s && vsL L (varsDeepS s ++ D) rest end.
Definition vscoped (params : list nat) (body : list stmt) : Prop :=
  vsL (params ++ varsDeep body) params body = true.

Lemma vgo_eq : forall L ss D,
  (fix go (D : list nat) (ss : list stmt) {struct ss} : bool :=
     match ss with [] => true | s' :: rest => vsS L D s' && go (varsDeepS s' ++ D) rest end) D ss = vsL L D ss.
Proof. induction ss as [|s ss IH]; intros; simpl; [reflexivity | rewrite IH; reflexivity]. Qed.
Lemma vsS_block : forall L D b, vsS L D (SBlock b) = vsL L D b.
Proof. intros. simpl. apply vgo_eq. Qed.
Lemma vsS_if : forall L D c b1 b2, vsS L D (SIf c b1 b2) = vsL L D b1 && vsL L (varsDeep b1 ++ D) b2.
Proof. intros. simpl. rewrite !vgo_eq. reflexivity. Qed.
Lemma vsS_while : forall L D c b, vsS L D (SWhile c b) = vsL L D b.
Proof. intros. simpl. apply vgo_eq. Qed.

(* ------------------------------------------------------------------------------------------------ call arguments *)
Lemma args_sound : forall args K Ks G x,
  BInv K G x -> subK Ks K -> errs (fold_left checkArg args x) = [] -> safeArgs Ks G args = true.
Proof.
  induction args as [|a args IH]; intros K Ks G x I HK He; simpl; auto.
  destruct (fold_args_frame args (checkArg x a)) as (F1&_).
  assert (E1 : errs (checkArg x a) = []) by (eapply ext_noerr; eauto).
  destruct a as [m pl|pl|r]; simpl in *.
  - destruct (conflict_borrow Ks G (fst pl) (snd pl) m) eqn:C.
    + exfalso. destruct (conflict_borrow_detect K Ks G x (fst pl) (snd pl) m 0 I HK C) as [A1 A2].
      unfold checkBorrowExpr in E1. destruct (addBorrow (fst pl) (snd pl) m 0 x) as [ok s1]. simpl in *. subst ok. contradiction.
    + simpl. destruct (checkBorrowExpr_cases m pl x) as [[e H]|H].
      * rewrite H in E1. exfalso. eapply addErr_noerr; eauto.
      * eapply (IH K Ks); eauto. rewrite H. intros l [Hl|Hl] Hv; simpl.
        -- subst l. apply in_or_app. right. left. reflexivity.
        -- apply in_or_app. left. apply I; auto.
  - destruct (conflict_read Ks G pl) eqn:C.
    + exfalso. eapply conflict_read_detectB; eauto.
    + simpl. destruct (checkRead_cases pl x) as [[e H]|H].
      * rewrite H in E1. exfalso. eapply addErr_noerr; eauto.
      * rewrite H in He. eapply IH; eauto.
  - eapply IH; eauto.
Qed.

(* ------------------------------------------------------------------------------------------------ declarations *)
Lemma let_step : forall L D K0 K Ks G x r b p m,
  StInv L D K0 G x -> subK K K0 -> subK Ks K -> (mem b L = true -> mem b (locals x) = true) ->
  let y := (let '(ok, s1) := addBorrow b p m (S r) x in
            if ok then addScopeRef r (setBindings (upd r (mkE b p m (S r)) (bindings s1)) s1) else s1) in
  errs y = [] ->
  conflict_borrow Ks G b p m = false /\ StInv L D K (mkL (Some r) b p m :: G) y.
Proof.
  intros L D K0 K Ks G x r b p m I HK0 HK HL y He. subst y.
  destruct (addBorrow_cases b p m (S r) x) as [[e H]|H]; rewrite H in *.
  - exfalso. eapply addErr_noerr; eauto.
  - split.
    + destruct (conflict_borrow Ks G b p m) eqn:C; auto. exfalso.
      destruct (conflict_borrow_detect K0 Ks G x b p m (S r)) as [A1 _]; auto.
      * exact (iB _ _ _ _ _ I).
      * intros q Hq. apply HK0. apply HK. exact Hq.
      * rewrite H in A1. discriminate.
    + destruct I as [B Bd Ls Gs Dl BT T].
      match goal with |- StInv _ _ _ _ (addScopeRef r ?s) => destruct (addScopeRef_proj r s) as (P1&P2&P3&P4&P5) end.
      simpl in *. constructor.
      * rewrite P1. intros l [Hl|Hl] Hv.
        -- subst l. apply in_or_app. right. left. reflexivity.
        -- apply in_or_app. left. apply B; auto. eapply liveb_sub; eauto.
      * rewrite P2. intros r' l Hl Hv. unfold lookupLoan in Hl. simpl in Hl.
        destruct (Nat.eqb r' r) eqn:E.
        -- apply Nat.eqb_eq in E. subst r'. inversion Hl; subst l. rewrite lookup_upd_eq. reflexivity.
        -- apply Nat.eqb_neq in E. rewrite lookup_upd_ne; auto.
      * rewrite P4. intros l [Hl|Hl] Hm; auto. subst l. simpl in *. auto.
      * intros l [Hl|Hl]; auto. subst l. simpl. discriminate.
      * rewrite P4. auto.
      * rewrite P2. intros r' e He'. destruct (Nat.eq_dec r' r) as [E|E].
        -- subst. rewrite lookup_upd_eq in He'. inversion He'. reflexivity.
        -- rewrite lookup_upd_ne in He'; eauto.
      * rewrite P3. exact T.
Qed.

(* ------------------------------------------------------------------------------------------------ the simulation *)
Ltac msolve :=
  let r := fresh "r" in
  intros r;
  try match goal with H : subK ?A ?B |- _ => generalize (H r) end;
  repeat first [rewrite mem_app | rewrite mem_removeAll];
  repeat match goal with |- context [mem r ?A] => destruct (mem r A) end;
  simpl; intuition congruence.

Lemma NoDup_app_l : forall {A} (a b : list A), NoDup (a ++ b) -> NoDup a.
Proof. intros A a b. induction a as [|x a IH]; simpl; intros H; [constructor|]. inversion H; subst. constructor; auto. intros Hc. apply H2. apply in_or_app. auto. Qed.
Lemma NoDup_app_r : forall {A} (a b : list A), NoDup (a ++ b) -> NoDup b.
Proof. intros A a b. induction a as [|x a IH]; simpl; intros H; auto. inversion H; subst. auto. Qed.

Lemma declTop_sub : forall s r, In r (declTop s) -> In r (declsDeepS s).
Proof. intros s r H. destruct s; simpl in *; auto; contradiction. Qed.
Lemma collectRefDecls_sub : forall b r, In r (collectRefDecls b) -> In r (declsDeep b).
Proof.
  intros b r H. unfold collectRefDecls in H. apply in_flat_map in H. destruct H as (s & Hs & Hr).
  unfold declsDeep. apply in_flat_map. exists s. split; auto. apply declTop_sub. exact Hr.
Qed.

Lemma StInv_changeL : forall L1 L2 D K G x, StInv L1 D K G x ->
  (forall l, In l G -> mem (l_base l) L2 = true -> mem (l_base l) (locals x) = true) -> StInv L2 D K G x.
Proof. intros L1 L2 D K G x [B Bd Ls Gs Dl BT T] H. constructor; auto. Qed.

Definition PS (s : stmt) : Prop := forall L D K Ks G x,
  StInv L D (mentions s ++ K) G x -> subK Ks K -> NoDup (declsDeepS s) -> Disj G (declsDeepS s) ->
  vsS L D s = true -> errs (checkNode s x) = [] ->
  exists Gn, safeS L Ks G s = (true, Gn ++ G) /\
             (forall l, In l Gn -> exists r, l_ref l = Some r /\ In r (declTop s)) /\
             StInv L (varsDeepS s ++ D) K (Gn ++ G) (checkNode s x).

Lemma sound_nodes : forall ss, Forall PS ss -> forall blk pre, blk = pre ++ ss ->
  forall L D K Ks G x refs tl,
  scopes x = mkSc refs (computeLastUse blk) :: tl ->
  (forall r, In r refs -> In r (collectRefDecls blk)) ->
  (forall r, In r (declsDeep blk) -> mem r K = false) ->
  StInv L D (mentionsL ss ++ K) G x -> subK Ks K ->
  NoDup (declsDeep ss) -> Disj G (declsDeep ss) -> vsL L D ss = true ->
  errs (checkNodes (length pre) ss x) = [] ->
  safeL L Ks ss G = true /\
  exists Ge, StInv L (varsDeep ss ++ D) K (Ge ++ G) (checkNodes (length pre) ss x) /\
             (forall l, In l Ge -> exists r, l_ref l = Some r /\ In r (declsDeep ss)).
Proof.
  induction 1 as [|s rest Hs Hrest IH]; intros blk pre Hblk L D K Ks G x refs tl Hsc Hrefs HKd I HK Hnd Hdj Hvs He.
  - simpl in *. split; auto. exists []. split; [exact I|]. intros l [].
  - simpl in He.
    remember (length pre) as idx eqn:Hidx.
    remember (checkNode s x) as x1 eqn:Hx1.
    remember (releaseExpiredRefs idx x1) as x2 eqn:Hx2.
    destruct (frame_nodes' rest (S idx) x2) as (F1 & _).
    assert (E2 : errs x2 = []) by (eapply ext_noerr; eauto).
    destruct (releaseExpiredRefs_frame idx x1) as (R1 & R2 & R3 & R4). rewrite <- Hx2 in R1, R2, R3, R4.
    assert (E1 : errs x1 = []) by congruence.
    change (declsDeep (s :: rest)) with (declsDeepS s ++ declsDeep rest) in Hnd, Hdj.
    simpl in Hvs. apply andb_true_iff in Hvs. destruct Hvs as [Hv1 Hv2].
    destruct (Hs L D (mentionsL rest ++ K) (mentionsL rest ++ Ks) G x) as (Gn & HS & HGn & I1).
    + eapply StInv_anti; [exact I | | auto]. change (mentionsL (s :: rest)) with (mentions s ++ mentionsL rest). msolve.
    + unfold subK. msolve.
    + eapply NoDup_app_l; eauto.
    + intros l r Hl Hr Hin. eapply Hdj; eauto. apply in_or_app. left; exact Hin.
    + exact Hv1.
    + rewrite <- Hx1. exact E1.
    + rewrite <- Hx1 in I1.
      destruct (frame_stmt s x) as (_ & _ & _ & Fsc). destruct (Fsc _ _ Hsc) as (refs1 & Hsc1 & Hrefs1).
      rewrite <- Hx1 in Hsc1. simpl in Hsc1, Hrefs1.
      assert (Hcr1 : forall r, In r refs1 -> In r (collectRefDecls blk)).
      { intros r Hr. destruct (Hrefs1 r Hr) as [A|A]; auto. unfold collectRefDecls. apply in_flat_map.
        exists s. split; auto. subst blk. apply in_or_app. right. left. reflexivity. }
      assert (I2 : StInv L (varsDeepS s ++ D) (mentionsL rest ++ K) (Gn ++ G) x2).
      { rewrite Hx2. unfold releaseExpiredRefs. rewrite Hsc1. simpl.
        apply StInv_release; [apply StInv_setScopes; exact I1|].
        intros l r Hl Hr Hv Hin. apply filter_In in Hin. destruct Hin as [Hin1 Hexp].
        unfold expiredb in Hexp. destruct (lookup r (computeLastUse blk)) as [i|] eqn:Ei; [|discriminate].
        apply Nat.leb_le in Hexp.
        rewrite mem_app in Hv. apply orb_true_iff in Hv. destruct Hv as [Hv|Hv].
        - apply mem_In in Hv. unfold mentionsL in Hv. apply in_flat_map in Hv. destruct Hv as (s' & Hs' & Hm).
          apply in_split in Hs'. destruct Hs' as (r1 & r2 & Hsp).
          assert (Hb : blk = (pre ++ s :: r1) ++ s' :: r2) by (rewrite Hblk, Hsp, <- app_assoc; reflexivity).
          pose proof (lastUse_sound blk r _ _ _ i (Hcr1 r Hin1) Ei Hb Hm) as Hle.
          rewrite app_length in Hle. simpl in Hle. lia.
        - rewrite HKd in Hv; [discriminate|]. apply collectRefDecls_sub. auto. }
      destruct (R4 _ _ Hsc1) as (refs2 & Hsc2 & Hrefs2). simpl in Hsc2, Hrefs2.
      assert (Hb' : blk = (pre ++ [s]) ++ rest) by (rewrite <- app_assoc; exact Hblk).
      assert (Hlen : length (pre ++ [s]) = S idx) by (rewrite app_length; simpl; lia).
      pose proof (IH blk (pre ++ [s]) Hb' L (varsDeepS s ++ D) K Ks (Gn ++ G) x2 refs2 tl) as IH'.
      rewrite Hlen in IH'.
      destruct IH' as (HS' & Ge & Ie & HGe); auto.
      * intros r Hr. destruct (Hrefs2 r Hr) as [A|[]]. auto.
      * eapply NoDup_app_r; eauto.
      * intros l r Hl Hr Hin. apply in_app_or in Hl. destruct Hl as [Hl|Hl].
        -- destruct (HGn l Hl) as (r' & E & Hd). rewrite E in Hr. inversion Hr; subst r'.
           eapply (NoDup_app_disj _ _ r Hnd); eauto. apply declTop_sub. exact Hd.
        -- eapply Hdj; eauto. apply in_or_app. right; exact Hin.
      * split.
        -- simpl. rewrite HS. simpl. exact HS'.
        -- exists (Ge ++ Gn). split.
           ++ simpl checkNodes. rewrite <- Hx1, <- Hx2.
              rewrite <- app_assoc. eapply StInv_anti; [exact Ie | intros q Hq; exact Hq |].
              change (varsDeep (s :: rest)) with (varsDeepS s ++ varsDeep rest). msolve.
           ++ intros l Hl. change (declsDeep (s :: rest)) with (declsDeepS s ++ declsDeep rest).
              apply in_app_or in Hl. destruct Hl as [Hl|Hl].
              ** destruct (HGe l Hl) as (r & E & Hd). exists r. split; auto. apply in_or_app. auto.
              ** destruct (HGn l Hl) as (r & E & Hd). exists r. split; auto. apply in_or_app. left. apply declTop_sub. exact Hd.
Qed.

Lemma sound_block_of : forall b, Forall PS b -> forall L D K Ks G x,
  (forall r, In r (declsDeep b) -> mem r K = false) ->
  StInv L D (mentionsL b ++ K) G x -> subK Ks K -> NoDup (declsDeep b) -> Disj G (declsDeep b) ->
  vsL L D b = true -> errs (checkBlock b x) = [] ->
  safeL L Ks b G = true /\ StInv L (varsDeep b ++ D) K G (checkBlock b x).
Proof.
  intros b Hb L D K Ks G x HKd I HK Hnd Hdj Hvs He.
  unfold checkBlock in *.
  remember (pushScope (computeLastUse b) x) as x0 eqn:Hx0.
  assert (Hsc0 : scopes x0 = mkSc [] (computeLastUse b) :: scopes x) by (subst x0; reflexivity).
  destruct (frame_nodes' b 0 x0) as (_&_&_&Fsc).
  destruct (Fsc _ _ Hsc0) as (refs' & S1 & HR). simpl in S1, HR.
  remember (checkNodes 0 b x0) as xe eqn:Hxe.
  unfold popScope in *. rewrite S1 in *.
  match type of He with errs (fold_left ?f ?l ?s) = [] => destruct (fold_releaseBinding_feq l s) as (_&_&_&F4) end.
  assert (Ee : errs xe = []) by (rewrite F4 in He; exact He).
  destruct (sound_nodes b Hb b [] eq_refl L D K Ks G x0 [] (scopes x)) as (HS & Ge & Ie & HGe); auto.
  - intros r [].
  - subst x0. apply StInv_setScopes. exact I.
  - simpl. rewrite <- Hxe. exact Ee.
  - split; auto. simpl in Ie. rewrite <- Hxe in Ie.
    apply StInv_release; [apply StInv_setScopes; eapply StInv_drop; eauto|].
    intros l r Hl Hr Hv Hin. eapply Hdj; eauto. apply collectRefDecls_sub. destruct (HR r Hin) as [[]|A]; exact A.
Qed.

Lemma mem_head : forall r K, mem r (r :: K) = true.
Proof. intros. unfold mem. simpl. rewrite Nat.eqb_refl. reflexivity. Qed.
Lemma subK_tail : forall r K, subK K (r :: K).
Proof. intros r K q Hq. unfold mem in *. simpl. rewrite Hq. apply orb_true_r. Qed.

Lemma cond_sound : forall L D K Ks G x c,
  StInv L D K G x -> subK Ks K -> errs (checkCond c x) = [] ->
  checkCond c x = x /\ safeCond Ks G c = true.
Proof.
  intros L D K Ks G x c I HK He. destruct c as [|pl|r]; simpl in *; auto.
  destruct (conflict_read Ks G pl) eqn:C.
  - exfalso. eapply conflict_read_detect; eauto.
  - destruct (checkRead_cases pl x) as [[e Hx]|Hx]; rewrite Hx in *; auto.
    exfalso. eapply addErr_noerr; eauto.
Qed.

Lemma sound_stmt : forall s, PS s.
Proof.
  induction s using stmt_ind2; intros L D K Ks G x I HK Hnd Hdj Hvs He.
  - (* SVar *)
    simpl in I. exists []. split; [reflexivity|]. split; [intros l []|].
    destruct I as [B Bd Ls Gs Dl BT T]. constructor; simpl; auto.
    + intros l Hl Hm. unfold mem in *. simpl. rewrite (Ls l Hl Hm). apply orb_true_r.
    + intros v' Hv'. unfold mem in *. simpl in *. apply orb_true_iff in Hv'. destruct Hv' as [Hq|Hq].
      * rewrite Hq. reflexivity.
      * rewrite (Dl _ Hq). apply orb_true_r.
  - (* SLet *)
    simpl in I, Hvs.
    change (checkNode (SLet r m pl) x) with (checkBorrowInit r m pl x) in *. unfold checkBorrowInit in *.
    assert (HL : mem (fst pl) L = true -> mem (fst pl) (locals x) = true).
    { intros Hm. rewrite Hm in Hvs. simpl in Hvs. apply (iDl _ _ _ _ _ I). exact Hvs. }
    destruct (let_step L D K K Ks G x r (fst pl) (snd pl) m I (fun q Hq => Hq) HK HL He) as [C I'].
    exists [mkL (Some r) (fst pl) (snd pl) m]. simpl. rewrite C. simpl. split; [reflexivity|]. split.
    + intros l [Hl|[]]. subst. exists r. simpl. auto.
    + exact I'.
  - (* SCopy *)
    simpl in I.
    change (checkNode (SCopy r2 r) x) with (bindRefFromIdent r2 r x) in *. unfold bindRefFromIdent in *.
    change (declsDeepS (SCopy r2 r)) with [r2] in *.
    simpl safeS. destruct (lookupLoan r G) as [l|] eqn:El.
    + assert (Hb : lookup r (bindings x) = Some (entryOf l)).
      { apply (iBd _ _ _ _ _ I r l El). apply mem_head. }
      rewrite Hb in *. simpl e_base in *. simpl e_path in *. simpl e_mut in *.
      destruct (lookupLoan_some _ _ _ El) as [Hin Href].
      assert (HL : mem (l_base l) L = true -> mem (l_base l) (locals x) = true).
      { intros Hm. apply (iLs _ _ _ _ _ I); auto. }
      destruct (let_step L D (r :: K) K Ks G x r2 (l_base l) (l_path l) (l_mut l) I (subK_tail r K) HK HL He) as [C I'].
      exists [mkL (Some r2) (l_base l) (l_path l) (l_mut l)]. rewrite C. simpl. split; [reflexivity|]. split.
      * intros l' [Hl|[]]. subst. exists r2. simpl. auto.
      * exact I'.
    + exists []. split; [reflexivity|]. split; [intros l []|]. simpl.
      destruct (lookup r (bindings x)) as [e|] eqn:Eb.
      * assert (I0 : StInv [] D (r :: K) G x) by (eapply StInv_changeL; [exact I|]; intros l _ Hm; discriminate).
        assert (HL : mem (e_base e) [] = true -> mem (e_base e) (locals x) = true) by (intros Hm; discriminate).
        destruct (let_step [] D (r :: K) K Ks G x r2 (e_base e) (e_path e) (e_mut e) I0 (subK_tail r K) HK HL He) as [C I'].
        destruct (checkBorrowInit_like_frame r2 (e_base e) (e_path e) (e_mut e) x) as (_ & Hloc & _).
        eapply StInv_changeL.
        -- eapply (StInv_drop [] D K [mkL (Some r2) (e_base e) (e_path e) (e_mut e)] G _ [r2]); [exact I' | | exact Hdj].
           intros l' [Hl|[]]. subst. exists r2. simpl. auto.
        -- intros l Hl Hm. rewrite Hloc. apply (iLs _ _ _ _ _ I); auto.
      * eapply StInv_anti; [exact I | apply subK_tail | auto].
  - (* SUse *)
    simpl in I. exists []. split; [reflexivity|]. split; [intros l []|].
    eapply StInv_anti; [exact I | apply subK_tail | auto].
  - (* SWt *)
    simpl in I. exists []. split; [reflexivity|]. split; [intros l []|].
    eapply StInv_anti; [exact I | apply subK_tail | auto].
  - (* SRead *)
    simpl in I. change (checkNode (SRead pl) x) with (checkRead pl x) in *.
    exists []. simpl. destruct (conflict_read Ks G pl) eqn:C.
    + exfalso. eapply conflict_read_detect; eauto.
    + destruct (checkRead_cases pl x) as [[e Hx]|Hx]; rewrite Hx in *.
      * exfalso. eapply addErr_noerr; eauto.
      * split; [reflexivity|]. split; [intros l []|]. exact I.
  - (* SWrite *)
    simpl in I. change (checkNode (SWrite pl) x) with (checkWrite pl x) in *.
    exists []. simpl. destruct (conflict_write Ks G pl) eqn:C.
    + exfalso. eapply conflict_write_detect; eauto.
    + destruct (checkWrite_cases pl x) as [[e Hx]|Hx]; rewrite Hx in *.
      * exfalso. eapply addErr_noerr; eauto.
      * split; [reflexivity|]. split; [intros l []|]. exact I.
  - (* SCall *)
    change (mentions (SCall args)) with (flat_map arg_mentions args) in I.
    change (checkNode (SCall args) x) with (releaseTemps (length (temp x)) (fold_left checkArg args x)) in *.
    assert (T := iT _ _ _ _ _ I). rewrite T in He |- *. simpl length in *.
    remember (fold_left checkArg args x) as y eqn:Hy.
    destruct (releaseTemps_proj 0 y) as (B1&B2&B3&B4&B5&B6).
    destruct (fold_args_frame args x) as (A1&A2&A3&A4&A5&A6). rewrite <- Hy in A1, A2, A3, A4, A5, A6.
    assert (Ey : errs y = []) by congruence.
    assert (T0 : temps0 x) by (intros e' He'; rewrite T in He'; destruct He').
    exists []. simpl. split; [|split; [intros l []|]].
    + f_equal. eapply (args_sound args (flat_map arg_mentions args ++ K)).
      * exact (iB _ _ _ _ _ I).
      * unfold subK. msolve.
      * rewrite <- Hy. exact Ey.
    + eapply StInv_transfer with (x := x).
      * eapply StInv_anti; [exact I | | auto]. unfold subK. msolve.
      * intros e He' Ht. apply B6; auto.
      * rewrite B1. exact A4.
      * rewrite B4. exact A2.
      * rewrite B3. reflexivity.
  - (* SBlock *)
    rewrite checkNode_block in *. rewrite vsS_block in Hvs. rewrite safeS_block.
    change (mentions (SBlock b)) with (mentionsL b) in I.
    change (declsDeepS (SBlock b)) with (declsDeep b) in *. change (varsDeepS (SBlock b)) with (varsDeep b).
    destruct (sound_block_of b H L D (removeAll (declsDeep b) K) (removeAll (declsDeep b) Ks) G x) as [HS I']; auto.
    + intros r Hr. rewrite mem_removeAll. apply mem_In in Hr. rewrite Hr. simpl. apply andb_false_r.
    + eapply StInv_anti; [exact I | | auto]. unfold subK. msolve.
    + unfold subK. msolve.
    + exists []. simpl. rewrite HS. split; [reflexivity|]. split; [intros l []|]. eapply StInv_lift; eauto.
  - (* SIf *)
    rewrite checkNode_if in *. rewrite vsS_if in Hvs. rewrite safeS_if.
    change (mentions (SIf c b1 b2)) with (cond_mentions c ++ mentionsL b1 ++ mentionsL b2) in I.
    change (declsDeepS (SIf c b1 b2)) with (declsDeep b1 ++ declsDeep b2) in *.
    change (varsDeepS (SIf c b1 b2)) with (varsDeep b1 ++ varsDeep b2).
    apply andb_true_iff in Hvs. destruct Hvs as [Hv1 Hv2].
    destruct (frame_block b2 (checkBlock b1 (checkCond c x))) as (F2&_).
    assert (E1 : errs (checkBlock b1 (checkCond c x)) = []) by (eapply ext_noerr; eauto).
    destruct (frame_block b1 (checkCond c x)) as (F1&_).
    assert (E0 : errs (checkCond c x) = []) by (eapply ext_noerr; eauto).
    destruct (cond_sound L D ((cond_mentions c ++ mentionsL b1 ++ mentionsL b2) ++ K) (cond_mentions c ++ mentionsL b1 ++ mentionsL b2 ++ Ks) G x c I) as [Hc1 Hc2]; auto.
    { unfold subK. msolve. }
    rewrite Hc1 in *. rewrite Hc2.
    assert (Hd1 : Disj G (declsDeep b1)) by (intros l r Hl Hr Hin; eapply Hdj; eauto; apply in_or_app; auto).
    assert (Hd2 : Disj G (declsDeep b2)) by (intros l r Hl Hr Hin; eapply Hdj; eauto; apply in_or_app; auto).
    destruct (sound_block_of b1 H L D (removeAll (declsDeep b1) (mentionsL b2 ++ K)) (removeAll (declsDeep b1) Ks) G x) as [HS1 I1]; auto.
    + intros r Hr. rewrite mem_removeAll. apply mem_In in Hr. rewrite Hr. simpl. apply andb_false_r.
    + eapply StInv_anti; [exact I | | auto]. unfold subK. msolve.
    + unfold subK. msolve.
    + eapply NoDup_app_l; eauto.
    + assert (I1' : StInv L (varsDeep b1 ++ D) (mentionsL b2 ++ K) G (checkBlock b1 x)) by (eapply StInv_lift; eauto).
      destruct (sound_block_of b2 H0 L (varsDeep b1 ++ D) (removeAll (declsDeep b2) K) (removeAll (declsDeep b2) Ks) G (checkBlock b1 x)) as [HS2 I2]; auto.
      * intros r Hr. rewrite mem_removeAll. apply mem_In in Hr. rewrite Hr. simpl. apply andb_false_r.
      * eapply StInv_anti; [exact I1' | | auto]. unfold subK. msolve.
      * unfold subK. msolve.
      * eapply NoDup_app_r; eauto.
      * exists []. simpl. rewrite HS1, HS2. split; [reflexivity|]. split; [intros l []|].
        eapply StInv_anti; [eapply StInv_lift; [exact I2 | exact Hd2] | intros q Hq; exact Hq |]. msolve.
  - (* SWhile *)
    rewrite checkNode_while in *. rewrite vsS_while in Hvs. rewrite safeS_while.
    change (mentions (SWhile c b)) with (cond_mentions c ++ mentionsL b) in I.
    change (declsDeepS (SWhile c b)) with (declsDeep b) in *. change (varsDeepS (SWhile c b)) with (varsDeep b).
    destruct (frame_block b (checkCond c x)) as (F1&_).
    assert (E0 : errs (checkCond c x) = []) by (eapply ext_noerr; eauto).
    destruct (cond_sound L D ((cond_mentions c ++ mentionsL b) ++ K) (cond_mentions c ++ mentionsL b ++ Ks) G x c I) as [Hc1 Hc2]; auto.
    { unfold subK. msolve. }
    rewrite Hc1 in *. rewrite Hc2.
    destruct (sound_block_of b H L D (removeAll (declsDeep b) (cond_mentions c ++ mentionsL b ++ K)) (removeAll (declsDeep b) (cond_mentions c ++ mentionsL b ++ Ks)) G x) as [HS I']; auto.
    + intros r Hr. rewrite mem_removeAll. apply mem_In in Hr. rewrite Hr. simpl. apply andb_false_r.
    + eapply StInv_anti; [exact I | | auto]. unfold subK. msolve.
    + unfold subK. msolve.
    + exists []. simpl. rewrite HS. split; [reflexivity|]. split; [intros l []|].
      eapply StInv_anti; [eapply StInv_lift; [exact I' | exact Hdj] | | auto]. unfold subK. msolve.
  - (* SRetBor *)
    simpl in I.
    change (checkNode (SRetBor m pl) x) with
      (checkReturnBase (fst pl) (releaseTemps (length (temp x)) (checkBorrowExpr m pl x))) in *.
    assert (T := iT _ _ _ _ _ I). rewrite T in He |- *. simpl length in *.
    destruct (checkArg_frame (ABor m pl) x) as (A1&A2&A3&A4&A5&A6).
    change (checkArg x (ABor m pl)) with (checkBorrowExpr m pl x) in *.
    remember (checkBorrowExpr m pl x) as y eqn:Hy.
    destruct (releaseTemps_proj 0 y) as (B1&B2&B3&B4&B5&B6).
    remember (releaseTemps 0 y) as z eqn:Hz.
    assert (T0 : temps0 x) by (intros e' He'; rewrite T in He'; destruct He').
    destruct (checkReturnBase_cases (fst pl) z) as [[e Hr]|Hr]; rewrite Hr in *; [exfalso; eapply addErr_noerr; eauto|].
    assert (Ey : errs y = []) by congruence.
    assert (C : conflict_borrow Ks G (fst pl) (snd pl) m = false).
    { destruct (conflict_borrow Ks G (fst pl) (snd pl) m) eqn:C; auto. exfalso.
      destruct (conflict_borrow_detect K Ks G x (fst pl) (snd pl) m 0) as [_ A]; auto.
      - exact (iB _ _ _ _ _ I).
      - rewrite Hy in Ey. unfold checkBorrowExpr in Ey. destruct (addBorrow (fst pl) (snd pl) m 0 x) as [ok s1].
        simpl in A. destruct ok; simpl in Ey; contradiction. }
    assert (Lc : mem (fst pl) L = false).
    { destruct (mem (fst pl) L) eqn:Lc; auto. exfalso. simpl in Hvs. rewrite Lc in Hvs. simpl in Hvs.
      assert (Hm : mem (fst pl) (locals z) = true) by (rewrite B4, A2; apply (iDl _ _ _ _ _ I); exact Hvs).
      unfold checkReturnBase in Hr. rewrite Hm in Hr. apply (f_equal errs) in Hr. simpl in Hr. rewrite He in Hr. discriminate. }
    exists []. simpl. rewrite C, Lc. simpl. split; [reflexivity|]. split; [intros l []|].
    eapply StInv_transfer with (x := x); [exact I | | | | ].
    + intros e He' Ht. apply B6; auto.
    + rewrite B1. exact A4.
    + rewrite B4. exact A2.
    + rewrite B3. reflexivity.
  - (* SRetRef *)
    simpl in I.
    change (checkNode (SRetRef r) x) with
      (match lookup r (bindings x) with Some e => checkReturnBase (e_base e) x | None => x end) in *.
    assert (Hx : match lookup r (bindings x) with Some e => checkReturnBase (e_base e) x | None => x end = x).
    { destruct (lookup r (bindings x)) as [e|]; auto.
      destruct (checkReturnBase_cases (e_base e) x) as [[e' Hr]|Hr]; rewrite Hr in *; auto.
      exfalso. eapply addErr_noerr; eauto. }
    exists []. simpl safeS. destruct (lookupLoan r G) as [l|] eqn:El.
    + assert (Hb : lookup r (bindings x) = Some (entryOf l)).
      { apply (iBd _ _ _ _ _ I r l El). apply mem_head. }
      destruct (mem (l_base l) L) eqn:Lc.
      * exfalso. rewrite Hb in He. simpl in He. destruct (lookupLoan_some _ _ _ El) as [Hin _].
        assert (Hm : mem (l_base l) (locals x) = true) by (apply (iLs _ _ _ _ _ I); auto).
        unfold checkReturnBase in He. rewrite Hm in He. eapply addErr_noerr; eauto.
      * simpl. rewrite Hx. split; [reflexivity|]. split; [intros l' []|].
        eapply StInv_anti; [exact I | apply subK_tail | auto].
    + rewrite Hx. split; [reflexivity|]. split; [intros l' []|].
      eapply StInv_anti; [exact I | apply subK_tail | auto].
Qed.

(* ------------------------------------------------------------------------------------------------ the theorem *)
Theorem sound_decl : forall params body,
  wf body -> vscoped params body -> accept params body = true -> safe params body = true.
Proof.
  intros params body Hwf Hvs Hacc. unfold safe, accept, bc in *.
  destruct (errs (checkBlock body (st0 params))) eqn:He; [|discriminate].
  assert (I0 : StInv (params ++ varsDeep body) params (mentionsL body ++ []) [] (st0 params)).
  { constructor; simpl; auto; try (intros; contradiction); try discriminate. }
  assert (HF : Forall PS body) by (apply Forall_forall; intros s _; apply sound_stmt).
  assert (HD : Disj [] (declsDeep body)) by (intros l r []).
  assert (HK : subK [] []) by (intros q Hq; exact Hq).
  destruct (sound_block_of body HF (params ++ varsDeep body) params [] [] [] (st0 params)) as [HS _]; auto.
Qed.

(* the scoping hypothesis is necessary: the checker only knows a `let` variable as local after its declaration *)
Lemma sound_needs_scoping :
  exists body, wf body /\ accept [] body = true /\ safe [] body = false.
Proof.
  exists [SIf CNone [SRetBor false (0, [])] []; SVar 0]. split; [|split].
  - unfold wf. simpl. constructor.
  - vm_compute. reflexivity.
  - vm_compute. reflexivity.
Qed.

Lemma nodupb_NoDup : forall l, nodupb l = true -> NoDup l.
Proof.
  induction l as [|x l IH]; simpl; intros H; [constructor|].
  apply andb_true_iff in H. destruct H as [H1 H2]. constructor; auto.
  apply negb_true_iff in H1. apply mem_false. exact H1.
Qed.
Lemma wfb_wf : forall body, wfb body = true -> wf body.
Proof. intros. apply nodupb_NoDup. exact H. Qed.

(* decidable form of the hypotheses *)
Corollary sound_decl_b : forall params body,
  wfb body = true -> vsL (params ++ varsDeep body) params body = true ->
  accept params body = true -> safe params body = true.
Proof. intros. apply sound_decl; auto. apply wfb_wf. assumption. Qed.

(* non-vacuity: a nested body (block, if with a condition on a place, while, copy, call with temporaries, inner local,
   return of the reference parameter) that satisfies every hypothesis and is accepted *)
Definition demo_body : list stmt :=
  [SVar 0; SVar 1000;
   SLet 0 true (0, [SF 2]); SWt 0;
   SLet 1 false (0, [SF 0]); SCopy 2 1;
   SIf (CPl (0, [SF 1])) [SUse 1; SBlock [SVar 2; SLet 3 true (2, [SF 3; SI (Some 1)]); SWt 3]] [SIf (CRef 2) [SRead (0, [SF 1])] [SIf CNone [] [SUse 2]]];
   SWhile (CRef 1) [SLet 4 true (0, [SF 3; SI None]); SWt 4; SCall [ABor false (0, [SF 0]); ARd (0, [SF 1]); ARef 4]; SWrite (1000, [])];
   SWrite (0, []); SRead (0, [SF 2; SF 5]);
   SIf CNone [SRetRef 100] []; SRetRef 100].
Lemma demo_hyps : wf demo_body /\ vscoped [3] demo_body /\ accept [3] demo_body = true.
Proof. split; [apply wfb_wf; vm_compute; reflexivity | split; vm_compute; reflexivity]. Qed.
