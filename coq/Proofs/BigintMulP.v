(* C16 — multiplication (truncated schoolbook), signed wrappers, 64-bit conversions, bitwise not, text -> number. *)
From Coq Require Import ZArith List Bool Lia.
From FV Require Import Models.Bigint Proofs.BigintP.
Import ListNotations.
Open Scope Z_scope.

Lemma value_zeros n : value (zeros n) = 0.
Proof. induction n as [|n IH]; cbn [zeros repeat value]; [reflexivity|]. fold (zeros n). rewrite IH. lia. Qed.
Lemma zeros_ok n : limbs_ok (zeros n).
Proof.
  induction n as [|n IH]; cbn [zeros repeat]; [apply limbs_ok_nil|]. apply limbs_ok_cons. split; [|exact IH].
  unfold limb_ok. pose proof B_pos. lia.
Qed.
Lemma zeros_length n : length (zeros n) = n.
Proof. apply repeat_length. Qed.

(* ------------------------------------------------------------------ one row *)
Lemma mul_row_cong : forall out b ai c, (length out <= length b)%nat ->
  exists q, value (mul_row ai b out c) = ai * value b + value out + c + modulus (length out) * q.
Proof.
  induction out as [|o out IH]; intros b ai c L.
  - exists (- (ai * value b + c)). destruct b; cbn [mul_row length]; change (value []) with 0; rewrite modulus_0; lia.
  - destruct b as [|y b]; cbn [length] in L; [lia|].
    cbn [mul_row value length]. cbv zeta.
    destruct (IH b ai ((ai * y + o + c) / B) ltac:(lia)) as [q E]. exists q.
    rewrite E, modulus_S.
    pose proof (Z.div_mod (ai * y + o + c) B ltac:(pose proof B_pos; lia)). nia.
Qed.

Lemma mul_row_length : forall out b ai c, length (mul_row ai b out c) = length out.
Proof.
  induction out as [|o out IH]; intros [|y b] ai c; cbn [mul_row length]; auto.
Qed.

Lemma mul_row_ok : forall out b ai c, limbs_ok out -> limbs_ok (mul_row ai b out c).
Proof.
  induction out as [|o out IH]; intros [|y b] ai c H; cbn [mul_row]; auto.
  cbv zeta. apply limbs_ok_cons in H. destruct H as [_ H]. apply limbs_ok_cons. split; [apply mod_limb_ok | auto].
Qed.

(* ------------------------------------------------------------------ all rows *)
Lemma mul_go_cong : forall a out b, length a = length out -> (length out <= length b)%nat ->
  exists q, value (mul_go a b out) = value a * value b + value out + modulus (length out) * q.
Proof.
  induction a as [|x a IH]; intros out b L Lb.
  - destruct out; cbn [length] in L; [|discriminate]. exists 0. cbn [mul_go value length]. rewrite modulus_0. lia.
  - destruct out as [|o out]; cbn [length] in L; [discriminate|]. injection L as L.
    cbn [mul_go].
    pose proof (mul_row_length (o :: out) b x 0) as RL.
    destruct (mul_row_cong (o :: out) b x 0 Lb) as [q1 E1].
    destruct (mul_row x b (o :: out) 0) as [|h rest]; cbn [length] in RL; [discriminate|]. injection RL as RL.
    cbn [length] in Lb.
    destruct (IH rest b ltac:(lia) ltac:(lia)) as [q2 E2].
    exists (q1 + q2). cbn [value length] in *. rewrite E2, RL. rewrite modulus_S in *. nia.
Qed.

Lemma mul_go_ok : forall a b out, limbs_ok out -> limbs_ok (mul_go a b out).
Proof.
  induction a as [|x a IH]; intros b out H; cbn [mul_go]; auto.
  pose proof (mul_row_ok out b x 0 H) as R.
  destruct (mul_row x b out 0) as [|h rest]; [apply limbs_ok_nil|].
  apply limbs_ok_cons in R. destruct R as [Hh Hr]. apply limbs_ok_cons. split; auto.
Qed.

Lemma mul_go_length : forall a out b, length a = length out -> length (mul_go a b out) = length out.
Proof.
  induction a as [|x a IH]; intros out b L; cbn [mul_go]; auto.
  destruct out as [|o out]; cbn [length] in L; [discriminate|]. injection L as L.
  pose proof (mul_row_length (o :: out) b x 0) as RL.
  destruct (mul_row x b (o :: out) 0) as [|h rest]; cbn [length] in RL; [discriminate|]. injection RL as RL.
  cbn [length]. rewrite IH; lia.
Qed.

Lemma mul_limbs_cong a b : length a = length b ->
  exists q, value (mul_limbs a b) = value a * value b + modulus (length a) * q.
Proof.
  intros L. unfold mul_limbs.
  destruct (mul_go_cong a (zeros (length a)) b) as [q E].
  - rewrite zeros_length. reflexivity.
  - rewrite zeros_length. lia.
  - exists q. rewrite E, value_zeros, zeros_length. lia.
Qed.

Lemma mul_limbs_ok a b : limbs_ok (mul_limbs a b).
Proof. apply mul_go_ok, zeros_ok. Qed.

Lemma mul_limbs_length a b : length (mul_limbs a b) = length a.
Proof. unfold mul_limbs. rewrite mul_go_length; rewrite zeros_length; reflexivity. Qed.

Lemma mul_limbs_correct a b : length a = length b ->
  value (mul_limbs a b) = (value a * value b) mod modulus (length a).
Proof.
  intros L. destruct (mul_limbs_cong a b L) as [q E].
  apply cong_mod with (q := q); [| exact E].
  rewrite <- (mul_limbs_length a b). apply value_bound, mul_limbs_ok.
Qed.

(* ------------------------------------------------------------------ signed multiplication through magnitudes *)
Lemma negate_ok v : limbs_ok (negate_limbs v).
Proof. apply negate_c_ok. Qed.
Lemma negate_length v : length (negate_limbs v) = length v.
Proof. apply negate_c_length. Qed.

Lemma abs_cong v : limbs_ok v ->
  exists q, value (fst (abs_limbs v)) = (if snd (abs_limbs v) then - value v else value v) + modulus (length v) * q.
Proof.
  intros H. unfold abs_limbs. cbn [fst snd]. destruct (is_negative v).
  - apply negate_cong, H.
  - exists 0. lia.
Qed.
Lemma abs_ok v : limbs_ok v -> limbs_ok (fst (abs_limbs v)).
Proof. intros H. unfold abs_limbs. cbn [fst]. destruct (is_negative v); [apply negate_ok | exact H]. Qed.
Lemma abs_length v : length (fst (abs_limbs v)) = length v.
Proof. unfold abs_limbs. cbn [fst]. destruct (is_negative v); [apply negate_length | reflexivity]. Qed.

Lemma s_mul_unfold a b :
  s_mul a b = let mag := mul_limbs (fst (abs_limbs a)) (fst (abs_limbs b)) in
              if negb (Bool.eqb (snd (abs_limbs a)) (snd (abs_limbs b))) then negate_limbs mag else mag.
Proof. unfold s_mul. destruct (abs_limbs a), (abs_limbs b). reflexivity. Qed.

Lemma s_mul_cong a b : length a = length b -> limbs_ok a -> limbs_ok b ->
  exists q, value (s_mul a b) = value a * value b + modulus (length a) * q.
Proof.
  intros L Ha Hb. rewrite s_mul_unfold. cbv zeta.
  destruct (abs_cong a Ha) as [qa Ea]. destruct (abs_cong b Hb) as [qb Eb].
  assert (Lm : length (fst (abs_limbs a)) = length (fst (abs_limbs b))) by (rewrite !abs_length; exact L).
  destruct (mul_limbs_cong _ _ Lm) as [qm Em].
  pose proof (mul_limbs_ok (fst (abs_limbs a)) (fst (abs_limbs b))) as Hm.
  destruct (negate_cong _ Hm) as [qn En].
  rewrite mul_limbs_length, abs_length in En. rewrite abs_length in Em. rewrite <- L in Eb.
  set (m := modulus (length a)) in *.
  destruct (snd (abs_limbs a)), (snd (abs_limbs b)); cbn [Bool.eqb negb].
  - exists (qm - qa * value b - qb * value a + m * qa * qb - qa * value b * 0). rewrite Em, Ea, Eb. ring.
  - exists (qn - qm - qa * value b + qb * value a - m * qa * qb). rewrite En, Em, Ea, Eb. ring.
  - exists (qn - qm - qb * value a + qa * value b - m * qa * qb). rewrite En, Em, Ea, Eb. ring.
  - exists (qm + qa * value b + qb * value a + m * qa * qb). rewrite Em, Ea, Eb. ring.
Qed.

Lemma s_mul_ok a b : limbs_ok (s_mul a b).
Proof.
  rewrite s_mul_unfold. cbv zeta. destruct (negb _); [apply negate_ok | apply mul_limbs_ok].
Qed.
Lemma s_mul_length a b : length (s_mul a b) = length a.
Proof.
  rewrite s_mul_unfold. cbv zeta. destruct (negb _); rewrite ?negate_length, mul_limbs_length, abs_length; reflexivity.
Qed.

Lemma s_mul_value a b : length a = length b -> limbs_ok a -> limbs_ok b ->
  value (s_mul a b) = (value a * value b) mod modulus (length a).
Proof.
  intros L Ha Hb. destruct (s_mul_cong a b L Ha Hb) as [q E].
  apply cong_mod with (q := q); [| exact E].
  rewrite <- (s_mul_length a b). apply value_bound, s_mul_ok.
Qed.

(* lifting an unsigned congruence to the two's complement reading *)
Lemma signed_of_cong (r a b : list Z) (f : Z -> Z -> Z) :
  length r = length a -> length a = length b -> limbs_ok r -> r <> [] ->
  (forall x y qx qy, exists q, f (x + modulus (length a) * qx) (y + modulus (length a) * qy) = f x y + modulus (length a) * q) ->
  (exists q, value r = f (value a) (value b) + modulus (length a) * q) ->
  svalue r = wrapS (modulus (length a)) (f (svalue a) (svalue b)).
Proof.
  intros Lr L Hr Hne Hf [q E].
  destruct (svalue_cong a) as [qa Ea]. destruct (svalue_cong b) as [qb Eb]. rewrite <- L in Eb.
  destruct (Hf (value a) (value b) qa qb) as [q' E'].
  rewrite <- Lr. apply svalue_wrap with (q := q - q'); auto.
  rewrite Lr, Ea, Eb, E', E. ring.
Qed.

Lemma s_mul_correct a b : length a = length b -> limbs_ok a -> limbs_ok b -> a <> [] ->
  svalue (s_mul a b) = wrapS (modulus (length a)) (svalue a * svalue b).
Proof.
  intros L Ha Hb Hne.
  apply (signed_of_cong (s_mul a b) a b Z.mul); auto.
  - apply s_mul_length.
  - apply s_mul_ok.
  - intros E. pose proof (s_mul_length a b) as SL. rewrite E in SL. destruct a; cbn in SL; congruence.
  - intros x y qx qy. exists (x * qy + y * qx + modulus (length a) * qx * qy). ring.
  - apply s_mul_cong; auto.
Qed.

Lemma s_add_correct a b : length a = length b -> limbs_ok a -> limbs_ok b -> a <> [] ->
  svalue (add_limbs a b) = wrapS (modulus (length a)) (svalue a + svalue b).
Proof.
  intros L Ha Hb Hne.
  apply (signed_of_cong (add_limbs a b) a b Z.add); auto.
  - apply add_c_length, L.
  - apply add_c_ok.
  - intros E. pose proof (add_c_length a b 0 L) as SL. unfold add_limbs in E. rewrite E in SL. destruct a; cbn in SL; congruence.
  - intros x y qx qy. exists (qx + qy). ring.
  - destruct (add_c_cong a b 0 L) as [q E]. exists q. unfold add_limbs. rewrite E. ring.
Qed.

Lemma s_sub_correct a b : length a = length b -> limbs_ok a -> limbs_ok b -> a <> [] ->
  svalue (sub_limbs a b) = wrapS (modulus (length a)) (svalue a - svalue b).
Proof.
  intros L Ha Hb Hne.
  apply (signed_of_cong (sub_limbs a b) a b Z.sub); auto.
  - apply sub_c_length, L.
  - apply sub_c_ok.
  - intros E. pose proof (sub_c_length a b 0 L) as SL. unfold sub_limbs in E. rewrite E in SL. destruct a; cbn in SL; congruence.
  - intros x y qx qy. exists (qx - qy). ring.
  - destruct (sub_c_cong a b 0 L Ha Hb ltac:(lia)) as [q E]. exists q. unfold sub_limbs. rewrite E. ring.
Qed.

(* ------------------------------------------------------------------ 64-bit conversions *)
Lemma value_repeat_max n : value (repeat LMAX n) = modulus n - 1.
Proof.
  induction n as [|n IH]; cbn [repeat value]; [rewrite modulus_0; reflexivity|].
  rewrite IH, modulus_S. unfold LMAX. ring.
Qed.

Lemma from_u64_correct n x : n <> O -> value (from_u64 n x) = x.
Proof. destruct n as [|n]; [congruence|]. intros _. cbn [from_u64 value]. rewrite value_zeros. lia. Qed.

(* x is the 64-bit pattern of the int64_t argument; its mathematical value is x - 2^64 when the top bit is set *)
Lemma from_i64_correct n x : n <> O -> limb_ok x ->
  value (from_i64 n x) = (if x >=? 2 ^ 63 then x - B else x) mod modulus n.
Proof.
  destruct n as [|n]; [congruence|]. intros _ Hx. cbn [from_i64 value]. unfold limb_ok in Hx.
  pose proof (modulus_pos n). pose proof B_pos.
  destruct (x >=? 2 ^ 63).
  - rewrite value_repeat_max, modulus_S.
    apply cong_mod with (q := 1); [nia | ring].
  - fold (zeros n). rewrite value_zeros, modulus_S.
    apply cong_mod with (q := 0); [nia | ring].
Qed.

Lemma to_u64_correct v : limbs_ok v -> v <> [] -> to_u64 v = value v mod B.
Proof.
  destruct v as [|x v]; [congruence|]. intros H _. apply limbs_ok_cons in H. destruct H as [Hx _].
  cbn [to_u64 hd value]. unfold limb_ok in Hx.
  apply cong_mod with (q := - value v); [lia | ring].
Qed.

(* ------------------------------------------------------------------ bitwise not *)
Lemma not_limbs_value v : value (not_limbs v) = modulus (length v) - 1 - value v.
Proof.
  induction v as [|x v IH]; cbn [not_limbs map value length].
  - rewrite modulus_0. reflexivity.
  - fold (not_limbs v). rewrite IH, modulus_S. unfold LMAX. ring.
Qed.

(* ------------------------------------------------------------------ text -> number: the accumulation step and a
   digit string.  `num base ds acc` is the number denoted by the digits ds appended to acc. *)
Lemma mul_add_small_cong : forall v base c,
  exists q, value (mul_add_small v base c) = value v * base + c + modulus (length v) * q.
Proof.
  induction v as [|x v IH]; intros base c.
  - exists (- c). cbn [mul_add_small value length]. rewrite modulus_0. lia.
  - cbn [mul_add_small value length]. cbv zeta.
    destruct (IH base ((x * base + c) / B)) as [q E]. exists q. rewrite E, modulus_S.
    pose proof (Z.div_mod (x * base + c) B ltac:(pose proof B_pos; lia)). nia.
Qed.
Lemma mul_add_small_ok : forall v base c, limbs_ok (mul_add_small v base c).
Proof.
  induction v as [|x v IH]; intros base c; cbn [mul_add_small]; [apply limbs_ok_nil|].
  cbv zeta. apply limbs_ok_cons. split; [apply mod_limb_ok | apply IH].
Qed.
Lemma mul_add_small_length : forall v base c, length (mul_add_small v base c) = length v.
Proof. induction v as [|x v IH]; intros base c; cbn [mul_add_small length]; auto. Qed.

(* a string made only of digits of the base (and '_' separators, which are skipped) *)
Fixpoint num (base : Z) (s : list Z) (acc : Z) : Z :=
  match s with
  | [] => acc
  | c :: r => if c =? 95 then num base r acc else num base r (acc * base + digit_value c)
  end.
Definition all_digits (base : Z) (s : list Z) : Prop :=
  Forall (fun c => c = 95 \/ (0 <= digit_value c < base)) s.

Lemma parse_digits_cong : forall s base out any, all_digits base s ->
  exists q, value (fst (parse_digits s base out any)) = num base s (value out) + modulus (length out) * q
            /\ length (fst (parse_digits s base out any)) = length out.
Proof.
  induction s as [|c s IH]; intros base out any H.
  - exists 0. cbn [parse_digits fst num]. split; [lia | reflexivity].
  - inversion H as [|c' s' Hc Hs]; subst. cbn [parse_digits num].
    destruct (Z.eqb_spec c 95).
    + apply IH, Hs.
    + destruct Hc as [Hc|Hc]; [contradiction|].
      assert (Hd : (digit_value c <? 0) || (digit_value c >=? base) = false).
      { apply orb_false_iff. split; [apply Z.ltb_ge; lia | rewrite Z.geb_leb; apply Z.leb_gt; lia]. }
      rewrite Hd.
      destruct (IH base (mul_add_small out base (digit_value c)) true Hs) as [q [E EL]].
      destruct (mul_add_small_cong out base (digit_value c)) as [q2 E2].
      rewrite mul_add_small_length in EL.
      rewrite E2 in E. rewrite mul_add_small_length in E.
      (* num is affine in its accumulator modulo m *)
      assert (A : forall s a d, exists k, num base s (a + modulus (length out) * d) = num base s a + modulus (length out) * k).
      { clear. induction s as [|c s IHs]; intros a d; cbn [num]; [exists d; reflexivity|].
        destruct (c =? 95); [apply IHs|].
        destruct (IHs (a * base + digit_value c) (d * base)) as [k Ek]. exists k. rewrite <- Ek. f_equal. ring. }
      destruct (A s (value out * base + digit_value c) q2) as [k Ek].
      exists (k + q). split; [| exact EL]. rewrite E, Ek. ring.
Qed.
