(* C13 — the emitter's underline arithmetic never hands a negative count to strings.Repeat. *)
From Coq Require Import ZArith List Bool Lia.
From FV Require Import Models.DualLabel.
Import ListNotations.
Open Scope Z_scope.

Lemma ulen_pos : forall s, 1 <= ulen s.
Proof. intros [a b]. unfold ulen. cbn [fst snd]. destruct (b - a <=? 0) eqn:E; [lia|]. apply Z.leb_gt in E. lia. Qed.

Lemma single_nonneg : forall s, 1 <= fst s -> 0 <= fst (single_layout s) /\ 1 <= snd (single_layout s).
Proof. intros s H. unfold single_layout. cbn [fst snd]. pose proof (ulen_pos s). lia. Qed.

(* for ALL pairs of label spans whose start columns are real columns (>= 1) — nested, overlapping, adjacent,
   identical, reversed, ending on a later line — every count is non-negative, the underlines are non-empty *)
Lemma dual_nonneg : forall p s, 1 <= fst p -> 1 <= fst s ->
  let d := dual_layout p s in
  0 <= d_left_pad d /\ 1 <= d_left_len d /\ 0 <= d_space d /\ 1 <= d_right_len d.
Proof.
  intros p s Hp Hs. unfold dual_layout. cbn [d_left_pad d_left_len d_space d_right_len].
  destruct (fst p <? fst s) eqn:E.
  - pose proof (ulen_pos p). pose proof (ulen_pos s).
    destruct (fst s - 1 - (fst p - 1) - ulen p <? 0) eqn:F; [lia|]. apply Z.ltb_ge in F. lia.
  - pose proof (ulen_pos p). pose proof (ulen_pos s).
    destruct (fst p - 1 - (fst s - 1) - ulen s <? 0) eqn:F; [lia|]. apply Z.ltb_ge in F. lia.
Qed.

Lemma dual_counts_nonneg : forall p s, 1 <= fst p -> 1 <= fst s -> Forall (fun n => 0 <= n) (dual_counts (dual_layout p s)).
Proof.
  intros p s Hp Hs. destruct (dual_nonneg p s Hp Hs) as [A [B [C D]]]. unfold dual_counts.
  repeat constructor; lia.
Qed.

(* when the left underline ends at or before the right label, the right underline starts exactly under its own column *)
Lemma dual_aligned : forall p s, 1 <= fst p -> 1 <= fst s ->
  let d := dual_layout p s in
  let r := if d_left_primary d then s else p in
  d_left_pad d + d_left_len d <= fst r - 1 -> d_left_pad d + d_left_len d + d_space d = fst r - 1.
Proof.
  intros p s Hp Hs. unfold dual_layout. cbn [d_left_primary d_left_pad d_left_len d_space].
  destruct (fst p <? fst s) eqn:E; intro H.
  - destruct (fst s - 1 - (fst p - 1) - ulen p <? 0) eqn:F; [apply Z.ltb_lt in F; lia|lia].
  - destruct (fst p - 1 - (fst s - 1) - ulen s <? 0) eqn:F; [apply Z.ltb_lt in F; lia|lia].
Qed.

(* the seeded variant `rightLength += spaceBetween; spaceBetween = 0` is refuted by a nested pair *)
Definition dual_layout_shrinking (p s : span) : Z :=
  let lp := fst p <? fst s in
  let l := if lp then p else s in let r := if lp then s else p in
  let sb := (fst r - 1) - (fst l - 1) - ulen l in
  if sb <? 0 then ulen r + sb else ulen r.
Lemma shrinking_variant_negative : exists p s, 1 <= fst p /\ 1 <= fst s /\ dual_layout_shrinking p s < 0.
Proof. exists (1, 40), (10, 14). vm_compute. repeat split; discriminate. Qed.
