(* Load/store round trips (alloca; store; load) of both back ends re-establish the representation invariant. *)
From Coq Require Import ZArith List Bool Lia.
From FV Require Import Core.Syntax Core.Sem Proofs.CoreArith Models.Qbe Models.WasmSem Models.ISel
     Proofs.ISelSym Proofs.ISelArith Proofs.ISelShape Proofs.ISelSound.
Import ListNotations.
Local Open Scope Z_scope.

Fixpoint pow256 (n : nat) : Z := match n with O => 1 | S n' => 256 * pow256 n' end.
Lemma pow256_pos n : 0 < pow256 n.
Proof. induction n; cbn [pow256]; lia. Qed.

Lemma load_upd_other : forall n q p x m, p < q -> load_bytes n q (mupd m p x) = load_bytes n q m.
Proof.
  induction n as [|n IH]; intros q p x m Hlt; cbn [load_bytes]; [reflexivity|].
  rewrite IH by lia. unfold mupd. destruct (Z.eqb_spec q p); [lia|reflexivity].
Qed.

Lemma load_store : forall n p v m, load_bytes n p (store_bytes n p v m) = v mod pow256 n.
Proof.
  induction n as [|n IH]; intros p v m; cbn [load_bytes store_bytes pow256]; [rewrite Z.mod_1_r; reflexivity|].
  rewrite load_upd_other by lia. rewrite IH. unfold mupd. rewrite Z.eqb_refl.
  pose proof (pow256_pos n). rewrite Z.rem_mul_r by lia. reflexivity.
Qed.

Ltac closed_consts :=
  repeat match goal with
  | |- context [pow256 ?n] => let c := eval vm_compute in (pow256 n) in change (pow256 n) with c
  | |- context [Z.pow_pos ?a ?b] => let c := eval vm_compute in (Z.pow_pos a b) in change (Z.pow_pos a b) with c
  | |- context [Z.pow ?a ?b] => let c := eval vm_compute in (Z.pow a b) in change (Z.pow a b) with c
  end.

(* what a recognised load makes of the stored canonical register *)
Lemma rt_value v lk ra : canonV v ra -> rt_ld_ok v lk = true -> negb (cls_eqb (vcls v) W && ldk_eqb lk LDl) = true ->
  ld_bytes lk = st_bytes (rt_st v) /\
  ld_val lk (vcls v) (ra mod pow256 (st_bytes (rt_st v))) = Some ra.
Proof.
  intros Hc Hl Hn.
  destruct v as [t|].
  - destruct Hc as [Hr Hw]. destruct t; destruct lk; try discriminate; (split; [reflexivity|]);
      revert Hr Hw; unfold ld_val, sx; cbv [wrap tcls vcls bits signed Z.eqb Pos.eqb cmod cbits];
      closed_consts; intros Hr Hw; f_equal;
      repeat match goal with |- context [if ?a <? ?b then _ else _] => destruct (Z.ltb_spec a b) end;
      Z.div_mod_to_equations; lia.
  - destruct lk; try discriminate. split; [reflexivity|]. destruct Hc as [-> | ->]; reflexivity.
Qed.

Lemma rt_ok_q_inv v f : rt_ok_q v f = true ->
  exists al size lk,
    qbody f = [QAlloc 1 al size; QStore (rt_st v) (Tmp 0) (Tmp 1); QLoad 2 (vcls v) lk (Tmp 1); QRet (Tmp 2)]
    /\ vbytes v <= size /\ rt_ld_ok v lk = true /\ negb (cls_eqb (vcls v) W && ldk_eqb lk LDl) = true.
Proof.
  unfold rt_ok_q. intros H. destruct (qbody f) as [|i1 b] eqn:Eb; [discriminate|].
  repeat match type of H with
         | context [match ?x with _ => _ end] => is_var x; destruct x; try discriminate
         end.
  repeat match type of H with (_ && _ = true) => apply andb_prop in H as [H ?] end.
  repeat match goal with
         | E : Nat.eqb _ _ = true |- _ => apply Nat.eqb_eq in E; subst
         | E : cls_eqb _ _ = true |- _ => apply cls_eqb_eq in E; subst
         | E : (_ <=? _) = true |- _ => apply Z.leb_le in E
         end.
  match goal with E : stk_eqb ?k _ = true |- _ => assert (k = rt_st v) by (destruct k, (rt_st v); try discriminate; reflexivity); subst end.
  do 3 eexists. split; [reflexivity|]. auto.
Qed.

Lemma vbytes_pos v : 1 <= vbytes v.
Proof. destruct v as [[]|]; vm_compute; congruence. Qed.
Lemma rt_st_cls v : st_cls (rt_st v) = vcls v.
Proof. destruct v as [[]|]; reflexivity. Qed.

Theorem rt_q_sound k f : is_rt k = true -> entry_ok_q k f = true -> sound_q k f.
Proof.
  intros Hk H. destruct k as [| | | | |v]; try discriminate. unfold entry_ok_q in H. apply andb_prop in H as [Hsig H].
  destruct (sig_ok_eq _ _ _ Hsig) as [Hps Hret]. cbn [argtys resty map] in Hps, Hret.
  destruct (rt_ok_q_inv v f H) as (al & size & lk & Eb & Hsz & Hl & Hn).
  intros rs HF r0 Hv m sp. cbn [argtys] in HF. inversion HF as [|? ra ? ? Ha HF1]; subst. inversion HF1; subst.
  cbn [argtys denotes ref resty] in Hv |- *. inversion Hv; subst r0.
  destruct (rt_value v lk ra Ha Hl Hn) as [Hlb Hval].
  exists ra. split; [|split; [exact Ha|reflexivity]].
  unfold qexec. rewrite Hps, Hret, Eb. cbn [qinit qrun q_env q_mem q_sp].
  pose proof (vbytes_pos v). destruct (Z.leb_spec 0 size); [|lia].
  cbn [q_env q_mem q_sp fetch qlookup Nat.eqb]. rewrite rt_st_cls.
  destruct (vcls v) eqn:Cv; cbn [qbind q_env q_mem q_sp fetch qlookup Nat.eqb];
    rewrite Hlb, load_store, Hval; cbn [qbind q_env q_mem q_sp fetch qlookup Nat.eqb]; reflexivity.
Qed.

(* ------------------------------------------------------------------ wasm *)

Lemma rt_ok_w_inv v f : rt_ok_w v f = true ->
  exists size lk,
    wlocals f = [W; W; W; vcls v] /\
    wbody f = [WConst L size; WAlloc; WSet 3; WGet 3; WGet 0; WStore (vcls v) (rt_st v); WGet 3; WLoad (vcls v) lk;
               WSet 4; WGet 4; WReturn]
    /\ rt_ld_ok v lk = true /\ wld_ok (vcls v) lk = true.
Proof.
  unfold rt_ok_w. intros H. apply andb_prop in H as [Hl H]. apply cls_list_eqb_eq in Hl.
  destruct (wbody f) as [|i1 b] eqn:Eb; [discriminate|].
  repeat match type of H with
         | context [match ?x with _ => _ end] => is_var x; destruct x; try discriminate
         end.
  repeat match type of H with (_ && _ = true) => apply andb_prop in H as [H ?] end.
  repeat match goal with
         | E : cls_eqb _ _ = true |- _ => apply cls_eqb_eq in E; subst
         end.
  match goal with E : stk_eqb ?k _ = true |- _ => assert (k = rt_st v) by (destruct k, (rt_st v); try discriminate; reflexivity); subst end.
  do 2 eexists. split; [exact Hl|]. split; [reflexivity|]. auto.
Qed.

Lemma wst_ok_rt v : wst_ok (vcls v) (rt_st v) = true.
Proof. destruct v as [[]|]; reflexivity. Qed.
Lemma wld_not_l v lk : wld_ok (vcls v) lk = true -> negb (cls_eqb (vcls v) W && ldk_eqb lk LDl) = true.
Proof. destruct (vcls v), lk; cbn; congruence. Qed.

Theorem rt_w_sound k f : is_rt k = true -> entry_ok_w k f = true -> sound_w k f.
Proof.
  intros Hk H. destruct k as [| | | | |v]; try discriminate. unfold entry_ok_w in H. apply andb_prop in H as [Hsig H].
  destruct (sig_ok_eq _ _ _ Hsig) as [Hps Hret]. cbn [argtys resty map] in Hps, Hret.
  destruct (rt_ok_w_inv v f H) as (size & lk & Hloc & Eb & Hl & Hwl).
  intros rs HF r0 Hv m brk. cbn [argtys] in HF. inversion HF as [|? ra ? ? Ha HF1]; subst. inversion HF1; subst.
  cbn [argtys denotes ref resty] in Hv |- *. inversion Hv; subst r0.
  destruct (rt_value v lk ra Ha Hl (wld_not_l v lk Hwl)) as [Hlb Hval].
  exists ra. split; [|split; [exact Ha|reflexivity]].
  unfold wexec. rewrite Hps, Hret, Eb, Hloc. cbn [length Nat.eqb combine map app].
  repeat first [ rewrite cls_eqb_refl | rewrite wst_ok_rt | rewrite Hwl | rewrite Hlb, load_store, Hval
               | progress cbn [wrun w_stack w_locals w_mem w_brk wpush nth_error set_nth andb] ].
  reflexivity.
Qed.
