(* C15 — the concurrent parse phase (Models/ImportSched.v): under EVERY interleaving there is no deadlock, every
   reachable module is parsed exactly once, and a circular-import error is reported iff the reachable import graph
   is cyclic. *)
From Coq Require Import List Arith Bool Lia Permutation.
Import ListNotations.
From FV Require Import Models.DepGraph Models.ImportSched Proofs.DepGraphP Proofs.DepGraphRun.

Definition edge_dec : forall a b : node * node, {a = b} + {a <> b}.
Proof. decide equality; apply Nat.eq_dec. Defined.

Definition cnt (l : list (node * node)) (x : node * node) : nat := count_occ edge_dec l x.

Lemma cnt_app l1 l2 x : cnt (l1 ++ l2) x = cnt l1 x + cnt l2 x.
Proof. apply count_occ_app. Qed.

Lemma cnt_cons a l x : cnt (a :: l) x = (if edge_dec a x then 1 else 0) + cnt l x.
Proof. unfold cnt. simpl. destruct (edge_dec a x); reflexivity. Qed.

Definition pend (t : task) : list (node * node) :=
  match t with TAdd m rest => map (fun d => (m, d)) rest | TSpawn _ _ => [] end.

Definition owner (t : task) : node := match t with TAdd m _ | TSpawn m _ => m end.

Definition waiting (m d : node) (t : task) : Prop :=
  match t with TAdd m' _ => m' = m | TSpawn m' rest => m' = m /\ In d rest end.

Definition task_ok (P : project) (t : task) : Prop :=
  match t with TSpawn m rest => incl rest (P m) | TAdd _ _ => True end.

Record inv (P : project) (e : node) (s : state) : Prop := {
  i_run : run [] (st_calls s) = (st_g s, st_res s);
  i_cnt : forall x, cnt (st_calls s) x + cnt (flat_map pend (st_tasks s)) x = cnt (edges_of P (st_seen s)) x;
  i_nodup : NoDup (st_seen s);
  i_reach : forall m, In m (st_seen s) -> reachP P e m;
  i_entry : In e (st_seen s);
  i_close : forall m d, In m (st_seen s) -> In d (P m) ->
              In d (st_seen s) \/ exists t, In t (st_tasks s) /\ waiting m d t;
  i_own : forall t, In t (st_tasks s) -> In (owner t) (st_seen s) /\ task_ok P t
}.

Lemma run_snoc calls : forall g u v,
  run g (calls ++ [(u, v)]) =
  (fst (add_dependency (fst (run g calls)) u v),
   snd (run g calls) ++ [snd (add_dependency (fst (run g calls)) u v)]).
Proof.
  induction calls as [|[a b] cs IH]; intros g u v.
  - simpl. destruct (add_dependency g u v); reflexivity.
  - change (((a, b) :: cs) ++ [(u, v)]) with ((a, b) :: (cs ++ [(u, v)])).
    rewrite !run_cons. cbn [fst snd]. rewrite IH. reflexivity.
Qed.

Lemma in_mid {A} (x a : A) t1 t2 : In x (t1 ++ a :: t2) <-> x = a \/ In x (t1 ++ t2).
Proof. rewrite !in_app_iff. simpl. split; intros H; intuition. Qed.

Lemma cnt_mid (f : task -> list (node * node)) t1 a t2 x :
  cnt (flat_map f (t1 ++ a :: t2)) x = cnt (f a) x + cnt (flat_map f (t1 ++ t2)) x.
Proof. rewrite !flat_map_app. simpl. rewrite !cnt_app. lia. Qed.

Lemma inv_init P e : inv P e (init P e).
Proof.
  constructor; simpl.
  - reflexivity.
  - intros x. reflexivity.
  - constructor; [intros [] | constructor].
  - intros m [<-|[]]. apply reachP_refl.
  - left. reflexivity.
  - intros m d [<-|[]] Hd. right. exists (TAdd e (P e)). split; [left; reflexivity | reflexivity].
  - intros t [<-|[]]. simpl. split; [left; reflexivity | exact I].
Qed.

Lemma inv_step P e s s' : inv P e s -> step P s s' -> inv P e s'.
Proof.
  intros [Ir Ic In_ Ire Ie Icl Io] Hs. destruct Hs; simpl in *.
  - (* S_add *)
    constructor; simpl.
    + rewrite run_snoc, Ir. reflexivity.
    + intros x. specialize (Ic x). rewrite cnt_mid in *. simpl pend in *. rewrite cnt_cons in Ic.
      rewrite cnt_app, cnt_cons. change (cnt [] x) with 0. destruct (edge_dec (m, d) x); lia.
    + exact In_.
    + exact Ire.
    + exact Ie.
    + intros m0 d0 Hm Hd. destruct (Icl m0 d0 Hm Hd) as [H|(t & Ht & Hw)]; [left; exact H|right].
      apply in_mid in Ht. destruct Ht as [->|Ht].
      * exists (TAdd m ds). split; [apply in_mid; left; reflexivity | exact Hw].
      * exists t. split; [apply in_mid; right; exact Ht | exact Hw].
    + intros t Ht. apply in_mid in Ht. destruct Ht as [->|Ht].
      * destruct (Io (TAdd m (d :: ds))) as [H1 _]; [apply in_mid; left; reflexivity|]. split; [exact H1 | exact I].
      * apply Io. apply in_mid. right. exact Ht.
  - (* S_add_done *)
    constructor; simpl.
    + exact Ir.
    + intros x. specialize (Ic x). rewrite cnt_mid in *. exact Ic.
    + exact In_.
    + exact Ire.
    + exact Ie.
    + intros m0 d0 Hm Hd. destruct (Icl m0 d0 Hm Hd) as [H|(t & Ht & Hw)]; [left; exact H|right].
      apply in_mid in Ht. destruct Ht as [->|Ht].
      * simpl in Hw. subst m0. exists (TSpawn m (P m)). split; [apply in_mid; left; reflexivity | split; [reflexivity | exact Hd]].
      * exists t. split; [apply in_mid; right; exact Ht | exact Hw].
    + intros t Ht. apply in_mid in Ht. destruct Ht as [->|Ht].
      * destruct (Io (TAdd m [])) as [H1 _]; [apply in_mid; left; reflexivity|].
        split; [exact H1 | apply incl_refl].
      * apply Io. apply in_mid. right. exact Ht.
  - (* S_spawn_seen *)
    constructor; simpl.
    + exact Ir.
    + intros x. specialize (Ic x). rewrite cnt_mid in *. exact Ic.
    + exact In_.
    + exact Ire.
    + exact Ie.
    + intros m0 d0 Hm Hd. destruct (Icl m0 d0 Hm Hd) as [H0|(t & Ht & Hw)]; [left; exact H0|].
      apply in_mid in Ht. destruct Ht as [->|Ht].
      * simpl in Hw. destruct Hw as [-> [<-|Hin]].
        -- left. apply mem_In. exact H.
        -- right. exists (TSpawn m0 ds). split; [apply in_mid; left; reflexivity | split; [reflexivity | exact Hin]].
      * right. exists t. split; [apply in_mid; right; exact Ht | exact Hw].
    + intros t Ht. apply in_mid in Ht. destruct Ht as [->|Ht].
      * destruct (Io (TSpawn m (d :: ds))) as [H1 H2]; [apply in_mid; left; reflexivity|].
        split; [exact H1|]. simpl in *. intros z Hz. apply H2. right. exact Hz.
      * apply Io. apply in_mid. right. exact Ht.
  - (* S_spawn_new *)
    assert (Hown : In m seen /\ incl (d :: ds) (P m)).
    { destruct (Io (TSpawn m (d :: ds))) as [H1 H2]; [apply in_mid; left; reflexivity|]. split; assumption. }
    destruct Hown as [Hms Hincl].
    constructor; simpl.
    + exact Ir.
    + intros x. specialize (Ic x). rewrite cnt_mid in *. simpl pend in *.
      rewrite app_assoc, flat_map_app, cnt_app. simpl. rewrite app_nil_r.
      unfold edges_of in *. simpl. rewrite cnt_app. change (cnt [] x) with 0 in Ic. lia.
    + constructor; [apply mem_false; exact H | exact In_].
    + intros m0 [<-|Hm0]; [|apply Ire; exact Hm0].
      eapply reachP_step; [apply Ire; exact Hms | apply Hincl; left; reflexivity].
    + right. exact Ie.
    + intros m0 d0 [<-|Hm] Hd.
      * right. exists (TAdd d (P d)). split; [|reflexivity].
        apply in_mid. right. rewrite app_assoc. apply in_or_app. right. left. reflexivity.
      * destruct (Icl m0 d0 Hm Hd) as [H0|(t & Ht & Hw)]; [left; right; exact H0|].
        apply in_mid in Ht. destruct Ht as [->|Ht].
        -- simpl in Hw. destruct Hw as [-> [<-|Hin]].
           ++ left. left. reflexivity.
           ++ right. exists (TSpawn m0 ds). split; [apply in_mid; left; reflexivity | split; [reflexivity | exact Hin]].
        -- right. exists t. split; [|exact Hw]. apply in_mid. right. rewrite app_assoc. apply in_or_app. left. exact Ht.
    + intros t Ht. apply in_mid in Ht. destruct Ht as [->|Ht].
      * simpl. split; [right; exact Hms | intros z Hz; apply Hincl; right; exact Hz].
      * rewrite app_assoc in Ht. apply in_app_or in Ht. destruct Ht as [Ht | [<- | []]].
        -- destruct (Io t) as [H1 H2]; [apply in_mid; right; exact Ht|]. split; [right; exact H1 | exact H2].
        -- simpl. split; [left; reflexivity | exact I].
  - (* S_exit *)
    constructor; simpl.
    + exact Ir.
    + intros x. specialize (Ic x). rewrite cnt_mid in Ic. exact Ic.
    + exact In_.
    + exact Ire.
    + exact Ie.
    + intros m0 d0 Hm Hd. destruct (Icl m0 d0 Hm Hd) as [H0|(t & Ht & Hw)]; [left; exact H0|].
      apply in_mid in Ht. destruct Ht as [->|Ht].
      * simpl in Hw. destruct Hw as [_ []].
      * right. exists t. split; assumption.
    + intros t Ht. apply Io. apply in_mid. right. exact Ht.
Qed.

Lemma inv_steps P e s s' : inv P e s -> steps P s s' -> inv P e s'.
Proof. intros Hi Hs. induction Hs; [exact Hi|]. apply IHHs. eapply inv_step; eauto. Qed.

(* ------------------------------------------------------------------ no deadlock *)

Theorem progress P s : st_tasks s <> [] -> exists s', step P s s'.
Proof.
  destruct s as [g res calls seen tasks]. simpl. intros Hne.
  destruct tasks as [|t ts]; [congruence|].
  destruct t as [m [|d ds] | m [|d ds]].
  - eexists. apply (S_add_done P g res calls seen [] ts m).
  - eexists. apply (S_add P g res calls seen [] ts m d ds).
  - eexists. apply (S_exit P g res calls seen [] ts m).
  - destruct (mem d seen) eqn:E.
    + eexists. apply (S_spawn_seen P g res calls seen [] ts m d ds E).
    + eexists. apply (S_spawn_new P g res calls seen [] ts m d ds E).
Qed.

(* ------------------------------------------------------------------ the terminal state *)

Theorem terminal_spec P e s :
  steps P (init P e) s -> terminal s ->
  (* every module reachable from the entry file is parsed, exactly once, and nothing else *)
  NoDup (st_seen s) /\ (forall m, In m (st_seen s) <-> reachP P e m) /\
  (* every import statement of a parsed module was submitted to AddDependency exactly once *)
  Permutation (edges_of P (st_seen s)) (st_calls s) /\
  run [] (st_calls s) = (st_g s, st_res s).
Proof.
  intros Hs Ht. pose proof (inv_steps P e _ _ (inv_init P e) Hs) as [Ir Ic In_ Ire Ie Icl Io].
  unfold terminal in Ht. rewrite Ht in *. split; [exact In_|]. split; [|split; [|exact Ir]].
  - intros m. split; [apply Ire|]. intros Hr.
    assert (Hcl : forall a b, In a (st_seen s) -> In b (P a) -> In b (st_seen s)).
    { intros a b Ha Hb. destruct (Icl a b Ha Hb) as [H|(t & [] & _)]. exact H. }
    clear - Hr Ie Hcl. induction Hr as [|x y z Hxy IH Hz]; [exact Ie|].
    apply (Hcl y z); [apply IH; assumption | exact Hz].
  - apply (Permutation_count_occ edge_dec). intros x. specialize (Ic x). simpl in Ic. unfold cnt in Ic. lia.
Qed.

Theorem verdict P e s :
  steps P (init P e) s -> terminal s ->
  (cyclic (edges_of P (st_seen s)) -> existsb is_err (st_res s) = true) /\
  (acyclic (edges_of P (st_seen s)) ->
     existsb is_err (st_res s) = false /\ forall x, In x (st_g s) <-> In x (edges_of P (st_seen s))).
Proof.
  intros Hs Ht. destruct (terminal_spec P e s Hs Ht) as (_ & _ & Hp & Hr).
  split.
  - intros Hc. pose proof (cycle_rejected _ _ Hp Hc) as H. rewrite Hr in H. exact H.
  - intros Ha. destruct (dag_accepted _ _ Hp Ha) as (H1 & H2 & _). rewrite Hr in *. split; assumption.
Qed.

(* ------------------------------------------------------------------ every schedule is finite (no livelock) *)

Definition tw (P : project) (t : task) : nat :=
  match t with TAdd m rest => length rest + length (P m) + 2 | TSpawn _ rest => length rest + 1 end.

Fixpoint wsum (P : project) (ts : list task) : nat :=
  match ts with [] => 0 | t :: ts' => tw P t + wsum P ts' end.

Lemma wsum_app P a b : wsum P (a ++ b) = wsum P a + wsum P b.
Proof. induction a as [|t a IH]; simpl; [reflexivity|]. rewrite IH. lia. Qed.

Fixpoint pot (P : project) (U seen : list node) : nat :=
  match U with
  | [] => 0
  | a :: U' => (if mem a seen then 0 else 2 * length (P a) + 2) + pot P U' seen
  end.

Lemma pot_le P U d seen : pot P U (d :: seen) <= pot P U seen.
Proof.
  induction U as [|a U IH]; simpl; [lia|].
  destruct (Nat.eqb a d); simpl; destruct (mem a seen); lia.
Qed.

Lemma pot_dec P U d seen :
  In d U -> mem d seen = false -> pot P U (d :: seen) + (2 * length (P d) + 2) <= pot P U seen.
Proof.
  intros Hin Hm. induction U as [|a U IH]; [destruct Hin|]. simpl.
  destruct (Nat.eqb_spec a d) as [->|Hne].
  - rewrite Hm. simpl. pose proof (pot_le P U d seen). lia.
  - destruct Hin as [->|Hin]; [congruence|]. specialize (IH Hin). simpl. destruct (mem a seen); lia.
Qed.

Definition mu (P : project) (U : list node) (s : state) : nat := wsum P (st_tasks s) + pot P U (st_seen s).

Lemma reachP_in_U P U e m : In e U -> (forall a, In a U -> incl (P a) U) -> reachP P e m -> In m U.
Proof.
  intros He Hc. induction 1 as [|x y z Hxy IH Hz]; [exact He|]. apply (Hc y); [apply IH; exact He | exact Hz].
Qed.

Lemma step_mu P U e s s' :
  In e U -> (forall a, In a U -> incl (P a) U) ->
  inv P e s -> step P s s' -> mu P U s' < mu P U s.
Proof.
  intros He Hc Hi Hs. unfold mu. destruct Hs; simpl; rewrite ?wsum_app; simpl; try lia.
  - (* spawn_new *)
    assert (HdU : In d U).
    { destruct (i_own _ _ _ Hi (TSpawn m (d :: ds))) as [H1 H2]; [simpl; apply in_or_app; right; left; reflexivity|].
      simpl in H1, H2. apply (Hc m); [|apply H2; left; reflexivity].
      eapply reachP_in_U; eauto. apply (i_reach _ _ _ Hi). exact H1. }
    pose proof (pot_dec P U d seen HdU H). rewrite wsum_app. simpl. lia.
Qed.

Theorem schedules_finite P U e :
  In e U -> (forall a, In a U -> incl (P a) U) ->
  forall n s, nsteps P n (init P e) s -> n <= mu P U (init P e).
Proof.
  intros He Hc.
  assert (H : forall n s1 s2, inv P e s1 -> nsteps P n s1 s2 -> n + mu P U s2 <= mu P U s1).
  { intros n s1 s2 Hi Hn. induction Hn as [|n s1 s2 s3 Hs Hn IH]; [lia|].
    pose proof (step_mu P U e s1 s2 He Hc Hi Hs). specialize (IH (inv_step _ _ _ _ Hi Hs)). lia. }
  intros n s Hn. specialize (H n _ _ (inv_init P e) Hn). lia.
Qed.

(* every schedule can be completed: a terminal state is reachable from every reachable state *)
Theorem terminal_reachable P U e :
  In e U -> (forall a, In a U -> incl (P a) U) ->
  forall s, steps P (init P e) s -> exists s', steps P s s' /\ terminal s'.
Proof.
  intros He Hc s Hs. pose proof (inv_steps P e _ _ (inv_init P e) Hs) as Hi. clear Hs.
  remember (mu P U s) as k eqn:Hk. assert (Hle : mu P U s <= k) by lia. clear Hk.
  revert s Hi Hle. induction k as [|k IH]; intros s Hi Hle.
  - destruct (st_tasks s) as [|t ts] eqn:E; [exists s; split; [apply steps_refl | exact E]|].
    exfalso. destruct (progress P s) as [s' Hs']; [rewrite E; discriminate|].
    pose proof (step_mu P U e s s' He Hc Hi Hs'). lia.
  - destruct (st_tasks s) as [|t ts] eqn:E; [exists s; split; [apply steps_refl | exact E]|].
    destruct (progress P s) as [s' Hs']; [rewrite E; discriminate|].
    pose proof (step_mu P U e s s' He Hc Hi Hs') as Hlt.
    destruct (IH s' (inv_step _ _ _ _ Hi Hs')) as (s'' & Hss & Ht); [lia|].
    exists s''. split; [eapply steps_cons; eauto | exact Ht].
Qed.

(* concrete: the two-module cycle 0 <-> 1 and the diamond 0 -> {1,2} -> 3, as closed projects *)
Definition proj_cycle2 : project := fun m => match m with 0 => [1] | 1 => [0] | _ => [] end.
Definition proj_diamond : project := fun m => match m with 0 => [1; 2] | 1 => [3] | 2 => [3] | _ => [] end.

Lemma examples_closed :
  (In 0 [0; 1] /\ forall a, In a [0; 1] -> incl (proj_cycle2 a) [0; 1]) /\
  (In 0 [0; 1; 2; 3] /\ forall a, In a [0; 1; 2; 3] -> incl (proj_diamond a) [0; 1; 2; 3]) /\
  cyclic (edges_of proj_cycle2 [0; 1]) /\ acyclic (edges_of proj_diamond [0; 1; 2; 3]).
Proof.
  split; [|split; [|split]].
  - split; [left; reflexivity|]. intros a [<-|[<-|[]]] x [<-|[]]; simpl; auto.
  - split; [left; reflexivity|]. intros a [<-|[<-|[<-|[<-|[]]]]] x Hx; simpl in Hx; simpl; intuition.
  - apply cyclic_b_iff. vm_compute. reflexivity.
  - intros Hc. apply cyclic_b_iff in Hc. vm_compute in Hc. discriminate.
Qed.

(* ------------------------------------------------------------------ import lists are lists with repetition:
   only the SET of targets of each module matters — not multiplicity, not order *)

Definition same_imports (P Q : project) : Prop := forall m d, In d (P m) <-> In d (Q m).

Lemma cyclic_set_eq g h : (forall e, In e g <-> In e h) -> (cyclic g <-> cyclic h).
Proof. intros H. split; apply cyclic_incl; intros e He; apply H; exact He. Qed.

Lemma cyclic_nodup (g : graph) : cyclic g <-> cyclic (nodup edge_dec g).
Proof. apply cyclic_set_eq. intros e. symmetry. apply nodup_In. Qed.

Lemma edges_of_In P ms a b : In (a, b) (edges_of P ms) <-> In a ms /\ In b (P a).
Proof.
  unfold edges_of. rewrite in_flat_map. split.
  - intros (m & Hm & Hin). apply in_map_iff in Hin. destruct Hin as (d & Heq & Hd). inversion Heq; subst. split; assumption.
  - intros [Ha Hb]. exists a. split; [exact Ha|]. apply in_map_iff. exists b. split; [reflexivity | exact Hb].
Qed.

Lemma edges_of_ext P Q ms ms' :
  same_imports P Q -> (forall m, In m ms <-> In m ms') ->
  forall e, In e (edges_of P ms) <-> In e (edges_of Q ms').
Proof.
  intros HPQ Hms [a b]. rewrite !edges_of_In. rewrite (HPQ a b), (Hms a). reflexivity.
Qed.

Lemma reachP_ext P Q e m : same_imports P Q -> reachP P e m -> reachP Q e m.
Proof.
  intros H. induction 1 as [|x y z Hxy IH Hz]; [apply reachP_refl|].
  eapply reachP_step; [exact IH | apply H; exact Hz].
Qed.

(* the dependency relation of a project equals that of its de-duplicated import lists *)
Theorem dedup_same_relation P ms :
  same_imports P (fun m => nodup Nat.eq_dec (P m)) /\
  (forall e, In e (edges_of P ms) <-> In e (edges_of (fun m => nodup Nat.eq_dec (P m)) ms)) /\
  (cyclic (edges_of P ms) <-> cyclic (edges_of (fun m => nodup Nat.eq_dec (P m)) ms)).
Proof.
  assert (H : same_imports P (fun m => nodup Nat.eq_dec (P m))).
  { intros m d. symmetry. apply nodup_In. }
  split; [exact H|]. split.
  - apply edges_of_ext; [exact H | intros m; reflexivity].
  - apply cyclic_set_eq. apply edges_of_ext; [exact H | intros m; reflexivity].
Qed.

(* two projects whose modules import the same SETS (any multiplicity, any order) parse the same modules and get the
   same verdict, under any two schedules *)
Theorem verdict_multiplicity_order_independent P Q e s s' :
  same_imports P Q ->
  steps P (init P e) s -> terminal s -> steps Q (init Q e) s' -> terminal s' ->
  (forall m, In m (st_seen s) <-> In m (st_seen s')) /\
  existsb is_err (st_res s) = existsb is_err (st_res s').
Proof.
  intros HPQ Hs Ht Hs' Ht'.
  destruct (terminal_spec P e s Hs Ht) as (_ & Hseen & _ & _).
  destruct (terminal_spec Q e s' Hs' Ht') as (_ & Hseen' & _ & _).
  assert (Hsame : forall m, In m (st_seen s) <-> In m (st_seen s')).
  { intros m. rewrite Hseen, Hseen'. split; apply reachP_ext; [exact HPQ|]. intros a b. symmetry. apply HPQ. }
  split; [exact Hsame|].
  destruct (verdict P e s Hs Ht) as [Vc Va]. destruct (verdict Q e s' Hs' Ht') as [Vc' Va'].
  assert (Hcy : cyclic (edges_of P (st_seen s)) <-> cyclic (edges_of Q (st_seen s'))).
  { apply cyclic_set_eq. apply edges_of_ext; assumption. }
  destruct (cyclic_b (edges_of P (st_seen s))) eqn:Eb.
  - apply cyclic_b_iff in Eb. rewrite (Vc Eb), (Vc' (proj1 Hcy Eb)). reflexivity.
  - assert (Hna : acyclic (edges_of P (st_seen s))).
    { intros Hc. apply cyclic_b_iff in Hc. congruence. }
    assert (Hna' : acyclic (edges_of Q (st_seen s'))) by (intros Hc; apply Hna; apply Hcy; exact Hc).
    rewrite (proj1 (Va Hna)), (proj1 (Va' Hna')). reflexivity.
Qed.
