(* C17 — the ported dynamic array (Models/ArrayRt.v) refines `list`, for every operation history, and never touches a
   slot outside its heap block. *)
From Coq Require Import ZArith List Bool Lia.
From FV Require Import Models.ArrayRt.
Import ListNotations.
Open Scope Z_scope.

Section ArrayProofs.
Variable E : Type.
Variable junk : E.

Notation arr_t := (arr_t E).
Notation arr_new := (arr_new E junk).
Notation arr_append := (arr_append E junk).
Notation arr_get := (arr_get E).
Notation arr_set := (arr_set E).
Notation astep := (astep E junk).
Notation arun := (arun E junk).

(* ---- the abstract list and the representation invariant *)
Definition abs (a : arr_t) : list E := firstn (Z.to_nat (alen a)) (adata a).
Definition ainv (a : arr_t) : Prop :=
  length (adata a) = Z.to_nat (acap a) /\ 0 <= alen a <= acap a /\ 4 <= acap a.

(* ---- the specification: plain lists *)
Definition in_range (l : list E) (i : Z) : bool := negb ((i <? 0) || (i >=? Z.of_nat (length l))).
Definition list_set (l : list E) (i : nat) (x : E) : list E := firstn i l ++ x :: skipn (S i) l.

Definition spec_astep (l : list E) (o : aop E) : list E * ares E :=
  match o with
  | ANew _ => ([], AUnit)
  | AAppend x => (l ++ [x], ADone)
  | AGet i => (l, if in_range l i then match nth_error l (Z.to_nat i) with Some x => AVal x | None => ARefused end
                  else ARefused)
  | ASet i x => if in_range l i then (list_set l (Z.to_nat i) x, ADone) else (l, ARefused)
  | ALen => (l, ALength (Z.of_nat (length l)))
  end.
Fixpoint spec_arun (l : list E) (ops : list (aop E)) : list (ares E) :=
  match ops with
  | [] => []
  | o :: t => let '(l', r) := spec_astep l o in r :: spec_arun l' t
  end.

(* ---- heap block access *)
Lemma wr_nat_spec : forall (d : list E) i x, (i < length d)%nat ->
  wr_nat E d i x = Some (list_set d i x).
Proof.
  induction d as [|y d IH]; intros i x H; simpl in H; [lia|].
  destruct i as [|i]; simpl; [reflexivity|].
  rewrite IH by lia. reflexivity.
Qed.

Lemma list_set_length : forall (d : list E) i x, (i < length d)%nat -> length (list_set d i x) = length d.
Proof.
  intros d i x H. unfold list_set. rewrite app_length. cbn [length]. rewrite firstn_length, skipn_length. lia.
Qed.

Lemma firstn_list_set_lt : forall (d : list E) i n x, (i < n)%nat -> (n <= length d)%nat ->
  firstn n (list_set d i x) = list_set (firstn n d) i x.
Proof.
  induction d as [|y d IH]; intros i n x H1 H2; simpl in H2; [lia|].
  destruct n as [|n]; [lia|]. destruct i as [|i].
  - unfold list_set. simpl. reflexivity.
  - unfold list_set in *. simpl. f_equal. apply IH; lia.
Qed.

Lemma firstn_list_set_eq : forall (d : list E) n x, (n < length d)%nat ->
  firstn (S n) (list_set d n x) = firstn n d ++ [x].
Proof.
  induction d as [|y d IH]; intros n x H; simpl in H; [lia|].
  destruct n as [|n].
  - reflexivity.
  - unfold list_set in *. simpl. f_equal. apply IH. lia.
Qed.

Lemma abs_length : forall a, ainv a -> Z.of_nat (length (abs a)) = alen a.
Proof.
  intros a (H1 & H2 & H3). unfold abs. rewrite firstn_length. lia.
Qed.

(* ---- operations *)
Lemma new_inv : forall c, ainv (arr_new c) /\ abs (arr_new c) = [].
Proof.
  intros c. unfold arr_new, ainv, abs, min_capacity.
  destruct (c <? 4) eqn:Hc; cbn [adata alen acap];
    (split; [split; [apply repeat_length | lia] | reflexivity]).
Qed.

Lemma realloc_grow : forall (d : list E) nc, (length d <= Z.to_nat nc)%nat ->
  realloc E junk d nc = d ++ repeat junk (Z.to_nat nc - length d).
Proof.
  intros d nc H. unfold realloc. rewrite firstn_all2 by lia. reflexivity.
Qed.

Lemma append_spec : forall a x, ainv a ->
  exists a', arr_append a x = Some a' /\ ainv a' /\ abs a' = abs a ++ [x].
Proof.
  intros a x (H1 & H2 & H3). unfold arr_append, growth, min_capacity.
  destruct (alen a >=? acap a) eqn:Hg.
  - assert (Hl : alen a = acap a) by lia.
    replace (acap a * 2 <? 4) with false by lia. cbn [adata alen acap].
    rewrite realloc_grow by lia.
    unfold wr. replace (alen a <? 0) with false by lia.
    rewrite wr_nat_spec by (rewrite app_length, repeat_length; lia).
    eexists. split; [reflexivity|]. split.
    + unfold ainv. cbn [adata alen acap]. rewrite list_set_length by (rewrite app_length, repeat_length; lia).
      rewrite app_length, repeat_length. lia.
    + unfold abs. cbn [adata alen acap].
      replace (Z.to_nat (alen a + 1)) with (S (Z.to_nat (alen a))) by lia.
      rewrite firstn_list_set_eq by (rewrite app_length, repeat_length; lia).
      f_equal. rewrite firstn_app. replace (Z.to_nat (alen a) - length (adata a))%nat with 0%nat by lia.
      simpl. rewrite app_nil_r. reflexivity.
  - unfold wr. replace (alen a <? 0) with false by lia.
    rewrite wr_nat_spec by lia.
    eexists. split; [reflexivity|]. split.
    + unfold ainv. cbn [adata alen acap]. rewrite list_set_length by lia. lia.
    + unfold abs. cbn [adata alen acap].
      replace (Z.to_nat (alen a + 1)) with (S (Z.to_nat (alen a))) by lia.
      apply firstn_list_set_eq. lia.
Qed.

Lemma nth_error_firstn_lt : forall (d : list E) n i, (i < n)%nat -> nth_error (firstn n d) i = nth_error d i.
Proof.
  induction d as [|y d IH]; intros n i H.
  - rewrite firstn_nil. reflexivity.
  - destruct n as [|n]; [lia|]. destruct i as [|i]; simpl; [reflexivity|]. apply IH. lia.
Qed.

Lemma get_spec : forall a i, ainv a ->
  arr_get a i = if in_range (abs a) i
                then match nth_error (abs a) (Z.to_nat i) with Some x => Ok x | None => Refused end
                else Refused.
Proof.
  intros a i Hinv. pose proof (abs_length a Hinv) as Hlen. destruct Hinv as (H1 & H2 & H3).
  unfold arr_get, in_range. rewrite Hlen.
  destruct ((i <? 0) || (i >=? alen a)) eqn:Hr; simpl; [reflexivity|].
  apply orb_false_iff in Hr. destruct Hr as [Hr1 Hr2].
  unfold rd. rewrite Hr1. unfold abs. rewrite nth_error_firstn_lt by lia.
  destruct (nth_error (adata a) (Z.to_nat i)) eqn:Hn; [reflexivity|].
  apply nth_error_None in Hn. lia.
Qed.

Lemma set_spec : forall a i x, ainv a ->
  if in_range (abs a) i
  then exists a', arr_set a i x = Ok a' /\ ainv a' /\ abs a' = list_set (abs a) (Z.to_nat i) x
  else arr_set a i x = Refused.
Proof.
  intros a i x Hinv. pose proof (abs_length a Hinv) as Hlen. destruct Hinv as (H1 & H2 & H3).
  unfold arr_set, in_range. rewrite Hlen.
  destruct ((i <? 0) || (i >=? alen a)) eqn:Hr; simpl; [reflexivity|].
  apply orb_false_iff in Hr. destruct Hr as [Hr1 Hr2].
  unfold wr. rewrite Hr1. rewrite wr_nat_spec by lia.
  eexists. split; [reflexivity|]. split.
  - unfold ainv. cbn [adata alen acap]. rewrite list_set_length by lia. lia.
  - unfold abs. cbn [adata alen acap]. apply firstn_list_set_lt; lia.
Qed.

(* ---- one step, then every history *)
Lemma astep_refines : forall a o, ainv a \/ (exists c, o = ANew c) ->
  ainv (fst (astep a o)) /\
  abs (fst (astep a o)) = fst (spec_astep (abs a) o) /\
  snd (astep a o) = snd (spec_astep (abs a) o).
Proof.
  intros a o H. destruct o as [c|x|i|i x|].
  - simpl. destruct (new_inv c) as [Hi Ha]. rewrite Ha. auto.
  - destruct H as [H|[c Hc]]; [|discriminate].
    destruct (append_spec a x H) as (a' & He & Hi & Ha). simpl. rewrite He. simpl. auto.
  - destruct H as [H|[c Hc]]; [|discriminate].
    simpl. rewrite (get_spec a i H). split; [assumption|]. split; [reflexivity|].
    destruct (in_range (abs a) i); [|reflexivity].
    destruct (nth_error (abs a) (Z.to_nat i)); reflexivity.
  - destruct H as [H|[c Hc]]; [|discriminate].
    pose proof (set_spec a i x H) as Hs. simpl.
    destruct (in_range (abs a) i).
    + destruct Hs as (a' & He & Hi & Ha). rewrite He. simpl. auto.
    + rewrite Hs. simpl. auto.
  - destruct H as [H|[c Hc]]; [|discriminate].
    simpl. rewrite (abs_length a H). auto.
Qed.

Lemma arun_refines : forall ops a, ainv a -> arun a ops = spec_arun (abs a) ops.
Proof.
  induction ops as [|o ops IH]; intros a H; [reflexivity|].
  destruct (astep_refines a o (or_introl H)) as (Hi & Ha & Hr).
  simpl. destruct (astep a o) as [a' r] eqn:Hs. destruct (spec_astep (abs a) o) as [l' r'] eqn:Hp.
  simpl in *. subst. f_equal. apply IH. assumption.
Qed.

(* a history starts with `new` (whatever the previous contents of the variable) *)
Theorem arr_refines : forall a0 c ops, arun a0 (ANew c :: ops) = spec_arun [] (ANew c :: ops).
Proof.
  intros a0 c ops. simpl. f_equal. destruct (new_inv c) as [Hi Ha].
  rewrite (arun_refines ops _ Hi). rewrite Ha. reflexivity.
Qed.

Lemma spec_no_oob : forall ops l, ~ In AOob (spec_arun l ops).
Proof.
  induction ops as [|o ops IH]; intros l; simpl; [tauto|].
  destruct (spec_astep l o) as [l' r] eqn:Hs. simpl. intros [H|H]; [|exact (IH l' H)].
  subst r. destruct o; simpl in Hs.
  - inversion Hs.
  - inversion Hs.
  - destruct (in_range l i); [destruct (nth_error l (Z.to_nat i))|]; inversion Hs.
  - destruct (in_range l i); inversion Hs.
  - inversion Hs.
Qed.

(* memory safety of the modelled block accesses: no history ever reads or writes a slot outside [0, capacity) *)
Theorem arr_no_oob : forall a0 c ops, ~ In AOob (arun a0 (ANew c :: ops)).
Proof.
  intros a0 c ops. rewrite arr_refines. apply spec_no_oob.
Qed.

(* invariant after every history: length <= capacity = size of the block *)
Lemma afinal_inv : forall ops a, ainv a -> ainv (afinal E junk a ops).
Proof.
  induction ops as [|o ops IH]; intros a H; [assumption|].
  simpl. apply IH. apply (astep_refines a o (or_introl H)).
Qed.
Theorem arr_inv : forall a0 c ops, ainv (afinal E junk a0 (ANew c :: ops)).
Proof.
  intros a0 c ops. simpl. apply afinal_inv. apply new_inv.
Qed.

(* length = number of appends since `new`; elements come back in order *)
Lemma afinal_abs : forall ops a, ainv a ->
  abs (afinal E junk a ops) = fold_left (fun l o => fst (spec_astep l o)) ops (abs a).
Proof.
  induction ops as [|o ops IH]; intros a H; [reflexivity|].
  simpl. destruct (astep_refines a o (or_introl H)) as (Hi & Ha & _).
  rewrite IH by assumption. rewrite Ha. reflexivity.
Qed.

Theorem arr_appends_in_order : forall a0 c xs,
  let a := afinal E junk a0 (ANew c :: map AAppend xs) in
  abs a = xs /\ arr_len E a = Z.of_nat (length xs) /\
  forall i, arr_get a i = if in_range xs i
                          then match nth_error xs (Z.to_nat i) with Some x => Ok x | None => Refused end
                          else Refused.
Proof.
  intros a0 c xs a.
  assert (Hi : ainv a) by apply arr_inv.
  assert (Ha : abs a = xs).
  { unfold a. simpl. rewrite afinal_abs by apply new_inv. destruct (new_inv c) as [_ Hn]. rewrite Hn.
    assert (G : forall l, fold_left (fun l o => fst (spec_astep l o)) (map AAppend xs) l = l ++ xs).
    { clear. induction xs as [|x xs IH]; intros l; simpl.
      - rewrite app_nil_r. reflexivity.
      - rewrite IH. rewrite <- app_assoc. reflexivity. }
    apply (G []). }
  split; [assumption|]. split.
  - unfold arr_len. rewrite <- (abs_length a Hi). rewrite Ha. reflexivity.
  - intros i. rewrite (get_spec a i Hi). rewrite Ha. reflexivity.
Qed.

End ArrayProofs.
