(* C10 — decimal rendering (big.Int.String) and its readers: SetString base 10 and the runtime's ferret_parse_uint *)
From Coq Require Import ZArith List Ascii Bool Lia.
From FV Require Import Models.Numeric Proofs.NumericP.
Import ListNotations.
Open Scope Z_scope.

Lemma digit_char_props d : 0 <= d < 10 ->
  is_dec (chr (48 + d)) = true /\ digit_val (chr (48 + d)) = d.
Proof.
  intros H. unfold digit_val, is_dec, in_range. rewrite code_chr by lia.
  replace ((48 <=? 48 + d) && (48 + d <=? 57)) with true by lia. split; [reflexivity|lia].
Qed.

Lemma dec_fuel_spec n : 0 <= n -> n < 2 ^ Z.of_nat (dec_fuel n).
Proof.
  intros H. unfold dec_fuel. rewrite Nat2Z.inj_succ, Z2Nat.id by apply Z.log2_nonneg.
  destruct (Z.eq_dec n 0) as [->|N]; [reflexivity|].
  apply Z.log2_spec. lia.
Qed.

Lemma div10_bound f n : 0 <= n < 2 ^ Z.of_nat (S f) -> 0 <= n / 10 < 2 ^ Z.of_nat f.
Proof.
  rewrite Nat2Z.inj_succ, Z.pow_succ_r by lia. intros H.
  split; [apply Z.div_pos; lia|]. apply Z.div_lt_upper_bound; lia.
Qed.

Lemma dec_digits_forallb f : forall n acc,
  0 <= n -> forallb is_dec (dec_digits f n acc) = forallb is_dec acc.
Proof.
  induction f as [|f IH]; intros n acc H; [reflexivity|]. cbn [dec_digits].
  assert (0 <= n mod 10 < 10) as M by (apply Z.mod_pos_bound; lia).
  destruct (digit_char_props _ M) as [D _].
  destruct (n / 10 =? 0).
  - cbn [forallb]. now rewrite D.
  - rewrite IH by (apply Z.div_pos; lia). cbn [forallb]. now rewrite D.
Qed.

Lemma dec_digits_nonnil f : forall n acc, acc <> [] \/ (0 < f)%nat -> dec_digits f n acc <> [].
Proof.
  induction f as [|f IH]; intros n acc H.
  - destruct H as [H|H]; [exact H|lia].
  - cbn [dec_digits]. destruct (n / 10 =? 0); [discriminate|]. apply IH. left. discriminate.
Qed.

(* reading the rendered digits back with SetString(.., 10) *)
Lemma dec_digits_parse f : forall n acc,
  0 <= n < 2 ^ Z.of_nat f ->
  parse_digits 10 is_dec 0 (dec_digits f n acc) = parse_digits 10 is_dec n acc.
Proof.
  induction f as [|f IH]; intros n acc H.
  - cbn in H. replace n with 0 by lia. reflexivity.
  - cbn [dec_digits].
    assert (0 <= n mod 10 < 10) as M by (apply Z.mod_pos_bound; lia).
    destruct (digit_char_props _ M) as [D V].
    destruct (n / 10 =? 0) eqn:E.
    + cbn [parse_digits]. rewrite D, V. apply Z.eqb_eq in E.
      f_equal. pose proof (Z.div_mod n 10). lia.
    + rewrite IH by (apply div10_bound; exact H). cbn [parse_digits]. rewrite D, V.
      f_equal. pose proof (Z.div_mod n 10). lia.
Qed.

(* reading them with the runtime's digit loop (mod 2^N at every step) *)
Lemma c_digit_dec c : is_dec c = true -> c_digit_value c = digit_val c /\ 0 <= digit_val c < 10 /\ Ascii.eqb c c_us = false.
Proof.
  intros H. pose proof (is_digit_hex Dec _ H) as Hx. unfold c_digit_value. rewrite Hx.
  split; [reflexivity|]. split; [apply (digit_val_range Dec); exact H|apply (digit_not_us Dec); exact H].
Qed.

Lemma c_parse_loop_step N acc any c t :
  is_dec c = true ->
  c_parse_loop N 10 acc any (c :: t) = c_parse_loop N 10 ((acc * 10 + digit_val c) mod 2 ^ N) true t.
Proof.
  intros H. destruct (c_digit_dec _ H) as (E & R & U). cbn [c_parse_loop]. rewrite U, E.
  replace ((digit_val c <? 0) || (10 <=? digit_val c)) with false by lia. reflexivity.
Qed.

Lemma mod_step M x d : 0 < M -> ((x mod M) * 10 + d) mod M = (x * 10 + d) mod M.
Proof.
  intros H. rewrite <- (Zplus_mod_idemp_l (x mod M * 10)). rewrite Zmult_mod_idemp_l.
  now rewrite Zplus_mod_idemp_l.
Qed.

Lemma dec_digits_cloop N f : forall n acc any,
  0 < 2 ^ N ->
  0 <= n < 2 ^ Z.of_nat (S f) ->
  c_parse_loop N 10 0 any (dec_digits (S f) n acc) = c_parse_loop N 10 (n mod 2 ^ N) true acc.
Proof.
  induction f as [|f IH]; intros n acc any HM H.
  - assert (n / 10 = 0) as E by (apply Z.div_small; cbn in H; lia).
    cbn [dec_digits]. rewrite E. cbn [Z.eqb].
    assert (0 <= n mod 10 < 10) as M by (apply Z.mod_pos_bound; lia).
    destruct (digit_char_props _ M) as [D V].
    rewrite c_parse_loop_step by exact D. rewrite V. do 2 f_equal.
    pose proof (Z.div_mod n 10). lia.
  - remember (S f) as f1. cbn [dec_digits].
    assert (0 <= n mod 10 < 10) as M by (apply Z.mod_pos_bound; lia).
    destruct (digit_char_props _ M) as [D V].
    destruct (n / 10 =? 0) eqn:E.
    + apply Z.eqb_eq in E. rewrite c_parse_loop_step by exact D. rewrite V. do 2 f_equal.
      pose proof (Z.div_mod n 10). lia.
    + subst f1. rewrite IH by (auto; apply div10_bound; exact H).
      rewrite c_parse_loop_step by exact D. rewrite V. rewrite mod_step by exact HM. do 2 f_equal.
      pose proof (Z.div_mod n 10). lia.
Qed.

(* the rendered digit string: shape *)
Lemma dec_digits_shape n : 0 <= n ->
  exists c t, dec_digits (dec_fuel n) n [] = c :: t /\ is_dec c = true /\ forallb is_dec t = true.
Proof.
  intros H. pose proof (dec_digits_forallb (dec_fuel n) n [] H) as F.
  destruct (dec_digits (dec_fuel n) n []) as [|c t] eqn:E.
  - exfalso. revert E. apply dec_digits_nonnil. right. unfold dec_fuel. lia.
  - cbn [forallb] in F. apply andb_prop in F as [A B]. eauto.
Qed.

(* big.Int.String followed by StringToBigInt is the identity on magnitudes *)
Lemma stb_dec_digits n : 0 <= n -> string_to_bigint (dec_digits (dec_fuel n) n []) = Some n.
Proof.
  intros H. destruct (dec_digits_shape n H) as (c & t & E & Pc & Pt).
  unfold string_to_bigint.
  assert (clean (dec_digits (dec_fuel n) n []) = dec_digits (dec_fuel n) n []) as ->.
  { apply clean_id. apply (forallb_digit_no_us Dec). rewrite E. cbn [forallb is_digit]. now rewrite Pc. }
  rewrite E. destruct (dec_not_any_prefixed c t Pc Pt) as (H1 & H2 & H3). rewrite H1, H2, H3.
  rewrite (set_string_digits Dec) by exact Pc. rewrite <- E.
  cbn [radix is_digit]. rewrite dec_digits_parse by (split; [exact H|apply dec_fuel_spec; exact H]). reflexivity.
Qed.

Lemma clean_dec_string v : clean (dec_string_of_Z v) = dec_string_of_Z v.
Proof.
  apply clean_id. unfold dec_string_of_Z. destruct (v <? 0) eqn:E.
  - cbn [forallb]. change (negb (Ascii.eqb c_minus c_us)) with true. cbn [andb].
    apply (forallb_digit_no_us Dec). cbn [is_digit]. rewrite dec_digits_forallb by lia. reflexivity.
  - apply (forallb_digit_no_us Dec). cbn [is_digit]. rewrite dec_digits_forallb by lia. reflexivity.
Qed.

(* NewNumericValue (repaired) reads back the decimal rendering of any integer *)
Lemma nnv_dec_string v : new_numeric_value (dec_string_of_Z v) = Some (mk_numval v).
Proof.
  unfold new_numeric_value. rewrite clean_dec_string. unfold dec_string_of_Z.
  destruct (v <? 0) eqn:E.
  - cbn [split_sign]. change (Ascii.eqb c_minus c_minus) with true. cbn iota.
    rewrite stb_dec_digits by lia. do 2 f_equal. lia.
  - destruct (dec_digits_shape v ltac:(lia)) as (c & t & Eq & Pc & Pt). rewrite Eq.
    cbn [split_sign]. destruct (hex_not_special _ (is_digit_hex Dec _ Pc)) as (_ & M & _). rewrite M.
    rewrite <- Eq. rewrite stb_dec_digits by lia. reflexivity.
Qed.
