(* C19 — lemmas about the layout model (Models/Trivia.v, Models/DocComment.v). *)
From Coq Require Import ZArith List Bool Lia.
From FV Require Import Models.Trivia Models.DocComment.
Import ListNotations.
Open Scope Z_scope.

(* ------------------------------------------------------------------ 1. the shift algebra of Position.Advance *)

(* how a position at or after the gap moves when the position AT the gap moves from (L, c0, i0) to (L+dl, c0+dc, i0+di):
   same line as the gap -> line and column move; later lines -> only the line moves *)
Definition shiftp (L dl dc di : Z) (p : pos) : pos :=
  mkpos (line p + dl) (if line p =? L then col p + dc else col p) (idx p + di).

Lemma pos_eq : forall a b c a' b' c', a = a' -> b = b' -> c = c' -> mkpos a b c = mkpos a' b' c'.
Proof. intros; subst; reflexivity. Qed.

Lemma adv_shift : forall L dl dc di s pt sk p,
  L <= line p ->
  adv pt sk (shiftp L dl dc di p) s = shiftp L dl dc di (adv pt sk p s).
Proof.
  intros L dl dc di s; induction s as [|b r IH]; intros pt sk p HL; cbn [adv]; [reflexivity|].
  destruct sk as [|k].
  - destruct (b =? 10) eqn:E10.
    + rewrite <- IH by (cbn; lia). f_equal.
      unfold shiftp; cbn [line col idx].
      apply pos_eq; try lia.
      destruct (line p + 1 =? L) eqn:E; [apply Z.eqb_eq in E; lia | reflexivity].
    + destruct (b =? 9) eqn:E9.
      * rewrite <- IH by (cbn; lia). f_equal.
        unfold shiftp; cbn [line col idx].
        apply pos_eq; try lia. destruct (line p =? L); lia.
      * destruct (decode b r) as [w e].
        rewrite <- IH by (cbn; lia). f_equal.
        unfold shiftp; cbn [line col idx].
        apply pos_eq; try lia. destruct (line p =? L); destruct pt; lia.
  - apply IH; assumption.
Qed.

Lemma advance_shift : forall L dl dc di p s,
  L <= line p -> advance (shiftp L dl dc di p) s = shiftp L dl dc di (advance p s).
Proof. intros; apply adv_shift; assumption. Qed.

Lemma adv_line_ge : forall s pt sk p, line p <= line (adv pt sk p s).
Proof.
  induction s as [|b r IH]; intros pt sk p; cbn [adv]; [lia|].
  destruct sk; [|apply IH].
  destruct (b =? 10). { eapply Z.le_trans; [|apply IH]. cbn; lia. }
  destruct (b =? 9). { eapply Z.le_trans; [|apply IH]. cbn; lia. }
  destruct (decode b r). eapply Z.le_trans; [|apply IH]. cbn; lia.
Qed.

Lemma bad_advance_shift : forall L dl dc di p b,
  L <= line p -> bad_advance (shiftp L dl dc di p) b = shiftp L dl dc di (bad_advance p b).
Proof.
  intros. unfold bad_advance. destruct (b <? 128).
  - apply advance_shift; assumption.
  - unfold shiftp; cbn [line col idx]. apply pos_eq; try lia. destruct (line p =? L); lia.
Qed.

Lemma bad_advance_line_ge : forall p b, line p <= line (bad_advance p b).
Proof. intros. unfold bad_advance. destruct (b <? 128); [apply adv_line_ge | cbn; lia]. Qed.

Definition shiftt (L dl dc di : Z) (t : tok) : tok :=
  mktok (tcls t) (shiftp L dl dc di (tstart t)) (shiftp L dl dc di (tend t)) (traw t).

Lemma shiftp_idx_diff : forall L dl dc di p q, idx (shiftp L dl dc di q) - idx (shiftp L dl dc di p) = idx q - idx p.
Proof. intros; unfold shiftp; cbn; lia. Qed.

Lemma next_state_shift : forall L dl dc di p s,
  L <= line p ->
  next_state (shiftp L dl dc di p) s =
  (let '(it, p', s', m) := next_state p s in (it, shiftp L dl dc di p', s', m)).
Proof.
  intros. unfold next_state. destruct (step s) as [it n].
  destruct it.
  - rewrite advance_shift by assumption. rewrite shiftp_idx_diff. reflexivity.
  - rewrite advance_shift by assumption. rewrite shiftp_idx_diff. reflexivity.
  - rewrite bad_advance_shift by assumption. rewrite shiftp_idx_diff. reflexivity.
Qed.

Lemma next_state_line_ge : forall p s it p' s' m, next_state p s = (it, p', s', m) -> line p <= line p'.
Proof.
  intros p s it p' s' m H. unfold next_state in H. destruct (step s) as [it0 n].
  inversion H; subst. destruct it; [apply adv_line_ge | apply adv_line_ge | apply bad_advance_line_ge].
Qed.

(* every token lexed after the gap carries the shifted position: the whole rest of the token list is the old one,
   moved by the shift — whatever the rest of the text is (valid or not, accepted or not) *)
Lemma lex_loop_shift : forall L dl dc di fuel p s,
  L <= line p ->
  lex_loop fuel (shiftp L dl dc di p) s = map (shiftt L dl dc di) (lex_loop fuel p s).
Proof.
  intros L dl dc di fuel; induction fuel as [|f IH]; intros p s HL; cbn [lex_loop]; [reflexivity|].
  destruct s as [|b r]; [reflexivity|].
  rewrite next_state_shift by assumption.
  destruct (next_state p (b :: r)) as [[[it p'] s'] m] eqn:E.
  pose proof (next_state_line_ge _ _ _ _ _ _ E) as Hl.
  destruct it; cbn [map]; try (apply IH; lia).
  rewrite IH by lia. reflexivity.
Qed.

Lemma bad_loop_shift : forall L dl dc di fuel p s,
  L <= line p ->
  bad_loop fuel (shiftp L dl dc di p) s = map (shiftp L dl dc di) (bad_loop fuel p s).
Proof.
  intros L dl dc di fuel; induction fuel as [|f IH]; intros p s HL; cbn [bad_loop]; [reflexivity|].
  destruct s as [|b r]; [reflexivity|].
  rewrite next_state_shift by assumption.
  destruct (next_state p (b :: r)) as [[[it p'] s'] m] eqn:E.
  pose proof (next_state_line_ge _ _ _ _ _ _ E) as Hl.
  destruct it; cbn [map]; try (apply IH; lia).
  rewrite IH by lia. reflexivity.
Qed.

(* the shift determined by two positions of the gap *)
Definition gap_shift (P P' : pos) : pos -> pos :=
  shiftp (line P) (line P' - line P) (col P' - col P) (idx P' - idx P).
Definition gap_shift_tok (P P' : pos) : tok -> tok :=
  shiftt (line P) (line P' - line P) (col P' - col P) (idx P' - idx P).

Lemma gap_shift_at : forall P P', gap_shift P P' P = P'.
Proof.
  intros [l c i] [l' c' i']. unfold gap_shift, shiftp; cbn [line col idx].
  rewrite Z.eqb_refl. apply pos_eq; lia.
Qed.

Theorem positions_shift : forall fuel P P' post,
  lex_loop fuel P' post = map (gap_shift_tok P P') (lex_loop fuel P post).
Proof.
  intros. rewrite <- (gap_shift_at P P') at 1. unfold gap_shift, gap_shift_tok.
  apply lex_loop_shift. lia.
Qed.

Theorem bad_positions_shift : forall fuel P P' post,
  bad_loop fuel P' post = map (gap_shift P P') (bad_loop fuel P post).
Proof.
  intros. rewrite <- (gap_shift_at P P') at 1. unfold gap_shift.
  apply bad_loop_shift. lia.
Qed.

(* explicit reading of the shift: same line as the gap / later lines *)
Lemma gap_shift_same_line : forall P P' p, line p = line P ->
  line (gap_shift P P' p) = line P' /\ col (gap_shift P P' p) = col P' + (col p - col P).
Proof.
  intros. unfold gap_shift, shiftp; cbn [line col]. rewrite H, Z.eqb_refl. lia.
Qed.
Lemma gap_shift_later_line : forall P P' p, line p <> line P ->
  line (gap_shift P P' p) = line p + (line P' - line P) /\ col (gap_shift P P' p) = col p.
Proof.
  intros. unfold gap_shift, shiftp; cbn [line col].
  destruct (line p =? line P) eqn:E; [apply Z.eqb_eq in E; contradiction | lia].
Qed.

(* ------------------------------------------------------------------ 2. how inserted whitespace moves the gap *)

Definition ascii_bytes (s : list Z) : Prop := Forall (fun b => 0 <= b < 128) s.

Lemma decode_ascii : forall b r, 0 <= b < 128 -> decode b r = (1%nat, 1).
Proof. intros. unfold decode. destruct (b <? 128) eqn:E; [reflexivity | apply Z.ltb_ge in E; lia]. Qed.

Lemma adv_idx_ascii : forall s pt p, ascii_bytes s -> idx (adv pt 0 p s) = idx p + Z.of_nat (length s).
Proof.
  induction s as [|b r IH]; intros pt p H; cbn [adv length]; [lia|].
  inversion H; subst.
  destruct (b =? 10). { rewrite IH by assumption. cbn [idx]. lia. }
  destruct (b =? 9). { rewrite IH by assumption. cbn [idx]. lia. }
  rewrite decode_ascii by assumption. cbn [pred]. rewrite IH by assumption. cbn [idx]. lia.
Qed.

Lemma is_ws_ascii : forall b, is_ws b = true -> 0 <= b < 128.
Proof.
  intros b H. unfold is_ws in H.
  repeat (apply orb_true_iff in H; destruct H as [H|H]); apply Z.eqb_eq in H; lia.
Qed.

Lemma span_app_stop : forall f m c r, Forall (fun b => f b = true) m -> f c = false ->
  span f (m ++ c :: r) = length m.
Proof.
  induction m as [|b m IH]; intros c r H Hc; cbn [span app length].
  - rewrite Hc. reflexivity.
  - inversion H; subst. rewrite H2. f_equal. apply IH; assumption.
Qed.

Lemma span_app_nil : forall f m, Forall (fun b => f b = true) m -> span f m = length m.
Proof.
  induction m as [|b m IH]; intros H; cbn [span length]; [reflexivity|].
  inversion H; subst. rewrite H2. f_equal. apply IH; assumption.
Qed.

Definition all_ws (t : list Z) : Prop := Forall (fun b => is_ws b = true) t.
Definition starts_non_ws (post : list Z) : Prop :=
  match post with [] => True | c :: _ => is_ws c = false end.

Lemma m_ws_exact : forall t post, all_ws t -> starts_non_ws post -> m_ws (t ++ post) = length t.
Proof.
  intros t post Ht Hp. unfold m_ws. destruct post as [|c r].
  - rewrite app_nil_r. apply span_app_nil; assumption.
  - apply span_app_stop; assumption.
Qed.

Lemma all_ws_ascii : forall t, all_ws t -> ascii_bytes t.
Proof. intros t H. eapply Forall_impl; [|exact H]. intros; apply is_ws_ascii; assumption. Qed.

Lemma firstn_app_exact : forall (A : Type) (a b : list A), firstn (length a) (a ++ b) = a.
Proof. intros. rewrite firstn_app, Nat.sub_diag, firstn_all. cbn. apply app_nil_r. Qed.
Lemma skipn_app_exact : forall (A : Type) (a b : list A), skipn (length a) (a ++ b) = b.
Proof. intros. rewrite skipn_app, Nat.sub_diag, skipn_all. reflexivity. Qed.

(* one whitespace match consumes exactly the inserted run and leaves the cursor at advance P t *)
Lemma next_state_ws : forall P t post, t <> [] -> all_ws t -> starts_non_ws post ->
  next_state P (t ++ post) = (Skip, advance P t, post, t).
Proof.
  intros P t post Hne Ht Hp. unfold next_state, step.
  rewrite (m_ws_exact t post Ht Hp).
  destruct t as [|b t']; [contradiction|]. cbn [length].
  change (S (length t')) with (length (b :: t')).
  rewrite firstn_app_exact.
  unfold advance. rewrite adv_idx_ascii by (apply all_ws_ascii; assumption).
  replace (idx P + Z.of_nat (length (b :: t')) - idx P) with (Z.of_nat (length (b :: t'))) by lia.
  rewrite Nat2Z.id, skipn_app_exact. reflexivity.
Qed.

(* Whitespace inserted in front of a token: every token and every unrecognised-character diagnostic of the rest of
   the text is the old one moved by the shift that `advance` computes over the inserted run. *)
Theorem ws_insert_shift : forall fuel P t post, t <> [] -> all_ws t -> starts_non_ws post ->
  lex_loop (S fuel) P (t ++ post) = map (gap_shift_tok P (advance P t)) (lex_loop fuel P post) /\
  bad_loop (S fuel) P (t ++ post) = map (gap_shift P (advance P t)) (bad_loop fuel P post).
Proof.
  intros fuel P t post Hne Ht Hp.
  destruct t as [|b t']; [contradiction|].
  split.
  - cbn [lex_loop]. change ((b :: t') ++ post) with ((b :: t') ++ post).
    cbn [app]. change (b :: t' ++ post) with ((b :: t') ++ post).
    rewrite next_state_ws by assumption. apply positions_shift.
  - cbn [bad_loop]. cbn [app]. change (b :: t' ++ post) with ((b :: t') ++ post).
    rewrite next_state_ws by assumption. apply bad_positions_shift.
Qed.

(* ------------------------------------------------------------------ 3. boundary lemmas of the token recognisers *)

Lemma span_all : forall f m r, span f (m ++ r) = length m -> Forall (fun b => f b = true) m.
Proof.
  induction m as [|b m IH]; intros r H; [constructor|].
  cbn [app span length] in H. destruct (f b) eqn:E; [|discriminate].
  constructor; [assumption|]. apply (IH r). congruence.
Qed.

(* identifiers: a match that ends at a boundary is unchanged when followed by any non-identifier byte *)
Lemma m_ident_boundary : forall m r c r', m <> [] ->
  m_ident (m ++ r) = length m -> is_alnum_ c = false -> m_ident (m ++ c :: r') = length m.
Proof.
  intros m r c r' Hne H Hc. destruct m as [|b m']; [contradiction|].
  cbn [app m_ident length] in *. destruct (is_alpha_ b); [|discriminate].
  f_equal. apply span_app_stop; [|assumption].
  apply (span_all _ _ r). congruence.
Qed.

Lemma m_ident_boundary_eof : forall m r, m <> [] -> m_ident (m ++ r) = length m -> m_ident m = length m.
Proof.
  intros m r Hne H. destruct m as [|b m']; [contradiction|].
  cbn [app m_ident length] in *. destruct (is_alpha_ b); [|discriminate].
  f_equal. apply span_app_nil. apply (span_all _ _ r). congruence.
Qed.

Lemma find1_app_lt : forall a x r r' k, find1 a (x ++ r) = Some k -> (k < length x)%nat -> find1 a (x ++ r') = Some k.
Proof.
  induction x as [|y x IH]; intros r r' k H Hk; cbn [length] in Hk; [lia|].
  cbn [app find1] in *. destruct (y =? a); [assumption|].
  destruct (find1 a (x ++ r)) as [j|] eqn:E; [|discriminate].
  cbn in H. inversion H; subst. rewrite (IH r r' j E) by lia. reflexivity.
Qed.

(* string literals: the match is decided inside the literal; whatever follows is irrelevant *)
Lemma m_string_boundary : forall m r r', m <> [] -> m_string (m ++ r) = length m -> m_string (m ++ r') = length m.
Proof.
  intros m r r' Hne H. destruct m as [|b m']; [contradiction|].
  cbn [app m_string length] in *. destruct (b =? 34); [|discriminate].
  destruct (find1 34 (m' ++ r)) as [k|] eqn:E; [|discriminate].
  assert (Hk : (k < length m')%nat) by lia.
  rewrite (find1_app_lt _ _ _ r' _ E Hk). assumption.
Qed.

Lemma find2_cons2 : forall a b x y r,
  find2 a b (x :: y :: r) = if (x =? a) && (y =? b) then Some O else option_map S (find2 a b (y :: r)).
Proof. reflexivity. Qed.

Lemma find2_app_lt : forall a b x r r' k, find2 a b (x ++ r) = Some k -> (S k < length x)%nat -> find2 a b (x ++ r') = Some k.
Proof.
  induction x as [|y x IH]; intros r r' k H Hk; cbn [length] in Hk; [lia|].
  destruct x as [|z x'].
  - cbn [length] in Hk. lia.
  - change ((y :: z :: x') ++ r) with (y :: z :: (x' ++ r)) in H.
    change ((y :: z :: x') ++ r') with (y :: z :: (x' ++ r')).
    rewrite find2_cons2 in H. rewrite find2_cons2.
    destruct ((y =? a) && (z =? b)); [assumption|].
    change (z :: x' ++ r) with ((z :: x') ++ r) in H.
    change (z :: x' ++ r') with ((z :: x') ++ r').
    destruct (find2 a b ((z :: x') ++ r)) as [j|] eqn:E; [|discriminate].
    cbn [option_map] in H. inversion H; subst.
    rewrite (IH r r' j E) by (cbn [length] in *; lia). reflexivity.
Qed.

(* block comments: decided inside the comment *)
Lemma m_block_boundary : forall m r r', m_block (m ++ r) = length m -> (0 < length m)%nat -> m_block (m ++ r') = length m.
Proof.
  intros m r r' H Hpos. destruct m as [|a [|b m']].
  - cbn in Hpos; lia.
  - cbn [app m_block length] in H. destruct r as [|b r0]; [discriminate|].
    destruct ((a =? 47) && (b =? 42)); [|discriminate].
    destruct (find2 42 47 r0); discriminate.
  - cbn [app m_block length] in *. destruct ((a =? 47) && (b =? 42)); [|discriminate].
    destruct (find2 42 47 (m' ++ r)) as [k|] eqn:E; [|discriminate].
    assert (Hk : (S k < length m')%nat) by lia.
    rewrite (find2_app_lt _ _ _ _ r' _ E Hk). assumption.
Qed.

(* operators: is_prefix only reads as many bytes as the operator has *)
Lemma is_prefix_app_short : forall o m r, (length o <= length m)%nat -> is_prefix o (m ++ r) = is_prefix o m.
Proof.
  induction o as [|a o IH]; intros m r H; [reflexivity|].
  destruct m as [|b m]; [cbn in H; lia|].
  cbn [app is_prefix]. rewrite IH by (cbn in H; lia). reflexivity.
Qed.

Lemma is_prefix_app_long : forall o m c r, (length m < length o)%nat -> ~ In c (tl o) -> m <> [] ->
  is_prefix o (m ++ c :: r) = false.
Proof.
  induction o as [|a o IH]; intros m c r H Hin Hne; [cbn in H; lia|].
  destruct m as [|b m]; [contradiction|].
  cbn [app is_prefix]. cbn [tl] in Hin.
  destruct m as [|b' m].
  - cbn [app]. destruct o as [|a' o]; [cbn in H; lia|].
    cbn [is_prefix]. destruct (a' =? c) eqn:E.
    + apply Z.eqb_eq in E. exfalso. apply Hin. left. assumption.
    + rewrite andb_false_r. reflexivity.
  - destruct o as [|a' o]; [cbn in H; lia|].
    rewrite (IH (b' :: m) c r); [apply andb_false_r | cbn in *; lia | | discriminate].
    cbn [tl]. intro Hc. apply Hin. right. assumption.
Qed.

Lemma first_op_boundary : forall tbl m r c r', m <> [] ->
  (forall o, In o tbl -> ~ In c (tl o)) ->
  (forall o, In o tbl -> o <> []) ->
  first_op tbl (m ++ r) = length m -> first_op tbl (m ++ c :: r') = length m.
Proof.
  induction tbl as [|o tbl IH]; intros m r c r' Hne Hc Hnil H; cbn [first_op] in *.
  - destruct m; [contradiction | discriminate].
  - destruct (is_prefix o (m ++ r)) eqn:E.
    + (* chosen: |o| = |m|, so the test only reads m *)
      rewrite is_prefix_app_short in E by lia.
      rewrite is_prefix_app_short by lia. rewrite E. assumption.
    + destruct (Nat.leb (length o) (length m)) eqn:El.
      * apply Nat.leb_le in El. rewrite is_prefix_app_short in E by assumption.
        rewrite is_prefix_app_short by assumption. rewrite E.
        apply (IH m r); auto. intros; apply Hc; right; assumption. intros; apply Hnil; right; assumption.
      * apply Nat.leb_gt in El.
        rewrite is_prefix_app_long; [| assumption | apply Hc; left; reflexivity | assumption].
        apply (IH m r); auto. intros; apply Hc; right; assumption. intros; apply Hnil; right; assumption.
Qed.

(* no operator of the table has a whitespace byte or a slash after its first byte *)
Definition trivia_start (c : Z) : bool := is_ws c || (c =? 47).
Lemma ops_no_trivia_inside : forall c, trivia_start c = true -> forall o, In o ops -> ~ In c (tl o).
Proof.
  intros c Hc o Ho Hin.
  assert (E : existsb (fun o => existsb (fun x => trivia_start x) (tl o)) ops = false) by (vm_compute; reflexivity).
  assert (existsb (fun o => existsb (fun x => trivia_start x) (tl o)) ops = true); [|congruence].
  apply existsb_exists. exists o. split; [assumption|].
  apply existsb_exists. exists c. split; assumption.
Qed.
Lemma ops_nonempty : forall o, In o ops -> o <> [].
Proof.
  intros o Ho E. subst.
  assert (X : existsb (fun o => match o with [] => true | _ => false end) ops = false) by (vm_compute; reflexivity).
  assert (existsb (fun o => match o with [] => true | _ => false end) ops = true); [|congruence].
  apply existsb_exists. exists []. split; [assumption | reflexivity].
Qed.

Theorem m_op_boundary : forall m r c r', m <> [] -> trivia_start c = true ->
  m_op (m ++ r) = length m -> m_op (m ++ c :: r') = length m.
Proof.
  intros. unfold m_op in *. eapply first_op_boundary; eauto.
  - apply ops_no_trivia_inside; assumption.
  - apply ops_nonempty.
Qed.

(* ------------------------------------------------------------------ 4. refutations / necessity witnesses (computed) *)

Definition starts_of (s : list Z) : list (Z * Z * Z) :=
  map (fun t => (tcls t, line (tstart t), col (tstart t))) (lex s).
Definition sig_raws (s : list Z) : list (list Z) := map traw (significant (lex s)).

(* a TAB b ; inserting one space between the tab and b does not move b *)
Definition q_src : list Z := [97; 9; 98].
Lemma tab_quirk_witness :
  starts_of (insert_at q_src 2 [32]) = starts_of q_src /\ sig_raws (insert_at q_src 2 [32]) = sig_raws q_src.
Proof. vm_compute. split; reflexivity. Qed.

(* a / b ; a block comment placed directly after the slash is not a comment in the result *)
Definition f_src : list Z := [97; 32; 47; 32; 98].
Definition f_cmt : list Z := [47; 42; 99; 42; 47].
Lemma slash_fuse_witness : sig_raws (insert_at f_src 3 f_cmt) <> sig_raws f_src.
Proof. vm_compute. discriminate. Qed.

(* x QUOTE y ; z  - an unterminated quote; a comment containing a quote inserted later changes the earlier tokens *)
Definition l_src : list Z := [120; 32; 34; 32; 121; 59; 32; 122].
Definition l_cmt : list Z := [47; 42; 34; 42; 47].
Lemma lone_quote_witness : sig_raws (insert_at l_src 6 l_cmt) <> sig_raws l_src /\ lex_bad l_src <> [].
Proof. vm_compute. split; discriminate. Qed.

(* documentation comments *)
Definition d_src : list Z := [102; 110; 32; 102; 40; 41; 123; 125; 10].                       (* fn f(){} *)
Definition d_cmt : list Z := [47; 47; 32; 64; 101; 120; 116; 101; 114; 110; 10].                (* // @extern NL *)
Lemma extern_insert_witness :
  doc_flags d_src [0] = [false] /\ doc_flags (insert_at d_src 0 d_cmt) [11] = [true] /\
  sig_raws (insert_at d_src 0 d_cmt) = sig_raws d_src.
Proof. vm_compute. repeat split; reflexivity. Qed.

Lemma extern_blank_line_witness :
  doc_flags (d_cmt ++ d_src) [11] = [true] /\ doc_flags (insert_at (d_cmt ++ d_src) 11 [10]) [12] = [false].
Proof. vm_compute. split; reflexivity. Qed.

(* non-vacuity of ws_insert_shift: two lines of whitespace in front of `b` *)
Lemma ws_insert_example :
  let P := mkpos 3 7 40 in let t := [32; 13; 10; 9; 9] in let post := [98; 59] in
  all_ws t /\ starts_non_ws post /\ advance P t = mkpos 4 9 45 /\
  map (fun x => (line (tstart x), col (tstart x))) (lex_loop 4 P (t ++ post)) = [(4, 9); (4, 10); (4, 11)].
Proof. vm_compute. repeat split; try reflexivity; repeat constructor. Qed.

(* ------------------------------------------------------------------ 5. side conditions of the full statement, refutations in final form *)
Definition is_gap (s : list Z) (g : nat) : bool :=
  forallb (fun x => negb ((idx (tstart x) <? Z.of_nat g) && (Z.of_nat g <? idx (tend x)))) (lex s).
(* in the reformatted text no significant token overlaps the inserted bytes, and a comment token that overlaps them
   lies inside them: the inserted text is trivia IN THE RESULT *)
Definition inserted_is_trivia (s : list Z) (g : nat) (t : list Z) : bool :=
  let lo := Z.of_nat g in let hi := Z.of_nat (g + length t) in
  forallb (fun x => let a := idx (tstart x) in let b := idx (tend x) in
                    negb ((a <? hi) && (lo <? b)) || (is_comment x && (lo <=? a) && (b <=? hi)))
          (lex (insert_at s g t)).

Lemma slash_fuse_refuted : exists s g t,
  is_gap s g = true /\ lex_bad s = [] /\ inserted_is_trivia s g t = false /\
  map traw (significant (lex (insert_at s g t))) <> map traw (significant (lex s)).
Proof.
  exists f_src, 3%nat, f_cmt. vm_compute. repeat split; try reflexivity. discriminate.
Qed.

Lemma lone_quote_refuted : exists s g t,
  is_gap s g = true /\ lex_bad s <> [] /\
  map traw (significant (lex (insert_at s g t))) <> map traw (significant (lex s)).
Proof.
  exists l_src, 6%nat, l_cmt. vm_compute. repeat split; try reflexivity; discriminate.
Qed.

Lemma column_follows_text_refuted : exists s g t,
  t = [32] /\ is_gap s g = true /\
  map (fun x => (tcls x, line (tstart x), col (tstart x))) (lex (insert_at s g t)) =
  map (fun x => (tcls x, line (tstart x), col (tstart x))) (lex s).
Proof.
  exists q_src, 2%nat, [32]. vm_compute. repeat split; reflexivity.
Qed.

Lemma doc_inert_refuted :
  (exists s t, doc_flags s [0] = [false] /\ doc_flags (insert_at s 0 t) [Z.of_nat (length t)] = [true] /\
               map traw (significant (lex (insert_at s 0 t))) = map traw (significant (lex s))) /\
  (exists s g, doc_flags s [Z.of_nat g] = [true] /\ doc_flags (insert_at s g [10]) [Z.of_nat g + 1] = [false]).
Proof.
  split.
  - exists d_src, d_cmt. vm_compute. repeat split; reflexivity.
  - exists (d_cmt ++ d_src), 11%nat. vm_compute. split; reflexivity.
Qed.
