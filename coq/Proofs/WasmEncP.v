(* WasmEncP: the encoders of module.go (Models/WasmEnc.v) against the LEB128 / vector / section / locals grammar
   of the WebAssembly binary format.  All statements are for every value of the Go type and every following
   byte string `rest`. *)
From Coq Require Import ZArith List Bool Lia.
From FV Require Import Models.WasmEnc.
Import ListNotations.
Open Scope Z_scope.

(* ------------------------------------------------------------------ finite facts about one byte *)

Fixpoint all_below (n : nat) (f : Z -> bool) : bool :=
  match n with O => true | S k => f (Z.of_nat k) && all_below k f end.

Lemma all_below_spec n f : all_below n f = true -> forall b, 0 <= b < Z.of_nat n -> f b = true.
Proof.
  induction n; intros H b Hb; [lia|].
  cbn [all_below] in H. apply andb_prop in H. destruct H as [H1 H2].
  destruct (Z.eq_dec b (Z.of_nat n)) as [->|Hne]; [exact H1|].
  apply IHn; [exact H2|lia].
Qed.

Lemma byte7_facts b : 0 <= b < 128 ->
  Z.lor b 128 = b + 128 /\ (Z.land b 64 =? 0) = (b <? 64).
Proof.
  intros Hb.
  pose (f := fun b => (Z.lor b 128 =? b + 128) && Bool.eqb (Z.land b 64 =? 0) (b <? 64)).
  assert (A : all_below 128 f = true) by (vm_compute; reflexivity).
  pose proof (all_below_spec 128 f A b) as B.
  change (Z.of_nat 128) with 128 in B. specialize (B Hb). unfold f in B.
  apply andb_prop in B. destruct B as [B1 B2].
  apply Z.eqb_eq in B1. apply eqb_prop in B2. split; assumption.
Qed.

Lemma land127 v : Z.land v 127 = v mod 128.
Proof. change 127 with (Z.ones 7). rewrite Z.land_ones by lia. reflexivity. Qed.

Lemma shr7 v : Z.shiftr v 7 = v / 128.
Proof. rewrite Z.shiftr_div_pow2 by lia. reflexivity. Qed.

Lemma byte_of_small b : 0 <= b < 256 -> byte_of b = b.
Proof. intros; unfold byte_of; apply Z.mod_small; lia. Qed.

Lemma pow2_pos n : 0 <= n -> 1 <= 2 ^ n.
Proof. intros. pose proof (Z.pow_pos_nonneg 2 n). lia. Qed.

Lemma pow2_split n : 7 <= n -> 2 ^ n = 128 * 2 ^ (n - 7).
Proof.
  intros. replace n with (7 + (n - 7)) at 1 by lia.
  rewrite Z.pow_add_r by lia. reflexivity.
Qed.

Lemma pow2_double n : 1 <= n -> 2 ^ n = 2 * 2 ^ (n - 1).
Proof.
  intros. replace n with (1 + (n - 1)) at 1 by lia.
  rewrite Z.pow_add_r by lia. reflexivity.
Qed.

Lemma wrap_u32_id v : in_u32 v -> wrap_u32 v = v.
Proof. unfold in_u32, wrap_u32; intros; apply Z.mod_small; lia. Qed.

Lemma wrap_s_id bits v : 1 <= bits -> in_s bits v -> wrap_s bits v = v.
Proof.
  unfold in_s, wrap_s; intros Hb Hv.
  rewrite (pow2_double bits Hb). set (P := 2 ^ (bits - 1)) in *.
  rewrite Z.mod_small by lia. lia.
Qed.

Lemma in_s_mono n m v : 1 <= n <= m -> in_s n v -> in_s m v.
Proof.
  unfold in_s; intros Hn Hv.
  assert (2 ^ (n - 1) <= 2 ^ (m - 1)) by (apply Z.pow_le_mono_r; lia). lia.
Qed.

(* ------------------------------------------------------------------ decoder: one step *)

Ltac zb :=
  repeat match goal with
  | |- context [?a <? ?b] => destruct (Z.ltb_spec a b); try lia
  | |- context [?a <=? ?b] => destruct (Z.leb_spec a b); try lia
  | |- context [?a =? ?b] => destruct (Z.eqb_spec a b); try lia
  end.

Lemma decU_last f N n tl : 0 <= n < 128 -> n < 2 ^ N ->
  decode_uN (S f) N (n :: tl) = Some (n, tl).
Proof.
  intros H1 H2. cbn [decode_uN]. unfold is_byte. change (2 ^ 7) with 128.
  zb; cbn [andb negb]; reflexivity.
Qed.

Lemma decU_more f N n tl m r : 128 <= n < 256 -> 7 < N ->
  decode_uN f (N - 7) tl = Some (m, r) ->
  decode_uN (S f) N (n :: tl) = Some (128 * m + (n - 128), r).
Proof.
  intros H1 H2 H3. cbn [decode_uN]. unfold is_byte. change (2 ^ 7) with 128.
  rewrite H3. zb; cbn [andb negb]; reflexivity.
Qed.

Lemma decS_pos f N n tl : 0 <= n < 64 -> n < 2 ^ (N - 1) ->
  decode_sN (S f) N (n :: tl) = Some (n, tl).
Proof.
  intros H1 H2. cbn [decode_sN]. unfold is_byte. change (2 ^ 7) with 128. change (2 ^ 6) with 64.
  zb; cbn [andb negb]; reflexivity.
Qed.

Lemma decS_neg f N n tl : 64 <= n < 128 -> 128 - 2 ^ (N - 1) <= n ->
  decode_sN (S f) N (n :: tl) = Some (n - 128, tl).
Proof.
  intros H1 H2. cbn [decode_sN]. unfold is_byte. change (2 ^ 7) with 128. change (2 ^ 6) with 64.
  zb; cbn [andb negb]; reflexivity.
Qed.

Lemma decS_more f N n tl m r : 128 <= n < 256 -> 7 < N ->
  decode_sN f (N - 7) tl = Some (m, r) ->
  decode_sN (S f) N (n :: tl) = Some (128 * m + (n - 128), r).
Proof.
  intros H1 H2 H3. cbn [decode_sN]. unfold is_byte. change (2 ^ 7) with 128. change (2 ^ 6) with 64.
  rewrite H3. zb; cbn [andb negb]; reflexivity.
Qed.

Lemma leb_wf_cons b bs : 128 <= b < 256 -> leb_wf bs -> leb_wf (b :: bs).
Proof. intros Hb H. destruct bs as [|c tl]; [destruct H|]. cbn [leb_wf]. split; assumption. Qed.

(* ------------------------------------------------------------------ encodeU32 *)

Lemma encU_step f v : in_u32 v ->
  encodeU32_fuel (S f) v =
    if v / 128 =? 0 then Some [v mod 128]
    else option_map (cons (v mod 128 + 128)) (encodeU32_fuel f (v / 128)).
Proof.
  unfold in_u32; intros Hv.
  pose proof (Z.mod_pos_bound v 128 ltac:(lia)) as Hb.
  assert (Hq : in_u32 (v / 128)) by (unfold in_u32; split; [apply Z.div_pos; lia | apply Z.div_lt_upper_bound; lia]).
  cbn [encodeU32_fuel]. rewrite land127, shr7.
  rewrite (byte_of_small (v mod 128)) by lia. rewrite (wrap_u32_id _ Hq).
  destruct (v / 128 =? 0); cbn [negb]; [reflexivity|].
  destruct (byte7_facts _ Hb) as [-> _]. rewrite byte_of_small by lia. reflexivity.
Qed.

Lemma in_u32_div v : in_u32 v -> in_u32 (v / 128).
Proof.
  unfold in_u32; intros; split; [apply Z.div_pos; lia | apply Z.div_lt_upper_bound; lia].
Qed.

Lemma encU_dec : forall f N v rest, 1 <= N <= 32 -> N <= 7 * Z.of_nat f -> 0 <= v < 2 ^ N ->
  exists bs, encodeU32_fuel f v = Some bs /\ decode_uN f N (bs ++ rest) = Some (v, rest)
             /\ (length bs <= f)%nat /\ leb_wf bs.
Proof.
  induction f as [|f IH]; intros N v rest HN Hf Hv; [lia|].
  assert (Hu : in_u32 v).
  { unfold in_u32. assert (2 ^ N <= 2 ^ 32) by (apply Z.pow_le_mono_r; lia). lia. }
  rewrite (encU_step f v Hu).
  pose proof (Z.div_mod v 128 ltac:(lia)) as Hdm.
  pose proof (Z.mod_pos_bound v 128 ltac:(lia)) as Hb.
  destruct (Z.eqb_spec (v / 128) 0) as [Hq|Hq].
  - assert (Hvb : v mod 128 = v) by lia.
    exists [v mod 128]. rewrite Hvb. split; [reflexivity|]. split.
    + cbn [app]. apply decU_last; lia.
    + split; [cbn [length]; lia | cbn [leb_wf]; lia].
  - assert (Hq0 : 1 <= v / 128) by (pose proof (Z.div_pos v 128); lia).
    assert (HN7 : 7 < N).
    { destruct (Z.le_gt_cases N 7) as [Hle|]; [|lia].
      assert (2 ^ N <= 2 ^ 7) by (apply Z.pow_le_mono_r; lia). change (2 ^ 7) with 128 in *. lia. }
    pose proof (pow2_split N ltac:(lia)) as Hsp.
    assert (Hpp : 1 <= 2 ^ (N - 7)) by (apply pow2_pos; lia).
    destruct (IH (N - 7) (v / 128) rest ltac:(lia) ltac:(lia) ltac:(lia)) as [bs [He [Hd [Hl Hw]]]].
    exists ((v mod 128 + 128) :: bs). rewrite He. split; [reflexivity|]. split.
    + cbn [app]. rewrite (decU_more f N (v mod 128 + 128) (bs ++ rest) (v / 128) rest ltac:(lia) HN7 Hd).
      f_equal. f_equal. lia.
    + split; [cbn [length]; lia | apply leb_wf_cons; [lia|assumption]].
Qed.

Lemma encU_mono f : forall v bs, in_u32 v ->
  encodeU32_fuel f v = Some bs -> encodeU32_fuel (S f) v = Some bs.
Proof.
  induction f as [|f IH]; intros v bs Hv H; [discriminate H|].
  rewrite (encU_step f v Hv) in H. rewrite (encU_step (S f) v Hv).
  destruct (v / 128 =? 0); [exact H|].
  destruct (encodeU32_fuel f (v / 128)) as [l|] eqn:E; [|discriminate H].
  rewrite (IH _ _ (in_u32_div v Hv) E). exact H.
Qed.

Lemma encU_mono_le f f' v bs : in_u32 v -> (f <= f')%nat ->
  encodeU32_fuel f v = Some bs -> encodeU32_fuel f' v = Some bs.
Proof.
  intros Hv Hle H. induction Hle; [exact H|]. apply encU_mono; assumption.
Qed.

Lemma encU32_spec v rest : in_u32 v ->
  encodeU32_fuel u32_fuel v = Some (encodeU32 v)
  /\ decode_u32 (encodeU32 v ++ rest) = Some (v, rest)
  /\ (length (encodeU32 v) <= 5)%nat /\ leb_wf (encodeU32 v).
Proof.
  intros Hv. unfold encodeU32. rewrite (wrap_u32_id v Hv).
  destruct (encU_dec 5 32 v rest ltac:(lia) ltac:(lia) Hv) as [bs [He [Hd [Hl Hw]]]].
  unfold u32_fuel. rewrite He. cbn [unwrap]. repeat split; assumption.
Qed.

(* round trip *)
Lemma encU32_roundtrip v rest : in_u32 v -> decode_u32 (encodeU32 v ++ rest) = Some (v, rest).
Proof. intros Hv. apply (encU32_spec v rest Hv). Qed.

(* shape: at most 5 bytes, continuation bit on every byte but the last *)
Lemma encU32_shape v : in_u32 v -> (length (encodeU32 v) <= 5)%nat /\ leb_wf (encodeU32 v).
Proof. intros Hv. destruct (encU32_spec v [] Hv) as [_ [_ H]]. exact H. Qed.

(* the fuel: 5 iterations are enough, and any larger fuel gives the same bytes *)
Lemma encU32_fuel_enough v f : in_u32 v -> (5 <= f)%nat -> encodeU32_fuel f v = Some (encodeU32 v).
Proof.
  intros Hv Hf. destruct (encU32_spec v [] Hv) as [He _].
  exact (encU_mono_le _ _ _ _ Hv Hf He).
Qed.

(* shortest: a value below 2^(7k) takes at most k bytes (k bytes of LEB128 carry 7k payload bits) *)
Lemma encU32_shortest v k : in_u32 v -> (1 <= k)%nat -> v < 2 ^ (7 * Z.of_nat k) ->
  (length (encodeU32 v) <= k)%nat.
Proof.
  intros Hv Hk Hlt.
  destruct (le_lt_dec 5 k) as [H5|H5].
  - pose proof (encU32_shape v Hv). lia.
  - assert (Hr : 0 <= v < 2 ^ (7 * Z.of_nat k)) by (unfold in_u32 in Hv; lia).
    destruct (encU_dec k (7 * Z.of_nat k) v [] ltac:(lia) ltac:(lia) Hr) as [bs [He [_ [Hl _]]]].
    pose proof (encU_mono_le k 5 v bs Hv ltac:(lia) He) as He5.
    destruct (encU32_spec v [] Hv) as [He' _]. unfold u32_fuel in He'.
    rewrite He5 in He'. injection He' as <-. exact Hl.
Qed.

(* ------------------------------------------------------------------ encodeS32 / encodeS64 *)

Definition s_done (v : Z) : bool :=
  ((v / 128 =? 0) && (v mod 128 <? 64)) || ((v / 128 =? -1) && (64 <=? v mod 128)).

Lemma in_s_div bits v : 1 <= bits -> in_s bits v -> in_s bits (v / 128).
Proof.
  unfold in_s; intros Hb Hv.
  assert (1 <= 2 ^ (bits - 1)) by (apply pow2_pos; lia).
  pose proof (Z.div_mod v 128 ltac:(lia)). pose proof (Z.mod_pos_bound v 128 ltac:(lia)). lia.
Qed.

Lemma encS_step bits f v : 1 <= bits -> in_s bits v ->
  encodeS_fuel bits (S f) v =
    if s_done v then Some [v mod 128]
    else option_map (cons (v mod 128 + 128)) (encodeS_fuel bits f (v / 128)).
Proof.
  intros Hbits Hv.
  pose proof (Z.mod_pos_bound v 128 ltac:(lia)) as Hb.
  cbn [encodeS_fuel]. rewrite land127, shr7.
  rewrite (byte_of_small (v mod 128)) by lia.
  rewrite (wrap_s_id bits (v / 128) Hbits (in_s_div bits v Hbits Hv)).
  destruct (byte7_facts _ Hb) as [Hor ->]. rewrite Hor.
  rewrite negb_involutive. rewrite <- Z.leb_antisym. fold (s_done v).
  destruct (s_done v); cbn [negb]; [reflexivity|].
  rewrite byte_of_small by lia. reflexivity.
Qed.

(* what the termination test of the loop says about the value *)
Lemma s_done_spec v :
  (s_done v = true /\ -64 <= v < 64) \/ (s_done v = false /\ ~ (-64 <= v < 64)).
Proof.
  unfold s_done.
  pose proof (Z.div_mod v 128 ltac:(lia)). pose proof (Z.mod_pos_bound v 128 ltac:(lia)).
  destruct (Z.eqb_spec (v / 128) 0); destruct (Z.ltb_spec (v mod 128) 64);
  destruct (Z.eqb_spec (v / 128) (-1)); destruct (Z.leb_spec 64 (v mod 128));
  cbn [andb orb]; first [left; split; [reflexivity|lia] | right; split; [reflexivity|lia]].
Qed.

Lemma encS_dec bits : 1 <= bits ->
  forall f N v rest, 1 <= N <= bits -> N <= 7 * Z.of_nat f -> in_s N v ->
  exists bs, encodeS_fuel bits f v = Some bs /\ decode_sN f N (bs ++ rest) = Some (v, rest)
             /\ (length bs <= f)%nat /\ leb_wf bs.
Proof.
  intros Hbits. induction f as [|f IH]; intros N v rest HN Hf Hv; [lia|].
  rewrite (encS_step bits f v Hbits (in_s_mono N bits v ltac:(lia) Hv)).
  pose proof (Z.div_mod v 128 ltac:(lia)) as Hdm.
  pose proof (Z.mod_pos_bound v 128 ltac:(lia)) as Hb.
  unfold in_s in Hv.
  destruct (s_done_spec v) as [[-> Hr]|[-> Hr]].
  - exists [v mod 128]. split; [reflexivity|]. split.
    + cbn [app]. destruct (Z.le_gt_cases 0 v) as [Hp|Hn].
      * assert (Hvb : v mod 128 = v) by lia. rewrite Hvb. apply decS_pos; lia.
      * assert (Hvb : v mod 128 = v + 128) by lia. rewrite Hvb.
        replace (Some (v, rest)) with (Some (v + 128 - 128, rest)) by (f_equal; f_equal; lia).
        apply decS_neg; lia.
    + split; [cbn [length]; lia | cbn [leb_wf]; lia].
  - assert (HN7 : 7 < N).
    { destruct (Z.le_gt_cases N 7) as [Hle|]; [|lia].
      assert (2 ^ (N - 1) <= 2 ^ 6) by (apply Z.pow_le_mono_r; lia). change (2 ^ 6) with 64 in *. lia. }
    pose proof (pow2_split (N - 1) ltac:(lia)) as Hsp.
    replace (N - 1 - 7) with (N - 7 - 1) in Hsp by lia.
    assert (Hpp : 1 <= 2 ^ (N - 7 - 1)) by (apply pow2_pos; lia).
    assert (Hq : in_s (N - 7) (v / 128)) by (unfold in_s; lia).
    destruct (IH (N - 7) (v / 128) rest ltac:(lia) ltac:(lia) Hq) as [bs [He [Hd [Hl Hw]]]].
    exists ((v mod 128 + 128) :: bs). rewrite He. split; [reflexivity|]. split.
    + cbn [app]. rewrite (decS_more f N (v mod 128 + 128) (bs ++ rest) (v / 128) rest ltac:(lia) HN7 Hd).
      f_equal. f_equal. lia.
    + split; [cbn [length]; lia | apply leb_wf_cons; [lia|assumption]].
Qed.

Lemma encS_mono bits f : 1 <= bits -> forall v bs, in_s bits v ->
  encodeS_fuel bits f v = Some bs -> encodeS_fuel bits (S f) v = Some bs.
Proof.
  intros Hbits. induction f as [|f IH]; intros v bs Hv H; [discriminate H|].
  rewrite (encS_step bits f v Hbits Hv) in H. rewrite (encS_step bits (S f) v Hbits Hv).
  destruct (s_done v); [exact H|].
  destruct (encodeS_fuel bits f (v / 128)) as [l|] eqn:E; [|discriminate H].
  rewrite (IH _ _ (in_s_div bits v Hbits Hv) E). exact H.
Qed.

Lemma encS_mono_le bits f f' v bs : 1 <= bits -> in_s bits v -> (f <= f')%nat ->
  encodeS_fuel bits f v = Some bs -> encodeS_fuel bits f' v = Some bs.
Proof.
  intros Hb Hv Hle H. induction Hle; [exact H|]. apply encS_mono; assumption.
Qed.

Lemma in_s_refl_bits bits v : in_s bits v -> in_s bits v.
Proof. trivial. Qed.

Lemma encS32_spec v rest : in_s 32 v ->
  encodeS_fuel 32 s32_fuel v = Some (encodeS32 v)
  /\ decode_s32 (encodeS32 v ++ rest) = Some (v, rest)
  /\ (length (encodeS32 v) <= 5)%nat /\ leb_wf (encodeS32 v).
Proof.
  intros Hv. unfold encodeS32. rewrite (wrap_s_id 32 v ltac:(lia) Hv).
  destruct (encS_dec 32 ltac:(lia) 5 32 v rest ltac:(lia) ltac:(lia) Hv) as [bs [He [Hd [Hl Hw]]]].
  unfold s32_fuel. rewrite He. cbn [unwrap]. repeat split; assumption.
Qed.

Lemma encS64_spec v rest : in_s 64 v ->
  encodeS_fuel 64 s64_fuel v = Some (encodeS64 v)
  /\ decode_s64 (encodeS64 v ++ rest) = Some (v, rest)
  /\ (length (encodeS64 v) <= 10)%nat /\ leb_wf (encodeS64 v).
Proof.
  intros Hv. unfold encodeS64. rewrite (wrap_s_id 64 v ltac:(lia) Hv).
  destruct (encS_dec 64 ltac:(lia) 10 64 v rest ltac:(lia) ltac:(lia) Hv) as [bs [He [Hd [Hl Hw]]]].
  unfold s64_fuel. rewrite He. cbn [unwrap]. repeat split; assumption.
Qed.

Lemma encS32_roundtrip v rest : in_s 32 v -> decode_s32 (encodeS32 v ++ rest) = Some (v, rest).
Proof. intros Hv. apply (encS32_spec v rest Hv). Qed.

Lemma encS64_roundtrip v rest : in_s 64 v -> decode_s64 (encodeS64 v ++ rest) = Some (v, rest).
Proof. intros Hv. apply (encS64_spec v rest Hv). Qed.

Lemma encS32_shape v : in_s 32 v -> (length (encodeS32 v) <= 5)%nat /\ leb_wf (encodeS32 v).
Proof. intros Hv. destruct (encS32_spec v [] Hv) as [_ [_ H]]. exact H. Qed.

Lemma encS64_shape v : in_s 64 v -> (length (encodeS64 v) <= 10)%nat /\ leb_wf (encodeS64 v).
Proof. intros Hv. destruct (encS64_spec v [] Hv) as [_ [_ H]]. exact H. Qed.

Lemma encS32_fuel_enough v f : in_s 32 v -> (5 <= f)%nat -> encodeS_fuel 32 f v = Some (encodeS32 v).
Proof.
  intros Hv Hf. destruct (encS32_spec v [] Hv) as [He _].
  exact (encS_mono_le 32 _ _ _ _ ltac:(lia) Hv Hf He).
Qed.

Lemma encS64_fuel_enough v f : in_s 64 v -> (10 <= f)%nat -> encodeS_fuel 64 f v = Some (encodeS64 v).
Proof.
  intros Hv Hf. destruct (encS64_spec v [] Hv) as [He _].
  exact (encS_mono_le 64 _ _ _ _ ltac:(lia) Hv Hf He).
Qed.

(* shortest: a value in the signed 7k-bit range takes at most k bytes *)
Lemma encS_shortest_gen bits F v k : 1 <= bits -> bits <= 7 * Z.of_nat F ->
  in_s bits v -> (1 <= k)%nat -> in_s (7 * Z.of_nat k) v ->
  forall bs, encodeS_fuel bits F v = Some bs -> (length bs <= k)%nat.
Proof.
  intros Hbits HF Hv Hk Hr bs HeF.
  destruct (encS_dec bits Hbits F bits v [] ltac:(lia) HF Hv) as [bsF [HeF' [_ [HlF _]]]].
  rewrite HeF in HeF'. injection HeF' as <-.
  destruct (le_lt_dec F k) as [H5|H5]; [lia|].
  assert (HkN : 7 * Z.of_nat k <= bits \/ bits < 7 * Z.of_nat k) by lia.
  destruct HkN as [HkN|HkN].
  - destruct (encS_dec bits Hbits k (7 * Z.of_nat k) v [] ltac:(lia) ltac:(lia) Hr) as [bs' [He [_ [Hl _]]]].
    pose proof (encS_mono_le bits k F v bs' Hbits Hv ltac:(lia) He) as He5.
    rewrite He5 in HeF. injection HeF as <-. exact Hl.
  - destruct (encS_dec bits Hbits k bits v [] ltac:(lia) ltac:(lia) Hv) as [bs' [He [_ [Hl _]]]].
    pose proof (encS_mono_le bits k F v bs' Hbits Hv ltac:(lia) He) as He5.
    rewrite He5 in HeF. injection HeF as <-. exact Hl.
Qed.

Lemma encS32_shortest v k : in_s 32 v -> (1 <= k)%nat -> in_s (7 * Z.of_nat k) v ->
  (length (encodeS32 v) <= k)%nat.
Proof.
  intros Hv Hk Hr. destruct (encS32_spec v [] Hv) as [He _].
  exact (encS_shortest_gen 32 5 v k ltac:(lia) ltac:(lia) Hv Hk Hr _ He).
Qed.

Lemma encS64_shortest v k : in_s 64 v -> (1 <= k)%nat -> in_s (7 * Z.of_nat k) v ->
  (length (encodeS64 v) <= k)%nat.
Proof.
  intros Hv Hk Hr. destruct (encS64_spec v [] Hv) as [He _].
  exact (encS_shortest_gen 64 10 v k ltac:(lia) ltac:(lia) Hv Hk Hr _ He).
Qed.

(* ------------------------------------------------------------------ strings, sections, limits *)

Lemma firstn_app_exact (s r : list Z) : firstn (length s) (s ++ r) = s.
Proof. induction s; cbn; [reflexivity|]. f_equal. assumption. Qed.

Lemma skipn_app_exact (s r : list Z) : skipn (length s) (s ++ r) = r.
Proof. induction s; cbn; [reflexivity|assumption]. Qed.

Lemma zlen_nonneg l : 0 <= zlen l.
Proof. unfold zlen; lia. Qed.

Lemma encString_roundtrip s rest : zlen s < 2 ^ 32 ->
  decode_bytes (encodeString s ++ rest) = Some (s, rest).
Proof.
  intros Hl. pose proof (zlen_nonneg s).
  assert (Hu : in_u32 (zlen s)) by (unfold in_u32; lia).
  unfold decode_bytes, encodeString. rewrite (wrap_u32_id _ Hu). rewrite <- app_assoc.
  rewrite (encU32_roundtrip _ _ Hu).
  assert (Hlt : (zlen (s ++ rest) <? zlen s) = false).
  { apply Z.ltb_ge. unfold zlen. rewrite app_length. lia. }
  rewrite Hlt. unfold zlen. rewrite Nat2Z.id.
  rewrite firstn_app_exact, skipn_app_exact. reflexivity.
Qed.

Lemma emitSection_roundtrip id c rest : zlen c < 2 ^ 32 ->
  parse_section (emitSection id c ++ rest) = Some (id, c, rest).
Proof.
  intros Hl. unfold emitSection, parse_section. cbn [app].
  change (encodeU32 (wrap_u32 (zlen c)) ++ c) with (encodeString c).
  rewrite (encString_roundtrip c rest Hl). reflexivity.
Qed.

Lemma encLimits_roundtrip v rest : in_u32 v ->
  decode_limits (encodeLimits v ++ rest) = Some (v, None, rest).
Proof.
  intros Hv. unfold encodeLimits, decode_limits. cbn [app].
  rewrite (encU32_roundtrip v rest Hv). reflexivity.
Qed.

(* ------------------------------------------------------------------ encodeLocals *)

Definition total (gs : list (Z * Z)) : Z := fold_right (fun g a => fst g + a) 0 gs.
Definition groups_ok (gs : list (Z * Z)) : Prop := Forall (fun g => 1 <= fst g) gs.

Lemma repeat_snoc (a : Z) n : repeat a (n + 1) = repeat a n ++ [a].
Proof. induction n; cbn; [reflexivity|]. f_equal. assumption. Qed.

Lemma total_nonneg gs : groups_ok gs -> 0 <= total gs.
Proof.
  induction 1 as [|g gs Hg Hgs IH]; [cbn; lia|].
  change (total (g :: gs)) with (fst g + total gs). lia.
Qed.

Lemma push_local_spec : forall gs t, groups_ok gs -> total gs + 1 < 2 ^ 32 ->
  expand_rle (push_local gs t) = expand_rle gs ++ [t]
  /\ groups_ok (push_local gs t)
  /\ total (push_local gs t) = total gs + 1
  /\ (length (push_local gs t) <= S (length gs))%nat.
Proof.
  induction gs as [|g gs IH]; intros t Hok Htot.
  - cbn. repeat split; try lia. repeat constructor; cbn; lia.
  - inversion Hok as [|? ? Hg Hgs]; subst.
    pose proof (total_nonneg gs Hgs) as Hnn.
    destruct gs as [|g' gs'].
    + cbn [push_local]. destruct g as [c ty]. cbn [fst snd] in *. cbn [total fold_right fst] in Htot.
      destruct (Z.eqb_spec ty t) as [->|Hne]; cbn [negb].
      * assert (Hw : wrap_u32 (c + 1) = c + 1) by (apply wrap_u32_id; unfold in_u32; lia).
        rewrite Hw. unfold expand_rle. cbn [flat_map fst snd]. rewrite !app_nil_r.
        rewrite Z2Nat.inj_add by lia. change (Z.to_nat 1) with 1%nat. rewrite repeat_snoc.
        repeat split; [repeat constructor; cbn; lia | cbn; lia | cbn; lia].
      * unfold expand_rle. cbn [flat_map fst snd]. rewrite !app_nil_r.
        change (Z.to_nat 1) with 1%nat. cbn [repeat].
        repeat split; [repeat constructor; cbn; lia | cbn; lia | cbn; lia].
    + change (push_local (g :: g' :: gs') t) with (g :: push_local (g' :: gs') t).
      assert (Htot' : total (g' :: gs') + 1 < 2 ^ 32).
      { change (total (g :: g' :: gs')) with (fst g + total (g' :: gs')) in Htot. lia. }
      destruct (IH t Hgs Htot') as [He [Ho [Ht Hl]]].
      change (expand_rle (g :: push_local (g' :: gs') t))
        with (repeat (snd g) (Z.to_nat (fst g)) ++ expand_rle (push_local (g' :: gs') t)).
      change (expand_rle (g :: g' :: gs'))
        with (repeat (snd g) (Z.to_nat (fst g)) ++ expand_rle (g' :: gs')).
      rewrite He, app_assoc.
      change (total (g :: push_local (g' :: gs') t)) with (fst g + total (push_local (g' :: gs') t)).
      change (total (g :: g' :: gs')) with (fst g + total (g' :: gs')).
      repeat split; [constructor; assumption | lia | cbn [length] in *; lia].
Qed.

Lemma local_groups_spec : forall l gs, groups_ok gs -> total gs + zlen l < 2 ^ 32 ->
  let gs' := fold_left push_local l gs in
  expand_rle gs' = expand_rle gs ++ l /\ groups_ok gs' /\ total gs' = total gs + zlen l
  /\ (length gs' <= length gs + length l)%nat.
Proof.
  induction l as [|t l IH]; intros gs Hok Htot; cbn zeta.
  - cbn [fold_left]. rewrite app_nil_r. unfold zlen; cbn [length]. repeat split; try lia. assumption.
  - cbn [fold_left]. unfold zlen in *. cbn [length] in *.
    destruct (push_local_spec gs t Hok ltac:(lia)) as [He [Ho [Ht Hl]]].
    destruct (IH (push_local gs t) Ho ltac:(lia)) as [He' [Ho' [Ht' Hl']]].
    rewrite He', He, <- app_assoc. cbn [app]. repeat split; try assumption; lia.
Qed.

Lemma group_count_le_total gs g : groups_ok gs -> In g gs -> fst g <= total gs.
Proof.
  induction 1 as [|h gs Hh Hgs IH]; intros Hin; [destruct Hin|].
  pose proof (total_nonneg gs Hgs). cbn [total fold_right]. fold (total gs).
  destruct Hin as [->|Hin]; [lia|]. specialize (IH Hin). lia.
Qed.

Lemma group_type_in_expand gs g : groups_ok gs -> In g gs -> In (snd g) (expand_rle gs).
Proof.
  induction 1 as [|h gs Hh Hgs IH]; intros Hin; [destruct Hin|].
  unfold expand_rle. cbn [flat_map]. apply in_or_app.
  destruct Hin as [->|Hin]; [left|right; apply IH; assumption].
  destruct (Z.to_nat (fst g)) eqn:E; [lia|]. cbn [repeat]. left; reflexivity.
Qed.

Lemma is_valtype_byte t : is_valtype t = true -> 0 <= t < 256.
Proof.
  unfold is_valtype. intros H.
  repeat (apply orb_prop in H; destruct H as [H|H]); apply Z.eqb_eq in H; lia.
Qed.

Lemma decode_groups_enc : forall gs rest,
  Forall (fun g => 1 <= fst g < 2 ^ 32 /\ is_valtype (snd g) = true) gs ->
  decode_groups (length gs) (flat_map encode_group gs ++ rest) = Some (expand_rle gs, rest).
Proof.
  induction gs as [|g gs IH]; intros rest H; [reflexivity|].
  inversion H as [|? ? [Hc Ht] Hgs]; subst.
  cbn [length decode_groups flat_map]. unfold encode_group at 1.
  rewrite (byte_of_small _ (is_valtype_byte _ Ht)).
  rewrite <- !app_assoc. rewrite (encU32_roundtrip (fst g) _ ltac:(unfold in_u32; lia)).
  cbn [app]. rewrite Ht. cbn [negb]. rewrite (IH rest Hgs). reflexivity.
Qed.

Lemma encLocals_roundtrip l rest :
  Forall (fun t => is_valtype t = true) l -> zlen l < 2 ^ 32 ->
  decode_locals (encodeLocals l ++ rest) = Some (l, rest).
Proof.
  intros Hty Hlen. destruct l as [|t0 l0]; [reflexivity|].
  set (l := t0 :: l0) in *.
  destruct (local_groups_spec l [] ltac:(constructor) ltac:(cbn [total fold_right]; lia))
    as [He [Ho [Ht Hl]]].
  cbn [expand_rle flat_map app total fold_right length] in He, Ht, Hl.
  change (expand_rle []) with (@nil Z) in He. cbn [app] in He.
  unfold decode_locals. change (encodeLocals l) with
    (encodeU32 (wrap_u32 (Z.of_nat (length (local_groups l)))) ++ flat_map encode_group (local_groups l)).
  fold (local_groups l) in He, Ho, Ht, Hl.
  assert (Hn : in_u32 (Z.of_nat (length (local_groups l)))) by (unfold in_u32, zlen in *; lia).
  rewrite (wrap_u32_id _ Hn). rewrite <- app_assoc. rewrite (encU32_roundtrip _ _ Hn).
  rewrite Nat2Z.id. rewrite decode_groups_enc; [rewrite He; reflexivity|].
  apply Forall_forall. intros g Hin. split.
  - pose proof (group_count_le_total _ g Ho Hin). pose proof (proj1 (Forall_forall _ _) Ho g Hin).
    cbn beta in *. lia.
  - pose proof (group_type_in_expand _ g Ho Hin) as Hi. rewrite He in Hi.
    exact (proj1 (Forall_forall _ _) Hty _ Hi).
Qed.

(* the groups really are maximal runs: neighbouring groups have different types (so the run-length form is
   the shortest one) *)
Fixpoint no_equal_neighbours (gs : list (Z * Z)) : Prop :=
  match gs with
  | [] => True
  | g :: tl => match tl with [] => True | h :: _ => snd g <> snd h /\ no_equal_neighbours tl end
  end.

Lemma push_local_neighbours : forall gs t, no_equal_neighbours gs -> no_equal_neighbours (push_local gs t).
Proof.
  induction gs as [|g gs IH]; intros t H; [exact I|].
  destruct gs as [|g' gs'].
  - cbn [push_local]. destruct (Z.eqb_spec (snd g) t); cbn [negb no_equal_neighbours snd]; auto.
  - change (push_local (g :: g' :: gs') t) with (g :: push_local (g' :: gs') t).
    destruct H as [Hne H]. specialize (IH t H).
    assert (Hhd : exists h tl, push_local (g' :: gs') t = h :: tl /\ snd h = snd g').
    { destruct gs' as [|g'' gs'']; cbn [push_local].
      - destruct (negb (snd g' =? t)); eexists; eexists; split; reflexivity.
      - eexists; eexists; split; reflexivity. }
    destruct Hhd as [h [tl [Eq Hs]]]. rewrite Eq in *. cbn [no_equal_neighbours].
    split; [rewrite Hs; assumption | assumption].
Qed.

Lemma local_groups_neighbours l : no_equal_neighbours (local_groups l).
Proof.
  unfold local_groups. assert (H : no_equal_neighbours []) by exact I. revert H.
  generalize (@nil (Z * Z)). induction l as [|t l IH]; intros gs H; cbn [fold_left]; [assumption|].
  apply IH. apply push_local_neighbours. assumption.
Qed.

(* ------------------------------------------------------------------ minimality against the specification decoder

   Whatever byte string the specification decoder accepts for a value, the encoder's output is not longer:
   the encoders produce the canonical shortest LEB128 form. *)

Lemma decode_uN_eq f N n tl : decode_uN (S f) N (n :: tl) =
  if negb (is_byte n) then None
  else if n <? 128 then (if n <? 2 ^ N then Some (n, tl) else None)
  else if 7 <? N then
    match decode_uN f (N - 7) tl with Some (m, r) => Some (128 * m + (n - 128), r) | None => None end
  else None.
Proof. reflexivity. Qed.

Lemma decode_sN_eq f N n tl : decode_sN (S f) N (n :: tl) =
  if negb (is_byte n) then None
  else if n <? 64 then (if n <? 2 ^ (N - 1) then Some (n, tl) else None)
  else if n <? 128 then (if 128 - 2 ^ (N - 1) <=? n then Some (n - 128, tl) else None)
  else if 7 <? N then
    match decode_sN f (N - 7) tl with Some (m, r) => Some (128 * m + (n - 128), r) | None => None end
  else None.
Proof. reflexivity. Qed.

Lemma is_byte_true n : negb (is_byte n) = false -> 0 <= n < 256.
Proof.
  intros H. apply negb_false_iff in H. unfold is_byte in H. apply andb_prop in H.
  destruct H as [H0 H1]. apply Z.leb_le in H0. apply Z.ltb_lt in H1. lia.
Qed.

Lemma decU_inv : forall f N bs v rest, decode_uN f N bs = Some (v, rest) ->
  exists used, bs = used ++ rest /\ (1 <= length used)%nat /\ 0 <= v < 2 ^ (7 * Z.of_nat (length used)).
Proof.
  induction f as [|f IH]; intros N bs v rest H; [destruct bs; discriminate H|].
  destruct bs as [|n tl]; [discriminate H|].
  rewrite decode_uN_eq in H.
  destruct (negb (is_byte n)) eqn:Eb; [discriminate H|]. apply is_byte_true in Eb.
  destruct (Z.ltb_spec n 128).
  - destruct (n <? 2 ^ N); [|discriminate H]. injection H as <- <-.
    exists [n]. split; [reflexivity|]. split; [cbn [length]; lia|].
    cbn [length]. change (2 ^ (7 * Z.of_nat 1)) with 128. lia.
  - destruct (7 <? N); [|discriminate H].
    destruct (decode_uN f (N - 7) tl) as [[m r]|] eqn:E; [|discriminate H].
    assert (Hvr : 128 * m + (n - 128) = v /\ r = rest) by (split; congruence).
    clear H. destruct Hvr as [<- <-]. destruct (IH _ _ _ _ E) as [u [-> [Hl Hm]]].
    exists (n :: u). split; [reflexivity|]. split; [cbn [length]; lia|].
    cbn [length]. rewrite (pow2_split (7 * Z.of_nat (S (length u)))) by lia.
    replace (7 * Z.of_nat (S (length u)) - 7) with (7 * Z.of_nat (length u)) by lia. lia.
Qed.

Lemma decS_inv : forall f N bs v rest, decode_sN f N bs = Some (v, rest) ->
  exists used, bs = used ++ rest /\ (1 <= length used)%nat /\ in_s (7 * Z.of_nat (length used)) v.
Proof.
  induction f as [|f IH]; intros N bs v rest H; [destruct bs; discriminate H|].
  destruct bs as [|n tl]; [discriminate H|].
  rewrite decode_sN_eq in H.
  destruct (negb (is_byte n)) eqn:Eb; [discriminate H|]. apply is_byte_true in Eb.
  destruct (Z.ltb_spec n 64); [|destruct (Z.ltb_spec n 128)].
  - destruct (n <? 2 ^ (N - 1)); [|discriminate H]. injection H as <- <-.
    exists [n]. split; [reflexivity|]. split; [cbn [length]; lia|].
    cbn [length]. unfold in_s. change (2 ^ (7 * Z.of_nat 1 - 1)) with 64. lia.
  - destruct (128 - 2 ^ (N - 1) <=? n); [|discriminate H]. injection H as <- <-.
    exists [n]. split; [reflexivity|]. split; [cbn [length]; lia|].
    cbn [length]. unfold in_s. change (2 ^ (7 * Z.of_nat 1 - 1)) with 64. lia.
  - destruct (7 <? N); [|discriminate H].
    destruct (decode_sN f (N - 7) tl) as [[m r]|] eqn:E; [|discriminate H].
    assert (Hvr : 128 * m + (n - 128) = v /\ r = rest) by (split; congruence).
    clear H. destruct Hvr as [<- <-]. destruct (IH _ _ _ _ E) as [u [-> [Hl Hm]]].
    exists (n :: u). split; [reflexivity|]. split; [cbn [length]; lia|].
    cbn [length]. unfold in_s in *.
    rewrite (pow2_split (7 * Z.of_nat (S (length u)) - 1)) by lia.
    replace (7 * Z.of_nat (S (length u)) - 1 - 7) with (7 * Z.of_nat (length u) - 1) by lia. lia.
Qed.

Lemma encU32_minimal v bs rest : in_u32 v -> decode_u32 (bs ++ rest) = Some (v, rest) ->
  (length (encodeU32 v) <= length bs)%nat.
Proof.
  intros Hv H. destruct (decU_inv _ _ _ _ _ H) as [u [Eq [Hl Hr]]].
  apply app_inv_tail in Eq. subst u. apply encU32_shortest; [assumption|assumption|lia].
Qed.

Lemma encS32_minimal v bs rest : in_s 32 v -> decode_s32 (bs ++ rest) = Some (v, rest) ->
  (length (encodeS32 v) <= length bs)%nat.
Proof.
  intros Hv H. destruct (decS_inv _ _ _ _ _ H) as [u [Eq [Hl Hr]]].
  apply app_inv_tail in Eq. subst u. apply encS32_shortest; assumption.
Qed.

Lemma encS64_minimal v bs rest : in_s 64 v -> decode_s64 (bs ++ rest) = Some (v, rest) ->
  (length (encodeS64 v) <= length bs)%nat.
Proof.
  intros Hv H. destruct (decS_inv _ _ _ _ _ H) as [u [Eq [Hl Hr]]].
  apply app_inv_tail in Eq. subst u. apply encS64_shortest; assumption.
Qed.
