(* C17 — the ported hash map (Models/MapRt.v): representation invariant, get-after-set algebra, rehash, iteration.
   Everything here holds for EVERY hash function and every key type with a correct equality test.
   Pure Coq stdlib; the refinement to std++ gmap is in MapRtG.v. *)
From Coq Require Import ZArith List Bool Lia Permutation.
From FV Require Import Models.MapRt.
Import ListNotations.
Open Scope Z_scope.

(* ---- upd *)
Lemma upd_length : forall A (f : A -> A) l j, length (upd j f l) = length l.
Proof. induction l as [|x l IH]; intros j; simpl; [reflexivity|]. destruct j; simpl; [reflexivity|]. rewrite IH. reflexivity. Qed.

Lemma nth_upd_eq : forall A (f : A -> A) d l j, (j < length l)%nat -> nth j (upd j f l) d = f (nth j l d).
Proof. induction l as [|x l IH]; intros j H; simpl in H; [lia|]. destruct j; simpl; [reflexivity|]. apply IH. lia. Qed.

Lemma nth_upd_neq : forall A (f : A -> A) d l j j', j <> j' -> nth j' (upd j f l) d = nth j' l d.
Proof.
  induction l as [|x l IH]; intros j j' H; simpl; [reflexivity|].
  destruct j; destruct j'; simpl; try reflexivity; try lia. apply IH. lia.
Qed.

Lemma concat_upd_cons : forall A (e : A) bs j, (j < length bs)%nat ->
  Permutation (concat (upd j (cons e) bs)) (e :: concat bs).
Proof.
  induction bs as [|b bs IH]; intros j H; simpl in H; [lia|].
  destruct j; simpl; [reflexivity|].
  rewrite IH by lia. apply Permutation_sym, Permutation_middle.
Qed.

Lemma map_concat_upd : forall A B (g : A -> B) (f : list A -> list A),
  (forall c, map g (f c) = map g c) ->
  forall bs j, map g (concat (upd j f bs)) = map g (concat bs).
Proof.
  intros A B g f Hf. induction bs as [|b bs IH]; intros j; simpl; [reflexivity|].
  destruct j; simpl; rewrite !map_app; [rewrite Hf; reflexivity|rewrite IH; reflexivity].
Qed.

Lemma in_concat_nth : forall A (e : A) bs, In e (concat bs) <-> exists j, (j < length bs)%nat /\ In e (nth j bs []).
Proof.
  intros A e. induction bs as [|b bs IH]; simpl.
  - split; [tauto|]. intros (j & H & _). lia.
  - rewrite in_app_iff, IH. split.
    + intros [H|(j & H1 & H2)]; [exists 0%nat; split; [lia|assumption]|exists (S j); split; [lia|assumption]].
    + intros (j & H1 & H2). destruct j; [left; assumption|right; exists j; split; [lia|assumption]].
Qed.

Lemma nth_repeat_nil : forall A n j, nth j (repeat (@nil A) n) [] = [].
Proof. induction n; intros j; destruct j; simpl; auto. Qed.

Lemma concat_repeat_nil : forall A n, concat (repeat (@nil A) n) = [].
Proof. induction n; simpl; auto. Qed.

Lemma option_eq_iff : forall A (a b : option A), (forall v, a = Some v <-> b = Some v) -> a = b.
Proof.
  intros A a b H. destruct a as [x|].
  - symmetry. apply H. reflexivity.
  - destruct b as [y|]; [|reflexivity]. apply H. reflexivity.
Qed.

Lemma NoDup_app_both : forall A (a b : list A), NoDup (a ++ b) -> NoDup a /\ NoDup b.
Proof.
  induction a as [|x a IH]; intros b H; simpl in *.
  - split; [constructor|assumption].
  - inversion H as [|? ? Hx Hn]; subst. destruct (IH b Hn) as [H1 H2]. split; [|assumption].
    constructor; [|assumption]. intros Hin. apply Hx. apply in_or_app. left. assumption.
Qed.

Section MapProofs.
Variables K V : Type.
Variable eqb : K -> K -> bool.
Variable hash : K -> Z.
Hypothesis eqb_spec : forall a b, eqb a b = true <-> a = b.

Notation entry := (entry K V).
Notation map_t := (map_t K V).
Notation map_get := (map_get K V eqb hash).
Notation map_set := (map_set K V eqb hash).
Notation map_resize := (map_resize K V hash).
Notation chain_find := (chain_find K V eqb).
Notation chain_replace := (chain_replace K V eqb).

Lemma eqb_refl : forall k, eqb k k = true.
Proof. intros k. apply eqb_spec. reflexivity. Qed.
Lemma eqb_false : forall a b, eqb a b = false <-> a <> b.
Proof.
  intros a b. split.
  - intros H E. apply eqb_spec in E. congruence.
  - intros H. destruct (eqb a b) eqn:E; [|reflexivity]. apply eqb_spec in E. contradiction.
Qed.

Definition kv (e : entry) : K * V := (e_key e, e_val e).
Definition kvs (m : map_t) : list (K * V) := map kv (concat (buckets m)).

(* representation invariant *)
Definition wf (bs : list (list entry)) : Prop :=
  (0 < length bs)%nat /\
  (forall j e, (j < length bs)%nat -> In e (nth j bs []) ->
               e_hash e = hash (e_key e) /\ bidx (hash (e_key e)) (length bs) = j) /\
  NoDup (map e_key (concat bs)).
Definition minv (m : map_t) : Prop :=
  wf (buckets m) /\ msize m = Z.of_nat (length (concat (buckets m))).

Lemma bidx_lt : forall hv n, (0 < n)%nat -> (bidx hv n < n)%nat.
Proof.
  intros hv n H. unfold bidx.
  assert (0 <= hv mod Z.of_nat n < Z.of_nat n) by (apply Z.mod_pos_bound; lia). lia.
Qed.

(* ---- chain walk *)
Lemma chain_find_some : forall hv k c e, chain_find hv k c = Some e -> In e c /\ e_hash e = hv /\ e_key e = k.
Proof.
  induction c as [|x c IH]; intros e H; simpl in H; [discriminate|].
  destruct ((e_hash x =? hv) && eqb (e_key x) k) eqn:Hm.
  - inversion H; subst. apply andb_true_iff in Hm. destruct Hm as [H1 H2].
    split; [left; reflexivity|]. split; [lia|apply eqb_spec; assumption].
  - destruct (IH e H) as (H1 & H2). split; [right; assumption|assumption].
Qed.

Lemma chain_find_none : forall hv k c, chain_find hv k c = None ->
  forall e, In e c -> ~ (e_hash e = hv /\ e_key e = k).
Proof.
  induction c as [|x c IH]; intros H e He; simpl in *; [contradiction|].
  destruct ((e_hash x =? hv) && eqb (e_key x) k) eqn:Hm; [discriminate|].
  destruct He as [He|He].
  - subst x. intros [H1 H2]. subst. rewrite Z.eqb_refl, eqb_refl in Hm. discriminate.
  - apply IH; assumption.
Qed.

Lemma chain_find_in_unique : forall hv k c e, NoDup (map e_key c) -> In e c -> e_hash e = hv -> e_key e = k ->
  chain_find hv k c = Some e.
Proof.
  induction c as [|x c IH]; intros e Hnd He Hh Hk; simpl in *; [contradiction|].
  inversion Hnd as [|? ? Hx Hnd']; subst.
  destruct He as [He|He].
  - subst x. rewrite Z.eqb_refl, eqb_refl. reflexivity.
  - destruct ((e_hash x =? e_hash e) && eqb (e_key x) (e_key e)) eqn:Hm.
    + apply andb_true_iff in Hm. destruct Hm as [_ Hm]. apply eqb_spec in Hm.
      exfalso. apply Hx. rewrite Hm. apply in_map. assumption.
    + apply IH; auto.
Qed.

Lemma chain_replace_keys : forall hv k v c, map e_key (chain_replace hv k v c) = map e_key c.
Proof.
  induction c as [|x c IH]; simpl; [reflexivity|].
  destruct ((e_hash x =? hv) && eqb (e_key x) k); simpl; [reflexivity|]. rewrite IH. reflexivity.
Qed.

Lemma chain_replace_length : forall hv k v c, length (chain_replace hv k v c) = length c.
Proof. intros. rewrite <- (map_length e_key), chain_replace_keys, map_length. reflexivity. Qed.

Lemma chain_replace_in : forall hv k v c e, In e (chain_replace hv k v c) ->
  exists e0, In e0 c /\ e_key e = e_key e0 /\ e_hash e = e_hash e0.
Proof.
  induction c as [|x c IH]; intros e H; simpl in H; [contradiction|].
  destruct ((e_hash x =? hv) && eqb (e_key x) k).
  - destruct H as [H|H].
    + subst e. exists x. simpl. auto.
    + exists e. simpl. auto.
  - destruct H as [H|H].
    + subst e. exists x. simpl. auto.
    + destruct (IH e H) as (e0 & H1 & H2). exists e0. simpl. auto.
Qed.

Lemma find_replace_same : forall hv k v c,
  chain_find hv k (chain_replace hv k v c) =
  match chain_find hv k c with Some e => Some (mkEntry (e_key e) (e_hash e) v) | None => None end.
Proof.
  induction c as [|x c IH]; simpl; [reflexivity|].
  destruct ((e_hash x =? hv) && eqb (e_key x) k) eqn:Hm; simpl; rewrite Hm; [reflexivity|]. apply IH.
Qed.

Lemma find_replace_other : forall hv k v hv' k' c, eqb k k' = false ->
  option_map e_val (chain_find hv' k' (chain_replace hv k v c)) = option_map e_val (chain_find hv' k' c).
Proof.
  intros hv k v hv' k' c Hne. induction c as [|x c IH]; simpl; [reflexivity|].
  destruct ((e_hash x =? hv) && eqb (e_key x) k) eqn:Hm; simpl.
  - apply andb_true_iff in Hm. destruct Hm as [_ Hm]. apply eqb_spec in Hm.
    rewrite Hm, Hne, andb_false_r. reflexivity.
  - destruct ((e_hash x =? hv') && eqb (e_key x) k'); [reflexivity|apply IH].
Qed.

Lemma nodup_bucket : forall (bs : list (list entry)) j,
  NoDup (map e_key (concat bs)) -> NoDup (map e_key (nth j bs [])).
Proof.
  induction bs as [|b bs IH]; intros j H.
  - destruct j; constructor.
  - simpl in H. rewrite map_app in H. destruct j; simpl.
    + apply NoDup_app_both in H. apply H.
    + apply IH. apply NoDup_app_both in H. apply H.
Qed.

(* ---- membership <-> lookup *)
Lemma mem_get : forall m k v, minv m -> (In (k, v) (kvs m) <-> map_get m k = Some v).
Proof.
  intros m k v ((Hn & Hp & Hnd) & _). unfold kvs, map_get.
  set (n := length (buckets m)) in *. set (j := bidx (hash k) n).
  assert (Hj : (j < n)%nat) by (apply bidx_lt; assumption).
  split.
  - intros H. apply in_map_iff in H. destruct H as (e & He & Hin). inversion He; subst.
    apply in_concat_nth in Hin. destruct Hin as (j' & Hj' & Hin).
    destruct (Hp j' e Hj' Hin) as [Hh Hb]. fold n in Hb. fold j in Hb. subst j'.
    assert (Hnd' : NoDup (map e_key (nth j (buckets m) []))) by (apply nodup_bucket; assumption).
    rewrite (chain_find_in_unique (hash (e_key e)) (e_key e) _ e Hnd' Hin Hh eq_refl). reflexivity.
  - intros H. destruct (chain_find (hash k) k (nth j (buckets m) [])) as [e|] eqn:Hf; [|discriminate].
    simpl in H. inversion H; subst. apply chain_find_some in Hf. destruct Hf as (Hin & _ & Hk). subst k.
    apply in_map_iff. exists e. split; [reflexivity|]. apply in_concat_nth. exists j. split; assumption.
Qed.

Lemma get_none_notin : forall m k, minv m -> map_get m k = None -> ~ In k (map e_key (concat (buckets m))).
Proof.
  intros m k Hm H Hin. apply in_map_iff in Hin. destruct Hin as (e & Hk & Hin).
  assert (In (k, e_val e) (kvs m)) by (unfold kvs; apply in_map_iff; exists e; subst; auto).
  apply (mem_get m k (e_val e) Hm) in H0. congruence.
Qed.

(* ---- new *)
Lemma new_inv : minv (@map_new K V).
Proof.
  unfold minv, wf, map_new, initial_buckets. cbn [buckets msize]. rewrite concat_repeat_nil, repeat_length.
  split; [|reflexivity]. split; [lia|]. split; [|constructor].
  intros j e _ H. rewrite nth_repeat_nil in H. contradiction.
Qed.

(* ---- resize *)
Definition rehash (e : entry) : entry := mkEntry (e_key e) (hash (e_key e)) (e_val e).

Lemma rehash_fold : forall n es bs, (0 < n)%nat -> length bs = n ->
  let bs' := fold_left (rehash_one K V hash n) es bs in
  length bs' = n /\
  Permutation (concat bs') (map rehash (rev es) ++ concat bs) /\
  ((forall j e, (j < n)%nat -> In e (nth j bs []) -> e_hash e = hash (e_key e) /\ bidx (hash (e_key e)) n = j) ->
   (forall j e, (j < n)%nat -> In e (nth j bs' []) -> e_hash e = hash (e_key e) /\ bidx (hash (e_key e)) n = j)).
Proof.
  intros n es. induction es as [|x es IH]; intros bs Hn Hl; simpl.
  - split; [assumption|]. split; [reflexivity|]. auto.
  - set (b1 := rehash_one K V hash n bs x).
    assert (Hl1 : length b1 = n) by (unfold b1, rehash_one; rewrite upd_length; assumption).
    destruct (IH b1 Hn Hl1) as (H1 & H2 & H3). split; [assumption|]. split.
    + rewrite H2. rewrite map_app. simpl. rewrite <- app_assoc. simpl.
      apply Permutation_app_head. unfold b1, rehash_one.
      rewrite concat_upd_cons by (rewrite Hl; apply bidx_lt; assumption). reflexivity.
    + intros Hp. apply H3. intros j e Hj Hin. unfold b1, rehash_one in Hin.
      destruct (Nat.eq_dec (bidx (hash (e_key x)) n) j) as [E|E].
      * rewrite <- E in Hin. rewrite nth_upd_eq in Hin by (rewrite Hl; apply bidx_lt; assumption).
        destruct Hin as [Hin|Hin].
        -- subst e. simpl. auto.
        -- rewrite E in Hin. apply Hp; assumption.
      * rewrite nth_upd_neq in Hin by assumption. apply Hp; assumption.
Qed.

Lemma resize_spec : forall m n, (0 < n)%nat -> minv m ->
  minv (map_resize m n) /\ Permutation (kvs (map_resize m n)) (kvs m).
Proof.
  intros m n Hn ((Hn0 & Hp & Hnd) & Hs).
  destruct (rehash_fold n (concat (buckets m)) (repeat [] n) Hn (repeat_length _ _)) as (H1 & H2 & H3).
  rewrite concat_repeat_nil, app_nil_r in H2.
  assert (Hk : Permutation (map e_key (concat (buckets (map_resize m n)))) (map e_key (concat (buckets m)))).
  { unfold map_resize. cbn [buckets]. rewrite H2, map_map.
    change (Permutation (map e_key (rev (concat (buckets m)))) (map e_key (concat (buckets m)))).
    apply Permutation_map, Permutation_sym, Permutation_rev. }
  split.
  - split.
    + unfold map_resize in *. cbn [buckets] in *. unfold wf. rewrite H1. split; [assumption|]. split.
      * apply H3. intros j e _ Hin. rewrite nth_repeat_nil in Hin. contradiction.
      * eapply Permutation_NoDup; [apply Permutation_sym; exact Hk|assumption].
    + unfold map_resize at 1. cbn [msize]. rewrite Hs. f_equal.
      rewrite <- (map_length e_key), <- (map_length e_key (concat (buckets (map_resize m n)))).
      symmetry. apply Permutation_length. assumption.
  - unfold kvs, map_resize. cbn [buckets]. rewrite H2, map_map.
    change (Permutation (map kv (rev (concat (buckets m)))) (map kv (concat (buckets m)))).
    apply Permutation_map, Permutation_sym, Permutation_rev.
Qed.

Lemma get_resize : forall m n k, (0 < n)%nat -> minv m -> map_get (map_resize m n) k = map_get m k.
Proof.
  intros m n k Hn Hm. destruct (resize_spec m n Hn Hm) as [Hi Hperm].
  apply option_eq_iff. intros v. rewrite <- (mem_get _ k v Hi), <- (mem_get _ k v Hm).
  split; apply Permutation_in; [assumption|apply Permutation_sym; assumption].
Qed.

(* ---- set *)
Definition maybe_resize (m : map_t) : map_t :=
  if msize m >=? threshold (length (buckets m)) then map_resize m (2 * length (buckets m)) else m.

Lemma maybe_resize_spec : forall m, minv m ->
  minv (maybe_resize m) /\ Permutation (kvs (maybe_resize m)) (kvs m) /\
  forall k, map_get (maybe_resize m) k = map_get m k.
Proof.
  intros m Hm. unfold maybe_resize. destruct (msize m >=? threshold (length (buckets m))).
  - assert (Hn : (0 < 2 * length (buckets m))%nat) by (destruct Hm as ((H & _) & _); lia).
    destruct (resize_spec m _ Hn Hm). split; [assumption|]. split; [assumption|].
    intros k. apply get_resize; assumption.
  - split; [assumption|]. split; [reflexivity|]. reflexivity.
Qed.

Definition set_core (m1 : map_t) (k : K) (v : V) : map_t :=
  let hv := hash k in
  let j := bidx hv (length (buckets m1)) in
  match chain_find hv k (nth j (buckets m1) []) with
  | Some _ => mkMap (upd j (chain_replace hv k v) (buckets m1)) (msize m1)
  | None => mkMap (upd j (cons (mkEntry k hv v)) (buckets m1)) (msize m1 + 1)
  end.

Lemma map_set_unfold : forall m k v, map_set m k v = set_core (maybe_resize m) k v.
Proof. reflexivity. Qed.

Lemma set_core_inv : forall m k v, minv m -> minv (set_core m k v).
Proof.
  intros m k v Hm. pose proof Hm as ((Hn & Hp & Hnd) & Hs). unfold set_core.
  set (n := length (buckets m)) in *. set (j := bidx (hash k) n).
  assert (Hj : (j < n)%nat) by (apply bidx_lt; assumption).
  destruct (chain_find (hash k) k (nth j (buckets m) [])) as [e0|] eqn:Hf.
  - split; [split; [|split]|]; cbn [buckets msize].
    + rewrite upd_length. assumption.
    + rewrite upd_length. fold n. intros j' e Hj' Hin.
      destruct (Nat.eq_dec j j') as [E|E].
      * subst j'. rewrite nth_upd_eq in Hin by assumption.
        apply chain_replace_in in Hin. destruct Hin as (e1 & Hin1 & Hk & Hh).
        destruct (Hp j e1 Hj Hin1) as [A B]. rewrite Hk, Hh. auto.
      * rewrite nth_upd_neq in Hin by assumption. apply Hp; assumption.
    + rewrite (map_concat_upd _ _ e_key _ (chain_replace_keys (hash k) k v)). assumption.
    + rewrite Hs. f_equal.
      rewrite <- (map_length e_key (concat (buckets m))).
      rewrite <- (map_concat_upd _ _ e_key _ (chain_replace_keys (hash k) k v) (buckets m) j).
      rewrite map_length. reflexivity.
  - assert (Hperm := concat_upd_cons _ (mkEntry k (hash k) v) (buckets m) j Hj).
    split; [split; [|split]|]; cbn [buckets msize].
    + rewrite upd_length. assumption.
    + rewrite upd_length. fold n. intros j' e Hj' Hin.
      destruct (Nat.eq_dec j j') as [E|E].
      * subst j'. rewrite nth_upd_eq in Hin by assumption. destruct Hin as [Hin|Hin].
        -- subst e. simpl. auto.
        -- apply Hp; assumption.
      * rewrite nth_upd_neq in Hin by assumption. apply Hp; assumption.
    + eapply Permutation_NoDup; [apply Permutation_sym, Permutation_map; exact Hperm|].
      simpl. constructor; [|assumption].
      apply (get_none_notin m k Hm). unfold map_get. fold n. fold j. rewrite Hf. reflexivity.
    + rewrite (Permutation_length Hperm). simpl. lia.
Qed.

Lemma get_set_core : forall m k v k', minv m ->
  map_get (set_core m k v) k' = if eqb k k' then Some v else map_get m k'.
Proof.
  intros m k v k' Hm. pose proof Hm as ((Hn & Hp & Hnd) & Hs). unfold set_core, map_get.
  set (n := length (buckets m)) in *. set (j := bidx (hash k) n).
  assert (Hj : (j < n)%nat) by (apply bidx_lt; assumption).
  destruct (eqb k k') eqn:Ek.
  - apply eqb_spec in Ek. subst k'. fold j.
    destruct (chain_find (hash k) k (nth j (buckets m) [])) as [e0|] eqn:Hf; cbn [buckets]; rewrite upd_length; fold n; fold j;
      rewrite nth_upd_eq by assumption.
    + rewrite find_replace_same, Hf. reflexivity.
    + simpl. rewrite Z.eqb_refl, eqb_refl. reflexivity.
  - set (j' := bidx (hash k') n).
    destruct (chain_find (hash k) k (nth j (buckets m) [])) as [e0|] eqn:Hf; cbn [buckets]; rewrite upd_length; fold n; fold j'.
    + destruct (Nat.eq_dec j j') as [E|E].
      * rewrite <- E. rewrite nth_upd_eq by assumption. apply find_replace_other. assumption.
      * rewrite nth_upd_neq by assumption. reflexivity.
    + destruct (Nat.eq_dec j j') as [E|E].
      * rewrite <- E. rewrite nth_upd_eq by assumption. simpl. rewrite Ek, andb_false_r. reflexivity.
      * rewrite nth_upd_neq by assumption. reflexivity.
Qed.

Theorem set_inv : forall m k v, minv m -> minv (map_set m k v).
Proof.
  intros m k v Hm. rewrite map_set_unfold. apply set_core_inv. apply maybe_resize_spec. assumption.
Qed.

Theorem get_set : forall m k v k', minv m ->
  map_get (map_set m k v) k' = if eqb k k' then Some v else map_get m k'.
Proof.
  intros m k v k' Hm. rewrite map_set_unfold. destruct (maybe_resize_spec m Hm) as (Hi & _ & Hg).
  rewrite get_set_core by assumption. rewrite Hg. reflexivity.
Qed.

(* ---- from_pairs *)
Lemma grow_pow2_pos : forall fuel nb needed, (0 < nb)%nat -> (0 < grow_pow2 fuel nb needed)%nat.
Proof.
  induction fuel as [|f IH]; intros nb needed H; simpl; [assumption|].
  destruct (Z.of_nat nb <? needed); [apply IH; lia|assumption].
Qed.

Definition from_pairs_start (ps : list (K * V)) : map_t :=
  let count := Z.of_nat (length ps) in
  let needed := (4 * count) / 3 + 1 in
  if needed >? Z.of_nat (length (buckets (@map_new K V)))
  then map_resize map_new (grow_pow2 64 initial_buckets needed) else map_new.

Lemma from_pairs_unfold : forall ps,
  map_from_pairs K V eqb hash ps = fold_left (fun m p => map_set m (fst p) (snd p)) ps (from_pairs_start ps).
Proof. reflexivity. Qed.

Lemma get_new : forall k, map_get (@map_new K V) k = None.
Proof.
  intros k. unfold map_get, map_new. cbn [buckets]. rewrite nth_repeat_nil. reflexivity.
Qed.

Lemma from_pairs_start_spec : forall ps, minv (from_pairs_start ps) /\ forall k, map_get (from_pairs_start ps) k = None.
Proof.
  intros ps. unfold from_pairs_start.
  destruct ((4 * Z.of_nat (length ps)) / 3 + 1 >? Z.of_nat (length (buckets (@map_new K V)))).
  - assert (Hn : (0 < grow_pow2 64 initial_buckets (4 * Z.of_nat (length ps) / 3 + 1))%nat)
      by (apply grow_pow2_pos; unfold initial_buckets; lia).
    split; [apply resize_spec; [assumption|apply new_inv]|].
    intros k. rewrite get_resize by (try assumption; apply new_inv). apply get_new.
  - split; [apply new_inv|apply get_new].
Qed.

(* ---- iteration *)
Notation scan := (scan K V).
Notation iter_next := (iter_next K V).
Notation iter_loop := (iter_loop K V).

Lemma scan_spec : forall bs, concat bs = snd (scan bs) ++ concat (fst (scan bs)) /\ (snd (scan bs) = [] -> fst (scan bs) = []).
Proof.
  induction bs as [|b bs IH]; simpl; [auto|].
  destruct b as [|e b]; simpl; [assumption|]. split; [reflexivity|discriminate].
Qed.

Lemma iter_loop_spec : forall fuel (it : iter_t K V),
  (snd it = [] -> fst it = []) -> (length (snd it ++ concat (fst it)) < fuel)%nat ->
  iter_loop fuel it = map kv (snd it ++ concat (fst it)).
Proof.
  induction fuel as [|f IH]; intros [rest c] Hi Hl; simpl in *; [lia|].
  unfold MapRt.iter_next. simpl.
  destruct c as [|e c]; simpl.
  - rewrite (Hi eq_refl). reflexivity.
  - unfold kv at 1. f_equal. destruct c as [|e' c].
    + destruct (scan_spec rest) as [H1 H2]. rewrite IH; [|assumption|].
      * simpl. rewrite H1. reflexivity.
      * rewrite <- H1. simpl in Hl. lia.
    + rewrite IH; [reflexivity|simpl; discriminate|simpl in *; lia].
Qed.

Theorem iterate_spec : forall m, minv m -> map_iterate K V m = kvs m.
Proof.
  intros m (_ & Hs). unfold map_iterate, iter_begin, kvs.
  destruct (msize m =? 0) eqn:E.
  - assert (length (concat (buckets m)) = 0)%nat by lia.
    destruct (concat (buckets m)); [reflexivity|simpl in *; lia].
  - cbn [snd]. destruct (scan_spec (buckets m)) as [H1 H2].
    rewrite iter_loop_spec; [rewrite <- H1; reflexivity|assumption|rewrite <- H1; lia].
Qed.

Lemma kvs_nodup_keys : forall m, minv m -> NoDup (map fst (kvs m)).
Proof.
  intros m ((_ & _ & Hnd) & _). unfold kvs. rewrite map_map. simpl. assumption.
Qed.

Lemma size_spec : forall m, minv m -> map_size K V m = Z.of_nat (length (kvs m)).
Proof.
  intros m (_ & Hs). unfold map_size, kvs. rewrite map_length. assumption.
Qed.

(* ---- gmap-free statement of "most recently stored": the last pair for k in the list of sets *)
Fixpoint last_set (k : K) (ps : list (K * V)) (acc : option V) : option V :=
  match ps with
  | [] => acc
  | p :: t => last_set k t (if eqb (fst p) k then Some (snd p) else acc)
  end.

Lemma fold_set_spec : forall ps m, minv m ->
  let m' := fold_left (fun m p => map_set m (fst p) (snd p)) ps m in
  minv m' /\ forall k, map_get m' k = last_set k ps (map_get m k).
Proof.
  induction ps as [|p ps IH]; intros m Hm; simpl; [auto|].
  destruct (IH (map_set m (fst p) (snd p)) (set_inv _ _ _ Hm)) as [H1 H2].
  split; [assumption|]. intros k. rewrite H2. rewrite get_set by assumption. reflexivity.
Qed.

Theorem get_latest : forall ps k,
  map_get (fold_left (fun m p => map_set m (fst p) (snd p)) ps map_new) k = last_set k ps None.
Proof.
  intros ps k. destruct (fold_set_spec ps map_new new_inv) as [_ H]. rewrite H, get_new. reflexivity.
Qed.

Theorem from_pairs_is_fold : forall ps,
  minv (map_from_pairs K V eqb hash ps) /\
  forall k, map_get (map_from_pairs K V eqb hash ps) k = last_set k ps None.
Proof.
  intros ps. rewrite from_pairs_unfold. destruct (from_pairs_start_spec ps) as [Hi Hg].
  destruct (fold_set_spec ps _ Hi) as [H1 H2]. split; [assumption|]. intros k. rewrite H2, Hg. reflexivity.
Qed.

(* every bucket index computed by get/set is inside the bucket array *)
Theorem bucket_index_in_range : forall m k, minv m -> (bidx (hash k) (length (buckets m)) < length (buckets m))%nat.
Proof. intros m k ((H & _) & _). apply bidx_lt. assumption. Qed.

End MapProofs.

(* ---- optional out-layout round trip *)
Lemma firstn_app_exact : forall A (a b : list A) n, length a = n -> firstn n (a ++ b) = a.
Proof.
  intros A a b n H. rewrite firstn_app. rewrite firstn_all2 by lia.
  replace (n - length a)%nat with 0%nat by lia. simpl. apply app_nil_r.
Qed.

Lemma nth_app_exact : forall (a b : list Z) n x, length a = n -> nth n (a ++ x :: b) 0 = x.
Proof.
  intros a b n x H. rewrite app_nth2 by lia. replace (n - length a)%nat with 0%nat by lia. reflexivity.
Qed.

Theorem optional_roundtrip : forall vsize (r : option bytes) (d out out' : bytes),
  vsize <> 0%nat -> (forall v, r = Some v -> length v = vsize) -> length d = vsize ->
  (vsize < length out)%nat -> length out' = vsize ->
  optional_unwrap_or (write_optional vsize r out) (Some d) out' vsize = match r with Some v => v | None => d end.
Proof.
  intros vsize r d out out' Hv Hr Hd Ho Ho'. unfold optional_unwrap_or, write_optional.
  destruct (Nat.eqb_spec vsize 0); [contradiction|].
  assert (Hs : skipn vsize out' = []) by (apply skipn_all2; lia).
  destruct r as [v|].
  - specialize (Hr v eq_refl). rewrite (firstn_all2 v) by lia.
    rewrite nth_app_exact by assumption. simpl.
    rewrite firstn_app_exact by assumption. rewrite Hs. apply app_nil_r.
  - rewrite nth_app_exact by (rewrite firstn_length; lia). simpl.
    rewrite (firstn_all2 d) by lia. rewrite Hs. apply app_nil_r.
Qed.

(* ---- the executable instance satisfies the hypothesis on the equality test *)
Lemma bytes_eqb_spec : forall a b, bytes_eqb a b = true <-> a = b.
Proof.
  induction a as [|x a IH]; destruct b as [|y b]; simpl; try (split; [discriminate|discriminate]); [tauto|].
  rewrite andb_true_iff, Z.eqb_eq, IH. split; [intros [H1 H2]; congruence|intros H; inversion H; auto].
Qed.

(* a concrete non-trivial history: 13 distinct keys cross the 0.75 * 16 threshold (one rehash to 32 buckets),
   one key is overwritten, an absent key is looked up *)
Definition demo_keys : list bytes := map (fun i => le_bytes 4 (Z.of_nat i)) (seq 0 13).
Definition demo_ops : list (op bytes bytes) :=
  ONew :: map (fun k => OSet k [of_le k + 100]) demo_keys ++
  [OSet (le_bytes 4 3) [7]; OGet (le_bytes 4 3); OGet (le_bytes 4 12); OGet (le_bytes 4 99); OHas (le_bytes 4 0); OSize].
Lemma demo_run :
  skipn 15 (run bytes bytes bytes_eqb fnv1a map_new demo_ops) =
    [RGet (Some [7]); RGet (Some [112]); RGet None; RBool true; RSize 13] /\
  length (buckets (final bytes bytes bytes_eqb fnv1a map_new demo_ops)) = 32%nat /\
  length (map_iterate bytes bytes (final bytes bytes bytes_eqb fnv1a map_new demo_ops)) = 13%nat.
Proof. vm_compute. auto. Qed.
