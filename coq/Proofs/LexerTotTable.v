(* C13 — the theorems of LexerTotP / ExitStatusP instantiated with the tables regenerated from the working tree. *)
From Coq Require Import ZArith List Bool Lia String.
From FV Require Import Models.LexerTot Models.ExitStatus Proofs.LexerTotP Proofs.ExitStatusP gen.Gen_C13.
Import ListNotations.
Open Scope Z_scope.

Lemma gen_ops_ok : ops_ok lex_ops = true.
Proof. vm_compute. reflexivity. Qed.
Lemma gen_kw_ok : is_keyword lex_keywords k_eof = false.
Proof. vm_compute. reflexivity. Qed.

Definition lex := tokenize lex_ops lex_keywords.

Lemma lexer_total : forall src : bytes,
  exists toks errs, lex src = Some (toks, errs) /\ ends_with_single_eof src toks.
Proof. intro src. apply tokenize_total; [exact gen_ops_ok|exact gen_kw_ok]. Qed.

Lemma lexer_progress : forall src st, no_eof st -> (pidx (spos st) < List.length src)%nat ->
  (pidx (spos st) + 1 <= pidx (spos (step lex_ops lex_keywords src st)) <= List.length src)%nat.
Proof. intros. apply step_progress; auto using gen_ops_ok, gen_kw_ok. Qed.

Lemma lexer_no_oob : forall src idx n h, (idx < List.length src)%nat ->
  let rem := skipn idx src in
  rem <> [] /\
  (first_match (patterns lex_ops) rem = Some (n, h) ->
     (idx + n <= List.length src)%nat /\ (1 <= n)%nat /\ (needs2 h -> (2 <= n)%nat)).
Proof. intros. apply no_oob_slice; auto using gen_ops_ok. Qed.

(* non-vacuity: a concrete input with every kind of token, invalid UTF-8 and an unrecognised byte *)
Definition sample_src : bytes :=
  bs "fn f(){ let s := ""a\n""; x -= 0x1F_f + 1.5e+3; 'q' '\q' /* c */ @ "%string ++ [255; 226; 130; 32; 9; 120; 10] ++ bs "// t"%string.
Lemma lexer_sample :
  match lex sample_src with
  | Some (toks, errs) => (List.length toks =? 22)%nat && (List.length errs =? 5)%nat &&
                         (pidx (tend (last toks (mkTok [] [] pos0 pos0))) =? List.length sample_src)%nat
  | None => false
  end = true.
Proof. vm_compute. reflexivity. Qed.

(* ---- exit status *)
Lemma gen_sites_ok : forallb (site_ok compile_run_checked) compile_sites = true.
Proof. vm_compute. reflexivity. Qed.
Lemma gen_fail_exit : main_fail_exit <> 0.
Proof. vm_compute. discriminate. Qed.
Lemma gen_no_other_exit : main_other_exits_after_compile = 0.
Proof. reflexivity. Qed.
Lemma gen_glue : bag_glue_as_ported = true.
Proof. reflexivity. Qed.
Lemma gen_run_checked : compile_run_checked = true.
Proof. reflexivity. Qed.

Lemma status_faithful : forall s l run_err, In s compile_sites ->
  let r := run_site compile_run_checked main_fail_exit s (bag_of l) run_err in
  (fst r = 0 <-> snd r = 0) /\ (fst r <> 0 -> 1 <= snd r).
Proof.
  intros s l re Hin. apply site_status; [exact gen_fail_exit| |apply good_of].
  pose proof gen_sites_ok as H. rewrite forallb_forall in H. auto.
Qed.

Lemma run_error_never_exit0 : forall s l, In s compile_sites -> s_pipeline s = true ->
  fst (run_site compile_run_checked main_fail_exit s (bag_of l) true) <> 0.
Proof.
  intros s l Hin Hp. rewrite gen_run_checked.
  apply site_run_error; [exact gen_fail_exit| |exact Hp|apply good_of].
  pose proof gen_sites_ok as H. rewrite gen_run_checked in H. rewrite forallb_forall in H. auto.
Qed.

Lemma status_nonvacuous :
  (exists s, In s compile_sites /\ s_pipeline s = true /\
     run_site compile_run_checked main_fail_exit s (bag_of [SevWarning; SevError; SevInfo]) false = (1, 1) /\
     run_site compile_run_checked main_fail_exit s (bag_of [SevWarning]) false = (0, 0) /\
     run_site compile_run_checked main_fail_exit s (bag_of [SevWarning]) true = (1, 1)) /\
  (exists s, In s compile_sites /\ s_pipeline s = false /\ fst (run_site compile_run_checked main_fail_exit s bag_empty false) = 1).
Proof.
  split.
  - exists (mkSite SNotHasErrors false true false true). split; [vm_compute; tauto|]. repeat split; reflexivity.
  - exists (mkSite SFalse true true false false). split; [vm_compute; tauto|]. split; reflexivity.
Qed.
