(* C18 — lemmas about Models/Layout.v (port of internal/mir/layout.go). *)
From Coq Require Import ZArith List Bool Lia.
From FV Require Import Models.Layout.
Import ListNotations.
Open Scope Z_scope.

(* ------------------------------------------------------------------ alignTo *)

Lemma align_to_ge : forall v a, 0 <= v -> v <= align_to v a.
Proof.
  intros v a Hv. unfold align_to.
  destruct (a <=? 1) eqn:Ha; [lia|]. apply Z.leb_gt in Ha.
  rewrite Z.rem_mod_nonneg by lia.
  destruct (v mod a =? 0) eqn:Hr; [lia|].
  pose proof (Z.mod_pos_bound v a ltac:(lia)). lia.
Qed.

Lemma align_to_lt : forall v a, 0 <= v -> 1 <= a -> align_to v a < v + a.
Proof.
  intros v a Hv H1. unfold align_to.
  destruct (a <=? 1) eqn:Ha; [lia|]. apply Z.leb_gt in Ha.
  rewrite Z.rem_mod_nonneg by lia.
  destruct (v mod a =? 0) eqn:Hr; [lia|]. apply Z.eqb_neq in Hr.
  pose proof (Z.mod_pos_bound v a ltac:(lia)). lia.
Qed.

Lemma align_to_divide : forall v a, 0 <= v -> 1 <= a -> (a | align_to v a).
Proof.
  intros v a Hv H1. unfold align_to.
  destruct (a <=? 1) eqn:Ha.
  - apply Z.leb_le in Ha. assert (a = 1) by lia. subst. apply Z.divide_1_l.
  - apply Z.leb_gt in Ha. rewrite Z.rem_mod_nonneg by lia.
    destruct (v mod a =? 0) eqn:Hr.
    + apply Z.eqb_eq in Hr. apply Z.mod_divide; lia.
    + exists (v / a + 1). pose proof (Z.div_mod v a ltac:(lia)). lia.
Qed.

Lemma align_to_fix : forall v a, 0 <= v -> 1 <= a -> (a | v) -> align_to v a = v.
Proof.
  intros v a Hv H1 Hd. unfold align_to.
  destruct (a <=? 1) eqn:Ha; [reflexivity|]. apply Z.leb_gt in Ha.
  rewrite Z.rem_mod_nonneg by lia.
  apply Z.mod_divide in Hd; [|lia]. rewrite Hd. reflexivity.
Qed.

(* ------------------------------------------------------------------ powers of two *)

Lemma pow2_pos : forall a, is_pow2 a -> 1 <= a.
Proof. intros a [k [Hk ->]]. pose proof (Z.pow_pos_nonneg 2 k ltac:(lia) Hk). lia. Qed.

Lemma pow2_le_divide : forall a b, is_pow2 a -> is_pow2 b -> a <= b -> (a | b).
Proof.
  intros a b [j [Hj ->]] [k [Hk ->]] Hle.
  assert (j <= k) by (apply (Z.pow_le_mono_r_iff 2); lia).
  exists (2 ^ (k - j)). rewrite <- Z.pow_add_r by lia. f_equal. lia.
Qed.

Lemma pow2_max : forall a b, is_pow2 a -> is_pow2 b -> is_pow2 (Z.max a b).
Proof. intros a b Ha Hb. destruct (Z.max_spec a b) as [[_ ->]|[_ ->]]; assumption. Qed.

Lemma pow2_1 : is_pow2 1.
Proof. exists 0. split; [lia|reflexivity]. Qed.

Lemma pow2_max_divide_l : forall a b, is_pow2 a -> is_pow2 b -> (a | Z.max a b).
Proof. intros. apply pow2_le_divide; auto using pow2_max. lia. Qed.

Lemma pow2_max_divide_r : forall a b, is_pow2 a -> is_pow2 b -> (b | Z.max a b).
Proof. intros. apply pow2_le_divide; auto using pow2_max. lia. Qed.

Lemma clamp_align_pow2 : forall sz ps, is_pow2 sz -> is_pow2 ps ->
  is_pow2 (clamp_align sz ps) /\ (clamp_align sz ps | sz).
Proof.
  intros sz ps Hs Hp. unfold clamp_align.
  pose proof (pow2_pos _ Hs). pose proof (pow2_pos _ Hp).
  destruct (sz <=? 0) eqn:E0; [apply Z.leb_le in E0; lia|].
  destruct (sz >? ps) eqn:E1.
  - split; [assumption|]. apply pow2_le_divide; auto. apply Z.gtb_lt in E1. lia.
  - split; [assumption|]. apply Z.divide_refl.
Qed.

Lemma clamp_align_pos : forall sz ps, 1 <= ps -> 1 <= clamp_align sz ps.
Proof.
  intros. unfold clamp_align. destruct (sz <=? 0) eqn:E0; [lia|]. apply Z.leb_gt in E0.
  destruct (sz >? ps); lia.
Qed.

(* ------------------------------------------------------------------ induction principle for lty *)

Section LtyInd.
  Variable P : lty -> Prop.
  Hypothesis Hprim : forall sz, P (TPrim sz).
  Hypothesis Hvoid : P TVoid.
  Hypothesis Hptr : P TPtr.
  Hypothesis Hiface : P TIface.
  Hypothesis Harr : forall n e, P e -> P (TArr n e).
  Hypothesis Hopt : forall i, P i -> P (TOpt i).
  Hypothesis Hres : forall a b, P a -> P b -> P (TRes a b).
  Hypothesis Hstruct : forall fs, Forall P fs -> P (TStruct fs).

  Fixpoint lty_ind' (t : lty) : P t :=
    match t with
    | TPrim sz => Hprim sz
    | TVoid => Hvoid
    | TPtr => Hptr
    | TIface => Hiface
    | TArr n e => Harr n e (lty_ind' e)
    | TOpt i => Hopt i (lty_ind' i)
    | TRes a b => Hres a b (lty_ind' a) (lty_ind' b)
    | TStruct fs =>
        Hstruct fs ((fix go (l : list lty) : Forall P l :=
                       match l with
                       | [] => Forall_nil P
                       | x :: r => Forall_cons x (lty_ind' x) (go r)
                       end) fs)
    end.
End LtyInd.

(* ------------------------------------------------------------------ well-formedness *)

(* sizes are not negative: enough for disjointness / non-interference (no alignment claim) *)
Fixpoint wfz (t : lty) : Prop :=
  match t with
  | TPrim sz => 0 <= sz
  | TVoid | TPtr | TIface => True
  | TArr n e => 0 <= n /\ wfz e
  | TOpt i => wfz i
  | TRes ok err => wfz ok /\ wfz err
  | TStruct fs => (fix all (l : list lty) : Prop := match l with [] => True | x :: r => wfz x /\ all r end) fs
  end.

Lemma wfz_struct : forall fs, wfz (TStruct fs) <-> Forall wfz fs.
Proof.
  induction fs as [|x r IH]; simpl.
  - split; auto.
  - split.
    + intros [H1 H2]. constructor; auto. apply IH. exact H2.
    + intros H. inversion H; subst. split; auto. apply IH. assumption.
Qed.

Lemma wf_struct : forall fs, wf (TStruct fs) <-> Forall wf fs.
Proof.
  induction fs as [|x r IH]; simpl.
  - split; auto.
  - split.
    + intros [H1 H2]. constructor; auto. apply IH. exact H2.
    + intros H. inversion H; subst. split; auto. apply IH. assumption.
Qed.

Lemma wf_wfz : forall t, wf t -> wfz t.
Proof.
  induction t using lty_ind'; simpl; intros Hw; auto.
  - apply pow2_pos in Hw. lia.
  - destruct Hw. split; auto.
  - destruct Hw. split; auto.
  - apply wfz_struct. apply wf_struct in Hw.
    induction H; inversion Hw; subst; constructor; auto.
Qed.

(* ------------------------------------------------------------------ the StructLayout loop *)

(* os are the offsets chosen for fields of (size, align) sas starting at cursor off and ending at e:
   in order, aligned, each field after the previous one *)
Fixpoint chain (off : Z) (os : list Z) (sas : list (Z * Z)) (e : Z) : Prop :=
  match os, sas with
  | [], [] => off <= e
  | o :: os', (s, a) :: sas' => off <= o /\ (a | o) /\ chain (o + s) os' sas' e
  | _, _ => False
  end.

Definition sa_ok (p : Z * Z) : Prop := 0 <= fst p /\ 1 <= snd p.

Lemma layout_fields_chain : forall sas off al,
  Forall sa_ok sas -> 0 <= off -> 1 <= al ->
  let '(os, e, al') := layout_fields off al sas in
  chain off os sas e /\ al <= al' /\ Forall (fun p => snd p <= al') sas.
Proof.
  induction sas as [|[s a] r IH]; intros off al Hok Hoff Hal; simpl.
  - repeat split; auto; lia.
  - inversion Hok as [|? ? [Hs Ha] Hr]; subst. simpl in Hs, Ha.
    destruct (s <? 0) eqn:Hneg; [apply Z.ltb_lt in Hneg; lia|].
    pose proof (align_to_ge off a Hoff) as Hge.
    pose proof (align_to_divide off a Hoff Ha) as Hdiv.
    specialize (IH (align_to off a + s) (Z.max al a) Hr ltac:(lia) ltac:(lia)).
    destruct (layout_fields (align_to off a + s) (Z.max al a) r) as [[os e] al'].
    destruct IH as [Hc [Hle Hall]].
    split; [|split].
    + simpl. auto.
    + lia.
    + constructor; [simpl; lia|assumption].
Qed.

Lemma layout_fields_pow2 : forall sas off al,
  Forall (fun p => is_pow2 (snd p)) sas -> is_pow2 al ->
  let '(_, _, al') := layout_fields off al sas in is_pow2 al'.
Proof.
  induction sas as [|[s a] r IH]; intros off al Hp Hal; simpl; auto.
  inversion Hp; subst. simpl in *.
  destruct (s <? 0).
  - specialize (IH off al H2 Hal). destruct (layout_fields off al r) as [[? ?] ?]. assumption.
  - specialize (IH (align_to off a + s) (Z.max al a) H2 (pow2_max _ _ Hal H1)).
    destruct (layout_fields (align_to off a + s) (Z.max al a) r) as [[? ?] ?]. assumption.
Qed.

Lemma chain_length : forall os sas off e, chain off os sas e -> length os = length sas.
Proof.
  induction os as [|o os IH]; destruct sas as [|[s a] sas]; simpl; intros; try tauto.
  destruct H as [_ [_ H]]. f_equal. eauto.
Qed.

Lemma chain_le : forall os sas off e, Forall sa_ok sas -> chain off os sas e -> off <= e.
Proof.
  induction os as [|o os IH]; destruct sas as [|[s a] sas]; simpl; intros off e Hok H; try tauto.
  destruct H as [H1 [_ H]]. inversion Hok as [|? ? [Hs _] Hr]; subst. simpl in Hs.
  specialize (IH _ _ _ Hr H). lia.
Qed.

(* field i lies in [off, e), aligned *)
Lemma chain_nth : forall os sas off e i o s a,
  Forall sa_ok sas -> chain off os sas e ->
  nth_error os i = Some o -> nth_error sas i = Some (s, a) ->
  off <= o /\ o + s <= e /\ (a | o).
Proof.
  induction os as [|o0 os IH]; destruct sas as [|[s0 a0] sas]; simpl; intros off e i o s a Hok H Ho Hs; try tauto.
  - destruct i; discriminate.
  - destruct H as [H1 [H2 H3]]. inversion Hok as [|? ? [Hs0 _] Hr]; subst. simpl in Hs0.
    destruct i as [|i]; simpl in *.
    + inversion Ho; inversion Hs; subst. pose proof (chain_le _ _ _ _ Hr H3). repeat split; auto; lia.
    + destruct (IH _ _ _ _ _ _ _ Hr H3 Ho Hs) as [A [B C]]. repeat split; auto; lia.
Qed.

(* field i ends before field j starts when i < j *)
Lemma chain_lt : forall os sas off e i j oi si ai oj sj aj,
  Forall sa_ok sas -> chain off os sas e -> (i < j)%nat ->
  nth_error os i = Some oi -> nth_error sas i = Some (si, ai) ->
  nth_error os j = Some oj -> nth_error sas j = Some (sj, aj) ->
  oi + si <= oj.
Proof.
  induction os as [|o0 os IH]; destruct sas as [|[s0 a0] sas]; simpl; intros off e i j oi si ai oj sj aj Hok H Hij Hoi Hsi Hoj Hsj; try tauto.
  - destruct i; discriminate.
  - destruct H as [H1 [H2 H3]]. inversion Hok as [|? ? [Hs0 _] Hr]; subst.
    destruct j as [|j]; [lia|]. simpl in Hoj, Hsj.
    destruct i as [|i]; simpl in *.
    + inversion Hoi; inversion Hsi; subst.
      destruct (chain_nth _ _ _ _ _ _ _ _ Hr H3 Hoj Hsj) as [A _]. exact A.
    + apply (IH sas (o0 + s0) e i j oi si ai oj sj aj Hr H3 ltac:(lia) Hoi Hsi Hoj Hsj).
Qed.

(* ------------------------------------------------------------------ sizes and alignments *)

Lemma sa_unfold : forall ps t, sa ps t = (size_of ps t, align_of ps t).
Proof. intros. unfold size_of, align_of. destruct (sa ps t); reflexivity. Qed.

(* SizeOf / AlignOf as written in layout.go, case by case *)
Lemma size_of_arr : forall ps n e, 0 <= n -> 0 <= size_of ps e -> size_of ps (TArr n e) = size_of ps e * n.
Proof.
  intros. unfold size_of at 1. simpl. rewrite sa_unfold.
  destruct (n <? 0) eqn:Hn; [apply Z.ltb_lt in Hn; lia|].
  destruct (size_of ps e <? 0) eqn:He; [apply Z.ltb_lt in He; lia|]. reflexivity.
Qed.

Lemma align_of_arr : forall ps n e, 0 <= n -> align_of ps (TArr n e) = align_of ps e.
Proof.
  intros. unfold align_of at 1. simpl. rewrite sa_unfold.
  destruct (n <? 0) eqn:Hn; [apply Z.ltb_lt in Hn; lia|]. reflexivity.
Qed.

Lemma size_of_opt : forall ps i, 0 <= size_of ps i ->
  size_of ps (TOpt i) = align_to (size_of ps i + 1) (Z.max (align_of ps i) 1).
Proof.
  intros. unfold size_of at 1. simpl. rewrite sa_unfold. simpl.
  destruct (size_of ps i <? 0) eqn:He; [apply Z.ltb_lt in He; lia|]. reflexivity.
Qed.

Lemma align_of_opt : forall ps i, align_of ps (TOpt i) = Z.max (align_of ps i) 1.
Proof. intros. unfold align_of at 1. simpl. rewrite sa_unfold. reflexivity. Qed.

Lemma size_of_res : forall ps a b, 0 <= size_of ps a -> 0 <= size_of ps b ->
  size_of ps (TRes a b) =
  align_to (align_to (Z.max (size_of ps a) (size_of ps b)) (Z.max (align_of ps a) (align_of ps b)) + 1)
           (Z.max (Z.max (align_of ps a) (align_of ps b)) 1).
Proof.
  intros. unfold size_of at 1. simpl. rewrite !sa_unfold. simpl.
  destruct (size_of ps a <? 0) eqn:Ha; [apply Z.ltb_lt in Ha; lia|].
  destruct (size_of ps b <? 0) eqn:Hb; [apply Z.ltb_lt in Hb; lia|]. reflexivity.
Qed.

Lemma align_of_res : forall ps a b, align_of ps (TRes a b) = Z.max (align_of ps a) (align_of ps b).
Proof. intros. unfold align_of at 1. simpl. rewrite !sa_unfold. reflexivity. Qed.

Lemma struct_unfold : forall ps fs,
  struct_layout_sa (map (sa ps) fs) = (field_offsets ps fs, size_of ps (TStruct fs), align_of ps (TStruct fs)).
Proof.
  intros. unfold field_offsets, size_of, align_of. simpl.
  destruct (struct_layout_sa (map (sa ps) fs)) as [[os sz] al]. reflexivity.
Qed.

Definition good (ps : Z) (t : lty) : Prop := 0 <= size_of ps t /\ 1 <= align_of ps t.

Lemma map_sa_ok : forall ps fs, Forall (good ps) fs -> Forall sa_ok (map (sa ps) fs).
Proof.
  intros ps fs H. induction H; simpl; constructor; auto; rewrite sa_unfold; exact H.
Qed.

(* what StructLayout guarantees, in terms of the struct's own size / align / offsets *)
Lemma struct_spec : forall ps fs, Forall (good ps) fs ->
  exists e,
    chain 0 (field_offsets ps fs) (map (sa ps) fs) e /\
    size_of ps (TStruct fs) = align_to e (align_of ps (TStruct fs)) /\
    0 <= e /\ 1 <= align_of ps (TStruct fs) /\
    Forall (fun p => snd p <= align_of ps (TStruct fs)) (map (sa ps) fs).
Proof.
  intros ps fs Hg. pose proof (struct_unfold ps fs) as Hu. unfold struct_layout_sa in Hu.
  pose proof (layout_fields_chain (map (sa ps) fs) 0 1 (map_sa_ok _ _ Hg) ltac:(lia) ltac:(lia)) as Hc.
  destruct (layout_fields 0 1 (map (sa ps) fs)) as [[os e] al].
  injection Hu as Hos Hsz Hal.
  destruct Hc as [Hc [Hal1 Hall]]. exists e. rewrite <- Hsz, <- Hos, <- Hal.
  pose proof (chain_le _ _ _ _ (map_sa_ok _ _ Hg) Hc).
  repeat split; auto.
Qed.

Lemma good_all : forall ps t, 1 <= ps -> wfz t -> good ps t.
Proof.
  intros ps t Hps. induction t using lty_ind'; intros Hw; unfold good.
  - unfold size_of, align_of; simpl in *. split; [lia|apply clamp_align_pos; lia].
  - unfold size_of, align_of; simpl. lia.
  - unfold size_of, align_of; simpl. lia.
  - unfold size_of, align_of; simpl. lia.
  - destruct Hw as [Hn He]. destruct (IHt He) as [Hs Ha].
    rewrite size_of_arr, align_of_arr by lia. split; [apply Z.mul_nonneg_nonneg; lia|lia].
  - simpl in Hw. destruct (IHt Hw) as [Hs Ha].
    rewrite size_of_opt, align_of_opt by lia. split; [|lia].
    pose proof (align_to_ge (size_of ps t + 1) (Z.max (align_of ps t) 1) ltac:(lia)). lia.
  - destruct Hw as [Hw1 Hw2]. destruct (IHt1 Hw1) as [Hs1 Ha1]. destruct (IHt2 Hw2) as [Hs2 Ha2].
    rewrite size_of_res, align_of_res by lia. split; [|lia].
    set (ua := Z.max (align_of ps t1) (align_of ps t2)).
    pose proof (align_to_ge (Z.max (size_of ps t1) (size_of ps t2)) ua ltac:(lia)).
    pose proof (align_to_ge (align_to (Z.max (size_of ps t1) (size_of ps t2)) ua + 1) (Z.max ua 1) ltac:(lia)). lia.
  - apply wfz_struct in Hw.
    assert (Hg : Forall (good ps) fs).
    { induction H; inversion Hw; subst; constructor; auto. }
    destruct (struct_spec ps fs Hg) as [e [Hc [Hsz [He [Hal _]]]]].
    split; [|assumption]. rewrite Hsz. pose proof (align_to_ge e (align_of ps (TStruct fs)) He). lia.
Qed.

Lemma size_nonneg : forall ps t, 1 <= ps -> wfz t -> 0 <= size_of ps t.
Proof. intros. apply good_all; auto. Qed.

Lemma align_pos : forall ps t, 1 <= ps -> wfz t -> 1 <= align_of ps t.
Proof. intros. apply good_all; auto. Qed.

Lemma wfz_fields_good : forall ps fs, 1 <= ps -> wfz (TStruct fs) -> Forall (good ps) fs.
Proof.
  intros ps fs Hps Hw. apply wfz_struct in Hw.
  induction Hw; constructor; auto using good_all.
Qed.

(* ------------------------------------------------------------------ consumers: flag and tag *)

Lemma opt_flag_inside : forall ps i, 1 <= ps -> wfz i ->
  size_of ps i <= opt_flag_offset ps i /\ opt_flag_offset ps i + 1 <= size_of ps (TOpt i).
Proof.
  intros ps i Hps Hw. unfold opt_flag_offset. destruct (good_all ps i Hps Hw) as [Hs Ha].
  rewrite size_of_opt by lia.
  pose proof (align_to_ge (size_of ps i + 1) (Z.max (align_of ps i) 1) ltac:(lia)). lia.
Qed.

Lemma res_tag_inside : forall ps a b, 1 <= ps -> wfz a -> wfz b ->
  Z.max (size_of ps a) (size_of ps b) <= res_tag_offset ps a b /\
  res_tag_offset ps a b + 1 <= size_of ps (TRes a b).
Proof.
  intros ps a b Hps Ha Hb. destruct (good_all ps a Hps Ha) as [Hs1 Ha1]. destruct (good_all ps b Hps Hb) as [Hs2 Ha2].
  unfold res_tag_offset. rewrite size_of_res by lia.
  set (ua := Z.max (align_of ps a) (align_of ps b)).
  destruct (ua <? 1) eqn:Hu; [apply Z.ltb_lt in Hu; lia|].
  pose proof (align_to_ge (Z.max (size_of ps a) (size_of ps b)) ua ltac:(lia)).
  pose proof (align_to_ge (align_to (Z.max (size_of ps a) (size_of ps b)) ua + 1) (Z.max ua 1) ltac:(lia)). lia.
Qed.

(* the code generator's tag offset is the union size layout.go uses inside SizeOf(result) *)
Lemma res_tag_is_union_size : forall ps a b, 1 <= ps -> wfz a -> wfz b ->
  size_of ps (TRes a b) =
  align_to (res_tag_offset ps a b + 1) (Z.max (Z.max (align_of ps a) (align_of ps b)) 1).
Proof.
  intros ps a b Hps Ha Hb. destruct (good_all ps a Hps Ha) as [Hs1 Ha1]. destruct (good_all ps b Hps Hb) as [Hs2 Ha2].
  unfold res_tag_offset. rewrite size_of_res by lia.
  destruct (Z.max (align_of ps a) (align_of ps b) <? 1) eqn:Hu; [apply Z.ltb_lt in Hu; lia|]. reflexivity.
Qed.

(* ------------------------------------------------------------------ one step: inside, and separate steps are disjoint *)

Lemma size_of_flag : forall ps, size_of ps flag_ty = 1.
Proof. reflexivity. Qed.

Lemma align_of_flag : forall ps, 1 <= ps -> align_of ps flag_ty = 1.
Proof.
  intros. unfold align_of, flag_ty. simpl. unfold clamp_align. simpl.
  destruct (1 >? ps) eqn:G; [apply Z.gtb_lt in G; lia|reflexivity].
Qed.

Lemma nth_error_map_sa : forall ps fs i ft, nth_error fs i = Some ft ->
  nth_error (map (sa ps) fs) i = Some (size_of ps ft, align_of ps ft).
Proof. intros. rewrite nth_error_map, H. simpl. rewrite sa_unfold. reflexivity. Qed.

Lemma wfz_nth : forall fs i ft, wfz (TStruct fs) -> nth_error fs i = Some ft -> wfz ft.
Proof.
  intros fs i ft Hw Hn. apply wfz_struct in Hw. rewrite Forall_forall in Hw. apply Hw.
  eapply nth_error_In; eauto.
Qed.

Lemma step_inside : forall ps t s o t', 1 <= ps -> wfz t -> step_into ps t s = Some (o, t') ->
  0 <= o /\ o + size_of ps t' <= size_of ps t /\ wfz t'.
Proof.
  intros ps t s o t' Hps Hw Hst. destruct t; destruct s; simpl in Hst; try discriminate.
  - (* array element *)
    destruct Hw as [Hn He].
    destruct ((0 <=? i) && (i <? n)) eqn:Hb; [|discriminate]. inversion Hst; subst.
    apply andb_prop in Hb. destruct Hb as [H0 H1]. apply Z.leb_le in H0. apply Z.ltb_lt in H1.
    pose proof (size_nonneg ps t' Hps He). unfold elem_offset.
    rewrite size_of_arr by lia. repeat split; auto; nia.
  - (* optional payload *)
    inversion Hst; subst. simpl in Hw. pose proof (opt_flag_inside ps t' Hps Hw). unfold opt_flag_offset in *.
    pose proof (size_nonneg ps t' Hps Hw). repeat split; auto; lia.
  - (* optional flag *)
    inversion Hst; subst. simpl in Hw. pose proof (opt_flag_inside ps t Hps Hw).
    pose proof (size_nonneg ps t Hps Hw). unfold opt_flag_offset in *.
    rewrite size_of_flag. repeat split; try lia. simpl. lia.
  - (* result ok *)
    inversion Hst; subst. destruct Hw as [Ha Hb]. pose proof (res_tag_inside ps t' t2 Hps Ha Hb).
    pose proof (size_nonneg ps t' Hps Ha). repeat split; auto; lia.
  - (* result err *)
    inversion Hst; subst. destruct Hw as [Ha Hb]. pose proof (res_tag_inside ps t1 t' Hps Ha Hb).
    pose proof (size_nonneg ps t' Hps Hb). repeat split; auto; lia.
  - (* result tag *)
    inversion Hst; subst. destruct Hw as [Ha Hb]. pose proof (res_tag_inside ps t1 t2 Hps Ha Hb).
    pose proof (size_nonneg ps t1 Hps Ha). rewrite size_of_flag. repeat split; try lia. simpl. lia.
  - (* struct field *)
    destruct (nth_error fs i) as [ft|] eqn:Hf; [|discriminate].
    destruct (nth_error (field_offsets ps fs) i) as [o0|] eqn:Ho; [|discriminate].
    destruct (o0 <? 0); [discriminate|]. inversion Hst; subst.
    pose proof (wfz_fields_good ps fs Hps Hw) as Hg.
    destruct (struct_spec ps fs Hg) as [e [Hc [Hsz [He [Hal _]]]]].
    destruct (chain_nth _ _ _ _ _ _ _ _ (map_sa_ok _ _ Hg) Hc Ho (nth_error_map_sa ps _ _ _ Hf)) as [A [B C]].
    pose proof (align_to_ge e (align_of ps (TStruct fs)) He).
    repeat split; try lia. eapply wfz_nth; eauto.
Qed.

Definition disjoint (o1 s1 o2 s2 : Z) : Prop := o1 + s1 <= o2 \/ o2 + s2 <= o1.

Lemma step_separate : forall ps t a b o1 t1 o2 t2, 1 <= ps -> wfz t ->
  step_into ps t a = Some (o1, t1) -> step_into ps t b = Some (o2, t2) -> steps_separate a b = true ->
  disjoint o1 (size_of ps t1) o2 (size_of ps t2).
Proof.
  intros ps t a b o1 t1 o2 t2 Hps Hw Ha Hb Hsep. unfold disjoint.
  destruct t as [sz| | | |n e|i|x y|fs]; destruct a; simpl in Ha; try discriminate; destruct b; simpl in Hb; try discriminate;
    simpl in Hsep; try discriminate.
  - (* two array elements *)
    destruct Hw as [Hn He]. pose proof (size_nonneg ps e Hps He).
    destruct ((0 <=? i) && (i <? n)); [|discriminate]. destruct ((0 <=? i0) && (i0 <? n)); [|discriminate].
    inversion Ha; inversion Hb; subst. apply negb_true_iff in Hsep. apply Z.eqb_neq in Hsep.
    unfold elem_offset. nia.
  - (* payload / flag *)
    inversion Ha; inversion Hb; subst. unfold opt_flag_offset. left. lia.
  - inversion Ha; inversion Hb; subst. unfold opt_flag_offset. right. lia.
  - (* ok / tag *)
    destruct Hw as [H1 H2]. pose proof (res_tag_inside ps x y Hps H1 H2). inversion Ha; inversion Hb; subst. left. lia.
  - destruct Hw as [H1 H2]. pose proof (res_tag_inside ps x y Hps H1 H2). inversion Ha; inversion Hb; subst. left. lia.
  - destruct Hw as [H1 H2]. pose proof (res_tag_inside ps x y Hps H1 H2). inversion Ha; inversion Hb; subst. right. lia.
  - destruct Hw as [H1 H2]. pose proof (res_tag_inside ps x y Hps H1 H2). inversion Ha; inversion Hb; subst. right. lia.
  - (* two struct fields *)
    destruct (nth_error fs i) as [f1|] eqn:Hf1; [|discriminate].
    destruct (nth_error (field_offsets ps fs) i) as [p1|] eqn:Ho1; [|discriminate].
    destruct (p1 <? 0); [discriminate|]. inversion Ha; subst.
    destruct (nth_error fs i0) as [f2|] eqn:Hf2; [|discriminate].
    destruct (nth_error (field_offsets ps fs) i0) as [p2|] eqn:Ho2; [|discriminate].
    destruct (p2 <? 0); [discriminate|]. inversion Hb; subst.
    apply negb_true_iff in Hsep. apply Nat.eqb_neq in Hsep.
    pose proof (wfz_fields_good ps fs Hps Hw) as Hg.
    destruct (struct_spec ps fs Hg) as [e [Hc _]].
    pose proof (map_sa_ok _ _ Hg) as Hok.
    pose proof (nth_error_map_sa ps _ _ _ Hf1) as M1. pose proof (nth_error_map_sa ps _ _ _ Hf2) as M2.
    destruct (Nat.lt_ge_cases i i0) as [Hlt|Hge].
    + left. eapply (chain_lt _ _ _ _ i i0); eauto.
    + right. eapply (chain_lt _ _ _ _ i0 i); eauto. lia.
Qed.

(* ------------------------------------------------------------------ paths *)

Lemma resolve_inside : forall ps p t o t', 1 <= ps -> wfz t -> resolve ps t p = Some (o, t') ->
  0 <= o /\ o + size_of ps t' <= size_of ps t /\ wfz t'.
Proof.
  intros ps p. induction p as [|s r IH]; intros t o t' Hps Hw Hr; simpl in Hr.
  - inversion Hr; subst. repeat split; auto; lia.
  - destruct (step_into ps t s) as [[o1 t1]|] eqn:Hs; [|discriminate].
    destruct (resolve ps t1 r) as [[o2 t2]|] eqn:Hr2; [|discriminate]. inversion Hr; subst.
    destruct (step_inside _ _ _ _ _ Hps Hw Hs) as [A [B C]].
    destruct (IH _ _ _ Hps C Hr2) as [D [E F]]. repeat split; auto; lia.
Qed.

Lemma step_eqb_eq : forall a b, step_eqb a b = true -> a = b.
Proof.
  destruct a, b; simpl; intros H; try discriminate; try reflexivity.
  - apply Nat.eqb_eq in H. subst. reflexivity.
  - apply Z.eqb_eq in H. subst. reflexivity.
Qed.

Lemma paths_separate_disjoint : forall ps p q t o1 t1 o2 t2, 1 <= ps -> wfz t ->
  resolve ps t p = Some (o1, t1) -> resolve ps t q = Some (o2, t2) -> paths_separate p q = true ->
  disjoint o1 (size_of ps t1) o2 (size_of ps t2).
Proof.
  intros ps p. induction p as [|a p IH]; intros q t o1 t1 o2 t2 Hps Hw Hp Hq Hsep; simpl in Hsep; [discriminate|].
  destruct q as [|b q]; [discriminate|]. simpl in Hp, Hq.
  destruct (step_into ps t a) as [[oa ta]|] eqn:Ha; [|discriminate].
  destruct (resolve ps ta p) as [[oa' ta']|] eqn:Hpa; [|discriminate]. inversion Hp; subst.
  destruct (step_into ps t b) as [[ob tb]|] eqn:Hb; [|discriminate].
  destruct (resolve ps tb q) as [[ob' tb']|] eqn:Hqb; [|discriminate]. inversion Hq; subst.
  destruct (step_inside _ _ _ _ _ Hps Hw Ha) as [A1 [A2 A3]].
  destruct (step_inside _ _ _ _ _ Hps Hw Hb) as [B1 [B2 B3]].
  destruct (step_eqb a b) eqn:Heq.
  - apply step_eqb_eq in Heq. subst b. rewrite Ha in Hb. inversion Hb; subst.
    specialize (IH _ _ _ _ _ _ Hps A3 Hpa Hqb Hsep). unfold disjoint in *. lia.
  - pose proof (step_separate _ _ _ _ _ _ _ _ Hps Hw Ha Hb Hsep) as Hd.
    destruct (resolve_inside _ _ _ _ _ Hps A3 Hpa) as [C1 [C2 _]].
    destruct (resolve_inside _ _ _ _ _ Hps B3 Hqb) as [D1 [D2 _]].
    unfold disjoint in *. lia.
Qed.

(* ------------------------------------------------------------------ byte memory *)

Lemma store_outside : forall bs m a x, x < a \/ a + Z.of_nat (length bs) <= x -> store_bytes m a bs x = m x.
Proof.
  induction bs as [|b r IH]; intros m a x H; simpl; [reflexivity|].
  rewrite IH.
  - destruct (x =? a) eqn:E; [apply Z.eqb_eq in E; simpl length in H; lia|reflexivity].
  - simpl length in H. lia.
Qed.

Lemma load_ext : forall n m1 m2 a, (forall x, a <= x < a + Z.of_nat n -> m1 x = m2 x) ->
  load_bytes m1 a n = load_bytes m2 a n.
Proof.
  induction n as [|k IH]; intros m1 m2 a H; simpl; [reflexivity|].
  f_equal.
  - apply H. lia.
  - apply IH. intros x Hx. apply H. lia.
Qed.

Lemma load_store_same : forall bs m a, load_bytes (store_bytes m a bs) a (length bs) = bs.
Proof.
  induction bs as [|b r IH]; intros m a; simpl; [reflexivity|].
  f_equal.
  - rewrite store_outside by lia. rewrite Z.eqb_refl. reflexivity.
  - apply IH.
Qed.

Lemma load_store_disjoint : forall bs m a1 a2 n,
  disjoint a1 (Z.of_nat (length bs)) a2 (Z.of_nat n) ->
  load_bytes (store_bytes m a1 bs) a2 n = load_bytes m a2 n.
Proof.
  intros bs m a1 a2 n Hd. apply load_ext. intros x Hx. apply store_outside. unfold disjoint in Hd. lia.
Qed.

Lemma load_length : forall n m a, length (load_bytes m a n) = n.
Proof. induction n; intros; simpl; auto. Qed.

(* memcpy copies every byte of the source range (ranges must not overlap, as ferret_memcpy requires) *)
Lemma memcpy_copies : forall m dst src n k len,
  disjoint dst (Z.of_nat n) src (Z.of_nat n) ->
  0 <= k -> k + Z.of_nat len <= Z.of_nat n ->
  load_bytes (memcpy m dst src n) (dst + k) len = load_bytes m (src + k) len.
Proof.
  intros m dst src n k len Hd Hk Hl. unfold memcpy.
  revert k Hk Hl. induction len as [|l IH]; intros k Hk Hl; simpl; [reflexivity|].
  f_equal.
  - clear IH.
    assert (G : forall bs m a i, (i < length bs)%nat ->
                store_bytes m a bs (a + Z.of_nat i) = nth i bs 0).
    { induction bs as [|b r IHb]; intros m0 a i Hi; simpl in Hi; [lia|].
      destruct i as [|i]; simpl.
      - rewrite store_outside by lia. replace (a + 0) with a by lia. rewrite Z.eqb_refl. reflexivity.
      - replace (a + Z.pos (Pos.of_succ_nat i)) with ((a + 1) + Z.of_nat i) by lia. apply IHb. lia. }
    assert (L : forall n m a i, (i < n)%nat -> nth i (load_bytes m a n) 0 = m (a + Z.of_nat i)).
    { induction n0 as [|n0 IHn]; intros m0 a i Hi; [lia|]. simpl.
      destruct i as [|i]; simpl.
      - f_equal. lia.
      - rewrite IHn by lia. f_equal. lia. }
    replace (dst + k) with (dst + Z.of_nat (Z.to_nat k)) by lia.
    rewrite G by (rewrite load_length; lia). rewrite L by lia. f_equal. lia.
  - replace (dst + k + 1) with (dst + (k + 1)) by lia. replace (src + k + 1) with (src + (k + 1)) by lia.
    apply IH; lia.
Qed.

(* ------------------------------------------------------------------ alignment (powers of two) *)

Definition aligned_ty (ps : Z) (t : lty) : Prop :=
  is_pow2 (align_of ps t) /\ (align_of ps t | size_of ps t).

Lemma max_l_1 : forall a, 1 <= a -> Z.max a 1 = a.
Proof. intros. lia. Qed.

Lemma aligned_all : forall ps t, is_pow2 ps -> wf t -> aligned_ty ps t.
Proof.
  intros ps t Hp. pose proof (pow2_pos _ Hp) as Hps.
  induction t using lty_ind'; intros Hw; unfold aligned_ty.
  - unfold size_of, align_of; simpl in *. apply clamp_align_pow2; assumption.
  - unfold size_of, align_of; simpl. split; [apply pow2_1|apply Z.divide_0_r].
  - unfold size_of, align_of; simpl. split; [assumption|apply Z.divide_refl].
  - unfold size_of, align_of; simpl. split; [assumption|]. exists 2. lia.
  - destruct Hw as [Hn He]. destruct (IHt He) as [A B].
    pose proof (size_nonneg ps t Hps (wf_wfz _ He)).
    rewrite size_of_arr, align_of_arr by lia. split; [assumption|]. apply Z.divide_mul_l. assumption.
  - simpl in Hw. destruct (IHt Hw) as [A B].
    pose proof (size_nonneg ps t Hps (wf_wfz _ Hw)). pose proof (pow2_pos _ A).
    rewrite size_of_opt, align_of_opt by lia. rewrite max_l_1 by lia.
    split; [assumption|]. apply align_to_divide; lia.
  - destruct Hw as [Hw1 Hw2]. destruct (IHt1 Hw1) as [A1 B1]. destruct (IHt2 Hw2) as [A2 B2].
    pose proof (size_nonneg ps t1 Hps (wf_wfz _ Hw1)). pose proof (size_nonneg ps t2 Hps (wf_wfz _ Hw2)).
    pose proof (pow2_pos _ A1). pose proof (pow2_pos _ A2).
    rewrite size_of_res, align_of_res by lia.
    set (ua := Z.max (align_of ps t1) (align_of ps t2)).
    assert (1 <= ua) by (unfold ua; lia). rewrite (max_l_1 ua) by lia.
    split; [apply pow2_max; assumption|].
    apply align_to_divide; [|lia].
    pose proof (align_to_ge (Z.max (size_of ps t1) (size_of ps t2)) ua ltac:(lia)). lia.
  - pose proof (wf_wfz _ Hw) as Hz. apply wf_struct in Hw.
    assert (Hal : Forall (aligned_ty ps) fs).
    { rewrite Forall_forall in H, Hw. apply Forall_forall. intros x Hx. apply H; auto. }
    pose proof (wfz_fields_good ps fs Hps Hz) as Hg.
    destruct (struct_spec ps fs Hg) as [e [Hc [Hsz [He [Hal1 _]]]]].
    split.
    + pose proof (struct_unfold ps fs) as Hu. unfold struct_layout_sa in Hu.
      assert (Hp2 : Forall (fun p => is_pow2 (snd p)) (map (sa ps) fs)).
      { clear - Hal. induction Hal; simpl; constructor; auto. rewrite sa_unfold. simpl. apply H. }
      pose proof (layout_fields_pow2 (map (sa ps) fs) 0 1 Hp2 pow2_1) as Hq.
      destruct (layout_fields 0 1 (map (sa ps) fs)) as [[os e'] al].
      injection Hu as _ _ Hal2. rewrite <- Hal2. exact Hq.
    + rewrite Hsz. apply align_to_divide; lia.
Qed.

(* the alignment of a component divides the alignment of the value it is part of, and its offset *)
Lemma step_aligned : forall ps t s o t', is_pow2 ps -> wf t -> step_into ps t s = Some (o, t') ->
  (align_of ps t' | align_of ps t) /\ (align_of ps t' | o) /\ wf t'.
Proof.
  intros ps t s o t' Hp Hw Hst. pose proof (pow2_pos _ Hp) as Hps.
  destruct t; destruct s; simpl in Hst; try discriminate.
  - destruct Hw as [Hn He].
    destruct ((0 <=? i) && (i <? n)); [|discriminate]. inversion Hst; subst.
    rewrite align_of_arr by lia. destruct (aligned_all ps t' Hp He) as [A B].
    repeat split; auto; [apply Z.divide_refl|]. unfold elem_offset. apply Z.divide_mul_r. assumption.
  - inversion Hst; subst. simpl in Hw. destruct (aligned_all ps t' Hp Hw) as [A B]. pose proof (pow2_pos _ A).
    rewrite align_of_opt, max_l_1 by lia. repeat split; auto; [apply Z.divide_refl|apply Z.divide_0_r].
  - inversion Hst; subst. rewrite align_of_flag by lia. repeat split; try apply Z.divide_1_l. simpl. apply pow2_1.
  - inversion Hst; subst. destruct Hw as [H1 H2].
    destruct (aligned_all ps t' Hp H1) as [A1 _]. destruct (aligned_all ps t2 Hp H2) as [A2 _].
    rewrite align_of_res. repeat split; auto; [apply pow2_max_divide_l; assumption|apply Z.divide_0_r].
  - inversion Hst; subst. destruct Hw as [H1 H2].
    destruct (aligned_all ps t1 Hp H1) as [A1 _]. destruct (aligned_all ps t' Hp H2) as [A2 _].
    rewrite align_of_res. repeat split; auto; [apply pow2_max_divide_r; assumption|apply Z.divide_0_r].
  - inversion Hst; subst. rewrite align_of_flag by lia. repeat split; try apply Z.divide_1_l. simpl. apply pow2_1.
  - destruct (nth_error fs i) as [ft|] eqn:Hf; [|discriminate].
    destruct (nth_error (field_offsets ps fs) i) as [o0|] eqn:Ho; [|discriminate].
    destruct (o0 <? 0); [discriminate|]. inversion Hst; subst.
    pose proof (wf_wfz _ Hw) as Hz.
    pose proof (wfz_fields_good ps fs Hps Hz) as Hg.
    destruct (struct_spec ps fs Hg) as [e [Hc [Hsz [He [Hal Hall]]]]].
    pose proof (nth_error_map_sa ps _ _ _ Hf) as M.
    destruct (chain_nth _ _ _ _ _ _ _ _ (map_sa_ok _ _ Hg) Hc Ho M) as [A [B C]].
    assert (Hwt : wf t'). { apply wf_struct in Hw. rewrite Forall_forall in Hw. apply Hw. eapply nth_error_In; eauto. }
    destruct (aligned_all ps t' Hp Hwt) as [P1 _].
    destruct (aligned_all ps (TStruct fs) Hp Hw) as [P2 _].
    rewrite Forall_forall in Hall. specialize (Hall _ (nth_error_In _ _ M)). simpl in Hall.
    repeat split; auto. apply pow2_le_divide; assumption.
Qed.

Lemma resolve_aligned : forall ps p t o t' base, is_pow2 ps -> wf t -> resolve ps t p = Some (o, t') ->
  (align_of ps t | base) -> (align_of ps t' | base + o).
Proof.
  intros ps p. induction p as [|s r IH]; intros t o t' base Hp Hw Hr Hb; simpl in Hr.
  - inversion Hr; subst. replace (base + 0) with base by lia. assumption.
  - destruct (step_into ps t s) as [[o1 t1]|] eqn:Hs; [|discriminate].
    destruct (resolve ps t1 r) as [[o2 t2]|] eqn:Hr2; [|discriminate]. inversion Hr; subst.
    destruct (step_aligned _ _ _ _ _ Hp Hw Hs) as [A [B C]].
    replace (base + (o1 + o2)) with ((base + o1) + o2) by lia.
    apply (IH t1 o2 t' (base + o1) Hp C Hr2).
    apply Z.divide_add_r; [|assumption]. apply (Z.divide_trans _ (align_of ps t)); assumption.
Qed.

(* ------------------------------------------------------------------ boolean power-of-two test for regenerated tables *)

Fixpoint pow2b_fuel (fuel : nat) (a : Z) : bool :=
  match fuel with
  | O => false
  | S k => if a =? 1 then true else if (a <=? 1) || negb (a mod 2 =? 0) then false else pow2b_fuel k (a / 2)
  end.
Definition is_pow2b (a : Z) : bool := pow2b_fuel 64 a.

Lemma pow2b_sound : forall fuel a, pow2b_fuel fuel a = true -> is_pow2 a.
Proof.
  induction fuel as [|k IH]; intros a H; simpl in H; [discriminate|].
  destruct (a =? 1) eqn:E1; [apply Z.eqb_eq in E1; subst; apply pow2_1|].
  destruct ((a <=? 1) || negb (a mod 2 =? 0)) eqn:E2; [discriminate|].
  apply orb_false_iff in E2. destruct E2 as [E2 E3]. apply negb_false_iff in E3. apply Z.eqb_eq in E3.
  apply Z.leb_gt in E2. destruct (IH _ H) as [j [Hj Hq]].
  exists (j + 1). split; [lia|]. rewrite Z.pow_add_r by lia.
  pose proof (Z.div_mod a 2 ltac:(lia)). lia.
Qed.

Lemma forallb_pow2 : forall l, forallb is_pow2b l = true -> Forall is_pow2 l.
Proof.
  induction l as [|x r IH]; simpl; intros H; constructor.
  - apply andb_prop in H. destruct H as [H _]. eapply pow2b_sound; eauto.
  - apply IH. apply andb_prop in H. tauto.
Qed.
