(* C15 — AddDependency as a transition system: acyclicity invariant, every cyclic request list is rejected
   under every order of the calls, every acyclic one is accepted in full. *)
From Coq Require Import List Arith Bool ZArith Lia Permutation.
Import ListNotations.
From FV Require Import Models.DepGraph Proofs.DepGraphP.

(* ------------------------------------------------------------------ findCycle is exact *)

Lemma find_cycle_some g a b c : find_cycle g a b = Some c -> reach g a b.
Proof.
  unfold find_cycle. destruct (has_cycle_path (dfs_fuel g) g b a [] []) as [[p|] v] eqn:E; simpl; [|discriminate].
  intros _. eapply hcp_sound; exact E.
Qed.

Lemma find_cycle_none g a b : find_cycle g a b = None -> ~ reach g a b.
Proof.
  unfold find_cycle. destruct (has_cycle_path (dfs_fuel g) g b a [] []) as [[p|] v] eqn:E; simpl; [discriminate|].
  intros _. eapply hcp_complete; exact E.
Qed.

Lemma find_cycle_iff g a b : (exists c, find_cycle g a b = Some c) <-> reach g a b.
Proof.
  split; [intros [c H]; eapply find_cycle_some; eauto|].
  intros Hr. destruct (find_cycle g a b) as [c|] eqn:E; [eauto|].
  exfalso. eapply find_cycle_none; eauto.
Qed.

Lemma reach_b_iff g x y : reach_b g x y = true <-> reach g x y.
Proof.
  unfold reach_b. destruct (has_cycle_path (dfs_fuel g) g y x [] []) as [[p|] v] eqn:E; simpl.
  - split; [intros _; eapply hcp_sound; exact E | reflexivity].
  - split; [discriminate | intros Hr; exfalso; eapply hcp_complete; eauto].
Qed.

Lemma cyclic_b_iff g : cyclic_b g = true <-> cyclic g.
Proof.
  unfold cyclic_b, cyclic. rewrite existsb_exists. split.
  - intros [[x y] [Hin Hr]]. simpl in Hr. apply reach_b_iff in Hr. exists x, y. split; assumption.
  - intros (x & y & He & Hr). exists (x, y). split; [exact He | simpl; apply reach_b_iff; exact Hr].
Qed.

(* ------------------------------------------------------------------ one more edge *)

Lemma reach_snoc g u v x y :
  reach (g ++ [(u, v)]) x y -> reach g x y \/ (reach g x u /\ reach g v y).
Proof.
  induction 1 as [x | x y z He Hr IH].
  - left. apply reach_refl.
  - unfold edge in He. apply in_app_or in He. destruct He as [He | [He | []]].
    + destruct IH as [IH | [IH1 IH2]].
      * left. eapply reach_step; eauto.
      * right. split; [eapply reach_step; eauto | exact IH2].
    + inversion He; subst. destruct IH as [IH | [IH1 IH2]].
      * right. split; [apply reach_refl | exact IH].
      * right. split; [apply reach_refl | exact IH2].
Qed.

Lemma acyclic_snoc g u v : acyclic g -> ~ reach g v u -> acyclic (g ++ [(u, v)]).
Proof.
  intros Ha Hn (x & y & He & Hr).
  apply reach_snoc in Hr. unfold edge in He. apply in_app_or in He.
  destruct He as [He | [He | []]].
  - destruct Hr as [Hr | [Hr1 Hr2]].
    + apply Ha. exists x, y. split; assumption.
    + apply Hn. eapply reach_trans; [exact Hr2|]. eapply reach_step; [exact He | exact Hr1].
  - inversion He; subst. destruct Hr as [Hr | [Hr1 Hr2]]; apply Hn; assumption.
Qed.

(* ------------------------------------------------------------------ AddDependency *)

Inductive add_spec (g : graph) (u v : node) : graph * result -> Prop :=
| AddErr c : reach g v u -> add_spec g u v (g, ErrCycle c)
| AddDup : ~ reach g v u -> In (u, v) g -> add_spec g u v (g, Ok)
| AddNew : ~ reach g v u -> ~ In (u, v) g -> add_spec g u v (g ++ [(u, v)], Ok).

Lemma add_dependency_spec g u v : add_spec g u v (add_dependency g u v).
Proof.
  unfold add_dependency. destruct (find_cycle g v u) as [c|] eqn:E.
  - apply AddErr. eapply find_cycle_some; eauto.
  - apply find_cycle_none in E. destruct (mem v (succs g u)) eqn:Em.
    + apply AddDup; [exact E|]. apply succs_In. apply mem_In. exact Em.
    + apply AddNew; [exact E|]. intros Hin. apply succs_In in Hin. apply mem_In in Hin. congruence.
Qed.

Lemma add_acyclic g u v : acyclic g -> acyclic (fst (add_dependency g u v)).
Proof.
  intros Ha. destruct (add_dependency_spec g u v); simpl; try assumption.
  apply acyclic_snoc; assumption.
Qed.

Lemma nodup_snoc {A} (l : list A) x : NoDup l -> ~ In x l -> NoDup (l ++ [x]).
Proof.
  induction 1 as [|a l Ha Hn IH]; intros Hx; simpl.
  - constructor; [intros [] | constructor].
  - constructor.
    + intros Hin. apply in_app_or in Hin. destruct Hin as [Hin | [-> | []]]; [contradiction|].
      apply Hx. left. reflexivity.
    + apply IH. intros Hin. apply Hx. right. exact Hin.
Qed.

Lemma add_nodup g u v : NoDup g -> NoDup (fst (add_dependency g u v)).
Proof.
  intros Hn. destruct (add_dependency_spec g u v); simpl; try assumption.
  apply nodup_snoc; assumption.
Qed.

(* ------------------------------------------------------------------ call sequences *)

Lemma run_cons g u v cs :
  run g ((u, v) :: cs) =
  (fst (run (fst (add_dependency g u v)) cs), snd (add_dependency g u v) :: snd (run (fst (add_dependency g u v)) cs)).
Proof.
  simpl. destruct (add_dependency g u v) as [g1 r]. simpl. destruct (run g1 cs) as [g2 rs]. reflexivity.
Qed.

Lemma run_acyclic calls : forall g, acyclic g -> acyclic (fst (run g calls)).
Proof.
  induction calls as [|[u v] cs IH]; intros g Ha; [exact Ha|].
  rewrite run_cons. simpl. apply IH. apply add_acyclic. exact Ha.
Qed.

Lemma run_nodup calls : forall g, NoDup g -> NoDup (fst (run g calls)).
Proof.
  induction calls as [|[u v] cs IH]; intros g Ha; [exact Ha|].
  rewrite run_cons. simpl. apply IH. apply add_nodup. exact Ha.
Qed.

Lemma add_mono g u v : incl g (fst (add_dependency g u v)).
Proof.
  destruct (add_dependency_spec g u v); simpl; try apply incl_refl. apply incl_appl. apply incl_refl.
Qed.

Lemma run_mono calls : forall g, incl g (fst (run g calls)).
Proof.
  induction calls as [|[u v] cs IH]; intros g; [apply incl_refl|].
  rewrite run_cons. simpl. eapply incl_tran; [apply add_mono | apply IH].
Qed.

Lemma run_length calls : forall g, length (snd (run g calls)) = length calls.
Proof.
  induction calls as [|[u v] cs IH]; intros g; [reflexivity|].
  rewrite run_cons. simpl. rewrite IH. reflexivity.
Qed.

(* only requested edges are ever stored *)
Lemma run_sub calls : forall g e, In e (fst (run g calls)) -> In e g \/ In e calls.
Proof.
  induction calls as [|[u v] cs IH]; intros g e H; [left; exact H|].
  rewrite run_cons in H. simpl in H. apply IH in H. destruct H as [H|H]; [|right; right; exact H].
  destruct (add_dependency_spec g u v); simpl in H; try (left; exact H).
  apply in_app_or in H. destruct H as [H | [<- | []]]; [left; exact H | right; left; reflexivity].
Qed.

(* a call that answers nil has its edge stored (then or earlier), and it stays stored *)
Lemma add_ok_in g u v : is_err (snd (add_dependency g u v)) = false -> In (u, v) (fst (add_dependency g u v)).
Proof.
  destruct (add_dependency_spec g u v); simpl; intros Hok; try discriminate; try assumption.
  apply in_or_app. right. left. reflexivity.
Qed.

Lemma run_ok_all calls : forall g,
  existsb is_err (snd (run g calls)) = false -> incl calls (fst (run g calls)).
Proof.
  induction calls as [|[u v] cs IH]; intros g H; [intros e []|].
  rewrite run_cons in *. simpl in *. apply orb_false_iff in H. destruct H as [H1 H2].
  intros e [<-|Hin].
  - apply run_mono. apply add_ok_in. exact H1.
  - apply IH; assumption.
Qed.

(* ------------------------------------------------------------------ the three theorems *)

Lemma acyclic_nil : acyclic [].
Proof. intros (x & y & [] & _). Qed.

Theorem inv_acyclic calls : acyclic (fst (run [] calls)) /\ NoDup (fst (run [] calls)).
Proof. split; [apply run_acyclic; apply acyclic_nil | apply run_nodup; constructor]. Qed.

Theorem cycle_rejected E calls :
  Permutation E calls -> cyclic E -> existsb is_err (snd (run [] calls)) = true.
Proof.
  intros Hp Hc. destruct (existsb is_err (snd (run [] calls))) eqn:Ex; [reflexivity|].
  exfalso. apply run_ok_all in Ex.
  apply (proj1 (inv_acyclic calls)).
  eapply cyclic_incl; [exact Ex|]. eapply cyclic_incl; [|exact Hc].
  intros e He. eapply Permutation_in; eauto.
Qed.

Lemma run_dag E : acyclic E -> forall calls g,
  incl g E -> incl calls E -> existsb is_err (snd (run g calls)) = false.
Proof.
  intros Ha. induction calls as [|[u v] cs IH]; intros g Hg Hc; [reflexivity|].
  rewrite run_cons. simpl. apply orb_false_iff. split.
  - destruct (add_dependency_spec g u v) as [c Hr | |]; simpl; try reflexivity.
    exfalso. apply Ha. exists u, v. split; [apply Hc; left; reflexivity | apply (reach_incl g E); assumption].
  - apply IH; [|intros e He; apply Hc; right; exact He].
    destruct (add_dependency_spec g u v); simpl; try assumption.
    apply incl_app; [assumption|]. intros e [<-|[]]. apply Hc. left. reflexivity.
Qed.

Theorem dag_accepted E calls :
  Permutation E calls -> acyclic E ->
  existsb is_err (snd (run [] calls)) = false /\
  (forall e, In e (fst (run [] calls)) <-> In e E) /\ NoDup (fst (run [] calls)).
Proof.
  intros Hp Ha.
  assert (Hc : incl calls E) by (intros e He; eapply Permutation_in; [apply Permutation_sym; exact Hp | exact He]).
  assert (Hok : existsb is_err (snd (run [] calls)) = false).
  { apply (run_dag E Ha); [intros e [] | exact Hc]. }
  split; [exact Hok|]. split; [|apply inv_acyclic].
  intros e. split.
  - intros H. apply run_sub in H. destruct H as [[]|H]. apply Hc. exact H.
  - intros H. apply (run_ok_all calls [] Hok). eapply Permutation_in; eauto.
Qed.

(* which call is rejected: exactly a call whose edge would close a cycle with the edges accepted before it *)
Theorem call_rejected_iff g u v :
  is_err (snd (add_dependency g u v)) = true <-> reach g v u.
Proof.
  destruct (add_dependency_spec g u v); simpl; split; intros; try discriminate; try reflexivity; try assumption; contradiction.
Qed.

(* ------------------------------------------------------------------ the reported cycle *)

Lemma is_walk_snoc g l a b : is_walk g (l ++ [a]) -> edge g a b -> is_walk g ((l ++ [a]) ++ [b]).
Proof.
  induction l as [|x l IH]; intros Hw He.
  - simpl. split; [exact He | exact I].
  - destruct l as [|y l'].
    + simpl in *. destruct Hw as [Hxa _]. split; [exact Hxa|]. split; [exact He | exact I].
    + simpl in Hw. destruct Hw as [Hxy Hw]. simpl. split; [exact Hxy|]. apply IH; assumption.
Qed.

Lemma is_walk_incl g h p : incl g h -> is_walk g p -> is_walk h p.
Proof.
  intros Hi. induction p as [|x p IH]; [trivial|]. destruct p as [|y p']; [trivial|].
  intros [He Hw]. split; [apply Hi; exact He | apply IH; exact Hw].
Qed.

Lemma hcp_walk g t : forall fuel s vis path p v',
  is_walk g (path ++ [s]) ->
  has_cycle_path fuel g t s vis path = (Some p, v') ->
  is_walk g (p ++ [t]) /\ exists rest, p ++ [t] = path ++ s :: rest.
Proof.
  induction fuel as [|f IH]; simpl; intros s vis path p v' Hw H; [discriminate|].
  destruct (Nat.eqb_spec s t) as [->|Hne].
  - inversion H; subst. split; [exact Hw | exists []; reflexivity].
  - destruct (mem s vis); [discriminate|].
    apply dfs_loop_some in H. destruct H as (d & v0 & Hin & Hr).
    apply succs_In in Hin.
    destruct (IH d v0 (path ++ [s]) p v' (is_walk_snoc g path s d Hw Hin) Hr) as [Hw' [rest Hrest]].
    split; [exact Hw'|]. exists (d :: rest). rewrite Hrest. rewrite <- app_assoc. reflexivity.
Qed.

Theorem reported_cycle_genuine g u v c :
  snd (add_dependency g u v) = ErrCycle c ->
  is_walk (g ++ [(u, v)]) c /\ hd_error c = Some u /\ last c v = u /\ 2 <= length c.
Proof.
  unfold add_dependency, find_cycle.
  destruct (has_cycle_path (dfs_fuel g) g u v [] []) as [[p|] vis] eqn:E; simpl.
  - intros H. inversion H; subst c. clear H.
    destruct (hcp_walk g u _ v [] [] p vis I E) as [Hw [rest Hrest]]. simpl in Hrest.
    split; [|split; [reflexivity|split]].
    + change (u :: p ++ [u]) with ([u] ++ (p ++ [u])). rewrite Hrest.
      change (edge (g ++ [(u, v)]) u v /\ is_walk (g ++ [(u, v)]) (v :: rest)).
      split; [apply in_or_app; right; left; reflexivity|].
      rewrite <- Hrest. eapply is_walk_incl; [|exact Hw]. apply incl_appl. apply incl_refl.
    + change (u :: p ++ [u]) with ((u :: p) ++ [u]). apply last_last.
    + simpl. rewrite app_length. simpl. lia.
  - destruct (mem v (succs g u)); simpl; discriminate.
Qed.
