(* C19 — boundary lemmas for number and byte literals, and the composition through the ordered pattern table
   (Models/Trivia.v: m_number, m_byte, step; Models/TriviaNum.v: names of the parts and of the follow classes). *)
From Coq Require Import ZArith List Bool Lia.
From FV Require Import Models.Trivia Models.TriviaNum Proofs.TriviaP.
Import ListNotations.
Open Scope Z_scope.

(* ------------------------------------------------------------------ 0. byte classes *)

Lemma inr_false : forall lo hi c, inr lo hi c = false <-> (c < lo \/ hi < c).
Proof. intros. unfold inr. rewrite andb_false_iff, Z.leb_gt, Z.leb_gt. lia. Qed.

Lemma inr_true : forall lo hi c, inr lo hi c = true <-> (lo <= c <= hi).
Proof. intros. unfold inr. rewrite andb_true_iff, Z.leb_le, Z.leb_le. lia. Qed.

Lemma num_stop_arith : forall c, num_stop c = true ->
  (c < 48 \/ 57 < c) /\ (c < 97 \/ 102 < c) /\ (c < 65 \/ 70 < c) /\
  c <> 95 /\ c <> 46 /\ c <> 120 /\ c <> 88 /\ c <> 111 /\ c <> 79 /\ c <> 43 /\ c <> 45.
Proof.
  intros c H. unfold num_stop in H.
  repeat (apply andb_true_iff in H; destruct H as [H ?]).
  repeat match goal with X : negb _ = true |- _ => apply negb_true_iff in X end.
  repeat match goal with X : (_ =? _) = false |- _ => apply Z.eqb_neq in X end.
  unfold is_hex in H. apply orb_false_iff in H. destruct H as [H Hhc]. apply orb_false_iff in H. destruct H as [Hha Hhb].
  apply inr_false in Hha. apply inr_false in Hhb. apply inr_false in Hhc. repeat split; assumption.
Qed.

Lemma ns_class : forall d c, d = is_digit \/ d = is_hex \/ d = is_oct \/ d = is_bin -> num_stop c = true -> d c = false.
Proof.
  intros d c Hd H. pose proof (num_stop_arith c H) as A.
  destruct Hd as [-> | [-> | [-> | ->]]].
  - apply inr_false. lia.
  - unfold is_hex. rewrite !orb_false_iff. repeat split; apply inr_false; lia.
  - apply inr_false. lia.
  - apply inr_false. lia.
Qed.

Lemma ns_neq : forall c k, num_stop c = true ->
  In k [95; 46; 120; 88; 111; 79; 43; 45; 48; 101; 69; 98; 66] -> (c =? k) = false.
Proof.
  intros c k H Hk. pose proof (num_stop_arith c H) as A. apply Z.eqb_neq.
  cbn [In] in Hk. lia.
Qed.

Lemma ws_cases : forall c, is_ws c = true -> c = 9 \/ c = 10 \/ c = 12 \/ c = 13 \/ c = 32.
Proof.
  intros c H. unfold is_ws in H.
  repeat (apply orb_true_iff in H; destruct H as [H|H]); apply Z.eqb_eq in H; lia.
Qed.

Lemma trivia_start_cases : forall c, trivia_start c = true -> c = 9 \/ c = 10 \/ c = 12 \/ c = 13 \/ c = 32 \/ c = 47.
Proof.
  intros c H. unfold trivia_start in H. apply orb_true_iff in H. destruct H as [H|H].
  - apply ws_cases in H. lia.
  - apply Z.eqb_eq in H. lia.
Qed.

(* whitespace and the slash are num_stop bytes *)
Lemma trivia_start_num_stop : forall c, trivia_start c = true -> num_stop c = true.
Proof.
  intros c H. apply trivia_start_cases in H.
  destruct H as [-> | [-> | [-> | [-> | [-> | ->]]]]]; reflexivity.
Qed.

Lemma starts_trivia_head : forall r, starts_trivia r = true -> exists c r1, r = c :: r1 /\ trivia_start c = true.
Proof.
  intros [|c r1] H; [discriminate|]. exists c, r1. split; [reflexivity|].
  cbn [starts_trivia] in H. unfold trivia_start. apply orb_true_iff in H. destruct H as [H|H].
  - rewrite H. reflexivity.
  - apply andb_true_iff in H. destruct H as [H _]. rewrite H. apply orb_true_r.
Qed.

Lemma starts_trivia_num_follow : forall r, starts_trivia r = true -> num_follow r.
Proof.
  intros r H. destruct (starts_trivia_head r H) as [c [r1 [-> Hc]]]. cbn. apply trivia_start_num_stop. assumption.
Qed.

(* ------------------------------------------------------------------ 1. numbers
   Form of every lemma (U): if the match on m ++ r stays inside m, then it is the same on m ++ r' for every r' that is
   empty or starts with a stop byte.  With `= length m` this is the boundary lemma, with `= 0` it says that a
   recogniser which fails keeps failing. *)

Definition gstop (d : Z -> bool) (r : list Z) : Prop :=
  match r with [] => True | c :: _ => d c = false /\ (c =? 95) = false end.

Lemma groups_cons : forall d b r, groups d (b :: r) =
  if d b then S (groups d r)
  else if b =? 95 then match r with c :: r' => if d c then S (S (groups d r')) else O | [] => O end else O.
Proof. reflexivity. Qed.

Lemma groups_stop : forall d r, gstop d r -> groups d r = O.
Proof.
  intros d [|c r] H; [reflexivity|]. destruct H as [H1 H2]. rewrite groups_cons, H1, H2. reflexivity.
Qed.

Lemma groups_U : forall d n m r r', (length m <= n)%nat -> (groups d (m ++ r) <= length m)%nat -> gstop d r' ->
  groups d (m ++ r') = groups d (m ++ r).
Proof.
  intros d n; induction n as [|n IH]; intros m r r' Hn H Hs.
  - destruct m; [|cbn in Hn; lia]. cbn [app length] in *.
    rewrite (groups_stop d r' Hs). lia.
  - destruct m as [|b m1].
    { cbn [app length] in *. rewrite (groups_stop d r' Hs). lia. }
    cbn [app length] in *. rewrite groups_cons in H. rewrite !groups_cons.
    destruct (d b).
    { f_equal. apply IH; [lia | lia | assumption]. }
    destruct (b =? 95); [|reflexivity].
    destruct m1 as [|c1 m2]; cbn [app length] in *.
    + assert (E : match r with c :: r0 => if d c then S (S (groups d r0)) else O | [] => O end = O).
      { destruct r as [|c0 r0]; [reflexivity|]. destruct (d c0); [lia | reflexivity]. }
      rewrite E. destruct r' as [|c r'']; [reflexivity|]. destruct Hs as [Hd _]. rewrite Hd. reflexivity.
    + destruct (d c1); [|reflexivity]. do 2 f_equal. apply IH; [lia | lia | assumption].
Qed.

Lemma digits1_U : forall d m r r', (digits1 d (m ++ r) <= length m)%nat -> gstop d r' ->
  digits1 d (m ++ r') = digits1 d (m ++ r).
Proof.
  intros d m r r' H Hs. destruct m as [|b m1]; cbn [app length] in *.
  - assert (E : digits1 d r' = O).
    { destruct r' as [|c r'']; [reflexivity|]. destruct Hs as [Hd _]. cbn [digits1]. rewrite Hd. reflexivity. }
    rewrite E. lia.
  - cbn [digits1] in *. destruct (d b); [|reflexivity]. f_equal.
    apply (groups_U d (length m1)); [lia | lia | assumption].
Qed.

Definition pstop (x X : Z) (d : Z -> bool) (r : list Z) : Prop :=
  match r with
  | [] => True
  | c :: _ => d c = false /\ (c =? 95) = false /\ (c =? x) = false /\ (c =? X) = false /\ (c =? 48) = false
  end.

Lemma pstop_gstop : forall x X d r, pstop x X d r -> gstop d r.
Proof. intros x X d [|c r] H; [exact I|]. destruct H as [H1 [H2 _]]. split; assumption. Qed.

Lemma prefixed_U : forall x X d m r r', (prefixed x X d (m ++ r) <= length m)%nat -> pstop x X d r' ->
  prefixed x X d (m ++ r') = prefixed x X d (m ++ r).
Proof.
  intros x X d m r r' H Hs. pose proof (pstop_gstop _ _ _ _ Hs) as Hg.
  destruct m as [|z [|c2 m2]]; cbn [app length] in *.
  - assert (E : prefixed x X d r' = O).
    { destruct r' as [|c [|c2 r'']]; [reflexivity | reflexivity |].
      destruct Hs as [_ [_ [_ [_ H48]]]]. cbn [prefixed]. rewrite H48. reflexivity. }
    rewrite E. lia.
  - assert (E : prefixed x X d (z :: r) = O).
    { destruct r as [|c2 r0]; [reflexivity|]. cbn [prefixed] in *.
      destruct ((z =? 48) && ((c2 =? x) || (c2 =? X))); [|reflexivity].
      destruct (digits1 d r0); [reflexivity | cbn in H; lia]. }
    rewrite E. destruct r' as [|c r'']; [reflexivity|].
    destruct Hs as [_ [_ [Hx [HX _]]]]. cbn [prefixed]. rewrite Hx, HX. cbn [orb]. rewrite andb_false_r. reflexivity.
  - cbn [prefixed] in *. destruct ((z =? 48) && ((c2 =? x) || (c2 =? X))); [|reflexivity].
    assert (Hd : (digits1 d (m2 ++ r) <= length m2)%nat).
    { destruct (digits1 d (m2 ++ r)); [lia | cbn in H; lia]. }
    rewrite (digits1_U d m2 r r' Hd Hg). reflexivity.
Qed.

Lemma num_follow_gstop : forall d r, d = is_digit \/ d = is_hex \/ d = is_oct \/ d = is_bin -> num_follow r -> gstop d r.
Proof.
  intros d [|c r] Hd H; [exact I|]. cbn in H. split.
  - apply ns_class; assumption.
  - apply ns_neq; [assumption | cbn; tauto].
Qed.

Lemma num_follow_pstop : forall x X d r, d = is_digit \/ d = is_hex \/ d = is_oct \/ d = is_bin ->
  In x [120; 88; 111; 79; 98; 66] -> In X [120; 88; 111; 79; 98; 66] -> num_follow r -> pstop x X d r.
Proof.
  intros x X d [|c r] Hd Hx HX H; [exact I|]. cbn in H. cbn [pstop].
  split; [apply ns_class; assumption|].
  split; [apply ns_neq; [assumption | cbn; tauto]|].
  split; [apply ns_neq; [assumption | cbn [In] in *; lia]|].
  split; [apply ns_neq; [assumption | cbn [In] in *; lia]|].
  apply ns_neq; [assumption | cbn; tauto].
Qed.

Lemma m_float_parts : forall s, m_float s = m_float' s.
Proof. intros s. unfold m_float, m_float', frac_len, exp_len. destruct (digits1 is_digit s); reflexivity. Qed.

Lemma m_float'_O : forall s, digits1 is_digit s = O -> m_float' s = O.
Proof. intros s E. unfold m_float'. rewrite E. reflexivity. Qed.

Lemma m_float'_S : forall s n0, digits1 is_digit s = S n0 ->
  m_float' s = (S n0 + frac_len (skipn (S n0) s) + exp_len (skipn (frac_len (skipn (S n0) s)) (skipn (S n0) s)))%nat.
Proof. intros s n0 E. unfold m_float'. rewrite E. reflexivity. Qed.

Lemma skipn_app_le : forall (A : Type) n (m r : list A), (n <= length m)%nat -> skipn n (m ++ r) = skipn n m ++ r.
Proof.
  intros A n m r H. rewrite skipn_app. replace (n - length m)%nat with O by lia. reflexivity.
Qed.

Lemma frac_U : forall m r r', (frac_len (m ++ r) <= length m)%nat -> num_follow r' ->
  frac_len (m ++ r') = frac_len (m ++ r).
Proof.
  intros m r r' H Hs. destruct m as [|dot m1]; cbn [app length] in *.
  - assert (E : frac_len r' = O).
    { destruct r' as [|c r'']; [reflexivity|]. cbn in Hs. cbn [frac_len].
      rewrite (ns_neq c 46 Hs) by (cbn; tauto). reflexivity. }
    rewrite E. lia.
  - cbn [frac_len] in *. destruct (dot =? 46); [|reflexivity].
    assert (Hd : (digits1 is_digit (m1 ++ r) <= length m1)%nat).
    { destruct (digits1 is_digit (m1 ++ r)); lia. }
    rewrite (digits1_U is_digit m1 r r' Hd) by (apply num_follow_gstop; [tauto | assumption]). reflexivity.
Qed.

Lemma digits1_stop : forall d r, gstop d r -> digits1 d r = O.
Proof.
  intros d [|c r] H; [reflexivity|]. destruct H as [H _]. cbn [digits1]. rewrite H. reflexivity.
Qed.

Lemma exp_follow_O : forall e r', num_follow r' -> exp_len (e :: r') = O.
Proof.
  intros e r' Hs. cbn [exp_len]. destruct ((e =? 101) || (e =? 69)); [|reflexivity].
  destruct r' as [|c r'']; [reflexivity|]. cbn in Hs.
  rewrite (ns_neq c 43 Hs) by (cbn; tauto). rewrite (ns_neq c 45 Hs) by (cbn; tauto). cbn [orb].
  rewrite (digits1_stop is_digit (c :: r'')); [reflexivity|].
  apply num_follow_gstop; [tauto | exact Hs].
Qed.

Lemma exp_U : forall m r r', (exp_len (m ++ r) <= length m)%nat -> num_follow r' ->
  exp_len (m ++ r') = exp_len (m ++ r).
Proof.
  intros m r r' H Hs. destruct m as [|e [|sg m2]]; cbn [app length] in *.
  - assert (E : exp_len r' = O).
    { destruct r' as [|c r'']; [reflexivity|]. cbn in Hs. cbn [exp_len].
      rewrite (ns_neq c 101 Hs) by (cbn; tauto). rewrite (ns_neq c 69 Hs) by (cbn; tauto). reflexivity. }
    rewrite E. lia.
  - rewrite (exp_follow_O e r' Hs).
    cbn [exp_len] in *. destruct ((e =? 101) || (e =? 69)); [|reflexivity].
    destruct r as [|sg r4]; [reflexivity|].
    destruct ((sg =? 43) || (sg =? 45)).
    + destruct (digits1 is_digit r4); [reflexivity | lia].
    + destruct (digits1 is_digit (sg :: r4)) as [|[|k]]; [reflexivity | lia | lia].
  - cbn [exp_len] in *. destruct ((e =? 101) || (e =? 69)); [|reflexivity].
    destruct ((sg =? 43) || (sg =? 45)).
    + assert (Hd : (digits1 is_digit (m2 ++ r) <= length m2)%nat).
      { destruct (digits1 is_digit (m2 ++ r)); lia. }
      rewrite (digits1_U is_digit m2 r r' Hd) by (apply num_follow_gstop; [tauto | assumption]). reflexivity.
    + change (sg :: m2 ++ r) with ((sg :: m2) ++ r) in *. change (sg :: m2 ++ r') with ((sg :: m2) ++ r').
      assert (Hd : (digits1 is_digit ((sg :: m2) ++ r) <= length (sg :: m2))%nat).
      { cbn [length]. destruct (digits1 is_digit ((sg :: m2) ++ r)); lia. }
      rewrite (digits1_U is_digit (sg :: m2) r r' Hd) by (apply num_follow_gstop; [tauto | assumption]). reflexivity.
Qed.

Lemma m_float_U : forall m r r', (m_float (m ++ r) <= length m)%nat -> num_follow r' ->
  m_float (m ++ r') = m_float (m ++ r).
Proof.
  intros m r r' H Hs. rewrite m_float_parts in H. rewrite (m_float_parts (m ++ r)), (m_float_parts (m ++ r')).
  assert (Hg : gstop is_digit r') by (apply num_follow_gstop; [tauto | assumption]).
  destruct (digits1 is_digit (m ++ r)) as [|n0] eqn:En.
  - assert (En' : digits1 is_digit (m ++ r') = O).
    { rewrite (digits1_U is_digit m r r'); [assumption | rewrite En; lia | assumption]. }
    rewrite (m_float'_O _ En), (m_float'_O _ En'). reflexivity.
  - rewrite (m_float'_S _ _ En) in H.
    assert (Hn : (S n0 <= length m)%nat) by lia.
    assert (En' : digits1 is_digit (m ++ r') = S n0).
    { rewrite (digits1_U is_digit m r r'); [assumption | rewrite En; assumption | assumption]. }
    rewrite (m_float'_S _ _ En), (m_float'_S _ _ En').
    rewrite (skipn_app_le _ _ m r Hn) in *. rewrite (skipn_app_le _ _ m r' Hn).
    pose proof (skipn_length (S n0) m) as L1.
    set (m1 := skipn (S n0) m) in *.
    assert (Hf : (frac_len (m1 ++ r) <= length m1)%nat) by lia.
    rewrite (frac_U m1 r r' Hf Hs).
    rewrite (skipn_app_le _ _ m1 r Hf) in *. rewrite (skipn_app_le _ _ m1 r' Hf).
    pose proof (skipn_length (frac_len (m1 ++ r)) m1) as L2.
    set (m2 := skipn (frac_len (m1 ++ r)) m1) in *.
    assert (He : (exp_len (m2 ++ r) <= length m2)%nat) by lia.
    rewrite (exp_U m2 r r' He Hs). reflexivity.
Qed.

Lemma m_unsigned_U : forall m r r', (m_unsigned (m ++ r) <= length m)%nat -> num_follow r' ->
  m_unsigned (m ++ r') = m_unsigned (m ++ r).
Proof.
  intros m r r' H Hs. unfold m_unsigned in *.
  assert (P1 : pstop 120 88 is_hex r') by (apply num_follow_pstop; [tauto | cbn; tauto | cbn; tauto | assumption]).
  assert (P2 : pstop 111 79 is_oct r') by (apply num_follow_pstop; [tauto | cbn; tauto | cbn; tauto | assumption]).
  assert (P3 : pstop 98 66 is_bin r') by (apply num_follow_pstop; [tauto | cbn; tauto | cbn; tauto | assumption]).
  destruct (prefixed 120 88 is_hex (m ++ r)) as [|k] eqn:E1.
  2:{ rewrite (prefixed_U _ _ _ m r r') by (rewrite ?E1; assumption). rewrite E1. reflexivity. }
  rewrite (prefixed_U _ _ _ m r r') by (rewrite ?E1; try lia; assumption). rewrite E1.
  destruct (prefixed 111 79 is_oct (m ++ r)) as [|k] eqn:E2.
  2:{ rewrite (prefixed_U _ _ _ m r r') by (rewrite ?E2; assumption). rewrite E2. reflexivity. }
  rewrite (prefixed_U _ _ _ m r r') by (rewrite ?E2; try lia; assumption). rewrite E2.
  destruct (prefixed 98 66 is_bin (m ++ r)) as [|k] eqn:E3.
  2:{ rewrite (prefixed_U _ _ _ m r r') by (rewrite ?E3; assumption). rewrite E3. reflexivity. }
  rewrite (prefixed_U _ _ _ m r r') by (rewrite ?E3; try lia; assumption). rewrite E3.
  apply m_float_U; assumption.
Qed.

Lemma m_unsigned_follow_O : forall r', num_follow r' -> m_unsigned r' = O.
Proof.
  intros r' Hs. change r' with ([] ++ r'). rewrite (m_unsigned_U [] [] r'); [reflexivity | cbn; lia | assumption].
Qed.

(* the general form for the whole number pattern *)
Theorem m_number_U : forall m r r', (m_number (m ++ r) <= length m)%nat -> num_follow r' ->
  m_number (m ++ r') = m_number (m ++ r).
Proof.
  intros m r r' H Hs. destruct m as [|a m1]; cbn [app length] in *.
  - assert (E : m_number r' = O).
    { destruct r' as [|c r'']; [reflexivity|]. cbn [m_number].
      rewrite (ns_neq c 45 Hs) by (cbn; tauto). apply m_unsigned_follow_O. exact Hs. }
    rewrite E. lia.
  - cbn [m_number] in *. destruct (a =? 45).
    + assert (Hd : (m_unsigned (m1 ++ r) <= length m1)%nat).
      { destruct (m_unsigned (m1 ++ r)); lia. }
      rewrite (m_unsigned_U m1 r r' Hd Hs). reflexivity.
    + change (a :: m1 ++ r) with ((a :: m1) ++ r) in *. change (a :: m1 ++ r') with ((a :: m1) ++ r').
      apply m_unsigned_U; [cbn [length]; assumption | assumption].
Qed.

(* boundary lemma for numbers: decimal, 0x/0o/0b prefixes, `_` separators, fraction, exponent, optional minus *)
Theorem m_number_boundary : forall m r r', m_number (m ++ r) = length m -> num_follow r' ->
  m_number (m ++ r') = length m.
Proof. intros m r r' H Hs. rewrite (m_number_U m r r'); [assumption | lia | assumption]. Qed.

(* a number recogniser that fails on m ++ r fails on m ++ r' *)
Lemma m_number_zero : forall m r r', m_number (m ++ r) = O -> num_follow r' -> m_number (m ++ r') = O.
Proof. intros m r r' H Hs. rewrite (m_number_U m r r'); [assumption | lia | assumption]. Qed.

(* in the form "followed by trivia": the first byte of the following text is whitespace or a slash *)
Theorem m_number_boundary_trivia : forall m r c r', trivia_start c = true ->
  m_number (m ++ r) = length m -> m_number (m ++ c :: r') = length m.
Proof.
  intros m r c r' Hc H. apply (m_number_boundary m r); [assumption|]. cbn. apply trivia_start_num_stop. assumption.
Qed.

(* whatever the match on `m ++ trivia...` is (complete or a malformed tail such as 0x, 1e, 1_), it is the same for every
   other trivia and at the end of the text *)
Theorem m_number_trivia_indep : forall m r r', num_follow r -> num_follow r' ->
  m_number (m ++ r) = m_number (m ++ r') /\ m_number (m ++ r) = m_number m /\ (m_number m <= length m)%nat.
Proof.
  intros m r r' Hr Hr'.
  assert (B : forall m0, (m_number m0 <= length m0)%nat).
  { clear. intros m0.
    assert (G : forall d n s, (length s <= n)%nat -> (groups d s <= length s)%nat).
    { intros d n; induction n as [|n IH]; intros s Hn.
      - destruct s; [cbn; lia | cbn in Hn; lia].
      - destruct s as [|b s1]; [cbn; lia|]. rewrite groups_cons. cbn [length] in *.
        destruct (d b). { specialize (IH s1). lia. }
        destruct (b =? 95); [|lia]. destruct s1 as [|c s2]; [lia|]. cbn [length] in *.
        destruct (d c); [|lia]. specialize (IH s2). lia. }
    assert (D : forall d s, (digits1 d s <= length s)%nat).
    { intros d [|b s1]; [cbn; lia|]. cbn [digits1 length]. destruct (d b); [|lia].
      specialize (G d (length s1) s1). lia. }
    assert (P : forall x X d s, (prefixed x X d s <= length s)%nat).
    { intros x X d [|z [|c s2]]; [cbn; lia | cbn; lia |]. cbn [prefixed length].
      destruct ((z =? 48) && ((c =? x) || (c =? X))); [|lia].
      specialize (D d s2). destruct (digits1 d s2); cbn; lia. }
    assert (Fr : forall s, (frac_len s <= length s)%nat).
    { intros [|dot s1]; [cbn; lia|]. cbn [frac_len length]. destruct (dot =? 46); [|lia].
      specialize (D is_digit s1). destruct (digits1 is_digit s1); lia. }
    assert (Ex : forall s, (exp_len s <= length s)%nat).
    { intros [|e [|sg s2]]; [cbn; lia | cbn [exp_len]; destruct ((e =? 101) || (e =? 69)); cbn; lia |].
      cbn [exp_len length]. destruct ((e =? 101) || (e =? 69)); [|lia].
      destruct ((sg =? 43) || (sg =? 45)).
      - specialize (D is_digit s2). destruct (digits1 is_digit s2); lia.
      - specialize (D is_digit (sg :: s2)). cbn [length] in D. destruct (digits1 is_digit (sg :: s2)); lia. }
    assert (Fl : forall s, (m_float s <= length s)%nat).
    { intros s. rewrite m_float_parts. destruct (digits1 is_digit s) as [|n0] eqn:En.
      - rewrite (m_float'_O _ En). lia.
      - rewrite (m_float'_S _ _ En).
        pose proof (D is_digit s) as D1. rewrite En in D1.
        pose proof (skipn_length (S n0) s) as L1.
        pose proof (Fr (skipn (S n0) s)) as F1.
        pose proof (skipn_length (frac_len (skipn (S n0) s)) (skipn (S n0) s)) as L2.
        pose proof (Ex (skipn (frac_len (skipn (S n0) s)) (skipn (S n0) s))) as E1.
        lia. }
    assert (U : forall s, (m_unsigned s <= length s)%nat).
    { intros s. unfold m_unsigned.
      pose proof (P 120 88 is_hex s). pose proof (P 111 79 is_oct s). pose proof (P 98 66 is_bin s). pose proof (Fl s).
      destruct (prefixed 120 88 is_hex s); [|assumption].
      destruct (prefixed 111 79 is_oct s); [|assumption].
      destruct (prefixed 98 66 is_bin s); assumption. }
    destruct m0 as [|a s1]; [cbn; lia|]. cbn [m_number length]. destruct (a =? 45).
    - specialize (U s1). destruct (m_unsigned s1); lia.
    - specialize (U (a :: s1)). cbn [length] in U. exact U. }
  assert (E : forall x, num_follow x -> m_number (m ++ x) = m_number m).
  { intros x Hx. rewrite <- (app_nil_r m) at 2. apply m_number_U; [rewrite app_nil_r; apply B | assumption]. }
  rewrite (E r Hr), (E r' Hr'). repeat split. apply B.
Qed.

Lemma number_boundary_example :
  let tok := [48; 120; 49; 95; 102] in let bad := [49; 101] in
  m_number (tok ++ [43; 49]) = length tok /\ num_follow [47; 42; 32; 42; 47] /\ num_follow [9] /\
  m_number (tok ++ [47; 42; 32; 42; 47]) = 5%nat /\
  m_number (bad ++ [32; 53]) = 1%nat /\ m_number (bad ++ [53]) = 3%nat.
Proof. vm_compute. repeat split; reflexivity. Qed.

(* ------------------------------------------------------------------ 2. byte literals
   quote ( backslash x H H | backslash anyrune-but-LF | one ASCII byte ) quote, alternatives tried in order.
   The only look-ahead beyond the literal: after quote backslash quote (3 bytes, third alternative) the second
   alternative looks at ONE more byte and takes it if it is a quote.  Hence: the match is unchanged for every following
   text that does not start with a quote. *)

Lemma decode_w_pos : forall c r, (1 <= fst (decode c r))%nat.
Proof.
  intros c r. unfold decode.
  destruct (c <? 128); [cbn; lia|].
  destruct (inr 194 223 c). { destruct r as [|b1 r]; [cbn; lia|]. destruct (is_cont b1); cbn; lia. }
  destruct (inr 224 239 c).
  { destruct r as [|b1 [|b2 r]]; try (cbn; lia). cbv zeta.
    match goal with |- context [if ?b then _ else _] => destruct b end; cbn; lia. }
  destruct (inr 240 244 c).
  { destruct r as [|b1 [|b2 [|b3 r]]]; try (cbn; lia). cbv zeta.
    match goal with |- context [if ?b then _ else _] => destruct b end; cbn; lia. }
  cbn; lia.
Qed.

(* the closing quote (an ASCII byte, not a continuation byte) ends the look-ahead of the rune decoder *)
Lemma decode_quote_stop : forall c0 y r r', decode c0 (y ++ 39 :: r) = decode c0 (y ++ 39 :: r').
Proof.
  intros c0 y r r'. unfold decode.
  destruct (c0 <? 128); [reflexivity|].
  destruct (inr 194 223 c0). { destruct y as [|b1 y]; reflexivity. }
  destruct (inr 224 239 c0).
  { destruct y as [|b1 [|b2 y]]; cbn [app]; try reflexivity.
    destruct r as [|x1 r]; destruct r' as [|z1 r']; cbv zeta;
      destruct (c0 =? 224); destruct (c0 =? 237); reflexivity. }
  destruct (inr 240 244 c0).
  { destruct y as [|b1 [|b2 [|b3 y]]]; cbn [app]; try reflexivity.
    - destruct r as [|x1 [|x2 r]]; destruct r' as [|z1 [|z2 r']]; cbv zeta;
        destruct (c0 =? 240); destruct (c0 =? 244); reflexivity.
    - destruct r as [|x1 r]; destruct r' as [|z1 r']; cbv zeta; try reflexivity;
        match goal with |- context [inr ?lo ?hi b1] => destruct (inr lo hi b1) end; reflexivity. }
  reflexivity.
Qed.

Lemma byte_alt1_h1 : forall a b h1 x, byte_alt1 (a :: b :: h1 :: x) = true -> b = 120 /\ is_hex h1 = true.
Proof.
  intros a b h1 x H. destruct x as [|h2 [|q x]]; cbn [byte_alt1] in H; try discriminate.
  repeat (apply andb_true_iff in H; destruct H as [H ?]).
  split; [apply Z.eqb_eq; assumption | assumption].
Qed.

Lemma byte_alt1_b : forall a b x, byte_alt1 (a :: b :: x) = true -> b = 120.
Proof.
  intros a b x H. destruct x as [|h1 x]; [discriminate|]. apply (byte_alt1_h1 a b h1 x H).
Qed.

Lemma byte_alt2_cons : forall a c r2, byte_alt2 (a :: c :: r2) =
  if (a =? 92) && negb (c =? 10) then
    match skipn (pred (fst (decode c r2))) r2 with
    | q :: _ => if q =? 39 then (3 + fst (decode c r2))%nat else O
    | [] => O
    end
  else O.
Proof. reflexivity. Qed.

Lemma byte_alt2_range : forall s, byte_alt2 s = O \/ (4 <= byte_alt2 s)%nat.
Proof.
  intros [|a [|c r2]]; [left; reflexivity | left; reflexivity |].
  rewrite byte_alt2_cons. destruct ((a =? 92) && negb (c =? 10)); [|left; reflexivity].
  destruct (skipn (pred (fst (decode c r2))) r2) as [|q ?]; [left; reflexivity|].
  destruct (q =? 39); [|left; reflexivity]. right. pose proof (decode_w_pos c r2). lia.
Qed.

Lemma byte_alt3_range : forall s, byte_alt3 s = O \/ byte_alt3 s = 3%nat.
Proof.
  intros [|c [|q r]]; [left; reflexivity | left; reflexivity |]. cbn [byte_alt3].
  destruct ((c <? 128) && (q =? 39)); [right | left]; reflexivity.
Qed.

Theorem m_byte_boundary : forall m r r', m <> [] -> m_byte (m ++ r) = length m -> byte_follow r' ->
  m_byte (m ++ r') = length m.
Proof.
  intros m r r' Hne H Hf. destruct m as [|a m0]; [contradiction|].
  cbn [app m_byte length] in *. destruct (a =? 39); [|discriminate].
  destruct (byte_alt1 (m0 ++ r)) eqn:A1.
  - (* first alternative: exactly five bytes after the quote are read *)
    destruct m0 as [|x1 [|x2 [|x3 [|x4 [|x5 [|x6 m0]]]]]]; try discriminate.
    cbn [app] in *. cbn [byte_alt1] in *. rewrite A1. reflexivity.
  - destruct (byte_alt2 (m0 ++ r)) as [|n] eqn:A2.
    + (* third alternative: quote c quote *)
      destruct m0 as [|c0 [|q [|x m0]]]; cbn [app length] in *.
      * destruct (byte_alt3_range r) as [E|E]; rewrite E in H; discriminate.
      * destruct (byte_alt3_range (c0 :: r)) as [E|E]; rewrite E in H; discriminate.
      * cbn [byte_alt3] in H. destruct ((c0 <? 128) && (q =? 39)) eqn:C; [|discriminate].
        apply andb_true_iff in C. destruct C as [C1 C2]. apply Z.eqb_eq in C2. subst q.
        destruct (byte_alt1 (c0 :: 39 :: r')) eqn:B1; [apply byte_alt1_b in B1; discriminate|].
        assert (B2 : byte_alt2 (c0 :: 39 :: r') = O).
        { rewrite byte_alt2_cons. destruct ((c0 =? 92) && negb (39 =? 10)); [|reflexivity].
          change (decode 39 r') with (1%nat, 1). cbn [fst pred skipn].
          destruct r' as [|c r'']; [reflexivity|]. cbn in Hf.
          destruct (c =? 39) eqn:E; [apply Z.eqb_eq in E; contradiction | reflexivity]. }
        rewrite B2. cbn [byte_alt3]. rewrite C1. reflexivity.
      * destruct (byte_alt3_range (c0 :: q :: x :: m0 ++ r)) as [E|E]; rewrite E in H; discriminate.
    + (* second alternative: quote backslash rune quote *)
      destruct m0 as [|a2 [|c0 x]]; cbn [app length] in *.
      * destruct (byte_alt2_range r) as [E|E]; rewrite A2 in E; [discriminate | lia].
      * destruct (byte_alt2_range (a2 :: r)) as [E|E]; rewrite A2 in E; [discriminate | lia].
      * rewrite byte_alt2_cons in A2.
        destruct ((a2 =? 92) && negb (c0 =? 10)) eqn:C; [|discriminate].
        pose proof (decode_w_pos c0 (x ++ r)) as Wp.
        remember (fst (decode c0 (x ++ r))) as w eqn:Ew.
        destruct (skipn (pred w) (x ++ r)) as [|q rest] eqn:Sk; [discriminate|].
        destruct (q =? 39) eqn:Q; [|discriminate]. apply Z.eqb_eq in Q. subst q.
        assert (Hw : w = length x) by lia.
        assert (Hk : (pred w <= length x)%nat) by lia.
        rewrite (skipn_app_le _ _ x r Hk) in Sk.
        pose proof (skipn_length (pred w) x) as L.
        destruct (skipn (pred w) x) as [|z [|z2 zs]] eqn:Sx; cbn [length] in L; try lia.
        cbn [app] in Sk. injection Sk as Ez _. subst z.
        pose proof (firstn_skipn (pred w) x) as Fx. rewrite Sx in Fx.
        set (y := firstn (pred w) x) in *.
        assert (Ly : length y = pred w).
        { unfold y. rewrite firstn_length. lia. }
        rewrite <- Fx in Ew |- *. rewrite <- !app_assoc in *. cbn [app] in *.
        assert (Ew' : fst (decode c0 (y ++ 39 :: r')) = w).
        { rewrite (decode_quote_stop c0 y r' r). symmetry. exact Ew. }
        assert (B1 : byte_alt1 (a2 :: c0 :: y ++ 39 :: r') = false).
        { destruct (byte_alt1 (a2 :: c0 :: y ++ 39 :: r')) eqn:B; [|reflexivity]. exfalso.
          destruct y as [|y1 y'].
          - cbn [app] in B. apply byte_alt1_h1 in B. destruct B as [_ B]. discriminate.
          - pose proof (byte_alt1_b _ _ _ B) as B0. subst c0.
            change (decode 120 ((y1 :: y') ++ 39 :: r)) with (1%nat, 1) in Ew. cbn [fst] in Ew.
            subst w. cbn [length pred] in Ly. discriminate. }
        rewrite B1. rewrite byte_alt2_cons, C, Ew'. rewrite <- Ly. rewrite skipn_app_exact.
        rewrite Z.eqb_refl.
        rewrite ?app_length. cbn [length Nat.add]. lia.
Qed.

Theorem m_byte_boundary_trivia : forall m r c r', m <> [] -> trivia_start c = true ->
  m_byte (m ++ r) = length m -> m_byte (m ++ c :: r') = length m.
Proof.
  intros m r c r' Hne Hc H. apply (m_byte_boundary m r); [assumption | assumption |].
  cbn. intro E. subst c. discriminate.
Qed.

(* the restriction is necessary: quote backslash quote, followed by x / followed by a quote *)
Lemma byte_follow_necessary :
  let m := [39; 92; 39] in
  m_byte (m ++ [120]) = length m /\ m_byte (m ++ [39]) <> length m /\ m_byte (m ++ [32; 39]) = length m.
Proof. vm_compute. repeat split; try reflexivity. discriminate. Qed.

(* ------------------------------------------------------------------ 3. composition through the ordered table (step) *)

Lemma step_inv : forall s k n, step s = (Tok k, n) -> k <> K_COMMENT ->
  m_ws s = O /\ m_line s = O /\ m_block s = O /\
  ( (k = K_STRING /\ m_string s = n /\ n <> O) \/
    (m_string s = O /\
     ( (k = K_BYTE /\ m_byte s = n /\ n <> O) \/
       (m_byte s = O /\
        ( (k = K_NUMBER /\ m_number s = n /\ n <> O) \/
          (m_number s = O /\
           ( (k = K_IDENT /\ m_ident s = n /\ n <> O) \/
             (m_ident s = O /\ k = K_OP /\ m_op s = n /\ n <> O)))))))).
Proof.
  intros s k n H Hk. unfold step in H.
  destruct (m_ws s); [|discriminate].
  destruct (m_line s). 2:{ inversion H; subst. exfalso; apply Hk; reflexivity. }
  destruct (m_block s). 2:{ inversion H; subst. exfalso; apply Hk; reflexivity. }
  split; [reflexivity|]. split; [reflexivity|]. split; [reflexivity|].
  destruct (m_string s).
  2:{ left. inversion H; subst. split; [reflexivity | split; [reflexivity | discriminate]]. }
  right. split; [reflexivity|].
  destruct (m_byte s).
  2:{ left. inversion H; subst. split; [reflexivity | split; [reflexivity | discriminate]]. }
  right. split; [reflexivity|].
  destruct (m_number s).
  2:{ left. inversion H; subst. split; [reflexivity | split; [reflexivity | discriminate]]. }
  right. split; [reflexivity|].
  destruct (m_ident s).
  2:{ left. inversion H; subst. split; [reflexivity | split; [reflexivity | discriminate]]. }
  right. split; [reflexivity|].
  destruct (m_op s); [discriminate|].
  inversion H; subst. split; [reflexivity | split; [reflexivity | discriminate]].
Qed.

Lemma step_string : forall s n, m_ws s = O -> m_line s = O -> m_block s = O -> m_string s = S n ->
  step s = (Tok K_STRING, S n).
Proof. intros s n H1 H2 H3 H4. unfold step. rewrite H1, H2, H3, H4. reflexivity. Qed.
Lemma step_byte : forall s n, m_ws s = O -> m_line s = O -> m_block s = O -> m_string s = O -> m_byte s = S n ->
  step s = (Tok K_BYTE, S n).
Proof. intros s n H1 H2 H3 H4 H5. unfold step. rewrite H1, H2, H3, H4, H5. reflexivity. Qed.
Lemma step_number : forall s n, m_ws s = O -> m_line s = O -> m_block s = O -> m_string s = O -> m_byte s = O ->
  m_number s = S n -> step s = (Tok K_NUMBER, S n).
Proof. intros s n H1 H2 H3 H4 H5 H6. unfold step. rewrite H1, H2, H3, H4, H5, H6. reflexivity. Qed.
Lemma step_ident : forall s n, m_ws s = O -> m_line s = O -> m_block s = O -> m_string s = O -> m_byte s = O ->
  m_number s = O -> m_ident s = S n -> step s = (Tok K_IDENT, S n).
Proof. intros s n H1 H2 H3 H4 H5 H6 H7. unfold step. rewrite H1, H2, H3, H4, H5, H6, H7. reflexivity. Qed.
Lemma step_op : forall s n, m_ws s = O -> m_line s = O -> m_block s = O -> m_string s = O -> m_byte s = O ->
  m_number s = O -> m_ident s = O -> m_op s = S n -> step s = (Tok K_OP, S n).
Proof. intros s n H1 H2 H3 H4 H5 H6 H7 H8. unfold step. rewrite H1, H2, H3, H4, H5, H6, H7, H8. reflexivity. Qed.

(* which first byte each recogniser needs *)
Lemma m_ws_first : forall a x, m_ws (a :: x) = O <-> is_ws a = false.
Proof. intros a x. unfold m_ws. cbn [span]. destruct (is_ws a); split; intro H; try reflexivity; discriminate. Qed.

Lemma m_line_not_slash : forall a x, a <> 47 -> m_line (a :: x) = O.
Proof.
  intros a x H. destruct x as [|b x]; [reflexivity|]. cbn [m_line].
  destruct (a =? 47) eqn:E; [apply Z.eqb_eq in E; contradiction | reflexivity].
Qed.
Lemma m_block_not_slash : forall a x, a <> 47 -> m_block (a :: x) = O.
Proof.
  intros a x H. destruct x as [|b x]; [reflexivity|]. cbn [m_block].
  destruct (a =? 47) eqn:E; [apply Z.eqb_eq in E; contradiction | reflexivity].
Qed.
Lemma m_string_first : forall a x n, m_string (a :: x) = S n -> a = 34.
Proof. intros a x n H. cbn [m_string] in H. destruct (a =? 34) eqn:E; [apply Z.eqb_eq; assumption | discriminate]. Qed.
Lemma m_string_not : forall a x, a <> 34 -> m_string (a :: x) = O.
Proof. intros a x H. cbn [m_string]. destruct (a =? 34) eqn:E; [apply Z.eqb_eq in E; contradiction | reflexivity]. Qed.
Lemma m_byte_first : forall a x n, m_byte (a :: x) = S n -> a = 39.
Proof. intros a x n H. cbn [m_byte] in H. destruct (a =? 39) eqn:E; [apply Z.eqb_eq; assumption | discriminate]. Qed.
Lemma m_byte_not : forall a x, a <> 39 -> m_byte (a :: x) = O.
Proof. intros a x H. cbn [m_byte]. destruct (a =? 39) eqn:E; [apply Z.eqb_eq in E; contradiction | reflexivity]. Qed.
Lemma m_ident_first : forall a x, m_ident (a :: x) = O <-> is_alpha_ a = false.
Proof. intros a x. cbn [m_ident]. destruct (is_alpha_ a); split; intro H; try reflexivity; discriminate. Qed.

Lemma m_unsigned_nondigit : forall a x, is_digit a = false -> m_unsigned (a :: x) = O.
Proof.
  intros a x H.
  assert (E : (a =? 48) = false). { apply Z.eqb_neq. apply inr_false in H. lia. }
  assert (P : forall p P d, prefixed p P d (a :: x) = O).
  { intros p P d. destruct x as [|c x']; [reflexivity|]. cbn [prefixed]. rewrite E. reflexivity. }
  unfold m_unsigned. rewrite !P. unfold m_float. cbn [digits1]. rewrite H. reflexivity.
Qed.

Lemma m_number_first : forall a x n, m_number (a :: x) = S n -> (48 <= a <= 57) \/ a = 45.
Proof.
  intros a x n H. cbn [m_number] in H. destruct (a =? 45) eqn:E; [right; apply Z.eqb_eq; assumption|].
  left. destruct (is_digit a) eqn:D; [apply inr_true in D; assumption|].
  rewrite (m_unsigned_nondigit a x D) in H. discriminate.
Qed.

Lemma is_alpha_range : forall a, is_alpha_ a = true -> 65 <= a.
Proof.
  intros a H. unfold is_alpha_ in H.
  apply orb_true_iff in H. destruct H as [H|H]; [apply orb_true_iff in H; destruct H as [H|H]|].
  - apply inr_true in H. lia.
  - apply inr_true in H. lia.
  - apply Z.eqb_eq in H. lia.
Qed.

Lemma first_op_head : forall tbl a x n, first_op tbl (a :: x) = S n -> In a (map (hd 0) tbl).
Proof.
  induction tbl as [|o tbl IH]; intros a x n H; cbn [first_op] in H; [discriminate|].
  cbn [map In]. destruct (is_prefix o (a :: x)) eqn:E.
  - left. destruct o as [|b o']; [discriminate|]. cbn [is_prefix] in E.
    apply andb_true_iff in E. destruct E as [E _]. apply Z.eqb_eq in E. cbn [hd]. assumption.
  - right. apply (IH a x n H).
Qed.

Lemma op_head_not_quote : forall a x n, m_op (a :: x) = S n -> a <> 34 /\ a <> 39.
Proof.
  intros a x n H. unfold m_op in H. apply first_op_head in H.
  assert (F : forallb (fun b => negb (b =? 34) && negb (b =? 39)) (map (hd 0) ops) = true) by (vm_compute; reflexivity).
  rewrite forallb_forall in F. specialize (F a H).
  apply andb_true_iff in F. destruct F as [F1 F2].
  apply negb_true_iff in F1. apply negb_true_iff in F2. apply Z.eqb_neq in F1. apply Z.eqb_neq in F2. split; assumption.
Qed.

Lemma m_op_slash : forall x, m_op (47 :: x) = match x with b :: _ => if 61 =? b then 2%nat else 1%nat | [] => 1%nat end.
Proof.
  intros x. unfold m_op, ops. destruct x as [|b x]; [reflexivity|].
  destruct b as [|q|q]; cbn; try reflexivity.
  destruct (61 =? q)%positive; reflexivity.
Qed.

Lemma is_prefix_short_false : forall o m, (length m < length o)%nat -> is_prefix o m = false.
Proof.
  induction o as [|a o IH]; intros m H; [cbn in H; lia|].
  destruct m as [|b m]; [reflexivity|]. cbn [is_prefix]. rewrite IH by (cbn in H; lia). apply andb_false_r.
Qed.

Lemma first_op_eof : forall tbl m r, first_op tbl (m ++ r) = length m -> first_op tbl m = length m.
Proof.
  induction tbl as [|o tbl IH]; intros m r H; cbn [first_op] in *.
  - destruct m; [reflexivity | discriminate].
  - destruct (Nat.leb (length o) (length m)) eqn:El.
    + apply Nat.leb_le in El. rewrite is_prefix_app_short in H by assumption.
      destruct (is_prefix o m); [assumption | apply (IH m r H)].
    + apply Nat.leb_gt in El. rewrite is_prefix_short_false by assumption.
      destruct (is_prefix o (m ++ r)); [lia | apply (IH m r H)].
Qed.

Lemma trivia_follows_start : forall m r', trivia_follows m r' ->
  match r' with [] => True | c :: _ => trivia_start c = true end.
Proof.
  intros m [|c r'] H; [exact I|]. cbn in H. unfold trivia_start. destruct H as [H|[H _]].
  - rewrite H. reflexivity.
  - subst c. reflexivity.
Qed.

(* the operator `/` : the comment patterns, which come first in the table, must still fail *)
Lemma comment_zero_slash_op : forall m0 r r', m_op (47 :: m0 ++ r) = S (length m0) -> trivia_follows (47 :: m0) r' ->
  m_line (47 :: m0 ++ r') = O /\ m_block (47 :: m0 ++ r') = O.
Proof.
  intros m0 r r' H Hf. rewrite m_op_slash in H.
  destruct m0 as [|b [|b2 m0]]; cbn [app length] in *.
  - destruct r' as [|c r'']; [split; reflexivity|]. cbn in Hf. destruct Hf as [Hf|[_ Hf]]; [|contradiction].
    apply ws_cases in Hf. destruct Hf as [-> | [-> | [-> | [-> | ->]]]]; split; reflexivity.
  - destruct (61 =? b) eqn:E; [|discriminate]. apply Z.eqb_eq in E. subst b. split; reflexivity.
  - destruct (61 =? b); discriminate.
Qed.

(* Every significant token of every kind: if the table, applied to m ++ r, yields the token m, then it yields the same
   token (same class, same length, hence same text) on m ++ r' for every r' that is empty or starts with whitespace, or
   starts with a slash provided m is not the operator `/`. *)
Theorem token_boundary_all_kinds : forall m r r' k,
  m <> [] -> significant_cls k -> step (m ++ r) = (Tok k, length m) -> trivia_follows m r' ->
  step (m ++ r') = (Tok k, length m).
Proof.
  intros m r r' k Hne Hk H Hf.
  assert (Hkc : k <> K_COMMENT) by (destruct Hk as [-> | [-> | [-> | [-> | ->]]]]; discriminate).
  destruct (step_inv _ _ _ H Hkc) as [Hw [Hl [Hb Hc]]].
  pose proof (trivia_follows_start _ _ Hf) as Hs.
  assert (Fn : num_follow r').
  { destruct r' as [|c r'']; [exact I|]. cbn. apply trivia_start_num_stop. exact Hs. }
  assert (Fb : byte_follow r').
  { destruct r' as [|c r'']; [exact I|]. cbn. intro E. subst c. discriminate. }
  destruct m as [|a m0]; [contradiction|].
  cbn [app length] in *.
  assert (Hw' : m_ws (a :: m0 ++ r') = O).
  { apply (proj2 (m_ws_first a _)). apply (proj1 (m_ws_first a _)) in Hw. exact Hw. }
  destruct Hc as [[-> [Hm _]] | [Hs0 Hc]].
  { (* string literal *)
    pose proof (m_string_first _ _ _ Hm). subst a.
    apply step_string; [exact Hw' | apply m_line_not_slash; lia | apply m_block_not_slash; lia |].
    apply (m_string_boundary (34 :: m0) r r'); [discriminate | exact Hm]. }
  destruct Hc as [[-> [Hm _]] | [Hb0 Hc]].
  { (* byte literal *)
    pose proof (m_byte_first _ _ _ Hm). subst a.
    apply step_byte; [exact Hw' | apply m_line_not_slash; lia | apply m_block_not_slash; lia | apply m_string_not; lia |].
    apply (m_byte_boundary (39 :: m0) r r'); [discriminate | exact Hm | exact Fb]. }
  destruct Hc as [[-> [Hm _]] | [Hn0 Hc]].
  { (* number *)
    pose proof (m_number_first _ _ _ Hm) as Ha.
    apply step_number; [exact Hw' | apply m_line_not_slash; lia | apply m_block_not_slash; lia
                       | apply m_string_not; lia | apply m_byte_not; lia |].
    apply (m_number_boundary (a :: m0) r r'); [exact Hm | exact Fn]. }
  destruct Hc as [[-> [Hm _]] | [Hi0 [-> [Hm _]]]].
  { (* identifier / keyword *)
    assert (Ha : is_alpha_ a = true).
    { destruct (is_alpha_ a) eqn:E; [reflexivity|]. apply (proj2 (m_ident_first a (m0 ++ r))) in E.
      rewrite E in Hm. discriminate. }
    apply is_alpha_range in Ha.
    apply step_ident; [exact Hw' | apply m_line_not_slash; lia | apply m_block_not_slash; lia
                      | apply m_string_not; lia | apply m_byte_not; lia
                      | apply (m_number_zero (a :: m0) r r' Hn0 Fn) |].
    destruct r' as [|c r''].
    - rewrite app_nil_r. apply (m_ident_boundary_eof (a :: m0) r); [discriminate | exact Hm].
    - apply (m_ident_boundary (a :: m0) r c r''); [discriminate | exact Hm |].
      apply trivia_start_cases in Hs. destruct Hs as [-> | [-> | [-> | [-> | [-> | ->]]]]]; reflexivity. }
  (* operator / punctuation *)
  destruct (op_head_not_quote _ _ _ Hm) as [Hq1 Hq2].
  assert (Hi' : m_ident (a :: m0 ++ r') = O).
  { apply (proj2 (m_ident_first a _)). apply (proj1 (m_ident_first a _)) in Hi0. exact Hi0. }
  assert (Hcm : m_line (a :: m0 ++ r') = O /\ m_block (a :: m0 ++ r') = O).
  { destruct (Z.eq_dec a 47) as [->|Hne47].
    - apply (comment_zero_slash_op m0 r r'); assumption.
    - split; [apply m_line_not_slash | apply m_block_not_slash]; assumption. }
  destruct Hcm as [Hl' Hb'].
  apply step_op; [exact Hw' | exact Hl' | exact Hb' | apply m_string_not; assumption | apply m_byte_not; assumption
                 | apply (m_number_zero (a :: m0) r r' Hn0 Fn) | exact Hi' |].
  destruct r' as [|c r''].
  - rewrite app_nil_r. unfold m_op in *. apply (first_op_eof ops (a :: m0) r). exact Hm.
  - apply (m_op_boundary (a :: m0) r c r''); [discriminate | exact Hs | exact Hm].
Qed.

(* in the form asked for: the following text starts with trivia (whitespace, `//` or `/` `*`) *)
Corollary token_boundary_trivia : forall m r t k,
  m <> [] -> significant_cls k -> step (m ++ r) = (Tok k, length m) -> starts_trivia t = true ->
  (m <> [47] \/ is_ws (hd 0 t) = true) ->
  step (m ++ t) = (Tok k, length m).
Proof.
  intros m r t k Hne Hk H Ht Hside. apply (token_boundary_all_kinds m r t k Hne Hk H).
  destruct t as [|c t1]; [discriminate|]. cbn [trivia_follows]. cbn [starts_trivia] in Ht. cbn [hd] in Hside.
  destruct (is_ws c) eqn:W; [left; reflexivity|]. right.
  cbn [orb] in Ht. apply andb_true_iff in Ht. destruct Ht as [Ht _]. apply Z.eqb_eq in Ht.
  split; [assumption|]. destruct Hside as [Hside|Hside]; [assumption | discriminate].
Qed.

(* next_state: the token text (firstn of the match) and the remainder after it *)
Lemma next_state_token : forall P m r k, m <> [] -> significant_cls k -> ascii_bytes m ->
  step (m ++ r) = (Tok k, length m) -> next_state P (m ++ r) = (Tok k, advance P m, r, m).
Proof.
  intros P m r k Hne Hk Ha H. unfold next_state. rewrite H.
  rewrite firstn_app_exact. unfold advance. rewrite adv_idx_ascii by assumption.
  replace (idx P + Z.of_nat (length m) - idx P) with (Z.of_nat (length m)) by lia.
  rewrite Nat2Z.id, skipn_app_exact. reflexivity.
Qed.

(* Token sequence: an ASCII token m followed by whitespace t and then the rest post.  The lexer yields the token m at
   P, skips t in one match, and continues exactly as it does on m ++ post, with every later token and bad-character
   diagnostic moved by the shift of the gap. *)
Theorem ws_after_token_sequence : forall fuel P m post t k,
  m <> [] -> significant_cls k -> ascii_bytes m -> step (m ++ post) = (Tok k, length m) ->
  t <> [] -> all_ws t -> starts_non_ws post ->
  let Q := advance P m in
  lex_loop (S (S fuel)) P (m ++ t ++ post) =
    mktok k P Q m :: map (gap_shift_tok Q (advance Q t)) (lex_loop fuel Q post) /\
  lex_loop (S fuel) P (m ++ post) = mktok k P Q m :: lex_loop fuel Q post /\
  bad_loop (S (S fuel)) P (m ++ t ++ post) = map (gap_shift Q (advance Q t)) (bad_loop fuel Q post) /\
  bad_loop (S fuel) P (m ++ post) = bad_loop fuel Q post.
Proof.
  intros fuel P m post t k Hne Hk Ha H Htne Ht Hp Q.
  assert (H' : step (m ++ t ++ post) = (Tok k, length m)).
  { apply (token_boundary_all_kinds m post (t ++ post) k Hne Hk H).
    destruct t as [|c t']; [contradiction|]. cbn [app trivia_follows]. left. inversion Ht; assumption. }
  pose proof (next_state_token P m (t ++ post) k Hne Hk Ha H') as N1.
  pose proof (next_state_token P m post k Hne Hk Ha H) as N2.
  destruct (ws_insert_shift fuel Q t post Htne Ht Hp) as [W1 W2].
  assert (Hm : exists a m0, m = a :: m0) by (destruct m as [|a m0]; [contradiction | eauto]).
  destruct Hm as [a [m0 Em]].
  repeat split.
  - change (lex_loop (S (S fuel)) P (m ++ t ++ post)) with
      (match m ++ t ++ post with [] => [mktok K_EOF P P []] | _ =>
         let '(it, p', s', m1) := next_state P (m ++ t ++ post) in
         match it with Tok k0 => mktok k0 P p' m1 :: lex_loop (S fuel) p' s' | _ => lex_loop (S fuel) p' s' end end).
    rewrite N1. rewrite Em at 1. cbn [app]. fold Q. rewrite W1. reflexivity.
  - change (lex_loop (S fuel) P (m ++ post)) with
      (match m ++ post with [] => [mktok K_EOF P P []] | _ =>
         let '(it, p', s', m1) := next_state P (m ++ post) in
         match it with Tok k0 => mktok k0 P p' m1 :: lex_loop fuel p' s' | _ => lex_loop fuel p' s' end end).
    rewrite N2. rewrite Em at 1. cbn [app]. reflexivity.
  - change (bad_loop (S (S fuel)) P (m ++ t ++ post)) with
      (match m ++ t ++ post with [] => [] | _ =>
         let '(it, p', s', _) := next_state P (m ++ t ++ post) in
         match it with Bad => P :: bad_loop (S fuel) p' s' | _ => bad_loop (S fuel) p' s' end end).
    rewrite N1. rewrite Em at 1. cbn [app]. fold Q. rewrite W2. reflexivity.
  - change (bad_loop (S fuel) P (m ++ post)) with
      (match m ++ post with [] => [] | _ =>
         let '(it, p', s', _) := next_state P (m ++ post) in
         match it with Bad => P :: bad_loop fuel p' s' | _ => bad_loop fuel p' s' end end).
    rewrite N2. rewrite Em at 1. cbn [app]. reflexivity.
Qed.

(* non-vacuity: one token of every kind, each followed by text that continues differently *)
Lemma all_kinds_example :
  step ([34; 97; 34] ++ [59]) = (Tok K_STRING, 3%nat) /\
  step ([39; 92; 110; 39] ++ [59]) = (Tok K_BYTE, 4%nat) /\
  step ([49; 46; 53; 101; 45; 51] ++ [43; 49]) = (Tok K_NUMBER, 6%nat) /\
  step ([120; 49] ++ [40]) = (Tok K_IDENT, 2%nat) /\
  step ([60; 61] ++ [45; 49]) = (Tok K_OP, 2%nat) /\
  step ([47] ++ [49]) = (Tok K_OP, 1%nat) /\
  trivia_follows [49; 46; 53; 101; 45; 51] [47; 42; 42; 47; 43; 49] /\
  step ([49; 46; 53; 101; 45; 51] ++ [47; 42; 42; 47; 43; 49]) = (Tok K_NUMBER, 6%nat) /\
  ~ trivia_follows [47] [47; 42; 42; 47; 49] /\
  step ([47] ++ [47; 42; 42; 47; 49]) = (Tok K_COMMENT, 6%nat).
Proof.
  repeat match goal with |- _ /\ _ => split end; try (vm_compute; reflexivity).
  - right. split; [reflexivity | discriminate].
  - intros [H|[_ H]]; [vm_compute in H; discriminate | apply H; reflexivity].
Qed.
