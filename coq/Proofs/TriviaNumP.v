(* C19 — boundary lemmas for number and byte literals, and the composition through the ordered pattern table
   (Models/Trivia.v: m_number, m_byte, step; Models/TriviaNum.v: names of the parts and of the follow classes). *)
From Coq Require Import ZArith List Bool Lia.
From FV Require Import Models.Trivia Models.TriviaNum Proofs.TriviaP.
Import ListNotations.
Open Scope Z_scope.

(* ------------------------------------------------------------------ 0. byte classes *)

Lemma inr_false : forall lo hi c, inr lo hi c = false <-> (c < lo \/ hi < c).
Proof. intros. unfold inr. rewrite andb_false_iff, Z.leb_gt, Z.leb_gt. lia. Qed.

Lemma inr_true : forall lo hi c, inr lo hi c = true <-> (lo <= c <= hi).
Proof. intros. unfold inr. rewrite andb_true_iff, Z.leb_le, Z.leb_le. lia. Qed.

Lemma num_stop_arith : forall c, num_stop c = true ->
  (c < 48 \/ 57 < c) /\ (c < 97 \/ 102 < c) /\ (c < 65 \/ 70 < c) /\
  c <> 95 /\ c <> 46 /\ c <> 120 /\ c <> 88 /\ c <> 111 /\ c <> 79 /\ c <> 43 /\ c <> 45.
Proof.
  intros c H. unfold num_stop in H.
  repeat (apply andb_true_iff in H; destruct H as [H ?]).
  repeat match goal with X : negb _ = true |- _ => apply negb_true_iff in X end.
  repeat match goal with X : (_ =? _) = false |- _ => apply Z.eqb_neq in X end.
  unfold is_hex in H. apply orb_false_iff in H. destruct H as [H Hhc]. apply orb_false_iff in H. destruct H as [Hha Hhb].
  apply inr_false in Hha. apply inr_false in Hhb. apply inr_false in Hhc. repeat split; assumption.
Qed.

Lemma ns_class : forall d c, d = is_digit \/ d = is_hex \/ d = is_oct \/ d = is_bin -> num_stop c = true -> d c = false.
Proof.
  intros d c Hd H. pose proof (num_stop_arith c H) as A.
  destruct Hd as [-> | [-> | [-> | ->]]].
  - apply inr_false. lia.
  - unfold is_hex. rewrite !orb_false_iff. repeat split; apply inr_false; lia.
  - apply inr_false. lia.
  - apply inr_false. lia.
Qed.

Lemma ns_neq : forall c k, num_stop c = true ->
  In k [95; 46; 120; 88; 111; 79; 43; 45; 48; 101; 69; 98; 66] -> (c =? k) = false.
Proof.
  intros c k H Hk. pose proof (num_stop_arith c H) as A. apply Z.eqb_neq.
  cbn [In] in Hk. lia.
Qed.

Lemma ws_cases : forall c, is_ws c = true -> c = 9 \/ c = 10 \/ c = 12 \/ c = 13 \/ c = 32.
Proof.
  intros c H. unfold is_ws in H.
  repeat (apply orb_true_iff in H; destruct H as [H|H]); apply Z.eqb_eq in H; lia.
Qed.

Lemma trivia_start_cases : forall c, trivia_start c = true -> c = 9 \/ c = 10 \/ c = 12 \/ c = 13 \/ c = 32 \/ c = 47.
Proof.
  intros c H. unfold trivia_start in H. apply orb_true_iff in H. destruct H as [H|H].
  - apply ws_cases in H. lia.
  - apply Z.eqb_eq in H. lia.
Qed.

(* whitespace and the slash are num_stop bytes *)
Lemma trivia_start_num_stop : forall c, trivia_start c = true -> num_stop c = true.
Proof.
  intros c H. apply trivia_start_cases in H.
  destruct H as [-> | [-> | [-> | [-> | [-> | ->]]]]]; reflexivity.
Qed.

Lemma starts_trivia_head : forall r, starts_trivia r = true -> exists c r1, r = c :: r1 /\ trivia_start c = true.
Proof.
  intros [|c r1] H; [discriminate|]. exists c, r1. split; [reflexivity|].
  cbn [starts_trivia] in H. unfold trivia_start. apply orb_true_iff in H. destruct H as [H|H].
  - rewrite H. reflexivity.
  - apply andb_true_iff in H. destruct H as [H _]. rewrite H. apply orb_true_r.
Qed.

Lemma starts_trivia_num_follow : forall r, starts_trivia r = true -> num_follow r.
Proof.
  intros r H. destruct (starts_trivia_head r H) as [c [r1 [-> Hc]]]. cbn. apply trivia_start_num_stop. assumption.
Qed.

(* ------------------------------------------------------------------ 1. numbers
   Form of every lemma (U): if the match on m ++ r stays inside m, then it is the same on m ++ r' for every r' that is
   empty or starts with a stop byte.  With `= length m` this is the boundary lemma, with `= 0` it says that a
   recogniser which fails keeps failing. *)

Definition gstop (d : Z -> bool) (r : list Z) : Prop :=
  match r with [] => True | c :: _ => d c = false /\ (c =? 95) = false end.

Lemma groups_cons : forall d b r, groups d (b :: r) =
  if d b then S (groups d r)
  else if b =? 95 then match r with c :: r' => if d c then S (S (groups d r')) else O | [] => O end else O.
Proof. reflexivity. Qed.

Lemma groups_stop : forall d r, gstop d r -> groups d r = O.
Proof.
  intros d [|c r] H; [reflexivity|]. destruct H as [H1 H2]. rewrite groups_cons, H1, H2. reflexivity.
Qed.

Lemma groups_U : forall d n m r r', (length m <= n)%nat -> (groups d (m ++ r) <= length m)%nat -> gstop d r' ->
  groups d (m ++ r') = groups d (m ++ r).
Proof.
  intros d n; induction n as [|n IH]; intros m r r' Hn H Hs.
  - destruct m; [|cbn in Hn; lia]. cbn [app length] in *.
    rewrite (groups_stop d r' Hs). lia.
  - destruct m as [|b m1].
    { cbn [app length] in *. rewrite (groups_stop d r' Hs). lia. }
    cbn [app length] in *. rewrite groups_cons in H. rewrite !groups_cons.
    destruct (d b).
    { f_equal. apply IH; [lia | lia | assumption]. }
    destruct (b =? 95); [|reflexivity].
    destruct m1 as [|c1 m2]; cbn [app length] in *.
    + assert (E : match r with c :: r0 => if d c then S (S (groups d r0)) else O | [] => O end = O).
      { destruct r as [|c0 r0]; [reflexivity|]. destruct (d c0); [lia | reflexivity]. }
      rewrite E. destruct r' as [|c r'']; [reflexivity|]. destruct Hs as [Hd _]. rewrite Hd. reflexivity.
    + destruct (d c1); [|reflexivity]. do 2 f_equal. apply IH; [lia | lia | assumption].
Qed.

Lemma digits1_U : forall d m r r', (digits1 d (m ++ r) <= length m)%nat -> gstop d r' ->
  digits1 d (m ++ r') = digits1 d (m ++ r).
Proof.
  intros d m r r' H Hs. destruct m as [|b m1]; cbn [app length] in *.
  - assert (E : digits1 d r' = O).
    { destruct r' as [|c r'']; [reflexivity|]. destruct Hs as [Hd _]. cbn [digits1]. rewrite Hd. reflexivity. }
    rewrite E. lia.
  - cbn [digits1] in *. destruct (d b); [|reflexivity]. f_equal.
    apply (groups_U d (length m1)); [lia | lia | assumption].
Qed.

Definition pstop (x X : Z) (d : Z -> bool) (r : list Z) : Prop :=
  match r with
  | [] => True
  | c :: _ => d c = false /\ (c =? 95) = false /\ (c =? x) = false /\ (c =? X) = false /\ (c =? 48) = false
  end.

Lemma pstop_gstop : forall x X d r, pstop x X d r -> gstop d r.
Proof. intros x X d [|c r] H; [exact I|]. destruct H as [H1 [H2 _]]. split; assumption. Qed.

Lemma prefixed_U : forall x X d m r r', (prefixed x X d (m ++ r) <= length m)%nat -> pstop x X d r' ->
  prefixed x X d (m ++ r') = prefixed x X d (m ++ r).
Proof.
  intros x X d m r r' H Hs. pose proof (pstop_gstop _ _ _ _ Hs) as Hg.
  destruct m as [|z [|c2 m2]]; cbn [app length] in *.
  - assert (E : prefixed x X d r' = O).
    { destruct r' as [|c [|c2 r'']]; [reflexivity | reflexivity |].
      destruct Hs as [_ [_ [_ [_ H48]]]]. cbn [prefixed]. rewrite H48. reflexivity. }
    rewrite E. lia.
  - assert (E : prefixed x X d (z :: r) = O).
    { destruct r as [|c2 r0]; [reflexivity|]. cbn [prefixed] in *.
      destruct ((z =? 48) && ((c2 =? x) || (c2 =? X))); [|reflexivity].
      destruct (digits1 d r0); [reflexivity | cbn in H; lia]. }
    rewrite E. destruct r' as [|c r'']; [reflexivity|].
    destruct Hs as [_ [_ [Hx [HX _]]]]. cbn [prefixed]. rewrite Hx, HX. cbn [orb]. rewrite andb_false_r. reflexivity.
  - cbn [prefixed] in *. destruct ((z =? 48) && ((c2 =? x) || (c2 =? X))); [|reflexivity].
    assert (Hd : (digits1 d (m2 ++ r) <= length m2)%nat).
    { destruct (digits1 d (m2 ++ r)); [lia | cbn in H; lia]. }
    rewrite (digits1_U d m2 r r' Hd Hg). reflexivity.
Qed.

Lemma num_follow_gstop : forall d r, d = is_digit \/ d = is_hex \/ d = is_oct \/ d = is_bin -> num_follow r -> gstop d r.
Proof.
  intros d [|c r] Hd H; [exact I|]. cbn in H. split.
  - apply ns_class; assumption.
  - apply ns_neq; [assumption | cbn; tauto].
Qed.

Lemma num_follow_pstop : forall x X d r, d = is_digit \/ d = is_hex \/ d = is_oct \/ d = is_bin ->
  In x [120; 88; 111; 79; 98; 66] -> In X [120; 88; 111; 79; 98; 66] -> num_follow r -> pstop x X d r.
Proof.
  intros x X d [|c r] Hd Hx HX H; [exact I|]. cbn in H. cbn [pstop].
  split; [apply ns_class; assumption|].
  split; [apply ns_neq; [assumption | cbn; tauto]|].
  split; [apply ns_neq; [assumption | cbn [In] in *; lia]|].
  split; [apply ns_neq; [assumption | cbn [In] in *; lia]|].
  apply ns_neq; [assumption | cbn; tauto].
Qed.

Lemma m_float_parts : forall s, m_float s = m_float' s.
Proof. intros s. unfold m_float, m_float', frac_len, exp_len. destruct (digits1 is_digit s); reflexivity. Qed.

Lemma m_float'_O : forall s, digits1 is_digit s = O -> m_float' s = O.
Proof. intros s E. unfold m_float'. rewrite E. reflexivity. Qed.

Lemma m_float'_S : forall s n0, digits1 is_digit s = S n0 ->
  m_float' s = (S n0 + frac_len (skipn (S n0) s) + exp_len (skipn (frac_len (skipn (S n0) s)) (skipn (S n0) s)))%nat.
Proof. intros s n0 E. unfold m_float'. rewrite E. reflexivity. Qed.

Lemma skipn_app_le : forall (A : Type) n (m r : list A), (n <= length m)%nat -> skipn n (m ++ r) = skipn n m ++ r.
Proof.
  intros A n m r H. rewrite skipn_app. replace (n - length m)%nat with O by lia. reflexivity.
Qed.

Lemma frac_U : forall m r r', (frac_len (m ++ r) <= length m)%nat -> num_follow r' ->
  frac_len (m ++ r') = frac_len (m ++ r).
Proof.
  intros m r r' H Hs. destruct m as [|dot m1]; cbn [app length] in *.
  - assert (E : frac_len r' = O).
    { destruct r' as [|c r'']; [reflexivity|]. cbn in Hs. cbn [frac_len].
      rewrite (ns_neq c 46 Hs) by (cbn; tauto). reflexivity. }
    rewrite E. lia.
  - cbn [frac_len] in *. destruct (dot =? 46); [|reflexivity].
    assert (Hd : (digits1 is_digit (m1 ++ r) <= length m1)%nat).
    { destruct (digits1 is_digit (m1 ++ r)); lia. }
    rewrite (digits1_U is_digit m1 r r' Hd) by (apply num_follow_gstop; [tauto | assumption]). reflexivity.
Qed.

Lemma digits1_stop : forall d r, gstop d r -> digits1 d r = O.
Proof.
  intros d [|c r] H; [reflexivity|]. destruct H as [H _]. cbn [digits1]. rewrite H. reflexivity.
Qed.

Lemma exp_follow_O : forall e r', num_follow r' -> exp_len (e :: r') = O.
Proof.
  intros e r' Hs. cbn [exp_len]. destruct ((e =? 101) || (e =? 69)); [|reflexivity].
  destruct r' as [|c r'']; [reflexivity|]. cbn in Hs.
  rewrite (ns_neq c 43 Hs) by (cbn; tauto). rewrite (ns_neq c 45 Hs) by (cbn; tauto). cbn [orb].
  rewrite (digits1_stop is_digit (c :: r'')); [reflexivity|].
  apply num_follow_gstop; [tauto | exact Hs].
Qed.

Lemma exp_U : forall m r r', (exp_len (m ++ r) <= length m)%nat -> num_follow r' ->
  exp_len (m ++ r') = exp_len (m ++ r).
Proof.
  intros m r r' H Hs. destruct m as [|e [|sg m2]]; cbn [app length] in *.
  - assert (E : exp_len r' = O).
    { destruct r' as [|c r'']; [reflexivity|]. cbn in Hs. cbn [exp_len].
      rewrite (ns_neq c 101 Hs) by (cbn; tauto). rewrite (ns_neq c 69 Hs) by (cbn; tauto). reflexivity. }
    rewrite E. lia.
  - rewrite (exp_follow_O e r' Hs).
    cbn [exp_len] in *. destruct ((e =? 101) || (e =? 69)); [|reflexivity].
    destruct r as [|sg r4]; [reflexivity|].
    destruct ((sg =? 43) || (sg =? 45)).
    + destruct (digits1 is_digit r4); [reflexivity | lia].
    + destruct (digits1 is_digit (sg :: r4)) as [|[|k]]; [reflexivity | lia | lia].
  - cbn [exp_len] in *. destruct ((e =? 101) || (e =? 69)); [|reflexivity].
    destruct ((sg =? 43) || (sg =? 45)).
    + assert (Hd : (digits1 is_digit (m2 ++ r) <= length m2)%nat).
      { destruct (digits1 is_digit (m2 ++ r)); lia. }
      rewrite (digits1_U is_digit m2 r r' Hd) by (apply num_follow_gstop; [tauto | assumption]). reflexivity.
    + change (sg :: m2 ++ r) with ((sg :: m2) ++ r) in *. change (sg :: m2 ++ r') with ((sg :: m2) ++ r').
      assert (Hd : (digits1 is_digit ((sg :: m2) ++ r) <= length (sg :: m2))%nat).
      { cbn [length]. destruct (digits1 is_digit ((sg :: m2) ++ r)); lia. }
      rewrite (digits1_U is_digit (sg :: m2) r r' Hd) by (apply num_follow_gstop; [tauto | assumption]). reflexivity.
Qed.

Lemma m_float_U : forall m r r', (m_float (m ++ r) <= length m)%nat -> num_follow r' ->
  m_float (m ++ r') = m_float (m ++ r).
Proof.
  intros m r r' H Hs. rewrite m_float_parts in H. rewrite (m_float_parts (m ++ r)), (m_float_parts (m ++ r')).
  assert (Hg : gstop is_digit r') by (apply num_follow_gstop; [tauto | assumption]).
  destruct (digits1 is_digit (m ++ r)) as [|n0] eqn:En.
  - assert (En' : digits1 is_digit (m ++ r') = O).
    { rewrite (digits1_U is_digit m r r'); [assumption | rewrite En; lia | assumption]. }
    rewrite (m_float'_O _ En), (m_float'_O _ En'). reflexivity.
  - rewrite (m_float'_S _ _ En) in H.
    assert (Hn : (S n0 <= length m)%nat) by lia.
    assert (En' : digits1 is_digit (m ++ r') = S n0).
    { rewrite (digits1_U is_digit m r r'); [assumption | rewrite En; assumption | assumption]. }
    rewrite (m_float'_S _ _ En), (m_float'_S _ _ En').
    rewrite (skipn_app_le _ _ m r Hn) in *. rewrite (skipn_app_le _ _ m r' Hn).
    pose proof (skipn_length (S n0) m) as L1.
    set (m1 := skipn (S n0) m) in *.
    assert (Hf : (frac_len (m1 ++ r) <= length m1)%nat) by lia.
    rewrite (frac_U m1 r r' Hf Hs).
    rewrite (skipn_app_le _ _ m1 r Hf) in *. rewrite (skipn_app_le _ _ m1 r' Hf).
    pose proof (skipn_length (frac_len (m1 ++ r)) m1) as L2.
    set (m2 := skipn (frac_len (m1 ++ r)) m1) in *.
    assert (He : (exp_len (m2 ++ r) <= length m2)%nat) by lia.
    rewrite (exp_U m2 r r' He Hs). reflexivity.
Qed.

Lemma m_unsigned_U : forall m r r', (m_unsigned (m ++ r) <= length m)%nat -> num_follow r' ->
  m_unsigned (m ++ r') = m_unsigned (m ++ r).
Proof.
  intros m r r' H Hs. unfold m_unsigned in *.
  assert (P1 : pstop 120 88 is_hex r') by (apply num_follow_pstop; [tauto | cbn; tauto | cbn; tauto | assumption]).
  assert (P2 : pstop 111 79 is_oct r') by (apply num_follow_pstop; [tauto | cbn; tauto | cbn; tauto | assumption]).
  assert (P3 : pstop 98 66 is_bin r') by (apply num_follow_pstop; [tauto | cbn; tauto | cbn; tauto | assumption]).
  destruct (prefixed 120 88 is_hex (m ++ r)) as [|k] eqn:E1.
  2:{ rewrite (prefixed_U _ _ _ m r r') by (rewrite ?E1; assumption). rewrite E1. reflexivity. }
  rewrite (prefixed_U _ _ _ m r r') by (rewrite ?E1; try lia; assumption). rewrite E1.
  destruct (prefixed 111 79 is_oct (m ++ r)) as [|k] eqn:E2.
  2:{ rewrite (prefixed_U _ _ _ m r r') by (rewrite ?E2; assumption). rewrite E2. reflexivity. }
  rewrite (prefixed_U _ _ _ m r r') by (rewrite ?E2; try lia; assumption). rewrite E2.
  destruct (prefixed 98 66 is_bin (m ++ r)) as [|k] eqn:E3.
  2:{ rewrite (prefixed_U _ _ _ m r r') by (rewrite ?E3; assumption). rewrite E3. reflexivity. }
  rewrite (prefixed_U _ _ _ m r r') by (rewrite ?E3; try lia; assumption). rewrite E3.
  apply m_float_U; assumption.
Qed.

Lemma m_unsigned_follow_O : forall r', num_follow r' -> m_unsigned r' = O.
Proof.
  intros r' Hs. change r' with ([] ++ r'). rewrite (m_unsigned_U [] [] r'); [reflexivity | cbn; lia | assumption].
Qed.

(* the general form for the whole number pattern *)
Theorem m_number_U : forall m r r', (m_number (m ++ r) <= length m)%nat -> num_follow r' ->
  m_number (m ++ r') = m_number (m ++ r).
Proof.
  intros m r r' H Hs. destruct m as [|a m1]; cbn [app length] in *.
  - assert (E : m_number r' = O).
    { destruct r' as [|c r'']; [reflexivity|]. cbn [m_number].
      rewrite (ns_neq c 45 Hs) by (cbn; tauto). apply m_unsigned_follow_O. exact Hs. }
    rewrite E. lia.
  - cbn [m_number] in *. destruct (a =? 45).
    + assert (Hd : (m_unsigned (m1 ++ r) <= length m1)%nat).
      { destruct (m_unsigned (m1 ++ r)); lia. }
      rewrite (m_unsigned_U m1 r r' Hd Hs). reflexivity.
    + change (a :: m1 ++ r) with ((a :: m1) ++ r) in *. change (a :: m1 ++ r') with ((a :: m1) ++ r').
      apply m_unsigned_U; [cbn [length]; assumption | assumption].
Qed.

(* boundary lemma for numbers: decimal, 0x/0o/0b prefixes, `_` separators, fraction, exponent, optional minus *)
Theorem m_number_boundary : forall m r r', m_number (m ++ r) = length m -> num_follow r' ->
  m_number (m ++ r') = length m.
Proof. intros m r r' H Hs. rewrite (m_number_U m r r'); [assumption | lia | assumption]. Qed.

(* a number recogniser that fails on m ++ r fails on m ++ r' *)
Lemma m_number_zero : forall m r r', m_number (m ++ r) = O -> num_follow r' -> m_number (m ++ r') = O.
Proof. intros m r r' H Hs. rewrite (m_number_U m r r'); [assumption | lia | assumption]. Qed.

(* in the form "followed by trivia": the first byte of the following text is whitespace or a slash *)
Theorem m_number_boundary_trivia : forall m r c r', trivia_start c = true ->
  m_number (m ++ r) = length m -> m_number (m ++ c :: r') = length m.
Proof.
  intros m r c r' Hc H. apply (m_number_boundary m r); [assumption|]. cbn. apply trivia_start_num_stop. assumption.
Qed.

(* whatever the match on `m ++ trivia...` is (complete or a malformed tail such as 0x, 1e, 1_), it is the same for every
   other trivia and at the end of the text *)
Theorem m_number_trivia_indep : forall m r r', num_follow r -> num_follow r' ->
  m_number (m ++ r) = m_number (m ++ r') /\ m_number (m ++ r) = m_number m /\ (m_number m <= length m)%nat.
Proof.
  intros m r r' Hr Hr'.
  assert (B : forall m0, (m_number m0 <= length m0)%nat).
  { clear. intros m0.
    assert (G : forall d n s, (length s <= n)%nat -> (groups d s <= length s)%nat).
    { intros d n; induction n as [|n IH]; intros s Hn.
      - destruct s; [cbn; lia | cbn in Hn; lia].
      - destruct s as [|b s1]; [cbn; lia|]. rewrite groups_cons. cbn [length] in *.
        destruct (d b). { specialize (IH s1). lia. }
        destruct (b =? 95); [|lia]. destruct s1 as [|c s2]; [lia|]. cbn [length] in *.
        destruct (d c); [|lia]. specialize (IH s2). lia. }
    assert (D : forall d s, (digits1 d s <= length s)%nat).
    { intros d [|b s1]; [cbn; lia|]. cbn [digits1 length]. destruct (d b); [|lia].
      specialize (G d (length s1) s1). lia. }
    assert (P : forall x X d s, (prefixed x X d s <= length s)%nat).
    { intros x X d [|z [|c s2]]; [cbn; lia | cbn; lia |]. cbn [prefixed length].
      destruct ((z =? 48) && ((c =? x) || (c =? X))); [|lia].
      specialize (D d s2). destruct (digits1 d s2); cbn; lia. }
    assert (Fr : forall s, (frac_len s <= length s)%nat).
    { intros [|dot s1]; [cbn; lia|]. cbn [frac_len length]. destruct (dot =? 46); [|lia].
      specialize (D is_digit s1). destruct (digits1 is_digit s1); lia. }
    assert (Ex : forall s, (exp_len s <= length s)%nat).
    { intros [|e [|sg s2]]; [cbn; lia | cbn [exp_len]; destruct ((e =? 101) || (e =? 69)); cbn; lia |].
      cbn [exp_len length]. destruct ((e =? 101) || (e =? 69)); [|lia].
      destruct ((sg =? 43) || (sg =? 45)).
      - specialize (D is_digit s2). destruct (digits1 is_digit s2); lia.
      - specialize (D is_digit (sg :: s2)). cbn [length] in D. destruct (digits1 is_digit (sg :: s2)); lia. }
    assert (Fl : forall s, (m_float s <= length s)%nat).
    { intros s. rewrite m_float_parts. destruct (digits1 is_digit s) as [|n0] eqn:En.
      - rewrite (m_float'_O _ En). lia.
      - rewrite (m_float'_S _ _ En).
        pose proof (D is_digit s) as D1. rewrite En in D1.
        pose proof (skipn_length (S n0) s) as L1.
        pose proof (Fr (skipn (S n0) s)) as F1.
        pose proof (skipn_length (frac_len (skipn (S n0) s)) (skipn (S n0) s)) as L2.
        pose proof (Ex (skipn (frac_len (skipn (S n0) s)) (skipn (S n0) s))) as E1.
        lia. }
    assert (U : forall s, (m_unsigned s <= length s)%nat).
    { intros s. unfold m_unsigned.
      pose proof (P 120 88 is_hex s). pose proof (P 111 79 is_oct s). pose proof (P 98 66 is_bin s). pose proof (Fl s).
      destruct (prefixed 120 88 is_hex s); [|assumption].
      destruct (prefixed 111 79 is_oct s); [|assumption].
      destruct (prefixed 98 66 is_bin s); assumption. }
    destruct m0 as [|a s1]; [cbn; lia|]. cbn [m_number length]. destruct (a =? 45).
    - specialize (U s1). destruct (m_unsigned s1); lia.
    - specialize (U (a :: s1)). cbn [length] in U. exact U. }
  assert (E : forall x, num_follow x -> m_number (m ++ x) = m_number m).
  { intros x Hx. rewrite <- (app_nil_r m) at 2. apply m_number_U; [rewrite app_nil_r; apply B | assumption]. }
  rewrite (E r Hr), (E r' Hr'). repeat split. apply B.
Qed.

Lemma number_boundary_example :
  let tok := [48; 120; 49; 95; 102] in let bad := [49; 101] in
  m_number (tok ++ [43; 49]) = length tok /\ num_follow [47; 42; 32; 42; 47] /\ num_follow [9] /\
  m_number (tok ++ [47; 42; 32; 42; 47]) = 5%nat /\
  m_number (bad ++ [32; 53]) = 1%nat /\ m_number (bad ++ [53]) = 3%nat.
Proof. vm_compute. repeat split; reflexivity. Qed.
