(* C16 — lemmas about the port Models/Bigint.v, generic in the limb count n (length of the limb lists). *)
From Coq Require Import ZArith List Bool Lia.
From FV Require Import Models.Bigint.
Import ListNotations.
Open Scope Z_scope.

Lemma B_eq : B = 18446744073709551616. Proof. reflexivity. Qed.
Lemma B_pos : 0 < B. Proof. reflexivity. Qed.
Lemma modulus_0 : modulus 0 = 1. Proof. reflexivity. Qed.
Lemma modulus_S n : modulus (S n) = B * modulus n.
Proof. unfold modulus. rewrite Nat2Z.inj_succ, Z.pow_succ_r by lia. reflexivity. Qed.
Lemma modulus_pos n : 0 < modulus n.
Proof. unfold modulus. apply Z.pow_pos_nonneg; [reflexivity | lia]. Qed.
Global Opaque B modulus.

Lemma limbs_ok_cons x l : limbs_ok (x :: l) <-> limb_ok x /\ limbs_ok l.
Proof. unfold limbs_ok. split; intros H; [inversion H; auto | destruct H; constructor; auto]. Qed.
Lemma limbs_ok_nil : limbs_ok []. Proof. constructor. Qed.

Lemma limbs_okb_ok l : forallb limb_okb l = true -> limbs_ok l.
Proof.
  induction l as [|x l IH]; cbn [forallb]; intros H; [apply limbs_ok_nil|].
  apply andb_true_iff in H. destruct H as [H1 H2]. apply limbs_ok_cons. split; [|auto].
  unfold limb_okb in H1. apply andb_true_iff in H1. unfold limb_ok. lia.
Qed.

Lemma mod_limb_ok z : limb_ok (z mod B).
Proof. unfold limb_ok. apply Z.mod_pos_bound, B_pos. Qed.

Lemma value_bound l : limbs_ok l -> 0 <= value l < modulus (length l).
Proof.
  induction l as [|x l IH]; intros H; cbn [value length].
  - rewrite modulus_0. lia.
  - apply limbs_ok_cons in H. destruct H as [Hx Hl]. specialize (IH Hl).
    rewrite modulus_S. unfold limb_ok in Hx. pose proof B_pos. nia.
Qed.

(* r is x reduced modulo m as soon as it is in range and differs from x by a multiple of m *)
Lemma cong_mod m r x q : 0 <= r < m -> r = x + m * q -> r = x mod m.
Proof. intros Hr E. apply Z.mod_unique with (q := - q); [left; exact Hr | lia]. Qed.

(* ------------------------------------------------------------------ addition *)
Lemma add_c_cong : forall a b c, length a = length b ->
  exists q, value (add_limbs_c a b c) = value a + value b + c + modulus (length a) * q.
Proof.
  induction a as [|x a IH]; intros [|y b] c L; cbn [length] in L; try discriminate.
  - exists (- c). cbn [add_limbs_c value length]. rewrite modulus_0. lia.
  - injection L as L. cbn [add_limbs_c value length]. cbv zeta.
    destruct (IH b ((x + y + c) / B) L) as [q E]. exists q. rewrite E, modulus_S.
    pose proof (Z.div_mod (x + y + c) B ltac:(pose proof B_pos; lia)). nia.
Qed.

Lemma add_c_ok : forall a b c, limbs_ok (add_limbs_c a b c).
Proof.
  induction a as [|x a IH]; intros [|y b] c; cbn [add_limbs_c]; try apply limbs_ok_nil.
  cbv zeta. apply limbs_ok_cons. split; [apply mod_limb_ok | apply IH].
Qed.

Lemma add_c_length : forall a b c, length a = length b -> length (add_limbs_c a b c) = length a.
Proof.
  induction a as [|x a IH]; intros [|y b] c L; cbn [length] in L; try discriminate; cbn [add_limbs_c length]; auto.
Qed.

Lemma add_limbs_correct a b : length a = length b ->
  value (add_limbs a b) = (value a + value b) mod modulus (length a).
Proof.
  intros L. unfold add_limbs. destruct (add_c_cong a b 0 L) as [q E].
  apply cong_mod with (q := q); [| lia].
  rewrite <- (add_c_length a b 0 L). apply value_bound, add_c_ok.
Qed.

(* ------------------------------------------------------------------ subtraction (repaired borrow) *)
Lemma sub_step x y c : limb_ok x -> limb_ok y -> 0 <= c <= 1 ->
  (x - (y + c) mod B) mod B
  = x - y - c + B * (if (x <? (y + c) mod B) || ((y + c) mod B <? c) then 1 else 0).
Proof.
  unfold limb_ok. rewrite B_eq. intros Hx Hy Hc.
  destruct (Z.ltb_spec x ((y + c) mod 18446744073709551616));
    destruct (Z.ltb_spec ((y + c) mod 18446744073709551616) c); cbn [orb];
    Z.div_mod_to_equations; lia.
Qed.

Lemma sub_c_cong : forall a b c, length a = length b -> limbs_ok a -> limbs_ok b -> 0 <= c <= 1 ->
  exists q, value (sub_limbs_c a b c) = value a - value b - c + modulus (length a) * q.
Proof.
  induction a as [|x a IH]; intros [|y b] c L Ha Hb Hc; cbn [length] in L; try discriminate.
  - exists c. cbn [sub_limbs_c value length]. rewrite modulus_0. lia.
  - injection L as L. apply limbs_ok_cons in Ha. apply limbs_ok_cons in Hb.
    destruct Ha as [Hx Ha]. destruct Hb as [Hy Hb].
    cbn [sub_limbs_c value length]. cbv zeta.
    set (c' := if (x <? (y + c) mod B) || ((y + c) mod B <? c) then 1 else 0).
    assert (Hc' : 0 <= c' <= 1) by (subst c'; destruct (_ || _); lia).
    destruct (IH b c' L Ha Hb Hc') as [q E]. exists q.
    rewrite E, modulus_S, (sub_step x y c Hx Hy Hc). fold c'. nia.
Qed.

Lemma sub_c_ok : forall a b c, limbs_ok (sub_limbs_c a b c).
Proof.
  induction a as [|x a IH]; intros [|y b] c; cbn [sub_limbs_c]; try apply limbs_ok_nil.
  cbv zeta. apply limbs_ok_cons. split; [apply mod_limb_ok | apply IH].
Qed.

Lemma sub_c_length : forall a b c, length a = length b -> length (sub_limbs_c a b c) = length a.
Proof.
  induction a as [|x a IH]; intros [|y b] c L; cbn [length] in L; try discriminate; cbn [sub_limbs_c length]; auto.
Qed.

Lemma sub_limbs_correct a b : length a = length b -> limbs_ok a -> limbs_ok b ->
  value (sub_limbs a b) = (value a - value b) mod modulus (length a).
Proof.
  intros L Ha Hb. unfold sub_limbs. destruct (sub_c_cong a b 0 L Ha Hb ltac:(lia)) as [q E].
  apply cong_mod with (q := q); [| lia].
  rewrite <- (sub_c_length a b 0 L). apply value_bound, sub_c_ok.
Qed.

(* the code as found in the tree loses the borrow: 0 - (1 + (2^64-1)*2^64) over four limbs *)
Lemma sub_orig_refuted :
  exists a b, length a = 4%nat /\ length b = 4%nat /\ limbs_ok a /\ limbs_ok b /\
    value (sub_limbs_orig a b) <> (value a - value b) mod modulus 4.
Proof.
  exists [0; 0; 0; 0], [1; LMAX; 0; 0].
  split; [reflexivity|]. split; [reflexivity|].
  split; [apply limbs_okb_ok; reflexivity|].
  split; [apply limbs_okb_ok; reflexivity|].
  vm_compute. discriminate.
Qed.

(* ------------------------------------------------------------------ negation *)
Lemma neg_step x c : limb_ok x -> 0 <= c <= 1 ->
  (LMAX - x + c) mod B + B * (if (LMAX - x + c) mod B <? LMAX - x then 1 else 0) = LMAX - x + c.
Proof.
  unfold limb_ok, LMAX. rewrite B_eq. intros Hx Hc.
  destruct (Z.ltb_spec ((18446744073709551616 - 1 - x + c) mod 18446744073709551616) (18446744073709551616 - 1 - x));
    Z.div_mod_to_equations; lia.
Qed.

Lemma negate_c_cong : forall v c, limbs_ok v -> 0 <= c <= 1 ->
  exists q, value (negate_c v c) = modulus (length v) - 1 - value v + c + modulus (length v) * q.
Proof.
  induction v as [|x v IH]; intros c Hv Hc.
  - exists (- c). cbn [negate_c value length]. rewrite modulus_0. lia.
  - apply limbs_ok_cons in Hv. destruct Hv as [Hx Hv].
    cbn [negate_c value length]. cbv zeta.
    set (c' := if (LMAX - x + c) mod B <? LMAX - x then 1 else 0).
    assert (Hc' : 0 <= c' <= 1) by (subst c'; destruct (_ <? _); lia).
    destruct (IH c' Hv Hc') as [q E]. exists q.
    pose proof (neg_step x c Hx Hc) as S. fold c' in S.
    rewrite E, modulus_S. unfold LMAX in *. nia.
Qed.

Lemma negate_c_ok : forall v c, limbs_ok (negate_c v c).
Proof.
  induction v as [|x v IH]; intros c; cbn [negate_c]; try apply limbs_ok_nil.
  cbv zeta. apply limbs_ok_cons. split; [apply mod_limb_ok | apply IH].
Qed.

Lemma negate_c_length : forall v c, length (negate_c v c) = length v.
Proof. induction v as [|x v IH]; intros c; cbn [negate_c length]; auto. Qed.

Lemma negate_cong v : limbs_ok v ->
  exists q, value (negate_limbs v) = - value v + modulus (length v) * q.
Proof.
  intros Hv. destruct (negate_c_cong v 1 Hv ltac:(lia)) as [q E]. exists (q + 1).
  unfold negate_limbs. rewrite E. lia.
Qed.

Lemma negate_limbs_correct v : limbs_ok v ->
  value (negate_limbs v) = (- value v) mod modulus (length v).
Proof.
  intros Hv. destruct (negate_cong v Hv) as [q E].
  apply cong_mod with (q := q); [| exact E].
  unfold negate_limbs. rewrite <- (negate_c_length v 1). apply value_bound, negate_c_ok.
Qed.

(* ------------------------------------------------------------------ unsigned comparison *)
Lemma cmp_u_spec : forall a b, length a = length b -> limbs_ok a -> limbs_ok b ->
  (cmp_u a b = -1 /\ value a < value b) \/ (cmp_u a b = 0 /\ value a = value b) \/
  (cmp_u a b = 1 /\ value a > value b).
Proof.
  induction a as [|x a IH]; intros [|y b] L Ha Hb; cbn [length] in L; try discriminate.
  - right; left. cbn. auto.
  - injection L as L. apply limbs_ok_cons in Ha. apply limbs_ok_cons in Hb.
    destruct Ha as [Hx Ha]. destruct Hb as [Hy Hb]. unfold limb_ok in Hx, Hy.
    cbn [cmp_u value]. cbv zeta. pose proof B_pos.
    destruct (IH b L Ha Hb) as [[E O]|[[E O]|[E O]]]; rewrite E.
    + left. cbn. split; [reflexivity | nia].
    + change (0 =? 0) with true. cbv iota.
      destruct (Z.ltb_spec x y); [left; split; [reflexivity | nia]|].
      destruct (Z.gtb_spec x y); [right; right; split; [reflexivity | nia]|].
      right; left. split; [reflexivity | nia].
    + right; right. cbn. split; [reflexivity | nia].
Qed.

Lemma u_lt_correct a b : length a = length b -> limbs_ok a -> limbs_ok b ->
  u_lt a b = (value a <? value b).
Proof.
  intros L Ha Hb. unfold u_lt. destruct (cmp_u_spec a b L Ha Hb) as [[E O]|[[E O]|[E O]]]; rewrite E;
    destruct (Z.ltb_spec (value a) (value b)); try reflexivity; lia.
Qed.

Lemma u_gt_correct a b : length a = length b -> limbs_ok a -> limbs_ok b ->
  u_gt a b = (value a >? value b).
Proof.
  intros L Ha Hb. unfold u_gt. destruct (cmp_u_spec a b L Ha Hb) as [[E O]|[[E O]|[E O]]]; rewrite E;
    destruct (Z.gtb_spec (value a) (value b)); try reflexivity; lia.
Qed.

Lemma list_eqb_eq : forall a b, list_eqb a b = true <-> a = b.
Proof.
  induction a as [|x a IH]; intros [|y b]; cbn [list_eqb]; split; intros H; try discriminate; auto.
  - apply andb_true_iff in H. destruct H as [H1 H2]. apply Z.eqb_eq in H1. apply IH in H2. congruence.
  - injection H as -> ->. apply andb_true_iff. split; [apply Z.eqb_refl | apply IH; reflexivity].
Qed.

Lemma value_inj : forall a b, length a = length b -> limbs_ok a -> limbs_ok b -> value a = value b -> a = b.
Proof.
  induction a as [|x a IH]; intros [|y b] L Ha Hb E; cbn [length] in L; try discriminate; auto.
  injection L as L. apply limbs_ok_cons in Ha. apply limbs_ok_cons in Hb.
  destruct Ha as [Hx Ha]. destruct Hb as [Hy Hb]. unfold limb_ok in Hx, Hy. cbn [value] in E.
  pose proof B_pos.
  assert (value a = value b) by nia.
  assert (x = y) by nia. f_equal; auto.
Qed.

Lemma limbs_eqb_correct a b : length a = length b -> limbs_ok a -> limbs_ok b ->
  limbs_eqb a b = (value a =? value b).
Proof.
  intros L Ha Hb. unfold limbs_eqb. destruct (Z.eqb_spec (value a) (value b)) as [E|E].
  - apply list_eqb_eq. apply value_inj; auto.
  - destruct (list_eqb a b) eqn:Q; auto. apply list_eqb_eq in Q. subst. contradiction.
Qed.

(* ------------------------------------------------------------------ sign *)
Lemma value_app l t : value (l ++ [t]) = value l + modulus (length l) * t.
Proof.
  induction l as [|x l IH]; cbn [app value length].
  - rewrite modulus_0. lia.
  - rewrite IH, modulus_S. ring.
Qed.

Lemma limbs_ok_app l t : limbs_ok (l ++ [t]) -> limbs_ok l /\ limb_ok t.
Proof.
  unfold limbs_ok. intros H. apply Forall_app in H. destruct H as [H1 H2]. split; auto. inversion H2; auto.
Qed.

Lemma top_bit t : limb_ok t -> Z.odd (Z.shiftr t 63) = (2 ^ 63 <=? t).
Proof.
  unfold limb_ok. rewrite B_eq. intros H. rewrite Z.shiftr_div_pow2 by lia.
  change (2 ^ 63) with 9223372036854775808.
  destruct (Z.leb_spec 9223372036854775808 t).
  - replace (t / 9223372036854775808) with 1 by (Z.div_mod_to_equations; lia). reflexivity.
  - replace (t / 9223372036854775808) with 0 by (Z.div_mod_to_equations; lia). reflexivity.
Qed.

Lemma half_modulus_S n : modulus (S n) / 2 = modulus n * 2 ^ 63.
Proof.
  rewrite modulus_S, B_eq. change (2 ^ 63) with 9223372036854775808.
  replace (18446744073709551616 * modulus n) with (modulus n * 9223372036854775808 * 2) by ring.
  apply Z.div_mul. lia.
Qed.

Lemma is_negative_spec v : limbs_ok v -> v <> [] ->
  is_negative v = (modulus (length v) / 2 <=? value v).
Proof.
  intros Hv Hne. destruct (exists_last Hne) as [l [t ->]].
  apply limbs_ok_app in Hv. destruct Hv as [Hl Ht].
  unfold is_negative. rewrite last_last, (top_bit t Ht), value_app, app_length. cbn [length].
  replace (length l + 1)%nat with (S (length l)) by lia. rewrite half_modulus_S.
  pose proof (value_bound l Hl). pose proof (modulus_pos (length l)). unfold limb_ok in Ht.
  change (2 ^ 63) with 9223372036854775808.
  destruct (Z.leb_spec 9223372036854775808 t); destruct (Z.leb_spec (modulus (length l) * 9223372036854775808) (value l + modulus (length l) * t));
    try reflexivity; nia.
Qed.

Lemma modulus_even n : n <> O -> modulus n = 2 * (modulus n / 2).
Proof.
  destruct n as [|n]; [congruence|]. intros _. rewrite half_modulus_S, modulus_S, B_eq.
  change (2 ^ 63) with 9223372036854775808. ring.
Qed.

Lemma svalue_range v : limbs_ok v -> v <> [] ->
  - (modulus (length v) / 2) <= svalue v < modulus (length v) / 2.
Proof.
  intros Hv Hne. unfold svalue. pose proof (value_bound v Hv).
  assert (length v <> O) by (destruct v; cbn; congruence).
  pose proof (modulus_even (length v) H0).
  destruct (Z.ltb_spec (value v) (modulus (length v) / 2)); lia.
Qed.

Lemma svalue_cong v : exists q, svalue v = value v + modulus (length v) * q.
Proof.
  unfold svalue. destruct (_ <? _); [exists 0 | exists (-1)]; lia.
Qed.

(* a limb vector whose unsigned value is congruent to x denotes, read as two's complement, x wrapped *)
Lemma svalue_wrap v x q : limbs_ok v -> v <> [] -> value v = x + modulus (length v) * q ->
  svalue v = wrapS (modulus (length v)) x.
Proof.
  intros Hv Hne E. pose proof (svalue_range v Hv Hne) as R. destruct (svalue_cong v) as [q' E'].
  unfold wrapS. set (m := modulus (length v)) in *. set (h := m / 2) in *.
  assert (svalue v + h = (x + h) mod m); [| lia].
  assert (length v <> O) by (destruct v; cbn; congruence).
  pose proof (modulus_even (length v) H). fold m in H0. fold h in H0.
  apply cong_mod with (q := q + q'); [lia | lia].
Qed.

Lemma cmp_s_spec a b : length a = length b -> limbs_ok a -> limbs_ok b -> a <> [] ->
  (cmp_s a b = -1 /\ svalue a < svalue b) \/ (cmp_s a b = 0 /\ svalue a = svalue b) \/
  (cmp_s a b = 1 /\ svalue a > svalue b).
Proof.
  intros L Ha Hb Hne.
  assert (Hnb : b <> []) by (destruct b; destruct a; cbn in L; congruence).
  unfold cmp_s. rewrite (is_negative_spec a Ha Hne), (is_negative_spec b Hb Hnb). cbv zeta.
  unfold svalue. rewrite <- L.
  pose proof (value_bound a Ha). pose proof (value_bound b Hb). rewrite <- L in H0.
  pose proof (cmp_u_spec a b L Ha Hb) as C.
  set (m := modulus (length a)) in *. set (h := m / 2) in *.
  destruct (Z.leb_spec h (value a)); destruct (Z.leb_spec h (value b)); cbn [Bool.eqb];
    destruct (Z.ltb_spec (value a) h); destruct (Z.ltb_spec (value b) h); try lia; cbv iota.
  all: try (destruct C as [[E O]|[[E O]|[E O]]]; rewrite E; [left | right; left | right; right]; split; auto; lia).
  all: try (left; split; [reflexivity | lia]).
  all: try (right; right; split; [reflexivity | lia]).
Qed.

Lemma s_lt_correct a b : length a = length b -> limbs_ok a -> limbs_ok b -> a <> [] ->
  s_lt a b = (svalue a <? svalue b).
Proof.
  intros L Ha Hb Hne. unfold s_lt. destruct (cmp_s_spec a b L Ha Hb Hne) as [[E O]|[[E O]|[E O]]]; rewrite E;
    destruct (Z.ltb_spec (svalue a) (svalue b)); try reflexivity; lia.
Qed.

Lemma s_gt_correct a b : length a = length b -> limbs_ok a -> limbs_ok b -> a <> [] ->
  s_gt a b = (svalue a >? svalue b).
Proof.
  intros L Ha Hb Hne. unfold s_gt. destruct (cmp_s_spec a b L Ha Hb Hne) as [[E O]|[[E O]|[E O]]]; rewrite E;
    destruct (Z.gtb_spec (svalue a) (svalue b)); try reflexivity; lia.
Qed.

Lemma value_inj_s a b : length a = length b -> limbs_ok a -> limbs_ok b ->
  (value a =? value b) = (svalue a =? svalue b).
Proof.
  intros L Ha Hb. unfold svalue. rewrite <- L.
  pose proof (value_bound a Ha). pose proof (value_bound b Hb). rewrite <- L in H0.
  destruct (Z.ltb_spec (value a) (modulus (length a) / 2)); destruct (Z.ltb_spec (value b) (modulus (length a) / 2));
    destruct (Z.eqb_spec (value a) (value b)); destruct (Z.eqb_spec (value a) (value b)); try lia;
    match goal with |- _ = (?p =? ?q) => destruct (Z.eqb_spec p q) end; try reflexivity; try lia.
Qed.
