(* Type safety of FerretCore: a program accepted by check_prog never reaches Stuck (Wrong), for any fuel.
   The reference interpreter is therefore a total oracle on every program the generators emit. *)
From Coq Require Import ZArith List Bool Lia.
From FV Require Import Core.Syntax Core.Typing Core.Sem Proofs.TypingP.
Import ListNotations.

Section WithStructs.
Variable structs : structs_t.

Definition vtype (v : value) (t : ty) : Prop :=
  match v, t with
  | VInt a _, TInt b => a = b
  | VBool _, TBool => True
  | VUnit, TVoid => True
  | VStruct sid fs, TStruct sid' => sid = sid' /\ exists fts, nth_error structs sid = Some fts /\ length fs = length fts
  | _, _ => False
  end.

Inductive scope_ok : tscope -> scope -> Prop :=
| so_nil : scope_ok [] []
| so_cons x t v G s : vtype v t -> scope_ok G s -> scope_ok ((x, t) :: G) ((x, v) :: s).

Definition env_ok (G : tenv) (en : env) : Prop := Forall2 scope_ok G en.

Lemma ity_eqb_refl t : ity_eqb t t = true.
Proof. destruct t; reflexivity. Qed.
Lemma ity_eqb_eq a b : ity_eqb a b = true -> a = b.
Proof. destruct a, b; cbn; congruence. Qed.

Lemma lookup_scope_ok G s x t : scope_ok G s -> tlookup_scope x G = Some t ->
  exists v, lookup_scope x s = Some v /\ vtype v t.
Proof.
  induction 1 as [|y t0 v G s Hv Hs IH]; cbn; [discriminate|].
  destruct (Nat.eqb x y); [intros H; inversion H; subst; eauto|auto].
Qed.
Lemma lookup_scope_none G s x : scope_ok G s -> tlookup_scope x G = None -> lookup_scope x s = None.
Proof.
  induction 1 as [|y t0 v G s Hv Hs IH]; cbn; [auto|]. destruct (Nat.eqb x y); [discriminate|auto].
Qed.

Lemma lookup_ok G en x t : env_ok G en -> tlookup x G = Some t -> exists v, lookup x en = Some v /\ vtype v t.
Proof.
  induction 1 as [|g s G en Hs Hr IH]; cbn; [discriminate|].
  destruct (tlookup_scope x g) as [t0|] eqn:E.
  - intros H; inversion H; subst. destruct (lookup_scope_ok _ _ _ _ Hs E) as [v [Hl Hv]]. rewrite Hl. eauto.
  - rewrite (lookup_scope_none _ _ _ Hs E). auto.
Qed.

Lemma update_scope_ok G s x t v : scope_ok G s -> tlookup_scope x G = Some t -> vtype v t ->
  exists s', update_scope x v s = Some s' /\ scope_ok G s'.
Proof.
  induction 1 as [|y t0 w G s Hw Hs IH]; cbn; [discriminate|].
  destruct (Nat.eqb x y) eqn:E.
  - intros H Hv; inversion H; subst. eexists; split; [reflexivity|]. constructor; assumption.
  - intros H Hv. destruct (IH H Hv) as [s' [Hu Hs']]. rewrite Hu. eexists; split; [reflexivity|]. constructor; assumption.
Qed.
Lemma update_scope_none G s x v : scope_ok G s -> tlookup_scope x G = None -> update_scope x v s = None.
Proof.
  induction 1 as [|y t0 w G s Hw Hs IH]; cbn; [auto|]. destruct (Nat.eqb x y); [discriminate|].
  intros H. rewrite (IH H). reflexivity.
Qed.

Lemma update_ok G en x t v : env_ok G en -> tlookup x G = Some t -> vtype v t ->
  exists en', update x v en = Some en' /\ env_ok G en'.
Proof.
  induction 1 as [|g s G en Hs Hr IH]; cbn; [discriminate|].
  destruct (tlookup_scope x g) as [t0|] eqn:E.
  - intros H Hv; inversion H; subst. destruct (update_scope_ok _ _ _ _ _ Hs E Hv) as [s' [Hu Hs']].
    rewrite Hu. eexists; split; [reflexivity|]. constructor; assumption.
  - intros H Hv. rewrite (update_scope_none _ _ _ v Hs E).
    destruct (IH H Hv) as [en' [Hu He]]. rewrite Hu. eexists; split; [reflexivity|]. constructor; assumption.
Qed.

Lemma declare_ok G en x t v : env_ok G en -> G <> [] -> vtype v t -> env_ok (tdeclare x t G) (declare x v en).
Proof.
  intros H Hne Hv. destruct H as [|g s G en Hs Hr]; [contradiction|]. cbn.
  constructor; [constructor; assumption|assumption].
Qed.

(* a result is "fine" when it is not Wrong and, if it is a value, satisfies P *)
Definition fine {A} (P : A -> Prop) (r : res A) : Prop :=
  match r with Ok a _ => P a | Wrong => False | _ => True end.

Lemma fine_bind {A B} (P : A -> Prop) (Q : B -> Prop) (r : res A) (k : A -> list line -> res B) :
  fine P r -> (forall a out, P a -> fine Q (k a out)) -> fine Q (bind r k).
Proof. destruct r; cbn; auto; contradiction. Qed.

Lemma set_nth_some : forall k z l, (k < length l)%nat -> exists l', set_nth k z l = Some l' /\ length l' = length l.
Proof.
  induction k as [|k IH]; intros z [|x r] Hk; cbn in *; try lia.
  - eexists; split; [reflexivity|reflexivity].
  - destruct (IH z r) as [r' [Hs Hl]]; [lia|]. rewrite Hs. eexists; split; [reflexivity|]. cbn. congruence.
Qed.

Section Safety.
Variable sigs : list sig.
Variable callf : nat -> list value -> list line -> res value.
(* the meaning of calls respects the signatures *)
Hypothesis callf_ok : forall f pts rt args out, nth_error sigs f = Some (pts, rt) ->
  Forall2 vtype args pts -> fine (fun v => vtype v rt) (callf f args out).

Theorem eval_safe G : forall e t en out, check_expr structs sigs G e = TOk t -> env_ok G en ->
  fine (fun v => vtype v t) (eval structs callf e en out).
Proof.
  fix IH 1. intros e t en out H He. destruct e as [t0 z|b|x|o a b|o a|a t0|f es|sid es|a k].
  - cbn in H. destruct (in_range t0 z); inversion H; cbn; reflexivity.
  - inversion H; cbn; exact I.
  - cbn in H. destruct (tlookup x G) as [t1|] eqn:E; inversion H; subst.
    destruct (lookup_ok _ _ _ _ He E) as [v [Hl Hv]]. cbn. rewrite Hl. exact Hv.
  - cbn in H. apply tbind_ok in H as [ta [Ha H]]. apply tbind_ok in H as [tb [Hb H]].
    pose proof (IH a ta en) as IHa. pose proof (IH b tb en) as IHb.
    assert (Hgen : forall t',
              (forall va vb, vtype va ta -> vtype vb tb -> forall out2,
                 fine (fun v => vtype v t') (
                  match va, vb with
                  | VInt t1 x, VInt t2 y =>
                      if ity_eqb t1 t2 then
                        if is_arith o then
                          match arith o t1 x y with Some z => Ok (VInt t1 z) out2 | None => Undef out2 end
                        else match compare o x y with Some c => Ok (VBool c) out2 | None => Wrong end
                      else Wrong
                  | VBool x, VBool y =>
                      match o with
                      | Eq => Ok (VBool (Bool.eqb x y)) out2
                      | Ne => Ok (VBool (negb (Bool.eqb x y))) out2
                      | _ => Wrong
                      end
                  | _, _ => Wrong
                  end)) ->
              fine (fun v => vtype v t')
                (bind (eval structs callf a en out) (fun va out1 => bind (eval structs callf b en out1) (fun vb out2 =>
                  match va, vb with
                  | VInt t1 x, VInt t2 y =>
                      if ity_eqb t1 t2 then
                        if is_arith o then
                          match arith o t1 x y with Some z => Ok (VInt t1 z) out2 | None => Undef out2 end
                        else match compare o x y with Some c => Ok (VBool c) out2 | None => Wrong end
                      else Wrong
                  | VBool x, VBool y =>
                      match o with
                      | Eq => Ok (VBool (Bool.eqb x y)) out2
                      | Ne => Ok (VBool (negb (Bool.eqb x y))) out2
                      | _ => Wrong
                      end
                  | _, _ => Wrong
                  end)))).
    { intros t' Hk. eapply fine_bind; [apply IHa; assumption|]. intros va out1 Hva.
      eapply fine_bind; [apply IHb; assumption|]. intros vb out2 Hvb. apply Hk; assumption. }
    destruct o.
    1-5: (cbn; apply Hgen; intros va vb Hva Hvb out2;
          destruct ta as [x| | |sx], tb as [y| | |sy]; try discriminate;
          destruct (ity_eqb x y) eqn:Ex; [|discriminate]; apply ity_eqb_eq in Ex; subst y; inversion H; subst;
          destruct va, vb; cbn in Hva, Hvb; try contradiction; subst; rewrite ity_eqb_refl; cbn;
          repeat match goal with |- context [if ?c then _ else _] => destruct c end; cbn; auto).
    1-2: (cbn; apply Hgen; intros va vb Hva Hvb out2;
          destruct ta as [x| | |sx], tb as [y| | |sy]; try discriminate;
          [destruct (ity_eqb x y) eqn:Ex; [|discriminate]; apply ity_eqb_eq in Ex; subst y|]; inversion H; subst;
          destruct va, vb; cbn in Hva, Hvb; try contradiction; subst; rewrite ?ity_eqb_refl; cbn; auto).
    1-4: (cbn; apply Hgen; intros va vb Hva Hvb out2;
          destruct ta as [x| | |sx], tb as [y| | |sy]; try discriminate;
          destruct (ity_eqb x y) eqn:Ex; [|discriminate]; apply ity_eqb_eq in Ex; subst y; inversion H; subst;
          destruct va, vb; cbn in Hva, Hvb; try contradiction; subst; rewrite ity_eqb_refl; cbn; auto).
    + (* And *) cbn. destruct ta, tb; try discriminate. inversion H; subst.
      eapply fine_bind; [apply IHa; assumption|]. intros va out1 Hva. destruct va as [| [|] | |]; cbn in Hva; try contradiction; cbn; auto.
      eapply fine_bind; [apply IHb; assumption|]. intros vb out2 Hvb. destruct vb; cbn in Hvb; try contradiction; cbn; auto.
    + (* Or *) cbn. destruct ta, tb; try discriminate. inversion H; subst.
      eapply fine_bind; [apply IHa; assumption|]. intros va out1 Hva. destruct va as [| [|] | |]; cbn in Hva; try contradiction; cbn; auto.
      eapply fine_bind; [apply IHb; assumption|]. intros vb out2 Hvb. destruct vb; cbn in Hvb; try contradiction; cbn; auto.
  - destruct o; cbn in H; apply tbind_ok in H as [ta [Ha H]]; destruct ta; try discriminate; inversion H; subst; cbn;
      (eapply fine_bind; [exact (IH a _ en out Ha He)|]); intros va out1 Hva; destruct va; cbn in Hva; try contradiction; cbn; auto.
  - cbn in H. apply tbind_ok in H as [ta [Ha H]]. destruct ta; try discriminate. inversion H; subst. cbn.
    eapply fine_bind; [exact (IH a _ en out Ha He)|]. intros va out1 Hva. destruct va; cbn in Hva; try contradiction; cbn; auto.
  - apply rule_call in H as [pts [Hn [Hlen HF]]]. cbn.
    (* generalise the accumulator *)
    assert (Hgen : forall es pts2 acc pts1 out,
               Forall2 (fun e pt => check_expr structs sigs G e = TOk pt) es pts2 ->
               Forall2 vtype (rev acc) pts1 -> pts = pts1 ++ pts2 ->
               fine (fun v => vtype v t)
                 ((fix evals (es : list expr) (acc : list value) (out : list line) {struct es} : res value :=
                     match es with
                     | [] => callf f (rev acc) out
                     | e1 :: r => bind (eval structs callf e1 en out) (fun v out => evals r (v :: acc) out)
                     end) es acc out)).
    { clear HF Hlen. induction es0 as [|e1 r IHes]; intros pts2 acc pts1 out0 HF Hacc Hp.
      - inversion HF; subst. rewrite app_nil_r in Hn. eapply callf_ok; eauto.
      - inversion HF as [|? pt ? pr He1 Hr]; subst.
        eapply fine_bind; [apply (IH e1 pt en); assumption|]. intros v out1 Hv.
        apply (IHes pr (v :: acc) (pts1 ++ [pt])); [assumption| |rewrite <- app_assoc; reflexivity].
        cbn. apply Forall2_app; [assumption|constructor; [assumption|constructor]]. }
    apply (Hgen es pts [] []); [assumption|constructor|reflexivity].
  - (* struct literal *)
    apply slit_inv in H as [fts [Hn [-> HF]]]. cbn.
    assert (Hgen : forall es fts2 acc fts1 out,
               Forall2 (fun e ft => check_expr structs sigs G e = TOk (TInt ft)) es fts2 ->
               length acc = length fts1 -> fts = fts1 ++ fts2 ->
               fine (fun v => vtype v (TStruct sid))
                 ((fix flds (es : list expr) (acc : list Z) (out : list line) {struct es} : res value :=
                     match es with
                     | [] => Ok (VStruct sid (rev acc)) out
                     | e1 :: r => bind (eval structs callf e1 en out) (fun v out =>
                                    match v with VInt _ z => flds r (z :: acc) out | _ => Wrong end)
                     end) es acc out)).
    { clear HF. induction es0 as [|e1 r IHes]; intros fts2 acc fts1 out0 HF Hacc Hp.
      - inversion HF; subst. cbn. split; [reflexivity|]. exists (fts1 ++ []). split; [exact Hn|].
        rewrite rev_length, app_nil_r. exact Hacc.
      - inversion HF as [|? ft ? fr He1 Hr]; subst.
        eapply fine_bind; [apply (IH e1 (TInt ft) en); assumption|]. intros v out1 Hv.
        destruct v; cbn in Hv; try contradiction.
        apply (IHes fr (v :: acc) (fts1 ++ [ft])); [assumption| |rewrite <- app_assoc; reflexivity].
        cbn. rewrite app_length. cbn. lia. }
    apply (Hgen es fts [] []); [assumption|reflexivity|reflexivity].
  - (* field *)
    cbn in H. apply tbind_ok in H as [ta [Ha H]]. destruct ta as [| | |sid]; try discriminate.
    destruct (nth_error structs sid) as [fts|] eqn:En; [|discriminate].
    destruct (nth_error fts k) as [t0|] eqn:Ek; [|discriminate]. inversion H; subst. cbn.
    eapply fine_bind; [exact (IH a _ en out Ha He)|]. intros va out1 Hva.
    destruct va as [| | |sid' fs]; cbn in Hva; try contradiction.
    destruct Hva as [-> [fts' [En' Hlen]]]. rewrite En in En'. inversion En'; subst fts'.
    rewrite En, Ek.
    destruct (nth_error fs k) as [z|] eqn:Ez; [cbn; reflexivity|].
    exfalso. apply nth_error_None in Ez. assert (k < length fts)%nat by (apply nth_error_Some; congruence). lia.
Qed.

Definition flow_ok (ret : ty) (inl : bool) (fl : flow) : Prop :=
  match fl with
  | FNormal => True
  | FBreak | FContinue => inl = true
  | FReturn v => vtype v ret
  end.

(* what holds of the environment / flow an executed statement produces *)
Definition post (ret : ty) (inl : bool) (G G' : tenv) (r : env * flow) : Prop :=
  flow_ok ret inl (snd r) /\
  exists Gx, env_ok Gx (fst r) /\ tl Gx = tl G /\ Gx <> [] /\ (snd r = FNormal -> Gx = G').

Lemma env_ok_tl G en : env_ok G en -> env_ok (tl G) (tl en).
Proof. destruct 1; cbn; [constructor|assumption]. Qed.

Lemma tdeclare_tl x t G : G <> [] -> tl (tdeclare x t G) = tl G /\ tdeclare x t G <> [].
Proof. destruct G; [contradiction|]. cbn. split; [reflexivity|discriminate]. Qed.

Lemma check_stmt_tl : forall s ret inl G G', check_stmt structs sigs ret inl G s = TOk G' -> G <> [] -> tl G' = tl G /\ G' <> [].
Proof.
  induction s; intros ret inl G G' H Hne; cbn in H.
  - inversion H; subst; auto.
  - apply tbind_ok in H as [G1 [H1 H2]]. destruct (IHs1 _ _ _ _ H1 Hne) as [E1 N1].
    destruct (IHs2 _ _ _ _ H2 N1) as [E2 N2]. split; [congruence|assumption].
  - destruct (in_current x G); [discriminate|]. apply tbind_ok in H as [te [_ H]].
    destruct t; try discriminate; destruct (ty_eqb te _); try discriminate; inversion H; subst; apply tdeclare_tl; assumption.
  - destruct (tlookup x G); [|discriminate]. apply tbind_ok in H as [te [_ H]].
    destruct (ty_eqb te t); inversion H; subst; auto.
  - destruct (tlookup x G) as [[| | |sid]|]; try discriminate.
    destruct (nth_error structs sid) as [fts|]; [|discriminate]. destruct (nth_error fts k) as [t0|]; [|discriminate].
    apply tbind_ok in H as [te [_ H]]. destruct (ty_eqb te (TInt t0)); inversion H; subst; auto.
  - apply tbind_ok in H as [tc [_ H]]. destruct tc; try discriminate.
    apply tbind_ok in H as [Ga [_ H]]. apply tbind_ok in H as [Gb [_ H]]. inversion H; subst; auto.
  - apply tbind_ok in H as [tc [_ H]]. destruct tc; try discriminate.
    apply tbind_ok in H as [Ga [_ H]]. inversion H; subst; auto.
  - apply tbind_ok in H as [tl [_ H]]. apply tbind_ok in H as [th [_ H]]. apply tbind_ok in H as [ts [_ H]].
    destruct (ty_eqb tl (TInt t) && ty_eqb th (TInt t) && ty_eqb ts (TInt t)); [|discriminate].
    apply tbind_ok in H as [Ga [_ H]]. inversion H; subst; auto.
  - destruct inl; inversion H; subst; auto.
  - destruct inl; inversion H; subst; auto.
  - destruct e as [e|].
    + apply tbind_ok in H as [te [_ H]]. destruct ret; try discriminate; destruct (ty_eqb te _); inversion H; subst; auto.
    + destruct ret; inversion H; subst; auto.
  - assert (G' = G) as ->; [|auto].
    revert H. induction es as [|e1 r IHes]; intros H; [inversion H; reflexivity|].
    apply tbind_ok in H as [te [_ H]]. destruct (printable te); [auto|discriminate].
  - destruct e; try discriminate. apply tbind_ok in H as [te [_ H]]. inversion H; subst; auto.
  - apply tbind_ok in H as [Ga [_ H]]. inversion H; subst; auto.
Qed.

Lemma post_pop ret inl G Ga r :
  post ret inl ([] :: G) Ga r -> G <> [] -> env_ok G (tl (fst r)) /\ flow_ok ret inl (snd r).
Proof.
  intros [Hf [Gx [He [Ht _]]]] Hne. split; [|exact Hf].
  apply env_ok_tl in He. rewrite Ht in He. exact He.
Qed.

Theorem exec_safe k : forall s ret inl G G' en out,
  check_stmt structs sigs ret inl G s = TOk G' -> env_ok G en -> G <> [] ->
  fine (post ret inl G G') (exec structs callf k s en out).
Proof.
  induction s; intros ret inl G G' en out H He Hne; cbn in H.
  - (* skip *) inversion H; subst. cbn. split; [exact I|]. exists G'. auto.
  - (* seq *) apply tbind_ok in H as [G1 [H1 H2]]. cbn.
    eapply fine_bind; [eapply IHs1; eassumption|]. intros [en1 fl] out1 [Hf [Gx [Hex [Ht [Hn Hnorm]]]]]. cbn in *.
    destruct (check_stmt_tl _ _ _ _ _ H1 Hne) as [E1 N1].
    destruct fl.
    + specialize (Hnorm eq_refl). subst Gx.
      pose proof (IHs2 ret inl G1 G' en1 out1 H2 Hex N1) as R. destruct (exec structs callf k s2 en1 out1); cbn in *; auto.
      destruct R as [Rf [Gy [Rey [Rt [Rn Rnorm]]]]]. split; [assumption|]. exists Gy. repeat split; auto. congruence.
    + cbn. split; [assumption|]. exists Gx. repeat split; auto; try discriminate.
    + cbn. split; [assumption|]. exists Gx. repeat split; auto; try discriminate.
    + cbn. split; [assumption|]. exists Gx. repeat split; auto; try discriminate.
  - (* let *) destruct (in_current x G); [discriminate|]. apply tbind_ok in H as [te [Hte H]]. cbn.
    eapply fine_bind; [eapply eval_safe; eassumption|]. intros v out1 Hv. cbn.
    assert (Ht : te = t /\ G' = tdeclare x t G).
    { destruct t; try discriminate; destruct (ty_eqb te _) eqn:E; try discriminate; apply ty_eqb_eq in E; inversion H; subst; auto. }
    destruct Ht as [-> ->]. split; [exact I|]. exists (tdeclare x t G).
    destruct (tdeclare_tl x t G Hne). repeat split; auto. apply declare_ok; assumption.
  - (* assign *) destruct (tlookup x G) as [t|] eqn:El; [|discriminate]. apply tbind_ok in H as [te [Hte H]]. cbn.
    eapply fine_bind; [eapply eval_safe; eassumption|]. intros v out1 Hv.
    destruct (ty_eqb te t) eqn:E; [|discriminate]. apply ty_eqb_eq in E. subst te. inversion H; subst.
    destruct (update_ok _ _ _ _ _ He El Hv) as [en' [Hu He']]. rewrite Hu. cbn.
    split; [exact I|]. exists G'. auto.
  - (* field assignment *)
    destruct (tlookup x G) as [[| | |sid]|] eqn:El; try discriminate.
    destruct (nth_error structs sid) as [fts|] eqn:En; [|discriminate].
    match type of H with context [nth_error fts ?kk] => rename kk into kf end.
    destruct (nth_error fts kf) as [t0|] eqn:Ek; [|discriminate].
    apply tbind_ok in H as [te [Hte H]]. destruct (ty_eqb te (TInt t0)) eqn:E; [|discriminate].
    apply ty_eqb_eq in E. subst te. inversion H; subst. cbn.
    eapply fine_bind; [eapply eval_safe; eassumption|]. intros v out1 Hv.
    destruct v as [tv z| | |]; cbn in Hv; try contradiction.
    destruct (lookup_ok _ _ _ _ He El) as [vs [Hl Hvs]]. rewrite Hl.
    destruct vs as [| | |sid' fs]; cbn in Hvs; try contradiction.
    destruct Hvs as [-> [fts' [En' Hlen]]]. rewrite En in En'. inversion En'; subst fts'.
    assert (Hk : (kf < length fs)%nat) by (rewrite Hlen; apply nth_error_Some; congruence).
    destruct (set_nth_some kf z fs Hk) as [fs' [Hs Hl']]. rewrite Hs.
    assert (Hnew : vtype (VStruct sid fs') (TStruct sid)).
    { cbn. split; [reflexivity|]. exists fts. split; [exact En|]. congruence. }
    destruct (update_ok _ _ _ _ _ He El Hnew) as [en' [Hu He']]. rewrite Hu. cbn.
    split; [exact I|]. exists G'. auto.
  - (* if *) apply tbind_ok in H as [tc [Hc H]]. destruct tc; try discriminate.
    apply tbind_ok in H as [Ga [Ha H]]. apply tbind_ok in H as [Gb [Hb H]]. inversion H; subst. cbn.
    eapply fine_bind; [eapply eval_safe; eassumption|]. intros vc out1 Hvc. destruct vc as [| [|] | |]; cbn in Hvc; try contradiction.
    + eapply fine_bind; [eapply (IHs1 ret inl ([] :: G') Ga ([] :: en)); [eassumption|constructor; [constructor|assumption]|discriminate]|].
      intros r out2 Hp. destruct (post_pop _ _ _ _ _ Hp Hne) as [Hen Hfl]. cbn. split; [exact Hfl|]. exists G'. auto.
    + eapply fine_bind; [eapply (IHs2 ret inl ([] :: G') Gb ([] :: en)); [eassumption|constructor; [constructor|assumption]|discriminate]|].
      intros r out2 Hp. destruct (post_pop _ _ _ _ _ Hp Hne) as [Hen Hfl]. cbn. split; [exact Hfl|]. exists G'. auto.
  - (* while *) apply tbind_ok in H as [tc [Hc H]]. destruct tc; try discriminate.
    apply tbind_ok in H as [Ga [Ha H]]. inversion H; subst. cbn.
    match goal with |- fine ?P (?L k en out) =>
      assert (Hl : forall n e o, env_ok G' e -> fine P (L n e o)); [|apply Hl; assumption] end.
    clear en out He. induction n as [|n IHn]; intros en out He; [exact I|].
    eapply fine_bind; [eapply eval_safe; eassumption|]. intros vc out1 Hvc. destruct vc as [| [|] | |]; cbn in Hvc; try contradiction.
    + eapply fine_bind; [eapply (IHs ret true ([] :: G') Ga ([] :: en)); [eassumption|constructor; [constructor|assumption]|discriminate]|].
      intros r out2 Hp. destruct (post_pop _ _ _ _ _ Hp Hne) as [Hen Hfl]. destruct r as [en2 fl]. cbn in *.
      destruct fl; cbn.
      * apply IHn; assumption.
      * split; [exact I|]. exists G'. auto.
      * apply IHn; assumption.
      * split; [exact Hfl|]. exists G'. repeat split; auto; try discriminate.
    + cbn. split; [exact I|]. exists G'. auto.
  - (* for *) apply tbind_ok in H as [tl [Hlo H]]. apply tbind_ok in H as [th [Hhi H]]. apply tbind_ok in H as [ts [Hst H]].
    destruct (ty_eqb tl (TInt t) && ty_eqb th (TInt t) && ty_eqb ts (TInt t)) eqn:Et; [|discriminate].
    apply andb_prop in Et as [Et E3]. apply andb_prop in Et as [E1 E2]. apply ty_eqb_eq in E1, E2, E3. subst tl th ts.
    apply tbind_ok in H as [Ga [Ha H]]. inversion H; subst. cbn.
    eapply fine_bind; [eapply eval_safe; eassumption|]. intros vlo out1 Hvlo.
    eapply fine_bind; [eapply eval_safe; eassumption|]. intros vhi out2 Hvhi.
    eapply fine_bind; [eapply eval_safe; eassumption|]. intros vst out3 Hvst.
    destruct vlo as [t1 l| | |], vhi as [t2 h| | |], vst as [t3 st| | |]; cbn in Hvlo, Hvhi, Hvst; try contradiction. subst t1 t2 t3.
    match goal with |- fine ?P (?L k l en out3) =>
      assert (Hl : forall n i e o, env_ok G' e -> fine P (L n i e o)); [|apply Hl; assumption] end.
    clear en out He out1 out2 out3. induction n as [|n IHn]; intros i en out He; [exact I|].
    destruct (for_cond incl st i h).
    + eapply fine_bind; [eapply (IHs ret true ([(x, TInt t)] :: G') Ga ([(x, VInt t i)] :: en));
        [eassumption|constructor; [constructor; [reflexivity|constructor]|assumption]|discriminate]|].
      intros r out3 Hp. destruct Hp as [Hfl [Gx [Hex [Htl _]]]]. apply env_ok_tl in Hex. rewrite Htl in Hex. cbn in Hex.
      destruct r as [en2 fl]. cbn in *. destruct fl; cbn.
      * apply IHn; assumption.
      * split; [exact I|]. exists G'. auto.
      * apply IHn; assumption.
      * split; [exact Hfl|]. exists G'. repeat split; auto; try discriminate.
    + cbn. split; [exact I|]. exists G'. auto.
  - (* break *) destruct inl; inversion H; subst. cbn. split; [reflexivity|]. exists G'. repeat split; auto; try discriminate.
  - (* continue *) destruct inl; inversion H; subst. cbn. split; [reflexivity|]. exists G'. repeat split; auto; try discriminate.
  - (* return *) destruct e as [e|].
    + apply tbind_ok in H as [te [Hte H]]. cbn.
      eapply fine_bind; [eapply eval_safe; eassumption|]. intros v out1 Hv. cbn.
      assert (te = ret /\ G' = G) as [-> ->].
      { destruct ret; try discriminate; destruct (ty_eqb te _) eqn:E; try discriminate; apply ty_eqb_eq in E; inversion H; subst; auto. }
      split; [exact Hv|]. exists G. repeat split; auto; try discriminate.
    + destruct ret; inversion H; subst. cbn. split; [exact I|]. exists G'. repeat split; auto; try discriminate.
  - (* print *) cbn.
    assert (G' = G) as ->.
    { revert H. clear. induction es as [|e1 r IHes]; intros H; [inversion H; reflexivity|].
      apply tbind_ok in H as [te [_ H]]. destruct (printable te); [auto|discriminate]. }
    pose proof (prints_ok structs sigs G es H) as Hall.
    assert (Hgen : forall es acc out, (forall a, In a es -> exists te, check_expr structs sigs G a = TOk te /\ printable te = true) ->
              fine (post ret inl G G)
               ((fix prints (es : list expr) (acc : line) (out : list line) {struct es} : res (env * flow) :=
                   match es with
                   | [] => Ok (en, FNormal) (out ++ [rev acc])
                   | e1 :: r => bind (eval structs callf e1 en out) (fun v out =>
                                  match item_of v with Some it => prints r (it :: acc) out | None => Wrong end)
                   end) es acc out)).
    { clear H Hall. induction es0 as [|e1 r IHes]; intros acc out0 Hall.
      - cbn. split; [exact I|]. exists G. auto.
      - destruct (Hall e1 (or_introl eq_refl)) as [te [Hte Hp]].
        eapply fine_bind; [eapply eval_safe; eassumption|]. intros v out1 Hv.
        destruct v, te; cbn in Hv, Hp; try contradiction; try discriminate; cbn; apply IHes; intros a Ha; apply Hall; right; exact Ha. }
    apply Hgen. exact Hall.
  - (* expr *) destruct e; try discriminate. apply tbind_ok in H as [te [Hte H]]. inversion H; subst. cbn [exec].
    eapply fine_bind; [eapply eval_safe; eassumption|]. intros v out1 Hv. cbn. split; [exact I|]. exists G'. auto.
  - (* block *) apply tbind_ok in H as [Ga [Ha H]]. inversion H; subst. cbn.
    eapply fine_bind; [eapply (IHs ret inl ([] :: G') Ga ([] :: en)); [eassumption|constructor; [constructor|assumption]|discriminate]|].
    intros r out2 Hp. destruct (post_pop _ _ _ _ _ Hp Hne) as [Hen Hfl]. cbn. split; [exact Hfl|]. exists G'. auto.
Qed.
End Safety.

Section Returns.
Variable callf : nat -> list value -> list line -> res value.

Lemma bind_ok_inv {A B} (r : res A) (k : A -> list line -> res B) b out :
  bind r k = Ok b out -> exists a o, r = Ok a o /\ k a o = Ok b out.
Proof. destruct r; cbn; intros H; try discriminate. eauto. Qed.

(* a body whose every path syntactically ends in `return` never falls off its end *)
Lemma returns_not_normal k : forall s en out r out',
  returns s = true -> exec structs callf k s en out = Ok r out' -> snd r <> FNormal.
Proof.
  induction s; intros en out r out' Hr H; cbn in Hr; try discriminate; cbn in H.
  - apply bind_ok_inv in H as [[en1 fl1] [o1 [H1 H2]]].
    apply orb_prop in Hr as [Hr|Hr].
    + pose proof (IHs1 _ _ _ _ Hr H1) as Hn. cbn in Hn. destruct fl1; [contradiction| | |]; inversion H2; subst; cbn; discriminate.
    + destruct fl1; [eapply IHs2; eassumption| | |]; inversion H2; subst; cbn; discriminate.
  - apply andb_prop in Hr as [Ha Hb].
    apply bind_ok_inv in H as [vc [o1 [H1 H2]]]. destruct vc as [| [|] | |]; try discriminate.
    + apply bind_ok_inv in H2 as [r1 [o2 [H3 H4]]]. inversion H4; subst. cbn. eapply IHs1; eassumption.
    + apply bind_ok_inv in H2 as [r1 [o2 [H3 H4]]]. inversion H4; subst. cbn. eapply IHs2; eassumption.
  - destruct e as [e|].
    + apply bind_ok_inv in H as [v [o1 [H1 H2]]]. inversion H2; subst; cbn; discriminate.
    + inversion H; subst; cbn; discriminate.
  - apply bind_ok_inv in H as [r1 [o2 [H3 H4]]]. inversion H4; subst. cbn. eapply IHs; eassumption.
Qed.
End Returns.

Lemma bind_params_ok : forall ps args, Forall2 vtype args (map snd ps) ->
  exists sc, bind_params ps args = Some sc /\ scope_ok ps sc.
Proof.
  induction ps as [|[x t] ps IH]; intros args H; cbn in *.
  - inversion H; subst. exists []. split; [reflexivity|constructor].
  - inversion H as [|v ? vs ? Hv Hr]; subst. destruct (IH vs Hr) as [sc [Hb Hs]].
    cbn. rewrite Hb. eexists; split; [reflexivity|]. constructor; assumption.
Qed.

Section Prog.
Variable p : prog.
Let sigs := map sig_of p.
Hypothesis fns_ok : forall f fd, nth_error p f = Some fd -> check_fn structs sigs fd = TOk tt.

Theorem call_safe : forall fuel f pts rt args out,
  nth_error sigs f = Some (pts, rt) -> Forall2 vtype args pts ->
  fine (fun v => vtype v rt) (call structs p fuel f args out).
Proof.
  induction fuel as [|fuel IH]; intros f pts rt args out Hs Ha; [exact I|].
  cbn. unfold sigs in Hs. rewrite nth_error_map in Hs. destruct (nth_error p f) as [fd|] eqn:Ef; [|discriminate].
  cbn in Hs. inversion Hs; subst. clear Hs.
  destruct (bind_params_ok _ _ Ha) as [sc [Hb Hsc]]. rewrite Hb.
  pose proof (fns_ok _ _ Ef) as Hf. unfold check_fn in Hf.
  destruct (negb (distinct_params (fparams fd))); [discriminate|].
  apply tbind_ok in Hf as [G' [Hst Hret]].
  assert (Hex : fine (post (fret fd) false [fparams fd] G') (exec structs (call structs p fuel) fuel (fbody fd) [sc] out)).
  { eapply (exec_safe sigs (call structs p fuel)); [|eassumption| |discriminate].
    - intros g pts' rt' args' out' Hn Hargs. eapply IH; eassumption.
    - constructor; [assumption|constructor]. }
  destruct (exec structs (call structs p fuel) fuel (fbody fd) [sc] out) as [[en' fl] out'| | |] eqn:Eex; cbn in *; auto.
  destruct Hex as [Hfl _]. cbn in Hfl. destruct fl; cbn; try discriminate; auto.
  destruct (fret fd) eqn:Er; cbn; auto;
    (destruct (returns (fbody fd)) eqn:Rb; [|discriminate];
     exfalso; eapply (returns_not_normal (call structs p fuel) fuel); [exact Rb|exact Eex|reflexivity]).
Qed.
End Prog.

Lemma check_fns_nth sigs : forall fs, check_fns structs sigs fs = TOk tt ->
  forall f fd, nth_error fs f = Some fd -> check_fn structs sigs fd = TOk tt.
Proof.
  intros fs H f fd Hn. eapply check_fns_all; [exact H|]. eapply nth_error_In; eassumption.
Qed.

Lemma nth_error_last {A} (l : list A) m r : rev l = m :: r -> nth_error l (length l - 1) = Some m.
Proof.
  intros H. assert (l = rev r ++ [m]).
  { rewrite <- (rev_involutive l), H. reflexivity. }
  subst l. rewrite app_length, rev_length. cbn.
  replace (length r + 1 - 1) with (length (rev r)) by (rewrite rev_length; lia).
  rewrite nth_error_app2 by lia. rewrite Nat.sub_diag. reflexivity.
Qed.

(* TYPE SAFETY: an accepted program never gets stuck, whatever the fuel *)
Theorem type_safety p : check_prog structs p = TOk tt -> forall fuel, run structs p fuel <> Stuck.
Proof.
  unfold check_prog. destruct (rev p) as [|m r] eqn:Er; [discriminate|].
  destruct (fparams m) eqn:Ep; [|discriminate]. destruct (fret m) eqn:Ef; try discriminate.
  intros H fuel. unfold run.
  pose proof (nth_error_last p m r Er) as Hm.
  assert (Hs : nth_error (map sig_of p) (length p - 1) = Some ([], TVoid)).
  { rewrite nth_error_map, Hm. cbn. unfold sig_of. rewrite Ep, Ef. reflexivity. }
  pose proof (call_safe p (check_fns_nth _ _ H) fuel (length p - 1) [] TVoid [] [] Hs (Forall2_nil _)) as Hc.
  destruct (call structs p fuel (length p - 1) [] []); cbn in Hc; try discriminate; contradiction.
Qed.
End WithStructs.
