(* Type safety of FerretCore: a program accepted by check_prog never reaches Stuck (Wrong), for any fuel.
   The reference interpreter is therefore a total oracle on every program the generators emit. *)
From Coq Require Import String ZArith List Bool Lia.
From FV Require Import Core.Syntax Core.Typing Core.Sem Proofs.TypingP.
Import ListNotations.

Section WithStructs.
Variable structs : structs_t.

Definition vtype (v : value) (t : ty) : Prop :=
  match v, t with
  | VInt a _, TInt b => a = b
  | VBool _, TBool => True
  | VUnit, TVoid => True
  | VStr _, TStr => True
  | VStruct sid fs, TStruct sid' | VStruct sid fs, TMutRef sid' =>   (* a reference parameter holds a struct value *)
      sid = sid' /\ exists fts, nth_error structs sid = Some fts /\ length fs = length fts
  | _, _ => False
  end.

(* a value has a reference-parameter type exactly when it has the type the parameter has inside the callee *)
Lemma vtype_pty_in v t : vtype v (pty_in t) <-> vtype v t.
Proof. destruct t; cbn; tauto. Qed.

Lemma Forall2_vtype_pty_in : forall vs pts, Forall2 vtype vs (map pty_in pts) <-> Forall2 vtype vs pts.
Proof.
  intros vs pts. split.
  - revert vs. induction pts as [|t pts IH]; intros vs H; inversion H as [|v ? vr ? Hv Hr]; subst; constructor; auto.
    apply vtype_pty_in; exact Hv.
  - induction 1 as [|v t vr pr Hv Hr IH]; cbn; constructor; auto. apply vtype_pty_in; exact Hv.
Qed.

Inductive scope_ok : tscope -> scope -> Prop :=
| so_nil : scope_ok [] []
| so_cons x t v G s : vtype v t -> scope_ok G s -> scope_ok ((x, t) :: G) ((x, v) :: s).

Definition env_ok (G : tenv) (en : env) : Prop := Forall2 scope_ok G en.

Lemma ity_eqb_refl t : ity_eqb t t = true.
Proof. destruct t; reflexivity. Qed.
Lemma ity_eqb_eq a b : ity_eqb a b = true -> a = b.
Proof. destruct a, b; cbn; congruence. Qed.

Lemma lookup_scope_ok G s x t : scope_ok G s -> tlookup_scope x G = Some t ->
  exists v, lookup_scope x s = Some v /\ vtype v t.
Proof.
  induction 1 as [|y t0 v G s Hv Hs IH]; cbn; [discriminate|].
  destruct (Nat.eqb x y); [intros H; inversion H; subst; eauto|auto].
Qed.
Lemma lookup_scope_none G s x : scope_ok G s -> tlookup_scope x G = None -> lookup_scope x s = None.
Proof.
  induction 1 as [|y t0 v G s Hv Hs IH]; cbn; [auto|]. destruct (Nat.eqb x y); [discriminate|auto].
Qed.

Lemma lookup_ok G en x t : env_ok G en -> tlookup x G = Some t -> exists v, lookup x en = Some v /\ vtype v t.
Proof.
  induction 1 as [|g s G en Hs Hr IH]; cbn; [discriminate|].
  destruct (tlookup_scope x g) as [t0|] eqn:E.
  - intros H; inversion H; subst. destruct (lookup_scope_ok _ _ _ _ Hs E) as [v [Hl Hv]]. rewrite Hl. eauto.
  - rewrite (lookup_scope_none _ _ _ Hs E). auto.
Qed.

Lemma update_scope_ok G s x t v : scope_ok G s -> tlookup_scope x G = Some t -> vtype v t ->
  exists s', update_scope x v s = Some s' /\ scope_ok G s'.
Proof.
  induction 1 as [|y t0 w G s Hw Hs IH]; cbn; [discriminate|].
  destruct (Nat.eqb x y) eqn:E.
  - intros H Hv; inversion H; subst. eexists; split; [reflexivity|]. constructor; assumption.
  - intros H Hv. destruct (IH H Hv) as [s' [Hu Hs']]. rewrite Hu. eexists; split; [reflexivity|]. constructor; assumption.
Qed.
Lemma update_scope_none G s x v : scope_ok G s -> tlookup_scope x G = None -> update_scope x v s = None.
Proof.
  induction 1 as [|y t0 w G s Hw Hs IH]; cbn; [auto|]. destruct (Nat.eqb x y); [discriminate|].
  intros H. rewrite (IH H). reflexivity.
Qed.

Lemma update_ok G en x t v : env_ok G en -> tlookup x G = Some t -> vtype v t ->
  exists en', update x v en = Some en' /\ env_ok G en'.
Proof.
  induction 1 as [|g s G en Hs Hr IH]; cbn; [discriminate|].
  destruct (tlookup_scope x g) as [t0|] eqn:E.
  - intros H Hv; inversion H; subst. destruct (update_scope_ok _ _ _ _ _ Hs E Hv) as [s' [Hu Hs']].
    rewrite Hu. eexists; split; [reflexivity|]. constructor; assumption.
  - intros H Hv. rewrite (update_scope_none _ _ _ v Hs E).
    destruct (IH H Hv) as [en' [Hu He]]. rewrite Hu. eexists; split; [reflexivity|]. constructor; assumption.
Qed.

Lemma declare_ok G en x t v : env_ok G en -> G <> [] -> vtype v t -> env_ok (tdeclare x t G) (declare x v en).
Proof.
  intros H Hne Hv. destruct H as [|g s G en Hs Hr]; [contradiction|]. cbn.
  constructor; [constructor; assumption|assumption].
Qed.

(* a result is "fine" when it is not Wrong and, if it is a value, satisfies P *)
Definition fine {A} (P : A -> Prop) (r : res A) : Prop :=
  match r with Ok a _ => P a | Wrong => False | _ => True end.

Lemma fine_bind {A B} (P : A -> Prop) (Q : B -> Prop) (r : res A) (k : A -> list line -> res B) :
  fine P r -> (forall a out, P a -> fine Q (k a out)) -> fine Q (bind r k).
Proof. destruct r; cbn; auto; contradiction. Qed.

Lemma set_nth_some : forall k z l, (k < length l)%nat -> exists l', set_nth k z l = Some l' /\ length l' = length l.
Proof.
  induction k as [|k IH]; intros z [|x r] Hk; cbn in *; try lia.
  - eexists; split; [reflexivity|reflexivity].
  - destruct (IH z r) as [r' [Hs Hl]]; [lia|]. rewrite Hs. eexists; split; [reflexivity|]. cbn. congruence.
Qed.

(* positional facts about scopes: a scope matching new ++ old splits accordingly *)
Lemma scope_ok_app_inv : forall g1 g2 s, scope_ok (g1 ++ g2) s ->
  exists s1 s2, s = s1 ++ s2 /\ scope_ok g1 s1 /\ scope_ok g2 s2.
Proof.
  induction g1 as [|[x t] g1 IH]; intros g2 s H; cbn in H.
  - exists [], s. split; [reflexivity|]. split; [constructor|exact H].
  - inversion H as [|? ? v ? s' Hv Hs]; subst. destruct (IH _ _ Hs) as [s1 [s2 [-> [H1 H2]]]].
    exists ((x, v) :: s1), s2. split; [reflexivity|]. split; [constructor; assumption|exact H2].
Qed.

Lemma scope_ok_length g s : scope_ok g s -> length s = length g.
Proof. induction 1 as [|x t v g s Hv Hs IH]; cbn; congruence. Qed.

Lemma scope_ok_values g s : scope_ok g s -> Forall2 vtype (map snd s) (map snd g).
Proof. induction 1 as [|x t v g s Hv Hs IH]; cbn; constructor; assumption. Qed.

Lemma lastn_app {A} (l1 l2 : list A) : lastn (length l2) (l1 ++ l2) = l2.
Proof.
  unfold lastn. rewrite app_length. replace (length l1 + length l2 - length l2)%nat with (length l1) by lia.
  induction l1 as [|a l1 IH]; cbn; auto.
Qed.

(* copy-out: the final values of the by-reference parameters are written back into variables of the struct type, so the
   environment stays well typed (and the write-back never fails) *)
Lemma copy_out_ok sigs G : forall args pts finals en,
  Forall2 (argr_ok structs sigs G) args pts -> Forall2 vtype finals pts -> env_ok G en ->
  exists en', copy_out args finals en = Some en' /\ env_ok G en'.
Proof.
  intros args pts finals en HF. revert finals en.
  induction HF as [|[fl e] pt args pts [Hfl [Hvar [te [Hte Heq]]]] HF IH]; intros finals en Hfin He.
  - inversion Hfin; subst. cbn. eauto.
  - inversion Hfin as [|v ? fr ? Hv Hfr]; subst. cbn [fst snd] in Hfl, Hvar, Hte. destruct fl.
    + specialize (Hvar eq_refl). destruct e; try discriminate. cbn in Hte.
      destruct (tlookup x G) as [tx|] eqn:El; [|discriminate]. inversion Hte; subst tx.
      apply ty_eqb_eq in Heq. subst te.
      apply (proj2 (vtype_pty_in v pt)) in Hv. destruct (update_ok _ _ _ _ _ He El Hv) as [en1 [Hu He1]].
      cbn. rewrite Hu. apply IH; assumption.
    + cbn. apply IH; assumption.
Qed.

Section Safety.
Variable sigs : list sig.
Variable callf : nat -> list value -> list line -> res (value * list value).
(* the meaning of calls respects the signatures: the result has the return type, and the final parameter values
   (what by-reference callers read back) have the parameter types *)
Hypothesis callf_ok : forall f pts rt args out, nth_error sigs f = Some (pts, rt) ->
  Forall2 vtype args pts -> fine (fun r => vtype (fst r) rt /\ Forall2 vtype (snd r) pts) (callf f args out).

Theorem eval_safe G : forall e t en out, check_expr structs sigs G e = TOk t -> env_ok G en ->
  fine (fun r => vtype (fst r) t /\ env_ok G (snd r)) (eval structs callf e en out).
Proof.
  fix IH 1. intros e t en out H He. destruct e as [t0 z|b|s|x|o a b|o a|a t0|f es|sid es|a k|f args].
  - cbn in H. destruct (in_range t0 z); inversion H; cbn; auto.
  - inversion H; cbn; auto.
  - inversion H; cbn; auto.
  - cbn in H. destruct (tlookup x G) as [t1|] eqn:E; inversion H; subst.
    destruct (lookup_ok _ _ _ _ He E) as [v [Hl Hv]]. cbn. rewrite Hl. cbn. auto.
  - cbn in H. apply tbind_ok in H as [ta [Ha H]]. apply tbind_ok in H as [tb [Hb H]].
    destruct o.
    1-11: (cbn; eapply fine_bind; [exact (IH a ta en out Ha He)|]; intros [va en1] out1 [Hva He1]; cbn [fst snd] in *;
           eapply fine_bind; [exact (IH b tb en1 out1 Hb He1)|]; intros [vb en2] out2 [Hvb He2]; cbn [fst snd] in *).
    (* Add: integers or strings *)
    1: (destruct ta as [x| | | |sx|rx], tb as [y| | | |sy|ry]; try discriminate;
        [destruct (ity_eqb x y) eqn:Ex; [|discriminate]; apply ity_eqb_eq in Ex; subst y|]; inversion H; subst;
        destruct va, vb; cbn in Hva, Hvb; try contradiction; subst; rewrite ?ity_eqb_refl; cbn; auto).
    (* Sub Mul Div Mod *)
    1-4: (destruct ta as [x| | | |sx|rx], tb as [y| | | |sy|ry]; try discriminate;
          destruct (ity_eqb x y) eqn:Ex; [|discriminate]; apply ity_eqb_eq in Ex; subst y; inversion H; subst;
          destruct va, vb; cbn in Hva, Hvb; try contradiction; subst; rewrite ity_eqb_refl; cbn;
          repeat match goal with |- context [if ?c then _ else _] => destruct c end; cbn; auto).
    (* Eq Ne: integers, booleans or strings *)
    1-2: (destruct ta as [x| | | |sx|rx], tb as [y| | | |sy|ry]; try discriminate;
          [destruct (ity_eqb x y) eqn:Ex; [|discriminate]; apply ity_eqb_eq in Ex; subst y| |]; inversion H; subst;
          destruct va, vb; cbn in Hva, Hvb; try contradiction; subst; rewrite ?ity_eqb_refl; cbn; auto).
    (* Lt Le Gt Ge *)
    1-4: (destruct ta as [x| | | |sx|rx], tb as [y| | | |sy|ry]; try discriminate;
          destruct (ity_eqb x y) eqn:Ex; [|discriminate]; apply ity_eqb_eq in Ex; subst y; inversion H; subst;
          destruct va, vb; cbn in Hva, Hvb; try contradiction; subst; rewrite ity_eqb_refl; cbn; auto).
    + (* And *) cbn. destruct ta, tb; try discriminate. inversion H; subst.
      eapply fine_bind; [exact (IH a _ en out Ha He)|]. intros [va en1] out1 [Hva He1]. cbn [fst snd] in *.
      destruct va as [| [|] | | |]; cbn in Hva; try contradiction; cbn; auto.
      eapply fine_bind; [exact (IH b _ en1 out1 Hb He1)|]. intros [vb en2] out2 [Hvb He2]. cbn [fst snd] in *.
      destruct vb; cbn in Hvb; try contradiction; cbn; auto.
    + (* Or *) cbn. destruct ta, tb; try discriminate. inversion H; subst.
      eapply fine_bind; [exact (IH a _ en out Ha He)|]. intros [va en1] out1 [Hva He1]. cbn [fst snd] in *.
      destruct va as [| [|] | | |]; cbn in Hva; try contradiction; cbn; auto.
      eapply fine_bind; [exact (IH b _ en1 out1 Hb He1)|]. intros [vb en2] out2 [Hvb He2]. cbn [fst snd] in *.
      destruct vb; cbn in Hvb; try contradiction; cbn; auto.
  - destruct o; cbn in H; apply tbind_ok in H as [ta [Ha H]]; destruct ta; try discriminate; inversion H; subst; cbn;
      (eapply fine_bind; [exact (IH a _ en out Ha He)|]); intros [va en1] out1 [Hva He1]; cbn [fst snd] in *;
      destruct va; cbn in Hva; try contradiction; cbn; auto.
  - cbn in H. apply tbind_ok in H as [ta [Ha H]]. destruct ta; try discriminate. inversion H; subst. cbn.
    eapply fine_bind; [exact (IH a _ en out Ha He)|]. intros [va en1] out1 [Hva He1]. cbn [fst snd] in *.
    destruct va; cbn in Hva; try contradiction; cbn; auto.
  - (* call *) apply rule_call in H as [pts [Hn [Hlen HF]]]. cbn.
    (* generalise the accumulator and the threaded environment *)
    assert (Hgen : forall l pts2 acc pts1 en0 out0,
               Forall2 (fun e pt => check_expr structs sigs G e = TOk pt) l pts2 ->
               Forall2 vtype (rev acc) pts1 -> pts = pts1 ++ pts2 -> env_ok G en0 ->
               fine (fun r => vtype (fst r) t /\ env_ok G (snd r))
                 ((fix evals (es : list expr) (acc : list value) (en : env) (out : list line) {struct es} : res (value * env) :=
                     match es with
                     | [] => bind (callf f (rev acc) out) (fun r out => Ok (fst r, en) out)
                     | e1 :: r => bind (eval structs callf e1 en out) (fun r1 out => evals r (fst r1 :: acc) (snd r1) out)
                     end) l acc en0 out0)).
    { clear HF Hlen He. induction l as [|e1 r IHes]; intros pts2 acc pts1 en0 out0 HF Hacc Hp He0.
      - inversion HF; subst. rewrite app_nil_r in Hn.
        eapply fine_bind; [eapply callf_ok; eauto|]. intros [v fin] out1 [Hv _]. cbn. auto.
      - inversion HF as [|? pt ? pr He1 Hr]; subst.
        eapply fine_bind; [apply (IH e1 pt en0); assumption|]. intros [v en1] out1 [Hv Hen1]. cbn [fst snd] in *.
        apply (IHes pr (v :: acc) (pts1 ++ [pt])); [assumption| |rewrite <- app_assoc; reflexivity|assumption].
        cbn. apply Forall2_app; [assumption|constructor; [assumption|constructor]]. }
    apply (Hgen es pts [] []); [assumption|constructor|reflexivity|assumption].
  - (* struct literal *)
    apply slit_inv in H as [fts [Hn [-> HF]]]. cbn.
    assert (Hgen : forall l fts2 acc fts1 en0 out0,
               Forall2 (fun e ft => check_expr structs sigs G e = TOk (TInt ft)) l fts2 ->
               length acc = length fts1 -> fts = fts1 ++ fts2 -> env_ok G en0 ->
               fine (fun r => vtype (fst r) (TStruct sid) /\ env_ok G (snd r))
                 ((fix flds (es : list expr) (acc : list Z) (en : env) (out : list line) {struct es} : res (value * env) :=
                     match es with
                     | [] => Ok (VStruct sid (rev acc), en) out
                     | e1 :: r => bind (eval structs callf e1 en out) (fun r1 out =>
                                    match fst r1 with VInt _ z => flds r (z :: acc) (snd r1) out | _ => Wrong end)
                     end) l acc en0 out0)).
    { clear HF He. induction l as [|e1 r IHes]; intros fts2 acc fts1 en0 out0 HF Hacc Hp He0.
      - inversion HF; subst. cbn. split; [|exact He0]. split; [reflexivity|]. exists (fts1 ++ []). split; [exact Hn|].
        rewrite rev_length, app_nil_r. exact Hacc.
      - inversion HF as [|? ft ? fr He1 Hr]; subst.
        eapply fine_bind; [apply (IH e1 (TInt ft) en0); assumption|]. intros [v en1] out1 [Hv Hen1]. cbn [fst snd] in *.
        destruct v; cbn in Hv; try contradiction.
        apply (IHes fr (v :: acc) (fts1 ++ [ft])); [assumption| |rewrite <- app_assoc; reflexivity|assumption].
        cbn. rewrite app_length. cbn. lia. }
    apply (Hgen es fts [] []); [assumption|reflexivity|reflexivity|assumption].
  - (* field *)
    cbn in H. apply tbind_ok in H as [ta [Ha H]]. destruct ta as [| | | |sid|]; try discriminate.
    destruct (nth_error structs sid) as [fts|] eqn:En; [|discriminate].
    destruct (nth_error fts k) as [t0|] eqn:Ek; [|discriminate]. inversion H; subst. cbn.
    eapply fine_bind; [exact (IH a _ en out Ha He)|]. intros [va en1] out1 [Hva He1]. cbn [fst snd] in *.
    destruct va as [| | |sid' fs|]; cbn in Hva; try contradiction.
    destruct Hva as [-> [fts' [En' Hlen]]]. rewrite En in En'. inversion En'; subst fts'.
    rewrite En, Ek.
    destruct (nth_error fs k) as [z|] eqn:Ez; [cbn; auto|].
    exfalso. apply nth_error_None in Ez. assert (k < length fts)%nat by (apply nth_error_Some; congruence). lia.
  - (* call with by-reference arguments *)
    apply callr_inv in H as [pts [Hn [Hd HF]]]. cbn.
    assert (Hgen : forall l pts2 acc pts1 en0 out0,
               Forall2 (argr_ok structs sigs G) l pts2 ->
               Forall2 vtype (rev acc) pts1 -> pts = pts1 ++ pts2 -> env_ok G en0 ->
               fine (fun r => vtype (fst r) t /\ env_ok G (snd r))
                 ((fix evals (as_ : list (bool * expr)) (acc : list value) (en : env) (out : list line) {struct as_}
                     : res (value * env) :=
                     match as_ with
                     | [] => bind (callf f (rev acc) out) (fun r out =>
                               match copy_out args (snd r) en with Some en' => Ok (fst r, en') out | None => Wrong end)
                     | a1 :: r => bind (eval structs callf (snd a1) en out) (fun r1 out => evals r (fst r1 :: acc) (snd r1) out)
                     end) l acc en0 out0)).
    { clear He. induction l as [|[fl e1] r IHl]; intros pts2 acc pts1 en0 out0 HF2 Hacc Hp He0.
      - inversion HF2; subst. rewrite app_nil_r in *.
        eapply fine_bind; [eapply callf_ok; eauto|]. intros [v fin] out1 [Hv Hfin]. cbn [fst snd] in *.
        destruct (copy_out_ok sigs G args pts1 fin en0 HF Hfin He0) as [en' [Hc He']]. rewrite Hc. cbn. auto.
      - inversion HF2 as [|? pt ? pr Ha1 Hr]; subst. destruct Ha1 as [_ [_ [te [Hte Heq]]]]. cbn [fst snd] in *.
        apply ty_eqb_eq in Heq. subst te.
        eapply fine_bind; [apply (IH e1 (pty_in pt) en0); assumption|]. intros [v en1] out1 [Hv Hen1]. cbn [fst snd] in *.
        apply (proj1 (vtype_pty_in v pt)) in Hv.
        apply (IHl pr (v :: acc) (pts1 ++ [pt])); [assumption| |rewrite <- app_assoc; reflexivity|assumption].
        cbn. apply Forall2_app; [assumption|constructor; [assumption|constructor]]. }
    apply (Hgen args pts [] []); [assumption|constructor|reflexivity|assumption].
Qed.

Definition flow_ok (ret : ty) (inl : bool) (fl : flow) : Prop :=
  match fl with
  | FNormal => True
  | FBreak | FContinue => inl = true
  | FReturn v => vtype v ret
  end.

(* Gx extends G: same outer scopes, and the head scope only grew at the front (declarations are pushed; nothing is removed,
   so the entries of G's head scope keep their positions counted from the bottom) *)
Definition ext (G Gx : tenv) : Prop := exists new, hd [] Gx = new ++ hd [] G.

Lemma ext_refl G : ext G G.
Proof. exists []. reflexivity. Qed.
Lemma ext_trans G1 G2 G3 : ext G1 G2 -> ext G2 G3 -> ext G1 G3.
Proof. intros [n1 H1] [n2 H2]. exists (n2 ++ n1). rewrite H2, H1. apply app_assoc. Qed.

(* what holds of the environment / flow an executed statement produces *)
Definition post (ret : ty) (inl : bool) (G G' : tenv) (r : env * flow) : Prop :=
  flow_ok ret inl (snd r) /\
  exists Gx, env_ok Gx (fst r) /\ tl Gx = tl G /\ Gx <> [] /\ ext G Gx /\ (snd r = FNormal -> Gx = G').

Lemma post_intro ret inl G G' Gx en fl :
  flow_ok ret inl fl -> env_ok Gx en -> tl Gx = tl G -> Gx <> [] -> ext G Gx -> (fl = FNormal -> Gx = G') ->
  post ret inl G G' (en, fl).
Proof. intros Hf He Ht Hn Hx Hnorm. split; [exact Hf|]. exists Gx. auto. Qed.

Lemma post_same ret inl G en fl : flow_ok ret inl fl -> env_ok G en -> G <> [] -> post ret inl G G (en, fl).
Proof. intros Hf He Hn. apply post_intro with (Gx := G); auto. apply ext_refl. Qed.

Lemma env_ok_tl G en : env_ok G en -> env_ok (tl G) (tl en).
Proof. destruct 1; cbn; [constructor|assumption]. Qed.

Lemma tdeclare_tl x t G : G <> [] -> tl (tdeclare x t G) = tl G /\ tdeclare x t G <> [] /\ ext G (tdeclare x t G).
Proof. destruct G; [contradiction|]. cbn. split; [reflexivity|]. split; [discriminate|]. exists [(x, t)]. reflexivity. Qed.

(* check_stmt only ever extends the head scope at the front *)
Lemma check_stmt_tl : forall s ret inl G G', check_stmt structs sigs ret inl G s = TOk G' -> G <> [] ->
  tl G' = tl G /\ G' <> [] /\ ext G G'.
Proof.
  assert (Hsame : forall G : tenv, G <> [] -> tl G = tl G /\ G <> [] /\ ext G G).
  { intros G Hne. split; [reflexivity|]. split; [exact Hne|apply ext_refl]. }
  induction s; intros ret inl G G' H Hne; cbn in H.
  - inversion H; subst; auto.
  - apply tbind_ok in H as [G1 [H1 H2]]. destruct (IHs1 _ _ _ _ H1 Hne) as [E1 [N1 X1]].
    destruct (IHs2 _ _ _ _ H2 N1) as [E2 [N2 X2]]. split; [congruence|]. split; [assumption|]. eapply ext_trans; eassumption.
  - destruct (in_current x G); [discriminate|]. apply tbind_ok in H as [te [_ H]].
    destruct t; try discriminate; destruct (ty_eqb te _); try discriminate; inversion H; subst; apply tdeclare_tl; assumption.
  - destruct (tlookup x G); [|discriminate]. apply tbind_ok in H as [te [_ H]].
    destruct (ty_eqb te t); inversion H; subst; auto.
  - destruct (tlookup x G) as [[| | | |sid|]|]; try discriminate.
    destruct (nth_error structs sid) as [fts|]; [|discriminate]. destruct (nth_error fts k) as [t0|]; [|discriminate].
    apply tbind_ok in H as [te [_ H]]. destruct (ty_eqb te (TInt t0)); inversion H; subst; auto.
  - apply tbind_ok in H as [tc [_ H]]. destruct tc; try discriminate.
    apply tbind_ok in H as [Ga [_ H]]. apply tbind_ok in H as [Gb [_ H]]. inversion H; subst; auto.
  - apply tbind_ok in H as [tc [_ H]]. destruct tc; try discriminate.
    apply tbind_ok in H as [Ga [_ H]]. inversion H; subst; auto.
  - apply tbind_ok in H as [tl [_ H]]. apply tbind_ok in H as [th [_ H]]. apply tbind_ok in H as [ts [_ H]].
    destruct (ty_eqb tl (TInt t) && ty_eqb th (TInt t) && ty_eqb ts (TInt t)); [|discriminate].
    apply tbind_ok in H as [Ga [_ H]]. inversion H; subst; auto.
  - destruct inl; inversion H; subst; auto.
  - destruct inl; inversion H; subst; auto.
  - destruct e as [e|].
    + apply tbind_ok in H as [te [_ H]]. destruct ret; try discriminate; destruct (ty_eqb te _); inversion H; subst; auto.
    + destruct ret; inversion H; subst; auto.
  - assert (G' = G) as ->; [|auto].
    revert H. induction es as [|e1 r IHes]; intros H; [inversion H; reflexivity|].
    apply tbind_ok in H as [te [_ H]]. destruct (printable te); [auto|discriminate].
  - destruct e; try discriminate; apply tbind_ok in H as [te [_ H]]; inversion H; subst; auto.
  - apply tbind_ok in H as [Ga [_ H]]. inversion H; subst; auto.
Qed.

Lemma post_pop ret inl G Ga r :
  post ret inl ([] :: G) Ga r -> G <> [] -> env_ok G (tl (fst r)) /\ flow_ok ret inl (snd r).
Proof.
  intros [Hf [Gx [He [Ht _]]]] Hne. split; [|exact Hf].
  apply env_ok_tl in He. rewrite Ht in He. exact He.
Qed.

Theorem exec_safe k : forall s ret inl G G' en out,
  check_stmt structs sigs ret inl G s = TOk G' -> env_ok G en -> G <> [] ->
  fine (post ret inl G G') (exec structs callf k s en out).
Proof.
  induction s; intros ret inl G G' en out H He Hne; cbn in H.
  - (* skip *) inversion H; subst. cbn. apply post_same; [exact I|assumption|assumption].
  - (* seq *) apply tbind_ok in H as [G1 [H1 H2]]. cbn.
    eapply fine_bind; [eapply IHs1; eassumption|]. intros [en1 fl] out1 [Hf [Gx [Hex [Ht [Hn [Hx Hnorm]]]]]]. cbn [fst snd] in *.
    destruct fl.
    + specialize (Hnorm eq_refl). subst Gx.
      pose proof (IHs2 ret inl G1 G' en1 out1 H2 Hex Hn) as R. destruct (exec structs callf k s2 en1 out1) as [[en2 fl2] out2| | |]; cbn in *; auto.
      destruct R as [Rf [Gy [Rey [Rt [Rn [Rx Rnorm]]]]]]. cbn [fst snd] in *.
      apply post_intro with (Gx := Gy); auto; [congruence|eapply ext_trans; eassumption].
    + cbn. apply post_intro with (Gx := Gx); auto; discriminate.
    + cbn. apply post_intro with (Gx := Gx); auto; discriminate.
    + cbn. apply post_intro with (Gx := Gx); auto; discriminate.
  - (* let *) destruct (in_current x G); [discriminate|]. apply tbind_ok in H as [te [Hte H]]. cbn.
    eapply fine_bind; [eapply eval_safe; eassumption|]. intros [v en1] out1 [Hv He1]. cbn [fst snd] in *.
    assert (Ht : te = t /\ G' = tdeclare x t G).
    { destruct t; try discriminate; destruct (ty_eqb te _) eqn:E; try discriminate; apply ty_eqb_eq in E; inversion H; subst; auto. }
    destruct Ht as [-> ->]. destruct (tdeclare_tl x t G Hne) as [Htl [Hnn Hxx]].
    apply post_intro with (Gx := tdeclare x t G); auto; [exact I|]. apply declare_ok; assumption.
  - (* assign *) destruct (tlookup x G) as [t|] eqn:El; [|discriminate]. apply tbind_ok in H as [te [Hte H]]. cbn.
    eapply fine_bind; [eapply eval_safe; eassumption|]. intros [v en1] out1 [Hv He1]. cbn [fst snd] in *.
    destruct (ty_eqb te t) eqn:E; [|discriminate]. apply ty_eqb_eq in E. subst te. inversion H; subst.
    destruct (update_ok _ _ _ _ _ He1 El Hv) as [en' [Hu He']]. rewrite Hu. cbn.
    apply post_same; [exact I|assumption|assumption].
  - (* field assignment *)
    destruct (tlookup x G) as [[| | | |sid|]|] eqn:El; try discriminate.
    destruct (nth_error structs sid) as [fts|] eqn:En; [|discriminate].
    match type of H with context [nth_error fts ?kk] => rename kk into kf end.
    destruct (nth_error fts kf) as [t0|] eqn:Ek; [|discriminate].
    apply tbind_ok in H as [te [Hte H]]. destruct (ty_eqb te (TInt t0)) eqn:E; [|discriminate].
    apply ty_eqb_eq in E. subst te. inversion H; subst. cbn.
    eapply fine_bind; [eapply eval_safe; eassumption|]. intros [v en1] out1 [Hv He1]. cbn [fst snd] in *.
    destruct v as [tv z| | | |]; cbn in Hv; try contradiction.
    destruct (lookup_ok _ _ _ _ He1 El) as [vs [Hl Hvs]]. rewrite Hl.
    destruct vs as [| | |sid' fs|]; cbn in Hvs; try contradiction.
    destruct Hvs as [-> [fts' [En' Hlen]]]. rewrite En in En'. inversion En'; subst fts'.
    assert (Hk : (kf < length fs)%nat) by (rewrite Hlen; apply nth_error_Some; congruence).
    destruct (set_nth_some kf z fs Hk) as [fs' [Hs Hl']]. rewrite Hs.
    assert (Hnew : vtype (VStruct sid fs') (TStruct sid)).
    { cbn. split; [reflexivity|]. exists fts. split; [exact En|]. congruence. }
    destruct (update_ok _ _ _ _ _ He1 El Hnew) as [en' [Hu He']]. rewrite Hu. cbn.
    apply post_same; [exact I|assumption|assumption].
  - (* if *) apply tbind_ok in H as [tc [Hc H]]. destruct tc; try discriminate.
    apply tbind_ok in H as [Ga [Ha H]]. apply tbind_ok in H as [Gb [Hb H]]. inversion H; subst. cbn.
    eapply fine_bind; [eapply eval_safe; eassumption|]. intros [vc en1] out1 [Hvc He1]. cbn [fst snd] in *.
    destruct vc as [| [|] | | |]; cbn in Hvc; try contradiction.
    + eapply fine_bind; [eapply (IHs1 ret inl ([] :: G') Ga ([] :: en1)); [eassumption|constructor; [constructor|assumption]|discriminate]|].
      intros [en2 fl2] out2 Hp. destruct (post_pop _ _ _ _ _ Hp Hne) as [Hen Hfl]. cbn. apply post_same; assumption.
    + eapply fine_bind; [eapply (IHs2 ret inl ([] :: G') Gb ([] :: en1)); [eassumption|constructor; [constructor|assumption]|discriminate]|].
      intros [en2 fl2] out2 Hp. destruct (post_pop _ _ _ _ _ Hp Hne) as [Hen Hfl]. cbn. apply post_same; assumption.
  - (* while *) apply tbind_ok in H as [tc [Hc H]]. destruct tc; try discriminate.
    apply tbind_ok in H as [Ga [Ha H]]. inversion H; subst. cbn.
    match goal with |- fine ?P (?L k en out) =>
      assert (Hl : forall n e o, env_ok G' e -> fine P (L n e o)); [|apply Hl; assumption] end.
    clear en out He. induction n as [|n IHn]; intros en out He; [exact I|].
    eapply fine_bind; [eapply eval_safe; eassumption|]. intros [vc en1] out1 [Hvc He1]. cbn [fst snd] in *.
    destruct vc as [| [|] | | |]; cbn in Hvc; try contradiction.
    + eapply fine_bind; [eapply (IHs ret true ([] :: G') Ga ([] :: en1)); [eassumption|constructor; [constructor|assumption]|discriminate]|].
      intros r out2 Hp. destruct (post_pop _ _ _ _ _ Hp Hne) as [Hen Hfl]. destruct r as [en2 fl]. cbn [fst snd] in *.
      destruct fl; cbn.
      * apply IHn; assumption.
      * apply post_same; [exact I|assumption|assumption].
      * apply IHn; assumption.
      * apply post_same; assumption.
    + cbn. apply post_same; [exact I|assumption|assumption].
  - (* for *) apply tbind_ok in H as [tl [Hlo H]]. apply tbind_ok in H as [th [Hhi H]]. apply tbind_ok in H as [ts [Hst H]].
    destruct (ty_eqb tl (TInt t) && ty_eqb th (TInt t) && ty_eqb ts (TInt t)) eqn:Et; [|discriminate].
    apply andb_prop in Et as [Et E3]. apply andb_prop in Et as [E1 E2]. apply ty_eqb_eq in E1, E2, E3. subst tl th ts.
    apply tbind_ok in H as [Ga [Ha H]]. inversion H; subst. cbn.
    eapply fine_bind; [eapply eval_safe; eassumption|]. intros [vlo en1] out1 [Hvlo He1]. cbn [fst snd] in *.
    eapply fine_bind; [eapply eval_safe; eassumption|]. intros [vhi en2] out2 [Hvhi He2]. cbn [fst snd] in *.
    eapply fine_bind; [eapply eval_safe; eassumption|]. intros [vst en3] out3 [Hvst He3]. cbn [fst snd] in *.
    destruct vlo as [t1 l| | | |], vhi as [t2 h| | | |], vst as [t3 st| | | |]; cbn in Hvlo, Hvhi, Hvst; try contradiction. subst t1 t2 t3.
    match goal with |- fine ?P (?L k l en3 out3) =>
      assert (Hl : forall n i e o, env_ok G' e -> fine P (L n i e o)); [|apply Hl; assumption] end.
    clear en out He out1 out2 out3 en1 He1 en2 He2 en3 He3. induction n as [|n IHn]; intros i en out He; [exact I|].
    destruct (for_cond incl st i h).
    + eapply fine_bind; [eapply (IHs ret true ([(x, TInt t)] :: G') Ga ([(x, VInt t i)] :: en));
        [eassumption|constructor; [constructor; [reflexivity|constructor]|assumption]|discriminate]|].
      intros r out3 Hp. destruct Hp as [Hfl [Gx [Hex [Htl _]]]]. apply env_ok_tl in Hex. rewrite Htl in Hex. cbn in Hex.
      destruct r as [en2 fl]. cbn [fst snd] in *. destruct fl; cbn.
      * apply IHn; assumption.
      * apply post_same; [exact I|assumption|assumption].
      * apply IHn; assumption.
      * apply post_same; assumption.
    + cbn. apply post_same; [exact I|assumption|assumption].
  - (* break *) destruct inl; inversion H; subst. cbn. apply post_same; [reflexivity|assumption|assumption].
  - (* continue *) destruct inl; inversion H; subst. cbn. apply post_same; [reflexivity|assumption|assumption].
  - (* return *) destruct e as [e|].
    + apply tbind_ok in H as [te [Hte H]]. cbn.
      eapply fine_bind; [eapply eval_safe; eassumption|]. intros [v en1] out1 [Hv He1]. cbn [fst snd] in *.
      assert (te = ret /\ G' = G) as [-> ->].
      { destruct ret; try discriminate; destruct (ty_eqb te _) eqn:E; try discriminate; apply ty_eqb_eq in E; inversion H; subst; auto. }
      apply post_same; assumption.
    + destruct ret; inversion H; subst. cbn. apply post_same; [exact I|assumption|assumption].
  - (* print *) cbn.
    assert (G' = G) as ->.
    { revert H. clear. induction es as [|e1 r IHes]; intros H; [inversion H; reflexivity|].
      apply tbind_ok in H as [te [_ H]]. destruct (printable te); [auto|discriminate]. }
    pose proof (prints_ok structs sigs G es H) as Hall.
    assert (Hgen : forall l acc en0 out0, (forall a, In a l -> exists te, check_expr structs sigs G a = TOk te /\ printable te = true) ->
              env_ok G en0 ->
              fine (post ret inl G G)
               ((fix prints (es : list expr) (acc : line) (en : env) (out : list line) {struct es} : res (env * flow) :=
                   match es with
                   | [] => Ok (en, FNormal) (out ++ [rev acc])
                   | e1 :: r => bind (eval structs callf e1 en out) (fun r1 out =>
                                  match item_of (fst r1) with Some it => prints r (it :: acc) (snd r1) out | None => Wrong end)
                   end) l acc en0 out0)).
    { clear H Hall He. induction l as [|e1 r IHes]; intros acc en0 out0 Hall He0.
      - cbn. apply post_same; [exact I|assumption|assumption].
      - destruct (Hall e1 (or_introl eq_refl)) as [te [Hte Hp]].
        eapply fine_bind; [eapply eval_safe; eassumption|]. intros [v en1] out1 [Hv He1]. cbn [fst snd] in *.
        destruct v, te; cbn in Hv, Hp; try contradiction; try discriminate; cbn;
          (apply IHes; [intros a Ha; apply Hall; right; exact Ha|assumption]). }
    apply Hgen; assumption.
  - (* expr *) destruct e; try discriminate; apply tbind_ok in H as [te [Hte H]]; inversion H; subst; cbn [exec];
      (eapply fine_bind; [eapply eval_safe; eassumption|]); intros [v en1] out1 [Hv He1]; cbn;
      (apply post_same; [exact I|assumption|assumption]).
  - (* block *) apply tbind_ok in H as [Ga [Ha H]]. inversion H; subst. cbn.
    eapply fine_bind; [eapply (IHs ret inl ([] :: G') Ga ([] :: en)); [eassumption|constructor; [constructor|assumption]|discriminate]|].
    intros [en2 fl2] out2 Hp. destruct (post_pop _ _ _ _ _ Hp Hne) as [Hen Hfl]. cbn. apply post_same; assumption.
Qed.
End Safety.

Section Returns.
Variable callf : nat -> list value -> list line -> res (value * list value).

Lemma bind_ok_inv {A B} (r : res A) (k : A -> list line -> res B) b out :
  bind r k = Ok b out -> exists a o, r = Ok a o /\ k a o = Ok b out.
Proof. destruct r; cbn; intros H; try discriminate. eauto. Qed.

(* a body whose every path syntactically ends in `return` never falls off its end *)
Lemma returns_not_normal k : forall s en out r out',
  returns s = true -> exec structs callf k s en out = Ok r out' -> snd r <> FNormal.
Proof.
  induction s; intros en out r out' Hr H; cbn in Hr; try discriminate; cbn in H.
  - apply bind_ok_inv in H as [[en1 fl1] [o1 [H1 H2]]].
    apply orb_prop in Hr as [Hr|Hr].
    + pose proof (IHs1 _ _ _ _ Hr H1) as Hn. cbn in Hn. destruct fl1; [contradiction| | |]; inversion H2; subst; cbn; discriminate.
    + destruct fl1; [eapply IHs2; eassumption| | |]; inversion H2; subst; cbn; discriminate.
  - apply andb_prop in Hr as [Ha Hb].
    apply bind_ok_inv in H as [[vc enc] [o1 [H1 H2]]]. cbn [fst snd] in H2. destruct vc as [| [|] | | |]; try discriminate.
    + apply bind_ok_inv in H2 as [r1 [o2 [H3 H4]]]. inversion H4; subst. cbn. eapply IHs1; eassumption.
    + apply bind_ok_inv in H2 as [r1 [o2 [H3 H4]]]. inversion H4; subst. cbn. eapply IHs2; eassumption.
  - destruct e as [e|].
    + apply bind_ok_inv in H as [v [o1 [H1 H2]]]. inversion H2; subst; cbn; discriminate.
    + inversion H; subst; cbn; discriminate.
  - apply bind_ok_inv in H as [r1 [o2 [H3 H4]]]. inversion H4; subst. cbn. eapply IHs; eassumption.
Qed.
End Returns.

(* binding the arguments: the callee starts in the scope of its parameters, each at the type it has inside the function *)
Lemma bind_params_ok : forall ps args, Forall2 vtype args (map snd ps) ->
  exists sc, bind_params ps args = Some sc /\ scope_ok (map (fun xt => (fst xt, pty_in (snd xt))) ps) sc.
Proof.
  induction ps as [|[x t] ps IH]; intros args H; cbn in *.
  - inversion H; subst. exists []. split; [reflexivity|constructor].
  - inversion H as [|v ? vs ? Hv Hr]; subst. destruct (IH vs Hr) as [sc [Hb Hs]].
    cbn. rewrite Hb. eexists; split; [reflexivity|]. constructor; [apply vtype_pty_in; assumption|assumption].
Qed.

Lemma map_snd_pty_in (ps : list (nat * ty)) :
  map snd (map (fun xt => (fst xt, pty_in (snd xt))) ps) = map pty_in (map snd ps).
Proof. induction ps as [|[x t] ps IH]; cbn; congruence. Qed.

Section Prog.
Variable p : prog.
Let sigs := map sig_of p.
Hypothesis fns_ok : forall f fd, nth_error p f = Some fd -> check_fn structs sigs fd = TOk tt.

(* a call returns a value of the return type, and final parameter values of the parameter types *)
Theorem call_safe : forall fuel f pts rt args out,
  nth_error sigs f = Some (pts, rt) -> Forall2 vtype args pts ->
  fine (fun r => vtype (fst r) rt /\ Forall2 vtype (snd r) pts) (call structs p fuel f args out).
Proof.
  induction fuel as [|fuel IH]; intros f pts rt args out Hs Ha; [exact I|].
  cbn [call]. unfold sigs in Hs. rewrite nth_error_map in Hs. destruct (nth_error p f) as [fd|] eqn:Ef; [|discriminate].
  cbn in Hs. inversion Hs; subst. clear Hs.
  destruct (bind_params_ok _ _ Ha) as [sc [Hb Hsc]]. rewrite Hb.
  pose proof (fns_ok _ _ Ef) as Hf. unfold check_fn in Hf.
  destruct (negb (distinct_params (fparams fd))); [discriminate|].
  apply tbind_ok in Hf as [G' [Hst Hret]].
  remember (map (fun xt => (fst xt, pty_in (snd xt))) (fparams fd)) as ps' eqn:Eps.
  assert (Hex : fine (post (fret fd) false [ps'] G') (exec structs (call structs p fuel) fuel (fbody fd) [sc] out)).
  { eapply (exec_safe sigs (call structs p fuel)); [|eassumption| |discriminate].
    - intros g pts' rt' args' out' Hn Hargs. eapply IH; eassumption.
    - constructor; [assumption|constructor]. }
  destruct (exec structs (call structs p fuel) fuel (fbody fd) [sc] out) as [[en' fl] out'| | |] eqn:Eex; cbn [bind fine] in *; auto.
  destruct Hex as [Hfl [Gx [Hen [Htl [Hnn [[new Hnew] _]]]]]]. cbn [fst snd] in *.
  (* the parameters still sit at the bottom of the only scope, well typed *)
  assert (Hfin : Forall2 vtype (map snd (lastn (length sc) (hd [] en'))) (map snd (fparams fd))).
  { destruct Gx as [|g Gr]; [contradiction|]. cbn in Htl, Hnew. subst Gr g.
    inversion Hen as [|? s ? enr Hs Hr]; subst. inversion Hr; subst. cbn [hd].
    apply scope_ok_app_inv in Hs as [s1 [s2 [-> [Hs1 Hs2]]]].
    assert (Hl : length sc = length s2).
    { rewrite (scope_ok_length _ _ Hs2). apply scope_ok_length. exact Hsc. }
    rewrite Hl, lastn_app. apply scope_ok_values in Hs2.
    rewrite map_snd_pty_in in Hs2. apply (proj1 (Forall2_vtype_pty_in _ _)) in Hs2. exact Hs2. }
  destruct fl; cbn [snd fst fine]; try discriminate; auto.
  - destruct (fret fd) eqn:Er; cbn; auto; try discriminate;
      (destruct (returns (fbody fd)) eqn:Rb; [|discriminate];
       exfalso; eapply (returns_not_normal (call structs p fuel) fuel); [exact Rb|exact Eex|reflexivity]).
Qed.
End Prog.

Lemma check_fns_nth sigs : forall fs, check_fns structs sigs fs = TOk tt ->
  forall f fd, nth_error fs f = Some fd -> check_fn structs sigs fd = TOk tt.
Proof.
  intros fs H f fd Hn. eapply check_fns_all; [exact H|]. eapply nth_error_In; eassumption.
Qed.

Lemma nth_error_last {A} (l : list A) m r : rev l = m :: r -> nth_error l (length l - 1) = Some m.
Proof.
  intros H. assert (l = rev r ++ [m]).
  { rewrite <- (rev_involutive l), H. reflexivity. }
  subst l. rewrite app_length, rev_length. cbn.
  replace (length r + 1 - 1) with (length (rev r)) by (rewrite rev_length; lia).
  rewrite nth_error_app2 by lia. rewrite Nat.sub_diag. reflexivity.
Qed.

(* TYPE SAFETY: an accepted program never gets stuck, whatever the fuel *)
Theorem type_safety p : check_prog structs p = TOk tt -> forall fuel, run structs p fuel <> Stuck.
Proof.
  unfold check_prog. destruct (rev p) as [|m r] eqn:Er; [discriminate|].
  destruct (fparams m) eqn:Ep; [|discriminate]. destruct (fret m) eqn:Ef; try discriminate.
  intros H fuel. unfold run.
  pose proof (nth_error_last p m r Er) as Hm.
  assert (Hs : nth_error (map sig_of p) (length p - 1) = Some ([], TVoid)).
  { rewrite nth_error_map, Hm. cbn. unfold sig_of. rewrite Ep, Ef. reflexivity. }
  pose proof (call_safe p (check_fns_nth _ _ H) fuel (length p - 1) [] TVoid [] [] Hs (Forall2_nil _)) as Hc.
  destruct (call structs p fuel (length p - 1) [] []); cbn in Hc; try discriminate; contradiction.
Qed.
End WithStructs.

(* non-vacuity of the by-reference fragment: f0(s: &'S0, k: i32) { s.F0 = k; }  main { let v = {1, 2}; f0(&'v, 3); print v.F0 }
   is accepted, and running it prints the value written through the reference *)
Definition byref_sample : prog :=
  [ {| fparams := [(0, TMutRef 0); (1, TInt I32)]; fret := TVoid; fbody := SAssignField 0 0 (EVar 1) |};
    {| fparams := []; fret := TVoid;
       fbody := SSeq (SLet 1 (TStruct 0) (EStructLit 0 [ELit I32 1%Z; ELit U8 2%Z]))
               (SSeq (SExpr (ECallR 0 [(true, EVar 1); (false, ELit I32 3%Z)]))
                     (SPrint [EField (EVar 1) 0])) |} ].
Example byref_sample_accepted : check_prog [[I32; U8]] byref_sample = TOk tt.
Proof. vm_compute. reflexivity. Qed.
Example byref_sample_runs : run [[I32; U8]] byref_sample 5 = Done [[OInt 3%Z]].
Proof. vm_compute. reflexivity. Qed.

(* non-vacuity of the string fragment: main { print("ab" + "cd", "ab" + "cd" == "abcd"); } *)
Definition str_sample : prog :=
  [ {| fparams := []; fret := TVoid;
       fbody := SPrint [EBin Add (EStr "ab") (EStr "cd"); EBin Eq (EBin Add (EStr "ab") (EStr "cd")) (EStr "abcd")] |} ].
Example str_sample_accepted : check_prog [] str_sample = TOk tt.
Proof. vm_compute. reflexivity. Qed.
Example str_sample_runs : run [] str_sample 1 = Done [[OStr "abcd"; OBool true]].
Proof. vm_compute. reflexivity. Qed.
