(* Instruction-selection soundness of both back ends over the tables REGENERATED from the compiler on every run
   (gen/Gen_QbeSel.v, gen/Gen_WasmSel.v; harness/isel.py). The two `*_table_ok` lemmas evaluate the decidable
   recognisers on the current tables; everything else is parametric in the register contents. *)
From Coq Require Import ZArith List Bool Lia.
From FV Require Import Core.Syntax Core.Sem Proofs.CoreArith Models.Qbe Models.WasmSem Models.ISel
     Proofs.ISelSym Proofs.ISelArith Proofs.ISelShape Proofs.ISelSound Proofs.ISelRt
     gen.Gen_QbeSel gen.Gen_WasmSel.
Import ListNotations.
Local Open Scope Z_scope.

Lemma qbe_table_ok : forallb (fun p => entry_ok_q (fst p) (snd p)) qbe_code = true.
Proof. vm_compute. reflexivity. Qed.
Lemma wasm_table_ok : forallb (fun p => entry_ok_w (fst p) (snd p)) wasm_code = true.
Proof. vm_compute. reflexivity. Qed.

(* For every row (operator, type) of the regenerated QBE table and ALL canonical register contents for which the
   reference is defined (divisor non-zero, not MIN / -1): the emitted code does not trap and returns a canonical
   register of the result type that denotes the reference result. *)
Theorem isel_qbe_sound : forall k f, In (k, f) qbe_code -> sound_q k f.
Proof.
  intros k f Hin. pose proof qbe_table_ok as H. rewrite forallb_forall in H. specialize (H _ Hin). cbn [fst snd] in H.
  destruct (is_rt k) eqn:Hk; [apply rt_q_sound|apply entry_ok_q_sound]; assumption.
Qed.

Theorem isel_wasm_sound : forall k f, In (k, f) wasm_code -> sound_w k f.
Proof.
  intros k f Hin. pose proof wasm_table_ok as H. rewrite forallb_forall in H. specialize (H _ Hin). cbn [fst snd] in H.
  destruct (is_rt k) eqn:Hk; [apply rt_w_sound|apply entry_ok_w_sound]; assumption.
Qed.

(* the binary rows spelled out: ra, rb are arbitrary canonical registers of type t *)
Theorem isel_qbe_sound_bin : forall o t f, In (KBin o t, f) qbe_code ->
  forall ra rb, canon t ra -> canon t rb ->
  forall v, ref (KBin o t) [denote t ra; denote t rb] = Some v ->
  forall m sp, exists r, qexec f [ra; rb] m sp = Some r /\ canonV (resty (KBin o t)) r /\ denoteV (resty (KBin o t)) r = v.
Proof.
  intros o t f Hin ra rb Ha Hb v Hv m sp.
  apply (isel_qbe_sound _ _ Hin [ra; rb]); [constructor; [exact Ha|constructor; [exact Hb|constructor]]|exact Hv].
Qed.
Theorem isel_wasm_sound_bin : forall o t f, In (KBin o t, f) wasm_code ->
  forall ra rb, canon t ra -> canon t rb ->
  forall v, ref (KBin o t) [denote t ra; denote t rb] = Some v ->
  forall m brk, exists r, wexec f [ra; rb] m brk = Some r /\ canonV (resty (KBin o t)) r /\ denoteV (resty (KBin o t)) r = v.
Proof.
  intros o t f Hin ra rb Ha Hb v Hv m brk.
  apply (isel_wasm_sound _ _ Hin [ra; rb]); [constructor; [exact Ha|constructor; [exact Hb|constructor]]|exact Hv].
Qed.

(* Both back ends agree: for every row present in both tables and all canonical operands on which the reference is
   defined, the two code sequences return the very same register word (class w <-> i32, class l <-> i64), which
   denotes the reference value. *)
Theorem isel_agree : forall k fq fw, In (k, fq) qbe_code -> In (k, fw) wasm_code ->
  forall rs, Forall2 canonV (argtys k) rs ->
  forall v, ref k (denotes (argtys k) rs) = Some v ->
  forall mq sp mw brk, exists r, qexec fq rs mq sp = Some r /\ wexec fw rs mw brk = Some r
                                 /\ canonV (resty k) r /\ denoteV (resty k) r = v.
Proof.
  intros k fq fw Hq Hw rs HF v Hv mq sp mw brk.
  destruct (isel_qbe_sound k fq Hq rs HF v Hv mq sp) as (r1 & E1 & C1 & D1).
  destruct (isel_wasm_sound k fw Hw rs HF v Hv mw brk) as (r2 & E2 & C2 & D2).
  assert (r2 = r1) by (apply (canonV_inj (resty k)); [assumption|assumption|congruence]). subst r2.
  exists r1. auto.
Qed.

(* completeness of the regenerated tables: every expected row is present (so the theorems are not vacuous) *)
Theorem isel_tables_cover : covers qbe_code = true /\ covers wasm_code = true.
Proof. split; vm_compute; reflexivity. Qed.

Theorem isel_nonvacuous :
  (exists f, find_key (KBin Div I8) qbe_code = Some f /\ canon I8 (encode I8 (-128)) /\ canon I8 (encode I8 2) /\
             qexec f [encode I8 (-128); encode I8 2] zero_mem 0 = Some (encode I8 (-64))) /\
  (exists f, find_key (KCast I64 U16) wasm_code = Some f /\ canon I64 (encode I64 (-1)) /\
             wexec f [encode I64 (-1)] zero_mem 0 = Some 65535).
Proof.
  split; eexists; (split; [vm_compute; reflexivity|]); repeat split; vm_compute; try reflexivity; congruence.
Qed.

Print Assumptions isel_qbe_sound.
Print Assumptions isel_wasm_sound.
Print Assumptions isel_agree.
Print Assumptions isel_tables_cover.
Print Assumptions isel_nonvacuous.
