(* C15 — exactness of the order validator used on the implementation's answers, and the concrete examples. *)
From Coq Require Import List Arith Bool ZArith Lia Permutation.
Import ListNotations.
From FV Require Import Models.DepGraph Proofs.DepGraphP Proofs.DepGraphRun.

Lemma nodup_b_iff l : nodup_b l = true <-> NoDup l.
Proof.
  induction l as [|x l IH]; simpl.
  - split; [constructor | reflexivity].
  - rewrite andb_true_iff, negb_true_iff, mem_false, IH. split.
    + intros [H1 H2]. constructor; assumption.
    + intros H. inversion H; subst. split; assumption.
Qed.

Theorem topo_valid_b_iff g mods order :
  topo_valid_b g mods order = true <-> topo_valid g mods order.
Proof.
  unfold topo_valid_b, topo_valid.
  rewrite !andb_true_iff, nodup_b_iff, !forallb_forall. split.
  - intros [[[Hn H1] H2] H3]. split; [exact Hn|]. split.
    + intros m. split; intros Hm; apply mem_In; [apply H1 | apply H2]; exact Hm.
    + intros u v He. specialize (H3 (u, v) He). simpl in H3. apply Nat.ltb_lt. exact H3.
  - intros (Hn & H1 & H2). split; [split; [split; [exact Hn|] |] |].
    + intros m Hm. apply mem_In. apply H1. exact Hm.
    + intros m Hm. apply mem_In. apply H1. exact Hm.
    + intros [u v] He. simpl. apply Nat.ltb_lt. apply H2. exact He.
Qed.

Theorem nonvacuous :
  let dag := [(2,3); (0,1); (1,3); (0,2); (0,1)] in
  acyclic dag /\ snd (run [] dag) = [Ok; Ok; Ok; Ok; Ok] /\
  topo (fst (run [] dag)) [0;1;2;3] = [3;1;2;0] /\
  cyclic (dag ++ [(3,0)]) /\
  snd (run [] ((3,0) :: dag)) = [Ok; Ok; Ok; ErrCycle [1;3;0;1]; ErrCycle [0;2;3;0]; Ok] /\
  snd (run [] [(5,5)]) = [ErrCycle [5;5]].
Proof.
  cbv zeta. split; [|split; [|split; [|split; [|split]]]].
  - intros Hc. apply cyclic_b_iff in Hc. vm_compute in Hc. discriminate.
  - vm_compute. reflexivity.
  - vm_compute. reflexivity.
  - apply cyclic_b_iff. vm_compute. reflexivity.
  - vm_compute. reflexivity.
  - vm_compute. reflexivity.
Qed.

Lemma topo_drops_example : topo [(0, 1)] [0] = [] /\ topo [(0, 1)] [0; 1] = [1; 0].
Proof. split; vm_compute; reflexivity. Qed.
