(* C17 — refinement of the ported hash map to std++ `gmap`, for every operation history and every hash function. *)
From stdpp Require Import gmap.
From Coq Require Import ZArith.
From FV Require Import Models.MapRt Proofs.MapRtP.

Lemma map_is_fmap {A B} (f : A -> B) (l : list A) : List.map f l = f <$> l.
Proof. induction l as [|x l IH]; simpl; [reflexivity|]. rewrite IH. reflexivity. Qed.

Section Refine.
Context `{Countable K} {V : Type}.
Variable eqb : K -> K -> bool.
Variable hash : K -> Z.
Hypothesis eqb_spec : forall a b, eqb a b = true <-> a = b.

Notation mapt := (map_t K V).
Notation mget := (map_get K V eqb hash).
Notation mset := (map_set K V eqb hash).
Notation minv := (minv K V hash).

(* the refinement relation: invariant + pointwise agreement of lookups *)
Definition R (m : mapt) (g : gmap K V) : Prop := minv m /\ forall k, mget m k = g !! k.

(* ---- specification: the same history on a gmap *)
Definition ins (g : gmap K V) (p : K * V) : gmap K V := <[p.1 := p.2]> g.

Definition spec_step (g : gmap K V) (o : op K V) : gmap K V * res K V :=
  match o with
  | ONew => (∅, RUnit)
  | OFromPairs ps => (fold_left ins ps ∅, RUnit)
  | OSet k v => (<[k := v]> g, RUnit)
  | OGet k => (g, RGet (g !! k))
  | OHas k => (g, RBool (match g !! k with Some _ => true | None => false end))
  | OSize => (g, RSize (Z.of_nat (size g)))
  | OIter => (g, RIter (map_to_list g))
  end.
Fixpoint spec_run (g : gmap K V) (ops : list (op K V)) : list (res K V) :=
  match ops with
  | [] => []
  | o :: t => let '(g', r) := spec_step g o in r :: spec_run g' t
  end.

(* results agree; an iteration sequence agrees up to order *)
Definition res_equiv (a b : res K V) : Prop :=
  match a, b with
  | RIter l1, RIter l2 => l1 ≡ₚ l2
  | RIter _, _ | _, RIter _ => False
  | _, _ => a = b
  end.

Lemma R_new : R map_new ∅.
Proof.
  split; [apply new_inv|]. intros k. rewrite get_new, lookup_empty. reflexivity.
Qed.

Lemma R_set m g k v : R m g -> R (mset m k v) (<[k := v]> g).
Proof.
  intros [Hi Hg]. split; [apply set_inv; assumption|].
  intros k'. rewrite (get_set K V eqb hash eqb_spec) by assumption.
  destruct (eqb k k') eqn:E.
  - apply eqb_spec in E. subst. rewrite lookup_insert. reflexivity.
  - rewrite lookup_insert_ne; [apply Hg|]. intros ->. rewrite (eqb_refl K eqb eqb_spec) in E. discriminate.
Qed.

Lemma R_fold ps : forall m g, R m g ->
  R (fold_left (fun m p => mset m (fst p) (snd p)) ps m) (fold_left ins ps g).
Proof.
  induction ps as [|p ps IH]; intros m g HR; simpl; [assumption|].
  apply IH. apply R_set. assumption.
Qed.

Lemma R_from_pairs ps : R (map_from_pairs K V eqb hash ps) (fold_left ins ps ∅).
Proof.
  rewrite from_pairs_unfold. apply R_fold.
  destruct (from_pairs_start_spec K V eqb hash eqb_spec ps) as [Hi Hg].
  split; [assumption|]. intros k. rewrite Hg, lookup_empty. reflexivity.
Qed.

Lemma R_kvs m g : R m g -> kvs K V m ≡ₚ map_to_list g.
Proof.
  intros [Hi Hg]. apply NoDup_Permutation.
  - apply (NoDup_fmap_1 fst). rewrite <- map_is_fmap. apply NoDup_ListNoDup. apply (kvs_nodup_keys K V hash). assumption.
  - apply NoDup_map_to_list.
  - intros [k v]. rewrite elem_of_list_In, (mem_get K V eqb hash eqb_spec m k v Hi), Hg, elem_of_map_to_list.
    reflexivity.
Qed.

Lemma R_size m g : R m g -> map_size K V m = Z.of_nat (size g).
Proof.
  intros HR. rewrite (size_spec K V hash) by apply HR.
  rewrite (Permutation_length (R_kvs m g HR)). reflexivity.
Qed.

Lemma R_iter m g : R m g -> map_iterate K V m ≡ₚ map_to_list g.
Proof.
  intros HR. rewrite (iterate_spec K V hash) by apply HR. apply R_kvs. assumption.
Qed.

Lemma step_refines m g o : R m g \/ o = ONew \/ (exists ps, o = OFromPairs ps) ->
  R (step K V eqb hash m o).1 (spec_step g o).1 /\ res_equiv (step K V eqb hash m o).2 (spec_step g o).2.
Proof.
  intros HR. destruct o as [|ps|k v|k|k| |]; simpl.
  - split; [apply R_new|reflexivity].
  - split; [apply R_from_pairs|reflexivity].
  - destruct HR as [HR|[HR|[ps HR]]]; try discriminate. split; [apply R_set; assumption|reflexivity].
  - destruct HR as [HR|[HR|[ps HR]]]; try discriminate. split; [assumption|]. destruct HR as [_ Hg]. rewrite Hg. reflexivity.
  - destruct HR as [HR|[HR|[ps HR]]]; try discriminate. split; [assumption|]. destruct HR as [_ Hg].
    unfold map_has. rewrite Hg. reflexivity.
  - destruct HR as [HR|[HR|[ps HR]]]; try discriminate. split; [assumption|]. rewrite (R_size m g HR). reflexivity.
  - destruct HR as [HR|[HR|[ps HR]]]; try discriminate. split; [assumption|]. apply R_iter. assumption.
Qed.

Lemma run_refines ops : forall m g, R m g -> Forall2 res_equiv (run K V eqb hash m ops) (spec_run g ops).
Proof.
  induction ops as [|o ops IH]; intros m g HR; simpl; [constructor|].
  destruct (step_refines m g o (or_introl HR)) as [H1 H2].
  destruct (step K V eqb hash m o) as [m' r]. destruct (spec_step g o) as [g' r'].
  constructor; [assumption|]. apply IH. assumption.
Qed.

(* a history starts with a constructor (new or from_pairs); the previous contents of the variable do not matter *)
Definition is_ctor (o : op K V) : Prop := o = ONew \/ exists ps, o = OFromPairs ps.

Theorem map_refines m0 g0 o ops : is_ctor o ->
  Forall2 res_equiv (run K V eqb hash m0 (o :: ops)) (spec_run g0 (o :: ops)).
Proof.
  intros Hc. simpl.
  destruct (step_refines m0 g0 o (or_intror Hc)) as [H1 H2].
  destruct (step K V eqb hash m0 o) as [m' r]. destruct (spec_step g0 o) as [g' r'].
  constructor; [assumption|]. apply run_refines. assumption.
Qed.

(* the state reached by any history refines the gmap reached by the spec *)
Fixpoint spec_final (g : gmap K V) (ops : list (op K V)) : gmap K V :=
  match ops with [] => g | o :: t => spec_final (spec_step g o).1 t end.

Lemma final_refines ops : forall m g, R m g -> R (final K V eqb hash m ops) (spec_final g ops).
Proof.
  induction ops as [|o ops IH]; intros m g HR; simpl; [assumption|].
  apply IH. apply (step_refines m g o (or_introl HR)).
Qed.

Theorem final_refines_ctor m0 g0 o ops : is_ctor o ->
  R (final K V eqb hash m0 (o :: ops)) (spec_final g0 (o :: ops)).
Proof.
  intros Hc. simpl. apply final_refines. apply (step_refines m0 g0 o (or_intror Hc)).
Qed.

(* consequences in the words of the property *)
Theorem iter_once m g : R m g ->
  NoDup (map_iterate K V m).*1 /\
  (forall k v, (k, v) ∈ map_iterate K V m <-> mget m k = Some v) /\
  Z.of_nat (length (map_iterate K V m)) = map_size K V m.
Proof.
  intros HR. pose proof (R_iter m g HR) as Hp. split; [|split].
  - rewrite Hp. apply NoDup_fst_map_to_list.
  - intros k v. rewrite Hp, elem_of_map_to_list. destruct HR as [_ Hg]. rewrite Hg. reflexivity.
  - rewrite (R_size m g HR), (Permutation_length Hp). reflexivity.
Qed.

Theorem size_distinct m g : R m g -> map_size K V m = Z.of_nat (size (dom g)).
Proof.
  intros HR. rewrite (R_size m g HR), size_dom. reflexivity.
Qed.

End Refine.
