(* C20 — file level: the reader applied to the writer's output returns the written tables. *)
From Coq Require Import ZArith List Bool Lia.
From FV Require Import Models.Toml Proofs.TomlBasics Proofs.TomlLine.
Import ListNotations.
Open Scope Z_scope.

Definition rest6 : list bytes := Eval compute in tl section_order.

Lemma section_order_eq : section_order = s_default :: rest6.
Proof. reflexivity. Qed.

Lemma assoc_notin {A} s (d : list (bytes * A)) : ~ In s (map fst d) -> assoc s d = None.
Proof.
  induction d as [|[s' t] d IH]; simpl; auto. intros H.
  rewrite beq_neq by (intros ->; apply H; left; auto). apply IH. intros X. apply H. right. auto.
Qed.

Lemma assoc_last {A} s (t : A) d : ~ In s (map fst d) -> assoc s (d ++ [(s, t)]) = Some t.
Proof.
  induction d as [|[s' t'] d IH]; simpl; intros H.
  - rewrite beq_refl. reflexivity.
  - rewrite beq_neq by (intros ->; apply H; left; auto). apply IH. intros X. apply H. right. auto.
Qed.

Lemma split_concat ls : Forall (fun l => ~ In 10 l) ls ->
  split_lines (concat (map (fun l => l ++ [10]) ls)) = ls ++ [[]].
Proof.
  induction 1 as [|l ls Hl _ IH]; [reflexivity|].
  cbn [map concat]. rewrite <- app_assoc. cbn [app]. rewrite split_lines_app by auto. rewrite IH. reflexivity.
Qed.

Section File.
Variable F : Type.
Variable fmt_f : F -> bytes.
Variable parse_f : bytes -> option F.
Variable fin : F -> Prop.
Hypothesis Hnum : forall x, fin x -> Forall num_byte (fmt_f x) /\ fmt_f x <> [].
Hypothesis Hrt : forall x, fin x -> parse_f (fmt_f x) = Some x.
Hypothesis Hrt0 : forall x, fin x -> ~ In 46 (fmt_f x) -> parse_f (fmt_f x ++ s_dot0) = Some x.

Notation value := (value F).
Notation table := (table F).
Notation data := (data F).
Notation parse_line := (parse_line F parse_f).
Notation parse_lines := (parse_lines F parse_f).
Notation value_ok := (value_ok F fin).
Notation kv_line := (kv_line F fmt_f).

Definition table_ok (t : table) : Prop :=
  NoDup (map fst t) /\ Forall (fun kv => key_ok (fst kv) /\ value_ok (snd kv)) t.
Definition cm_ok (cm : comments) : Prop := forall s k c, cm s k = Some c -> cmt_ok c.
(* the writable domain: every table the writer will look at is well formed *)
Definition writable (d : data) : Prop := forall s t, assoc s d = Some t -> table_ok t.

Variable cm : comments.
Hypothesis Hcm : cm_ok cm.

Definition kvl (s : bytes) (kv : bytes * value) : bytes := kv_line (fst kv) (snd kv) (cm s (fst kv)).

Lemma write_kv_line s kv : write_kv F fmt_f cm s kv = kvl s kv ++ [10].
Proof. unfold write_kv, kvl, TomlLine.kv_line. rewrite <- !app_assoc. reflexivity. Qed.

Lemma kvl_nolf s kv : key_ok (fst kv) /\ value_ok (snd kv) -> ~ In 10 (kvl s kv).
Proof.
  intros [Hk Hv]. apply (kv_line_nolf F fmt_f parse_f fin Hnum Hrt Hrt0); auto.
  destruct (cm s (fst kv)) eqn:E; auto. eapply Hcm; eauto.
Qed.

Lemma parse_lines_app l1 l2 st :
  parse_lines (l1 ++ l2) st = match parse_lines l1 st with Some st' => parse_lines l2 st' | None => None end.
Proof.
  revert st; induction l1 as [|l l1 IH]; intros st; cbn [app Toml.parse_lines]; auto.
  destruct (parse_line st l); auto.
Qed.

Lemma tset_fresh k v (t : table) : ~ In k (map fst t) -> tset F k v t = t ++ [(k, v)].
Proof.
  induction t as [|[k' v'] t IH]; simpl; auto. intros H.
  rewrite beq_neq by (intros ->; apply H; left; auto). rewrite IH; auto.
Qed.

Lemma dset_last s k v (d : data) t0 : ~ In s (map fst d) ->
  dset F s k v (d ++ [(s, t0)]) = d ++ [(s, tset F k v t0)].
Proof.
  induction d as [|[s' t'] d IH]; simpl; intros H.
  - rewrite beq_refl. reflexivity.
  - rewrite beq_neq by (intros ->; apply H; left; auto). rewrite IH; auto.
Qed.

Lemma ensure_present s (d : data) t0 : ~ In s (map fst d) -> ensure F s (d ++ [(s, t0)]) = d ++ [(s, t0)].
Proof. intros H. unfold ensure. rewrite assoc_last by auto. reflexivity. Qed.

(* the key/value lines of one table, read in a state whose current section is that table's *)
Lemma parse_table_lines s cur : effective cur = s ->
  forall (t t0 : table) (d0 : data), ~ In s (map fst d0) -> NoDup (map fst (t0 ++ t)) ->
  Forall (fun kv => key_ok (fst kv) /\ value_ok (snd kv)) t ->
  parse_lines (map (kvl s) t) (d0 ++ [(s, t0)], cur) = Some (d0 ++ [(s, t0 ++ t)], cur).
Proof.
  intros Hs. subst s. induction t as [|[k v] t IH]; intros t0 d0 Hd Hnd Hok.
  - rewrite app_nil_r. reflexivity.
  - inversion Hok as [|? ? [Hk Hv] Hok']; subst. cbn [map Toml.parse_lines]. unfold kvl at 1. cbn [fst snd] in *.
    rewrite (parse_kv_line F fmt_f parse_f fin Hnum Hrt Hrt0); auto.
    2:{ destruct (cm (effective cur) k) eqn:E; auto. eapply Hcm; eauto. }
    rewrite ensure_present, dset_last by auto.
    rewrite tset_fresh.
    + replace (t0 ++ (k, v) :: t) with ((t0 ++ [(k, v)]) ++ t) by (rewrite <- app_assoc; reflexivity).
      apply IH; auto. rewrite <- app_assoc. exact Hnd.
    + rewrite map_app in Hnd. simpl in Hnd. apply NoDup_remove_2 in Hnd. intros X. apply Hnd. apply in_or_app. auto.
Qed.

Definition header_ok (s : bytes) : Prop :=
  (forall d cur, parse_line (d, cur) (91 :: s ++ [93]) = Some (ensure F s d, s)) /\ s <> [] /\ beq s s_default = false /\ ~ In 10 s.

Definition sec_lines (s : bytes) (t : table) : list bytes := [] :: (91 :: s ++ [93]) :: map (kvl s) t.

Lemma parse_sec_lines s t (d0 : data) cur : header_ok s -> ~ In s (map fst d0) -> table_ok t ->
  parse_lines (sec_lines s t) (d0, cur) = Some (d0 ++ [(s, t)], s).
Proof.
  intros (Hh & Hne & _) Hd [Hnd Hok]. unfold sec_lines. cbn [Toml.parse_lines].
  change (parse_line (d0, cur) []) with (Some (d0, cur)). cbv iota. rewrite Hh.
  unfold ensure. rewrite assoc_notin by auto.
  apply (parse_table_lines s s); auto. destruct s; [contradiction | reflexivity].
Qed.

Definition def_lines (t : table) : list bytes := map (kvl s_default) t.

Lemma parse_def_lines t : table_ok t ->
  parse_lines (def_lines t) ([], []) = Some (match t with [] => [] | _ => [(s_default, t)] end, []).
Proof.
  intros [Hnd Hok]. destruct t as [|[k v] t]; [reflexivity|].
  inversion Hok as [|? ? [Hk Hv] Hok']; subst. unfold def_lines. cbn [map Toml.parse_lines]. unfold kvl at 1. cbn [fst snd] in *.
  rewrite (parse_kv_line F fmt_f parse_f fin Hnum Hrt Hrt0); auto.
  2:{ destruct (cm s_default k) eqn:E; auto. eapply Hcm; eauto. }
  change (effective []) with s_default.
  change (dset F s_default k v (ensure F s_default [])) with ([] ++ [(s_default, [(k, v)])] : data).
  apply (parse_table_lines s_default [] eq_refl t [(k, v)] []); auto.
Qed.

Definition sec_block (d : data) (s : bytes) : list bytes :=
  match assoc s d with Some t => sec_lines s t | None => [] end.
Definition sec_entry (d : data) (s : bytes) : data :=
  match assoc s d with Some t => [(s, t)] | None => [] end.

Lemma parse_sections (d : data) : writable d -> forall ord acc cur, NoDup ord -> Forall header_ok ord ->
  (forall s, In s ord -> ~ In s (map fst acc)) ->
  exists cur', parse_lines (flat_map (sec_block d) ord) (acc, cur) = Some (acc ++ flat_map (sec_entry d) ord, cur').
Proof.
  intros Hw. induction ord as [|s ord IH]; intros acc cur Hnd Hh Hacc.
  - exists cur. cbn. rewrite app_nil_r. reflexivity.
  - inversion Hnd; subst. inversion Hh; subst. cbn [flat_map]. rewrite parse_lines_app.
    unfold sec_block at 1, sec_entry at 1. destruct (assoc s d) as [t|] eqn:E.
    + rewrite parse_sec_lines; auto; [| apply Hacc; left; auto | eapply Hw; eauto].
      destruct (IH (acc ++ [(s, t)]) s) as [cur' Hc]; auto.
      { intros s' Hin. rewrite map_app. simpl. intros X. apply in_app_or in X. destruct X as [X|[X|[]]].
        - apply (Hacc s'); auto. right; auto.
        - subst. contradiction. }
      exists cur'. rewrite Hc. rewrite <- app_assoc. reflexivity.
    + cbn [Toml.parse_lines app]. apply IH; auto. intros s' Hin. apply Hacc. right; auto.
Qed.

(* the lines the writer emits *)
Definition all_lines (d : data) : list bytes :=
  match assoc s_default d with Some t => def_lines t | None => [] end ++ flat_map (sec_block d) rest6.

(* what the reader returns: the known sections in the writer's order; an empty default table leaves no trace *)
Definition canon (d : data) : data :=
  match assoc s_default d with Some (kv :: t) => [(s_default, kv :: t)] | _ => [] end ++ flat_map (sec_entry d) rest6.

Lemma concat_nl_app (l1 l2 : list bytes) :
  concat (map (fun l => l ++ [10]) (l1 ++ l2)) = concat (map (fun l => l ++ [10]) l1) ++ concat (map (fun l => l ++ [10]) l2).
Proof. rewrite map_app, concat_app. reflexivity. Qed.

Lemma write_table_lines s (t : table) :
  concat (map (write_kv F fmt_f cm s) t) = concat (map (fun l => l ++ [10]) (map (kvl s) t)).
Proof. induction t as [|kv t IH]; cbn [map concat]; auto. rewrite write_kv_line, IH. reflexivity. Qed.

Lemma write_sections (d : data) ord : Forall header_ok ord ->
  concat (map (fun s => match assoc s d with Some t => write_section F fmt_f cm s t | None => [] end) ord)
  = concat (map (fun l => l ++ [10]) (flat_map (sec_block d) ord)).
Proof.
  induction 1 as [|s ord (_ & _ & Hs & _) _ IH]; [reflexivity|].
  cbn [map concat flat_map]. rewrite concat_nl_app, IH. f_equal.
  unfold sec_block. destruct (assoc s d) as [t|]; [| reflexivity].
  unfold write_section, sec_lines. rewrite Hs. cbn [map concat]. rewrite write_table_lines.
  cbn [app]. rewrite <- !app_assoc. reflexivity.
Qed.

Lemma rest6_ok : Forall header_ok rest6.
Proof.
  unfold rest6, header_ok. repeat (apply Forall_cons; [split; [intros; reflexivity | split; [discriminate | split; [reflexivity | simpl; intuition discriminate]]] |]).
  apply Forall_nil.
Qed.

Lemma rest6_nodup : NoDup rest6.
Proof.
  unfold rest6. repeat (apply NoDup_cons; [simpl; intuition discriminate |]). apply NoDup_nil.
Qed.

Lemma write_all_lines (d : data) : write F fmt_f cm d = concat (map (fun l => l ++ [10]) (all_lines d)).
Proof.
  unfold write. rewrite section_order_eq. cbn [map concat]. unfold all_lines. rewrite concat_nl_app.
  rewrite (write_sections d rest6 rest6_ok). f_equal.
  destruct (assoc s_default d) as [t|]; [| reflexivity].
  unfold write_section. rewrite beq_refl. cbn [app]. apply write_table_lines.
Qed.

Lemma all_lines_nolf (d : data) : writable d -> Forall (fun l => ~ In 10 l) (all_lines d).
Proof.
  intros Hw. unfold all_lines. apply Forall_app. split.
  - destruct (assoc s_default d) as [t|] eqn:E; [| constructor].
    destruct (Hw _ _ E) as [_ Hok]. unfold def_lines. apply Forall_map. eapply Forall_impl; [| exact Hok].
    intros kv. apply kvl_nolf.
  - apply Forall_flat_map. pose proof rest6_ok as R. eapply Forall_impl; [| exact R].
    intros s (_ & _ & _ & Hs10). unfold sec_block. destruct (assoc s d) as [t|] eqn:E; [| constructor].
    destruct (Hw _ _ E) as [_ Hok]. unfold sec_lines.
    constructor; [intros []|]. constructor.
    + intros X. destruct X as [X|X]; [discriminate|]. apply in_app_or in X. destruct X as [X|[X|[]]]; [auto | discriminate].
    + apply Forall_map. eapply Forall_impl; [| exact Hok]. intros kv. apply kvl_nolf.
Qed.


Lemma rest6_not_default s : In s rest6 -> s <> s_default.
Proof.
  intros H E. pose proof rest6_ok as R. rewrite Forall_forall in R. destruct (R s H) as (_ & _ & B & _).
  subst. rewrite beq_refl in B. discriminate.
Qed.

Lemma finish_parse (st0 : data * bytes) L (X : data) cur' : parse_lines L st0 = Some (X, cur') ->
  match (match parse_lines L st0 with Some st' => parse_lines [[]] st' | None => None end) with
  | Some (d0, _) => Some d0 | None => None end = Some X.
Proof. intros ->. reflexivity. Qed.

(* MAIN: reading what the writer wrote gives back the written tables (in the writer's section order) *)
Theorem roundtrip (d : data) : writable d -> parse_file F parse_f (write F fmt_f cm d) = Some (canon d).
Proof.
  intros Hw. unfold parse_file. rewrite write_all_lines. rewrite split_concat by (apply all_lines_nolf; auto).
  rewrite parse_lines_app. unfold all_lines at 1. rewrite parse_lines_app. unfold canon.
  destruct (assoc s_default d) as [t|] eqn:E.
  - rewrite (parse_def_lines t (Hw _ _ E)). cbv beta iota. destruct t as [|kv t']; cbv iota.
    + destruct (parse_sections d Hw rest6 [] [] rest6_nodup rest6_ok) as [cur' Hc]; [intros s _ []|].
      eapply finish_parse. exact Hc.
    + destruct (parse_sections d Hw rest6 [(s_default, kv :: t')] [] rest6_nodup rest6_ok) as [cur' Hc].
      { intros s Hin. simpl. intros [X|[]]. apply (rest6_not_default s Hin). auto. }
      eapply finish_parse. exact Hc.
  - cbn [Toml.parse_lines].
    destruct (parse_sections d Hw rest6 [] [] rest6_nodup rest6_ok) as [cur' Hc]; [intros s _ []|].
    eapply finish_parse. exact Hc.
Qed.

(* canon d is d itself as a map, provided only known sections occur and the default table is not empty *)
Lemma assoc_flat_entry (d : data) ord s : NoDup ord ->
  assoc s (flat_map (sec_entry d) ord) = if existsb (beq s) ord then assoc s d else None.
Proof.
  induction ord as [|s' ord IH]; intros Hnd; [reflexivity|]. inversion Hnd; subst.
  cbn [flat_map existsb]. unfold sec_entry at 1. destruct (beq s s') eqn:E.
  - apply beq_eq in E. subst s'. cbn [orb]. destruct (assoc s d) as [t|] eqn:Ea.
    + cbn [app assoc]. rewrite beq_refl. reflexivity.
    + cbn [app]. rewrite IH by auto. destruct (existsb (beq s) ord); auto.
  - cbn [orb]. destruct (assoc s' d) as [t|]; cbn [app assoc]; [rewrite E|]; apply IH; auto.
Qed.

Definition known_sections (d : data) : Prop := forall s, In s (map fst d) -> In s section_order.
Definition default_not_empty (d : data) : Prop := assoc s_default d <> Some [].

Lemma existsb_beq_In s l : existsb (beq s) l = true <-> In s l.
Proof.
  rewrite existsb_exists. split.
  - intros (x & Hx & E). apply beq_eq in E. subst. auto.
  - intros H. exists s. split; auto. apply beq_refl.
Qed.

Theorem canon_same_map (d : data) : known_sections d -> default_not_empty d ->
  forall s, assoc s (canon d) = assoc s d.
Proof.
  intros Hk Hne s. unfold canon.
  destruct (beq s s_default) eqn:E.
  - apply beq_eq in E. subst s. destruct (assoc s_default d) as [[|kv t]|] eqn:Ea.
    + exfalso. apply Hne. auto.
    + cbn [app assoc]. rewrite beq_refl. reflexivity.
    + cbn [app]. rewrite assoc_flat_entry by apply rest6_nodup. rewrite Ea. destruct (existsb _ _); auto.
  - assert (Htail : assoc s (flat_map (sec_entry d) rest6) = assoc s d).
    { rewrite assoc_flat_entry by apply rest6_nodup.
      destruct (existsb (beq s) rest6) eqn:Ex; auto.
      symmetry. apply assoc_notin. intros Hin. apply Hk in Hin. rewrite section_order_eq in Hin.
      destruct Hin as [Hin|Hin].
      + subst. rewrite beq_refl in E. discriminate.
      + apply existsb_beq_In in Hin. congruence. }
    destruct (assoc s_default d) as [[|kv t]|]; cbn [app assoc]; rewrite ?E; exact Htail.
Qed.

End File.
