(* C12 — lemmas about Models/Vis.v *)
From Coq Require Import List String Ascii Bool ZArith Arith Lia.
From FV Require Import Models.Vis.
Import ListNotations.
Open Scope string_scope.

(* ---------------------------------------------------------------- IsCapitalized *)
Lemma is_capitalized_spec s :
  is_capitalized s = true <-> exists c tl, s = String c tl /\ (65 <= nat_of_ascii c <= 90)%nat.
Proof.
  destruct s as [|c tl]; unfold is_capitalized.
  - split; [discriminate | intros (c & tl & H & _); discriminate].
  - rewrite andb_true_iff, !Nat.leb_le. split.
    + intros [H1 H2]. exists c, tl. split; [reflexivity | lia].
    + intros (c' & tl' & H & H1). inversion H; subst. lia.
Qed.

(* ---------------------------------------------------------------- every visibility diagnostic names a lowercase name *)
Definition wf_err (e : verr) : Prop :=
  match e with
  | VNotExported _ n => exported n = false
  | VPrivateField f => exported f = false
  | _ => True
  end.

Lemma Forall_app2 (A : Type) (Q : A -> Prop) l1 l2 : Forall Q l1 -> Forall Q l2 -> Forall Q (l1 ++ l2).
Proof. intros. apply Forall_app. split; assumption. Qed.

Lemma static_access_wf P imps m n : Forall wf_err (static_access P imps m n).
Proof.
  unfold static_access.
  destruct (assoc m imps) as [path|]; [|repeat constructor].
  destruct (lookup_mod P path) as [M|]; [|repeat constructor].
  destruct (declares M n); [|repeat constructor].
  destruct (exported n) eqn:E; [constructor|].
  constructor; [exact E | constructor].
Qed.

Lemma chk_ty_wf P imps t : Forall wf_err (chk_ty P imps t).
Proof.
  induction t; simpl; try constructor; auto using static_access_wf, Forall_app2.
Qed.

Lemma chk_oty_wf P imps o : Forall wf_err (chk_oty P imps o).
Proof. destruct o; simpl; [apply chk_ty_wf | constructor]. Qed.

Lemma chk_params_wf P imps ps : Forall wf_err (chk_params P imps ps).
Proof.
  unfold chk_params. induction ps; simpl; [constructor|].
  apply Forall_app2; [apply chk_ty_wf | assumption].
Qed.

Lemma field_rule_wf r b f : Forall wf_err (field_rule r b f).
Proof.
  unfold field_rule. destruct (exported f) eqn:E; [constructor|].
  destruct (is_recv r b); [constructor|].
  constructor; [exact E | constructor].
Qed.

Scheme expr_mut := Induction for expr Sort Prop
with stmt_mut := Induction for stmt Sort Prop.
Combined Scheme expr_stmt_ind from expr_mut, stmt_mut.

Lemma chk_wf P imps :
  (forall e r, Forall wf_err (chk_e P imps r e)) /\ (forall s r, Forall wf_err (chk_s P imps r s)).
Proof.
  apply expr_stmt_ind; intros; simpl;
    repeat (apply Forall_app2);
    auto using static_access_wf, chk_ty_wf, chk_oty_wf, chk_params_wf, field_rule_wf;
    constructor.
Qed.

Lemma chk_decl_wf P imps d : Forall wf_err (chk_decl P imps d).
Proof.
  destruct (chk_wf P imps) as [He Hs].
  destruct d; simpl; repeat (apply Forall_app2);
    auto using chk_ty_wf, chk_oty_wf, chk_params_wf.
Qed.

Lemma Forall_flat_map (A B : Type) (Q : B -> Prop) (f : A -> list B) l :
  (forall a, In a l -> Forall Q (f a)) -> Forall Q (flat_map f l).
Proof.
  induction l; simpl; intros H; [constructor|].
  apply Forall_app2; [apply H; left; reflexivity | apply IHl; intros; apply H; right; assumption].
Qed.

Lemma check_project_wf P : Forall wf_err (check_project P).
Proof.
  unfold check_project, chk_module.
  apply Forall_flat_map; intros M _. apply Forall_flat_map; intros d _. apply chk_decl_wf.
Qed.

(* ---------------------------------------------------------------- syntactic positions: the step relation *)
Inductive node : Type := NE (e : expr) | NS (s : stmt) | NT (t : ty).
Definition site := (option string * node)%type.

Inductive step : site -> site -> Prop :=
(* types *)
| T_arr r t : step (r, NT (TArr t)) (r, NT t)
| T_opt r t : step (r, NT (TOpt t)) (r, NT t)
| T_ref r t : step (r, NT (TRef t)) (r, NT t)
| T_map_k r k v : step (r, NT (TMap k v)) (r, NT k)
| T_map_v r k v : step (r, NT (TMap k v)) (r, NT v)
| T_res_v r v e : step (r, NT (TRes v e)) (r, NT v)
| T_res_e r v e : step (r, NT (TRes v e)) (r, NT e)
| T_fn_p r p q : step (r, NT (TFn p q)) (r, NT p)
| T_fn_r r p q : step (r, NT (TFn p q)) (r, NT q)
(* expressions *)
| E_sel r b f : step (r, NE (ESel b f)) (r, NE b)
| E_meth_b r b m a : step (r, NE (EMeth b m a)) (r, NE b)
| E_meth_a r b m a : step (r, NE (EMeth b m a)) (r, NE a)
| E_call_f r f a : step (r, NE (ECall f a)) (r, NE f)
| E_call_a r f a : step (r, NE (ECall f a)) (r, NE a)
| E_cons_h r a b : step (r, NE (ECons a b)) (r, NE a)
| E_cons_t r a b : step (r, NE (ECons a b)) (r, NE b)
| E_bin_l r a b : step (r, NE (EBin a b)) (r, NE a)
| E_bin_r r a b : step (r, NE (EBin a b)) (r, NE b)
| E_un r a : step (r, NE (EUn a)) (r, NE a)
| E_index_a r a b : step (r, NE (EIndex a b)) (r, NE a)
| E_index_i r a b : step (r, NE (EIndex a b)) (r, NE b)
| E_cast_e r a t : step (r, NE (ECast a t)) (r, NE a)
| E_cast_t r a t : step (r, NE (ECast a t)) (r, NT t)
| E_struct r a : step (r, NE (EStruct a)) (r, NE a)
| E_init_v r f v rest : step (r, NE (EInit f v rest)) (r, NE v)
| E_init_r r f v rest : step (r, NE (EInit f v rest)) (r, NE rest)
| E_arr r a : step (r, NE (EArr a)) (r, NE a)
| E_range_lo r a b : step (r, NE (ERange a b)) (r, NE a)
| E_range_hi r a b : step (r, NE (ERange a b)) (r, NE b)
| E_rs_lo r a b c : step (r, NE (ERangeStep a b c)) (r, NE a)
| E_rs_hi r a b c : step (r, NE (ERangeStep a b c)) (r, NE b)
| E_rs_st r a b c : step (r, NE (ERangeStep a b c)) (r, NE c)
| E_coal_a r a b : step (r, NE (ECoalesce a b)) (r, NE a)
| E_coal_b r a b : step (r, NE (ECoalesce a b)) (r, NE b)
| E_catch_a r a b : step (r, NE (ECatch a b)) (r, NE a)
| E_catch_b r a b : step (r, NE (ECatch a b)) (r, NE b)
| E_clo_p r ps rt body x t : In (x, t) ps -> step (r, NE (EClosure ps rt body)) (r, NT t)
| E_clo_r r ps rt body : step (r, NE (EClosure ps rt body)) (r, NT rt)
| E_clo_b r ps rt body : step (r, NE (EClosure ps rt body)) (kill_params r ps, NS body)
(* statements *)
| S_seq_a r a b : step (r, NS (SSeq a b)) (r, NS a)
| S_seq_b r a b : step (r, NS (SSeq a b)) (after r a, NS b)
| S_let_t r x t e : step (r, NS (SLet x (Some t) e)) (r, NT t)
| S_let_e r x t e : step (r, NS (SLet x t e)) (r, NE e)
| S_assign_l r a b : step (r, NS (SAssign a b)) (r, NE a)
| S_assign_r r a b : step (r, NS (SAssign a b)) (r, NE b)
| S_op_l r a b : step (r, NS (SOpAssign a b)) (r, NE a)
| S_op_r r a b : step (r, NS (SOpAssign a b)) (r, NE b)
| S_incr r a : step (r, NS (SIncr a)) (r, NE a)
| S_if_c r c t e : step (r, NS (SIf c t e)) (r, NE c)
| S_if_t r c t e : step (r, NS (SIf c t e)) (r, NS t)
| S_if_e r c t e : step (r, NS (SIf c t e)) (r, NS e)
| S_while_c r c b : step (r, NS (SWhile c b)) (r, NE c)
| S_while_b r c b : step (r, NS (SWhile c b)) (r, NS b)
| S_for_r r x rg b : step (r, NS (SFor x rg b)) (kill r x, NE rg)
| S_for_b r x rg b : step (r, NS (SFor x rg b)) (kill r x, NS b)
| S_match_e r e cs : step (r, NS (SMatch e cs)) (r, NE e)
| S_match_c r e cs : step (r, NS (SMatch e cs)) (r, NS cs)
| S_case_p r p b : step (r, NS (SCase p b)) (r, NE p)
| S_case_b r p b : step (r, NS (SCase p b)) (r, NS b)
| S_default r b : step (r, NS (SDefault b)) (r, NS b)
| S_return r e : step (r, NS (SReturn e)) (r, NE e)
| S_expr r e : step (r, NS (SExpr e)) (r, NE e)
| S_block r b : step (r, NS (SBlock b)) (r, NS b).

Inductive reach : site -> site -> Prop :=
| reach_refl x : reach x x
| reach_step x y z : step x y -> reach y z -> reach x z.

Lemma reach_trans x y z : reach x y -> reach y z -> reach x z.
Proof. induction 1; intros; [assumption | eapply reach_step; eauto]. Qed.

(* roots of a declaration *)
Inductive root : decl -> site -> Prop :=
| R_fn_p n ps rt body x t : In (x, t) ps -> root (DFn n ps rt body) (None, NT t)
| R_fn_r n ps rt body : root (DFn n ps rt body) (None, NT rt)
| R_fn_b n ps rt body : root (DFn n ps rt body) (None, NS body)
| R_m_recv rv rty n ps rt body : root (DMethod rv rty n ps rt body) (None, NT rty)
| R_m_p rv rty n ps rt body x t : In (x, t) ps -> root (DMethod rv rty n ps rt body) (None, NT t)
| R_m_r rv rty n ps rt body : root (DMethod rv rty n ps rt body) (None, NT rt)
| R_m_b rv rty n ps rt body : root (DMethod rv rty n ps rt body) (Some rv, NS body)
| R_const_t n t e : root (DConst n (Some t) e) (None, NT t)
| R_const_e n t e : root (DConst n t e) (None, NE e)
| R_var_t n t e : root (DVar n (Some t) e) (None, NT t)
| R_var_e n t e : root (DVar n t e) (None, NE e)
| R_type_f n fs x t : In (x, t) fs -> root (DType n fs) (None, NT t)
| R_alias n t : root (DAlias n t) (None, NT t).

Section Reach.
  Variable P : project.
  Variable imps : list (string * string).

  Definition chk_node (x : site) : list verr :=
    match snd x with
    | NE e => chk_e P imps (fst x) e
    | NS s => chk_s P imps (fst x) s
    | NT t => chk_ty P imps t
    end.

  Lemma in_chk_params x t ps z : In (x, t) ps -> In z (chk_ty P imps t) -> In z (chk_params P imps ps).
  Proof.
    intros H Hz. unfold chk_params. apply in_flat_map. exists (x, t). split; assumption.
  Qed.

  Lemma step_incl a b : step a b -> incl (chk_node b) (chk_node a).
  Proof.
    destruct 1; unfold chk_node; simpl; intros z Hz;
      repeat rewrite in_app_iff;
      try (left; eapply in_chk_params; eassumption);
      tauto.
  Qed.

  Lemma reach_incl a b : reach a b -> incl (chk_node b) (chk_node a).
  Proof.
    induction 1; [apply incl_refl|].
    eapply incl_tran; [eassumption | apply step_incl; assumption].
  Qed.

  Lemma root_incl d x : root d x -> incl (chk_node x) (chk_decl P imps d).
  Proof.
    destruct 1; unfold chk_node; simpl; intros z Hz;
      repeat rewrite in_app_iff;
      try (solve [left; eapply in_chk_params; eassumption]);
      try (solve [right; left; eapply in_chk_params; eassumption]);
      try (solve [eapply in_chk_params; eassumption]);
      tauto.
  Qed.

  (* the two forbidden forms *)
  Definition forbidden_qual (m n path : string) : Prop :=
    assoc m imps = Some path /\
    (exists M, lookup_mod P path = Some M /\ declares M n = true) /\
    exported n = false.

  Definition forbidden_sel (r : option string) (b : expr) (f : string) : Prop :=
    exported f = false /\ is_recv r b = false.

  Lemma forbidden_qual_err m n path :
    forbidden_qual m n path -> static_access P imps m n = [VNotExported path n].
  Proof.
    intros (Ha & (M & Hm & Hd) & He). unfold static_access. rewrite Ha, Hm, Hd, He. reflexivity.
  Qed.

  Lemma forbidden_sel_err r b f :
    forbidden_sel r b f -> In (VPrivateField f) (chk_e P imps r (ESel b f)).
  Proof.
    intros [He Hr]. simpl. apply in_app_iff. right. unfold field_rule. rewrite He, Hr. left. reflexivity.
  Qed.

  Lemma closure_qual_e x r m n path :
    reach x (r, NE (EQual m n)) -> forbidden_qual m n path -> In (VNotExported path n) (chk_node x).
  Proof.
    intros Hr Hf. apply (reach_incl _ _ Hr). unfold chk_node. simpl.
    rewrite (forbidden_qual_err _ _ _ Hf). left. reflexivity.
  Qed.

  Lemma closure_qual_t x r m n path :
    reach x (r, NT (TQual m n)) -> forbidden_qual m n path -> In (VNotExported path n) (chk_node x).
  Proof.
    intros Hr Hf. apply (reach_incl _ _ Hr). unfold chk_node. simpl.
    rewrite (forbidden_qual_err _ _ _ Hf). left. reflexivity.
  Qed.

  Lemma closure_sel x r b f :
    reach x (r, NE (ESel b f)) -> forbidden_sel r b f -> In (VPrivateField f) (chk_node x).
  Proof.
    intros Hr Hf. apply (reach_incl _ _ Hr). unfold chk_node. simpl fst. simpl snd.
    apply forbidden_sel_err. assumption.
  Qed.

  (* positive side *)
  Lemma exported_qual_ok m n path M :
    assoc m imps = Some path -> lookup_mod P path = Some M -> declares M n = true -> exported n = true ->
    static_access P imps m n = [].
  Proof. intros Ha Hm Hd He. unfold static_access. rewrite Ha, Hm, Hd, He. reflexivity. Qed.

  Lemma exported_sel_ok r b f : exported f = true -> chk_e P imps r (ESel b f) = chk_e P imps r b.
  Proof. intros He. simpl. unfold field_rule. rewrite He. apply app_nil_r. Qed.

  Lemma recv_sel_ok x f : chk_e P imps (Some x) (ESel (EVar x) f) = [].
  Proof. simpl. unfold field_rule. simpl. rewrite String.eqb_refl. destruct (exported f); reflexivity. Qed.

  Lemma literal_step r f v rest :
    chk_e P imps r (EStruct (EInit f v rest)) = (chk_e P imps r v ++ chk_e P imps r (EStruct rest))%list.
  Proof. reflexivity. Qed.
End Reach.

(* struct literals whose values are plain literals are accepted whatever the case of the field names *)
Fixpoint lit_inits (l : list (string * Z)) : expr :=
  match l with
  | [] => ENil
  | (f, z) :: tl => EInit f (ELit z) (lit_inits tl)
  end.

Lemma literal_ok P imps r l : chk_e P imps r (EStruct (lit_inits l)) = [].
Proof. induction l as [|[f z] tl IH]; simpl; [reflexivity | exact IH]. Qed.

(* ---------------------------------------------------------------- project level *)
Lemma in_check_project P M d z :
  In M P -> In d M.(m_decls) -> In z (chk_decl P M.(m_imports) d) -> In z (check_project P).
Proof.
  intros HM Hd Hz. unfold check_project. apply in_flat_map. exists M. split; [assumption|].
  unfold chk_module. apply in_flat_map. exists d. split; assumption.
Qed.

Lemma project_ok_false P z : In z (check_project P) -> project_ok P = false.
Proof. unfold project_ok. destruct (check_project P); [intros []| reflexivity]. Qed.

Definition access_site (P : project) (M : module) (y : site) : Prop :=
  exists d x, In M P /\ In d M.(m_decls) /\ root d x /\ reach x y.

Lemma closure_project_qual_e P M r m n path :
  access_site P M (r, NE (EQual m n)) -> forbidden_qual P M.(m_imports) m n path ->
  In (VNotExported path n) (check_project P) /\ project_ok P = false.
Proof.
  intros (d & x & HM & Hd & Hroot & Hr) Hf.
  assert (H : In (VNotExported path n) (check_project P)).
  { eapply in_check_project; try eassumption. eapply root_incl; [eassumption|].
    eapply closure_qual_e; eassumption. }
  split; [exact H | eapply project_ok_false; exact H].
Qed.

Lemma closure_project_qual_t P M r m n path :
  access_site P M (r, NT (TQual m n)) -> forbidden_qual P M.(m_imports) m n path ->
  In (VNotExported path n) (check_project P) /\ project_ok P = false.
Proof.
  intros (d & x & HM & Hd & Hroot & Hr) Hf.
  assert (H : In (VNotExported path n) (check_project P)).
  { eapply in_check_project; try eassumption. eapply root_incl; [eassumption|].
    eapply closure_qual_t; eassumption. }
  split; [exact H | eapply project_ok_false; exact H].
Qed.

Lemma closure_project_sel P M r b f :
  access_site P M (r, NE (ESel b f)) -> forbidden_sel r b f ->
  In (VPrivateField f) (check_project P) /\ project_ok P = false.
Proof.
  intros (d & x & HM & Hd & Hroot & Hr) Hf.
  assert (H : In (VPrivateField f) (check_project P)).
  { eapply in_check_project; try eassumption. eapply root_incl; [eassumption|].
    eapply closure_sel; eassumption. }
  split; [exact H | eapply project_ok_false; exact H].
Qed.

Lemma visibility_errors_lowercase P z :
  In z (check_project P) ->
  match z with
  | VNotExported _ n => is_capitalized n = false
  | VPrivateField f => is_capitalized f = false
  | _ => True
  end.
Proof.
  intros H. pose proof (check_project_wf P) as W. rewrite Forall_forall in W. apply (W z H).
Qed.

(* ---------------------------------------------------------------- concrete projects (non-vacuity) *)
Definition ex_lib : module :=
  {| m_path := "proj/lib"; m_imports := [];
     m_decls := [ DFn "secret" [] (TName "i32") (SReturn (ELit 1));
                  DFn "Open" [] (TName "i32") (SReturn (ELit 1));
                  DType "Point" [("X", TName "i32"); ("y", TName "i32")];
                  DType "hidden" [("A", TName "i32")];
                  DMethod "p" (TName "Point") "GetY" [] (TName "i32")
                          (SReturn (ECall (EClosure [] (TName "i32") (SReturn (ESel (EVar "p") "y"))) ENil)) ] |}.

Definition ex_main_bad : module :=
  {| m_path := "proj/main"; m_imports := [("lib", "proj/lib")];
     m_decls := [ DFn "main" [] TVoid (SFor "i" (ERange (ELit 0) (EQual "lib" "secret")) SSkip) ] |}.

Definition ex_main_bad_ty : module :=
  {| m_path := "proj/main"; m_imports := [("lib", "proj/lib")];
     m_decls := [ DFn "f" [("a", TArr (TQual "lib" "hidden"))] TVoid SSkip ] |}.

Definition ex_main_bad_fld : module :=
  {| m_path := "proj/main"; m_imports := [("lib", "proj/lib")];
     m_decls := [ DFn "f" [("q", TQual "lib" "Point")] TVoid (SOpAssign (ESel (EVar "q") "y") (ELit 1)) ] |}.

Definition ex_main_ok : module :=
  {| m_path := "proj/main"; m_imports := [("lib", "proj/lib")];
     m_decls := [ DFn "main" [] TVoid
                    (SSeq (SLet "a" None (ECall (EQual "lib" "Open") ENil))
                    (SSeq (SLet "q" (Some (TQual "lib" "Point")) (EStruct (EInit "X" (ELit 1) (EInit "y" (ELit 2) ENil))))
                          (SExpr (EBin (ESel (EVar "q") "X") (EMeth (EVar "q") "GetY" ENil))))) ] |}.

Lemma nonvacuous :
  (access_site [ex_lib; ex_main_bad] ex_main_bad (None, NE (EQual "lib" "secret")) /\
   forbidden_qual [ex_lib; ex_main_bad] ex_main_bad.(m_imports) "lib" "secret" "proj/lib") /\
  (access_site [ex_lib; ex_main_bad_ty] ex_main_bad_ty (None, NT (TQual "lib" "hidden")) /\
   forbidden_qual [ex_lib; ex_main_bad_ty] ex_main_bad_ty.(m_imports) "lib" "hidden" "proj/lib") /\
  (access_site [ex_lib; ex_main_bad_fld] ex_main_bad_fld (None, NE (ESel (EVar "q") "y")) /\
   forbidden_sel None (EVar "q") "y") /\
  project_ok [ex_lib; ex_main_ok] = true.
Proof.
  split; [|split; [|split]].
  - split.
    + exists (DFn "main" [] TVoid (SFor "i" (ERange (ELit 0) (EQual "lib" "secret")) SSkip)).
      eexists. split; [simpl; auto|]. split; [simpl; auto|]. split; [apply R_fn_b|].
      eapply reach_step; [apply S_for_r|]. eapply reach_step; [apply E_range_hi|]. apply reach_refl.
    + split; [reflexivity|]. split; [|reflexivity]. exists ex_lib. split; reflexivity.
  - split.
    + exists (DFn "f" [("a", TArr (TQual "lib" "hidden"))] TVoid SSkip).
      eexists. split; [simpl; auto|]. split; [simpl; auto|].
      split; [apply R_fn_p with (x := "a"); left; reflexivity|].
      eapply reach_step; [apply T_arr|]. apply reach_refl.
    + split; [reflexivity|]. split; [|reflexivity]. exists ex_lib. split; reflexivity.
  - split.
    + exists (DFn "f" [("q", TQual "lib" "Point")] TVoid (SOpAssign (ESel (EVar "q") "y") (ELit 1))).
      eexists. split; [simpl; auto|]. split; [simpl; auto|]. split; [apply R_fn_b|].
      eapply reach_step; [apply S_op_l|]. apply reach_refl.
    + split; reflexivity.
  - vm_compute. reflexivity.
Qed.
