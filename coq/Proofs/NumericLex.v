(* C10 — final statements (exported to Props/C10.v) and the lexer lemma *)
From Coq Require Import ZArith List Ascii String Bool Lia.
From FV Require Import Models.Numeric Proofs.NumericP Proofs.NumericDec Proofs.NumericMain.
Import ListNotations.
Open Scope Z_scope.

Lemma accept_exact t s : wf_lit s = true -> (accepts t s = true <-> lo t <= lit_value s <= hi t).
Proof. intros W. rewrite (accepts_wf _ _ W). apply in_range_of_spec. Qed.

Lemma value_kept t s : wf_lit s = true -> accepts t s = true -> observed t s = Some (lit_value s).
Proof. intros W A. rewrite (accepts_wf _ _ W) in A. now apply observed_wf. Qed.

Lemma checks_agree t s : wf_lit s = true -> fits_in_type s t = check_fitness t s.
Proof. intros W. now rewrite fits_in_type_wf, check_fitness_wf. Qed.

Lemma orig_refuted_leading_zero :
  exists t s, wf_lit s = true /\ accepts_orig t s = true /\ observed_orig t s <> Some (lit_value s).
Proof. exists I16, (str_of "0177"). vm_compute. repeat split. discriminate. Qed.

Lemma orig_refuted_neg_prefixed :
  exists t s, wf_lit s = true /\ lo t <= lit_value s <= hi t /\ accepts_orig t s = false.
Proof.
  exists I128, (str_of "-0x80000000000000000000000000000000"). vm_compute. repeat split; discriminate.
Qed.

Lemma nonvacuous :
  wf_lit (str_of "-0x8000_0000_0000_0000_0000_0000_0000_0000") = true /\
  accepts I128 (str_of "-0x8000_0000_0000_0000_0000_0000_0000_0000") = true /\
  observed I128 (str_of "-0x8000_0000_0000_0000_0000_0000_0000_0000") = Some (- 2 ^ 127) /\
  accepts I128 (str_of "0x8000_0000_0000_0000_0000_0000_0000_0000") = false /\
  wf_lit (str_of "0177") = true /\ accepts I16 (str_of "0177") = true /\ observed I16 (str_of "0177") = Some 177 /\
  accepts U8 (str_of "0b1_0000_0000") = false /\ accepts U8 (str_of "0o377") = true /\
  wf_lit (str_of "1__0") = false /\ wf_lit (str_of "0x_f") = false /\ wf_lit (str_of "1_") = false.
Proof. vm_compute. repeat split. Qed.

(* ------------------------------------------------------------------ lexer *)
(* text that cannot continue a number token: empty, or a first character that is no letter, digit, '_' or '.' *)
Definition is_alnum (c : ascii) : bool := in_range 48 57 c || in_range 65 90 c || in_range 97 122 c.
Definition stops (rest : str) : bool :=
  match rest with
  | [] => true
  | c :: _ => negb (is_alnum c) && negb (Ascii.eqb c c_us) && negb (Ascii.eqb c c_dot)
  end.

Lemma not_alnum_not_hex c : is_alnum c = false -> is_hex c = false.
Proof. unfold is_alnum. charb. lia. Qed.

Lemma stops_not_digit b c rest : stops (c :: rest) = true -> is_digit b c = false /\ Ascii.eqb c c_us = false.
Proof.
  cbn [stops]. intros H. apply andb_prop in H as [H _]. apply andb_prop in H as [H1 H2].
  split; [|now destruct (Ascii.eqb c c_us)].
  destruct (is_digit b c) eqn:E; [|reflexivity]. apply is_digit_hex in E.
  rewrite not_alnum_not_hex in E; [discriminate|]. now destruct (is_alnum c).
Qed.

Lemma take_tail_wf b t rest :
  wf_tail (is_digit b) t = true -> stops rest = true ->
  take_tail (is_digit b) (t ++ rest) = (t, rest).
Proof.
  intros W S. induction t as [|c t IH].
  - cbn [app]. destruct rest as [|c r]; [reflexivity|].
    destruct (stops_not_digit b _ _ S) as [D U]. cbn [take_tail]. now rewrite D, U.
  - cbn [app take_tail]. destruct (is_digit b c) eqn:Pc.
    + rewrite (wf_tail_cons_digit b _ _ Pc) in W. now rewrite (IH W).
    + cbn [wf_tail] in W. rewrite Pc in W. destruct (Ascii.eqb c c_us) eqn:U; [|discriminate].
      destruct t as [|d t']; [discriminate|]. apply andb_prop in W as [Pd W].
      cbn [app]. rewrite Pd.
      assert (wf_tail (is_digit b) (d :: t') = true) as W' by now rewrite (wf_tail_cons_digit b _ _ Pd).
      specialize (IH W'). cbn [app take_tail] in IH. rewrite Pd in IH.
      destruct (take_tail (is_digit b) (t' ++ rest)) as [a r]. inversion IH; subst. reflexivity.
Qed.

Lemma take_groups_wf b s rest :
  wf_groups (is_digit b) s = true -> stops rest = true ->
  take_groups (is_digit b) (s ++ rest) = Some (s, rest).
Proof.
  intros W S. destruct s as [|c t]; [discriminate|]. cbn [wf_groups] in W. apply andb_prop in W as [Pc W].
  cbn [app take_groups]. rewrite Pc. now rewrite (take_tail_wf b t rest W S).
Qed.

Lemma stops_no_float rest : stops rest = true -> is_frac_start rest = false /\ is_exp_start rest = false.
Proof.
  destruct rest as [|c r]; [split; reflexivity|]. cbn [stops]. intros H.
  apply andb_prop in H as [H H3]. apply andb_prop in H as [H1 H2].
  split.
  - unfold is_frac_start. destruct r; [reflexivity|]. destruct (Ascii.eqb c c_dot); [discriminate|reflexivity].
  - unfold is_exp_start.
    assert (Ascii.eqb c "e" || Ascii.eqb c "E" = false) as ->; [|reflexivity].
    destruct (Ascii.eqb_spec c "e") as [->|]; [vm_compute in H1; discriminate|].
    destruct (Ascii.eqb_spec c "E") as [->|]; [vm_compute in H1; discriminate|]. reflexivity.
Qed.

Lemma lex_body_wf r rest :
  wf_body r = true -> stops rest = true -> lex_body (r ++ rest) = (Some (r, rest), false).
Proof.
  unfold wf_body, split_base, lex_body. intros W S.
  destruct (stops_no_float _ S) as [F E].
  assert (forall r0, wf_groups is_dec r0 = true ->
            match take_groups is_dec (r0 ++ rest) with
            | Some (a, rest0) => if is_frac_start rest0 || is_exp_start rest0 then (None, true) else (Some (a, rest0), false)
            | None => (None, false)
            end = (Some (r0, rest), false)) as DecCase.
  { intros r0 W0. pose proof (take_groups_wf Dec _ _ W0 S) as T. cbn [is_digit] in T. rewrite T. now rewrite F, E. }
  destruct r as [|z [|q t]].
  - discriminate.
  - cbn [app]. destruct rest as [|c rest']; [now apply (DecCase [z])|].
    destruct (Ascii.eqb z c_zero) eqn:Hz.
    + destruct (prefix_base c) as [b|] eqn:Pb.
      * exfalso. unfold prefix_base in Pb.
        destruct (Ascii.eqb_spec c "x") as [->|]; [vm_compute in S; discriminate|].
        destruct (Ascii.eqb_spec c "X") as [->|]; [vm_compute in S; discriminate|].
        destruct (Ascii.eqb_spec c "o") as [->|]; [vm_compute in S; discriminate|].
        destruct (Ascii.eqb_spec c "O") as [->|]; [vm_compute in S; discriminate|].
        destruct (Ascii.eqb_spec c "b") as [->|]; [vm_compute in S; discriminate|].
        destruct (Ascii.eqb_spec c "B") as [->|]; [vm_compute in S; discriminate|]. cbn in Pb. discriminate.
      * now apply (DecCase [z]).
    + now apply (DecCase [z]).
  - cbn [app]. destruct (Ascii.eqb z c_zero) eqn:Hz; [|now apply (DecCase (z :: q :: t))].
    destruct (prefix_base q) as [b|] eqn:Pb; [|now apply (DecCase (z :: q :: t))].
    now rewrite (take_groups_wf b _ _ W S).
Qed.

Lemma lexed_whole s rest : wf_lit s = true -> stops rest = true -> lex_number (s ++ rest) = LexInt s rest.
Proof.
  intros W S. unfold lex_number.
  destruct (wf_lit_cases s W) as [(r & -> & Wr & _)|(c & t & -> & Hx & Wb & _)].
  - cbn [app split_sign]. change (Ascii.eqb c_minus c_minus) with true. cbn iota.
    now rewrite (lex_body_wf _ _ Wr S).
  - destruct (hex_not_special _ Hx) as (_ & M & _).
    change ((c :: t) ++ rest) with (c :: (t ++ rest)). cbn [split_sign]. rewrite M.
    change (c :: (t ++ rest)) with ((c :: t) ++ rest). now rewrite (lex_body_wf _ _ Wb S).
Qed.

(* ------------------------------------------------------------------ parsePrimary: an integer literal is never classified FLOAT *)
Lemma exp_full_prefix q b t : prefix_base q = Some b -> exp_full (q :: t) = false.
Proof.
  intros H. unfold exp_full.
  assert (Ascii.eqb q "e" || Ascii.eqb q "E" = false) as ->; [|reflexivity].
  destruct (Ascii.eqb_spec q "e") as [->|]; [discriminate|].
  destruct (Ascii.eqb_spec q "E") as [->|]; [discriminate|]. reflexivity.
Qed.

Lemma prefix_not_dec q b : prefix_base q = Some b -> is_dec q = false /\ Ascii.eqb q c_us = false /\ Ascii.eqb q c_dot = false.
Proof.
  intros H. split; [|split].
  - destruct (is_dec q) eqn:E; [|reflexivity]. rewrite (dec_prefix_none _ E) in H. discriminate.
  - exact (prefix_not_us _ _ H).
  - destruct (Ascii.eqb_spec q c_dot) as [->|]; [discriminate|reflexivity].
Qed.

Lemma float_body_wf r :
  wf_body r = true ->
  match take_groups is_dec r with
  | None => false
  | Some (_, rest) =>
      match rest with
      | [] => false
      | d :: rest1 =>
          if Ascii.eqb d c_dot
          then match take_groups is_dec rest1 with
               | Some (_, rest2) => match rest2 with [] => true | _ => exp_full rest2 end
               | None => false
               end
          else exp_full rest
      end
  end = false.
Proof.
  unfold wf_body, split_base. intros W.
  assert (forall r0, wf_groups is_dec r0 = true -> take_groups is_dec r0 = Some (r0, [])) as DecCase.
  { intros r0 W0. pose proof (take_groups_wf Dec r0 [] W0 eq_refl) as T. cbn [is_digit] in T.
    now rewrite app_nil_r in T. }
  destruct r as [|z [|q t]].
  - discriminate.
  - now rewrite (DecCase _ W).
  - destruct (Ascii.eqb z c_zero) eqn:Hz; [|now rewrite (DecCase _ W)].
    destruct (prefix_base q) as [b|] eqn:Pb; [|now rewrite (DecCase _ W)].
    destruct (prefix_not_dec _ _ Pb) as (Nd & Nu & Ndot).
    apply Ascii.eqb_eq in Hz. subst z. cbn [take_groups]. change (is_dec c_zero) with true. cbn iota.
    cbn [take_tail]. rewrite Nd, Nu, Ndot. now apply (exp_full_prefix _ b).
Qed.

Lemma int_token_kind s : wf_lit s = true -> literal_kind s = KInt.
Proof.
  intros W. unfold literal_kind, is_float_token.
  destruct (wf_lit_cases s W) as [(r & -> & Wr & _)|(c & t & -> & Hx & Wb & _)].
  - cbn [split_sign]. change (Ascii.eqb c_minus c_minus) with true. cbn iota. now rewrite (float_body_wf _ Wr).
  - destruct (hex_not_special _ Hx) as (_ & M & _). cbn [split_sign]. rewrite M. now rewrite (float_body_wf _ Wb).
Qed.

Lemma exponent_forms_kind :
  literal_kind (str_of "1e5") = KFloat /\ literal_kind (str_of "1E5") = KFloat /\ literal_kind (str_of "1e+5") = KFloat /\
  literal_kind (str_of "-1e-5") = KFloat /\ literal_kind (str_of "1_0e2") = KFloat /\ literal_kind (str_of "1.5") = KFloat /\
  literal_kind (str_of "-2.5E+0_2") = KFloat /\
  lex_number (str_of "1e5;") = LexFloat /\ lex_number (str_of "-1_0E-2;") = LexFloat /\
  literal_kind (str_of "0x1e5") = KInt /\ literal_kind (str_of "-0x7e") = KInt /\ literal_kind (str_of "-0XE") = KInt /\
  lex_number (str_of "-0x7e;") = LexInt (str_of "-0x7e") (str_of ";") /\
  literal_kind_orig (str_of "1e5") = KInt.
Proof. vm_compute. repeat split. Qed.
