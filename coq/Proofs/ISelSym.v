(* Soundness of the two symbolic executors of Models/ISel.v: if every expression computed on the way is defined,
   the QBE body / wasm body runs without trap and returns the value of the final expression. *)
From Coq Require Import ZArith List Bool Lia.
From FV Require Import Core.Syntax Core.Sem Models.Qbe Models.WasmSem Models.ISel.
Import ListNotations.
Local Open Scope Z_scope.

Lemma cls_eqb_eq a b : cls_eqb a b = true -> a = b.
Proof. destruct a, b; cbn; congruence. Qed.
Lemma cls_eqb_refl a : cls_eqb a a = true.
Proof. destruct a; reflexivity. Qed.
Lemma bop_eqb_eq a b : bop_eqb a b = true -> a = b.
Proof. destruct a, b; cbn; congruence. Qed.
Lemma cop_eqb_eq a b : cop_eqb a b = true -> a = b.
Proof. destruct a, b; cbn; congruence. Qed.
Lemma uop_eqb_eq a b : uop_eqb a b = true -> a = b.
Proof. destruct a, b; cbn; try congruence. intros H. apply cls_eqb_eq in H. congruence. Qed.

Lemma mexpr_eqb_eq : forall a b, mexpr_eqb a b = true -> a = b.
Proof.
  induction a; destruct b; cbn; try discriminate; intros H.
  - apply Nat.eqb_eq in H. congruence.
  - apply andb_prop in H as [H1 H2]. apply cls_eqb_eq in H1. apply Z.eqb_eq in H2. congruence.
  - apply andb_prop in H as [H H4]. apply andb_prop in H as [H H3]. apply andb_prop in H as [H1 H2].
    apply cls_eqb_eq in H1. apply bop_eqb_eq in H2. apply IHa1 in H3. apply IHa2 in H4. congruence.
  - apply andb_prop in H as [H H4]. apply andb_prop in H as [H H3]. apply andb_prop in H as [H1 H2].
    apply cls_eqb_eq in H1. apply cop_eqb_eq in H2. apply IHa1 in H3. apply IHa2 in H4. congruence.
  - apply andb_prop in H as [H1 H2]. apply uop_eqb_eq in H1. apply IHa in H2. congruence.
Qed.

Lemma subterm_defined args x : forall e, subterm_b x e = true -> meval args e <> None -> meval args x <> None.
Proof.
  induction e; cbn [subterm_b]; intros H D.
  - rewrite orb_false_r in H. apply mexpr_eqb_eq in H. subst. exact D.
  - rewrite orb_false_r in H. apply mexpr_eqb_eq in H. subst. exact D.
  - apply orb_prop in H as [H|H]; [apply mexpr_eqb_eq in H; subst; exact D|].
    cbn [meval] in D.
    apply orb_prop in H as [H|H].
    + apply IHe1; [exact H|]. destruct (meval args e1); [discriminate|]. exact D.
    + apply IHe2; [exact H|]. destruct (meval args e1) as [[? ?]|]; [|congruence].
      destruct (meval args e2); [discriminate|]. exact D.
  - apply orb_prop in H as [H|H]; [apply mexpr_eqb_eq in H; subst; exact D|].
    cbn [meval] in D.
    apply orb_prop in H as [H|H].
    + apply IHe1; [exact H|]. destruct (meval args e1); [discriminate|]. exact D.
    + apply IHe2; [exact H|]. destruct (meval args e1) as [[? ?]|]; [|congruence].
      destruct (meval args e2); [discriminate|]. exact D.
  - apply orb_prop in H as [H|H]; [apply mexpr_eqb_eq in H; subst; exact D|].
    cbn [meval] in D. apply IHe; [exact H|]. destruct (meval args e); [discriminate|]. exact D.
Qed.

(* ------------------------------------------------------------------ QBE *)

Section QbeSym.
Variable args : list wval.

Definition bind_rel (p : nat * (cls * Z)) (q : nat * (cls * mexpr)) : Prop :=
  fst p = fst q /\ fst (snd p) = fst (snd q) /\ meval args (snd (snd q)) = Some (snd p).
Definition env_rel (env : qenv) (se : senv) : Prop := Forall2 bind_rel env se.

Lemma lookup_rel env se : env_rel env se -> forall n c x, qlookup n se = Some (c, x) ->
  exists v, qlookup n env = Some (c, v) /\ meval args x = Some (c, v).
Proof.
  induction 1 as [|p q env se R F IH]; intros n c x Hl; [discriminate|].
  destruct p as [pn [pc pv]], q as [qn [qc qe]]. destruct R as (R1 & R2 & R3). cbn in *. subst qn qc.
  destruct (Nat.eqb n pn).
  - inversion Hl; subst. exists pv. split; [reflexivity|exact R3].
  - apply IH. exact Hl.
Qed.

Lemma fetch_rel env se : env_rel env se -> forall c a x, sfetch c se a = Some x ->
  exists v, fetch c env a = Some v /\ meval args x = Some (c, v).
Proof.
  intros R c a x H. destruct a as [n|z]; cbn in H |- *.
  - destruct (qlookup n se) as [[cn e]|] eqn:E; [|discriminate].
    destruct (lookup_rel _ _ R _ _ _ E) as (v & Hv & He). rewrite Hv.
    destruct c, cn; try discriminate; inversion H; subst.
    + exists v. split; [reflexivity|exact He].
    + exists (v mod cmod W). split; [reflexivity|]. cbn [meval]. rewrite He. reflexivity.
    + exists v. split; [reflexivity|exact He].
  - inversion H; subst. exists (z mod cmod c). split; reflexivity.
Qed.

Lemma qsym_run_incl rc : forall body se effs e effs',
  qsym_run rc body se effs = Some (e, effs') -> incl effs effs'.
Proof.
  induction body as [|i rest IH]; intros se effs e effs' H; [discriminate|].
  destruct i; cbn [qsym_run] in H.
  - destruct (sfetch c se a); [|discriminate]. destruct (sfetch c se b); [|discriminate].
    apply IH in H. intros x Hx. apply H. right. exact Hx.
  - destruct (sfetch ac se a); [|discriminate]. destruct (sfetch ac se b); [|discriminate].
    apply IH in H. intros x Hx. apply H. right. exact Hx.
  - destruct (sfetch c se a); [|discriminate].
    apply IH in H. intros x Hx. apply H. right. exact Hx.
  - destruct (is_ext o && cls_eqb c (uop_res o)); [|discriminate].
    destruct (sfetch W se a); [|discriminate].
    apply IH in H. intros x Hx. apply H. right. exact Hx.
  - discriminate.
  - discriminate.
  - discriminate.
  - destruct rest; [|discriminate]. destruct (sfetch rc se a); [|discriminate].
    inversion H; subst. intros x Hx. right. exact Hx.
Qed.

Lemma qsym_run_sound rc : forall body s se effs e effs',
  qsym_run rc body se effs = Some (e, effs') ->
  env_rel (q_env s) se ->
  (forall x, In x effs' -> meval args x <> None) ->
  exists v, qrun rc body s = Some v /\ meval args e = Some (rc, v).
Proof.
  induction body as [|i rest IH]; intros s se effs e effs' H R D; [discriminate|].
  destruct i; cbn [qsym_run] in H; cbn [qrun].
  - (* QBin *)
    destruct (sfetch c se a) as [x|] eqn:Ea; [|discriminate]. destruct (sfetch c se b) as [y|] eqn:Eb; [|discriminate].
    destruct (fetch_rel _ _ R _ _ _ Ea) as (xv & Fx & Mx). destruct (fetch_rel _ _ R _ _ _ Eb) as (yv & Fy & My).
    rewrite Fx, Fy.
    assert (Hd : meval args (MBin c o x y) <> None).
    { apply D. apply (qsym_run_incl _ _ _ _ _ _ H). left. reflexivity. }
    cbn [meval] in Hd. rewrite Mx, My, cls_eqb_refl in Hd. cbn [andb] in Hd.
    destruct (sem_bop c o xv yv) as [r|] eqn:Es; [|congruence].
    eapply IH; [exact H| |exact D].
    cbn. constructor; [|exact R]. repeat split. cbn. rewrite Mx, My, cls_eqb_refl. cbn. rewrite Es. reflexivity.
  - (* QCmp *)
    destruct (sfetch ac se a) as [x|] eqn:Ea; [|discriminate]. destruct (sfetch ac se b) as [y|] eqn:Eb; [|discriminate].
    destruct (fetch_rel _ _ R _ _ _ Ea) as (xv & Fx & Mx). destruct (fetch_rel _ _ R _ _ _ Eb) as (yv & Fy & My).
    rewrite Fx, Fy.
    eapply IH; [exact H| |exact D].
    cbn. constructor; [|exact R]. repeat split. cbn. rewrite Mx, My, cls_eqb_refl. reflexivity.
  - (* QCopy *)
    destruct (sfetch c se a) as [x|] eqn:Ea; [|discriminate].
    destruct (fetch_rel _ _ R _ _ _ Ea) as (xv & Fx & Mx). rewrite Fx.
    eapply IH; [exact H| |exact D].
    cbn. constructor; [|exact R]. repeat split. exact Mx.
  - (* QExt *)
    destruct (is_ext o && cls_eqb c (uop_res o)) eqn:Eo; [|discriminate].
    destruct (sfetch W se a) as [x|] eqn:Ea; [|discriminate].
    destruct (fetch_rel _ _ R _ _ _ Ea) as (xv & Fx & Mx). rewrite Fx.
    apply andb_prop in Eo as [Eo1 Eo2]. apply cls_eqb_eq in Eo2.
    eapply IH; [exact H| |exact D].
    cbn. constructor; [|exact R]. repeat split. cbn. rewrite Mx.
    assert (Ha : uop_arg o = W) by (destruct o; cbn in Eo1 |- *; congruence).
    rewrite Ha. cbn. rewrite Eo2. reflexivity.
  - discriminate.
  - discriminate.
  - discriminate.
  - (* QRet *)
    destruct rest; [|discriminate]. destruct (sfetch rc se a) as [x|] eqn:Ea; [|discriminate].
    destruct (fetch_rel _ _ R _ _ _ Ea) as (xv & Fx & Mx). inversion H; subst.
    exists xv. split; [exact Fx|exact Mx].
Qed.

End QbeSym.

(* ------------------------------------------------------------------ wasm *)

Section WasmSym.
Variable args : list wval.

Definition val_rel (v : wval) (sv : sval) : Prop := fst v = fst sv /\ meval args (snd sv) = Some v.

Lemma nth_rel vs svs : Forall2 val_rel vs svs -> forall n sv, nth_error svs n = Some sv ->
  exists v, nth_error vs n = Some v /\ val_rel v sv.
Proof.
  induction 1; intros n sv Hn; destruct n; cbn in *; try discriminate.
  - inversion Hn; subst. eexists; split; [reflexivity|assumption].
  - apply IHForall2. exact Hn.
Qed.

Lemma set_nth_rel vs svs : Forall2 val_rel vs svs -> forall n v sv, val_rel v sv ->
  Forall2 val_rel (set_nth n v vs) (set_nth n sv svs).
Proof.
  induction 1; intros n v sv R; destruct n; cbn; constructor; auto.
Qed.

Lemma wsym_run_incl rc : forall body st loc effs e effs',
  wsym_run rc body st loc effs = Some (e, effs') -> incl effs effs'.
Proof.
  induction body as [|i rest IH]; intros st loc effs e effs' H; [discriminate|].
  destruct i; cbn [wsym_run] in H.
  - destruct (nth_error loc n); [|discriminate]. eapply IH; exact H.
  - destruct st as [|[c x] st']; [discriminate|]. destruct (nth_error loc n) as [[c0 ?]|]; [|discriminate].
    destruct (cls_eqb c c0); [|discriminate]. apply IH in H. intros y Hy. apply H. right. exact Hy.
  - eapply IH; exact H.
  - destruct st as [|[cy y] [|[cx x] st']]; try discriminate.
    destruct (cls_eqb cx c && cls_eqb cy c); [|discriminate]. apply IH in H. intros u Hu. apply H. right. exact Hu.
  - destruct st as [|[cy y] [|[cx x] st']]; try discriminate.
    destruct (cls_eqb cx c && cls_eqb cy c); [|discriminate]. apply IH in H. intros u Hu. apply H. right. exact Hu.
  - destruct st as [|[cx x] st']; try discriminate.
    destruct (cls_eqb cx (uop_arg o)); [|discriminate]. apply IH in H. intros u Hu. apply H. right. exact Hu.
  - discriminate.
  - discriminate.
  - discriminate.
  - destruct st as [|[c x] [|? ?]]; try discriminate. destruct (cls_eqb c rc); [|discriminate].
    inversion H; subst. intros u Hu. right. exact Hu.
Qed.

Lemma wsym_run_sound rc : forall body s st loc effs e effs',
  wsym_run rc body st loc effs = Some (e, effs') ->
  Forall2 val_rel (w_stack s) st -> Forall2 val_rel (w_locals s) loc ->
  (forall x, In x effs' -> meval args x <> None) ->
  exists v, wrun rc body s = Some v /\ meval args e = Some (rc, v).
Proof.
  induction body as [|i rest IH]; intros s st loc effs e effs' H RS RL D; [discriminate|].
  destruct s as [stk locs sm sb]; cbn [w_stack w_locals w_mem w_brk] in RS, RL.
  destruct i; cbn [wsym_run] in H; cbn [wrun w_stack w_locals w_mem w_brk wpush].
  - (* get *)
    destruct (nth_error loc n) as [sv|] eqn:En; [|discriminate].
    destruct (nth_rel _ _ RL _ _ En) as (v & Hv & Rv). rewrite Hv.
    eapply IH; [exact H| | |exact D]; cbn; [constructor; assumption|exact RL].
  - (* set *)
    destruct st as [|[c x] st']; [discriminate|].
    destruct (nth_error loc n) as [[c0 x0]|] eqn:En; [|discriminate].
    destruct (cls_eqb c c0) eqn:Ec; [|discriminate].
    inversion RS as [|v sv vs svs Rv RS' E1 E2]; subst. destruct v as [cv vv]. destruct Rv as [Rv1 Rv2]. cbn in Rv1, Rv2. subst cv.
    destruct (nth_rel _ _ RL _ _ En) as ([c1 v1] & Hv & Rv). destruct Rv as [Rc _]. cbn in Rc. subst c1.
    rewrite Hv, Ec.
    eapply IH; [exact H| | |exact D]; cbn; [exact RS'|].
    apply set_nth_rel; [exact RL|]. split; [reflexivity|exact Rv2].
  - (* const *)
    eapply IH; [exact H| | |exact D]; cbn; [|exact RL].
    constructor; [|exact RS]. split; reflexivity.
  - (* bin *)
    destruct st as [|[cy y] [|[cx x] st']]; try discriminate.
    destruct (cls_eqb cx c && cls_eqb cy c) eqn:Ec; [|discriminate].
    inversion RS as [|vy svy vs1 svs1 Ry RS1 E1 E2]; subst.
    inversion RS1 as [|vx svx vs2 svs2 Rx RS2 E3 E4]; subst.
    destruct vy as [cvy yv], vx as [cvx xv]. destruct Ry as [Ry1 Ry2], Rx as [Rx1 Rx2]. cbn in Ry1, Ry2, Rx1, Rx2. subst cvy cvx.
    rewrite Ec.
    assert (Hd : meval args (MBin c o x y) <> None).
    { apply D. apply (wsym_run_incl _ _ _ _ _ _ _ H). left. reflexivity. }
    cbn [meval] in Hd. rewrite Rx2, Ry2, Ec in Hd.
    destruct (sem_bop c o xv yv) as [r|] eqn:Es; [|congruence].
    eapply IH; [exact H| | |exact D]; cbn; [|exact RL].
    constructor; [|exact RS2]. split; [reflexivity|]. cbn. rewrite Rx2, Ry2, Ec, Es. reflexivity.
  - (* cmp *)
    destruct st as [|[cy y] [|[cx x] st']]; try discriminate.
    destruct (cls_eqb cx c && cls_eqb cy c) eqn:Ec; [|discriminate].
    inversion RS as [|vy svy vs1 svs1 Ry RS1 E1 E2]; subst.
    inversion RS1 as [|vx svx vs2 svs2 Rx RS2 E3 E4]; subst.
    destruct vy as [cvy yv], vx as [cvx xv]. destruct Ry as [Ry1 Ry2], Rx as [Rx1 Rx2]. cbn in Ry1, Ry2, Rx1, Rx2. subst cvy cvx.
    rewrite Ec.
    eapply IH; [exact H| | |exact D]; cbn; [|exact RL].
    constructor; [|exact RS2]. split; [reflexivity|]. cbn. rewrite Rx2, Ry2, Ec. reflexivity.
  - (* un *)
    destruct st as [|[cx x] st']; try discriminate.
    destruct (cls_eqb cx (uop_arg o)) eqn:Ec; [|discriminate].
    inversion RS as [|vx svx vs1 svs1 Rx RS1 E1 E2]; subst.
    destruct vx as [cvx xv]. destruct Rx as [Rx1 Rx2]. cbn in Rx1, Rx2. subst cvx.
    rewrite Ec.
    eapply IH; [exact H| | |exact D]; cbn; [|exact RL].
    constructor; [|exact RS1]. split; [reflexivity|]. cbn. rewrite Rx2, Ec. reflexivity.
  - discriminate.
  - discriminate.
  - discriminate.
  - (* return *)
    destruct st as [|[c x] [|? ?]]; try discriminate. destruct (cls_eqb c rc) eqn:Ec; [|discriminate].
    inversion H; subst.
    inversion RS as [|vx svx vs1 svs1 Rx RS1 E1 E2]; subst. inversion RS1; subst.
    destruct vx as [cvx xv]. destruct Rx as [Rx1 Rx2]. cbn in Rx1, Rx2. subst cvx.
    rewrite Ec. apply cls_eqb_eq in Ec. subst c.
    exists xv. split; [reflexivity|exact Rx2].
Qed.

End WasmSym.
