(* C14 — the stable sort of Models/Sched.v: the result depends only on the per-key subsequences
   (diagnostics) and, for pairwise distinct keys, only on the set of elements (type ids, module queues). *)
From Coq Require Import List Arith Bool Lia Permutation.
From FV Require Import Models.Sched.
Import ListNotations.

Section SortFacts.
  Context {A : Type} (less : A -> A -> bool).
  Hypothesis less_trans : forall x y z, less x y = true -> less y z = true -> less x z = true.
  Hypothesis less_asym : forall x y, less x y = true -> less y x = false.

  Lemma insert_comm_lt : forall x y l, less x y = true ->
    insert less x (insert less y l) = insert less y (insert less x l).
  Proof.
    intros x y l Hxy. pose proof (less_asym _ _ Hxy) as Hyx.
    induction l as [|z l IH]; cbn [insert].
    - rewrite Hyx, Hxy. reflexivity.
    - destruct (less z x) eqn:Hzx; destruct (less z y) eqn:Hzy;
        repeat (progress (cbn [insert]; rewrite ?Hzx, ?Hzy, ?Hxy, ?Hyx)).
      + rewrite IH. reflexivity.
      + rewrite (less_trans _ _ _ Hzx Hxy) in Hzy. discriminate.
      + reflexivity.
      + reflexivity.
  Qed.

  Lemma insert_comm : forall x y l, equiv less x y = false ->
    insert less x (insert less y l) = insert less y (insert less x l).
  Proof.
    intros x y l H. unfold equiv in H.
    destruct (less x y) eqn:Hxy.
    - apply insert_comm_lt; assumption.
    - destruct (less y x) eqn:Hyx.
      + symmetry. apply insert_comm_lt; assumption.
      + discriminate.
  Qed.

  Lemma equiv_refl : forall x, equiv less x x = true.
  Proof.
    intros x. unfold equiv. destruct (less x x) eqn:H; [|reflexivity].
    rewrite (less_asym _ _ H) in H. discriminate.
  Qed.

  Lemma equiv_sym : forall x y, equiv less x y = equiv less y x.
  Proof. intros. unfold equiv. apply andb_comm. Qed.

  Lemma sort_bubble : forall p x s,
    forallb (fun a => negb (equiv less x a)) p = true ->
    sort less (p ++ x :: s) = sort less (x :: p ++ s).
  Proof.
    induction p as [|a p IH]; intros x s H; [reflexivity|].
    cbn [forallb] in H. apply andb_true_iff in H. destruct H as [Ha Hp].
    cbn [app sort]. rewrite IH by assumption. cbn [sort].
    apply insert_comm. rewrite equiv_sym. apply negb_true_iff. assumption.
  Qed.

  Lemma filter_head_split : forall (f : A -> bool) l x r, filter f l = x :: r ->
    exists p s, l = p ++ x :: s /\ forallb (fun a => negb (f a)) p = true /\ filter f s = r.
  Proof.
    intros f. induction l as [|a l IH]; intros x r H; cbn [filter] in H; [discriminate|].
    destruct (f a) eqn:Hfa.
    - injection H as -> <-. exists [], l. repeat split.
    - destruct (IH _ _ H) as (p & s & -> & Hp & Hs). exists (a :: p), s. repeat split.
      + cbn [forallb]. rewrite Hfa. assumption.
      + assumption.
  Qed.

  Lemma filter_none : forall (f : A -> bool) p, forallb (fun a => negb (f a)) p = true -> filter f p = [].
  Proof.
    induction p as [|a p IH]; intros H; [reflexivity|].
    cbn [forallb] in H. apply andb_true_iff in H. destruct H as [Ha Hp].
    cbn [filter]. apply negb_true_iff in Ha. rewrite Ha. auto.
  Qed.

  Hypothesis equiv_trans : forall x y z, equiv less x y = true -> equiv less y z = true -> equiv less x z = true.

  (* the stable sort is determined by the subsequences of mutually equivalent elements *)
  Theorem sort_by_classes : forall l1 l2,
    (forall k, filter (equiv less k) l1 = filter (equiv less k) l2) -> sort less l1 = sort less l2.
  Proof.
    induction l1 as [|x l1 IH]; intros l2 H.
    - destruct l2 as [|y l2]; [reflexivity|].
      specialize (H y). cbn [filter] in H. rewrite equiv_refl in H. discriminate.
    - pose proof (H x) as Hx. cbn [filter] in Hx. rewrite equiv_refl in Hx. symmetry in Hx.
      destruct (filter_head_split _ _ _ _ Hx) as (p & s & -> & Hp & Hs).
      rewrite sort_bubble by assumption. cbn [sort]. f_equal. apply IH.
      intros k. specialize (H k). cbn [filter] in H. rewrite !filter_app in *. cbn [filter] in H.
      destruct (equiv less k x) eqn:Hkx.
      + assert (Hpk : filter (equiv less k) p = []).
        { apply filter_none. clear - Hp Hkx equiv_trans less_asym.
          induction p as [|a p IHp]; [reflexivity|].
          cbn [forallb] in *. apply andb_true_iff in Hp. destruct Hp as [Ha Hp'].
          rewrite (IHp Hp'), andb_true_r.
          destruct (equiv less k a) eqn:Hka; [|reflexivity].
          rewrite equiv_sym in Hkx. rewrite (equiv_trans _ _ _ Hkx Hka) in Ha. discriminate. }
        rewrite Hpk in *. cbn [app] in *. injection H as H. exact H.
      + exact H.
  Qed.

  (* for pairwise inequivalent elements the sort depends only on the set *)
  Theorem sort_perm_distinct : forall l1 l2, Permutation l1 l2 -> NoDup l1 ->
    (forall a b, In a l1 -> In b l1 -> equiv less a b = true -> a = b) -> sort less l1 = sort less l2.
  Proof.
    induction 1 as [|x l l' HP IH|x y l|l l' l'' HP1 IH1 HP2 IH2]; intros Hnd Hd.
    - reflexivity.
    - cbn [sort]. f_equal. apply IH.
      + inversion Hnd; assumption.
      + intros a b Ha Hb. apply Hd; right; assumption.
    - cbn [sort]. apply insert_comm.
      destruct (equiv less y x) eqn:E; [|reflexivity].
      assert (y = x) by (apply Hd; [left; reflexivity | right; left; reflexivity | exact E]).
      subst. inversion Hnd as [|? ? Hn _]. exfalso. apply Hn. left. reflexivity.
    - rewrite IH1 by assumption. apply IH2.
      + eapply Permutation_NoDup; eassumption.
      + intros a b Ha Hb. apply Hd; eapply Permutation_in; try eassumption; apply Permutation_sym; assumption.
  Qed.
End SortFacts.

(* ---------------------------------------------------------------- diag_less is a strict weak order *)
Ltac dl_cases :=
  unfold equiv, diag_less in *;
  repeat match goal with d : diag |- _ => destruct d as [[[? ?]|] ?] end; cbn [d_loc] in *;
  repeat match goal with
         | |- context [?a =? ?b] => destruct (Nat.eqb_spec a b); subst
         | H : context [?a =? ?b] |- _ => destruct (Nat.eqb_spec a b); subst
         end; cbn [negb andb] in *;
  repeat match goal with
         | |- context [?a <? ?b] => destruct (Nat.ltb_spec a b)
         | H : context [?a <? ?b] |- _ => destruct (Nat.ltb_spec a b)
         end; cbn [negb andb] in *; try congruence; try lia.

Lemma diag_less_trans : forall x y z, diag_less x y = true -> diag_less y z = true -> diag_less x z = true.
Proof. intros x y z. dl_cases. Qed.
Lemma diag_less_asym : forall x y, diag_less x y = true -> diag_less y x = false.
Proof. intros x y. dl_cases. Qed.
Lemma diag_equiv_trans : forall x y z,
  equiv diag_less x y = true -> equiv diag_less y z = true -> equiv diag_less x z = true.
Proof. intros x y z. dl_cases. Qed.

(* two bags whose per-key subsequences coincide are emitted identically *)
Theorem sort_diags_by_key : forall b1 b2,
  (forall k, filter (equiv diag_less k) b1 = filter (equiv diag_less k) b2) -> sort_diags b1 = sort_diags b2.
Proof.
  intros. unfold sort_diags.
  apply (sort_by_classes diag_less diag_less_trans diag_less_asym diag_equiv_trans). assumption.
Qed.

(* ---------------------------------------------------------------- byte-wise string order is a strict total order *)
Lemma str_lt_trans : forall a b c, str_lt a b = true -> str_lt b c = true -> str_lt a c = true.
Proof.
  induction a as [|x a IH]; intros [|y b] [|z c] H1 H2; cbn [str_lt] in *; try discriminate; try reflexivity.
  destruct (Nat.ltb_spec x y), (Nat.ltb_spec y x), (Nat.ltb_spec y z), (Nat.ltb_spec z y),
           (Nat.ltb_spec x z), (Nat.ltb_spec z x); try discriminate; try reflexivity; try lia.
  eapply IH; eassumption.
Qed.
Lemma str_lt_asym : forall a b, str_lt a b = true -> str_lt b a = false.
Proof.
  induction a as [|x a IH]; intros [|y b] H; cbn [str_lt] in *; try discriminate; try reflexivity.
  destruct (Nat.ltb_spec x y), (Nat.ltb_spec y x); try discriminate; try reflexivity; try lia.
  apply IH. assumption.
Qed.
Lemma str_lt_total : forall a b, str_lt a b = false -> str_lt b a = false -> a = b.
Proof.
  induction a as [|x a IH]; intros [|y b] H1 H2; cbn [str_lt] in *; try discriminate; try reflexivity.
  destruct (Nat.ltb_spec x y), (Nat.ltb_spec y x); try discriminate; try lia.
  assert (x = y) by lia. subst. f_equal. apply IH; assumption.
Qed.

Lemma tid_less_trans : forall x y z, tid_less x y = true -> tid_less y z = true -> tid_less x z = true.
Proof. unfold tid_less. intros. eapply str_lt_trans; eassumption. Qed.
Lemma tid_less_asym : forall x y, tid_less x y = true -> tid_less y x = false.
Proof. unfold tid_less. intros. apply str_lt_asym. assumption. Qed.

Lemma in_map_fst_inj : forall (m : tidmap) a b, NoDup (map fst m) -> In a m -> In b m -> fst a = fst b -> a = b.
Proof.
  induction m as [|e m IH]; intros a b Hnd Ha Hb Hab; [destruct Ha|].
  cbn [map] in Hnd. inversion Hnd as [|? ? Hn Hnd']; subst.
  destruct Ha as [<-|Ha], Hb as [<-|Hb].
  - reflexivity.
  - exfalso. apply Hn. rewrite Hab. apply in_map. assumption.
  - exfalso. apply Hn. rewrite <- Hab. apply in_map. assumption.
  - apply IH; assumption.
Qed.

(* emitTypeIDs (repaired): the emitted order does not depend on the iteration order of the map *)
Theorem emit_typeids_perm : forall m1 m2, NoDup (map fst m1) -> Permutation m1 m2 ->
  emit_typeids m1 = emit_typeids m2.
Proof.
  intros m1 m2 Hnd HP. unfold emit_typeids.
  apply (sort_perm_distinct tid_less tid_less_trans tid_less_asym); try assumption.
  - eapply NoDup_map_inv. eassumption.
  - intros a b Ha Hb E. apply (in_map_fst_inj m1); try assumption.
    unfold equiv, tid_less in E. apply andb_true_iff in E. destruct E as [E1 E2].
    apply negb_true_iff in E1. apply negb_true_iff in E2. apply str_lt_total; assumption.
Qed.

(* sort.Strings on module ranks: any permutation of a batch sorts to the same queue *)
Lemma ltb_trans : forall x y z, (x <? y) = true -> (y <? z) = true -> (x <? z) = true.
Proof. intros x y z H1 H2. apply Nat.ltb_lt in H1. apply Nat.ltb_lt in H2. apply Nat.ltb_lt. lia. Qed.
Lemma ltb_asym : forall x y, (x <? y) = true -> (y <? x) = false.
Proof. intros x y H. apply Nat.ltb_lt in H. apply Nat.ltb_ge. lia. Qed.

Theorem sort_nat_perm : forall l1 l2, Permutation l1 l2 -> sort_nat l1 = sort_nat l2.
Proof.
  unfold sort_nat. induction 1 as [|x l l' HP IH|x y l|l l' l'' HP1 IH1 HP2 IH2].
  - reflexivity.
  - cbn [sort]. f_equal. assumption.
  - cbn [sort]. destruct (Nat.eq_dec y x) as [->|Hne]; [reflexivity|].
    apply (insert_comm Nat.ltb ltb_trans ltb_asym).
    unfold equiv. destruct (Nat.ltb_spec y x), (Nat.ltb_spec x y); try reflexivity. lia.
  - congruence.
Qed.
